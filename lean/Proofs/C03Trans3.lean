import Proofs.C03Trans2
import Proofs.Lemmas.Safety
/-!
  C03 (translation tie, third part) — `DecodeMessageCommonFlowSet` and `DecodeMessageCommon` of
  decoders/netflow/netflow.go, regenerated into Goflow/Generated/NetflowDecT.lean with
  * the template system as a prelude external (`Go.TemplateSystem`, `Go.tsAdd`, `Go.tsGet`: the model's `Store`),
  * `interface{}` / `[]interface{}` as the generated sum type `TD.Iface` (a template in the store, a flow set in a packet),
  * the error as a value in the result (the caller tests `errors.Is(lerr, ErrorTemplateNotFound)` and joins).

  `decodeFlowSet_trans_eq` and `decodeMessageCommon_trans_eq`: for every byte string, every store related to a model store
  (`StoreRel`) and every version / domain / size, the translated functions return (never panic, never run out of fuel)
  the model's flow sets, the model's store afterwards and the model's error class.
  `decodeMessageNetFlow_trans_eq`, `decodeMessageIPFIX_trans_eq`, `decodeMessageVersion_trans_eq`: the same for the
  roots of the decoder (packet headers behind the pointers, the model's `DecodeOut.outcome` as the error class).
-/
set_option linter.unusedSimpArgs false
set_option linter.unusedVariables false
namespace Goflow.C03Trans3
open Goflow Goflow.Producer Goflow.Generated Goflow.Go Goflow.Netflow Goflow.C05Trans Goflow.C03Trans2
open Goflow.C03Trans (fieldOf)

/-! ### what an `interface{}` holds -/

/-- the model's template behind a stored `interface{}` -/
def templateOf : TD.Iface → Option Netflow.Template
  | .TemplateRecord r => some (.data (tplOf r))
  | .NFv9OptionsTemplateRecord r => some (.v9opts (v9optOf r))
  | .IPFIXOptionsTemplateRecord r => some (.ipfixopts (ipfixoptOf r))
  | _ => none

/-- the model's flow set behind an `interface{}` of a packet -/
def flowSetOf : TD.Iface → Option Netflow.FlowSet
  | .TemplateFlowSet f => some (.template f.FlowSetHeader.Id.toNat f.FlowSetHeader.Length.toNat (f.Records.map tplOf))
  | .NFv9OptionsTemplateFlowSet f => some (.v9opts f.FlowSetHeader.Id.toNat f.FlowSetHeader.Length.toNat (f.Records.map v9optOf))
  | .IPFIXOptionsTemplateFlowSet f => some (.ipfixopts f.FlowSetHeader.Id.toNat f.FlowSetHeader.Length.toNat (f.Records.map ipfixoptOf))
  | .DataFlowSet f => some (.data f.FlowSetHeader.Id.toNat f.FlowSetHeader.Length.toNat (f.Records.map dataRecOf))
  | .OptionsDataFlowSet f => some (.optsData f.FlowSetHeader.Id.toNat f.FlowSetHeader.Length.toNat (f.Records.map optRecOf))
  | .RawFlowSet f => some (.raw f.FlowSetHeader.Id.toNat f.FlowSetHeader.Length.toNat f.Records)
  | _ => none

/-- the generated store holds the model's store: same keys in the same order, every entry a template -/
def StoreRel (st : List (Nat × TD.Iface)) (s : Netflow.Store) : Prop :=
  st.map (fun e => (e.1, templateOf e.2)) = s.map (fun e => (e.1, some e.2))

theorem StoreRel.nil : StoreRel [] [] := rfl

theorem StoreRel.lookup_none {st : List (Nat × TD.Iface)} {s : Netflow.Store} (h : StoreRel st s) (k : Nat)
    (hl : s.lookup k = none) : st.lookup k = none := by
  induction st generalizing s with
  | nil => rfl
  | cons a st ih =>
    cases s with
    | nil => simp [StoreRel] at h
    | cons c s =>
      obtain ⟨ak, av⟩ := a
      obtain ⟨ck, cv⟩ := c
      simp only [StoreRel, List.map_cons, List.cons.injEq, Prod.mk.injEq] at h
      obtain ⟨⟨hk, ht⟩, hrest⟩ := h
      subst hk
      simp only [List.lookup_cons] at hl ⊢
      cases hkc : k == ak with
      | true => simp [hkc] at hl
      | false =>
        simp only [hkc] at hl ⊢
        exact ih hrest hl

theorem StoreRel.lookup_some {st : List (Nat × TD.Iface)} {s : Netflow.Store} (h : StoreRel st s) (k : Nat) (m : Netflow.Template)
    (hl : s.lookup k = some m) : ∃ t, st.lookup k = some t ∧ templateOf t = some m := by
  induction st generalizing s with
  | nil =>
    cases s with
    | nil => simp at hl
    | cons c s => simp [StoreRel] at h
  | cons a st ih =>
    cases s with
    | nil => simp [StoreRel] at h
    | cons c s =>
      obtain ⟨ak, av⟩ := a
      obtain ⟨ck, cv⟩ := c
      simp only [StoreRel, List.map_cons, List.cons.injEq, Prod.mk.injEq] at h
      obtain ⟨⟨hk, ht⟩, hrest⟩ := h
      subst hk
      simp only [List.lookup_cons] at hl ⊢
      cases hkc : k == ak with
      | true =>
        simp only [hkc] at hl ⊢
        cases hl
        exact ⟨av, rfl, ht⟩
      | false =>
        simp only [hkc] at hl ⊢
        exact ih hrest hl

theorem StoreRel.add {st : List (Nat × TD.Iface)} {s : Netflow.Store} (h : StoreRel st s) (k : Nat) (t : TD.Iface) (m : Netflow.Template)
    (ht : templateOf t = some m) :
    StoreRel ((k, t) :: st.filter (fun e => e.1 != k)) (s.add k m) := by
  unfold StoreRel Store.add at *
  simp only [List.map_cons, ht, List.cons.injEq, true_and]
  have key : ∀ (st : List (Nat × TD.Iface)) (s : List (Nat × Netflow.Template)),
      st.map (fun e => (e.1, templateOf e.2)) = s.map (fun e => (e.1, some e.2)) →
      (st.filter (fun e => e.1 != k)).map (fun e => (e.1, templateOf e.2)) =
        (s.filter (fun e => e.1 != k)).map (fun e => (e.1, some e.2)) := by
    intro st
    induction st with
    | nil => intro s h; cases s with
      | nil => rfl
      | cons c s => simp at h
    | cons a st ih =>
      intro s h
      cases s with
      | nil => simp at h
      | cons c s =>
        simp only [List.map_cons, List.cons.injEq, Prod.mk.injEq] at h
        obtain ⟨⟨hk, ht'⟩, hrest⟩ := h
        simp only [List.filter_cons, hk]
        by_cases hc : (c.1 != k) = true
        · simp only [hc, if_true, List.map_cons, hk, ht', ih s hrest]
        · simp only [hc, if_false, ih s hrest, Bool.false_eq_true]
  exact key st s h

theorem tsKey_eq (v : UInt16) (d : UInt32) (id : UInt16) : Go.tsKey v d id = templateKey v.toNat d.toNat id.toNat := rfl

/-! ### the loops `for _, record := range records { templates.AddTemplate(…) }` -/

theorem idxLI_nat {α : Type} {l : List α} {k : Nat} (h : k < l.length) : Go.idxLI l (k : Int) = .ok l[k] := by
  have : ¬ ((k : Int) < 0) := by omega
  simp [Go.idxLI, this, C03Trans.idxL_getElem h]

abbrev AddLoopTy := Nat → Go.TemplateSystem TD.Iface → Go.Error → Int →
  Res (Go.Ctl (Go.TemplateSystem TD.Iface × Go.Error × Int) (Bytes × Go.TemplateSystem TD.Iface × TD.Iface × Go.Error))

/-- the shape of the four generated loops that add the records of a template set to the template system: they end
    within their fuel, never index out of range, never return, and leave the model's `addTemplates` -/
theorem addLoop_eq {R : Type} (records : List R) (inj : R → TD.Iface) (tid : R → UInt16) (mk : R → Netflow.Template)
    (hmk : ∀ r, templateOf (inj r) = some (mk r)) (v : UInt16) (dom : UInt32) (payload : Bytes) (flowSet : TD.Iface)
    (L : AddLoopTy)
    (hs : ∀ fuel ts e (i : Int), L (fuel + 1) ts e i =
      if decide (i < (records.length : Int)) = true then
        Go.idxLI records i >>= fun r => Go.tsAdd ts v dom (tid r) (inj r) >>= fun t =>
          Go.ifErr t.2 (fun x => .ok (.ret (payload, t.1, flowSet, some x))) fun _ => L fuel t.1 e (i + 1)
      else .ok (.brk (ts, e, i))) :
    ∀ (fuel : Nat) (st : List (Nat × TD.Iface)) (s : Netflow.Store) (e : Go.Error) (k : Nat),
      k ≤ records.length → records.length - k < fuel → StoreRel st s →
      ∃ st', L fuel (some st) e (k : Int) = .ok (.brk (some st', e, (records.length : Int))) ∧
        StoreRel st' (addTemplates v.toNat dom.toNat s ((records.drop k).map fun r => ((tid r).toNat, mk r))) := by
  intro fuel
  induction fuel with
  | zero => intro st s e k _ h; omega
  | succ fuel ih =>
    intro st s e k hk hf hrel
    rw [hs]
    by_cases hlt : k < records.length
    · have hlt' : (k : Int) < (records.length : Int) := by omega
      have hd : records.drop k = records[k] :: records.drop (k + 1) := List.drop_eq_getElem_cons hlt
      have hsucc : ((k : Int) + 1) = ((k + 1 : Nat) : Int) := by omega
      simp only [hlt', decide_true, if_true, idxLI_nat hlt, ok_bind, Go.tsAdd, Go.ifErr, hsucc]
      obtain ⟨st', h1, h2⟩ := ih _ (s.add (templateKey v.toNat dom.toNat (tid records[k]).toNat) (mk records[k])) e (k + 1)
        (Nat.succ_le_of_lt hlt) (by omega) (hrel.add (Go.tsKey v dom (tid records[k])) (inj records[k]) (mk records[k]) (hmk _))
      refine ⟨st', h1, ?_⟩
      rw [hd, List.map_cons, addTemplates]
      exact h2
    · have : k = records.length := by omega
      subst this
      have hc : ¬ ((records.length : Int) < (records.length : Int)) := by omega
      simp only [hc, decide_false, if_false, Bool.false_eq_true, List.drop_length, List.map_nil, addTemplates]
      exact ⟨st, rfl, hrel⟩

theorem addLoop1_step (payload : Bytes) (dom : UInt32) (v : UInt16) (flowSet : TD.Iface) (hdr : TD.FlowSetHeader)
    (records : List TD.TemplateRecord) (fuel : Nat) (ts : Go.TemplateSystem TD.Iface) (e : Go.Error) (i : Int) :
    TD.DecodeMessageCommonFlowSet_loop1 payload dom v flowSet hdr records (records.length : Int) (fuel + 1) ts e i =
      if decide (i < (records.length : Int)) = true then
        Go.idxLI records i >>= fun r => Go.tsAdd ts v dom r.TemplateId (TD.Iface.TemplateRecord r) >>= fun t =>
          Go.ifErr t.2 (fun x => .ok (.ret (payload, t.1, flowSet, some x))) fun _ =>
            TD.DecodeMessageCommonFlowSet_loop1 payload dom v flowSet hdr records (records.length : Int) fuel t.1 e (i + 1)
      else .ok (.brk (ts, e, i)) := by
  rw [TD.DecodeMessageCommonFlowSet_loop1, TD.DecodeMessageCommonFlowSet_loop1_body]
  by_cases hc : i < (records.length : Int)
  · simp only [hc, decide_true, if_true]
    cases h1 : Go.idxLI records i with
    | error er => rfl
    | ok r =>
      simp only [ok_bind]
      cases h2 : Go.tsAdd ts v dom r.TemplateId (TD.Iface.TemplateRecord r) with
      | error er => rfl
      | ok t =>
        obtain ⟨ts', eo⟩ := t
        cases eo <;> rfl
  · simp only [hc, decide_false, if_false, Bool.false_eq_true]
    rfl

theorem addLoop2_step (payload : Bytes) (dom : UInt32) (v : UInt16) (flowSet : TD.Iface) (hdr : TD.FlowSetHeader)
    (records : List TD.NFv9OptionsTemplateRecord) (fuel : Nat) (ts : Go.TemplateSystem TD.Iface) (e : Go.Error) (i : Int) :
    TD.DecodeMessageCommonFlowSet_loop2 payload dom v flowSet hdr records (records.length : Int) (fuel + 1) ts e i =
      if decide (i < (records.length : Int)) = true then
        Go.idxLI records i >>= fun r => Go.tsAdd ts v dom r.TemplateId (TD.Iface.NFv9OptionsTemplateRecord r) >>= fun t =>
          Go.ifErr t.2 (fun x => .ok (.ret (payload, t.1, flowSet, some x))) fun _ =>
            TD.DecodeMessageCommonFlowSet_loop2 payload dom v flowSet hdr records (records.length : Int) fuel t.1 e (i + 1)
      else .ok (.brk (ts, e, i)) := by
  rw [TD.DecodeMessageCommonFlowSet_loop2, TD.DecodeMessageCommonFlowSet_loop2_body]
  by_cases hc : i < (records.length : Int)
  · simp only [hc, decide_true, if_true]
    cases h1 : Go.idxLI records i with
    | error er => rfl
    | ok r =>
      simp only [ok_bind]
      cases h2 : Go.tsAdd ts v dom r.TemplateId (TD.Iface.NFv9OptionsTemplateRecord r) with
      | error er => rfl
      | ok t =>
        obtain ⟨ts', eo⟩ := t
        cases eo <;> rfl
  · simp only [hc, decide_false, if_false, Bool.false_eq_true]
    rfl

theorem addLoop3_step (payload : Bytes) (dom : UInt32) (v : UInt16) (flowSet : TD.Iface) (hdr : TD.FlowSetHeader)
    (records : List TD.TemplateRecord) (fuel : Nat) (ts : Go.TemplateSystem TD.Iface) (e : Go.Error) (i : Int) :
    TD.DecodeMessageCommonFlowSet_loop3 payload dom v flowSet hdr records (records.length : Int) (fuel + 1) ts e i =
      if decide (i < (records.length : Int)) = true then
        Go.idxLI records i >>= fun r => Go.tsAdd ts v dom r.TemplateId (TD.Iface.TemplateRecord r) >>= fun t =>
          Go.ifErr t.2 (fun x => .ok (.ret (payload, t.1, flowSet, some x))) fun _ =>
            TD.DecodeMessageCommonFlowSet_loop3 payload dom v flowSet hdr records (records.length : Int) fuel t.1 e (i + 1)
      else .ok (.brk (ts, e, i)) := by
  rw [TD.DecodeMessageCommonFlowSet_loop3, TD.DecodeMessageCommonFlowSet_loop3_body]
  by_cases hc : i < (records.length : Int)
  · simp only [hc, decide_true, if_true]
    cases h1 : Go.idxLI records i with
    | error er => rfl
    | ok r =>
      simp only [ok_bind]
      cases h2 : Go.tsAdd ts v dom r.TemplateId (TD.Iface.TemplateRecord r) with
      | error er => rfl
      | ok t =>
        obtain ⟨ts', eo⟩ := t
        cases eo <;> rfl
  · simp only [hc, decide_false, if_false, Bool.false_eq_true]
    rfl

theorem addLoop4_step (payload : Bytes) (dom : UInt32) (v : UInt16) (flowSet : TD.Iface) (hdr : TD.FlowSetHeader)
    (records : List TD.IPFIXOptionsTemplateRecord) (fuel : Nat) (ts : Go.TemplateSystem TD.Iface) (e : Go.Error) (i : Int) :
    TD.DecodeMessageCommonFlowSet_loop4 payload dom v flowSet hdr records (records.length : Int) (fuel + 1) ts e i =
      if decide (i < (records.length : Int)) = true then
        Go.idxLI records i >>= fun r => Go.tsAdd ts v dom r.TemplateId (TD.Iface.IPFIXOptionsTemplateRecord r) >>= fun t =>
          Go.ifErr t.2 (fun x => .ok (.ret (payload, t.1, flowSet, some x))) fun _ =>
            TD.DecodeMessageCommonFlowSet_loop4 payload dom v flowSet hdr records (records.length : Int) fuel t.1 e (i + 1)
      else .ok (.brk (ts, e, i)) := by
  rw [TD.DecodeMessageCommonFlowSet_loop4, TD.DecodeMessageCommonFlowSet_loop4_body]
  by_cases hc : i < (records.length : Int)
  · simp only [hc, decide_true, if_true]
    cases h1 : Go.idxLI records i with
    | error er => rfl
    | ok r =>
      simp only [ok_bind]
      cases h2 : Go.tsAdd ts v dom r.TemplateId (TD.Iface.IPFIXOptionsTemplateRecord r) with
      | error er => rfl
      | ok t =>
        obtain ⟨ts', eo⟩ := t
        cases eo <;> rfl
  · simp only [hc, decide_false, if_false, Bool.false_eq_true]
    rfl

/-! ### DecodeMessageCommonFlowSet -/

theorem tryCatch_ok {α β : Type} (a : α) (h : Err → Res β) (k : α → Res β) : Go.tryCatch (.ok a) h k = k a := rfl
theorem tryCatch_eof {α β : Type} (h : Err → Res β) (k : α → Res β) : Go.tryCatch (.error .eof) h k = h .eof := rfl
theorem tryCatch_bad {α β : Type} (h : Err → Res β) (k : α → Res β) : Go.tryCatch (.error .bad) h k = h .bad := rfl

/-- what DecodeMessageCommonFlowSet returns against what the model's `decodeFlowSet` gives -/
def FlowSetAgree (st : List (Nat × TD.Iface)) (r : Bytes × Go.TemplateSystem TD.Iface × TD.Iface × Go.Error) : Res SetOut → Prop
  | .error e => r.2.2.2 = some e ∧ r.2.1 = some st
  | .ok o => r.1 = o.rest ∧ r.2.2.2 = (if o.tnf then some .tnf else none) ∧ flowSetOf r.2.2.1 = some o.flowSet ∧
      ∃ st', r.2.1 = some st' ∧ StoreRel st' o.store

theorem nextI_sub (b1 : Bytes) (len : UInt16) (h : ¬ len.toNat < 4) :
    Go.nextI b1 ((len.toNat : Int) - 4) = .ok (b1.take (len.toNat - 4), b1.drop (len.toNat - 4)) := by
  have h1 : ¬ ((len.toNat : Int) - 4 < 0) := by omega
  have h2 : ((len.toNat : Int) - 4).toNat = len.toNat - 4 := by omega
  simp [Go.nextI, Go.next, h1, h2]

theorem u16_eq_0 (x : UInt16) : x.toNat = 0 ↔ x = 0 := by rw [← UInt16.toNat_inj]; rfl
theorem u16_eq_1 (x : UInt16) : x.toNat = 1 ↔ x = 1 := by rw [← UInt16.toNat_inj]; rfl
theorem u16_eq_2 (x : UInt16) : x.toNat = 2 ↔ x = 2 := by rw [← UInt16.toNat_inj]; rfl
theorem u16_eq_3 (x : UInt16) : x.toNat = 3 ↔ x = 3 := by rw [← UInt16.toNat_inj]; rfl
theorem u16_eq_9 (x : UInt16) : x.toNat = 9 ↔ x = 9 := by rw [← UInt16.toNat_inj]; rfl
theorem u16_ge_256 (x : UInt16) : x.toNat ≥ 256 ↔ x ≥ 256 := by rw [ge_iff_le, ge_iff_le, UInt16.le_iff_toNat_le]; rfl

theorem addTail_eq {R : Type} (recs : List R) (inj : R → TD.Iface) (tid : R → UInt16) (mk : R → Netflow.Template)
    (hmk : ∀ r, templateOf (inj r) = some (mk r)) (v : UInt16) (dom : UInt32) (rest : Bytes) (fs : TD.Iface)
    (L : AddLoopTy)
    (hs : ∀ fuel ts e (i : Int), L (fuel + 1) ts e i =
      if decide (i < (recs.length : Int)) = true then
        Go.idxLI recs i >>= fun r => Go.tsAdd ts v dom (tid r) (inj r) >>= fun t =>
          Go.ifErr t.2 (fun x => .ok (.ret (rest, t.1, fs, some x))) fun _ => L fuel t.1 e (i + 1)
      else .ok (.brk (ts, e, i)))
    (st : List (Nat × TD.Iface)) (s : Netflow.Store) (hrel : StoreRel st s) :
    ∃ st', (L ((recs.length : Int).toNat + 1) (some st) none 0 >>= fun t =>
        Go.Ctl.elim t (fun x => Except.ok x) fun c => Except.ok (rest, c.1, fs, c.2.1)) = .ok (rest, some st', fs, none) ∧
      StoreRel st' (addTemplates v.toNat dom.toNat s (recs.map fun r => ((tid r).toNat, mk r))) := by
  obtain ⟨st', h1, h2⟩ := addLoop_eq recs inj tid mk hmk v dom rest fs L hs (recs.length + 1) st s none 0
    (Nat.zero_le _) (by omega) hrel
  refine ⟨st', ?_, by simpa using h2⟩
  have e1 : (recs.length : Int).toNat = recs.length := Int.toNat_natCast _
  have e2 : ((0 : Nat) : Int) = 0 := rfl
  rw [e1, ← e2, h1]
  rfl

theorem decodeFlowSet_trans_eq (b : Bytes) (st : List (Nat × TD.Iface)) (s : Netflow.Store) (dom : UInt32) (v : UInt16) (fuel : Nat)
    (hf : b.length < fuel) (hrel : StoreRel st s) :
    ∃ r, TD.DecodeMessageCommonFlowSet b (some st) dom v = .ok r ∧ FlowSetAgree st r (decodeFlowSet fuel v.toNat dom.toNat s b) := by
  unfold TD.DecodeMessageCommonFlowSet decodeFlowSet
  by_cases h4 : 4 ≤ b.length
  · have h2 : 2 ≤ b.length := by omega
    have h2' : 2 ≤ (b.drop 2).length := by simp only [List.length_drop]; omega
    have hb1 : (b.drop 4).length < fuel := by simp only [List.length_drop]; omega
    rw [readFields_22 h4]
    simp only [readU16_ok h2, tryCatch_ok, readU16_ok h2', List.drop_drop, ← lenAt_toNat, ← tyAt_toNat, tyAt_drop2, UInt16.ofNat_toNat, Nat.reduceAdd]
    generalize tyAt b = id
    generalize lenAt b = len
    generalize b.drop 4 = b1 at hb1
    by_cases hlen : len.toNat < 4
    · have hneg : ((len.toNat : Int) - 4 < 0) := by omega
      simp only [hneg, decide_true, if_true, hlen]
      exact ⟨_, rfl, rfl, rfl⟩
    · have hneg : ¬ ((len.toNat : Int) - 4 < 0) := by omega
      simp only [hneg, decide_false, if_false, Bool.false_eq_true, hlen, nextI_sub b1 len hlen, ok_bind, nextN,
        u16_eq_0, u16_eq_1, u16_eq_2, u16_eq_3, u16_eq_9, u16_eq_10, u16_ge_256]
      have hbody : (b1.take (len.toNat - 4)).length < fuel := by
        simp only [List.length_take]; omega
      generalize b1.take (len.toNat - 4) = body at hbody
      generalize b1.drop (len.toNat - 4) = rest
      by_cases c1 : id = 0 ∧ v = 9
      · have g1 : (decide (id = 0) && decide (v = 9)) = true := by simp [c1.1, c1.2]
        rw [if_pos g1, if_pos (Or.inl c1)]
        have hd := decodeTemplateSet_trans_eq v body fuel hbody
        cases hg : TD.DecodeTemplateSet v body with
        | error er =>
          have hm := map_err hd hg
          have := decodeTemplateSet_safe v.toNat fuel body hbody er hm
          subst this
          rw [hm]
          exact ⟨_, rfl, rfl, rfl⟩
        | ok t6 =>
          have hm := map_ok hd hg
          rw [hm]
          simp only [tryCatch_ok, Option.isNone_some, Bool.not_false, if_true]
          obtain ⟨st', h1, h2⟩ := addTail_eq t6.2 TD.Iface.TemplateRecord (fun r => r.TemplateId) (fun r => .data (tplOf r))
            (fun r => rfl) v dom rest (TD.Iface.TemplateFlowSet { FlowSetHeader := { Id := id, Length := len }, Records := t6.2 })
            (TD.DecodeMessageCommonFlowSet_loop1 rest dom v _ { Id := id, Length := len } t6.2 (t6.2.length : Int))
            (addLoop1_step rest dom v _ _ t6.2) st s hrel
          rw [h1]
          refine ⟨_, rfl, rfl, rfl, ?_, st', rfl, ?_⟩
          · simp [flowSetOf]
          · simpa [List.map_map, tplOf, Function.comp_def] using h2
      · have g1 : ¬ (decide (id = 0) && decide (v = 9)) = true := by simpa using c1
        rw [if_neg g1]
        by_cases c2 : id = 1 ∧ v = 9
        · have g2 : (decide (id = 1) && decide (v = 9)) = true := by simp [c2.1, c2.2]
          have n2 : id ≠ 2 := by rw [c2.1]; decide
          have m1 : ¬ (id = 0 ∧ v = 9 ∨ id = 2 ∧ v = 10) := by
            rintro (h | h)
            · exact c1 h
            · exact n2 h.1
          rw [if_pos g2, if_neg m1, if_pos c2]
          have hd := decodeNFv9OptionsTemplateSet_trans_eq body fuel hbody
          cases hg : TD.DecodeNFv9OptionsTemplateSet body with
          | error er =>
            have hm := map_err hd hg
            have := decodeNFv9OptionsTemplateSet_safe fuel body hbody er hm
            subst this
            rw [hm]
            exact ⟨_, rfl, rfl, rfl⟩
          | ok t6 =>
            have hm := map_ok hd hg
            rw [hm]
            simp only [tryCatch_ok, Option.isNone_some, Bool.not_false, if_true]
            obtain ⟨st', h1, h2⟩ := addTail_eq t6.2 TD.Iface.NFv9OptionsTemplateRecord (fun r => r.TemplateId) (fun r => .v9opts (v9optOf r))
              (fun r => rfl) v dom rest (TD.Iface.NFv9OptionsTemplateFlowSet { FlowSetHeader := { Id := id, Length := len }, Records := t6.2 })
              (TD.DecodeMessageCommonFlowSet_loop2 rest dom v _ { Id := id, Length := len } t6.2 (t6.2.length : Int))
              (addLoop2_step rest dom v _ _ t6.2) st s hrel
            rw [h1]
            refine ⟨_, rfl, rfl, rfl, ?_, st', rfl, ?_⟩
            · simp [flowSetOf]
            · simpa [List.map_map, v9optOf, Function.comp_def] using h2
        · have g2 : ¬ (decide (id = 1) && decide (v = 9)) = true := by simpa using c2
          rw [if_neg g2]
          by_cases c3 : id = 2 ∧ v = 10
          · have g3 : (decide (id = 2) && decide (v = 10)) = true := by simp [c3.1, c3.2]
            rw [if_pos g3, if_pos (Or.inr c3)]
            have hd := decodeTemplateSet_trans_eq v body fuel hbody
            cases hg : TD.DecodeTemplateSet v body with
            | error er =>
              have hm := map_err hd hg
              have := decodeTemplateSet_safe v.toNat fuel body hbody er hm
              subst this
              rw [hm]
              exact ⟨_, rfl, rfl, rfl⟩
            | ok t6 =>
              have hm := map_ok hd hg
              rw [hm]
              simp only [tryCatch_ok, Option.isNone_some, Bool.not_false, if_true]
              obtain ⟨st', h1, h2⟩ := addTail_eq t6.2 TD.Iface.TemplateRecord (fun r => r.TemplateId) (fun r => .data (tplOf r))
                (fun r => rfl) v dom rest (TD.Iface.TemplateFlowSet { FlowSetHeader := { Id := id, Length := len }, Records := t6.2 })
                (TD.DecodeMessageCommonFlowSet_loop3 rest dom v _ { Id := id, Length := len } t6.2 (t6.2.length : Int))
                (addLoop3_step rest dom v _ _ t6.2) st s hrel
              rw [h1]
              refine ⟨_, rfl, rfl, rfl, ?_, st', rfl, ?_⟩
              · simp [flowSetOf]
              · simpa [List.map_map, tplOf, Function.comp_def] using h2
          · have g3 : ¬ (decide (id = 2) && decide (v = 10)) = true := by simpa using c3
            have m1 : ¬ (id = 0 ∧ v = 9 ∨ id = 2 ∧ v = 10) := by
              rintro (h | h)
              · exact c1 h
              · exact c3 h
            rw [if_neg g3, if_neg m1, if_neg c2]
            by_cases c4 : id = 3 ∧ v = 10
            · have g4 : (decide (id = 3) && decide (v = 10)) = true := by simp [c4.1, c4.2]
              rw [if_pos g4, if_pos c4]
              have hd := decodeIPFIXOptionsTemplateSet_trans_eq body fuel hbody
              cases hg : TD.DecodeIPFIXOptionsTemplateSet body with
              | error er =>
                have hm := map_err hd hg
                rcases decodeIPFIXOptionsTemplateSet_safe fuel body hbody er hm with rfl | rfl
                · rw [hm]; exact ⟨_, rfl, rfl, rfl⟩
                · rw [hm]; exact ⟨_, rfl, rfl, rfl⟩
              | ok t6 =>
                have hm := map_ok hd hg
                rw [hm]
                simp only [tryCatch_ok, Option.isNone_some, Bool.not_false, if_true]
                obtain ⟨st', h1, h2⟩ := addTail_eq t6.2 TD.Iface.IPFIXOptionsTemplateRecord (fun r => r.TemplateId) (fun r => .ipfixopts (ipfixoptOf r))
                  (fun r => rfl) v dom rest (TD.Iface.IPFIXOptionsTemplateFlowSet { FlowSetHeader := { Id := id, Length := len }, Records := t6.2 })
                  (TD.DecodeMessageCommonFlowSet_loop4 rest dom v _ { Id := id, Length := len } t6.2 (t6.2.length : Int))
                  (addLoop4_step rest dom v _ _ t6.2) st s hrel
                rw [h1]
                refine ⟨_, rfl, rfl, rfl, ?_, st', rfl, ?_⟩
                · simp [flowSetOf]
                · simpa [List.map_map, ipfixoptOf, Function.comp_def] using h2
            · have g4 : ¬ (decide (id = 3) && decide (v = 10)) = true := by simpa using c4
              rw [if_neg g4, if_neg c4]
              by_cases c5 : id ≥ 256
              · have g5 : decide (id ≥ 256) = true := by simpa using c5
                rw [if_pos g5, if_pos c5]
                simp only [Option.isNone_some, Bool.false_eq_true, if_false, Go.tsGet, tsKey_eq, Store.get]
                cases hl : s.lookup (templateKey v.toNat dom.toNat id.toNat) with
                | none =>
                  rw [hrel.lookup_none _ hl]
                  exact ⟨_, rfl, rfl, rfl, rfl, st, rfl, hrel⟩
                | some m =>
                  obtain ⟨t, ht1, ht2⟩ := hrel.lookup_some _ m hl
                  rw [ht1]
                  simp only [ok_bind, Go.ifErr]
                  cases t with
                  | TemplateRecord r =>
                    cases ht2
                    simp only []
                    have hd := decodeDataSet_trans_eq v body r.Fields fuel hbody
                    cases hg : TD.DecodeDataSet v body r.Fields with
                    | error er =>
                      have hm : decodeDataSet (tplOf r).fields fuel body = .error er := map_err hd hg
                      have hm' := map_err hd hg
                      rcases decodeDataSet_safe _ fuel body hbody er hm with rfl | rfl
                      · simp only [hg, hm, hm', tryCatch_eof]; refine ⟨_, rfl, ?_⟩; exact ⟨rfl, rfl⟩
                      · simp only [hg, hm, hm', tryCatch_bad]; refine ⟨_, rfl, ?_⟩; exact ⟨rfl, rfl⟩
                    | ok t6 =>
                      have hm : decodeDataSet (tplOf r).fields fuel body = .ok (t6.2.map dataRecOf) := map_ok hd hg
                      have hm' := map_ok hd hg
                      simp only [hg, hm, hm', tryCatch_ok]
                      refine ⟨_, rfl, ?_⟩
                      exact ⟨rfl, rfl, rfl, st, rfl, hrel⟩
                  | NFv9OptionsTemplateRecord r =>
                    cases ht2
                    simp only []
                    have hd := decodeOptionsDataSet_trans_eq v body r.Scopes r.Options fuel hbody
                    cases hg : TD.DecodeOptionsDataSet v body r.Scopes r.Options with
                    | error er =>
                      have hm : decodeOptionsDataSet (v9optOf r).scopes (v9optOf r).options fuel body = .error er := map_err hd hg
                      have hm' := map_err hd hg
                      rcases decodeOptionsDataSet_safe _ _ fuel body hbody er hm with rfl | rfl
                      · simp only [hg, hm, hm', tryCatch_eof]; refine ⟨_, rfl, ?_⟩; exact ⟨rfl, rfl⟩
                      · simp only [hg, hm, hm', tryCatch_bad]; refine ⟨_, rfl, ?_⟩; exact ⟨rfl, rfl⟩
                    | ok t6 =>
                      have hm : decodeOptionsDataSet (v9optOf r).scopes (v9optOf r).options fuel body = .ok (t6.2.map optRecOf) := map_ok hd hg
                      have hm' := map_ok hd hg
                      simp only [hg, hm, hm', tryCatch_ok]
                      refine ⟨_, rfl, ?_⟩
                      exact ⟨rfl, rfl, rfl, st, rfl, hrel⟩
                  | IPFIXOptionsTemplateRecord r =>
                    cases ht2
                    simp only []
                    have hd := decodeOptionsDataSet_trans_eq v body r.Scopes r.Options fuel hbody
                    cases hg : TD.DecodeOptionsDataSet v body r.Scopes r.Options with
                    | error er =>
                      have hm : decodeOptionsDataSet (ipfixoptOf r).scopes (ipfixoptOf r).options fuel body = .error er := map_err hd hg
                      have hm' := map_err hd hg
                      rcases decodeOptionsDataSet_safe _ _ fuel body hbody er hm with rfl | rfl
                      · simp only [hg, hm, hm', tryCatch_eof]; refine ⟨_, rfl, ?_⟩; exact ⟨rfl, rfl⟩
                      · simp only [hg, hm, hm', tryCatch_bad]; refine ⟨_, rfl, ?_⟩; exact ⟨rfl, rfl⟩
                    | ok t6 =>
                      have hm : decodeOptionsDataSet (ipfixoptOf r).scopes (ipfixoptOf r).options fuel body = .ok (t6.2.map optRecOf) := map_ok hd hg
                      have hm' := map_ok hd hg
                      simp only [hg, hm, hm', tryCatch_ok]
                      refine ⟨_, rfl, ?_⟩
                      exact ⟨rfl, rfl, rfl, st, rfl, hrel⟩
                  | nil => simp [templateOf] at ht2
                  | TemplateFlowSet r => simp [templateOf] at ht2
                  | NFv9OptionsTemplateFlowSet r => simp [templateOf] at ht2
                  | IPFIXOptionsTemplateFlowSet r => simp [templateOf] at ht2
                  | DataFlowSet r => simp [templateOf] at ht2
                  | OptionsDataFlowSet r => simp [templateOf] at ht2
                  | RawFlowSet r => simp [templateOf] at ht2
              · have g5 : ¬ decide (id ≥ 256) = true := by simpa using c5
                rw [if_neg g5, if_neg c5]
                exact ⟨_, rfl, rfl, rfl⟩
  · have h4' : b.length < 4 := by omega
    rw [readFields_22_short h4']
    by_cases h2 : 2 ≤ b.length
    · have h2' : (b.drop 2).length < 2 := by simp only [List.length_drop]; omega
      simp only [readU16_ok h2, tryCatch_ok, readU16_short h2', tryCatch_eof]
      exact ⟨_, rfl, rfl, rfl⟩
    · simp only [readU16_short (Nat.lt_of_not_le h2), tryCatch_eof]
      exact ⟨_, rfl, rfl, rfl⟩
/-! ### DecodeMessageCommon -/

theorem u16OfInt_lt (n : Nat) (size : UInt16) : (Go.u16OfInt (n : Int) < size) ↔ n % 65536 < size.toNat := by
  have h : ((n : Int) % 65536).toNat = n % 65536 := by omega
  rw [UInt16.lt_iff_toNat_lt, Go.u16OfInt, h, UInt16.toNat_ofNat']
  have : n % 65536 % 2 ^ 16 = n % 65536 := Nat.mod_eq_of_lt (Nat.mod_lt _ (by decide))
  rw [this]

/-- the condition of the set loop -/
theorem commonCond_iff (size v : UInt16) (startLen k : Nat) (p : Bytes) (hle : p.length ≤ startLen) :
    ((((decide ((k : Int) < (size.toNat : Int)) && decide (v = 9)) ||
        (decide (Go.u16OfInt ((startLen : Int) - (p.length : Int)) < size) && decide (v = 10))) &&
        decide ((p.length : Int) > 0)) = true) ↔
      (((k < size.toNat ∧ v.toNat = 9) ∨ ((startLen - p.length) % 65536 < size.toNat ∧ v.toNat = 10)) ∧ 0 < p.length) := by
  have hsub : (startLen : Int) - (p.length : Int) = ((startLen - p.length : Nat) : Int) := by omega
  rw [hsub]
  simp only [Bool.and_eq_true, Bool.or_eq_true, decide_eq_true_eq, u16OfInt_lt, u16_eq_9, u16_eq_10]
  constructor
  · rintro ⟨h1, h2⟩
    refine ⟨?_, by omega⟩
    rcases h1 with ⟨a, b⟩ | ⟨a, b⟩
    · exact Or.inl ⟨by omega, b⟩
    · exact Or.inr ⟨a, b⟩
  · rintro ⟨h1, h2⟩
    refine ⟨?_, by omega⟩
    rcases h1 with ⟨a, b⟩ | ⟨a, b⟩
    · exact Or.inl ⟨by omega, b⟩
    · exact Or.inr ⟨a, b⟩

/-- the error DecodeMessageCommon returns for the model's message outcome: a fatal error, else the joined
    template-not-found -/
def outcomeOf (m : MsgOut) : Go.Error :=
  match m.err with
  | some e => some e
  | none => if m.tnf then some .tnf else none

theorem errJoin_acc (e : Go.Error) (he : e = none ∨ e = some .tnf) (a b : Bool) :
    Go.errJoin (if a then Go.errJoin e (some .tnf) else e) (if b then some .tnf else none) =
      Go.errJoin e (if (a || b) then some .tnf else none) := by
  rcases he with rfl | rfl <;> cases a <;> cases b <;> rfl

theorem commonLoop_eq (dom : UInt32) (size v : UInt16) (startLen : Nat) :
    ∀ (fuel mfuel : Nat) (p : Bytes) (st : List (Nat × TD.Iface)) (s : Netflow.Store) (fsets : List TD.Iface) (e : Go.Error) (k : Nat),
      p.length < fuel → p.length < mfuel → p.length ≤ startLen → StoreRel st s → (e = none ∨ e = some .tnf) →
      ∃ p' st' gs, gs.map flowSetOf = (decodeSets v.toNat dom.toNat size.toNat startLen mfuel k s p).flowSets.map some ∧
        StoreRel st' (decodeSets v.toNat dom.toNat size.toNat startLen mfuel k s p).store ∧
        ((∃ ef, (decodeSets v.toNat dom.toNat size.toNat startLen mfuel k s p).err = some ef ∧
            TD.DecodeMessageCommon_loop1 dom size v (startLen : Int) fuel p (some st) fsets e ((startLen : Int) - (p.length : Int)) (k : Int) =
              .ok (.ret (p', some st', fsets ++ gs, some ef))) ∨
         ((decodeSets v.toNat dom.toNat size.toNat startLen mfuel k s p).err = none ∧ ∃ rd i',
            TD.DecodeMessageCommon_loop1 dom size v (startLen : Int) fuel p (some st) fsets e ((startLen : Int) - (p.length : Int)) (k : Int) =
              .ok (.brk (p', some st', fsets ++ gs,
                Go.errJoin e (if (decodeSets v.toNat dom.toNat size.toNat startLen mfuel k s p).tnf then some .tnf else none), rd, i')))) := by
  intro fuel
  induction fuel with
  | zero => intro mfuel p st s fsets e k h; omega
  | succ fuel ih =>
    intro mfuel p st s fsets e k hf hm hle hrel he
    obtain ⟨m, rfl⟩ : ∃ m, mfuel = m + 1 := ⟨mfuel - 1, by omega⟩
    rw [TD.DecodeMessageCommon_loop1, TD.DecodeMessageCommon_loop1_body, decodeSets]
    have hci := commonCond_iff size v startLen k p hle
    by_cases hc : ((k < size.toNat ∧ v.toNat = 9) ∨ ((startLen - p.length) % 65536 < size.toNat ∧ v.toNat = 10)) ∧ 0 < p.length
    · rw [if_pos (hci.2 hc)]
      simp only [hc, and_self, if_true]
      obtain ⟨r, hr, hag⟩ := decodeFlowSet_trans_eq p st s dom v (p.length + 2) (by omega) hrel
      obtain ⟨f1, f2⟩ := decodeFlowSet_safe (p.length + 2) v.toNat dom.toNat s p (by omega)
      obtain ⟨p1, ts1, fs1, le1⟩ := r
      rw [hr]
      simp only [ok_bind]
      cases hd : decodeFlowSet (p.length + 2) v.toNat dom.toNat s p with
      | error ef =>
        rw [hd] at hag
        obtain ⟨h1, h2⟩ := hag
        simp only at h1 h2
        subst h1 h2
        refine ⟨p1, st, [], rfl, hrel, Or.inl ⟨ef, rfl, ?_⟩⟩
        rcases f1 ef hd with rfl | rfl <;> simp [Go.errIs]
      | ok o =>
        rw [hd] at hag
        obtain ⟨h1, h2, h3, st1, h4, h5⟩ := hag
        simp only at h1 h2 h3 h4
        subst h1 h2 h4
        have hprog := f2 o hd
        obtain ⟨p', st', gs, g1, g2, g3⟩ := ih m o.rest st1 o.store (fsets ++ [fs1])
          (if o.tnf then Go.errJoin e (some .tnf) else e) (k + 1) (by omega) (by omega) (by omega) h5
          (by rcases he with rfl | rfl <;> cases o.tnf <;> simp [Go.errJoin])
        have hsucc : ((k : Int) + 1) = ((k + 1 : Nat) : Int) := by omega
        refine ⟨p', st', fs1 :: gs, by simp [g1, h3], g2, ?_⟩
        rcases g3 with ⟨ef, e1, e2⟩ | ⟨e1, rd, i', e2⟩
        · refine Or.inl ⟨ef, e1, ?_⟩
          rw [← hsucc] at e2
          cases htnf : o.tnf <;> simp [Go.errIs, htnf] at e2 ⊢ <;> exact e2
        · refine Or.inr ⟨e1, rd, i', ?_⟩
          rw [← errJoin_acc e he o.tnf]
          rw [← hsucc] at e2
          cases htnf : o.tnf <;> simp [Go.errIs, htnf] at e2 ⊢ <;> exact e2
    · rw [if_neg (fun h => hc (hci.1 h))]
      simp only [hc, if_false, ok_bind]
      refine ⟨p, st, [], rfl, hrel, Or.inr ⟨?_, (startLen : Int) - (p.length : Int), (k : Int), ?_⟩⟩
      · trivial
      · rcases he with rfl | rfl <;> simp [Go.errJoin]
/-- netflow.DecodeMessageCommon for every byte string, every template store (related to a model store), domain, size and
    version: it returns (no panic, no loop out of fuel) the model's flow sets, the model's store afterwards, and as its
    error the model's outcome — the fatal error of the set that stopped the loop, else template-not-found if some set had
    no template, else nil -/
theorem decodeMessageCommon_trans_eq (b : Bytes) (st : List (Nat × TD.Iface)) (s : Netflow.Store) (dom : UInt32)
    (size v : UInt16) (fuel : Nat) (hf : b.length < fuel) (hrel : StoreRel st s) :
    ∃ p' st' gs, TD.DecodeMessageCommon b (some st) dom size v =
        .ok (p', some st', gs, outcomeOf (decodeSets v.toNat dom.toNat size.toNat b.length fuel 0 s b)) ∧
      gs.map flowSetOf = (decodeSets v.toNat dom.toNat size.toNat b.length fuel 0 s b).flowSets.map some ∧
      StoreRel st' (decodeSets v.toNat dom.toNat size.toNat b.length fuel 0 s b).store := by
  unfold TD.DecodeMessageCommon
  obtain ⟨p', st', gs, g1, g2, g3⟩ := commonLoop_eq dom size v b.length (Go.loopFuel b) fuel b st s [] none 0
    (by simp [Go.loopFuel]) hf (Nat.le_refl _) hrel (Or.inl rfl)
  have e0 : ((b.length : Int) - (b.length : Int)) = 0 := by omega
  have e1 : ((0 : Nat) : Int) = 0 := rfl
  rw [e0, e1] at g3
  simp only []
  rcases g3 with ⟨ef, h1, h2⟩ | ⟨h1, rd, i', h2⟩
  · refine ⟨p', st', gs, ?_, g1, g2⟩
    rw [h2]
    simp [Go.Ctl.elim, outcomeOf, h1]
  · refine ⟨p', st', gs, ?_, g1, g2⟩
    rw [h2]
    simp [Go.Ctl.elim, outcomeOf, h1, Go.errJoin]

/-! ### DecodeMessageNetFlow, DecodeMessageIPFIX, DecodeMessageVersion -/

theorem readFields_v9hdr {b : Bytes} (h : 18 ≤ b.length) :
    readFields [2, 4, 4, 4, 4] b = .ok ([beNat (b.take 2), beNat ((b.drop 2).take 4), beNat ((b.drop 6).take 4),
      beNat ((b.drop 10).take 4), beNat ((b.drop 14).take 4)], b.drop 18) := by
  simp (disch := (first | omega | (simp only [List.length_drop]; omega))) only [readFields, readU_ok, List.drop_drop]

theorem readFields_v9hdr_short {b : Bytes} (h : b.length < 18) : readFields [2, 4, 4, 4, 4] b = .error .eof :=
  readFields_err_of_lt _ _ (by simpa [sumW] using h)

theorem readFields_ipfixhdr {b : Bytes} (h : 14 ≤ b.length) :
    readFields [2, 4, 4, 4] b = .ok ([beNat (b.take 2), beNat ((b.drop 2).take 4), beNat ((b.drop 6).take 4),
      beNat ((b.drop 10).take 4)], b.drop 14) := by
  simp (disch := (first | omega | (simp only [List.length_drop]; omega))) only [readFields, readU_ok, List.drop_drop]

theorem readFields_ipfixhdr_short {b : Bytes} (h : b.length < 14) : readFields [2, 4, 4, 4] b = .error .eof :=
  readFields_err_of_lt _ _ (by simpa [sumW] using h)

/-- the generated NFv9Packet holds the model's packet -/
def v9PacketOk (pk : TD.NFv9Packet) (m : Netflow.Packet) : Prop :=
  m.version = pk.Version.toNat ∧
  m.hdr = [pk.Count.toNat, pk.SystemUptime.toNat, pk.UnixSeconds.toNat, pk.SequenceNumber.toNat, pk.SourceId.toNat] ∧
  pk.FlowSets.map flowSetOf = m.flowSets.map some

def ipfixPacketOk (pk : TD.IPFIXPacket) (m : Netflow.Packet) : Prop :=
  m.version = pk.Version.toNat ∧
  m.hdr = [pk.Length.toNat, pk.ExportTime.toNat, pk.SequenceNumber.toNat, pk.ObservationDomainId.toNat] ∧
  pk.FlowSets.map flowSetOf = m.flowSets.map some

theorem outcome_eq (o : DecodeOut) : o.outcome = outcomeOf ⟨o.packet.flowSets, o.tnf, o.store, o.err⟩ := rfl

/-- the packet DecodeMessageNetFlow leaves when the header is there -/
def v9PkAt (b : Bytes) (gs : List TD.Iface) : TD.NFv9Packet :=
  { Version := 9,
    Count := UInt16.ofNat (beNat (b.take 2)),
    SystemUptime := UInt32.ofNat (beNat ((b.drop 2).take 4)),
    UnixSeconds := UInt32.ofNat (beNat ((b.drop 6).take 4)),
    SequenceNumber := UInt32.ofNat (beNat ((b.drop 10).take 4)),
    SourceId := UInt32.ofNat (beNat ((b.drop 14).take 4)),
    FlowSets := gs }

/-- the packet DecodeMessageIPFIX leaves when the header is there -/
def ipfixPkAt (b : Bytes) (gs : List TD.Iface) : TD.IPFIXPacket :=
  { Version := 10,
    Length := UInt16.ofNat (beNat (b.take 2)),
    ExportTime := UInt32.ofNat (beNat ((b.drop 2).take 4)),
    SequenceNumber := UInt32.ofNat (beNat ((b.drop 6).take 4)),
    ObservationDomainId := UInt32.ofNat (beNat ((b.drop 10).take 4)),
    FlowSets := gs }

theorem ifErr_same {α : Type} (e : Go.Error) (f : Go.Error → α) :
    (if (!e.isNone) = true then f e else f none) = f e := by
  cases e <;> rfl

theorem decodeMessageNetFlow_trans_eq (b : Bytes) (st : List (Nat × TD.Iface)) (s : Netflow.Store) (pk : TD.NFv9Packet)
    (hrel : StoreRel st s) :
    ∃ p' st' pk', TD.DecodeMessageNetFlow b (some st) pk = .ok (p', some st', pk', (decodeMessageNetFlow s b).outcome) ∧
      StoreRel st' (decodeMessageNetFlow s b).store ∧ (18 ≤ b.length → v9PacketOk pk' (decodeMessageNetFlow s b).packet) := by
  unfold TD.DecodeMessageNetFlow decodeMessageNetFlow
  by_cases h18 : 18 ≤ b.length
  · rw [readFields_v9hdr h18]
    simp (disch := (first | omega | (simp only [List.length_drop]; omega))) only [readU16_ok, readU32_ok, tryCatch_ok, List.drop_drop, Nat.reduceAdd]
    obtain ⟨p', st', gs, h1, h2, h3⟩ := decodeMessageCommon_trans_eq (b.drop 18) st s (UInt32.ofNat (beNat ((b.drop 14).take 4)))
      (UInt16.ofNat (beNat (b.take 2))) 9 ((b.drop 18).length + 2) (by omega) hrel
    simp only [u32_beNat, u16_beNat, show (9 : UInt16).toNat = 9 from rfl] at h1 h2 h3
    rw [h1]
    simp only [ok_bind]
    refine ⟨p', st', v9PkAt b gs, ?_, h3, fun _ => ⟨rfl, ?_, h2⟩⟩
    · exact ifErr_same _ (fun e => Except.ok (p', some st', v9PkAt b gs, e))
    · simp [v9PkAt, beNat_take2_mod, beNat_take4_mod]
  · have h18' : b.length < 18 := by omega
    rw [readFields_v9hdr_short h18']
    have hcases : b.length < 2 ∨ (2 ≤ b.length ∧ b.length < 6) ∨ (6 ≤ b.length ∧ b.length < 10) ∨ (10 ≤ b.length ∧ b.length < 14) ∨
        (14 ≤ b.length ∧ b.length < 18) := by omega
    rcases hcases with h | h | h | h | h <;>
      simp (disch := (first | omega | (simp only [List.length_drop]; omega))) only [readU16_ok, readU32_ok, readU16_short,
        readU32_short, tryCatch_ok, tryCatch_eof, List.drop_drop] <;>
      exact ⟨_, st, _, rfl, hrel, fun h' => absurd h' h18⟩
theorem u16_sub16 (x : UInt16) : (x - 16).toNat = (x.toNat + 65536 - 16) % 65536 := by
  rw [UInt16.toNat_sub]
  have : (16 : UInt16).toNat = 16 := rfl
  rw [this]
  have h := x.toNat_lt
  omega

/-- the model's DecodeMessageIPFIX once the 14 header bytes are there, the set-loop bound `uint16(Length - 16)` named -/
theorem decodeMessageIPFIX_of_hdr (s : Store) (b : Bytes) (h14 : 14 ≤ b.length) (q : Nat)
    (hq : (beNat (b.take 2) + 65536 - 16) % 65536 = q) :
    decodeMessageIPFIX s b =
      ⟨⟨10, [beNat (b.take 2), beNat ((b.drop 2).take 4), beNat ((b.drop 6).take 4), beNat ((b.drop 10).take 4)],
        (decodeSets 10 (beNat ((b.drop 10).take 4)) q (b.drop 14).length ((b.drop 14).length + 2) 0 s (b.drop 14)).flowSets⟩,
       (decodeSets 10 (beNat ((b.drop 10).take 4)) q (b.drop 14).length ((b.drop 14).length + 2) 0 s (b.drop 14)).tnf,
       (decodeSets 10 (beNat ((b.drop 10).take 4)) q (b.drop 14).length ((b.drop 14).length + 2) 0 s (b.drop 14)).store,
       (decodeSets 10 (beNat ((b.drop 10).take 4)) q (b.drop 14).length ((b.drop 14).length + 2) 0 s (b.drop 14)).err⟩ := by
  subst hq
  unfold decodeMessageIPFIX
  rw [readFields_ipfixhdr h14]

theorem decodeMessageIPFIX_trans_eq (b : Bytes) (st : List (Nat × TD.Iface)) (s : Netflow.Store) (pk : TD.IPFIXPacket)
    (hrel : StoreRel st s) :
    ∃ p' st' pk', TD.DecodeMessageIPFIX b (some st) pk = .ok (p', some st', pk', (decodeMessageIPFIX s b).outcome) ∧
      StoreRel st' (decodeMessageIPFIX s b).store ∧ (14 ≤ b.length → ipfixPacketOk pk' (decodeMessageIPFIX s b).packet) := by
  unfold TD.DecodeMessageIPFIX
  by_cases h14 : 14 ≤ b.length
  · simp (disch := (first | omega | (simp only [List.length_drop]; omega))) only [readU16_ok, readU32_ok, tryCatch_ok, List.drop_drop, Nat.reduceAdd]
    have hsz : (beNat (b.take 2) + 65536 - 16) % 65536 = (UInt16.ofNat (beNat (b.take 2)) - 16).toNat := by
      rw [u16_sub16, u16_beNat]
    rw [decodeMessageIPFIX_of_hdr s b h14 _ hsz]
    generalize (UInt16.ofNat (beNat (b.take 2)) - 16) = sz
    obtain ⟨p', st', gs, h1, h2, h3⟩ := decodeMessageCommon_trans_eq (b.drop 14) st s (UInt32.ofNat (beNat ((b.drop 10).take 4)))
      sz 10 ((b.drop 14).length + 2) (Nat.lt_add_of_pos_right (by decide)) hrel
    simp only [u32_beNat, show (10 : UInt16).toNat = 10 from by decide] at h1 h2 h3
    rw [h1]
    simp only [ok_bind]
    generalize decodeSets 10 (beNat ((b.drop 10).take 4)) sz.toNat (b.drop 14).length
      ((b.drop 14).length + 2) 0 s (b.drop 14) = m at h1 h2 h3 ⊢
    refine ⟨p', st', ipfixPkAt b gs, ?_, h3, fun _ => ?_⟩
    · exact ifErr_same _ (fun e => Except.ok (p', some st', ipfixPkAt b gs, e))
    · refine ⟨?_, ?_, h2⟩
      · show (10 : Nat) = (10 : UInt16).toNat
        decide
      · simp [ipfixPkAt, beNat_take2_mod, beNat_take4_mod]
  · have h14' : b.length < 14 := by omega
    unfold decodeMessageIPFIX
    rw [readFields_ipfixhdr_short h14']
    have hcases : b.length < 2 ∨ (2 ≤ b.length ∧ b.length < 6) ∨ (6 ≤ b.length ∧ b.length < 10) ∨ (10 ≤ b.length ∧ b.length < 14) := by omega
    rcases hcases with h | h | h | h <;>
      simp (disch := (first | omega | (simp only [List.length_drop]; omega))) only [readU16_ok, readU32_ok, readU16_short,
        readU32_short, tryCatch_ok, tryCatch_eof, List.drop_drop] <;>
      exact ⟨_, st, _, rfl, hrel, fun h' => absurd h' h14⟩

/-- netflow.DecodeMessageVersion — the root of the NetFlow v9 / IPFIX decoder — for every byte string, every template store
    related to a model store, and whatever the two packets behind the pointers held before: it returns (no panic, no loop
    out of fuel) with the model's outcome as its error class and the model's store; for a version-9 (version-10) message
    whose header is complete, the NFv9Packet (IPFIXPacket) holds the model's packet -/
theorem decodeMessageVersion_trans_eq (b : Bytes) (st : List (Nat × TD.Iface)) (s : Netflow.Store)
    (pk9 : TD.NFv9Packet) (pkx : TD.IPFIXPacket) (hrel : StoreRel st s) :
    ∃ p' st' pk9' pkx', TD.DecodeMessageVersion b (some st) pk9 pkx = .ok (p', some st', pk9', pkx', (decodeMessageVersion s b).outcome) ∧
      StoreRel st' (decodeMessageVersion s b).store ∧
      (2 ≤ b.length → beNat (b.take 2) = 9 → 20 ≤ b.length → v9PacketOk pk9' (decodeMessageVersion s b).packet) ∧
      (2 ≤ b.length → beNat (b.take 2) = 10 → 16 ≤ b.length → ipfixPacketOk pkx' (decodeMessageVersion s b).packet) := by
  unfold TD.DecodeMessageVersion decodeMessageVersion
  by_cases h2 : 2 ≤ b.length
  · rw [readU16_ok h2, readU_ok h2]
    simp only [tryCatch_ok]
    have hv : (UInt16.ofNat (beNat (b.take 2))).toNat = beNat (b.take 2) := u16_beNat b
    by_cases h9 : beNat (b.take 2) = 9
    · have h9' : UInt16.ofNat (beNat (b.take 2)) = 9 := by rw [h9]; rfl
      obtain ⟨p', st', pk', g1, g2, g3⟩ := decodeMessageNetFlow_trans_eq (b.drop 2) st s pk9 hrel
      rw [if_pos h9]
      refine ⟨p', st', pk', pkx, ?_, g2, fun _ _ h20 => g3 (by simp only [List.length_drop]; omega), fun _ hx _ => absurd hx (by omega)⟩
      simp only [h9', decide_true, if_true, g1, ok_bind]
      cases hout : (decodeMessageNetFlow s (b.drop 2)).outcome <;> rfl
    · have h9' : UInt16.ofNat (beNat (b.take 2)) ≠ 9 := fun h => h9 (by rw [← hv, h]; rfl)
      rw [if_neg h9]
      by_cases h10 : beNat (b.take 2) = 10
      · have h10' : UInt16.ofNat (beNat (b.take 2)) = 10 := by rw [h10]; rfl
        have h10n : ¬ ((10 : UInt16) = 9) := by decide
        obtain ⟨p', st', pk', g1, g2, g3⟩ := decodeMessageIPFIX_trans_eq (b.drop 2) st s pkx hrel
        rw [if_pos h10]
        refine ⟨p', st', pk9, pk', ?_, g2, fun _ hx _ => absurd hx h9, fun _ _ h16 => g3 (by simp only [List.length_drop]; omega)⟩
        simp only [h10', h10n, decide_true, decide_false, if_true, if_false, Bool.false_eq_true, g1, ok_bind]
        cases hout : (decodeMessageIPFIX s (b.drop 2)).outcome <;> rfl
      · have h10' : UInt16.ofNat (beNat (b.take 2)) ≠ 10 := fun h => h10 (by rw [← hv, h]; rfl)
        rw [if_neg h10]
        refine ⟨b.drop 2, st, pk9, pkx, ?_, hrel, fun _ hx _ => absurd hx h9, fun _ hx _ => absurd hx h10⟩
        simp only [h9', h10', decide_false, if_false, Bool.false_eq_true]
        rfl
  · have h2' : b.length < 2 := by omega
    rw [readU16_short h2', readU_short h2']
    exact ⟨_, st, pk9, pkx, rfl, hrel, fun h => absurd h h2, fun h => absurd h h2⟩

end Goflow.C03Trans3
