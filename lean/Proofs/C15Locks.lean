import Goflow.Generated.Locks
/-!
  C15 (data-race freedom of the shared maps) — a lockset argument, checked on the events regenerated from the source.

  Four maps are shared between workers: the pipe's per-exporter template systems (`p.templates`), the producer's
  per-address sampling systems (`p.sampling`), the templates of one template system (`ts.templates`) and the rates of one
  sampling system (`s.sampling`). Each sits next to a `sync.RWMutex` named `<map>lock`. `/verif/extract/locks.go` lists,
  for every function that mentions one of the maps, the lock operations, the map accesses, the block boundaries and the
  returns in source order (`Goflow.Generated.lockEvents`).

  `run` is a lockset checker over such an event list. It accepts a function only if
    * every load of a map happens while the map's own lock is held (read or write), every store / delete while it is
      write-held, and a reference to the map as a whole (`ref`, `assign`) counts as a load / store;
    * a lock is taken only when none is held, released in the block it was taken in, or released by a `defer` placed at
      the top level right where it was taken at the top level;
    * no block is left, no `return` is executed and the function does not end with a lock held and not deferred;
    * no closure, goroutine or deferred function body starts while a lock is held (their accesses are checked as if no
      lock were held).
  Theorems:
    * `load_guarded`, `store_guarded` — what acceptance means: in an accepted list, every load is preceded by a state in
      which the map's lock is held, every store / delete by one in which it is write-held (for every event list);
    * `lock_discipline` — every function of the current source that touches one of the maps is accepted; the accessor
      that hands the map itself out (`GetTemplates`) has no caller outside the tests.
  Trusted: that `sync.RWMutex` excludes a writer from everybody else (Go memory model), and that the extractor lists the
  events of the source (it is ~250 lines over go/ast; any statement kind it does not know is reported as a problem).
-/
namespace Goflow.C15Locks

abbrev Ev := String × String × Nat      -- kind, subject, block depth

structure LS where
  held : Option (String × Bool) := none     -- lock expression, write-held?
  depth : Nat := 0                          -- depth of the block it was taken in
  deferred : Bool := false                  -- released by a `defer` (held to the end of the function)
  deriving Repr, DecidableEq

def lockOf (m : String) : String := m ++ "lock"

def readOK (s : LS) (m : String) : Bool :=
  match s.held with
  | some (l, _) => l == lockOf m
  | none => false

def writeOK (s : LS) (m : String) : Bool :=
  match s.held with
  | some (l, w) => l == lockOf m && w
  | none => false

def acquire (s : LS) (l : String) (w : Bool) (d : Nat) : Option LS :=
  if s.held.isNone then some ⟨some (l, w), d, false⟩ else none

def release (s : LS) (l : String) (w : Bool) (d : Nat) : Option LS :=
  match s.held with
  | some (l', w') => if l' == l && w' == w && !s.deferred && s.depth == d then some {} else none
  | none => none

def deferRelease (s : LS) (l : String) (w : Bool) (d : Nat) : Option LS :=
  match s.held with
  | some (l', w') => if l' == l && w' == w && !s.deferred && s.depth == 0 && d == 0 then some { s with deferred := true } else none
  | none => none

def isLoad (k : String) : Bool := k == "load" || k == "ref"
def isStore (k : String) : Bool := k == "store" || k == "delete" || k == "assign"

def step (s : LS) (e : Ev) : Option LS :=
  let k := e.1; let x := e.2.1; let d := e.2.2
  if k == "lock" then acquire s x true d
  else if k == "rlock" then acquire s x false d
  else if k == "unlock" then release s x true d
  else if k == "runlock" then release s x false d
  else if k == "defer-unlock" then deferRelease s x true d
  else if k == "defer-runlock" then deferRelease s x false d
  else if isLoad k then (if readOK s x then some s else none)
  else if isStore k then (if writeOK s x then some s else none)
  else if k == "enter" then (if x != "" && s.held.isSome then none else some s)
  else if k == "exit" then (if s.held.isSome && !s.deferred && decide (d ≤ s.depth) then none else some s)
  else if k == "return" then (if s.held.isSome && !s.deferred then none else some s)
  else none

def run (s : LS) : List Ev → Option LS
  | [] => some s
  | e :: es => match step s e with
    | some s' => run s' es
    | none => none

/-- accepted: every event passes and nothing is held at the end unless a `defer` releases it -/
def disciplined (evs : List Ev) : Bool :=
  match run {} evs with
  | some s => s.held.isNone || s.deferred
  | none => false

/-! ### what acceptance means -/

theorem run_append (s : LS) (a b : List Ev) :
    run s (a ++ b) = match run s a with | some s' => run s' b | none => none := by
  induction a generalizing s with
  | nil => rfl
  | cons e a ih =>
    simp only [List.cons_append, run]
    cases step s e with
    | none => rfl
    | some s' => exact ih s'

theorem run_prefix {s : LS} {pre : List Ev} {e : Ev} {post : List Ev} {t : LS}
    (h : run s (pre ++ e :: post) = some t) : ∃ u v, run s pre = some u ∧ step u e = some v := by
  rw [run_append] at h
  cases hu : run s pre with
  | none => rw [hu] at h; cases h
  | some u =>
    rw [hu] at h
    simp only [run] at h
    cases hv : step u e with
    | none => rw [hv] at h; cases h
    | some v => exact ⟨u, v, rfl, hv⟩

theorem step_load {s t : LS} {e : Ev} (h : step s e = some t) (hk : isLoad e.1 = true) : readOK s e.2.1 = true := by
  unfold step at h
  simp only [isLoad, Bool.or_eq_true, beq_iff_eq] at hk
  rcases hk with hk | hk <;> simp [hk, isLoad] at h <;> exact h.1

theorem step_store {s t : LS} {e : Ev} (h : step s e = some t) (hk : isStore e.1 = true) : writeOK s e.2.1 = true := by
  unfold step at h
  simp only [isStore, Bool.or_eq_true, beq_iff_eq] at hk
  rcases hk with (hk | hk) | hk <;> simp [hk, isLoad, isStore] at h <;> exact h.1

/-- In an accepted event list every load of a map (and every reference to it) is reached in a state where that
    map's own lock is held. -/
theorem load_guarded (evs : List Ev) (hacc : disciplined evs = true) (pre : List Ev) (e : Ev) (post : List Ev)
    (hsplit : evs = pre ++ e :: post) (hk : isLoad e.1 = true) :
    ∃ u, run {} pre = some u ∧ ∃ w, u.held = some (lockOf e.2.1, w) := by
  unfold disciplined at hacc
  cases hr : run {} evs with
  | none => rw [hr] at hacc; cases hacc
  | some t =>
    rw [hsplit] at hr
    obtain ⟨u, v, hu, hv⟩ := run_prefix hr
    refine ⟨u, hu, ?_⟩
    have := step_load hv hk
    unfold readOK at this
    cases hh : u.held with
    | none => rw [hh] at this; cases this
    | some lw =>
      obtain ⟨l, w⟩ := lw
      rw [hh] at this
      simp only [beq_iff_eq] at this
      exact ⟨w, by rw [this]⟩

/-- … and every store, delete or assignment in a state where that map's lock is write-held. -/
theorem store_guarded (evs : List Ev) (hacc : disciplined evs = true) (pre : List Ev) (e : Ev) (post : List Ev)
    (hsplit : evs = pre ++ e :: post) (hk : isStore e.1 = true) :
    ∃ u, run {} pre = some u ∧ u.held = some (lockOf e.2.1, true) := by
  unfold disciplined at hacc
  cases hr : run {} evs with
  | none => rw [hr] at hacc; cases hacc
  | some t =>
    rw [hsplit] at hr
    obtain ⟨u, v, hu, hv⟩ := run_prefix hr
    refine ⟨u, hu, ?_⟩
    have := step_store hv hk
    unfold writeOK at this
    cases hh : u.held with
    | none => rw [hh] at this; cases this
    | some lw =>
      obtain ⟨l, w⟩ := lw
      rw [hh] at this
      simp only [Bool.and_eq_true, beq_iff_eq] at this
      rw [this.1, this.2]

/-! ### the checker rejects what it should (so that acceptance says something) -/

example : disciplined [("rlock", "ts.templateslock", 0), ("defer-runlock", "ts.templateslock", 0), ("load", "ts.templates", 0)] = true := by decide +kernel
/-- a lookup without the lock (a seeded change of round 4 read the map through an accessor that had dropped it) -/
example : disciplined [("load", "ts.templates", 0), ("return", "", 0)] = false := by decide +kernel
/-- a store under the read lock -/
example : disciplined [("rlock", "p.templateslock", 0), ("store", "p.templates", 0), ("runlock", "p.templateslock", 0)] = false := by decide +kernel
/-- the lock of another map -/
example : disciplined [("lock", "p.samplinglock", 0), ("store", "p.templates", 0), ("unlock", "p.samplinglock", 0)] = false := by decide +kernel
/-- released in a branch, used after it -/
example : disciplined [("rlock", "l.templateslock", 0), ("enter", "", 1), ("runlock", "l.templateslock", 1), ("exit", "", 1), ("load", "l.templates", 0)] = false := by decide +kernel
/-- a return with the lock held and no defer -/
example : disciplined [("lock", "ts.templateslock", 0), ("enter", "", 1), ("return", "", 1), ("exit", "", 1), ("unlock", "ts.templateslock", 0)] = false := by decide +kernel

/-! ### the current source -/

open Goflow.Generated in
/-- Every function of the current tree that touches one of the four shared maps keeps the lock discipline; the maps
    are touched in the eight functions the concurrency models (C15, C16) know; nobody outside the tests calls the
    accessor that returns the template map itself. -/
theorem lock_discipline :
    lockEvents.all (fun f => disciplined f.2) = true ∧
    lockEvents.map (·.1) =
      ["utils/pipe.go:NetFlowPipe.DecodeFlow", "producer/proto/proto.go:ProtoProducer.getSamplingRateSystem",
       "producer/proto/producer_nf.go:basicSamplingRateSystem.AddSamplingRate",
       "producer/proto/producer_nf.go:basicSamplingRateSystem.GetSamplingRate",
       "decoders/netflow/templates.go:BasicTemplateSystem.GetTemplates",
       "decoders/netflow/templates.go:BasicTemplateSystem.AddTemplate",
       "decoders/netflow/templates.go:BasicTemplateSystem.GetTemplate",
       "decoders/netflow/templates.go:BasicTemplateSystem.RemoveTemplate"] ∧
    (lockEvents.filter (fun f => f.2.any (fun e => e.1 == "ref" || e.1 == "assign"))).map (·.1) =
      ["decoders/netflow/templates.go:BasicTemplateSystem.GetTemplates"] ∧
    getTemplatesCallers = [] := by
  decide +kernel

open Goflow.Generated in
/-- The per-exporter maps of the pipe and of the producer only grow: no function deletes from them or assigns them as
    a whole — a template or sampling system, once published for an exporter, stays the exporter's system (what C16's
    `nothing_lost` assumes of the code around the get-or-create protocol). -/
theorem maps_only_grow :
    lockEvents.all (fun f => f.2.all (fun e =>
      !((e.1 == "delete" || e.1 == "assign") && (e.2.1 == "p.templates" || e.2.1 == "p.sampling")))) = true ∧
    ((lockEvents.filter (fun f => f.2.any (fun e => e.1 == "store" && e.2.1 == "p.templates"))).map (·.1) =
      ["utils/pipe.go:NetFlowPipe.DecodeFlow"]) ∧
    ((lockEvents.filter (fun f => f.2.any (fun e => e.1 == "store" && e.2.1 == "p.sampling"))).map (·.1) =
      ["producer/proto/proto.go:ProtoProducer.getSamplingRateSystem"]) := by
  decide +kernel

end Goflow.C15Locks
