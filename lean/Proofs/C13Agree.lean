import Goflow.Format.Formatter
/-!
  C13 — "JSON and text forms of one message describe the same values": both are images of one list of
  rendered fields. `printedFields f m` computes, for every configured field that is printed, its name and
  its rendered value (a scalar `Rendered`, or the rendered elements of an array); `formatItems` for
  JSON and for text are that list passed through the two concrete syntaxes, item by item.
-/
namespace Goflow.C13
open Goflow Goflow.Format

/-- the rendered value of one printed field -/
inductive RVal where
  | scalar (r : Rendered)                 -- `.text` or `.bare`, never `.nil` (such fields are skipped)
  | array (rs : List Rendered)            -- one entry per element; `.nil` entries print nothing
  deriving Repr, Inhabited

/-- name and rendered value of a configured field, independent of the output syntax -/
def fieldOf (f : Fmt) (m : FlowMsg) (unk : List (String × FV)) (s : String) : Option (Bytes × RVal) :=
  match valueOf f m unk s with
  | none => none
  | some v =>
    if (f.isSlice.lookup (fieldNameOf f s)).getD false then
      some (finalNameOf f s, .array ((elemsOf v).map (applyRenderer m (fieldNameOf f s) (rendererOf f s).1)))
    else
      match applyRenderer m (fieldNameOf f s) (rendererOf f s).1 v with
      | .nil => none
      | r => some (finalNameOf f s, .scalar r)

def printedFields (f : Fmt) (m : FlowMsg) : List (Bytes × RVal) :=
  f.fields.filterMap (fieldOf f m (mapUnknown f m.unk))

/-- array body in a concrete syntax: each rendered element, a comma behind every element but the last of the array -/
def bodyOf (json : Bool) (quotes : Bytes) : List Rendered → Bytes
  | [] => []
  | [r] => (quoteIf json quotes r).getD []
  | r :: r' :: rest => (match quoteIf json quotes r with | some b => b ++ [0x2c] | none => []) ++ bodyOf json quotes (r' :: rest)

/-- one item in a concrete syntax -/
def showItem (json : Bool) (quotes sign : Bytes) : Bytes × RVal → Bytes
  | (name, .scalar r) => quotes ++ name ++ quotes ++ sign ++ (quoteIf json quotes r).getD []
  | (name, .array rs) => quotes ++ name ++ quotes ++ sign ++ [0x5b] ++ bodyOf json quotes rs ++ [0x5d]

theorem sliceBody_eq_bodyOf (f : Fmt) (m : FlowMsg) (json : Bool) (quotes : Bytes) (s : String) (es : List FV) :
    sliceBody f m json quotes s es = bodyOf json quotes (es.map (applyRenderer m (fieldNameOf f s) (rendererOf f s).1)) := by
  induction es with
  | nil => rfl
  | cons e rest ih =>
    cases rest with
    | nil => rfl
    | cons e' rest' =>
      simp only [sliceBody, List.map_cons, bodyOf, renderElem] at ih ⊢
      rw [ih]
      cases quoteIf json quotes (applyRenderer m (fieldNameOf f s) (rendererOf f s).1 e) <;> rfl

theorem itemOf_eq (f : Fmt) (m : FlowMsg) (unk : List (String × FV)) (json : Bool) (quotes sign : Bytes) (s : String) :
    itemOf f m unk json quotes sign s = (fieldOf f m unk s).map (showItem json quotes sign) := by
  unfold itemOf fieldOf
  cases valueOf f m unk s with
  | none => rfl
  | some v =>
    simp only
    split
    · simp only [Option.map_some, showItem, sliceBody_eq_bodyOf]
    · cases hr : applyRenderer m (fieldNameOf f s) (rendererOf f s).1 v <;> simp [quoteIf, showItem]

/-- both forms print the same fields, in the same order, with the same names and the same rendered values:
    they differ only in the concrete syntax `showItem` -/
theorem forms_agree (f : Fmt) (m : FlowMsg) :
    formatItems f m true [0x22] [0x3a] = (printedFields f m).map (showItem true [0x22] [0x3a]) ∧
    formatItems f m false [] (str "=") = (printedFields f m).map (showItem false [] (str "=")) := by
  constructor <;>
  · unfold formatItems printedFields
    rw [List.map_filterMap]
    congr 1
    funext s
    rw [itemOf_eq]

/-- in particular the two forms have the same number of items -/
theorem same_item_count (f : Fmt) (m : FlowMsg) :
    (formatItems f m true [0x22] [0x3a]).length = (formatItems f m false [] (str "=")).length := by
  rw [(forms_agree f m).1, (forms_agree f m).2]; simp

end Goflow.C13
