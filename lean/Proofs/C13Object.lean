import Proofs.C13Json
/-!
  C13 — the JSON form is one well-formed JSON object: numbers, arrays, members, and the assembly
  `{"name":value,…}` against the recogniser of Goflow.Spec.Json (which every run compares with
  encoding/json's own verdict on generated and mutated texts).
-/
namespace Goflow.C13
open Goflow Goflow.Format Goflow.Spec.Json

/-! ### numbers -/

theorem isDigit_digit : ∀ k : Fin 10, isDigit (UInt8.ofNat (48 + k.val)) = true := by decide
theorem digit_zero : ∀ k : Fin 10, UInt8.ofNat (48 + k.val) = 0x30 → k.val = 0 := by decide

theorem digitsOf_spec (fuel n : Nat) (h : n < fuel) :
    ∃ d ds, digitsOf fuel n = d :: ds ∧ isDigit d = true ∧ (∀ x ∈ ds, isDigit x = true) ∧ (d = 0x30 → n = 0) ∧ (n = 0 → ds = []) := by
  induction fuel generalizing n with
  | zero => omega
  | succ f ih =>
    unfold digitsOf
    by_cases hn : n < 10
    · simp only [hn, if_true]
      exact ⟨_, [], rfl, isDigit_digit ⟨n, hn⟩, by simp, digit_zero ⟨n, hn⟩, fun _ => rfl⟩
    · simp only [hn, if_false]
      obtain ⟨d, ds, e, hd, hds, hz, _⟩ := ih (n / 10) (by omega)
      refine ⟨d, ds ++ [UInt8.ofNat (48 + n % 10)], by rw [e]; rfl, hd, ?_, ?_, ?_⟩
      · intro x hx
        rcases List.mem_append.mp hx with h1 | h1
        · exact hds x h1
        · have h2 := List.mem_singleton.mp h1; subst h2; exact isDigit_digit ⟨n % 10, Nat.mod_lt _ (by decide)⟩
      · intro h0; have := hz h0; omega
      · intro h0; omega

/-- what may follow a number -/
def NumEnd : Bytes → Prop
  | [] => True
  | c :: _ => isDigit c = false ∧ c ≠ 0x2e ∧ c ≠ 0x65 ∧ c ≠ 0x45

theorem digits_app (ds t : Bytes) (hd : ∀ x ∈ ds, isDigit x = true) (ht : NumEnd t) : digits (ds ++ t) = t := by
  induction ds with
  | nil =>
    cases t with
    | nil => rfl
    | cons c r => simp only [List.nil_append, digits]; simp [ht.1]
  | cons x xs ih =>
    simp only [List.cons_append, digits, hd x (by simp), if_true]
    exact ih (fun y hy => hd y (by simp [hy]))

theorem number_decimal (n : Nat) (t : Bytes) (ht : NumEnd t) : number (decimal n ++ t) = some t := by
  obtain ⟨d, ds, e, hd, hds, hz, hz'⟩ := digitsOf_spec (n + 1) n (by omega)
  unfold decimal
  rw [e]
  have hnm : d ≠ 0x2d := by intro h; subst h; simp [isDigit] at hd
  have r1 : (if d = 0x30 then ds ++ t else digits (ds ++ t)) = t := by
    by_cases h0 : d = 0x30
    · simp [h0, hz' (hz h0)]
    · simp [h0, digits_app ds t hds ht]
  unfold number
  simp only [List.cons_append, List.head?_cons, Option.some.injEq, hnm, if_false, hd, Bool.not_true, Bool.false_eq_true, r1]
  cases t with
  | nil => simp
  | cons c r =>
    have := ht
    simp only [NumEnd] at this
    simp [this.2.1, this.2.2.1, this.2.2.2]

/-! ### values -/

/-- what follows a value inside an array or object: `,` `}` `]` -/
def Follow (t : Bytes) : Prop := ∃ c r, t = c :: r ∧ (c = 0x2c ∨ c = 0x7d ∨ c = 0x5d)

theorem Follow.numEnd {t : Bytes} (h : Follow t) : NumEnd t := by
  obtain ⟨c, r, e, hc⟩ := h
  subst e
  rcases hc with h | h | h <;> subst h <;> exact ⟨by decide, by decide, by decide, by decide⟩

theorem skipWs_nonws (b : UInt8) (r : Bytes) (h : isWs b = false) : skipWs (b :: r) = b :: r := by
  simp [skipWs, h]

theorem Follow.skip {t : Bytes} (h : Follow t) : skipWs t = t := by
  obtain ⟨c, r, e, hc⟩ := h
  subst e
  rcases hc with h | h | h <;> subst h <;> exact skipWs_nonws _ _ (by decide)

/-- `bs` is read as one JSON value by `value` with at least `k` units of fuel, whatever follows -/
def ValOK (k : Nat) (bs : Bytes) : Prop := ∀ fuel t, k ≤ fuel → Follow t → value fuel (bs ++ t) = some t

theorem valOK_mono {k k' : Nat} {bs : Bytes} (h : ValOK k bs) (hk : k ≤ k') : ValOK k' bs :=
  fun fuel t hf ht => h fuel t (by omega) ht

/-- a rendered string -/
theorem valOK_string (v : Bytes) : ValOK 1 (jsonQuote v) := by
  intro fuel t hf _
  obtain ⟨f, rfl⟩ : ∃ f, fuel = f + 1 := ⟨fuel - 1, by omega⟩
  obtain ⟨body, e, hb⟩ := jsonQuote_valid v t
  rw [e]
  simp only [List.cons_append, value, skipWs_nonws 0x22 _ (by decide), if_true]
  exact hb

theorem digit_head_facts : ∀ d : UInt8, isDigit d = true →
    isWs d = false ∧ d ≠ 0x22 ∧ d ≠ 0x7b ∧ d ≠ 0x5b ∧ d ≠ 0x74 ∧ d ≠ 0x66 ∧ d ≠ 0x6e := by
  intro d hd
  have hl : 0x30 ≤ d ∧ d ≤ 0x39 := by simpa [isDigit] using hd
  have h1 : 48 ≤ d.toNat := by simpa [UInt8.le_iff_toNat_le] using hl.1
  have h2 : d.toNat ≤ 57 := by simpa [UInt8.le_iff_toNat_le] using hl.2
  refine ⟨?_, ?_, ?_, ?_, ?_, ?_, ?_⟩
  · simp only [isWs, Bool.or_eq_false_iff, beq_eq_false_iff_ne]
    refine ⟨⟨⟨?_, ?_⟩, ?_⟩, ?_⟩ <;> (intro e; subst e; simp at h1)
  all_goals (intro e; subst e; first | (simp at h2; done) | (simp at h1; done))

/-- a number -/
theorem valOK_decimal (n : Nat) : ValOK 1 (decimal n) := by
  intro fuel t hf ht
  obtain ⟨f, rfl⟩ : ∃ f, fuel = f + 1 := ⟨fuel - 1, by omega⟩
  obtain ⟨d, ds, e, hd, _⟩ := digitsOf_spec (n + 1) n (by omega)
  have hnum := number_decimal n t ht.numEnd
  unfold decimal at hnum ⊢
  rw [e] at hnum ⊢
  obtain ⟨w, q1, q2, q3, q4, q5, q6⟩ := digit_head_facts d hd
  simp only [List.cons_append, value, skipWs_nonws d _ w, q1, q2, q3, q4, q5, q6, if_false, hd, or_true, if_true]
  exact hnum

/-! ### arrays and objects -/

/-- values separated by commas -/
def joinC : List Bytes → Bytes
  | [] => []
  | [v] => v
  | v :: w :: rest => v ++ 0x2c :: joinC (w :: rest)

/-- the first byte of a value: not white space and not a closing bracket -/
def Head (v : Bytes) : Prop := ∃ c r, v = c :: r ∧ isWs c = false ∧ c ≠ 0x5d ∧ c ≠ 0x7d

def total (vs : List Bytes) : Nat := (vs.map List.length).sum

theorem le_total {vs : List Bytes} {v : Bytes} (h : v ∈ vs) : v.length ≤ total vs := by
  induction vs with
  | nil => cases h
  | cons x xs ih =>
    simp only [total, List.map_cons, List.sum_cons]
    rcases List.mem_cons.mp h with e | e
    · subst e; omega
    · have := ih e; simp only [total] at this; omega

theorem elements_ok (vs : List Bytes) (hne : vs ≠ []) (k : Nat) (hv : ∀ v ∈ vs, ValOK k v)
    (fuel : Nat) (hf : vs.length + k ≤ fuel) (t : Bytes) :
    elements fuel (joinC vs ++ 0x5d :: t) = some t := by
  induction vs generalizing fuel with
  | nil => contradiction
  | cons v rest ih =>
    obtain ⟨f, rfl⟩ : ∃ f, fuel = f + 1 := ⟨fuel - 1, by simp at hf; omega⟩
    cases rest with
    | nil =>
      simp only [joinC, elements]
      rw [hv v (by simp) f (0x5d :: t) (by simp at hf; omega) ⟨_, _, rfl, Or.inr (Or.inr rfl)⟩]
      simp [skipWs_nonws 0x5d _ (by decide)]
    | cons w rest' =>
      simp only [joinC, List.append_assoc, List.cons_append, elements]
      rw [hv v (by simp) f _ (by simp at hf; omega) ⟨_, _, rfl, Or.inl rfl⟩]
      simp only [skipWs_nonws 0x2c _ (by decide), if_true]
      exact ih (by simp) (fun x hx => hv x (by simp [hx])) f (by simp at hf ⊢; omega)

theorem joinC_head (vs : List Bytes) (hne : vs ≠ []) (hh : ∀ v ∈ vs, Head v) (t : Bytes) :
    ∃ c r, joinC vs ++ t = c :: r ∧ isWs c = false ∧ c ≠ 0x5d ∧ c ≠ 0x7d := by
  cases vs with
  | nil => contradiction
  | cons v rest =>
    obtain ⟨c, r, e, h1, h2, h3⟩ := hh v (by simp)
    subst e
    cases rest with
    | nil => exact ⟨c, r ++ t, by simp [joinC], h1, h2, h3⟩
    | cons w rest' => exact ⟨c, _, by simp [joinC]; rfl, h1, h2, h3⟩

/-- `[v1,v2,…]` -/
theorem valOK_array (vs : List Bytes) (k : Nat) (hv : ∀ v ∈ vs, ValOK k v) (hh : ∀ v ∈ vs, Head v) :
    ValOK (vs.length + k + 1) (0x5b :: joinC vs ++ [0x5d]) := by
  intro fuel t hf _
  obtain ⟨f, rfl⟩ : ∃ f, fuel = f + 1 := ⟨fuel - 1, by omega⟩
  simp only [List.cons_append, List.append_assoc, List.nil_append, value, skipWs_nonws 0x5b _ (by decide)]
  have q1 : (0x5b : UInt8) ≠ 0x22 := by decide
  have q2 : (0x5b : UInt8) ≠ 0x7b := by decide
  simp only [q1, q2, if_false, if_true]
  by_cases hne : vs = []
  · subst hne
    simp [joinC, skipWs_nonws 0x5d _ (by decide)]
  · obtain ⟨c, r, e, h1, h2, _⟩ := joinC_head vs hne hh (0x5d :: t)
    rw [e, skipWs_nonws c r h1]
    simp only [h2, if_false]
    rw [← e]
    exact elements_ok vs hne k hv f (by omega) t

def member (nv : Bytes × Bytes) : Bytes := 0x22 :: nv.1 ++ 0x22 :: 0x3a :: nv.2

theorem members_ok (ms : List (Bytes × Bytes)) (hne : ms ≠ []) (k : Nat)
    (h : ∀ nv ∈ ms, (∀ x ∈ nv.1, plain x) ∧ ValOK k nv.2)
    (fuel : Nat) (hf : ms.length + k ≤ fuel) (t : Bytes) :
    members fuel (joinC (ms.map member) ++ 0x7d :: t) = some t := by
  induction ms generalizing fuel with
  | nil => contradiction
  | cons nv rest ih =>
    obtain ⟨f, rfl⟩ : ∃ f, fuel = f + 1 := ⟨fuel - 1, by simp at hf; omega⟩
    obtain ⟨hp, hv⟩ := h nv (by simp)
    have step : ∀ cont : Bytes, Follow cont →
        members (f + 1) (member nv ++ cont) =
          (match skipWs cont with
           | [] => none
           | d :: t' => if d = 0x2c then members f t' else if d = 0x7d then some t' else none) := by
      intro cont hc
      simp only [member, List.cons_append, List.append_assoc, members, skipWs_nonws 0x22 _ (by decide)]
      have q : ¬ ((0x22 : UInt8) ≠ 0x22) := by decide
      simp only [q, if_false]
      rw [strBody_plains _ _ hp, strBody_quote]
      simp only [skipWs_nonws 0x3a _ (by decide)]
      have q2 : ¬ ((0x3a : UInt8) ≠ 0x3a) := by decide
      simp only [q2, if_false]
      rw [hv f cont (by simp at hf; omega) hc]
      rfl
    cases rest with
    | nil =>
      simp only [List.map_cons, List.map_nil, joinC]
      rw [step _ ⟨_, _, rfl, Or.inr (Or.inl rfl)⟩]
      simp [skipWs_nonws 0x7d _ (by decide)]
    | cons nv' rest' =>
      simp only [List.map_cons, joinC, List.append_assoc, List.cons_append]
      rw [step _ ⟨_, _, rfl, Or.inl rfl⟩]
      simp only [skipWs_nonws 0x2c _ (by decide), if_true]
      have := ih (by simp) (fun x hx => h x (by simp [hx])) f (by simp at hf ⊢; omega)
      simpa [List.map_cons] using this

/-- `{"n1":v1,…}` is read as one JSON value, whatever follows -/
theorem object_ok (ms : List (Bytes × Bytes)) (k : Nat) (h : ∀ nv ∈ ms, (∀ x ∈ nv.1, plain x) ∧ ValOK k nv.2)
    (fuel : Nat) (hf : ms.length + k + 1 ≤ fuel) (t : Bytes) :
    value fuel (0x7b :: joinC (ms.map member) ++ 0x7d :: t) = some t := by
  obtain ⟨f, rfl⟩ : ∃ f, fuel = f + 1 := ⟨fuel - 1, by omega⟩
  simp only [List.cons_append, value, skipWs_nonws 0x7b _ (by decide)]
  have q1 : (0x7b : UInt8) ≠ 0x22 := by decide
  simp only [q1, if_false, if_true]
  cases ms with
  | nil => simp [joinC, skipWs_nonws 0x7d _ (by decide)]
  | cons nv rest =>
    have hm := members_ok (nv :: rest) (by simp) k h f (by simp at hf ⊢; omega) t
    have hd : ∃ r, joinC ((nv :: rest).map member) ++ 0x7d :: t = 0x22 :: r := by
      cases rest with
      | nil => exact ⟨_, by simp [joinC, member]; rfl⟩
      | cons _ _ => exact ⟨_, by simp [joinC, member]; rfl⟩
    obtain ⟨r, e⟩ := hd
    rw [e] at hm ⊢
    simp only [skipWs_nonws 0x22 r (by decide)]
    have q2 : (0x22 : UInt8) ≠ 0x7d := by decide
    simp only [q2, if_false]
    exact hm

end Goflow.C13
