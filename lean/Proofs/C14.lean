import Goflow.Format.Formatter
import Goflow.Spec.Bits
import Proofs.C13
/-!
  C14 — mapping files.

  * `key_function`: the partition key is a function of exactly the configured key fields: two
    messages whose key fields (columns, or declared custom fields read back from the unknown
    section) have equal values get equal keys — for every configuration and every pair of messages.
-/
namespace Goflow.C14
open Goflow Goflow.Format Goflow.Producer

theorem foldl_ext_mem {α β} (l : List α) (g g' : β → α → β) (b : β) (h : ∀ acc, ∀ a ∈ l, g acc a = g' acc a) :
    l.foldl g b = l.foldl g' b := by
  induction l generalizing b with
  | nil => rfl
  | cons x xs ih =>
    simp only [List.foldl_cons]
    rw [h b x (by simp)]
    exact ih _ (fun acc a ha => h acc a (by simp [ha]))

/-- the value the key function reads for one configured key name -/
def keyValue (f : Fmt) (m : FlowMsg) (s : String) : Option Bytes :=
  let fieldName := match f.reMap.lookup s with
    | some go => if go ≠ "" then go else s
    | none => s
  match fieldValue m fieldName with
  | .invalid => (match (mapUnknown f m.unk).lookup s with | some u => some (percentV u) | none => none)
  | v => some (percentV v)

theorem key_eq_fold (f : Fmt) (m : FlowMsg) :
    key f m = if f.key.isEmpty then [] else
      encBE 4 (f.key.foldl (fun h s => match keyValue f m s with | some t => fnv1 t h | none => h) 2166136261) := by
  unfold key
  split
  · rfl
  · show encBE 4 _ = encBE 4 _
    congr 1
    apply foldl_ext_mem
    intro h s _
    unfold keyValue
    dsimp only
    generalize fieldValue m _ = fv
    cases fv <;> try rfl
    cases (mapUnknown f m.unk).lookup s <;> rfl

/-- the key depends on nothing but the values of the key fields -/
theorem key_function (f : Fmt) (m m' : FlowMsg) (h : ∀ s ∈ f.key, keyValue f m s = keyValue f m' s) :
    key f m = key f m' := by
  rw [key_eq_fold, key_eq_fold]
  split
  · rfl
  · congr 1
    apply foldl_ext_mem
    intro acc s hs
    rw [h s hs]

/-- no key fields configured: no key -/
theorem no_key (f : Fmt) (m : FlowMsg) (h : f.key = []) : key f m = [] := by
  unfold key; simp [h]

/-! ### custom fields on the wire: what MapCustom appends is what the formatter (and any protobuf
    reader) finds under the configured number and wire type -/

theorem parseUnknown_ne (fuel : Nat) (b : Bytes) (h : b ≠ []) :
    parseUnknown (fuel + 1) b =
      match consumeVarint 10 b with
      | none => []
      | some (tag, r) =>
        let num := tag / 8
        let wt := tag % 8
        if wt = 0 then
          match consumeVarint 10 r with
          | some (v, r') => (num, wt, FV.num v 64) :: parseUnknown fuel r'
          | none => []
        else if wt = 2 then
          match consumeVarint 10 r with
          | some (n, r') => (num, wt, FV.bytes (r'.take n)) :: parseUnknown fuel (r'.drop n)
          | none => []
        else [] := by
  cases b with
  | nil => contradiction
  | cons x xs => rfl

theorem appendVarint_ne (v : Nat) (rest : Bytes) : appendVarint v ++ rest ≠ [] := by
  unfold appendVarint varint; split <;> simp

theorem parseUnknown_nil (fuel : Nat) : parseUnknown fuel [] = [] := by cases fuel <;> rfl

/-- a varint custom field: number `i`, wire type 0, the value — followed by whatever else is carried -/
theorem custom_varint_readback (i x fuel : Nat) (rest : Bytes) (hi : i * 8 < 2 ^ 64) (hx : x < 2 ^ 64) :
    parseUnknown (fuel + 1) (appendTag i 0 ++ appendVarint x ++ rest) = (i, 0, FV.num x 64) :: parseUnknown fuel rest := by
  unfold appendTag
  rw [List.append_assoc, parseUnknown_ne _ _ (appendVarint_ne _ _), Goflow.C13.varint_roundtrip _ _ (by omega)]
  have e1 : (i * 8 + 0) / 8 = i := by omega
  have e2 : (i * 8 + 0) % 8 = 0 := by omega
  simp only [e1, e2, if_true]
  rw [Goflow.C13.varint_roundtrip _ _ hx]

/-- a string / bytes custom field: number `i`, wire type 2, exactly the extracted bytes -/
theorem custom_bytes_readback (i fuel : Nat) (v rest : Bytes) (hi : i * 8 + 2 < 2 ^ 64) (hv : v.length < 2 ^ 64) :
    parseUnknown (fuel + 1) (appendTag i 2 ++ appendVarint v.length ++ v ++ rest) = (i, 2, FV.bytes v) :: parseUnknown fuel rest := by
  unfold appendTag
  rw [List.append_assoc, List.append_assoc, parseUnknown_ne _ _ (appendVarint_ne _ _), Goflow.C13.varint_roundtrip _ _ hi]
  have e1 : (i * 8 + 2) / 8 = i := by omega
  have e2 : (i * 8 + 2) % 8 = 2 := by omega
  simp only [e1, e2]
  rw [Goflow.C13.varint_roundtrip _ _ hv]
  simp

/-- MapCustom into a declared varint field writes exactly such an entry behind what is already there -/
theorem mapCustom_varint (m : FlowMsg) (v : Bytes) (dest : String) (little : Bool) (i : Nat) (arr : Bool) (x : Nat)
    (hd : FlowMsg.kindOf dest = none) (hn : dest ≠ "sizeCache" ∧ dest ≠ "unknownFields" ∧ dest ≠ "state" ∧ dest ≠ "formatter" ∧
      dest ≠ "skipDelimiter" ∧ dest ≠ "FlowMessage") (hi : 0 < i) (hx : endianDecode little 64 v = .ok x) :
    mapCustom m v ⟨dest, little, i, .varint, arr⟩ = .ok { m with unk := m.unk ++ appendTag i 0 ++ appendVarint x } := by
  unfold mapCustom
  simp [hd, hn.1, hn.2.1, hn.2.2.1, hn.2.2.2.1, hn.2.2.2.2.1, hn.2.2.2.2.2, hi, hx]

end Goflow.C14
