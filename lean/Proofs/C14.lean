import Goflow.Format.Formatter
import Goflow.Spec.Bits
/-!
  C14 — mapping files.

  * `key_function`: the partition key is a function of exactly the configured key fields: two
    messages whose key fields (columns, or declared custom fields read back from the unknown
    section) have equal values get equal keys — for every configuration and every pair of messages.
-/
namespace Goflow.C14
open Goflow Goflow.Format Goflow.Producer

theorem foldl_ext_mem {α β} (l : List α) (g g' : β → α → β) (b : β) (h : ∀ acc, ∀ a ∈ l, g acc a = g' acc a) :
    l.foldl g b = l.foldl g' b := by
  induction l generalizing b with
  | nil => rfl
  | cons x xs ih =>
    simp only [List.foldl_cons]
    rw [h b x (by simp)]
    exact ih _ (fun acc a ha => h acc a (by simp [ha]))

/-- the value the key function reads for one configured key name -/
def keyValue (f : Fmt) (m : FlowMsg) (s : String) : Option Bytes :=
  let fieldName := match f.reMap.lookup s with
    | some go => if go ≠ "" then go else s
    | none => s
  match fieldValue m fieldName with
  | .invalid => (match (mapUnknown f m.unk).lookup s with | some u => some (percentV u) | none => none)
  | v => some (percentV v)

theorem key_eq_fold (f : Fmt) (m : FlowMsg) :
    key f m = if f.key.isEmpty then [] else
      encBE 4 (f.key.foldl (fun h s => match keyValue f m s with | some t => fnv1 t h | none => h) 2166136261) := by
  unfold key
  split
  · rfl
  · show encBE 4 _ = encBE 4 _
    congr 1
    apply foldl_ext_mem
    intro h s _
    unfold keyValue
    dsimp only
    generalize fieldValue m _ = fv
    cases fv <;> try rfl
    cases (mapUnknown f m.unk).lookup s <;> rfl

/-- the key depends on nothing but the values of the key fields -/
theorem key_function (f : Fmt) (m m' : FlowMsg) (h : ∀ s ∈ f.key, keyValue f m s = keyValue f m' s) :
    key f m = key f m' := by
  rw [key_eq_fold, key_eq_fold]
  split
  · rfl
  · congr 1
    apply foldl_ext_mem
    intro acc s hs
    rw [h s hs]

/-- no key fields configured: no key -/
theorem no_key (f : Fmt) (m : FlowMsg) (h : f.key = []) : key f m = [] := by
  unfold key; simp [h]

end Goflow.C14
