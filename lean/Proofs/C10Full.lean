import Goflow.Spec.Frame
import Proofs.C10
import Proofs.Lemmas.Bytes
import Proofs.Lemmas.SafetyPacket
/-!
  C10 (full capture) — on a completely captured, well-formed frame the dissector reports exactly the true
  values of the frame: `parsePacket {} FlowMsg.empty (bytes f) = .ok (expectedMsg f)`.

  * `full_capture_plain`  — the plain sub-grammar `PlainWF`: Ethernet, 802.1Q tags, IPv4 / IPv6 without extension
    headers, TCP / UDP / ICMP / ICMPv6 / another protocol;
  * `full_capture_v6ext`  — IPv6 with a fragment header or a segment-routing header (`V6ExtWF`);
  * `full_capture_mpls`   — an MPLS label stack before IP (`MplsWF`);
  * `full_capture_tunnel` — GRE / IP-in-IP behind the outer IP header, any well-formed nesting inside (`TunnelWF`);
  * `full_capture`, `full_capture_cfg` — all of these at once (`FrameWF`; any configuration without layer mappings).

  Structure: reading fields out of encoded headers; each parser on its encoded header (normal and encapsulated
  mode); the loop of ParsePacket one layer at a time; L4, tunnelled stacks (mutual induction over the frame
  grammar), payload, IP + extension header, MPLS, 802.1Q (induction over the tags), Ethernet; the comparison with
  the specification's `facts`.
-/
set_option linter.unusedSimpArgs false

namespace Goflow.C10
open Goflow Goflow.Producer Goflow.Spec.Frame

/-! ### reading fields out of a concatenation of encoded segments -/

theorem be_skip (x r : Bytes) (i n : Nat) (h : x.length ≤ i) : be (x ++ r) i n = be r (i - x.length) n := by
  simp [be, List.drop_append, List.drop_of_length_le h]

theorem be_here (x r : Bytes) (n : Nat) (h : x.length = n) : be (x ++ r) 0 n = beNat x := by
  simp [be, List.take_left' h]

theorem be_last (x : Bytes) (n : Nat) (h : x.length = n) : be x 0 n = beNat x := by
  simp [be, ← h]

theorem sl_skip (x r : Bytes) (i j : Nat) (h : x.length ≤ i) : sl (x ++ r) i j = sl r (i - x.length) (j - x.length) := by
  simp only [sl, List.drop_append, List.drop_of_length_le h, List.nil_append]
  congr 1; omega

theorem sl_here (x r : Bytes) (j : Nat) (h : x.length = j) : sl (x ++ r) 0 j = x := by
  simp [sl, List.take_left' h]

theorem u8_skip (x r : Bytes) (i : Nat) (h : x.length ≤ i) : Producer.u8 (x ++ r) i = Producer.u8 r (i - x.length) := by
  simp [Producer.u8, List.getD_eq_getElem?_getD, List.getElem?_append_right h]

theorem u8_here (x r : Bytes) (h : x.length = 1) : Producer.u8 (x ++ r) 0 = beNat x := by
  match x, h with
  | [b], _ => simp [Producer.u8, beNat]

theorem u8_cons_zero (b : UInt8) (r : Bytes) : Producer.u8 (b :: r) 0 = b.toNat := by simp [Producer.u8]
theorem u8_cons_succ (b : UInt8) (r : Bytes) (i : Nat) : Producer.u8 (b :: r) (i + 1) = Producer.u8 r i := by
  simp [Producer.u8]

theorem encBE_add (a b v : Nat) : encBE (a + b) v = encBE a (v / 256 ^ b) ++ encBE b v := by
  induction b generalizing v with
  | zero => simp [encBE]
  | succ b ih =>
    rw [← Nat.add_assoc]
    simp only [encBE]
    rw [ih, List.append_assoc, Nat.div_div_eq_div_mul, Nat.pow_succ, Nat.mul_comm 256]

theorem encBE_two (v : Nat) : encBE 2 v = [UInt8.ofNat (v / 256 % 256), UInt8.ofNat (v % 256)] := by
  simp [encBE]

/-! ### the parsers on an encoded header -/

theorem lsv : layerStackValue "Ethernet" = 0 ∧ layerStackValue "Dot1Q" = 6 ∧ layerStackValue "IPv4" = 1 ∧
    layerStackValue "IPv6" = 2 ∧ layerStackValue "TCP" = 3 ∧ layerStackValue "UDP" = 4 ∧
    layerStackValue "ICMP" = 7 ∧ layerStackValue "ICMPv6" = 8 := by decide

theorem parseEthernet_spec (m : FlowMsg) (dm sm : Bytes) (e0 e1 : UInt8) (rest : Bytes) (pc : PC)
    (hdm : dm.length = 6) (hsm : sm.length = 6) (henc : pc.encapsulated = false) :
    parseEthernet m (dm ++ (sm ++ (e0 :: e1 :: rest))) pc =
      ⟨{ m with layerStack := m.layerStack ++ [0], srcMac := beNat sm, dstMac := beNat dm,
                etype := e0.toNat * 256 + e1.toNat },
        nextParserEtype e0.toNat e1.toNat, 14⟩ := by
  have hlen : ¬ (dm ++ (sm ++ (e0 :: e1 :: rest))).length < 14 := by simp [hdm, hsm]; omega
  unfold parseEthernet
  simp only [hlen, if_false, henc, addLayer, lsv]
  simp [be_skip, be_here, u8_skip, hdm, hsm]
  simp [be, beNat, Producer.u8]

theorem parse8021Q_spec (m : FlowMsg) (tci : Bytes) (e0 e1 : UInt8) (rest : Bytes) (pc : PC)
    (htci : tci.length = 2) (henc : pc.encapsulated = false) :
    parse8021Q m (tci ++ (e0 :: e1 :: rest)) pc =
      ⟨{ m with layerStack := m.layerStack ++ [6], vlanId := beNat tci, etype := e0.toNat * 256 + e1.toNat },
        nextParserEtype e0.toNat e1.toNat, 4⟩ := by
  have hlen : ¬ (tci ++ (e0 :: e1 :: rest)).length < 4 := by simp [htci]; omega
  unfold parse8021Q
  simp only [hlen, if_false, henc, addLayer, lsv]
  simp [be_skip, be_here, u8_skip, htci]
  simp [be, beNat, Producer.u8]

theorem parseIPv4_spec (m : FlowMsg) (vihl tos len ident frag ttl proto ck : Nat) (src dst body : Bytes) (pc : PC)
    (htos : tos < 256) (hident : ident < 65536) (hfrag : frag < 65536) (httl : ttl < 256) (hproto : proto < 256)
    (hsrc : src.length = 4) (hdst : dst.length = 4) (henc : pc.encapsulated = false) :
    parseIPv4 m (encBE 1 vihl ++ (encBE 1 tos ++ (encBE 2 len ++ (encBE 2 ident ++ (encBE 2 frag ++ (encBE 1 ttl ++
        (encBE 1 proto ++ (encBE 2 ck ++ (src ++ (dst ++ body)))))))))) pc =
      ⟨{ m with layerStack := m.layerStack ++ [1], srcAddr := src, dstAddr := dst, ipTos := tos, ipTtl := ttl,
                fragmentId := ident, fragmentOffset := frag % 8192, ipFlags := frag / 8192, proto := proto },
        nextParserProto proto, 20⟩ := by
  unfold parseIPv4
  rw [if_neg (by simp [hsrc, hdst]; omega)]
  simp only [henc, addLayer, lsv]
  simp [be_skip, be_here, u8_skip, u8_here, sl_skip, sl_here, beNat_encBE_of_lt, *]


theorem be_enc4_2 (w : Nat) (r : Bytes) : be (encBE 4 w ++ r) 0 2 = w / 65536 % 65536 := by
  rw [show encBE 4 w = encBE 2 (w / 256 ^ 2) ++ encBE 2 w from encBE_add 2 2 w, List.append_assoc,
    be_here _ _ _ (by simp), beNat_encBE]

theorem parseIPv6_spec (m : FlowMsg) (w len nh hl : Nat) (src dst body : Bytes) (pc : PC)
    (hnh : nh < 256) (hhl : hl < 256)
    (hsrc : src.length = 16) (hdst : dst.length = 16) (henc : pc.encapsulated = false) :
    parseIPv6 m (encBE 4 w ++ (encBE 2 len ++ (encBE 1 nh ++ (encBE 1 hl ++ (src ++ (dst ++ body)))))) pc =
      ⟨{ m with layerStack := m.layerStack ++ [2], srcAddr := src, dstAddr := dst,
                ipTos := w / 65536 % 65536 % 4096 / 16, ipTtl := hl,
                ipv6FlowLabel := w % 2 ^ 32 % 2 ^ 20, proto := nh },
        nextParserProto nh, 40⟩ := by
  unfold parseIPv6
  rw [if_neg (by simp [hsrc, hdst]; omega)]
  simp only [henc, addLayer, lsv, be_enc4_2]
  simp [be_skip, be_here, u8_skip, u8_here, sl_skip, sl_here, beNat_encBE_of_lt, beNat_encBE, *]

theorem parseTCP_spec (m : FlowMsg) (sp dp seq ack off flags win ck urg : Nat) (opts : Bytes) (pc : PC)
    (hsp : sp < 65536) (hdp : dp < 65536) (hoff5 : 5 ≤ off) (hoff : off < 16) (hflags : flags < 256)
    (henc : pc.encapsulated = false) :
    parseTCP m (encBE 2 sp ++ (encBE 2 dp ++ (encBE 4 seq ++ (encBE 4 ack ++ (encBE 1 (off * 16) ++ (encBE 1 flags ++
        (encBE 2 win ++ (encBE 2 ck ++ (encBE 2 urg ++ opts))))))))) pc =
      ⟨{ m with layerStack := m.layerStack ++ [3], srcPort := sp, dstPort := dp, tcpFlags := flags },
        nextParserPort pc.ports "tcp" sp dp, off * 4⟩ := by
  unfold parseTCP
  rw [if_neg (by simp; omega)]
  have h16 : off * 16 < 256 := by omega
  simp only [henc, addLayer, lsv]
  simp [be_skip, be_here, u8_skip, u8_here, beNat_encBE_of_lt, *]
  omega

theorem parseUDP_spec (m : FlowMsg) (sp dp : Nat) (rest : Bytes) (pc : PC)
    (hsp : sp < 65536) (hdp : dp < 65536) (hrest : 4 ≤ rest.length) (henc : pc.encapsulated = false) :
    parseUDP m (encBE 2 sp ++ (encBE 2 dp ++ rest)) pc =
      ⟨{ m with layerStack := m.layerStack ++ [4], srcPort := sp, dstPort := dp },
        nextParserPort pc.ports "udp" sp dp, 8⟩ := by
  unfold parseUDP
  rw [if_neg (by simp; omega)]
  simp only [henc, addLayer, lsv]
  simp [be_skip, be_here, beNat_encBE_of_lt, *]

theorem parseICMP_spec (m : FlowMsg) (t c : Nat) (rest : Bytes) (pc : PC)
    (ht : t < 256) (hc : c < 256) (hcalls : pc.calls = 0) :
    parseICMP m (encBE 1 t ++ (encBE 1 c ++ rest)) pc =
      ⟨{ m with layerStack := m.layerStack ++ [7], icmpType := t, icmpCode := c }, Next.none, 8⟩ := by
  unfold parseICMP
  rw [if_neg (by simp; omega)]
  simp only [hcalls, addLayer, lsv]
  simp [u8_skip, u8_here, beNat_encBE_of_lt, *]

theorem parseICMPv6_spec (m : FlowMsg) (t c : Nat) (rest : Bytes) (pc : PC)
    (ht : t < 256) (hc : c < 256) (hcalls : pc.calls = 0) :
    parseICMPv6 m (encBE 1 t ++ (encBE 1 c ++ rest)) pc =
      ⟨{ m with layerStack := m.layerStack ++ [8], icmpType := t, icmpCode := c }, Next.none, 8⟩ := by
  unfold parseICMPv6
  rw [if_neg (by simp; omega)]
  simp only [hcalls, addLayer, lsv]
  simp [u8_skip, u8_here, beNat_encBE_of_lt, *]

/-! ### IPv6 extension headers and MPLS on their encoded form -/

theorem lsv2 : layerStackValue "IPv6HeaderFragment" = 11 ∧ layerStackValue "IPv6HeaderRouting" = 10 ∧
    layerStackValue "MPLS" = 5 ∧ layerStackValue "GRE" = 9 := by decide

theorem parseFrag_spec (m : FlowMsg) (nh res frag ident : Nat) (rest : Bytes) (pc : PC)
    (hnh : nh < 256) (hfrag : frag < 65536) (hident : ident < 4294967296) (henc : pc.encapsulated = false) :
    parseIPv6HeaderFragment m (encBE 1 nh ++ (encBE 1 res ++ (encBE 2 frag ++ (encBE 4 ident ++ rest)))) pc =
      ⟨{ m with layerStack := m.layerStack ++ [11], fragmentId := ident, fragmentOffset := frag / 8,
                ipFlags := frag % 8 }, nextParserProto nh, 8⟩ := by
  unfold parseIPv6HeaderFragment
  rw [if_neg (by simp; omega)]
  simp only [henc, addLayer, lsv2]
  simp [be_skip, be_here, u8_here, beNat_encBE_of_lt, *]

theorem flat_length (segs : List Bytes) (h : ∀ s ∈ segs, s.length = 16) : (segs.flatMap id).length = 16 * segs.length := by
  induction segs with
  | nil => rfl
  | cons s segs ih =>
    simp only [List.flatMap_cons, id, List.length_append, List.length_cons]
    rw [ih (fun x hx => h x (by simp [hx])), h s (by simp)]; omega

theorem srv6Loop_spec (hdr rest : Bytes) (size le : Nat) (hhdr : hdr.length = 8) (todo : List Bytes) :
    ∀ (done : List Bytes) (fuel : Nat) (acc : List Bytes),
    (∀ s ∈ done ++ todo, s.length = 16) → size = 8 + 16 * (done ++ todo).length → (done ++ todo).length ≤ le + 1 →
    todo.length + 1 ≤ fuel →
    srv6Loop (hdr ++ ((done ++ todo).flatMap id ++ rest)) size le fuel (16 * done.length) done.length acc = acc ++ todo := by
  induction todo with
  | nil =>
    intro done fuel acc hlen hsize hle hf
    obtain ⟨fuel, rfl⟩ : ∃ f, fuel = f + 1 := ⟨fuel - 1, by omega⟩
    rw [srv6Loop, if_neg (by simp at hsize; omega)]; simp
  | cons s todo ih =>
    intro done fuel acc hlen hsize hle hf
    obtain ⟨fuel, rfl⟩ : ∃ f, fuel = f + 1 := ⟨fuel - 1, by simp at hf; omega⟩
    have hs : s.length = 16 := hlen s (by simp)
    have hdone : (done.flatMap id).length = 16 * done.length := flat_length done (fun x hx => hlen x (by simp [hx]))
    have hall : ((done ++ s :: todo).flatMap id).length = 16 * (done ++ s :: todo).length := flat_length _ hlen
    have hsl : sl (hdr ++ ((done ++ s :: todo).flatMap id ++ rest)) (8 + 16 * done.length) (8 + 16 * done.length + 16) = s := by
      rw [sl_skip _ _ _ _ (by omega), List.flatMap_append, List.append_assoc, sl_skip _ _ _ _ (by omega)]
      simp only [List.flatMap_cons, id, List.append_assoc]
      have e1 : 8 + 16 * done.length - hdr.length - (done.flatMap id).length = 0 := by omega
      have e2 : 8 + 16 * done.length + 16 - hdr.length - (done.flatMap id).length = 16 := by omega
      rw [e1, e2, sl_here _ _ _ hs]
    rw [srv6Loop, if_pos (by
      refine ⟨by simp at hsize ⊢; omega, ?_, by simp at hle; omega⟩
      simp only [List.length_append, hall, hhdr]; simp; omega)]
    rw [hsl]
    have := ih (done ++ [s]) fuel (acc ++ [s]) (by simpa using hlen) (by simpa using hsize) (by simpa using hle)
      (by simp at hf; omega)
    simp only [List.append_assoc, List.cons_append, List.nil_append, List.length_append, List.length_cons,
      List.length_nil] at this
    rw [show 16 * done.length + 16 = 16 * (done.length + (0 + 1)) by omega, this]


theorem parseRoute_spec (m : FlowMsg) (nh sleft le r1 r2 : Nat) (segs : List Bytes) (rest : Bytes) (pc : PC)
    (hnh : nh < 256) (hsl : sleft < 256) (hle : le < 256) (hn : segs.length < 128)
    (hsegs : ∀ s ∈ segs, s.length = 16) (hlast : segs.length ≤ le + 1) (henc : pc.encapsulated = false) :
    parseIPv6HeaderRouting m (encBE 1 nh ++ (encBE 1 (2 * segs.length) ++ (encBE 1 4 ++ (encBE 1 sleft ++
        (encBE 1 le ++ (encBE 1 r1 ++ (encBE 2 r2 ++ (segs.flatMap id ++ rest)))))))) pc =
      ⟨{ m with layerStack := m.layerStack ++ [10], ipv6RoutingHeaderSegLeft := sleft,
                ipv6RoutingHeaderAddresses := m.ipv6RoutingHeaderAddresses ++ segs },
        nextParserProto nh, 8 + 16 * segs.length⟩ := by
  have h2n : 2 * segs.length < 256 := by omega
  generalize hd : encBE 1 nh ++ (encBE 1 (2 * segs.length) ++ (encBE 1 4 ++ (encBE 1 sleft ++
        (encBE 1 le ++ (encBE 1 r1 ++ (encBE 2 r2 ++ (segs.flatMap id ++ rest))))))) = d
  have hd2 : d = (encBE 1 nh ++ (encBE 1 (2 * segs.length) ++ (encBE 1 4 ++ (encBE 1 sleft ++
        (encBE 1 le ++ (encBE 1 r1 ++ encBE 2 r2)))))) ++ ((([] : List Bytes) ++ segs).flatMap id ++ rest) := by
    rw [← hd]; simp only [List.append_assoc, List.nil_append]
  have hlen : d.length = 8 + 16 * segs.length + rest.length := by
    rw [← hd]; simp only [List.length_append, encBE_length, flat_length segs hsegs]; omega
  have h0 : Producer.u8 d 0 = nh := by rw [← hd]; simp [u8_here, beNat_encBE_of_lt, *]
  have h1 : Producer.u8 d 1 = 2 * segs.length := by rw [← hd]; simp [u8_skip, u8_here, beNat_encBE_of_lt, *]
  have h2 : Producer.u8 d 2 = 4 := by rw [← hd]; simp [u8_skip, u8_here, beNat_encBE_of_lt]
  have h3 : Producer.u8 d 3 = sleft := by rw [← hd]; simp [u8_skip, u8_here, beNat_encBE_of_lt, *]
  have h4 : Producer.u8 d 4 = le := by rw [← hd]; simp [u8_skip, u8_here, beNat_encBE_of_lt, *]
  have hloop : ∀ acc, srv6Loop d (8 + 8 * (2 * segs.length)) le (d.length / 16 + 1) 0 0 acc = acc ++ segs := by
    intro acc
    rw [hd2]
    exact srv6Loop_spec _ rest _ le (by simp) segs [] _ acc (by simpa using hsegs) (by simp; omega) (by simpa using hlast)
      (by rw [← hd2, hlen]; omega)
  unfold parseIPv6HeaderRouting
  rw [if_neg (by omega)]
  simp only [henc, addLayer, lsv2, h0, h1, h2, h3, h4, hloop]
  simp
  omega


/-! ### MPLS -/

theorem u8_enc3_2 (w : Nat) (r : Bytes) : Producer.u8 (encBE 3 w ++ r) 2 = w % 256 := by
  rw [show encBE 3 w = encBE 2 (w / 256 ^ 1) ++ encBE 1 w from encBE_add 2 1 w, List.append_assoc,
    u8_skip _ _ _ (by simp)]
  simp [u8_here, beNat_encBE]

theorem u8_enc4_0 (w : Nat) (r : Bytes) : Producer.u8 (encBE 4 w ++ r) 0 = w / 16777216 % 256 := by
  rw [show encBE 4 w = encBE 1 (w / 256 ^ 3) ++ encBE 3 w from encBE_add 1 3 w, List.append_assoc,
    u8_here _ _ (by simp), beNat_encBE]

/-- the ethertype ParseMPLS derives from the version nibble after the label stack -/
def peekEt (tail : Bytes) : Option (Nat × Nat) :=
  if tail.length > 0 then
    if Producer.u8 tail 0 / 16 = 4 then some (0x08, 0x00)
    else if Producer.u8 tail 0 / 16 = 6 then some (0x86, 0xdd)
    else none
  else none

def LabelsWF (labels : List (Nat × Nat)) : Prop := ∀ lt ∈ labels, 15 < lt.1 ∧ lt.1 < 2 ^ 20 ∧ lt.2 < 2 ^ 8

theorem mplsBytes_length (labels : List (Nat × Nat)) : (mplsBytes labels).length = 4 * labels.length := by
  induction labels with
  | nil => rfl
  | cons x xs ih =>
    obtain ⟨l, t⟩ := x
    cases xs with
    | nil => simp [mplsBytes, Spec.Frame.u8]
    | cons y ys => simp [mplsBytes, Spec.Frame.u8] at ih ⊢; omega

theorem mplsLoop_spec (tail : Bytes) (todo : List (Nat × Nat)) :
    ∀ (pre : Bytes) (fuel : Nat) (ls ts : List Nat), todo ≠ [] → LabelsWF todo → todo.length ≤ fuel →
    mplsLoop (pre ++ (mplsBytes todo ++ tail)) fuel pre.length ls ts =
      (ls ++ todo.map (·.1), ts ++ todo.map (·.2), pre.length + 4 * todo.length, peekEt tail) := by
  induction todo with
  | nil => intro _ _ _ _ h; exact absurd rfl h
  | cons x xs ih =>
    intro pre fuel ls ts _ hwf hf
    obtain ⟨l, t⟩ := x
    obtain ⟨fuel, rfl⟩ : ∃ f, fuel = f + 1 := ⟨fuel - 1, by simp at hf; omega⟩
    obtain ⟨hl15, hl20, ht⟩ := hwf (l, t) (by simp)
    simp only [Nat.reducePow] at hl20 ht
    cases xs with
    | nil =>
      simp only [mplsBytes, Spec.Frame.u8, List.append_assoc]
      rw [mplsLoop, if_neg (by simp; omega)]
      have hlabel : be (pre ++ (encBE 3 (l * 16 + 1) ++ (encBE 1 t ++ tail))) pre.length 3 = l * 16 + 1 := by
        rw [be_skip _ _ _ _ (Nat.le_refl _), Nat.sub_self, be_here _ _ _ (by simp), beNat_encBE_of_lt (by omega)]
      have hbot : Producer.u8 (pre ++ (encBE 3 (l * 16 + 1) ++ (encBE 1 t ++ tail))) (pre.length + 2) = (l * 16 + 1) % 256 := by
        rw [u8_skip _ _ _ (by omega), Nat.add_sub_cancel_left, u8_enc3_2]
      have httl : Producer.u8 (pre ++ (encBE 3 (l * 16 + 1) ++ (encBE 1 t ++ tail))) (pre.length + 3) = t := by
        rw [u8_skip _ _ _ (by omega), Nat.add_sub_cancel_left, u8_skip _ _ _ (by simp)]
        simp [u8_here, beNat_encBE_of_lt, ht]
      have hpeek : Producer.u8 (pre ++ (encBE 3 (l * 16 + 1) ++ (encBE 1 t ++ tail))) (pre.length + 4) = Producer.u8 tail 0 := by
        rw [u8_skip _ _ _ (by omega), Nat.add_sub_cancel_left, u8_skip _ _ _ (by simp), u8_skip _ _ _ (by simp)]
        simp
      simp only [hlabel, hbot, httl, hpeek]
      rw [if_pos (Or.inl (by omega))]
      have e1 : (l * 16 + 1) / 16 = l := by omega
      have e2 : (List.length (pre ++ (encBE 3 (l * 16 + 1) ++ (encBE 1 t ++ tail))) > List.length pre + 4) =
          (tail.length > 0) := by simp; omega
      rw [e1]
      simp only [e2, peekEt]
      simp
    | cons y ys =>
      simp only [mplsBytes, Spec.Frame.u8, List.append_assoc]
      have hlen := mplsBytes_length (y :: ys)
      rw [mplsLoop, if_neg (by simp; omega)]
      have hlabel : be (pre ++ (encBE 3 (l * 16) ++ (encBE 1 t ++ (mplsBytes (y :: ys) ++ tail)))) pre.length 3 = l * 16 := by
        rw [be_skip _ _ _ _ (Nat.le_refl _), Nat.sub_self, be_here _ _ _ (by simp), beNat_encBE_of_lt (by omega)]
      have hbot : Producer.u8 (pre ++ (encBE 3 (l * 16) ++ (encBE 1 t ++ (mplsBytes (y :: ys) ++ tail)))) (pre.length + 2) = (l * 16) % 256 := by
        rw [u8_skip _ _ _ (by omega), Nat.add_sub_cancel_left, u8_enc3_2]
      have httl : Producer.u8 (pre ++ (encBE 3 (l * 16) ++ (encBE 1 t ++ (mplsBytes (y :: ys) ++ tail)))) (pre.length + 3) = t := by
        rw [u8_skip _ _ _ (by omega), Nat.add_sub_cancel_left, u8_skip _ _ _ (by simp)]
        simp [u8_here, beNat_encBE_of_lt, ht]
      simp only [hlabel, hbot, httl]
      rw [if_neg (by simp [hlen]; omega)]
      have := ih (pre ++ (encBE 3 (l * 16) ++ encBE 1 t)) fuel (ls ++ [l * 16 / 16]) (ts ++ [t]) (by simp)
        (fun lt h => hwf lt (by simp [h])) (by simp at hf ⊢; omega)
      simp only [List.append_assoc, List.length_append, encBE_length] at this
      rw [show pre.length + 4 = pre.length + (3 + 1) by omega, this]
      simp
      omega


theorem parseMPLS_spec (m : FlowMsg) (labels : List (Nat × Nat)) (tail : Bytes) (a b : Nat) (pc : PC)
    (hne : labels ≠ []) (hwf : LabelsWF labels) (hpeek : peekEt tail = some (a, b)) (henc : pc.encapsulated = false) :
    parseMPLS m (mplsBytes labels ++ tail) pc =
      ⟨{ m with layerStack := m.layerStack ++ [5], etype := a * 256 + b, mplsLabel := labels.map (·.1),
                mplsTtl := labels.map (·.2) }, nextParserEtype a b, 4 * labels.length⟩ := by
  have hpos : 0 < labels.length := List.length_pos_iff.mpr hne
  have hlen : (mplsBytes labels ++ tail).length = 4 * labels.length + tail.length := by
    simp [mplsBytes_length]
  have hloop := mplsLoop_spec tail labels [] ((mplsBytes labels ++ tail).length / 4 + 1) [] [] hne hwf (by rw [hlen]; omega)
  simp only [List.nil_append, List.length_nil, Nat.zero_add] at hloop
  unfold parseMPLS
  rw [if_neg (by rw [hlen]; omega)]
  simp only [hloop, hpeek, henc, addLayer, lsv2]
  simp

/-! ### the loop of ParsePacket, one layer at a time -/

theorem mapLayerKeys_nil {cfg : Config} (hcfg : cfg.layers = []) (data : Bytes) (off : Nat) (enc : Bool)
    (ks : List String) (m : FlowMsg) : mapLayerKeys cfg data off enc ks m = .ok m := by
  induction ks generalizing m with
  | nil => rfl
  | cons k ks ih => simp [mapLayerKeys, lookupLayer, hcfg, mapLayerEntries, ih]

theorem loop_step {cfg : Config} (hcfg : cfg.layers = []) {data : Bytes} {fuel : Nat} {next : Next} {off : Nat}
    {encap : Bool} {idx : Nat} {calls : List (Nat × Nat)} {m : FlowMsg}
    (hc : next.callable = true) (ho : off ≤ data.length) (r : PRes)
    (hr : runParser next.parser m (data.drop off) ⟨encap, (calls.lookup next.parserIndex).getD 0, cfg.ports⟩ = r)
    (hrec : m.layerStack.length < r.msg.layerStack.length := by simp) :
    parseLoop cfg data (fuel + 1) next off encap idx calls m =
      parseLoop cfg data fuel r.next (off + r.size)
        (encap || encapTrig (encapIdx idx next.encapSkip next.layerIndex) r.next.encapSkip r.next.layerIndex)
        (encapIdx idx next.encapSkip next.layerIndex) (bump calls next.parserIndex) { r.msg with layerSize := r.msg.layerSize ++ [r.size % 2 ^ 32] } := by
  subst hr
  rw [parseLoop]
  simp only [hc, ho, and_self, if_true, mapLayerKeys_nil hcfg, hrec, decide_true, ite_self]

theorem loop_stop {cfg : Config} {data : Bytes} {fuel : Nat} {next : Next} {off : Nat}
    {encap : Bool} {idx : Nat} {calls : List (Nat × Nat)} {m : FlowMsg} (hc : next.callable = false) :
    parseLoop cfg data (fuel + 1) next off encap idx calls m = .ok m := by
  rw [parseLoop]; simp [hc]

theorem drop_skip (x r : Bytes) (s : Nat) (h : x.length ≤ s) : (x ++ r).drop s = r.drop (s - x.length) := by
  simp [List.drop_append, List.drop_of_length_le h]

/-- after a header of `s` bytes the rest of the data starts at `off + s` -/
theorem drop_step {data full rest : Bytes} {off s : Nat} (hd : data.drop off = full) (ho : off ≤ data.length)
    (hrest : full.drop s = rest) (hs : s ≤ full.length) :
    data.drop (off + s) = rest ∧ off + s ≤ data.length := by
  constructor
  · rw [← List.drop_drop, hd, hrest]
  · have := congrArg List.length hd
    simp at this; omega

/-- neither ICMP parser has run yet -/
def IcmpFresh (calls : List (Nat × Nat)) : Prop := calls.lookup 10 = none ∧ calls.lookup 11 = none

theorem lookup_filter_ne (cs : List (Nat × Nat)) (k k' : Nat) (h : k' ≠ k) :
    (cs.filter (fun e => e.1 != k)).lookup k' = cs.lookup k' := by
  induction cs with
  | nil => rfl
  | cons c cs ih =>
    obtain ⟨a, b⟩ := c
    by_cases hak : a = k
    · subst hak
      have : (k' == a) = false := by simp [h]
      simp [List.filter, List.lookup, this, ih]
    · have h1 : (a != k) = true := by simp [hak]
      simp only [List.filter, h1, List.lookup]
      split <;> simp_all

theorem lookup_bump_ne (cs : List (Nat × Nat)) (k k' : Nat) (h : k' ≠ k) : (bump cs k).lookup k' = cs.lookup k' := by
  have : (k' == k) = false := by simp [h]
  simp [bump, List.lookup, this, lookup_filter_ne cs k k' h]

theorem IcmpFresh.bump {cs : List (Nat × Nat)} (h : IcmpFresh cs) (k : Nat) (h10 : k ≠ 10) (h11 : k ≠ 11) :
    IcmpFresh (bump cs k) := by
  unfold IcmpFresh
  rw [lookup_bump_ne cs k 10 (Ne.symm h10), lookup_bump_ne cs k 11 (Ne.symm h11)]
  exact h

theorem IcmpFresh.nil : IcmpFresh [] := ⟨rfl, rfl⟩


/-! ### layer 4 -/

/-- well-formed layer-4 headers: all fields within their wire widths, the TCP data offset consistent with
    the options, and ports that select no tunnel parser among the registered `ports` -/
def L4WF (ports : List PortEntry) : L4 → Prop
  | .tcp sp dp seq ack off flags win opts =>
    sp < 2 ^ 16 ∧ dp < 2 ^ 16 ∧ seq < 2 ^ 32 ∧ ack < 2 ^ 32 ∧ 5 ≤ off ∧ off < 16 ∧ flags < 2 ^ 8 ∧ win < 2 ^ 16 ∧
      20 + opts.length = off * 4 ∧ (nextParserPort ports "tcp" sp dp).callable = false
  | .udp sp dp => sp < 2 ^ 16 ∧ dp < 2 ^ 16 ∧ (nextParserPort ports "udp" sp dp).callable = false
  | .icmp t c => t < 2 ^ 8 ∧ c < 2 ^ 8
  | .icmpv6 t c => t < 2 ^ 8 ∧ c < 2 ^ 8
  | .other p _ => p < 2 ^ 8 ∧ p ∉ [1, 4, 6, 17, 41, 43, 44, 47, 58]

/-- what the L4 layer adds to the message -/
def l4Msg : L4 → FlowMsg → FlowMsg
  | .tcp sp dp _ _ off flags _ _, m =>
    { m with layerStack := m.layerStack ++ [3], layerSize := m.layerSize ++ [off * 4],
             srcPort := sp, dstPort := dp, tcpFlags := flags }
  | .udp sp dp, m =>
    { m with layerStack := m.layerStack ++ [4], layerSize := m.layerSize ++ [8], srcPort := sp, dstPort := dp }
  | .icmp t c, m =>
    { m with layerStack := m.layerStack ++ [7], layerSize := m.layerSize ++ [8], icmpType := t, icmpCode := c }
  | .icmpv6 t c, m =>
    { m with layerStack := m.layerStack ++ [8], layerSize := m.layerSize ++ [8], icmpType := t, icmpCode := c }
  | .other _ _, m => m

theorem l4Proto_lt {ports : List PortEntry} {l : L4} (h : L4WF ports l) : l4Proto l < 256 := by
  cases l <;> simp [l4Proto, L4WF] at h ⊢
  exact h.1

/-- the L4 parser selected by the protocol number does not start an encapsulation -/
theorem l4_noencap {ports : List PortEntry} {l : L4} (h : L4WF ports l) (li : Nat) (hli : li < 40) :
    encapTrig li (nextParserProto (l4Proto l)).encapSkip (nextParserProto (l4Proto l)).layerIndex = false := by
  cases l with
  | other p _ =>
    simp only [L4WF, List.mem_cons, List.not_mem_nil, or_false, not_or] at h
    obtain ⟨_, h1, h4, h6, h17, h41, h43, h44, h47, h58⟩ := h
    simp [encapTrig, l4Proto, nextParserProto, Next.encapSkip, Next.layerIndex, Parser.layerIndex, Parser.encapSkip, Parser.info, *]
    omega
  | _ =>
    simp [encapTrig, l4Proto, nextParserProto, Next.encapSkip, Next.layerIndex, Parser.layerIndex, Parser.encapSkip, Parser.info]
    omega

theorem loop_l4 {cfg : Config} (hcfg : cfg.layers = []) (l : L4) (hl : L4WF cfg.ports l)
    {data : Bytes} {off : Nat} (hd : data.drop off = l4Bytes l) (ho : off ≤ data.length)
    {fuel : Nat} (hf : 2 ≤ fuel) {calls : List (Nat × Nat)} (hfresh : IcmpFresh calls) (idx : Nat) (m : FlowMsg) :
    parseLoop cfg data fuel (nextParserProto (l4Proto l)) off false idx calls m = .ok (l4Msg l m) := by
  obtain ⟨fuel, rfl⟩ : ∃ f, fuel = f + 2 := ⟨fuel - 2, by omega⟩
  cases l with
  | tcp sp dp seq ack doff flags win opts =>
    obtain ⟨hsp, hdp, _, _, h5, h16, hfl, _, _, hport⟩ := hl
    simp only [l4Bytes, Spec.Frame.u8, Spec.Frame.u16, Spec.Frame.u32, List.append_assoc] at hd
    obtain ⟨ks, hn⟩ : ∃ ks, nextParserProto (l4Proto (.tcp sp dp seq ack doff flags win opts)) = ⟨.tcp, ks, false⟩ := ⟨_, rfl⟩
    have hr := parseTCP_spec m sp dp seq ack doff flags win 0 0 opts ⟨false, (calls.lookup 8).getD 0, cfg.ports⟩
      hsp hdp h5 h16 hfl rfl
    rw [← hd] at hr
    rw [hn, loop_step (next := ⟨.tcp, ks, false⟩) (encap := false) (idx := idx) (calls := calls) (m := m) hcfg rfl ho _ hr]
    rw [loop_stop hport]
    have : doff * 4 % 2 ^ 32 = doff * 4 := Nat.mod_eq_of_lt (by omega)
    simp only [l4Msg, this]
  | udp sp dp =>
    obtain ⟨hsp, hdp, hport⟩ := hl
    simp only [l4Bytes, Spec.Frame.u8, Spec.Frame.u16, Spec.Frame.u32, List.append_assoc] at hd
    obtain ⟨ks, hn⟩ : ∃ ks, nextParserProto (l4Proto (.udp sp dp)) = ⟨.udp, ks, false⟩ := ⟨_, rfl⟩
    have hr := parseUDP_spec m sp dp (encBE 2 8 ++ encBE 2 0) ⟨false, (calls.lookup 9).getD 0, cfg.ports⟩ hsp hdp (by simp) rfl
    rw [← hd] at hr
    rw [hn, loop_step (next := ⟨.udp, ks, false⟩) (encap := false) (idx := idx) (calls := calls) (m := m) hcfg rfl ho _ hr]
    rw [loop_stop hport]
    simp only [l4Msg] <;> rfl
  | icmp t c =>
    obtain ⟨ht, hc⟩ := hl
    simp only [l4Bytes, Spec.Frame.u8, Spec.Frame.u16, Spec.Frame.u32, List.append_assoc] at hd
    obtain ⟨ks, hn⟩ : ∃ ks, nextParserProto (l4Proto (.icmp t c)) = ⟨.icmp, ks, false⟩ := ⟨_, rfl⟩
    have hcalls : (calls.lookup 10).getD 0 = 0 := by rw [hfresh.1]; rfl
    have hr := parseICMP_spec m t c (encBE 2 0 ++ encBE 4 0) ⟨false, (calls.lookup 10).getD 0, cfg.ports⟩ ht hc hcalls
    rw [← hd] at hr
    rw [hn, loop_step (next := ⟨.icmp, ks, false⟩) (encap := false) (idx := idx) (calls := calls) (m := m) hcfg rfl ho _ hr]
    rw [loop_stop rfl]
    simp only [l4Msg] <;> rfl
  | icmpv6 t c =>
    obtain ⟨ht, hc⟩ := hl
    simp only [l4Bytes, Spec.Frame.u8, Spec.Frame.u16, Spec.Frame.u32, List.append_assoc] at hd
    obtain ⟨ks, hn⟩ : ∃ ks, nextParserProto (l4Proto (.icmpv6 t c)) = ⟨.icmpv6, ks, false⟩ := ⟨_, rfl⟩
    have hcalls : (calls.lookup 11).getD 0 = 0 := by rw [hfresh.2]; rfl
    have hr := parseICMPv6_spec m t c (encBE 2 0 ++ encBE 4 0) ⟨false, (calls.lookup 11).getD 0, cfg.ports⟩ ht hc hcalls
    rw [← hd] at hr
    rw [hn, loop_step (next := ⟨.icmpv6, ks, false⟩) (encap := false) (idx := idx) (calls := calls) (m := m) hcfg rfl ho _ hr]
    rw [loop_stop rfl]
    simp only [l4Msg] <;> rfl
  | other p pl =>
    simp only [L4WF, List.mem_cons, List.not_mem_nil, or_false, not_or] at hl
    obtain ⟨_, h1, h4, h6, h17, h41, h43, h44, h47, h58⟩ := hl
    rw [loop_stop (by simp [l4Proto, nextParserProto, Next.callable, *])]
    rfl

/-! ### the parsers on an encoded header when `Encapsulated` is set: only the layer stack grows -/

theorem parseIPv4_enc (m : FlowMsg) (vihl tos len ident frag ttl proto ck : Nat) (src dst body : Bytes) (pc : PC)
    (hproto : proto < 256) (hsrc : src.length = 4) (hdst : dst.length = 4) (henc : pc.encapsulated = true) :
    parseIPv4 m (encBE 1 vihl ++ (encBE 1 tos ++ (encBE 2 len ++ (encBE 2 ident ++ (encBE 2 frag ++ (encBE 1 ttl ++
        (encBE 1 proto ++ (encBE 2 ck ++ (src ++ (dst ++ body)))))))))) pc =
      ⟨{ m with layerStack := m.layerStack ++ [1] }, nextParserProto proto, 20⟩ := by
  unfold parseIPv4
  rw [if_neg (by simp [hsrc, hdst]; omega)]
  simp only [henc, addLayer, lsv]
  simp [u8_skip, u8_here, beNat_encBE_of_lt, *]

theorem parseIPv6_enc (m : FlowMsg) (w len nh hl : Nat) (src dst body : Bytes) (pc : PC)
    (hnh : nh < 256) (hsrc : src.length = 16) (hdst : dst.length = 16) (henc : pc.encapsulated = true) :
    parseIPv6 m (encBE 4 w ++ (encBE 2 len ++ (encBE 1 nh ++ (encBE 1 hl ++ (src ++ (dst ++ body)))))) pc =
      ⟨{ m with layerStack := m.layerStack ++ [2] }, nextParserProto nh, 40⟩ := by
  unfold parseIPv6
  rw [if_neg (by simp [hsrc, hdst]; omega)]
  simp only [henc, addLayer, lsv]
  simp [u8_skip, u8_here, beNat_encBE_of_lt, *]

theorem parseFrag_enc (m : FlowMsg) (nh res frag ident : Nat) (rest : Bytes) (pc : PC)
    (hnh : nh < 256) (henc : pc.encapsulated = true) :
    parseIPv6HeaderFragment m (encBE 1 nh ++ (encBE 1 res ++ (encBE 2 frag ++ (encBE 4 ident ++ rest)))) pc =
      ⟨{ m with layerStack := m.layerStack ++ [11] }, nextParserProto nh, 8⟩ := by
  unfold parseIPv6HeaderFragment
  rw [if_neg (by simp; omega)]
  simp only [henc, addLayer, lsv2]
  simp [u8_here, beNat_encBE_of_lt, *]

theorem parseRoute_enc (m : FlowMsg) (nh n rt sleft le r1 r2 : Nat) (rest : Bytes) (pc : PC)
    (hnh : nh < 256) (hn : n < 256) (henc : pc.encapsulated = true) :
    parseIPv6HeaderRouting m (encBE 1 nh ++ (encBE 1 n ++ (encBE 1 rt ++ (encBE 1 sleft ++
        (encBE 1 le ++ (encBE 1 r1 ++ (encBE 2 r2 ++ rest))))))) pc =
      ⟨{ m with layerStack := m.layerStack ++ [10] }, nextParserProto nh, 8 + 8 * n⟩ := by
  unfold parseIPv6HeaderRouting
  rw [if_neg (by simp; omega)]
  simp only [henc, addLayer, lsv2]
  simp [u8_skip, u8_here, beNat_encBE_of_lt, *]

theorem parseTCP_enc (m : FlowMsg) (sp dp seq ack off flags win ck urg : Nat) (opts : Bytes) (pc : PC)
    (hsp : sp < 65536) (hdp : dp < 65536) (hoff5 : 5 ≤ off) (hoff : off < 16)
    (henc : pc.encapsulated = true) :
    parseTCP m (encBE 2 sp ++ (encBE 2 dp ++ (encBE 4 seq ++ (encBE 4 ack ++ (encBE 1 (off * 16) ++ (encBE 1 flags ++
        (encBE 2 win ++ (encBE 2 ck ++ (encBE 2 urg ++ opts))))))))) pc =
      ⟨{ m with layerStack := m.layerStack ++ [3] }, nextParserPort pc.ports "tcp" sp dp, off * 4⟩ := by
  unfold parseTCP
  rw [if_neg (by simp; omega)]
  have h16 : off * 16 < 256 := by omega
  simp only [henc, addLayer, lsv]
  simp [be_skip, be_here, u8_skip, u8_here, beNat_encBE_of_lt, *]
  omega

theorem parseUDP_enc (m : FlowMsg) (sp dp : Nat) (rest : Bytes) (pc : PC)
    (hsp : sp < 65536) (hdp : dp < 65536) (hrest : 4 ≤ rest.length) (henc : pc.encapsulated = true) :
    parseUDP m (encBE 2 sp ++ (encBE 2 dp ++ rest)) pc =
      ⟨{ m with layerStack := m.layerStack ++ [4] }, nextParserPort pc.ports "udp" sp dp, 8⟩ := by
  unfold parseUDP
  rw [if_neg (by simp; omega)]
  simp only [henc, addLayer, lsv]
  simp [be_skip, be_here, beNat_encBE_of_lt, *]

theorem parseGRE_spec (m : FlowMsg) (fl : Bytes) (e0 e1 : UInt8) (rest : Bytes) (pc : PC) (hfl : fl.length = 2) :
    parseGRE m (fl ++ (e0 :: e1 :: rest)) pc =
      ⟨{ m with layerStack := m.layerStack ++ [9] }, nextParserEtype e0.toNat e1.toNat, 4⟩ := by
  unfold parseGRE
  rw [if_neg (by simp [hfl]; omega)]
  simp only [addLayer, lsv2]
  simp [u8_skip, hfl]
  simp [Producer.u8]

theorem parseMPLS_enc (m : FlowMsg) (labels : List (Nat × Nat)) (tail : Bytes) (a b : Nat) (pc : PC)
    (hne : labels ≠ []) (hwf : LabelsWF labels) (hpeek : peekEt tail = some (a, b)) (henc : pc.encapsulated = true) :
    parseMPLS m (mplsBytes labels ++ tail) pc =
      ⟨{ m with layerStack := m.layerStack ++ [5] }, nextParserEtype a b, 4 * labels.length⟩ := by
  have hpos : 0 < labels.length := List.length_pos_iff.mpr hne
  have hlen : (mplsBytes labels ++ tail).length = 4 * labels.length + tail.length := by
    simp [mplsBytes_length]
  have hloop := mplsLoop_spec tail labels [] ((mplsBytes labels ++ tail).length / 4 + 1) [] [] hne hwf (by rw [hlen]; omega)
  simp only [List.nil_append, List.length_nil, Nat.zero_add] at hloop
  unfold parseMPLS
  rw [if_neg (by rw [hlen]; omega)]
  simp only [hloop, hpeek, henc, addLayer, lsv2]
  simp


/-! ### well-formed IP packets, their payloads and what Ethernet (or GRE) carries — mutually recursive (tunnels) -/

def ExtWF : V6Ext → Prop
  | .none => True
  | .fragment fo fl3 ident => fo < 2 ^ 13 ∧ fl3 < 2 ^ 3 ∧ ident < 2 ^ 32
  | .srh sleft le segs =>
    sleft < 2 ^ 8 ∧ le < 2 ^ 8 ∧ segs.length < 128 ∧ (∀ s ∈ segs, s.length = 16) ∧ segs.length ≤ le + 1

mutual
/-- well-formed IP headers: all fields within their wire widths, addresses of 4 / 16 bytes -/
def IPWF (ports : List PortEntry) : IP → Prop
  | .v4 tos ident fl fo ttl src dst pl =>
    tos < 2 ^ 8 ∧ ident < 2 ^ 16 ∧ fl < 2 ^ 3 ∧ fo < 2 ^ 13 ∧ ttl < 2 ^ 8 ∧ src.length = 4 ∧ dst.length = 4 ∧
      PayloadWF ports pl
  | .v6 tc fl hl src dst ext pl =>
    tc < 2 ^ 8 ∧ fl < 2 ^ 20 ∧ hl < 2 ^ 8 ∧ src.length = 16 ∧ dst.length = 16 ∧ ExtWF ext ∧ PayloadWF ports pl
/-- well-formed payloads of an IP header: an L4 header, GRE, or IP-in-IP -/
def PayloadWF (ports : List PortEntry) : Payload → Prop
  | .l4 l => L4WF ports l
  | .gre inner => EpWF ports inner
  | .ipip p => IPWF ports p
/-- what Ethernet or GRE carries: IP, a non-empty MPLS label stack before IP, or an ethertype without parser -/
def EpWF (ports : List PortEntry) : EtherPayload → Prop
  | .ip p => IPWF ports p
  | .mpls labels p => labels ≠ [] ∧ labels.length < 2 ^ 30 ∧ LabelsWF labels ∧ IPWF ports p
  | .raw t _ => t < 2 ^ 16 ∧ t ∉ [0x199e, 0x6558, 0x8847, 0x8100, 0x0800, 0x86dd]
end

def ipParser : IP → Parser
  | .v4 .. => .ipv4
  | .v6 .. => .ipv6

def ipEtype : IP → Nat
  | .v4 .. => 0x0800
  | .v6 .. => 0x86dd

def epParser : EtherPayload → Parser
  | .ip p => ipParser p
  | .mpls .. => .mpls
  | .raw .. => .none

theorem etherType_ip (p : IP) : etherType (.ip p) = ipEtype p := by cases p <;> rfl

theorem payloadProto_lt {ports : List PortEntry} {pl : Payload} (h : PayloadWF ports pl) : payloadProto pl < 256 := by
  match pl, h with
  | .l4 l, h => exact l4Proto_lt h
  | .gre _, _ => simp [payloadProto]
  | .ipip (.v4 ..), _ => simp [payloadProto]
  | .ipip (.v6 ..), _ => simp [payloadProto]

theorem ip_next (p : IP) : ∃ ks, nextParserEtype (ipEtype p / 256) (ipEtype p % 256) = ⟨ipParser p, ks, false⟩ := by
  cases p <;> simp only [ipEtype, ipParser] <;> exact ⟨_, rfl⟩

theorem ipip_next (p : IP) : ∃ ks, nextParserProto (payloadProto (.ipip p)) = ⟨ipParser p, ks, false⟩ := by
  cases p <;> simp only [payloadProto, ipParser] <;> exact ⟨_, rfl⟩

theorem peek_ip {ports : List PortEntry} (p : IP) (hp : IPWF ports p) :
    peekEt (ipBytes p) = some (ipEtype p / 256, ipEtype p % 256) := by
  match p, hp with
  | .v4 tos ident fl fo ttl src dst pl, _ =>
    simp only [ipBytes, Spec.Frame.u8, List.append_assoc, peekEt]
    rw [if_pos (by simp only [List.length_append, encBE_length]; omega), u8_here _ _ (by simp)]
    simp [ipEtype, beNat_encBE]
  | .v6 tc fl hlim src dst ext pl, hp =>
    simp only [IPWF, Nat.reducePow] at hp
    obtain ⟨htc, hfl, -⟩ := hp
    simp only [ipBytes, Spec.Frame.u32, List.append_assoc, peekEt]
    rw [if_pos (by simp only [List.length_append, encBE_length]; omega), u8_enc4_0]
    have : (6 * 2 ^ 28 + tc * 2 ^ 20 + fl) / 16777216 % 256 / 16 = 6 := by omega
    rw [this]
    simp [ipEtype]

theorem etherType_lt {ports : List PortEntry} (ep : EtherPayload) (h : EpWF ports ep) : etherType ep < 65536 := by
  match ep, h with
  | .ip (.v4 ..), _ => simp [etherType]
  | .ip (.v6 ..), _ => simp [etherType]
  | .mpls .., _ => simp [etherType]
  | .raw t _, h => exact h.1

theorem hi_lo {x : Nat} (h : x < 65536) :
    (UInt8.ofNat (x / 256 % 256)).toNat = x / 256 ∧ (UInt8.ofNat (x % 256)).toNat = x % 256 := by
  simp only [UInt8.toNat_ofNat', Nat.reducePow]
  omega

/-- an ethertype outside the dispatch table selects no parser -/
theorem raw_next (t : Nat) (h : t ∉ [0x199e, 0x6558, 0x8847, 0x8100, 0x0800, 0x86dd]) :
    ∃ ks, nextParserEtype (t / 256) (t % 256) = ⟨.none, ks, false⟩ := by
  have e : t / 256 * 256 + t % 256 = t := by omega
  simp only [List.mem_cons, List.not_mem_nil, or_false, not_or] at h
  obtain ⟨h1, h2, h3, h4, h5, h6⟩ := h
  refine ⟨Parser.none.keys ++ ["etype" ++ natStr t, "etype0x" ++ hex4 t], ?_⟩
  simp [nextParserEtype, e, h1, h2, h3, h4, h5, h6]

theorem ep_next {ports : List PortEntry} (ep : EtherPayload) (h : EpWF ports ep) :
    ∃ ks, nextParserEtype (etherType ep / 256) (etherType ep % 256) = ⟨epParser ep, ks, false⟩ := by
  match ep, h with
  | .ip (.v4 ..), _ => simp only [etherType, epParser, ipParser]; exact ⟨_, rfl⟩
  | .ip (.v6 ..), _ => simp only [etherType, epParser, ipParser]; exact ⟨_, rfl⟩
  | .mpls .., _ => simp only [etherType, epParser]; exact ⟨_, rfl⟩
  | .raw t _, h => simp only [etherType, epParser]; exact raw_next t h.2

/-- `loop_step` with the parser's result stated on the bytes at `off` -/
theorem loop_step' {cfg : Config} (hcfg : cfg.layers = []) {data : Bytes} {fuel : Nat} {next : Next} {off : Nat}
    {encap : Bool} {idx : Nat} {calls : List (Nat × Nat)} {m : FlowMsg}
    (hc : next.callable = true) (ho : off ≤ data.length) {d : Bytes} (hd : data.drop off = d) (r : PRes)
    (hr : runParser next.parser m d ⟨encap, (calls.lookup next.parserIndex).getD 0, cfg.ports⟩ = r)
    (hrec : m.layerStack.length < r.msg.layerStack.length := by simp) :
    parseLoop cfg data (fuel + 1) next off encap idx calls m =
      parseLoop cfg data fuel r.next (off + r.size)
        (encap || encapTrig (encapIdx idx next.encapSkip next.layerIndex) r.next.encapSkip r.next.layerIndex)
        (encapIdx idx next.encapSkip next.layerIndex) (bump calls next.parserIndex)
        { r.msg with layerSize := r.msg.layerSize ++ [r.size % 2 ^ 32] } :=
  loop_step hcfg hc ho r (hd ▸ hr) hrec

theorem drop_step_app {data hdr rest : Bytes} {off s : Nat} (hd : data.drop off = hdr ++ rest)
    (ho : off ≤ data.length) (hs : hdr.length = s) : data.drop (off + s) = rest ∧ off + s ≤ data.length :=
  drop_step hd ho (List.drop_left' hs) (by simp [hs])

/-! ### tunnelled layers: once `Encapsulated` is set only the layer stack and the layer sizes grow
    (and the ICMP type / code of an ICMP header that ends the chain) -/

def stackL4 : L4 → List (Nat × Nat)
  | .tcp _ _ _ _ doff _ _ _ => [(3, doff * 4)]
  | .udp .. => [(4, 8)]
  | .icmp .. => [(7, 8)]
  | .icmpv6 .. => [(8, 8)]
  | .other .. => []

def stackExt : V6Ext → List (Nat × Nat)
  | .none => []
  | .fragment .. => [(11, 8)]
  | .srh _ _ segs => [(10, 8 + 16 * segs.length)]

mutual
/-- (layer-stack value, layer size) of the layers of an IP packet -/
def stackIP : IP → List (Nat × Nat)
  | .v4 _ _ _ _ _ _ _ pl => (1, 20) :: stackPayload pl
  | .v6 _ _ _ _ _ ext pl => (2, 40) :: (stackExt ext ++ stackPayload pl)
def stackPayload : Payload → List (Nat × Nat)
  | .l4 l => stackL4 l
  | .gre inner => (9, 4) :: stackEther inner
  | .ipip p => stackIP p
def stackEther : EtherPayload → List (Nat × Nat)
  | .ip p => stackIP p
  | .mpls labels p => (5, 4 * labels.length) :: stackIP p
  | .raw .. => []
end

theorem layers_l4 (off : Nat) (l : L4) : (l4Facts off l).2.map (fun x => (x.1, x.2.1)) = stackL4 l := by
  cases l <;> simp [l4Facts, stackL4, LS_TCP, LS_UDP, LS_ICMP, LS_ICMPv6]

mutual
theorem layers_ip : ∀ (p : IP) (off : Nat), (innerIPLayers off p).map (fun x => (x.1, x.2.1)) = stackIP p
  | .v4 _ _ _ _ _ _ _ pl, off => by
    simp [innerIPLayers, stackIP, LS_IPv4, layers_payload pl]
  | .v6 _ _ _ _ _ ext pl, off => by
    cases ext <;> simp [innerIPLayers, stackIP, stackExt, LS_IPv6, LS_Frag, LS_Route, layers_payload pl]
theorem layers_payload : ∀ (pl : Payload) (off : Nat), (innerPayloadLayers off pl).map (fun x => (x.1, x.2.1)) = stackPayload pl
  | .l4 l, off => by simp [innerPayloadLayers, stackPayload, layers_l4]
  | .gre inner, off => by simp [innerPayloadLayers, stackPayload, LS_GRE, layers_ether inner]
  | .ipip p, off => by simp [innerPayloadLayers, stackPayload, layers_ip p]
theorem layers_ether : ∀ (ep : EtherPayload) (off : Nat), (innerEtherLayers off ep).map (fun x => (x.1, x.2.1)) = stackEther ep
  | .ip p, off => by simp [innerEtherLayers, stackEther, layers_ip p]
  | .mpls labels p, off => by simp [innerEtherLayers, stackEther, LS_MPLS, layers_ip p]
  | .raw .., off => by simp [innerEtherLayers, stackEther]
end

/-- the message after a tunnelled stack: the layers are appended, the ICMP header that ends it (if any) is reported -/
def innerRes (layers : List (Nat × Nat)) (icmp : Option (Nat × Nat)) (m : FlowMsg) : FlowMsg :=
  { m with layerStack := m.layerStack ++ layers.map (·.1), layerSize := m.layerSize ++ layers.map (·.2),
           icmpType := match icmp with | some (t, _) => t | none => m.icmpType,
           icmpCode := match icmp with | some (_, c) => c | none => m.icmpCode }

theorem innerRes_cons (a s : Nat) (rest : List (Nat × Nat)) (icmp : Option (Nat × Nat)) (m : FlowMsg) :
    innerRes ((a, s) :: rest) icmp m =
      innerRes rest icmp { m with layerStack := m.layerStack ++ [a], layerSize := m.layerSize ++ [s] } := by
  cases icmp <;> simp [innerRes]

theorem innerRes_nil (m : FlowMsg) : innerRes [] none m = m := by simp [innerRes]

theorem loop_innerL4 {cfg : Config} (hcfg : cfg.layers = []) (l : L4) (hl : L4WF cfg.ports l)
    {data : Bytes} {off : Nat} (hd : data.drop off = l4Bytes l) (ho : off ≤ data.length)
    {fuel : Nat} (hf : (stackL4 l).length + 1 ≤ fuel) {calls : List (Nat × Nat)} (hfresh : IcmpFresh calls)
    (idx : Nat) (m : FlowMsg) :
    parseLoop cfg data fuel (nextParserProto (l4Proto l)) off true idx calls m =
      .ok (innerRes (stackL4 l) (innerIcmpPayload (.l4 l)) m) := by
  obtain ⟨fuel, rfl⟩ : ∃ f, fuel = f + 1 := ⟨fuel - 1, by omega⟩
  cases l with
  | tcp sp dp seq ack doff flags win opts =>
    simp only [L4WF, Nat.reducePow] at hl
    obtain ⟨fuel, rfl⟩ : ∃ f, fuel = f + 1 := ⟨fuel - 1, by simp [stackL4] at hf; omega⟩
    obtain ⟨hsp, hdp, _, _, h5, h16, hfl, _, _, hport⟩ := hl
    simp only [l4Bytes, Spec.Frame.u8, Spec.Frame.u16, Spec.Frame.u32, List.append_assoc] at hd
    obtain ⟨ks, hn⟩ : ∃ ks, nextParserProto (l4Proto (.tcp sp dp seq ack doff flags win opts)) = ⟨.tcp, ks, false⟩ := ⟨_, rfl⟩
    rw [hn, loop_step' (next := ⟨.tcp, ks, false⟩) (encap := true) (idx := idx) hcfg rfl ho hd _
      (parseTCP_enc _ _ _ _ _ _ _ _ _ _ _ _ hsp hdp h5 h16 (by rfl))]
    rw [loop_stop hport]
    have : doff * 4 % 2 ^ 32 = doff * 4 := Nat.mod_eq_of_lt (by omega)
    simp [stackL4, innerIcmpPayload, innerRes, this]
  | udp sp dp =>
    simp only [L4WF, Nat.reducePow] at hl
    obtain ⟨fuel, rfl⟩ : ∃ f, fuel = f + 1 := ⟨fuel - 1, by simp [stackL4] at hf; omega⟩
    obtain ⟨hsp, hdp, hport⟩ := hl
    simp only [l4Bytes, Spec.Frame.u8, Spec.Frame.u16, Spec.Frame.u32, List.append_assoc] at hd
    obtain ⟨ks, hn⟩ : ∃ ks, nextParserProto (l4Proto (.udp sp dp)) = ⟨.udp, ks, false⟩ := ⟨_, rfl⟩
    rw [hn, loop_step' (next := ⟨.udp, ks, false⟩) (encap := true) (idx := idx) hcfg rfl ho hd _
      (parseUDP_enc _ _ _ _ _ hsp hdp (by simp) (by rfl))]
    rw [loop_stop hport]
    simp [stackL4, innerIcmpPayload, innerRes]
  | icmp t c =>
    simp only [L4WF, Nat.reducePow] at hl
    obtain ⟨fuel, rfl⟩ : ∃ f, fuel = f + 1 := ⟨fuel - 1, by simp [stackL4] at hf; omega⟩
    obtain ⟨ht, hc⟩ := hl
    simp only [l4Bytes, Spec.Frame.u8, Spec.Frame.u16, Spec.Frame.u32, List.append_assoc] at hd
    obtain ⟨ks, hn⟩ : ∃ ks, nextParserProto (l4Proto (.icmp t c)) = ⟨.icmp, ks, false⟩ := ⟨_, rfl⟩
    have hcalls : (calls.lookup 10).getD 0 = 0 := by rw [hfresh.1]; rfl
    rw [hn, loop_step' (next := ⟨.icmp, ks, false⟩) (encap := true) (idx := idx) hcfg rfl ho hd _
      (parseICMP_spec _ _ _ _ _ ht hc hcalls)]
    rw [loop_stop rfl]
    simp [stackL4, innerIcmpPayload, innerRes]
  | icmpv6 t c =>
    simp only [L4WF, Nat.reducePow] at hl
    obtain ⟨fuel, rfl⟩ : ∃ f, fuel = f + 1 := ⟨fuel - 1, by simp [stackL4] at hf; omega⟩
    obtain ⟨ht, hc⟩ := hl
    simp only [l4Bytes, Spec.Frame.u8, Spec.Frame.u16, Spec.Frame.u32, List.append_assoc] at hd
    obtain ⟨ks, hn⟩ : ∃ ks, nextParserProto (l4Proto (.icmpv6 t c)) = ⟨.icmpv6, ks, false⟩ := ⟨_, rfl⟩
    have hcalls : (calls.lookup 11).getD 0 = 0 := by rw [hfresh.2]; rfl
    rw [hn, loop_step' (next := ⟨.icmpv6, ks, false⟩) (encap := true) (idx := idx) hcfg rfl ho hd _
      (parseICMPv6_spec _ _ _ _ _ ht hc hcalls)]
    rw [loop_stop rfl]
    simp [stackL4, innerIcmpPayload, innerRes]
  | other p pl =>
    simp only [L4WF, List.mem_cons, List.not_mem_nil, or_false, not_or] at hl
    obtain ⟨_, h1, h4, h6, h17, h41, h43, h44, h47, h58⟩ := hl
    rw [loop_stop (by simp [l4Proto, nextParserProto, Next.callable, *])]
    simp [stackL4, innerIcmpPayload, innerRes]

mutual
theorem loop_innerIP {cfg : Config} (hcfg : cfg.layers = []) :
    ∀ (p : IP), IPWF cfg.ports p → ∀ (data : Bytes) (off : Nat), data.drop off = ipBytes p → off ≤ data.length →
    ∀ (fuel : Nat), (stackIP p).length + 1 ≤ fuel → ∀ (ks : List String) (calls : List (Nat × Nat)), IcmpFresh calls →
    ∀ (idx : Nat) (m : FlowMsg),
    parseLoop cfg data fuel ⟨ipParser p, ks, false⟩ off true idx calls m =
      .ok (innerRes (stackIP p) (innerIcmpIP p) m)
  | .v4 tos ident fl fo ttl src dst pl, hp => by
    intro data off hd ho fuel hf ks calls hfresh idx m
    simp only [IPWF, Nat.reducePow] at hp
    obtain ⟨htos, hident, hfl, hfo, httl, hsrc, hdst, hpl⟩ := hp
    simp only [stackIP, List.length_cons] at hf
    obtain ⟨fuel, rfl⟩ : ∃ f, fuel = f + 1 := ⟨fuel - 1, by omega⟩
    simp only [ipBytes, Spec.Frame.u8, Spec.Frame.u16, Spec.Frame.u32, List.append_assoc] at hd
    obtain ⟨hd', ho'⟩ := drop_step (s := 20) (rest := payloadBytes pl) hd ho (by simp [drop_skip, hsrc, hdst])
      (by simp [hsrc, hdst]; omega)
    simp only [ipParser, stackIP, innerIcmpIP]
    rw [loop_step' (next := ⟨.ipv4, ks, false⟩) (encap := true) (idx := idx) hcfg rfl ho hd _
      (parseIPv4_enc _ _ _ _ _ _ _ _ _ _ _ _ _ (payloadProto_lt hpl) hsrc hdst (by rfl))]
    refine Eq.trans (loop_innerPayload hcfg pl hpl data _ hd' ho' fuel (by omega) _ (hfresh.bump 4 (by decide) (by decide)) _ _) ?_
    rw [innerRes_cons] <;> rfl
  | .v6 tc fl hlim src dst ext pl, hp => by
    intro data off hd ho fuel hf ks calls hfresh idx m
    simp only [IPWF, Nat.reducePow] at hp
    obtain ⟨htc, hfl, hhl, hsrc, hdst, hext, hpl⟩ := hp
    have hnh := payloadProto_lt hpl
    simp only [stackIP, List.length_cons, List.length_append] at hf
    obtain ⟨fuel, rfl⟩ : ∃ f, fuel = f + 1 := ⟨fuel - 1, by omega⟩
    simp only [ipParser, stackIP, innerIcmpIP]
    cases ext with
    | none =>
      simp only [ipBytes, Spec.Frame.u8, Spec.Frame.u16, Spec.Frame.u32, List.append_assoc,
        List.nil_append, List.length_nil, Nat.zero_add] at hd
      obtain ⟨hd', ho'⟩ := drop_step (s := 40) (rest := payloadBytes pl) hd ho (by simp [drop_skip, hsrc, hdst])
        (by simp [hsrc, hdst]; omega)
      rw [loop_step' (next := ⟨.ipv6, ks, false⟩) (encap := true) (idx := idx) hcfg rfl ho hd _
        (parseIPv6_enc _ _ _ _ _ _ _ _ _ hnh hsrc hdst (by rfl))]
      simp only [stackExt, List.length_nil] at hf
      refine Eq.trans (loop_innerPayload hcfg pl hpl data _ hd' ho' fuel (by omega) _ (hfresh.bump 5 (by decide) (by decide)) _ _) ?_
      simp only [stackExt, List.nil_append]
      rw [innerRes_cons] <;> rfl
    | fragment fo fl3 ident =>
      obtain ⟨len, hd⟩ : ∃ len, data.drop off = encBE 4 (6 * 2 ^ 28 + tc * 2 ^ 20 + fl) ++ (encBE 2 len ++ (encBE 1 44 ++
          (encBE 1 hlim ++ (src ++ (dst ++ (encBE 1 (payloadProto pl) ++ (encBE 1 0 ++ (encBE 2 (fo * 8 + fl3) ++
          (encBE 4 ident ++ payloadBytes pl))))))))) :=
        ⟨_, by rw [hd]; simp only [ipBytes, Spec.Frame.u8, Spec.Frame.u16, Spec.Frame.u32, List.append_assoc]; rfl⟩
      obtain ⟨hd1, ho1⟩ := drop_step (s := 40) (rest := encBE 1 (payloadProto pl) ++ (encBE 1 0 ++
        (encBE 2 (fo * 8 + fl3) ++ (encBE 4 ident ++ payloadBytes pl)))) hd ho (by simp [drop_skip, hsrc, hdst])
        (by simp [hsrc, hdst]; omega)
      obtain ⟨hd2, ho2⟩ := drop_step (s := 8) (rest := payloadBytes pl) hd1 ho1 (by simp [drop_skip]) (by simp; omega)
      rw [loop_step' (next := ⟨.ipv6, ks, false⟩) (encap := true) (idx := idx) hcfg rfl ho hd _
        (parseIPv6_enc _ _ _ 44 _ _ _ _ _ (by decide) hsrc hdst (by rfl))]
      obtain ⟨ks1, hn1⟩ : ∃ ks1, nextParserProto 44 = ⟨.ipv6frag, ks1, false⟩ := ⟨_, rfl⟩
      simp only [hn1, Bool.true_or]
      simp only [stackExt, List.length_cons, List.length_nil] at hf
      obtain ⟨fuel, rfl⟩ : ∃ f, fuel = f + 1 := ⟨fuel - 1, by omega⟩
      rw [loop_step' (next := ⟨.ipv6frag, ks1, false⟩) (encap := true) hcfg rfl ho1 hd1 _
        (parseFrag_enc _ _ _ _ _ _ _ hnh (by rfl))]
      refine Eq.trans (loop_innerPayload hcfg pl hpl data _ hd2 ho2 fuel (by omega) _
        ((hfresh.bump 5 (by decide) (by decide)).bump 6 (by decide) (by decide)) _ _) ?_
      simp only [stackExt, List.cons_append, List.nil_append]
      rw [innerRes_cons, innerRes_cons] <;> rfl
    | srh sleft le segs =>
      simp only [ExtWF, Nat.reducePow] at hext
      obtain ⟨hsleft, hle, hn, hsegs, hlast⟩ := hext
      obtain ⟨len, hd⟩ : ∃ len, data.drop off = encBE 4 (6 * 2 ^ 28 + tc * 2 ^ 20 + fl) ++ (encBE 2 len ++ (encBE 1 43 ++
          (encBE 1 hlim ++ (src ++ (dst ++ (encBE 1 (payloadProto pl) ++ (encBE 1 (2 * segs.length) ++ (encBE 1 4 ++
          (encBE 1 sleft ++ (encBE 1 le ++ (encBE 1 0 ++ (encBE 2 0 ++ (segs.flatMap id ++ payloadBytes pl)))))))))))))  :=
        ⟨_, by rw [hd]; simp only [ipBytes, Spec.Frame.u8, Spec.Frame.u16, Spec.Frame.u32, List.append_assoc]; rfl⟩
      obtain ⟨hd1, ho1⟩ := drop_step (s := 40) (rest := encBE 1 (payloadProto pl) ++ (encBE 1 (2 * segs.length) ++
        (encBE 1 4 ++ (encBE 1 sleft ++ (encBE 1 le ++ (encBE 1 0 ++ (encBE 2 0 ++ (segs.flatMap id ++ payloadBytes pl))))))))
        hd ho (by simp [drop_skip, hsrc, hdst]) (by simp [hsrc, hdst]; omega)
      obtain ⟨hd2, ho2⟩ := drop_step_app (s := 8 + 16 * segs.length) (rest := payloadBytes pl)
        (hdr := encBE 1 (payloadProto pl) ++ (encBE 1 (2 * segs.length) ++
        (encBE 1 4 ++ (encBE 1 sleft ++ (encBE 1 le ++ (encBE 1 0 ++ (encBE 2 0 ++ segs.flatMap id)))))))
        (by rw [hd1]; simp only [List.append_assoc]) ho1
        (by simp only [List.length_append, encBE_length, flat_length segs hsegs]; omega)
      rw [loop_step' (next := ⟨.ipv6, ks, false⟩) (encap := true) (idx := idx) hcfg rfl ho hd _
        (parseIPv6_enc _ _ _ 43 _ _ _ _ _ (by decide) hsrc hdst (by rfl))]
      obtain ⟨ks1, hn1⟩ : ∃ ks1, nextParserProto 43 = ⟨.ipv6route, ks1, false⟩ := ⟨_, rfl⟩
      simp only [hn1, Bool.true_or]
      simp only [stackExt, List.length_cons, List.length_nil] at hf
      obtain ⟨fuel, rfl⟩ : ∃ f, fuel = f + 1 := ⟨fuel - 1, by omega⟩
      rw [loop_step' (next := ⟨.ipv6route, ks1, false⟩) (encap := true) hcfg rfl ho1 hd1 _
        (parseRoute_enc _ _ _ _ _ _ _ _ _ _ hnh (by omega) (by rfl))]
      have h4 : 8 + 8 * (2 * segs.length) = 8 + 16 * segs.length := by omega
      have h3 : (8 + 16 * segs.length) % 2 ^ 32 = 8 + 16 * segs.length := by omega
      simp only [h4, h3]
      refine Eq.trans (loop_innerPayload hcfg pl hpl data _ hd2 ho2 fuel (by omega) _
        ((hfresh.bump 5 (by decide) (by decide)).bump 7 (by decide) (by decide)) _ _) ?_
      simp only [stackExt, List.cons_append, List.nil_append]
      rw [innerRes_cons, innerRes_cons] <;> rfl
theorem loop_innerPayload {cfg : Config} (hcfg : cfg.layers = []) :
    ∀ (pl : Payload), PayloadWF cfg.ports pl → ∀ (data : Bytes) (off : Nat), data.drop off = payloadBytes pl →
    off ≤ data.length → ∀ (fuel : Nat), (stackPayload pl).length + 1 ≤ fuel →
    ∀ (calls : List (Nat × Nat)), IcmpFresh calls → ∀ (idx : Nat) (m : FlowMsg),
    parseLoop cfg data fuel (nextParserProto (payloadProto pl)) off true idx calls m =
      .ok (innerRes (stackPayload pl) (innerIcmpPayload pl) m)
  | .l4 l, hl => by
    intro data off hd ho fuel hf calls hfresh idx m
    exact loop_innerL4 hcfg l hl hd ho hf hfresh idx m
  | .gre inner, hin => by
    intro data off hd ho fuel hf calls hfresh idx m
    have het := hi_lo (etherType_lt inner hin)
    simp only [stackPayload, List.length_cons] at hf
    obtain ⟨fuel, rfl⟩ : ∃ f, fuel = f + 1 := ⟨fuel - 1, by omega⟩
    simp only [payloadBytes, Spec.Frame.u16, List.append_assoc] at hd
    rw [encBE_two (etherType inner)] at hd
    simp only [List.cons_append, List.nil_append] at hd
    obtain ⟨hd', ho'⟩ := drop_step (s := 4) (rest := etherPayloadBytes inner) hd ho (by simp [drop_skip]) (by simp; omega)
    obtain ⟨ks, hn⟩ : ∃ ks, nextParserProto (payloadProto (.gre inner)) = ⟨.gre, ks, false⟩ := ⟨_, rfl⟩
    rw [hn, loop_step' (next := ⟨.gre, ks, false⟩) (encap := true) (idx := idx) hcfg rfl ho hd _
      (parseGRE_spec _ (encBE 2 0) _ _ _ ⟨true, (calls.lookup 12).getD 0, cfg.ports⟩ (by simp))]
    simp only [het.1, het.2]
    refine Eq.trans (loop_innerEther hcfg inner hin data _ hd' ho' fuel (by omega)
      _ (hfresh.bump 12 (by decide) (by decide)) _ _) ?_
    simp only [stackPayload, innerIcmpPayload]
    rw [innerRes_cons] <;> rfl
  | .ipip p, hp => by
    intro data off hd ho fuel hf calls hfresh idx m
    obtain ⟨ks, hn⟩ := ipip_next p
    rw [hn]
    simp only [payloadBytes, stackPayload, innerIcmpPayload] at hd hf ⊢
    exact loop_innerIP hcfg p hp data off hd ho fuel hf ks calls hfresh idx m
theorem loop_innerEther {cfg : Config} (hcfg : cfg.layers = []) :
    ∀ (ep : EtherPayload), EpWF cfg.ports ep → ∀ (data : Bytes) (off : Nat), data.drop off = etherPayloadBytes ep →
    off ≤ data.length → ∀ (fuel : Nat), (stackEther ep).length + 1 ≤ fuel →
    ∀ (calls : List (Nat × Nat)), IcmpFresh calls → ∀ (idx : Nat) (m : FlowMsg),
    parseLoop cfg data fuel (nextParserEtype (etherType ep / 256) (etherType ep % 256)) off true idx calls m =
      .ok (innerRes (stackEther ep) (innerIcmpEther ep) m)
  | .ip p, hp => by
    intro data off hd ho fuel hf calls hfresh idx m
    obtain ⟨ks, hn⟩ := ip_next p
    rw [etherType_ip, hn]
    simp only [etherPayloadBytes, stackEther, innerIcmpEther] at hd hf ⊢
    exact loop_innerIP hcfg p hp data off hd ho fuel hf ks calls hfresh idx m
  | .mpls labels p, hp => by
    intro data off hd ho fuel hf calls hfresh idx m
    obtain ⟨hne, hlen, hwf, hp⟩ := hp
    simp only [stackEther, List.length_cons] at hf
    obtain ⟨fuel, rfl⟩ : ∃ f, fuel = f + 1 := ⟨fuel - 1, by omega⟩
    simp only [etherPayloadBytes] at hd
    obtain ⟨hd', ho'⟩ := drop_step_app (s := 4 * labels.length) hd ho (mplsBytes_length labels)
    obtain ⟨ks, hn⟩ : ∃ ks, nextParserEtype (34887 / 256) (34887 % 256) = ⟨.mpls, ks, false⟩ := ⟨_, rfl⟩
    simp only [etherType]
    rw [hn, loop_step' (next := ⟨.mpls, ks, false⟩) (encap := true) (idx := idx) hcfg rfl ho hd _
      (parseMPLS_enc _ labels (ipBytes p) _ _ _ hne hwf (peek_ip p hp) (by rfl))]
    obtain ⟨ks', hn'⟩ := ip_next p
    simp only [hn']
    have h1 : 4 * labels.length % 2 ^ 32 = 4 * labels.length := Nat.mod_eq_of_lt (by omega)
    simp only [h1]
    refine Eq.trans (loop_innerIP hcfg p hp data _ hd' ho' fuel (by omega) ks' _
      (hfresh.bump 3 (by decide) (by decide)) _ _) ?_
    simp only [stackEther, innerIcmpEther]
    rw [innerRes_cons] <;> rfl
  | .raw t b, ht => by
    intro data off hd ho fuel hf calls hfresh idx m
    obtain ⟨ks, hn⟩ := raw_next t ht.2
    obtain ⟨fuel, rfl⟩ : ∃ f, fuel = f + 1 := ⟨fuel - 1, by omega⟩
    simp only [etherType, hn]
    rw [loop_stop rfl]
    simp only [stackEther, innerIcmpEther, innerRes_nil]
end

/-! ### payload of the outer IP header -/

/-- what the layers after the outer IP header add to the message: an L4 header is reported; of a tunnel
    (GRE, IP-in-IP) only the layers -/
def payloadRes : Payload → FlowMsg → FlowMsg
  | .l4 l, m => l4Msg l m
  | .gre inner, m =>
    innerRes (stackEther inner) (innerIcmpEther inner)
      { m with layerStack := m.layerStack ++ [9], layerSize := m.layerSize ++ [4] }
  | .ipip p, m => innerRes (stackIP p) (innerIcmpIP p) m

theorem gre_noencap (ks : List String) (li : Nat) (hli : li < 40) :
    encapTrig li (Next.encapSkip ⟨.gre, ks, false⟩) (Next.layerIndex ⟨.gre, ks, false⟩) = false := by
  simp [encapTrig, Next.encapSkip, Next.layerIndex, Parser.layerIndex, Parser.encapSkip, Parser.info]; omega

theorem ip_encap (p : IP) (ks : List String) (li : Nat) (hli : 30 ≤ li) :
    encapTrig li (Next.encapSkip ⟨ipParser p, ks, false⟩) (Next.layerIndex ⟨ipParser p, ks, false⟩) = true := by
  cases p <;> simp [encapTrig, ipParser, Next.encapSkip, Next.layerIndex, Parser.layerIndex, Parser.encapSkip, Parser.info] <;>
    omega

/-- the layers after the outer IP header (or its extension header): `li` is the layer index the next layer is
    compared with -/
theorem loop_payload {cfg : Config} (hcfg : cfg.layers = []) (pl : Payload) (hpl : PayloadWF cfg.ports pl)
    {data : Bytes} {off : Nat} (hd : data.drop off = payloadBytes pl) (ho : off ≤ data.length)
    {fuel : Nat} (hf : (stackPayload pl).length + 2 ≤ fuel) {calls : List (Nat × Nat)} (hfresh : IcmpFresh calls)
    (li : Nat) (hli : 30 ≤ li ∧ li < 40) (m : FlowMsg) :
    parseLoop cfg data fuel (nextParserProto (payloadProto pl)) off
      (false || encapTrig li (nextParserProto (payloadProto pl)).encapSkip
        (nextParserProto (payloadProto pl)).layerIndex) li calls m = .ok (payloadRes pl m) := by
  match pl, hpl with
  | .l4 l, hl =>
    have e := l4_noencap hl li hli.2
    change parseLoop cfg data fuel (nextParserProto (l4Proto l)) off (false || encapTrig li
      (nextParserProto (l4Proto l)).encapSkip (nextParserProto (l4Proto l)).layerIndex) li calls m = _
    rw [e]
    exact loop_l4 hcfg l hl hd ho (by omega) hfresh li m
  | .ipip p, hp =>
    obtain ⟨ks, hn⟩ := ipip_next p
    rw [hn, ip_encap p ks li hli.1]
    simp only [payloadBytes, stackPayload] at hd hf
    exact loop_innerIP hcfg p hp data off hd ho fuel (by omega) ks calls hfresh li m
  | .gre inner, hin =>
    have het := hi_lo (etherType_lt inner hin)
    simp only [stackPayload, List.length_cons] at hf
    obtain ⟨fuel, rfl⟩ : ∃ f, fuel = f + 1 := ⟨fuel - 1, by omega⟩
    simp only [payloadBytes, Spec.Frame.u16, List.append_assoc] at hd
    rw [encBE_two (etherType inner)] at hd
    simp only [List.cons_append, List.nil_append] at hd
    obtain ⟨hd', ho'⟩ := drop_step (s := 4) (rest := etherPayloadBytes inner) hd ho (by simp [drop_skip]) (by simp; omega)
    obtain ⟨ks, hn⟩ : ∃ ks, nextParserProto (payloadProto (.gre inner)) = ⟨.gre, ks, false⟩ := ⟨_, rfl⟩
    rw [hn, gre_noencap ks li hli.2, Bool.or_false]
    rw [loop_step' (next := ⟨.gre, ks, false⟩) (encap := false) (idx := li) hcfg rfl ho hd _
      (parseGRE_spec _ (encBE 2 0) _ _ _ ⟨false, (calls.lookup 12).getD 0, cfg.ports⟩ (by simp))]
    simp only [het.1, het.2]
    rw [show encapIdx li (Next.encapSkip ⟨.gre, ks, false⟩) (Next.layerIndex ⟨.gre, ks, false⟩) = 40 from rfl]
    match inner, hin with
    | .raw t b, ht =>
      obtain ⟨ks', hn'⟩ := raw_next t ht.2
      obtain ⟨fuel, rfl⟩ : ∃ f, fuel = f + 1 := ⟨fuel - 1, by omega⟩
      simp only [etherType, hn']
      rw [loop_stop rfl]
      simp only [payloadRes, stackEther, innerIcmpEther, innerRes_nil]
    | .ip p, hp =>
      obtain ⟨ks', hn'⟩ := ip_next p
      have henc : (false || encapTrig 40 (nextParserEtype (etherType (.ip p) / 256) (etherType (.ip p) % 256)).encapSkip
          (nextParserEtype (etherType (.ip p) / 256) (etherType (.ip p) % 256)).layerIndex) = true := by
        rw [etherType_ip, hn', ip_encap p ks' 40 (by omega)]; rfl
      rw [henc]
      refine Eq.trans (loop_innerEther hcfg (.ip p) hp data _ hd' ho' fuel (by omega) _
        (hfresh.bump 12 (by decide) (by decide)) _ _) ?_
      rfl
    | .mpls labels p, hp =>
      have henc : (false || encapTrig 40 (nextParserEtype (etherType (.mpls labels p) / 256) (etherType (.mpls labels p) % 256)).encapSkip
          (nextParserEtype (etherType (.mpls labels p) / 256) (etherType (.mpls labels p) % 256)).layerIndex) = true := by
        simp only [etherType]; rfl
      rw [henc]
      refine Eq.trans (loop_innerEther hcfg (.mpls labels p) hp data _ hd' ho' fuel (by omega) _
        (hfresh.bump 12 (by decide) (by decide)) _ _) ?_
      rfl

/-! ### the outer IP header and its IPv6 extension header -/

/-- what the extension header adds to the message -/
def extMsg : V6Ext → FlowMsg → FlowMsg
  | .none, m => m
  | .fragment fo fl3 ident, m =>
    { m with layerStack := m.layerStack ++ [11], layerSize := m.layerSize ++ [8],
             fragmentId := ident, fragmentOffset := fo, ipFlags := fl3 }
  | .srh sleft _ segs, m =>
    { m with layerStack := m.layerStack ++ [10], layerSize := m.layerSize ++ [8 + 16 * segs.length],
             ipv6RoutingHeaderSegLeft := sleft,
             ipv6RoutingHeaderAddresses := m.ipv6RoutingHeaderAddresses ++ segs }

/-- the next-header value of the IPv6 header itself -/
def v6First : V6Ext → Nat → Nat
  | .none, nh => nh
  | .fragment .., _ => 44
  | .srh .., _ => 43

def ipPayload : IP → Payload
  | .v4 _ _ _ _ _ _ _ pl => pl
  | .v6 _ _ _ _ _ _ pl => pl

def ipExt : IP → V6Ext
  | .v4 .. => .none
  | .v6 _ _ _ _ _ ext _ => ext

/-- what the IP header adds to the message -/
def ipMsg : IP → FlowMsg → FlowMsg
  | .v4 tos ident fl fo ttl src dst pl, m =>
    { m with layerStack := m.layerStack ++ [1], layerSize := m.layerSize ++ [20], srcAddr := src, dstAddr := dst,
             ipTos := tos, ipTtl := ttl, fragmentId := ident, fragmentOffset := fo, ipFlags := fl,
             proto := payloadProto pl }
  | .v6 tc fl hl src dst ext pl, m =>
    { m with layerStack := m.layerStack ++ [2], layerSize := m.layerSize ++ [40], srcAddr := src, dstAddr := dst,
             ipTos := tc, ipTtl := hl, ipv6FlowLabel := fl, proto := v6First ext (payloadProto pl) }

/-- the message after the IP header, its extension header and the layers that follow -/
def ipRes (p : IP) (m : FlowMsg) : FlowMsg := payloadRes (ipPayload p) (extMsg (ipExt p) (ipMsg p m))

theorem loop_ip {cfg : Config} (hcfg : cfg.layers = []) (p : IP) (hp : IPWF cfg.ports p)
    {data : Bytes} {off : Nat} (hd : data.drop off = ipBytes p) (ho : off ≤ data.length)
    {fuel : Nat} (hf : (stackIP p).length + 2 ≤ fuel) (ks : List String) {calls : List (Nat × Nat)}
    (hfresh : IcmpFresh calls) (idx : Nat) (m : FlowMsg) :
    parseLoop cfg data fuel ⟨ipParser p, ks, false⟩ off false idx calls m = .ok (ipRes p m) := by
  match p, hp with
  | .v4 tos ident fl fo ttl src dst pl, hp =>
    simp only [stackIP, List.length_cons] at hf
    obtain ⟨fuel, rfl⟩ : ∃ f, fuel = f + 1 := ⟨fuel - 1, by omega⟩
    simp only [IPWF, Nat.reducePow] at hp
    obtain ⟨htos, hident, hfl, hfo, httl, hsrc, hdst, hpl⟩ := hp
    simp only [ipBytes, Spec.Frame.u8, Spec.Frame.u16, Spec.Frame.u32, List.append_assoc] at hd
    have hr := parseIPv4_spec m 0x45 tos (20 + (payloadBytes pl).length) ident (fl * 8192 + fo) ttl (payloadProto pl) 0
      src dst (payloadBytes pl) ⟨false, (calls.lookup 4).getD 0, cfg.ports⟩ htos hident (by omega) httl
      (payloadProto_lt hpl) hsrc hdst rfl
    rw [← hd] at hr
    obtain ⟨hd', ho'⟩ := drop_step (s := 20) (rest := payloadBytes pl) hd ho (by simp [drop_skip, hsrc, hdst])
      (by simp [hsrc, hdst]; omega)
    simp only [ipParser]
    rw [loop_step (next := ⟨.ipv4, ks, false⟩) (encap := false) (idx := idx) (calls := calls) (m := m) hcfg rfl ho _ hr]
    refine Eq.trans (loop_payload hcfg pl hpl hd' ho' (by omega) (hfresh.bump 4 (by decide) (by decide)) 30
      (by omega) _) ?_
    have h1 : (fl * 8192 + fo) % 8192 = fo := by omega
    have h2 : (fl * 8192 + fo) / 8192 = fl := by omega
    simp only [ipRes, ipPayload, ipExt, extMsg, ipMsg, h1, h2]
  | .v6 tc fl hlim src dst ext pl, hp =>
    simp only [stackIP, List.length_cons, List.length_append] at hf
    obtain ⟨fuel, rfl⟩ : ∃ f, fuel = f + 1 := ⟨fuel - 1, by omega⟩
    simp only [IPWF, Nat.reducePow] at hp
    obtain ⟨htc, hfl, hhl, hsrc, hdst, hext, hpl⟩ := hp
    have h1 : (6 * 2 ^ 28 + tc * 2 ^ 20 + fl) / 65536 % 65536 % 4096 / 16 = tc := by omega
    have h2 : (6 * 2 ^ 28 + tc * 2 ^ 20 + fl) % 2 ^ 32 % 2 ^ 20 = fl := by omega
    have hnh := payloadProto_lt hpl
    simp only [ipParser]
    cases ext with
    | none =>
      simp only [stackExt, List.length_nil] at hf
      simp only [ipBytes, Spec.Frame.u8, Spec.Frame.u16, Spec.Frame.u32, List.append_assoc,
        List.nil_append, List.length_nil, Nat.zero_add] at hd
      have hr := parseIPv6_spec m (6 * 2 ^ 28 + tc * 2 ^ 20 + fl) (payloadBytes pl).length (payloadProto pl) hlim src dst
        (payloadBytes pl) ⟨false, (calls.lookup 5).getD 0, cfg.ports⟩ hnh hhl hsrc hdst rfl
      rw [← hd] at hr
      obtain ⟨hd', ho'⟩ := drop_step (s := 40) (rest := payloadBytes pl) hd ho (by simp [drop_skip, hsrc, hdst])
        (by simp [hsrc, hdst]; omega)
      rw [loop_step (next := ⟨.ipv6, ks, false⟩) (encap := false) (idx := idx) (calls := calls) (m := m) hcfg rfl ho _ hr]
      refine Eq.trans (loop_payload hcfg pl hpl hd' ho' (by omega) (hfresh.bump 5 (by decide) (by decide)) 30
        (by omega) _) ?_
      simp only [ipRes, ipPayload, ipExt, extMsg, ipMsg, v6First, h1, h2]
    | fragment fo fl3 ident =>
      simp only [stackExt, List.length_cons, List.length_nil] at hf
      simp only [ExtWF, Nat.reducePow] at hext
      obtain ⟨hfo, hfl3, hident⟩ := hext
      obtain ⟨len, hd⟩ : ∃ len, data.drop off = encBE 4 (6 * 2 ^ 28 + tc * 2 ^ 20 + fl) ++ (encBE 2 len ++ (encBE 1 44 ++
          (encBE 1 hlim ++ (src ++ (dst ++ (encBE 1 (payloadProto pl) ++ (encBE 1 0 ++ (encBE 2 (fo * 8 + fl3) ++
          (encBE 4 ident ++ payloadBytes pl))))))))) :=
        ⟨_, by rw [hd]; simp only [ipBytes, Spec.Frame.u8, Spec.Frame.u16, Spec.Frame.u32, List.append_assoc]; rfl⟩
      obtain ⟨hd1, ho1⟩ := drop_step (s := 40) (rest := encBE 1 (payloadProto pl) ++ (encBE 1 0 ++
        (encBE 2 (fo * 8 + fl3) ++ (encBE 4 ident ++ payloadBytes pl)))) hd ho (by simp [drop_skip, hsrc, hdst])
        (by simp [hsrc, hdst]; omega)
      obtain ⟨hd2, ho2⟩ := drop_step (s := 8) (rest := payloadBytes pl) hd1 ho1 (by simp [drop_skip]) (by simp; omega)
      rw [loop_step' (next := ⟨.ipv6, ks, false⟩) (encap := false) (idx := idx) hcfg rfl ho hd _
        (parseIPv6_spec _ _ _ 44 _ _ _ _ _ (by decide) hhl hsrc hdst (by rfl))]
      obtain ⟨ks1, hn1⟩ : ∃ ks1, nextParserProto 44 = ⟨.ipv6frag, ks1, false⟩ := ⟨_, rfl⟩
      simp only [hn1]
      rw [show (false || encapTrig (encapIdx idx (Next.encapSkip ⟨.ipv6, ks, false⟩) (Next.layerIndex ⟨.ipv6, ks, false⟩))
          (Next.encapSkip ⟨.ipv6frag, ks1, false⟩) (Next.layerIndex ⟨.ipv6frag, ks1, false⟩)) = false from rfl,
        show encapIdx idx (Next.encapSkip ⟨.ipv6, ks, false⟩) (Next.layerIndex ⟨.ipv6, ks, false⟩) = 30 from rfl]
      obtain ⟨fuel, rfl⟩ : ∃ f, fuel = f + 1 := ⟨fuel - 1, by omega⟩
      rw [loop_step' (next := ⟨.ipv6frag, ks1, false⟩) (encap := false) (idx := 30) hcfg rfl ho1 hd1 _
        (parseFrag_spec _ _ _ _ _ _ _ hnh (by omega) hident (by rfl))]
      refine Eq.trans (loop_payload hcfg pl hpl hd2 ho2 (by omega)
        ((hfresh.bump 5 (by decide) (by decide)).bump 6 (by decide) (by decide)) 30 (by omega) _) ?_
      have h3 : (fo * 8 + fl3) / 8 = fo := by omega
      have h4 : (fo * 8 + fl3) % 8 = fl3 := by omega
      simp only [ipRes, ipPayload, ipExt, extMsg, ipMsg, v6First, h1, h2, h3, h4]
    | srh sleft le segs =>
      simp only [stackExt, List.length_cons, List.length_nil] at hf
      simp only [ExtWF, Nat.reducePow] at hext
      obtain ⟨hsleft, hle, hn, hsegs, hlast⟩ := hext
      obtain ⟨len, hd⟩ : ∃ len, data.drop off = encBE 4 (6 * 2 ^ 28 + tc * 2 ^ 20 + fl) ++ (encBE 2 len ++ (encBE 1 43 ++
          (encBE 1 hlim ++ (src ++ (dst ++ (encBE 1 (payloadProto pl) ++ (encBE 1 (2 * segs.length) ++ (encBE 1 4 ++
          (encBE 1 sleft ++ (encBE 1 le ++ (encBE 1 0 ++ (encBE 2 0 ++ (segs.flatMap id ++ payloadBytes pl)))))))))))))  :=
        ⟨_, by rw [hd]; simp only [ipBytes, Spec.Frame.u8, Spec.Frame.u16, Spec.Frame.u32, List.append_assoc]; rfl⟩
      obtain ⟨hd1, ho1⟩ := drop_step (s := 40) (rest := encBE 1 (payloadProto pl) ++ (encBE 1 (2 * segs.length) ++
        (encBE 1 4 ++ (encBE 1 sleft ++ (encBE 1 le ++ (encBE 1 0 ++ (encBE 2 0 ++ (segs.flatMap id ++ payloadBytes pl))))))))
        hd ho (by simp [drop_skip, hsrc, hdst]) (by simp [hsrc, hdst]; omega)
      obtain ⟨hd2, ho2⟩ := drop_step_app (s := 8 + 16 * segs.length) (rest := payloadBytes pl)
        (hdr := encBE 1 (payloadProto pl) ++ (encBE 1 (2 * segs.length) ++
        (encBE 1 4 ++ (encBE 1 sleft ++ (encBE 1 le ++ (encBE 1 0 ++ (encBE 2 0 ++ segs.flatMap id)))))))
        (by rw [hd1]; simp only [List.append_assoc]) ho1
        (by simp only [List.length_append, encBE_length, flat_length segs hsegs]; omega)
      rw [loop_step' (next := ⟨.ipv6, ks, false⟩) (encap := false) (idx := idx) hcfg rfl ho hd _
        (parseIPv6_spec _ _ _ 43 _ _ _ _ _ (by decide) hhl hsrc hdst (by rfl))]
      obtain ⟨ks1, hn1⟩ : ∃ ks1, nextParserProto 43 = ⟨.ipv6route, ks1, false⟩ := ⟨_, rfl⟩
      simp only [hn1]
      rw [show (false || encapTrig (encapIdx idx (Next.encapSkip ⟨.ipv6, ks, false⟩) (Next.layerIndex ⟨.ipv6, ks, false⟩))
          (Next.encapSkip ⟨.ipv6route, ks1, false⟩) (Next.layerIndex ⟨.ipv6route, ks1, false⟩)) = false from rfl,
        show encapIdx idx (Next.encapSkip ⟨.ipv6, ks, false⟩) (Next.layerIndex ⟨.ipv6, ks, false⟩) = 30 from rfl]
      obtain ⟨fuel, rfl⟩ : ∃ f, fuel = f + 1 := ⟨fuel - 1, by omega⟩
      rw [loop_step' (next := ⟨.ipv6route, ks1, false⟩) (encap := false) (idx := 30) hcfg rfl ho1 hd1 _
        (parseRoute_spec _ _ _ _ _ _ _ _ _ hnh hsleft hle hn hsegs hlast (by rfl))]
      refine Eq.trans (loop_payload hcfg pl hpl hd2 ho2 (by omega)
        ((hfresh.bump 5 (by decide) (by decide)).bump 7 (by decide) (by decide)) 35 (by omega) _) ?_
      have h3 : (8 + 16 * segs.length) % 2 ^ 32 = 8 + 16 * segs.length := Nat.mod_eq_of_lt (by omega)
      simp only [ipRes, ipPayload, ipExt, extMsg, ipMsg, v6First, h1, h2, h3]

/-! ### what Ethernet carries: IP, or an MPLS label stack before IP -/

/-- the message after the layers Ethernet carries -/
def epRes : EtherPayload → FlowMsg → FlowMsg
  | .ip p, m => ipRes p m
  | .mpls labels p, m =>
    ipRes p { m with layerStack := m.layerStack ++ [5], layerSize := m.layerSize ++ [4 * labels.length],
                     etype := ipEtype p, mplsLabel := labels.map (·.1), mplsTtl := labels.map (·.2) }
  | .raw .., m => m

theorem ip_noencap (p : IP) (ks : List String) (li : Nat) (hli : li < 30) :
    encapTrig li (Next.encapSkip ⟨ipParser p, ks, false⟩) (Next.layerIndex ⟨ipParser p, ks, false⟩) = false := by
  cases p <;> simp [encapTrig, ipParser, Next.encapSkip, Next.layerIndex, Parser.layerIndex, Parser.encapSkip, Parser.info] <;>
    omega

theorem dot1q_noencap (ks : List String) (li : Nat) (hli : li ≤ 25) :
    encapTrig li (Next.encapSkip ⟨.dot1q, ks, false⟩) (Next.layerIndex ⟨.dot1q, ks, false⟩) = false := by
  simp [encapTrig, Next.encapSkip, Next.layerIndex, Parser.layerIndex, Parser.encapSkip, Parser.info]; omega

theorem ep_noencap {ports : List PortEntry} (ep : EtherPayload) (h : EpWF ports ep) (ks : List String) (li : Nat)
    (hli : li ≤ 25) :
    encapTrig li (Next.encapSkip ⟨epParser ep, ks, false⟩) (Next.layerIndex ⟨epParser ep, ks, false⟩) = false := by
  match ep, h with
  | .ip p, _ => exact ip_noencap p ks li (by omega)
  | .mpls .., _ =>
    simp [encapTrig, epParser, Next.encapSkip, Next.layerIndex, Parser.layerIndex, Parser.encapSkip, Parser.info]; omega
  | .raw .., _ =>
    simp [encapTrig, epParser, Next.encapSkip, Next.layerIndex, Parser.layerIndex, Parser.encapSkip, Parser.info]; omega

theorem loop_ep {cfg : Config} (hcfg : cfg.layers = []) (ep : EtherPayload) (hep : EpWF cfg.ports ep)
    {data : Bytes} {off : Nat} (hd : data.drop off = etherPayloadBytes ep) (ho : off ≤ data.length)
    {fuel : Nat} (hf : (stackEther ep).length + 2 ≤ fuel) (ks : List String) {calls : List (Nat × Nat)}
    (hfresh : IcmpFresh calls) (idx : Nat) (hidx : idx ≤ 25) (m : FlowMsg) :
    parseLoop cfg data fuel ⟨epParser ep, ks, false⟩ off false idx calls m = .ok (epRes ep m) := by
  match ep, hep with
  | .raw t b, _ =>
    obtain ⟨fuel, rfl⟩ : ∃ f, fuel = f + 1 := ⟨fuel - 1, by omega⟩
    simp only [epParser, epRes]
    rw [loop_stop rfl]
  | .ip p, hp =>
    simp only [etherPayloadBytes, stackEther] at hd hf
    exact loop_ip hcfg p hp hd ho hf ks hfresh idx m
  | .mpls labels p, ⟨hne, hlen, hwf, hp⟩ =>
    simp only [stackEther, List.length_cons] at hf
    obtain ⟨fuel, rfl⟩ : ∃ f, fuel = f + 1 := ⟨fuel - 1, by omega⟩
    simp only [etherPayloadBytes] at hd
    obtain ⟨hd', ho'⟩ := drop_step_app (s := 4 * labels.length) hd ho (mplsBytes_length labels)
    simp only [epParser]
    rw [loop_step' (next := ⟨.mpls, ks, false⟩) (encap := false) (idx := idx) hcfg rfl ho hd _
      (parseMPLS_spec _ labels (ipBytes p) _ _ _ hne hwf (peek_ip p hp) (by rfl))]
    obtain ⟨ks', hn⟩ := ip_next p
    simp only [hn, Bool.false_or]
    rw [show encapIdx idx (Next.encapSkip ⟨.mpls, ks, false⟩) (Next.layerIndex ⟨.mpls, ks, false⟩) = idx from rfl,
      ip_noencap p ks' idx (by omega)]
    refine Eq.trans (loop_ip hcfg p hp hd' ho' (by omega) ks' (hfresh.bump 3 (by decide) (by decide)) idx _) ?_
    have h1 : 4 * labels.length % 2 ^ 32 = 4 * labels.length := Nat.mod_eq_of_lt (by omega)
    have h2 : ipEtype p / 256 * 256 + ipEtype p % 256 = ipEtype p := by omega
    simp only [epRes, h1, h2]

/-! ### Ethernet and the 802.1Q tags -/

/-- what a (possibly empty) chain of 802.1Q tags adds to the message -/
def vlanMsg (vs : List Nat) (et : Nat) (m : FlowMsg) : FlowMsg :=
  { m with layerStack := m.layerStack ++ List.replicate vs.length 6,
           layerSize := m.layerSize ++ List.replicate vs.length 4,
           vlanId := vs.getLast?.getD m.vlanId, etype := et }

theorem vlanBytes_length (et : Nat) (vs : List Nat) : (vlanBytes et vs).length = 2 + 4 * vs.length := by
  induction vs with
  | nil => simp [vlanBytes, Spec.Frame.u16]
  | cons v vs ih => simp [vlanBytes, Spec.Frame.u16, ih]; omega

theorem dot1q_next :
    ∃ ks, nextParserEtype (UInt8.ofNat (33024 / 256 % 256)).toNat (UInt8.ofNat (33024 % 256)).toNat =
      ⟨.dot1q, ks, false⟩ := by
  simp only [UInt8.toNat_ofNat', Nat.reduceDiv, Nat.reduceMod, Nat.reducePow]
  exact ⟨_, rfl⟩

theorem loop_vlans {cfg : Config} (hcfg : cfg.layers = []) (ep : EtherPayload) (hep : EpWF cfg.ports ep)
    (vs : List Nat) (v : Nat) (hv : v < 65536) (hvs : ∀ x ∈ vs, x < 65536)
    {data : Bytes} {off : Nat} (hd : data.drop off = encBE 2 v ++ (vlanBytes (etherType ep) vs ++ etherPayloadBytes ep))
    (ho : off ≤ data.length) {fuel : Nat} (hf : vs.length + (stackEther ep).length + 3 ≤ fuel) (ks : List String)
    {calls : List (Nat × Nat)} (hfresh : IcmpFresh calls) (idx : Nat) (hidx : idx ≤ 25) (m : FlowMsg) :
    parseLoop cfg data fuel ⟨.dot1q, ks, false⟩ off false idx calls m =
      .ok (epRes ep (vlanMsg (v :: vs) (etherType ep) m)) := by
  have het := hi_lo (etherType_lt ep hep)
  induction vs generalizing v data off fuel ks calls m with
  | nil =>
    obtain ⟨fuel, rfl⟩ : ∃ f, fuel = f + 1 := ⟨fuel - 1, by omega⟩
    simp only [vlanBytes, Spec.Frame.u16, encBE_two (etherType ep), List.cons_append, List.nil_append] at hd
    obtain ⟨hd', ho'⟩ := drop_step (s := 4) (rest := etherPayloadBytes ep) hd ho (by simp [drop_skip]) (by simp; omega)
    rw [loop_step' (next := ⟨.dot1q, ks, false⟩) (encap := false) (idx := idx) hcfg rfl ho hd _
      (parse8021Q_spec _ (encBE 2 v) _ _ _ _ (by simp) (by rfl))]
    obtain ⟨ks', hn⟩ := ep_next ep hep
    simp only [Bool.false_or, het.1, het.2, hn]
    rw [show encapIdx idx (Next.encapSkip ⟨.dot1q, ks, false⟩) (Next.layerIndex ⟨.dot1q, ks, false⟩) = idx from rfl,
      ep_noencap ep hep ks' idx hidx]
    refine Eq.trans (loop_ep hcfg ep hep hd' ho' (by omega) ks' (hfresh.bump 2 (by decide) (by decide)) idx hidx _) ?_
    have hval : etherType ep / 256 * 256 + etherType ep % 256 = etherType ep := by omega
    simp [vlanMsg, beNat_encBE_of_lt (show v < 256 ^ 2 from hv), hval]
  | cons w ws ih =>
    obtain ⟨fuel, rfl⟩ : ∃ f, fuel = f + 1 := ⟨fuel - 1, by omega⟩
    simp only [vlanBytes, Spec.Frame.u16, List.append_assoc] at hd
    rw [encBE_two 33024] at hd
    simp only [List.cons_append, List.nil_append] at hd
    obtain ⟨hd', ho'⟩ := drop_step (s := 4) (rest := encBE 2 w ++ (vlanBytes (etherType ep) ws ++ etherPayloadBytes ep)) hd ho
      (by simp [drop_skip]) (by simp; omega)
    rw [loop_step' (next := ⟨.dot1q, ks, false⟩) (encap := false) (idx := idx) hcfg rfl ho hd _
      (parse8021Q_spec _ (encBE 2 v) _ _ _ _ (by simp) (by rfl))]
    obtain ⟨ks', hn⟩ := dot1q_next
    simp only [Bool.false_or, hn]
    rw [show encapIdx idx (Next.encapSkip ⟨.dot1q, ks, false⟩) (Next.layerIndex ⟨.dot1q, ks, false⟩) = idx from rfl,
      dot1q_noencap ks' idx hidx]
    refine Eq.trans (ih w (hvs w (by simp)) (fun x hx => hvs x (by simp [hx])) hd' ho' (by simp at hf ⊢; omega) ks'
      (hfresh.bump 2 (by decide) (by decide)) _) ?_
    simp [vlanMsg, List.replicate_succ, List.getLast?_cons]

/-- what the Ethernet layer adds to the message (the ethertype is overwritten by the layers that follow) -/
def ethMsg (d s : Nat) (m : FlowMsg) : FlowMsg :=
  { m with layerStack := m.layerStack ++ [0], layerSize := m.layerSize ++ [14], srcMac := s, dstMac := d }

theorem loop_eth {cfg : Config} (hcfg : cfg.layers = []) (ep : EtherPayload) (hep : EpWF cfg.ports ep)
    (vs : List Nat) (hvs : ∀ x ∈ vs, x < 65536) (d s : Nat) (hd : d < 2 ^ 48) (hs : s < 2 ^ 48)
    {fuel : Nat} (hf : vs.length + (stackEther ep).length + 4 ≤ fuel) (ks : List String) (m : FlowMsg) :
    parseLoop cfg (encBE 6 d ++ (encBE 6 s ++ (vlanBytes (etherType ep) vs ++ etherPayloadBytes ep))) fuel
        ⟨.ethernet, ks, false⟩ 0 false 20 [] m =
      .ok (epRes ep (vlanMsg vs (etherType ep) (ethMsg d s m))) := by
  have het := hi_lo (etherType_lt ep hep)
  obtain ⟨fuel, rfl⟩ : ∃ f, fuel = f + 1 := ⟨fuel - 1, by omega⟩
  have hdv : beNat (encBE 6 d) = d := beNat_encBE_of_lt (show d < 256 ^ 6 from hd)
  have hsv : beNat (encBE 6 s) = s := beNat_encBE_of_lt (show s < 256 ^ 6 from hs)
  generalize hdata : encBE 6 d ++ (encBE 6 s ++ (vlanBytes (etherType ep) vs ++ etherPayloadBytes ep)) = data
  have ho : 0 ≤ data.length := Nat.zero_le _
  cases vs with
  | nil =>
    have hd0 : data.drop 0 = encBE 6 d ++ (encBE 6 s ++ (UInt8.ofNat (etherType ep / 256 % 256) ::
        UInt8.ofNat (etherType ep % 256) :: etherPayloadBytes ep)) := by
      rw [← hdata]; simp [vlanBytes, Spec.Frame.u16, encBE_two (etherType ep)]
    obtain ⟨hd', ho'⟩ := drop_step (s := 14) (rest := etherPayloadBytes ep) hd0 ho (by simp [drop_skip]) (by simp; omega)
    rw [loop_step' (next := ⟨.ethernet, ks, false⟩) (encap := false) (idx := 20) hcfg rfl ho hd0 _
      (parseEthernet_spec _ (encBE 6 d) (encBE 6 s) _ _ _ _ (by simp) (by simp) (by rfl))]
    obtain ⟨ks', hn⟩ := ep_next ep hep
    simp only [Bool.false_or, het.1, het.2, hn]
    rw [show encapIdx 20 (Next.encapSkip ⟨.ethernet, ks, false⟩) (Next.layerIndex ⟨.ethernet, ks, false⟩) = 20 from rfl,
      ep_noencap ep hep ks' 20 (by omega)]
    refine Eq.trans (loop_ep hcfg ep hep hd' ho' (by simp at hf; omega) ks' (IcmpFresh.nil.bump 1 (by decide) (by decide))
      20 (by omega) _) ?_
    have hval : etherType ep / 256 * 256 + etherType ep % 256 = etherType ep := by omega
    simp [vlanMsg, ethMsg, hdv, hsv, hval]
  | cons v vs =>
    have hd0 : data.drop 0 = encBE 6 d ++ (encBE 6 s ++ (UInt8.ofNat (33024 / 256 % 256) ::
        UInt8.ofNat (33024 % 256) :: (encBE 2 v ++ (vlanBytes (etherType ep) vs ++ etherPayloadBytes ep)))) := by
      rw [← hdata]; simp [vlanBytes, Spec.Frame.u16, encBE_two 33024]
    obtain ⟨hd', ho'⟩ := drop_step (s := 14) (rest := encBE 2 v ++ (vlanBytes (etherType ep) vs ++ etherPayloadBytes ep)) hd0 ho
      (by simp [drop_skip]) (by simp; omega)
    rw [loop_step' (next := ⟨.ethernet, ks, false⟩) (encap := false) (idx := 20) hcfg rfl ho hd0 _
      (parseEthernet_spec _ (encBE 6 d) (encBE 6 s) _ _ _ _ (by simp) (by simp) (by rfl))]
    obtain ⟨ks', hn⟩ := dot1q_next
    simp only [Bool.false_or, hn]
    rw [show encapIdx 20 (Next.encapSkip ⟨.ethernet, ks, false⟩) (Next.layerIndex ⟨.ethernet, ks, false⟩) = 20 from rfl,
      dot1q_noencap ks' 20 (by omega)]
    refine Eq.trans (loop_vlans hcfg ep hep vs v (hvs v (by simp)) (fun x hx => hvs x (by simp [hx])) hd' ho'
      (by simp at hf ⊢; omega) ks' (IcmpFresh.nil.bump 1 (by decide) (by decide)) 20 (by omega) _) ?_
    simp [vlanMsg, ethMsg, hdv, hsv]

/-! ### the specification's expected message -/

/-- write one fact to its column with the generic setter of its kind -/
def applyFact (m : FlowMsg) (f : Fact) : FlowMsg :=
  match f.val with
  | .n v => m.setNum f.col v
  | .b v => m.setBytes f.col v
  | .ns v => m.setNums f.col v
  | .bs v => m.setBytess f.col v

/-- the message the specification expects for a fully captured frame: FlowMsg.empty with every fact
    written to its column, LayerStack := the layers' stack values, LayerSize := their sizes -/
def expectedMsg (f : Frame) : FlowMsg :=
  (((facts f).1.foldl applyFact FlowMsg.empty).setNums "LayerStack" ((facts f).2.map (·.1))).setNums
    "LayerSize" ((facts f).2.map (·.2.1))

/-! the generic setters on the columns the facts use -/
theorem setNum_SrcMac (m : FlowMsg) (v : Nat) : m.setNum "SrcMac" v = { m with srcMac := v } := rfl
theorem setNum_DstMac (m : FlowMsg) (v : Nat) : m.setNum "DstMac" v = { m with dstMac := v } := rfl
theorem setNum_VlanId (m : FlowMsg) (v : Nat) : m.setNum "VlanId" v = { m with vlanId := v } := rfl
theorem setNum_Etype (m : FlowMsg) (v : Nat) : m.setNum "Etype" v = { m with etype := v } := rfl
theorem setNum_IpTos (m : FlowMsg) (v : Nat) : m.setNum "IpTos" v = { m with ipTos := v } := rfl
theorem setNum_IpTtl (m : FlowMsg) (v : Nat) : m.setNum "IpTtl" v = { m with ipTtl := v } := rfl
theorem setNum_FragmentId (m : FlowMsg) (v : Nat) : m.setNum "FragmentId" v = { m with fragmentId := v } := rfl
theorem setNum_FragmentOffset (m : FlowMsg) (v : Nat) : m.setNum "FragmentOffset" v = { m with fragmentOffset := v } := rfl
theorem setNum_IpFlags (m : FlowMsg) (v : Nat) : m.setNum "IpFlags" v = { m with ipFlags := v } := rfl
theorem setNum_Proto (m : FlowMsg) (v : Nat) : m.setNum "Proto" v = { m with proto := v } := rfl
theorem setNum_Ipv6FlowLabel (m : FlowMsg) (v : Nat) : m.setNum "Ipv6FlowLabel" v = { m with ipv6FlowLabel := v } := rfl
theorem setNum_SrcPort (m : FlowMsg) (v : Nat) : m.setNum "SrcPort" v = { m with srcPort := v } := rfl
theorem setNum_DstPort (m : FlowMsg) (v : Nat) : m.setNum "DstPort" v = { m with dstPort := v } := rfl
theorem setNum_TcpFlags (m : FlowMsg) (v : Nat) : m.setNum "TcpFlags" v = { m with tcpFlags := v } := rfl
theorem setNum_IcmpType (m : FlowMsg) (v : Nat) : m.setNum "IcmpType" v = { m with icmpType := v } := rfl
theorem setNum_IcmpCode (m : FlowMsg) (v : Nat) : m.setNum "IcmpCode" v = { m with icmpCode := v } := rfl
theorem setNum_Ipv6RoutingHeaderSegLeft (m : FlowMsg) (v : Nat) : m.setNum "Ipv6RoutingHeaderSegLeft" v = { m with ipv6RoutingHeaderSegLeft := v } := rfl
theorem setBytes_SrcAddr (m : FlowMsg) (v : Bytes) : m.setBytes "SrcAddr" v = { m with srcAddr := v } := rfl
theorem setBytes_DstAddr (m : FlowMsg) (v : Bytes) : m.setBytes "DstAddr" v = { m with dstAddr := v } := rfl
theorem setNums_LayerStack (m : FlowMsg) (v : List Nat) : m.setNums "LayerStack" v = { m with layerStack := v } := rfl
theorem setNums_LayerSize (m : FlowMsg) (v : List Nat) : m.setNums "LayerSize" v = { m with layerSize := v } := rfl
theorem setNums_MplsLabel (m : FlowMsg) (v : List Nat) : m.setNums "MplsLabel" v = { m with mplsLabel := v } := rfl
theorem setNums_MplsTtl (m : FlowMsg) (v : List Nat) : m.setNums "MplsTtl" v = { m with mplsTtl := v } := rfl
theorem setBytess_Ipv6RoutingHeaderAddresses (m : FlowMsg) (v : List Bytes) : m.setBytess "Ipv6RoutingHeaderAddresses" v = { m with ipv6RoutingHeaderAddresses := v } := rfl

/-- well-formed frames relative to the registered `ports`: MAC addresses and VLAN ids within their wire widths,
    then what `EpWF` allows: IP (extension headers, L4 or tunnels inside), an MPLS label stack before IP, or an
    ethertype without parser -/
def FrameWFIn (ports : List PortEntry) (f : Frame) : Prop :=
  f.dstMac < 2 ^ 48 ∧ f.srcMac < 2 ^ 48 ∧ (∀ v ∈ f.vlans, v < 2 ^ 12) ∧ EpWF ports f.payload

theorem layers_ip_fst (p : IP) (off : Nat) : (innerIPLayers off p).map (fun x => x.1) = (stackIP p).map (fun x => x.1) := by
  rw [← layers_ip p off, List.map_map]; rfl
theorem layers_ip_snd (p : IP) (off : Nat) : (innerIPLayers off p).map (fun x => x.2.1) = (stackIP p).map (fun x => x.2) := by
  rw [← layers_ip p off, List.map_map]; rfl
theorem layers_ether_fst (ep : EtherPayload) (off : Nat) :
    (innerEtherLayers off ep).map (fun x => x.1) = (stackEther ep).map (fun x => x.1) := by
  rw [← layers_ether ep off, List.map_map]; rfl
theorem layers_ether_snd (ep : EtherPayload) (off : Nat) :
    (innerEtherLayers off ep).map (fun x => x.2.1) = (stackEther ep).map (fun x => x.2) := by
  rw [← layers_ether ep off, List.map_map]; rfl

/-- closes the comparison of the dissector's message with the specification's once all shapes are fixed -/
local macro "close_expected" : tactic => `(tactic|
  simp [epRes, ipFacts, payloadFacts, l4Facts, ipRes, ipPayload, ipExt, extMsg, payloadRes, ipMsg, l4Msg, ethMsg, applyFact,
    innerRes, mayIcmp, layers_ether_fst, layers_ether_snd, layers_ip_fst, layers_ip_snd,
    setNum_SrcMac, setNum_DstMac, setNum_VlanId, setNum_Etype, setNum_IpTos, setNum_IpTtl, setNum_FragmentId, setNum_FragmentOffset, setNum_IpFlags, setNum_Proto, setNum_Ipv6FlowLabel, setNum_SrcPort, setNum_DstPort, setNum_TcpFlags, setNum_IcmpType, setNum_IcmpCode, setNum_Ipv6RoutingHeaderSegLeft, setBytes_SrcAddr, setBytes_DstAddr, setNums_LayerStack, setNums_LayerSize, setNums_MplsLabel, setNums_MplsTtl, setBytess_Ipv6RoutingHeaderAddresses, FlowMsg.empty, etherType, ipEtype, payloadProto, l4Proto, v6First, *,
    LS_Ethernet, LS_IPv4, LS_IPv6, LS_TCP, LS_UDP, LS_ICMP, LS_ICMPv6, LS_MPLS, LS_Frag, LS_Route, LS_GRE])

/-- all payload shapes, with the IP header and what precedes it fixed -/
local macro "expected_payloads" pl:ident o:ident : tactic => `(tactic|
  (match $pl:ident with
   | .l4 l => cases l <;> cases $o:ident <;> close_expected
   | .gre inner =>
     simp only [epRes, ipRes, ipPayload, payloadRes, ipFacts, payloadFacts]
     generalize innerIcmpEther inner = oi
     rcases oi with _ | ⟨t, c⟩ <;> cases $o:ident <;> close_expected
   | .ipip q =>
     simp only [epRes, ipRes, ipPayload, payloadRes, ipFacts, payloadFacts]
     generalize innerIcmpIP q = oi
     rcases oi with _ | ⟨t, c⟩ <;> cases $o:ident <;> close_expected))

theorem expected_ep (d s : Nat) (vs : List Nat) (ep : EtherPayload) :
    epRes ep (vlanMsg vs (etherType ep) (ethMsg d s FlowMsg.empty)) = expectedMsg ⟨d, s, vs, ep⟩ := by
  have hstack : ∀ n : Nat, List.map (fun x : Nat × Nat × Nat => x.1) (List.map (fun i => (LS_Dot1Q, 4, 14 + 4 * (i + 1))) (List.range n)) =
      List.replicate n 6 := by
    intro n; simp [List.map_const', LS_Dot1Q, Function.comp_def]
  have hsize : ∀ n : Nat, List.map (fun x : Nat × Nat × Nat => x.2.1) (List.map (fun i => (LS_Dot1Q, 4, 14 + 4 * (i + 1))) (List.range n)) =
      List.replicate n 4 := by
    intro n; simp [List.map_const', Function.comp_def]
  unfold expectedMsg facts vlanMsg
  simp only []
  generalize vs.getLast? = o
  match ep with
  | .raw t b => cases o <;> close_expected
  | .ip (.v4 tos ident fl fo ttl src dst pl) => expected_payloads pl o
  | .ip (.v6 tc fl hlim src dst ext pl) => cases ext <;> expected_payloads pl o
  | .mpls labels (.v4 tos ident fl fo ttl src dst pl) => expected_payloads pl o
  | .mpls labels (.v6 tc fl hlim src dst ext pl) => cases ext <;> expected_payloads pl o

/-- more fuel does not change a result -/
theorem parseLoop_mono {cfg : Config} (hcfg : cfg.layers = []) (data : Bytes) (fuel : Nat) :
    ∀ (next : Next) (off : Nat) (encap : Bool) (idx : Nat) (calls : List (Nat × Nat)) (m a : FlowMsg),
    parseLoop cfg data fuel next off encap idx calls m = .ok a →
    ∀ k, parseLoop cfg data (fuel + k) next off encap idx calls m = .ok a := by
  induction fuel with
  | zero => intro next off encap idx calls m a h; simp [parseLoop] at h
  | succ fuel ih =>
    intro next off encap idx calls m a h k
    rw [show fuel + 1 + k = (fuel + k) + 1 by omega]
    rw [parseLoop] at h ⊢
    by_cases hc : next.callable = true ∧ off ≤ data.length
    · simp only [hc, and_self, if_true, mapLayerKeys_nil hcfg, ite_self] at h ⊢
      exact ih _ _ _ _ _ _ _ h k
    · simp only [hc, if_false] at h ⊢
      exact h

/-- On a fully captured well-formed frame the dissector reports exactly the frame's true values — for every
    configuration without layer mappings whose registered ports the frame's L4 ports do not hit. -/
theorem full_capture_cfg (cfg : Config) (hcfg : cfg.layers = []) (f : Frame) (h : FrameWFIn cfg.ports f) :
    parsePacket cfg FlowMsg.empty (bytes f) = .ok (expectedMsg f) := by
  obtain ⟨m', hm'⟩ := parsePacket_safe cfg hcfg FlowMsg.empty (bytes f)
  rw [hm']
  obtain ⟨d, s, vs, ep⟩ := f
  obtain ⟨hd, hs, hvs, hep⟩ := h
  simp only at hd hs hvs hep
  rw [← expected_ep d s vs ep]
  unfold parsePacket at hm'
  generalize 2 * (bytes ⟨d, s, vs, ep⟩).length + 4 = F at hm'
  have h1 := parseLoop_mono hcfg _ _ _ _ _ _ _ _ _ hm' (vs.length + (stackEther ep).length + 4)
  have h2 := loop_eth hcfg ep hep vs (fun x hx => Nat.lt_trans (hvs x hx) (by decide)) d s hd hs
    (fuel := F + (vs.length + (stackEther ep).length + 4)) (by omega)
    Parser.ethernet.keys FlowMsg.empty
  unfold bytes at h1
  simp only [List.append_assoc] at h1
  rw [show Parser.ethernet.layerIndex = 20 from rfl, h2] at h1
  exact h1.symm

/-! ### the plain sub-grammar -/

/-- IPv4 or IPv6 without extension headers carrying a well-formed L4 header; addresses of 4 / 16 bytes -/
def PlainIP (ports : List PortEntry) : IP → Prop
  | .v4 tos ident fl fo ttl src dst (.l4 l) =>
    tos < 2 ^ 8 ∧ ident < 2 ^ 16 ∧ fl < 2 ^ 3 ∧ fo < 2 ^ 13 ∧ ttl < 2 ^ 8 ∧ src.length = 4 ∧ dst.length = 4 ∧ L4WF ports l
  | .v6 tc fl hl src dst .none (.l4 l) =>
    tc < 2 ^ 8 ∧ fl < 2 ^ 20 ∧ hl < 2 ^ 8 ∧ src.length = 16 ∧ dst.length = 16 ∧ L4WF ports l
  | _ => False

/-- frames of the plain sub-grammar relative to the registered `ports`: Ethernet, any number of 802.1Q tags, then
    IPv4 or IPv6 without extension headers, then TCP / UDP / ICMP / ICMPv6 / another protocol -/
def PlainWFIn (ports : List PortEntry) (f : Frame) : Prop :=
  f.dstMac < 2 ^ 48 ∧ f.srcMac < 2 ^ 48 ∧ (∀ v ∈ f.vlans, v < 2 ^ 12) ∧
    match f.payload with
    | .ip p => PlainIP ports p
    | _ => False

/-- frames of the plain sub-grammar in the default environment (no registered ports) -/
def PlainWF (f : Frame) : Prop := PlainWFIn [] f

theorem PlainIP.wf {ports : List PortEntry} {p : IP} (h : PlainIP ports p) : IPWF ports p := by
  match p, h with
  | .v4 tos ident fl fo ttl src dst (.l4 l), ⟨h1, h2, h3, h4, h5, h6, h7, h8⟩ => exact ⟨h1, h2, h3, h4, h5, h6, h7, h8⟩
  | .v6 tc fl hl src dst .none (.l4 l), ⟨h1, h2, h3, h4, h5, h6⟩ => exact ⟨h1, h2, h3, h4, h5, trivial, h6⟩

theorem PlainWFIn.wf {ports : List PortEntry} {f : Frame} (h : PlainWFIn ports f) : FrameWFIn ports f := by
  obtain ⟨d, s, vs, ep⟩ := f
  obtain ⟨h1, h2, h3, h4⟩ := h
  match ep, h4 with
  | .ip p, h4 => exact ⟨h1, h2, h3, h4.wf⟩

theorem full_capture_plain_cfg (cfg : Config) (hcfg : cfg.layers = []) (f : Frame) (h : PlainWFIn cfg.ports f) :
    parsePacket cfg FlowMsg.empty (bytes f) = .ok (expectedMsg f) :=
  full_capture_cfg cfg hcfg f h.wf

/-- **C10, full capture.** On a fully captured frame of the plain sub-grammar the dissector reports exactly the
    frame's true values: every column the specification lists has its true value, every other column is
    untouched, the layer stack and the layer sizes are those of the frame. -/
theorem full_capture_plain (f : Frame) (h : PlainWF f) :
    parsePacket {} FlowMsg.empty (bytes f) = .ok (expectedMsg f) :=
  full_capture_plain_cfg {} rfl f h

/-! ### stretch (a): IPv6 with a fragment header or a segment-routing header -/

/-- Ethernet, 802.1Q tags, IPv6 with no / a fragment / a segment-routing extension header, then L4.
    For the routing header: at most 127 segments of 16 bytes (the length field counts 8-byte units in one byte)
    and `lastEntry` not below the index of the last segment. -/
def V6ExtWF (f : Frame) : Prop :=
  f.dstMac < 2 ^ 48 ∧ f.srcMac < 2 ^ 48 ∧ (∀ v ∈ f.vlans, v < 2 ^ 12) ∧
    match f.payload with
    | .ip (.v6 tc fl hl src dst ext (.l4 l)) =>
      tc < 2 ^ 8 ∧ fl < 2 ^ 20 ∧ hl < 2 ^ 8 ∧ src.length = 16 ∧ dst.length = 16 ∧ ExtWF ext ∧ L4WF [] l
    | _ => False

theorem full_capture_v6ext (f : Frame) (h : V6ExtWF f) :
    parsePacket {} FlowMsg.empty (bytes f) = .ok (expectedMsg f) := by
  refine full_capture_cfg {} rfl f ?_
  obtain ⟨d, s, vs, ep⟩ := f
  obtain ⟨h1, h2, h3, h4⟩ := h
  match ep, h4 with
  | .ip (.v6 tc fl hl src dst ext (.l4 l)), h4 => exact ⟨h1, h2, h3, h4⟩

/-! ### stretch (b): an MPLS label stack before IP -/

/-- Ethernet, 802.1Q tags, a non-empty MPLS label stack (labels above the reserved range, within 20 bits,
    TTLs within 8 bits), then a well-formed IPv4 / IPv6 packet -/
def MplsWF (f : Frame) : Prop :=
  f.dstMac < 2 ^ 48 ∧ f.srcMac < 2 ^ 48 ∧ (∀ v ∈ f.vlans, v < 2 ^ 12) ∧
    match f.payload with
    | .mpls labels p => labels ≠ [] ∧ labels.length < 2 ^ 30 ∧ LabelsWF labels ∧ IPWF [] p
    | _ => False

theorem full_capture_mpls (f : Frame) (h : MplsWF f) :
    parsePacket {} FlowMsg.empty (bytes f) = .ok (expectedMsg f) := by
  refine full_capture_cfg {} rfl f ?_
  obtain ⟨d, s, vs, ep⟩ := f
  obtain ⟨h1, h2, h3, h4⟩ := h
  match ep, h4 with
  | .mpls labels p, h4 => exact ⟨h1, h2, h3, h4⟩

/-! ### stretch (c): tunnels — GRE and IP-in-IP behind the outer IP header

  The facts cover the outer headers only; the tunnelled layers (any nesting of IP, extension headers, GRE,
  MPLS, IP-in-IP, L4 that is well-formed) contribute to the layer stack and the layer sizes, and an ICMP header
  that ends the tunnelled stack to `IcmpType` / `IcmpCode`. -/

/-- all well-formed frames of the grammar in the default environment -/
def FrameWF (f : Frame) : Prop := FrameWFIn [] f

def isTunnel : Payload → Prop
  | .gre _ => True
  | .ipip _ => True
  | .l4 _ => False

/-- well-formed frames whose outer IP header carries GRE or IP-in-IP -/
def TunnelWF (f : Frame) : Prop :=
  FrameWF f ∧ match f.payload with
    | .ip p => isTunnel (ipPayload p)
    | .mpls _ p => isTunnel (ipPayload p)
    | .raw .. => False

/-- every well-formed frame of the grammar: plain, with an IPv6 extension header, with an MPLS label stack, with
    tunnels, or with an ethertype the dissector has no parser for -/
theorem full_capture (f : Frame) (h : FrameWF f) :
    parsePacket {} FlowMsg.empty (bytes f) = .ok (expectedMsg f) :=
  full_capture_cfg {} rfl f h

theorem full_capture_tunnel (f : Frame) (h : TunnelWF f) :
    parsePacket {} FlowMsg.empty (bytes f) = .ok (expectedMsg f) :=
  full_capture f h.1

/-! ### concrete frames -/

/-- a concrete non-trivial frame of the plain sub-grammar: two VLAN tags, IPv6, TCP with 12 bytes of options -/
def sampleFrame : Frame :=
  ⟨0x001122334455, 0x66778899aabb, [100, 200],
   .ip (.v6 0xb8 0xabcde 64 [0x20, 1, 0xd, 0xb8, 0, 0, 0, 0, 0, 0, 0, 0, 0, 0, 0, 1]
      [0xfe, 0x80, 0, 0, 0, 0, 0, 0, 1, 2, 3, 4, 5, 6, 7, 8] .none
      (.l4 (.tcp 443 51234 0xdeadbeef 0x01020304 8 0x18 65535 [2, 4, 5, 0xb4, 1, 3, 3, 7, 1, 1, 4, 2])))⟩

theorem sampleFrame_wf : PlainWF sampleFrame := by
  simp [sampleFrame, PlainWF, PlainWFIn, PlainIP, L4WF, nextParserPort, Next.callable]

example : PlainWF sampleFrame := sampleFrame_wf

example : parsePacket {} FlowMsg.empty (bytes sampleFrame) = .ok (expectedMsg sampleFrame) :=
  full_capture_plain sampleFrame sampleFrame_wf

/-- one VLAN tag, two MPLS labels, IPv6 with a two-segment routing header, UDP -/
def sampleMpls : Frame :=
  ⟨0x001122334455, 0x66778899aabb, [7],
   .mpls [(1000, 255), (16, 1)]
     (.v6 0 1 2 [0x20, 1, 0xd, 0xb8, 0, 0, 0, 0, 0, 0, 0, 0, 0, 0, 0, 1]
      [0xfe, 0x80, 0, 0, 0, 0, 0, 0, 1, 2, 3, 4, 5, 6, 7, 8]
      (.srh 1 1 [[0xfc, 0, 0, 0, 0, 0, 0, 0, 0, 0, 0, 0, 0, 0, 0, 1], [0xfc, 0, 0, 0, 0, 0, 0, 0, 0, 0, 0, 0, 0, 0, 0, 2]])
      (.l4 (.udp 53 40000)))⟩

example : MplsWF sampleMpls := by
  simp [sampleMpls, MplsWF, LabelsWF, IPWF, ExtWF, PayloadWF, L4WF, nextParserPort, Next.callable]

/-- IPv6 with a fragment header carrying GRE, an MPLS stack, IPv4 and an ICMP echo request: the columns are those
    of the outer headers, the ICMP type / code those of the tunnelled ICMP header -/
def sampleTunnel : Frame :=
  ⟨0x001122334455, 0x66778899aabb, [],
   .ip (.v6 0 1 2 [0x20, 1, 0xd, 0xb8, 0, 0, 0, 0, 0, 0, 0, 0, 0, 0, 0, 1]
      [0xfe, 0x80, 0, 0, 0, 0, 0, 0, 1, 2, 3, 4, 5, 6, 7, 8] (.fragment 3 1 77)
      (.gre (.mpls [(16, 3), (17, 4)] (.v4 0 1 2 0 64 [10, 0, 0, 1] [10, 0, 0, 2] (.l4 (.icmp 8 0))))))⟩

theorem sampleTunnel_wf : TunnelWF sampleTunnel := by
  simp [sampleTunnel, TunnelWF, FrameWF, FrameWFIn, EpWF, IPWF, ExtWF, PayloadWF, LabelsWF, L4WF, isTunnel, ipPayload]

example : (expectedMsg sampleTunnel).layerStack = [0, 2, 11, 9, 5, 1, 7] ∧ (expectedMsg sampleTunnel).proto = 44 ∧
    (expectedMsg sampleTunnel).icmpType = 8 := by decide

end Goflow.C10
