import Goflow.Conc.ReceiverFaults
import Proofs.C18
/-!
  C18 with faults — Start / Stop call sequences in which a Start may fail to bind and every Start
  brings its own decoder. All theorems are for every call sequence (induction), every worker /
  socket count and every queue size.
-/
namespace Goflow.C18Faults
open Goflow.Conc.Receiver Goflow.Conc.ReceiverFaults

/-- the receiver state is a function of the specification state: stopped = everything at rest,
    started with `f` = `workers` workers that all captured `f`, `sockets` readers, a balanced WaitGroup -/
def canon (cfg : RCfg) : Option Nat → SessSt
  | none => initF
  | some f => ⟨false, false, cfg.workers, cfg.workers + cfg.sockets, List.replicate cfg.workers f, cfg.sockets, 0⟩

theorem bindMany_eq (n : Nat) (s : SessSt) :
    bindMany n s = { s with wg := s.wg + n, readers := s.readers + n } := by
  induction n generalizing s with
  | zero => rfl
  | succ n ih =>
    simp only [bindMany, ih, bindOk]
    congr 1 <;> omega

/-- Stop on a receiver started with any decoder: returns, without error, into the rest state -/
private theorem stop_started (cfg : RCfg) (f : Nat) :
    callStepF cfg (canon cfg (some f)) .stop = (initF, .ok) := by
  simp [callStepF, canon, stopBody, initBody, initF]

/-- the error path of Start: whatever number of sockets was bound before the failing one, the
    embedded Stop returns (the WaitGroup is balanced) and leaves the rest state -/
private theorem startFail_stopped (cfg : RCfg) (f k : Nat) :
    callStepF cfg initF (.startFail f k) = (initF, .err) := by
  simp only [callStepF, initF, Bool.not_true, Bool.false_eq_true, if_false, decodersF, bindMany_eq, bindFail,
    stopBody, List.nil_append, List.length_replicate, Nat.zero_add, Nat.min_self, Nat.sub_self, Nat.add_zero,
    Nat.not_lt_zero, List.drop_replicate, List.replicate_zero, Nat.add_sub_cancel]
  simp [initBody]

/-- one call: the implementation's next state and result are the specification's -/
theorem callStepF_canon (cfg : RCfg) (sp : Option Nat) (c : CallF) :
    callStepF cfg (canon cfg sp) c = (canon cfg (specStepF sp c).1, (specStepF sp c).2) := by
  cases c with
  | stop =>
    cases sp with
    | none => simp [callStepF, canon, stopBody, initBody, initF, specStepF]
    | some f => rw [stop_started]; rfl
  | start f =>
    cases sp with
    | none =>
      simp only [callStepF, canon, initF, Bool.not_true, Bool.false_eq_true, if_false, decodersF, bindMany_eq, specStepF]
      simp
    | some g => simp [callStepF, canon, specStepF]
  | startFail f k =>
    cases sp with
    | none => exact startFail_stopped cfg f k
    | some g => simp [callStepF, canon, specStepF]

theorem runF_canon (cfg : RCfg) (sp : Option Nat) (calls : List CallF) :
    runF cfg (canon cfg sp) calls = (canon cfg (specRunF sp calls).1, (specRunF sp calls).2) := by
  induction calls generalizing sp with
  | nil => rfl
  | cons c rest ih =>
    simp only [runF, specRunF, callStepF_canon, ih]

/-- **results = specification**: for every sequence over {Start f, Start f with a failing bind, Stop}
    the calls return errors exactly for Start-on-started, Stop-on-stopped and failing binds — and no
    call ever hangs (the specification contains no `hang`) -/
theorem results_spec_faults (cfg : RCfg) (calls : List CallF) :
    (runF cfg initF calls).2 = (specRunF none calls).2 := by
  have := runF_canon cfg none calls
  simp only [canon] at this
  rw [this]

/-- no call of any sequence hangs: Stop's `wg.Wait()` always returns, also the one on Start's error path -/
theorem never_hangs (cfg : RCfg) (calls : List CallF) : Res.hang ∉ (runF cfg initF calls).2 := by
  rw [results_spec_faults]
  have key : ∀ sp, Res.hang ∉ (specRunF sp calls).2 := by
    induction calls with
    | nil => intro sp; simp [specRunF]
    | cons c rest ih =>
      intro sp
      simp only [specRunF, List.mem_cons, not_or]
      refine ⟨?_, ih _⟩
      cases c <;> cases sp <;> simp [specStepF]
  exact key none

/-- after every call sequence: the state is the rest state or a session whose workers ALL run the
    decoder of the Start that opened the session; the WaitGroup counts exactly the live goroutines,
    `decodersCnt` the live workers, no sentinel is left in the channel -/
theorem state_after_calls (cfg : RCfg) (calls : List CallF) :
    (runF cfg initF calls).1 = canon cfg (specRunF none calls).1 := by
  have := runF_canon cfg none calls
  simp only [canon] at this
  rw [this]
  rfl

/-- the decoder of the session: every live worker decodes with the decoder of the last SUCCESSFUL
    Start (none when stopped) -/
theorem workers_run_session_decoder (cfg : RCfg) (calls : List CallF) :
    (runF cfg initF calls).1.workers =
      match (specRunF none calls).1 with
      | none => []
      | some f => List.replicate cfg.workers f := by
  rw [state_after_calls]
  cases (specRunF none calls).1 <;> rfl

private theorem runF_append (cfg : RCfg) (s : SessSt) (a b : List CallF) :
    runF cfg s (a ++ b) = ((runF cfg (runF cfg s a).1 b).1, (runF cfg s a).2 ++ (runF cfg (runF cfg s a).1 b).2) := by
  induction a generalizing s with
  | nil => simp [runF]
  | cons c rest ih => simp [runF, ih]

private theorem specRunF_append (sp : Option Nat) (a b : List CallF) :
    specRunF sp (a ++ b) = ((specRunF (specRunF sp a).1 b).1, (specRunF sp a).2 ++ (specRunF (specRunF sp a).1 b).2) := by
  induction a generalizing sp with
  | nil => simp [specRunF]
  | cons c rest ih => simp [specRunF, ih]

/-- **a refused Start keeps the decoder**: after any calls that leave the receiver started, a further
    Start (with any decoder `f'`, failing bind or not) returns an error and changes NOTHING — the
    workers keep decoding with the decoder the session was started with -/
theorem refused_start_keeps_decoder (cfg : RCfg) (pre : List CallF) (f f' k : Nat)
    (hstarted : (specRunF none pre).1 = some f) (c : CallF) (hc : c = .start f' ∨ c = .startFail f' k) :
    (runF cfg initF (pre ++ [c])).1 = (runF cfg initF pre).1 ∧
    (runF cfg initF (pre ++ [c])).1.workers = List.replicate cfg.workers f ∧
    (runF cfg initF (pre ++ [c])).2 = (runF cfg initF pre).2 ++ [Res.err] := by
  have hs := state_after_calls cfg pre
  rw [hstarted] at hs
  rw [runF_append, hs]
  rcases hc with rfl | rfl <;> simp only [runF, callStepF_canon, specStepF] <;> simp [canon]

/-- the analogue of `quit_open_after_every_call` with failing Starts: whatever the call sequence, when a
    call has returned the quit channel is open (and no stale sentinel waits in the dispatch channel):
    the readers and workers of the next successful Start are not told to quit by leftovers -/
theorem quit_open_after_every_call' (cfg : RCfg) (calls : List CallF) :
    (runF cfg initF calls).1.qClosed = false ∧ (runF cfg initF calls).1.stale = 0 ∧
    (runF cfg initF calls).1.wg = (runF cfg initF calls).1.workers.length + (runF cfg initF calls).1.readers := by
  rw [state_after_calls]
  cases (specRunF none calls).1 <;> simp [canon, initF]

/-- **a failed Start is restartable**: on a stopped receiver a Start whose bind fails returns an error
    and leaves the receiver STOPPED with a balanced WaitGroup, no goroutine alive and an open quit
    channel; the next Start succeeds and installs ITS decoder -/
theorem failed_start_restartable (cfg : RCfg) (pre : List CallF) (f k g : Nat)
    (hstopped : (specRunF none pre).1 = none) :
    (runF cfg initF (pre ++ [.startFail f k])).1 = initF ∧
    (runF cfg initF (pre ++ [.startFail f k])).2 = (runF cfg initF pre).2 ++ [Res.err] ∧
    (runF cfg initF (pre ++ [.startFail f k, .start g])).2 = (runF cfg initF pre).2 ++ [Res.err, Res.ok] ∧
    (runF cfg initF (pre ++ [.startFail f k, .start g])).1.workers = List.replicate cfg.workers g ∧
    (runF cfg initF (pre ++ [.startFail f k, .start g])).1.readers = cfg.sockets := by
  have hs := state_after_calls cfg pre
  rw [hstopped] at hs
  rw [runF_append, runF_append, hs]
  simp only [runF, callStepF_canon, specStepF]
  simp [canon]

/-- a successful Start after a Stop installs the new decoder -/
theorem restart_installs_new_decoder (cfg : RCfg) (pre : List CallF) (f g : Nat)
    (hstarted : (specRunF none pre).1 = some f) :
    (runF cfg initF (pre ++ [.stop, .start g])).1.workers = List.replicate cfg.workers g ∧
    (runF cfg initF (pre ++ [.stop, .start g])).2 = (runF cfg initF pre).2 ++ [Res.ok, Res.ok] := by
  have hs := state_after_calls cfg pre
  rw [hstarted] at hs
  rw [runF_append, hs]
  simp only [runF, callStepF_canon, specStepF]
  simp [canon]

/-! ### agreement with the fault-free model of `Goflow.Conc.Receiver` -/

private theorem spec_embed (started : Option Nat) (calls : List Call) :
    (specRunF started (calls.map embed)).2 = (specResults started.isSome calls).map resOfBool := by
  induction calls generalizing started with
  | nil => rfl
  | cons c rest ih =>
    cases c <;> cases started <;> simp [specRunF, specStepF, embed, specResults, resOfBool, ih]

/-- on sequences without failing binds the new model returns what the old two-channel model
    (`callRun2`) returns -/
theorem faultfree_agrees (cfg : RCfg) (calls : List Call) :
    (runF cfg initF (calls.map embed)).2 = (callRun2 callInit calls).2.map resOfBool := by
  rw [results_spec_faults, spec_embed, C18.callRun2_results, C18.start_stop_results]
  rfl

/-! ### non-vacuity and negative controls -/

/-- a concrete sequence: Start(1), refused Start(2), Stop, redundant Stop, failing Start(3) after one
    good bind, Start(4) -/
example :
    runF ⟨2, 2, 0⟩ initF [.start 1, .start 2, .stop, .stop, .startFail 3 1, .start 4] =
      (⟨false, false, 2, 4, [4, 4], 2, 0⟩, [.ok, .err, .ok, .err, .err, .ok]) := by decide

/-- the hypotheses of `refused_start_keeps_decoder` / `failed_start_restartable` are satisfiable -/
example : (specRunF none [.start 7]).1 = some 7 ∧ (specRunF none [.start 7, .stop]).1 = none := by decide

/-- negative control (the defect of seeded change C18-9): a bind that fails after `wg.Add(1)` WITHOUT the
    deferred `wg.Done()` leaves the counter one short — the model's `stopBody` then never returns -/
example :
    let s1 := decodersF ⟨2, 2, 0⟩ { initF with readyClosed := false } 3
    let s2 := { s1 with wg := s1.wg + 1 }           -- Add without Done
    stopBody ⟨2, 2, 0⟩ s2 = none := by decide

/-- negative control (seeded change C17-9): a `decodersCnt` that survives the session makes the next
    Stop send sentinels nobody takes — it hangs on a synchronous channel and poisons a buffered one -/
example :
    stopBody ⟨2, 2, 0⟩ { initF with decodersCnt := 2 } = none ∧
    (stopBody ⟨2, 2, 4⟩ { initF with decodersCnt := 2 }).map (·.stale) = some 2 := by decide

end Goflow.C18Faults
