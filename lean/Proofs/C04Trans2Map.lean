import Goflow.Generated.SflowT
import Goflow.Decoders.Sflow
import Proofs.C04Trans
/-!
  C04 (translation tie, second part) — the mapping from the generated typed structs / the generated sum types of
  Goflow/Generated/SflowT.lean to the terms of the hand-written model Goflow/Decoders/Sflow.lean.
-/
namespace Goflow.C04Trans2
open Goflow Goflow.Producer Goflow.Generated Goflow.Go Goflow.Sflow

/-- what a FlowRecord holds (TS.Iface) as the model's FlowData -/
def dataOf : TS.Iface → FlowData
  | .SampledHeader v => .raw [v.Protocol.toNat, v.FrameLength.toNat, v.Stripped.toNat, v.OriginalLength.toNat] v.HeaderData
  | .SampledEthernet v => .fixed 2 [.n v.Length.toNat, .b v.SrcMac, .b v.DstMac, .n v.EthType.toNat]
  | .SampledIPv4 v => .fixed 3 [.n v.SampledIPBase.Length.toNat, .n v.SampledIPBase.Protocol.toNat, .b v.SampledIPBase.SrcIP,
      .b v.SampledIPBase.DstIP, .n v.SampledIPBase.SrcPort.toNat, .n v.SampledIPBase.DstPort.toNat, .n v.SampledIPBase.TcpFlags.toNat,
      .n v.Tos.toNat]
  | .SampledIPv6 v => .fixed 4 [.n v.SampledIPBase.Length.toNat, .n v.SampledIPBase.Protocol.toNat, .b v.SampledIPBase.SrcIP,
      .b v.SampledIPBase.DstIP, .n v.SampledIPBase.SrcPort.toNat, .n v.SampledIPBase.DstPort.toNat, .n v.SampledIPBase.TcpFlags.toNat,
      .n v.Priority.toNat]
  | .ExtendedSwitch v => .fixed 1001 [.n v.SrcVlan.toNat, .n v.SrcPriority.toNat, .n v.DstVlan.toNat, .n v.DstPriority.toNat]
  | .EgressQueue v => .fixed 1036 [.n v.Queue.toNat]
  | .ExtendedRouter v => .router v.NextHopIPVersion.toNat v.NextHop v.SrcMaskLen.toNat v.DstMaskLen.toNat
  | .ExtendedGateway v => .gateway v.NextHopIPVersion.toNat v.NextHop
      [v.AS.toNat, v.SrcAS.toNat, v.SrcPeerAS.toNat, v.ASDestinations.toNat] v.ASPathType.toNat v.ASPathLength.toNat
      (v.ASPath.map UInt32.toNat) v.CommunitiesLength.toNat (v.Communities.map UInt32.toNat) v.LocalPref.toNat
  | .ExtendedACL v => .acl v.Number.toNat v.Name v.Direction.toNat
  | .ExtendedFunction v => .function v.Symbol
  | .RawRecord v => .unknown v.Data
  | _ => .none

/-- what a CounterRecord holds (TS.Iface) as the model's CounterData -/
def cdataOf : TS.Iface → CounterData
  | .IfCounters v => .ifc [v.IfIndex.toNat, v.IfType.toNat, v.IfSpeed.toNat, v.IfDirection.toNat, v.IfStatus.toNat, v.IfInOctets.toNat,
      v.IfInUcastPkts.toNat, v.IfInMulticastPkts.toNat, v.IfInBroadcastPkts.toNat, v.IfInDiscards.toNat, v.IfInErrors.toNat,
      v.IfInUnknownProtos.toNat, v.IfOutOctets.toNat, v.IfOutUcastPkts.toNat, v.IfOutMulticastPkts.toNat, v.IfOutBroadcastPkts.toNat,
      v.IfOutDiscards.toNat, v.IfOutErrors.toNat, v.IfPromiscuousMode.toNat]
  | .EthernetCounters v => .eth [v.Dot3StatsAlignmentErrors.toNat, v.Dot3StatsFCSErrors.toNat, v.Dot3StatsSingleCollisionFrames.toNat,
      v.Dot3StatsMultipleCollisionFrames.toNat, v.Dot3StatsSQETestErrors.toNat, v.Dot3StatsDeferredTransmissions.toNat,
      v.Dot3StatsLateCollisions.toNat, v.Dot3StatsExcessiveCollisions.toNat, v.Dot3StatsInternalMacTransmitErrors.toNat,
      v.Dot3StatsCarrierSenseErrors.toNat, v.Dot3StatsFrameTooLongs.toNat, v.Dot3StatsInternalMacReceiveErrors.toNat,
      v.Dot3StatsSymbolErrors.toNat]
  | .RawRecord v => .unknown v.Data
  | _ => .none

def flowRecOf (r : TS.FlowRecord) : Sflow.FlowRecord := ⟨r.Header.DataFormat.toNat, r.Header.Length.toNat, dataOf r.Data⟩
def counterRecOf (r : TS.CounterRecord) : Sflow.CounterRecord := ⟨r.Header.DataFormat.toNat, r.Header.Length.toNat, cdataOf r.Data⟩

def hdrOf (h : TS.SampleHeader) : Sflow.SampleHeader :=
  ⟨h.Format.toNat, h.Length.toNat, h.SampleSequenceNumber.toNat, h.SourceIdType.toNat, h.SourceIdValue.toNat⟩

/-- what DecodeSample returns / a Packet holds (TS.SM.Iface) as the model's Sample -/
def sampleOf : TS.SM.Iface → Sample
  | .FlowSample v => .flow (hdrOf v.Header) [v.SamplingRate.toNat, v.SamplePool.toNat, v.Drops.toNat, v.Input.toNat, v.Output.toNat,
      v.FlowRecordsCount.toNat] (v.Records.map flowRecOf)
  | .CounterSample v => .counter (hdrOf v.Header) v.CounterRecordsCount.toNat (v.Records.map counterRecOf)
  | .ExpandedFlowSample v => .expFlow (hdrOf v.Header) [v.SamplingRate.toNat, v.SamplePool.toNat, v.Drops.toNat, v.InputIfFormat.toNat,
      v.InputIfValue.toNat, v.OutputIfFormat.toNat, v.OutputIfValue.toNat, v.FlowRecordsCount.toNat] (v.Records.map flowRecOf)
  | .DropSample v => .drop (hdrOf v.Header) [v.Drops.toNat, v.Input.toNat, v.Output.toNat, v.Reason.toNat, v.FlowRecordsCount.toNat]
      (v.Records.map flowRecOf)
  | .nil => .none

def packetOf (p : TS.SM.Packet) : Sflow.Packet :=
  ⟨p.Version.toNat, p.IPVersion.toNat, p.AgentIP, [p.SubAgentId.toNat, p.SequenceNumber.toNat, p.Uptime.toNat, p.SamplesCount.toNat],
   p.Samples.map sampleOf⟩

end Goflow.C04Trans2
