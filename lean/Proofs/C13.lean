import Goflow.Format.Formatter
import Proofs.Lemmas.Bytes
/-!
  C13 — every message serialises.

  * `varint_roundtrip`, `frame_split`: the binary form is a varint length prefix followed by the
    body, and a concatenation of any number of frames is cut back into exactly those bodies — for
    every list of bodies (below 2^64 bytes each).
-/
namespace Goflow.C13
open Goflow Goflow.Format Goflow.Producer

theorem varint_consume (fuel v : Nat) (rest : Bytes) (h : v < 128 ^ (fuel + 1)) :
    consumeVarint (fuel + 1) (varint (fuel + 1) v ++ rest) = some (v, rest) := by
  induction fuel generalizing v with
  | zero =>
    have hv : v < 128 := by simpa using h
    unfold varint consumeVarint
    have : (UInt8.ofNat v).toNat = v := by simp [UInt8.toNat_ofNat']; omega
    simp [hv, this]
  | succ n ih =>
    unfold varint
    by_cases hv : v < 128
    · simp only [hv, if_true, List.cons_append, List.nil_append]
      unfold consumeVarint
      have : (UInt8.ofNat v).toNat = v := by simp [UInt8.toNat_ofNat']; omega
      simp [this, hv]
    · simp only [hv, if_false, List.cons_append]
      unfold consumeVarint
      have h1 : (UInt8.ofNat (v % 128 + 128)).toNat = v % 128 + 128 := by simp [UInt8.toNat_ofNat']; omega
      have h2 : ¬ (v % 128 + 128 < 128) := by omega
      have h3 : v / 128 < 128 ^ (n + 1) := by
        rw [Nat.pow_succ] at h
        exact Nat.div_lt_of_lt_mul (by rw [Nat.mul_comm]; exact h)
      simp only [h1, h2, if_false, ih (v / 128) h3]
      simp; omega

/-- protowire.ConsumeVarint ∘ AppendVarint = id, for every uint64 and every continuation of the stream -/
theorem varint_roundtrip (v : Nat) (rest : Bytes) (h : v < 2 ^ 64) :
    consumeVarint 10 (appendVarint v ++ rest) = some (v, rest) := by
  unfold appendVarint
  apply varint_consume
  calc v < 2 ^ 64 := h
    _ ≤ 128 ^ (9 + 1) := by decide

def frame (body : Bytes) : Bytes := appendVarint body.length ++ body

theorem marshalBinary_is_frame (m : FlowMsg) : marshalBinary m = frame (marshal m) := rfl

theorem splitFrames_ne (fuel : Nat) (s : Bytes) (h : s ≠ []) :
    splitFrames (fuel + 1) s =
      match consumeVarint 10 s with
      | none => none
      | some (n, r) =>
        if r.length < n then none else
        match splitFrames fuel (r.drop n) with
        | some fs => some (r.take n :: fs)
        | none => none := by
  cases s with
  | nil => contradiction
  | cons x xs => rfl

/-- a concatenated stream splits unambiguously: the reader recovers exactly the bodies that were
    written, in order, for every number of frames and every body content -/
theorem frame_split (bodies : List Bytes) (h : ∀ b ∈ bodies, b.length < 2 ^ 64) (fuel : Nat) (hf : bodies.length < fuel) :
    splitFrames fuel ((bodies.map frame).flatten) = some bodies := by
  induction bodies generalizing fuel with
  | nil => cases fuel <;> simp [splitFrames] at *
  | cons b bs ih =>
    cases fuel with
    | zero => simp at hf
    | succ n =>
      have hb : b.length < 2 ^ 64 := h b (by simp)
      simp only [List.map_cons, List.flatten_cons, frame, List.append_assoc]
      have hne : appendVarint b.length ++ (b ++ (bs.map frame).flatten) ≠ [] := by
        unfold appendVarint varint; split <;> simp
      rw [splitFrames_ne _ _ hne, varint_roundtrip _ _ hb]
      have hlen : ¬ ((b ++ (bs.map frame).flatten).length < b.length) := by simp
      simp only [hlen, if_false, List.drop_left, List.take_left]
      have := ih (fun x hx => h x (by simp [hx])) n (by simp at hf; omega)
      rw [this]

/-- the frames of N messages read back as N bodies -/
theorem stream_of_messages (ms : List FlowMsg) (h : ∀ m ∈ ms, (marshal m).length < 2 ^ 64) :
    splitFrames (ms.length + 1) ((ms.map marshalBinary).flatten) = some (ms.map marshal) := by
  have := frame_split (ms.map marshal) (by simpa using h) (ms.length + 1) (by simp)
  have e : ms.map marshalBinary = (ms.map marshal).map frame := by
    simp [List.map_map, Function.comp_def, marshalBinary_is_frame]
  rw [e]; exact this

end Goflow.C13
