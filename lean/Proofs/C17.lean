import Goflow.Conc.Receiver
import Proofs.Lemmas.Count
import Goflow.Generated.Sync
/-!
  C17 — Each received datagram is decoded exactly once, intact, or counted as dropped.
  Invariants of the receiver's transition system, for any number of sockets and workers, any
  queue size, blocking or not, and every schedule.
-/
namespace Goflow.C17
open Goflow Goflow.Conc.Receiver

def ridOf : RPc → Option Nat
  | .holding _ d => some d
  | _ => none
def widOf : WPc → Option Nat
  | .decoding _ d => some d
  | _ => none
def qidOf : QItem → Option Nat
  | .pkt _ d => some d
  | .sentinel => none

private theorem readerIds_eq (rs : List RPc) : readerIds rs = rs.filterMap ridOf := by
  rfl
private theorem workerIds_eq (ws : List WPc) : workerIds ws = ws.filterMap widOf := by
  rfl
private theorem queueIds_eq (q : List QItem) : queueIds q = q.filterMap qidOf := by
  rfl

/-- conservation: every datagram read from a socket is in exactly one place — a reader's hand,
    the queue, a decoder call, decoded, dropped, or (only around Stop) lost in hand — and ids are fresh -/
def Inv (st : St) : Prop :=
  (∀ d : Nat, (places st).count d = st.readIds.count d) ∧
  (∀ d : Nat, st.readIds.count d ≤ 1) ∧
  (∀ d ∈ st.readIds, d < st.nextId)

theorem inv_init (cfg : Cfg) (r w : Nat) : Inv (init cfg r w) := by
  refine ⟨?_, ?_, ?_⟩
  · intro d
    simp only [init, places, readerIds_eq, workerIds_eq, queueIds_eq, List.filterMap_nil, List.append_nil, List.count_nil]
    have h1 : ∀ n, (List.replicate n RPc.idle).filterMap ridOf = [] := by
      intro n; induction n <;> simp_all [List.replicate_succ, ridOf]
    have h2 : ∀ n, (List.replicate n WPc.idle).filterMap widOf = [] := by
      intro n; induction n <;> simp_all [List.replicate_succ, widOf]
    simp [h1, h2]
  · intro d; simp [init]
  · intro d hd; simp [init] at hd

private theorem cnt1 (a d : Nat) : [a].count d = if a = d then 1 else 0 := by
  by_cases h : a = d <;> simp [h]

theorem inv_step (st st' : St) (e : Ev) (hinv : Inv st) (h : step st e = some st') : Inv st' := by
  obtain ⟨hc, hn, hf⟩ := hinv
  have fresh : st.readIds.count st.nextId = 0 := by
    apply List.count_eq_zero_of_not_mem
    intro hm; exact Nat.lt_irrefl _ (hf _ hm)
  cases e with
  | read r =>
    simp only [step] at h
    split at h
    · rename_i hr
      split at h
      · cases h
      · have tail : ∀ (buf : Nat) (pool : List Nat) (nb : Nat),
            Inv { st with pool := pool, nextBuf := nb, nextId := st.nextId + 1,
                          readers := st.readers.set r (.holding buf st.nextId), readIds := st.nextId :: st.readIds } →
            True := fun _ _ _ _ => trivial
        have main : ∀ (buf : Nat) (pool : List Nat) (nb : Nat) (hp : ∀ d : Nat, pool.count d ≤ st.pool.count d ∨ True),
            Inv { st with pool := pool, nextBuf := nb, nextId := st.nextId + 1,
                          readers := st.readers.set r (.holding buf st.nextId), readIds := st.nextId :: st.readIds } := by
          intro buf pool nb _
          refine ⟨?_, ?_, ?_⟩
          · intro d
            have := hc d
            have hs := count_filterMap_set ridOf st.readers r (.holding buf st.nextId) .idle hr d
            simp only [places, readerIds_eq, workerIds_eq, queueIds_eq, List.count_append, List.count_cons] at this ⊢
            simp only [ridOf, Option.toList_some, Option.toList_none, List.count_nil, cnt1] at hs
            by_cases hd : st.nextId = d <;> simp [hd] at hs ⊢ <;> omega
          · intro d
            simp only [List.count_cons]
            by_cases hd : st.nextId = d
            · subst hd; simp [fresh]
            · have := hn d; simp [hd]; exact this
          · intro d hd
            simp only [List.mem_cons] at hd
            rcases hd with rfl | hd
            · simp
            · have := hf d hd; simp only; omega
        split at h
        · cases h; exact main _ _ _ (fun _ => Or.inr trivial)
        · cases h; exact main _ _ _ (fun _ => Or.inr trivial)
    · cases h
  | dispatch r =>
    simp only [step] at h
    split at h
    · rename_i b d0 hr
      split at h
      · cases h
        refine ⟨?_, hn, hf⟩
        intro d
        have := hc d
        have hs := count_filterMap_set ridOf st.readers r .idle (.holding b d0) hr d
        have hq := count_filterMap_append_one qidOf st.queue (.pkt b d0) d
        simp only [places, readerIds_eq, workerIds_eq, queueIds_eq, List.count_append] at this ⊢
        simp only [ridOf, qidOf, Option.toList_some, Option.toList_none, List.count_nil, cnt1] at hs hq
        omega
      · cases h
    · cases h
  | handoff r w =>
    simp only [step] at h
    split at h
    · rename_i b d0 hr hw
      split at h
      · cases h
        refine ⟨?_, hn, hf⟩
        intro d
        have := hc d
        have hs := count_filterMap_set ridOf st.readers r .idle (.holding b d0) hr d
        have hws := count_filterMap_set widOf st.workers w (.decoding b d0) .idle hw d
        simp only [places, readerIds_eq, workerIds_eq, queueIds_eq, List.count_append] at this ⊢
        simp only [ridOf, widOf, Option.toList_some, Option.toList_none, List.count_nil, cnt1] at hs hws
        omega
      · cases h
    · cases h
  | drop r =>
    simp only [step] at h
    split at h
    · rename_i b d0 hr
      split at h
      · cases h
        refine ⟨?_, hn, hf⟩
        intro d
        have := hc d
        have hs := count_filterMap_set ridOf st.readers r .idle (.holding b d0) hr d
        simp only [places, readerIds_eq, workerIds_eq, queueIds_eq, List.count_append, List.count_cons] at this ⊢
        simp only [ridOf, Option.toList_some, Option.toList_none, List.count_nil, cnt1] at hs
        by_cases hd : d0 = d <;> simp [hd] at hs ⊢ <;> omega
      · cases h
    · cases h
  | quit r =>
    simp only [step] at h
    split at h
    · cases h
    · split at h
      · rename_i hr
        cases h
        refine ⟨?_, hn, hf⟩
        intro d
        have := hc d
        have hs := count_filterMap_set ridOf st.readers r .exited .idle hr d
        simp only [places, readerIds_eq, workerIds_eq, queueIds_eq, List.count_append] at this ⊢
        simp only [ridOf, Option.toList_none, List.count_nil] at hs
        omega
      · rename_i b d0 hr
        cases h
        refine ⟨?_, hn, hf⟩
        intro d
        have := hc d
        have hs := count_filterMap_set ridOf st.readers r .exited (.holding b d0) hr d
        simp only [places, readerIds_eq, workerIds_eq, queueIds_eq, List.count_append, List.count_cons] at this ⊢
        simp only [ridOf, Option.toList_some, Option.toList_none, List.count_nil, cnt1] at hs
        by_cases hd : d0 = d <;> simp [hd] at hs ⊢ <;> omega
      · cases h
  | take w =>
    simp only [step] at h
    split at h
    · rename_i b d0 rest hw hq
      cases h
      refine ⟨?_, hn, hf⟩
      intro d
      have := hc d
      have hws := count_filterMap_set widOf st.workers w (.decoding b d0) .idle hw d
      have hqc := count_filterMap_cons qidOf rest (.pkt b d0) d
      simp only [places, readerIds_eq, workerIds_eq, queueIds_eq, List.count_append, hq] at this ⊢
      simp only [widOf, qidOf, Option.toList_some, Option.toList_none, List.count_nil, cnt1] at hws hqc
      omega
    · rename_i rest hw hq
      cases h
      refine ⟨?_, hn, hf⟩
      intro d
      have := hc d
      have hws := count_filterMap_set widOf st.workers w .exited .idle hw d
      have hqc := count_filterMap_cons qidOf rest .sentinel d
      simp only [places, readerIds_eq, workerIds_eq, queueIds_eq, List.count_append, hq] at this ⊢
      simp only [widOf, qidOf, Option.toList_none, List.count_nil] at hws hqc
      omega
    · cases h
  | finish w =>
    simp only [step] at h
    split at h
    · rename_i b d0 hw
      cases h
      refine ⟨?_, hn, hf⟩
      intro d
      have := hc d
      have hws := count_filterMap_set widOf st.workers w .idle (.decoding b d0) hw d
      simp only [places, readerIds_eq, workerIds_eq, queueIds_eq, List.count_append, List.count_cons] at this ⊢
      simp only [widOf, Option.toList_some, Option.toList_none, List.count_nil, cnt1] at hws
      by_cases hd : d0 = d <;> simp [hd] at hws ⊢ <;> omega
    · cases h
  | stop =>
    simp only [step] at h
    split at h
    · cases h
    · cases h; exact ⟨hc, hn, hf⟩
  | sendSentinel =>
    simp only [step] at h
    split at h
    · cases h
      refine ⟨?_, hn, hf⟩
      intro d
      have := hc d
      have hq := count_filterMap_append_one qidOf st.queue .sentinel d
      simp only [places, readerIds_eq, workerIds_eq, queueIds_eq, List.count_append] at this ⊢
      simp only [qidOf, Option.toList_none, List.count_nil] at hq
      omega
    · cases h
  | sentinelTo w =>
    simp only [step] at h
    split at h
    · rename_i hw
      split at h
      · cases h
        refine ⟨?_, hn, hf⟩
        intro d
        have := hc d
        have hws := count_filterMap_set widOf st.workers w .exited .idle hw d
        simp only [places, readerIds_eq, workerIds_eq, queueIds_eq, List.count_append] at this ⊢
        simp only [widOf, Option.toList_none, List.count_nil] at hws
        omega
      · cases h
    · cases h

theorem inv_run (st : St) (sched : List Ev) (h : Inv st) : Inv (run st sched) := by
  induction sched generalizing st with
  | nil => exact h
  | cons e rest ih =>
    simp only [run]
    split
    · rename_i st' hs; exact ih st' (inv_step st st' e h hs)
    · exact ih st h

/-- **conservation**: after any schedule every datagram read is in exactly one place: never both
    decoded and dropped, never twice, never nowhere -/
theorem conservation (cfg : Cfg) (r w : Nat) (sched : List Ev) (d : Nat) :
    (places (run (init cfg r w) sched)).count d = (run (init cfg r w) sched).readIds.count d ∧
    (places (run (init cfg r w) sched)).count d ≤ 1 := by
  have := inv_run (init cfg r w) sched (inv_init cfg r w)
  exact ⟨this.1 d, by rw [this.1 d]; exact this.2.1 d⟩

/-- never both, never twice: a datagram is counted at most once over decoded ++ dropped -/
theorem decoded_dropped_disjoint (cfg : Cfg) (r w : Nat) (sched : List Ev) (d : Nat) :
    (run (init cfg r w) sched).decoded.count d + (run (init cfg r w) sched).dropped.count d ≤ 1 := by
  have := (conservation cfg r w sched d).2
  simp only [places, List.count_append] at this
  omega

/-- at quiescence (nothing in hands, queue empty, no decoder running) and with no Stop in between,
    reads = decoded ⊎ dropped -/
theorem quiescent_accounting (cfg : Cfg) (r w : Nat) (sched : List Ev) (d : Nat) (st : St)
    (hst : st = run (init cfg r w) sched) :
    readerIds st.readers = [] → queueIds st.queue = [] → workerIds st.workers = [] → st.lostAtStop = [] →
    st.readIds.count d = st.decoded.count d + st.dropped.count d := by
  subst hst
  intro h1 h2 h3 h4
  have := (conservation cfg r w sched d).1
  simp only [places, List.count_append, h1, h2, h3, h4, List.count_nil] at this
  omega

/-- in blocking mode nothing is ever dropped -/
theorem blocking_no_drop (cfg : Cfg) (r w : Nat) (sched : List Ev) (hb : cfg.blocking = true) :
    (run (init cfg r w) sched).dropped = [] := by
  have key : ∀ (st : St) (sched : List Ev), st.cfg.blocking = true → st.dropped = [] → (run st sched).dropped = [] := by
    intro st sched
    induction sched generalizing st with
    | nil => intro _ h; exact h
    | cons e rest ih =>
      intro hb hd
      simp only [run]
      split
      · rename_i st' hs
        have : st'.cfg.blocking = true ∧ st'.dropped = [] := by
          cases e <;> simp only [step] at hs <;> (repeat' split at hs) <;> (first | cases hs | skip) <;>
            (first | exact ⟨hb, hd⟩ | simp_all)
        exact ih st' this.1 this.2
      · exact ih st hb hd
  exact key _ sched hb rfl

/-- the synchronisation skeleton of the socket reader is the one the transition system was written
    for: pool.Get, read, [hook], blocking select without default / non-blocking select with default,
    Dropped callback, pool.Put (regenerated from utils/udp.go on every run) -/
theorem skeleton_matches :
    Goflow.Generated.skReceiveRoutine =
      ["packetPool.Get()", "udpconn.ReadFromUDP(pkt.payload)", "packetPool.Put(pkt)", "verifEvent(\"udp.read\", pkt.size)",
       "select{r.dispatch <- pkt | <-r.q}", "select{r.dispatch <- pkt | <-r.q | default}",
       "r.cb.Dropped(Message{ Src: pkt.src.AddrPort(), Dst: pkt.dst.AddrPort(), Payload: pkt.payload[0:pkt.size], Received: pkt.received, })",
       "packetPool.Put(pkt)"] ∧
    Goflow.Generated.skDecoders =
      ["r.wg.Add(1)", "go", "defer r.wg.Done()", "range r.dispatch", "decodeFunc(&msg)", "packetPool.Put(pkt)"] := by
  decide +kernel

/-! ### buffers -/

def rbufOf : RPc → Option Nat
  | .holding b _ => some b
  | _ => none
def wbufOf : WPc → Option Nat
  | .decoding b _ => some b
  | _ => none
def qbufOf : QItem → Option Nat
  | .pkt b _ => some b
  | .sentinel => none

private theorem readerBufs_eq (rs : List RPc) : readerBufs rs = rs.filterMap rbufOf := rfl
private theorem workerBufs_eq (ws : List WPc) : workerBufs ws = ws.filterMap wbufOf := rfl
private theorem queueBufs_eq (q : List QItem) : queueBufs q = q.filterMap qbufOf := rfl

/-- every buffer is in at most one place: the pool, a reader's hand, the queue, or a decoder call -/
def BufInv (st : St) : Prop :=
  (∀ b : Nat, (bufPlaces st).count b ≤ 1) ∧ (∀ b ∈ bufPlaces st, b < st.nextBuf)

theorem bufInv_init (cfg : Cfg) (r w : Nat) : BufInv (init cfg r w) := by
  have h1 : ∀ n, (List.replicate n RPc.idle).filterMap rbufOf = [] := by
    intro n; induction n <;> simp_all [List.replicate_succ, rbufOf]
  have h2 : ∀ n, (List.replicate n WPc.idle).filterMap wbufOf = [] := by
    intro n; induction n <;> simp_all [List.replicate_succ, wbufOf]
  constructor
  · intro b; simp [init, bufPlaces, readerBufs_eq, workerBufs_eq, queueBufs_eq, h1, h2]
  · intro b hb; simp [init, bufPlaces, readerBufs_eq, workerBufs_eq, queueBufs_eq, h1, h2] at hb

private theorem mem_of_count_pos {l : List Nat} {b : Nat} (h : 0 < l.count b) : b ∈ l := by
  exact List.count_pos_iff.mp h

theorem bufInv_step (st st' : St) (e : Ev) (hinv : BufInv st) (h : step st e = some st') : BufInv st' := by
  obtain ⟨hc, hf⟩ := hinv
  -- membership bound from a count bound: whatever has positive count afterwards had it before, or is the fresh buffer
  have bound : ∀ (st' : St), (∀ b : Nat, (bufPlaces st').count b ≤ (bufPlaces st).count b + (if b = st.nextBuf ∧ st'.nextBuf = st.nextBuf + 1 then 1 else 0)) →
      st.nextBuf ≤ st'.nextBuf → (∀ b : Nat, (bufPlaces st').count b ≤ 1) → BufInv st' := by
    intro st' hle hnb h1
    refine ⟨h1, ?_⟩
    intro b hb
    have hpos : 0 < (bufPlaces st').count b := List.count_pos_iff.mpr hb
    have := hle b
    by_cases hfresh : b = st.nextBuf ∧ st'.nextBuf = st.nextBuf + 1
    · omega
    · simp only [hfresh, if_false] at this
      have : 0 < (bufPlaces st).count b := by omega
      have := hf b (List.count_pos_iff.mp this)
      omega
  have freshB : (bufPlaces st).count st.nextBuf = 0 := by
    apply List.count_eq_zero_of_not_mem
    intro hm; exact Nat.lt_irrefl _ (hf _ hm)
  cases e with
  | read r =>
    simp only [step] at h
    split at h
    · rename_i hr
      split at h
      · cases h
      · split at h
        · rename_i b0 rest hp
          cases h
          have key : ∀ b : Nat, (bufPlaces { st with pool := rest, nextId := st.nextId + 1, readers := st.readers.set r (.holding b0 st.nextId), readIds := st.nextId :: st.readIds }).count b = (bufPlaces st).count b := by
            intro b
            have hs := count_filterMap_set rbufOf st.readers r (.holding b0 st.nextId) .idle hr b
            simp only [bufPlaces, readerBufs_eq, workerBufs_eq, queueBufs_eq, List.count_append, hp, List.count_cons]
            simp only [rbufOf, Option.toList_some, Option.toList_none, List.count_nil, cnt1] at hs
            by_cases hd : b0 = b <;> simp [hd] at hs ⊢ <;> omega
          exact bound _ (fun b => by rw [key b]; omega) (Nat.le_refl _) (fun b => by rw [key b]; exact hc b)
        · rename_i hp
          cases h
          have key : ∀ b : Nat, (bufPlaces { st with nextBuf := st.nextBuf + 1, nextId := st.nextId + 1, readers := st.readers.set r (.holding st.nextBuf st.nextId), readIds := st.nextId :: st.readIds }).count b = (bufPlaces st).count b + (if b = st.nextBuf then 1 else 0) := by
            intro b
            have hs := count_filterMap_set rbufOf st.readers r (.holding st.nextBuf st.nextId) .idle hr b
            simp only [bufPlaces, readerBufs_eq, workerBufs_eq, queueBufs_eq, List.count_append, hp, List.count_nil]
            simp only [rbufOf, Option.toList_some, Option.toList_none, List.count_nil, cnt1] at hs
            by_cases hd : st.nextBuf = b
            · subst hd; simp at hs ⊢; omega
            · have hd' : ¬ b = st.nextBuf := fun h => hd h.symm
              simp [hd, hd'] at hs ⊢; omega
          refine bound _ (fun b => by rw [key b]; by_cases hb : b = st.nextBuf <;> simp [hb]) (by simp) (fun b => ?_)
          rw [key b]
          by_cases hb : b = st.nextBuf
          · subst hb; simp [freshB]
          · simp [hb]; exact hc b
    · cases h
  | dispatch r =>
    simp only [step] at h
    split at h
    · rename_i b0 d0 hr
      split at h
      · cases h
        have key : ∀ b : Nat, (bufPlaces { st with readers := st.readers.set r .idle, queue := st.queue ++ [.pkt b0 d0] }).count b = (bufPlaces st).count b := by
          intro b
          have hs := count_filterMap_set rbufOf st.readers r .idle (.holding b0 d0) hr b
          have hq := count_filterMap_append_one qbufOf st.queue (.pkt b0 d0) b
          simp only [bufPlaces, readerBufs_eq, workerBufs_eq, queueBufs_eq, List.count_append]
          simp only [rbufOf, qbufOf, Option.toList_some, Option.toList_none, List.count_nil, cnt1] at hs hq
          omega
        exact bound _ (fun b => by rw [key b]; omega) (Nat.le_refl _) (fun b => by rw [key b]; exact hc b)
      · cases h
    · cases h
  | handoff r w =>
    simp only [step] at h
    split at h
    · rename_i b0 d0 hr hw
      split at h
      · cases h
        have key : ∀ b : Nat, (bufPlaces { st with readers := st.readers.set r .idle, workers := st.workers.set w (.decoding b0 d0), started := st.started ++ [d0] }).count b = (bufPlaces st).count b := by
          intro b
          have hs := count_filterMap_set rbufOf st.readers r .idle (.holding b0 d0) hr b
          have hws := count_filterMap_set wbufOf st.workers w (.decoding b0 d0) .idle hw b
          simp only [bufPlaces, readerBufs_eq, workerBufs_eq, queueBufs_eq, List.count_append]
          simp only [rbufOf, wbufOf, Option.toList_some, Option.toList_none, List.count_nil, cnt1] at hs hws
          omega
        exact bound _ (fun b => by rw [key b]; omega) (Nat.le_refl _) (fun b => by rw [key b]; exact hc b)
      · cases h
    · cases h
  | drop r =>
    simp only [step] at h
    split at h
    · rename_i b0 d0 hr
      split at h
      · cases h
        have key : ∀ b : Nat, (bufPlaces { st with readers := st.readers.set r .idle, dropped := d0 :: st.dropped, pool := b0 :: st.pool }).count b = (bufPlaces st).count b := by
          intro b
          have hs := count_filterMap_set rbufOf st.readers r .idle (.holding b0 d0) hr b
          simp only [bufPlaces, readerBufs_eq, workerBufs_eq, queueBufs_eq, List.count_append, List.count_cons]
          simp only [rbufOf, Option.toList_some, Option.toList_none, List.count_nil, cnt1] at hs
          by_cases hd : b0 = b <;> simp [hd] at hs ⊢ <;> omega
        exact bound _ (fun b => by rw [key b]; omega) (Nat.le_refl _) (fun b => by rw [key b]; exact hc b)
      · cases h
    · cases h
  | quit r =>
    simp only [step] at h
    split at h
    · cases h
    · split at h
      · rename_i hr
        cases h
        have key : ∀ b : Nat, (bufPlaces { st with readers := st.readers.set r .exited }).count b = (bufPlaces st).count b := by
          intro b
          have hs := count_filterMap_set rbufOf st.readers r .exited .idle hr b
          simp only [bufPlaces, readerBufs_eq, workerBufs_eq, queueBufs_eq, List.count_append]
          simp only [rbufOf, Option.toList_none, List.count_nil] at hs
          omega
        exact bound _ (fun b => by rw [key b]; omega) (Nat.le_refl _) (fun b => by rw [key b]; exact hc b)
      · rename_i b0 d0 hr
        cases h
        have key : ∀ b : Nat, (bufPlaces { st with readers := st.readers.set r .exited, lostAtStop := d0 :: st.lostAtStop }).count b ≤ (bufPlaces st).count b := by
          intro b
          have hs := count_filterMap_set rbufOf st.readers r .exited (.holding b0 d0) hr b
          simp only [bufPlaces, readerBufs_eq, workerBufs_eq, queueBufs_eq, List.count_append]
          simp only [rbufOf, Option.toList_some, Option.toList_none, List.count_nil, cnt1] at hs
          omega
        exact bound _ (fun b => by have := key b; omega) (Nat.le_refl _) (fun b => by have := key b; have := hc b; omega)
      · cases h
  | take w =>
    simp only [step] at h
    split at h
    · rename_i b0 d0 rest hw hq
      cases h
      have key : ∀ b : Nat, (bufPlaces { st with workers := st.workers.set w (.decoding b0 d0), queue := rest, started := st.started ++ [d0] }).count b = (bufPlaces st).count b := by
        intro b
        have hws := count_filterMap_set wbufOf st.workers w (.decoding b0 d0) .idle hw b
        have hqc := count_filterMap_cons qbufOf rest (.pkt b0 d0) b
        simp only [bufPlaces, readerBufs_eq, workerBufs_eq, queueBufs_eq, List.count_append, hq]
        simp only [wbufOf, qbufOf, Option.toList_some, Option.toList_none, List.count_nil, cnt1] at hws hqc
        omega
      exact bound _ (fun b => by rw [key b]; omega) (Nat.le_refl _) (fun b => by rw [key b]; exact hc b)
    · rename_i rest hw hq
      cases h
      have key : ∀ b : Nat, (bufPlaces { st with workers := st.workers.set w .exited, queue := rest, sentinelTaken := true }).count b = (bufPlaces st).count b := by
        intro b
        have hws := count_filterMap_set wbufOf st.workers w .exited .idle hw b
        have hqc := count_filterMap_cons qbufOf rest .sentinel b
        simp only [bufPlaces, readerBufs_eq, workerBufs_eq, queueBufs_eq, List.count_append, hq]
        simp only [wbufOf, qbufOf, Option.toList_none, List.count_nil] at hws hqc
        omega
      exact bound _ (fun b => by rw [key b]; omega) (Nat.le_refl _) (fun b => by rw [key b]; exact hc b)
    · cases h
  | finish w =>
    simp only [step] at h
    split at h
    · rename_i b0 d0 hw
      cases h
      have key : ∀ b : Nat, (bufPlaces { st with workers := st.workers.set w .idle, decoded := d0 :: st.decoded, pool := b0 :: st.pool }).count b = (bufPlaces st).count b := by
        intro b
        have hws := count_filterMap_set wbufOf st.workers w .idle (.decoding b0 d0) hw b
        simp only [bufPlaces, readerBufs_eq, workerBufs_eq, queueBufs_eq, List.count_append, List.count_cons]
        simp only [wbufOf, Option.toList_some, Option.toList_none, List.count_nil, cnt1] at hws
        by_cases hd : b0 = b <;> simp [hd] at hws ⊢ <;> omega
      exact bound _ (fun b => by rw [key b]; omega) (Nat.le_refl _) (fun b => by rw [key b]; exact hc b)
    · cases h
  | stop =>
    simp only [step] at h
    split at h
    · cases h
    · cases h; exact ⟨hc, hf⟩
  | sendSentinel =>
    simp only [step] at h
    split at h
    · cases h
      have key : ∀ b : Nat, (bufPlaces { st with toSend := st.toSend - 1, queue := st.queue ++ [.sentinel] }).count b = (bufPlaces st).count b := by
        intro b
        have hq := count_filterMap_append_one qbufOf st.queue .sentinel b
        simp only [bufPlaces, readerBufs_eq, workerBufs_eq, queueBufs_eq, List.count_append]
        simp only [qbufOf, Option.toList_none, List.count_nil] at hq
        omega
      exact bound _ (fun b => by rw [key b]; omega) (Nat.le_refl _) (fun b => by rw [key b]; exact hc b)
    · cases h
  | sentinelTo w =>
    simp only [step] at h
    split at h
    · rename_i hw
      split at h
      · cases h
        have key : ∀ b : Nat, (bufPlaces { st with toSend := st.toSend - 1, workers := st.workers.set w .exited, sentinelTaken := true }).count b = (bufPlaces st).count b := by
          intro b
          have hws := count_filterMap_set wbufOf st.workers w .exited .idle hw b
          simp only [bufPlaces, readerBufs_eq, workerBufs_eq, queueBufs_eq, List.count_append]
          simp only [wbufOf, Option.toList_none, List.count_nil] at hws
          omega
        exact bound _ (fun b => by rw [key b]; omega) (Nat.le_refl _) (fun b => by rw [key b]; exact hc b)
      · cases h
    · cases h

/-- **buffer exclusivity**: after any schedule no buffer is at once in the pool (or in another
    reader's hand, or queued) and under a running decoder call — a buffer is not reused for another
    datagram while its decoder call is still running -/
theorem buffer_exclusive (cfg : Cfg) (r w : Nat) (sched : List Ev) (b : Nat) :
    (bufPlaces (run (init cfg r w) sched)).count b ≤ 1 := by
  have key : ∀ (st : St) (sched : List Ev), BufInv st → BufInv (run st sched) := by
    intro st sched
    induction sched generalizing st with
    | nil => intro h; exact h
    | cons e rest ih =>
      intro h
      simp only [run]
      split
      · rename_i st' hs; exact ih st' (bufInv_step st st' e h hs)
      · exact ih st h
  exact (key _ sched (bufInv_init cfg r w)).1 b

/-- non-vacuity: a run with a reused buffer, a drop and a completed decode -/
example :
    let st := run (init ⟨false, 1⟩ 1 1) [.read 0, .dispatch 0, .read 0, .drop 0, .take 0, .finish 0, .read 0]
    st.decoded = [0] ∧ st.dropped = [1] ∧ st.readIds = [2, 1, 0] ∧ bufPlaces st = [1, 0] := by decide

end Goflow.C17
