import Goflow.Generated.NetflowT
import Goflow.Producer.Netflow
import Proofs.C08Trans
/-!
  C08 (translation tie, part 2) — the per-element conversion of NetFlow v9 / IPFIX records.
  `ConvertNetFlowDataSet` of producer/proto/producer_nf.go (with `addrReplaceCheck`, `allZeroes`, and `MapCustomNetFlow`
  of reflect.go) is regenerated into Lean on every run by extract/translate.go + translate3.go
  (Goflow/Generated/NetflowT.lean): the body of the loop over the fields of a record is
  `TF.ConvertNetFlowDataSet_loop1_body`, and every `case` of `switch df.Type` is a definition `TF.ConvertNetFlowDataSet_case_<id>`.

  * `case_<id>`: each translated case body is the model's `applyAction … <the Action of that id>`
  * `convertField_eq`: one iteration (value assertion, custom mapping, enterprise skip, the whole switch) is one step of
    the model's `convertFields`, for every element id and every version
  * `convertLoop_eq`, `convertNetFlowDataSet_eq`: the loop / the function is `convertFields` / `convertNetFlowDataSet`
  * `addrReplaceCheck_raw`, `addrReplaceCheck_eq_src/dst`, `allZeroes_eq`, `mapCustomNetFlow_eq`

  The model's `FlowMsg` keeps every column as an unbounded `Nat`; the Go message keeps them in uint32 / uint64. Where a
  case reads a column back (Etype through `&(flowMessage.Etype)`, MplsLabel when it grows, Bytes after ParsePacket) the
  statement carries the width fact as a hypothesis (`StepOK`); it holds for every message the Go code can hold.
-/
set_option linter.unusedSimpArgs false
namespace Goflow.C08Trans2
open Goflow Goflow.Producer Goflow.Generated Goflow.Go

theorem allZeroes_loop (v : Bytes) : ∀ (fuel rng : Nat), rng ≤ v.length → v.length - rng < fuel →
    TF.allZeroes_loop1 v v.length fuel rng =
      .ok (if (v.drop rng).all (· == 0) then .brk v.length else .ret false) := by
  intro fuel
  induction fuel with
  | zero => intro rng _ h; omega
  | succ fuel ih =>
    intro rng h1 h2
    rw [TF.allZeroes_loop1, TF.allZeroes_loop1_body]
    by_cases hr : rng < v.length
    · have hd : v.drop rng = v[rng] :: v.drop (rng + 1) := List.drop_eq_getElem_cons hr
      rw [hd]
      by_cases hz : v[rng] = 0
      · simp [hr, idx_getElem hr, hz, ih (rng + 1) (by omega) (by omega)]
      · simp [hr, idx_getElem hr, hz]
        exact ⟨v[rng], by rw [hd]; exact List.mem_cons_self, hz⟩
    · have : rng = v.length := by omega
      subst this
      simp

theorem allZeroes_eq (v : Bytes) : TF.allZeroes v = .ok (v.all (· == 0)) := by
  unfold TF.allZeroes
  simp only [allZeroes_loop v (v.length + 1) 0 (by omega) (by omega), List.drop_zero, ok_bind]
  by_cases h : v.all (· == 0) <;> simp [h, Go.Ctl.elim]

theorem addrReplaceCheck_raw (cur v : Bytes) (et : UInt32) (v6 : Bool) :
    TF.addrReplaceCheck cur v et v6 =
      .ok (if (cur.length = 0 ∧ v.length > 0) ∨ (cur.length ≠ 0 ∧ v.length > 0 ∧ !(v.all (· == 0)))
           then (v, if v6 then 0x86dd else 0x800) else (cur, et)) := by
  unfold TF.addrReplaceCheck
  by_cases h1 : cur.length = 0 <;> by_cases h2 : v.length > 0 <;> by_cases h3 : v.all (· == 0) <;> cases v6 <;>
    simp [h1, h2, h3, allZeroes_eq]

/-- addrReplaceCheck against the model's, on the two address columns it is applied to -/
theorem addrReplaceCheck_eq_src (m : FlowMsg) (v : Bytes) (v6 : Bool) :
    TF.addrReplaceCheck m.srcAddr v (UInt32.ofNat m.etype) v6 =
      .ok ((Producer.addrReplaceCheck m "SrcAddr" v v6).srcAddr, UInt32.ofNat (Producer.addrReplaceCheck m "SrcAddr" v v6).etype) := by
  rw [addrReplaceCheck_raw]
  simp only [Producer.addrReplaceCheck]
  have hg : (m.getBytes "SrcAddr").getD [] = m.srcAddr := rfl
  rw [hg]
  by_cases hc : (m.srcAddr.length = 0 ∧ v.length > 0) ∨ (m.srcAddr.length ≠ 0 ∧ v.length > 0 ∧ (!(v.all (· == 0))) = true)
  · cases v6 <;> simp only [hc, if_true] <;> rfl
  · simp only [hc, if_false]

theorem addrReplaceCheck_eq_dst (m : FlowMsg) (v : Bytes) (v6 : Bool) :
    TF.addrReplaceCheck m.dstAddr v (UInt32.ofNat m.etype) v6 =
      .ok ((Producer.addrReplaceCheck m "DstAddr" v v6).dstAddr, UInt32.ofNat (Producer.addrReplaceCheck m "DstAddr" v v6).etype) := by
  rw [addrReplaceCheck_raw]
  simp only [Producer.addrReplaceCheck]
  have hg : (m.getBytes "DstAddr").getD [] = m.dstAddr := rfl
  rw [hg]
  by_cases hc : (m.dstAddr.length = 0 ∧ v.length > 0) ∨ (m.dstAddr.length ≠ 0 ∧ v.length > 0 ∧ (!(v.all (· == 0))) = true)
  · cases v6 <;> simp only [hc, if_true] <;> rfl
  · simp only [hc, if_false]

/-- the model's data field behind a decoded `netflow.DataField` -/
def dfOf (df : TF.DataField) : Netflow.DataField := ⟨df.PenProvided, df.Type.toNat, df.Pen.toNat, df.Value⟩

/-- the custom-mapping step of the model's `convertFields` -/
def mapStep (mapper : Option (List NetflowMapEntry)) (df : Netflow.DataField) (v : Bytes) (m : FlowMsg) : Res FlowMsg :=
  match mapper with
  | none => .ok m
  | some es =>
    match lookupNetflow es df.penProvided df.pen df.type with
    | some f => mapCustom m v f
    | none => .ok m

theorem mapCustomNetFlow_eq (m : FlowMsg) (df : TF.DataField) (v : Bytes) (mp : Go.TemplateMapper) (hv : df.Value = some v) :
    TF.MapCustomNetFlow m df mp = mapStep mp (dfOf df) v m := by
  unfold TF.MapCustomNetFlow mapStep
  cases mp with
  | none => simp
  | some es =>
    simp only [Go.mapperMap, dfOf]
    cases h : lookupNetflow es df.PenProvided df.Pen.toNat df.Type.toNat with
    | none => simp
    | some f =>
      simp only [hv, Go.assertBytes, Go.MapCustom, ok_bind, if_true]
      cases mapCustom m v f <;> rfl

/-- one iteration of the model's `convertFields` -/
def modelStep (cfg : Option Config) (version baseTimeNs uptime : Nat) (df : Netflow.DataField) (m : FlowMsg) : Res FlowMsg :=
  match df.value with
  | none => .ok m
  | some v =>
    match mapStep (cfg.map fun c => if version = 10 then c.ipfix else c.v9) df v m with
    | .error e => .error e
    | .ok m1 =>
      if df.penProvided then .ok m1
      else
        match lookupAction version df.type with
        | none => .ok m1
        | some a => applyAction cfg baseTimeNs uptime m1 v a

/-- what an iteration of the translated loop hands to the next one, without the scratch variable `time` -/
def stepOut : Go.Ctl (FlowMsg × UInt64 × Nat) FlowMsg → Option (FlowMsg × Nat)
  | .next (m, _, r) => some (m, r)
  | _ => none

theorem dec32 (v : Bytes) (a : UInt32) :
    TN.DecodeUNumber v (.u32 a) = (decodeUNumber 32 v).map fun n => .u32 (UInt32.ofNat n) :=
  (Goflow.C08Trans.decodeUNumber_trans_eq v).2.2.1 a
theorem dec64 (v : Bytes) (a : UInt64) :
    TN.DecodeUNumber v (.u64 a) = (decodeUNumber 64 v).map fun n => .u64 (UInt64.ofNat n) :=
  (Goflow.C08Trans.decodeUNumber_trans_eq v).2.2.2.1 a
theorem dec16 (v : Bytes) (a : UInt16) :
    TN.DecodeUNumber v (.u16 a) = (decodeUNumber 16 v).map fun n => .u16 (UInt16.ofNat n) :=
  (Goflow.C08Trans.decodeUNumber_trans_eq v).2.1 a

theorem decodeUNumber_lt {bits : Nat} {v : Bytes} {x : Nat} (h : decodeUNumber bits v = .ok x) : x < 2 ^ bits := by
  unfold decodeUNumber at h
  split at h
  · cases h; exact Nat.mod_lt _ (Nat.two_pow_pos _)
  · cases h


-- `DecodeUNumber(v, &(flowMessage.X))` on a 32-bit / 64-bit column
set_option hygiene false in
macro "unum32" c:term : tactic => `(tactic| (
  have hc : colBits $c = 32 := rfl
  simp only [applyAction, hc, dec32]
  cases hd : decodeUNumber 32 v with
  | error e => simp only [Except.map, err_bind, Except.bind]
  | ok x =>
    have hx : x < 4294967296 := decodeUNumber_lt hd
    simp only [Except.map, ok_bind, stepOut, Go.Cell.getU32, UInt32.toNat_ofNat', Nat.mod_eq_of_lt hx, Nat.reducePow]
    rfl))

set_option hygiene false in
macro "unum64" c:term : tactic => `(tactic| (
  have hc : colBits $c = 64 := rfl
  simp only [applyAction, hc, dec64]
  cases hd : decodeUNumber 64 v with
  | error e => simp only [Except.map, err_bind, Except.bind]
  | ok x =>
    have hx : x < 18446744073709551616 := decodeUNumber_lt hd
    simp only [Except.map, ok_bind, stepOut, Go.Cell.getU64, UInt64.toNat_ofNat', Nat.mod_eq_of_lt hx, Nat.reducePow]
    rfl))

variable (cfg : Option Config) (bt up : Nat) (m : FlowMsg) (time : UInt64) (rng : Nat) (v : Bytes)

theorem case_138 : (TF.ConvertNetFlowDataSet_case_138 m time rng v).map stepOut =
    (applyAction cfg bt up m v (.unum "ObservationPointId")).map fun m' => some (m', rng + 1) := by
  unfold TF.ConvertNetFlowDataSet_case_138; unum32 "ObservationPointId"
theorem case_7 : (TF.ConvertNetFlowDataSet_case_7 m time rng v).map stepOut =
    (applyAction cfg bt up m v (.unum "SrcPort")).map fun m' => some (m', rng + 1) := by
  unfold TF.ConvertNetFlowDataSet_case_7; unum32 "SrcPort"
theorem case_11 : (TF.ConvertNetFlowDataSet_case_11 m time rng v).map stepOut =
    (applyAction cfg bt up m v (.unum "DstPort")).map fun m' => some (m', rng + 1) := by
  unfold TF.ConvertNetFlowDataSet_case_11; unum32 "DstPort"
theorem case_4 : (TF.ConvertNetFlowDataSet_case_4 m time rng v).map stepOut =
    (applyAction cfg bt up m v (.unum "Proto")).map fun m' => some (m', rng + 1) := by
  unfold TF.ConvertNetFlowDataSet_case_4; unum32 "Proto"
theorem case_16 : (TF.ConvertNetFlowDataSet_case_16 m time rng v).map stepOut =
    (applyAction cfg bt up m v (.unum "SrcAs")).map fun m' => some (m', rng + 1) := by
  unfold TF.ConvertNetFlowDataSet_case_16; unum32 "SrcAs"
theorem case_17 : (TF.ConvertNetFlowDataSet_case_17 m time rng v).map stepOut =
    (applyAction cfg bt up m v (.unum "DstAs")).map fun m' => some (m', rng + 1) := by
  unfold TF.ConvertNetFlowDataSet_case_17; unum32 "DstAs"
theorem case_10 : (TF.ConvertNetFlowDataSet_case_10 m time rng v).map stepOut =
    (applyAction cfg bt up m v (.unum "InIf")).map fun m' => some (m', rng + 1) := by
  unfold TF.ConvertNetFlowDataSet_case_10; unum32 "InIf"
theorem case_14 : (TF.ConvertNetFlowDataSet_case_14 m time rng v).map stepOut =
    (applyAction cfg bt up m v (.unum "OutIf")).map fun m' => some (m', rng + 1) := by
  unfold TF.ConvertNetFlowDataSet_case_14; unum32 "OutIf"
theorem case_89 : (TF.ConvertNetFlowDataSet_case_89 m time rng v).map stepOut =
    (applyAction cfg bt up m v (.unum "ForwardingStatus")).map fun m' => some (m', rng + 1) := by
  unfold TF.ConvertNetFlowDataSet_case_89; unum32 "ForwardingStatus"
theorem case_5 : (TF.ConvertNetFlowDataSet_case_5 m time rng v).map stepOut =
    (applyAction cfg bt up m v (.unum "IpTos")).map fun m' => some (m', rng + 1) := by
  unfold TF.ConvertNetFlowDataSet_case_5; unum32 "IpTos"
theorem case_6 : (TF.ConvertNetFlowDataSet_case_6 m time rng v).map stepOut =
    (applyAction cfg bt up m v (.unum "TcpFlags")).map fun m' => some (m', rng + 1) := by
  unfold TF.ConvertNetFlowDataSet_case_6; unum32 "TcpFlags"
theorem case_52 : (TF.ConvertNetFlowDataSet_case_52 m time rng v).map stepOut =
    (applyAction cfg bt up m v (.unum "IpTtl")).map fun m' => some (m', rng + 1) := by
  unfold TF.ConvertNetFlowDataSet_case_52; unum32 "IpTtl"
theorem case_9 : (TF.ConvertNetFlowDataSet_case_9 m time rng v).map stepOut =
    (applyAction cfg bt up m v (.unum "SrcNet")).map fun m' => some (m', rng + 1) := by
  unfold TF.ConvertNetFlowDataSet_case_9; unum32 "SrcNet"
theorem case_13 : (TF.ConvertNetFlowDataSet_case_13 m time rng v).map stepOut =
    (applyAction cfg bt up m v (.unum "DstNet")).map fun m' => some (m', rng + 1) := by
  unfold TF.ConvertNetFlowDataSet_case_13; unum32 "DstNet"
theorem case_29 : (TF.ConvertNetFlowDataSet_case_29 m time rng v).map stepOut =
    (applyAction cfg bt up m v (.unum "SrcNet")).map fun m' => some (m', rng + 1) := by
  unfold TF.ConvertNetFlowDataSet_case_29; unum32 "SrcNet"
theorem case_30 : (TF.ConvertNetFlowDataSet_case_30 m time rng v).map stepOut =
    (applyAction cfg bt up m v (.unum "DstNet")).map fun m' => some (m', rng + 1) := by
  unfold TF.ConvertNetFlowDataSet_case_30; unum32 "DstNet"
theorem case_176 : (TF.ConvertNetFlowDataSet_case_176 m time rng v).map stepOut =
    (applyAction cfg bt up m v (.unum "IcmpType")).map fun m' => some (m', rng + 1) := by
  unfold TF.ConvertNetFlowDataSet_case_176; unum32 "IcmpType"
theorem case_178 : (TF.ConvertNetFlowDataSet_case_178 m time rng v).map stepOut =
    (applyAction cfg bt up m v (.unum "IcmpType")).map fun m' => some (m', rng + 1) := by
  unfold TF.ConvertNetFlowDataSet_case_178; unum32 "IcmpType"
theorem case_177 : (TF.ConvertNetFlowDataSet_case_177 m time rng v).map stepOut =
    (applyAction cfg bt up m v (.unum "IcmpCode")).map fun m' => some (m', rng + 1) := by
  unfold TF.ConvertNetFlowDataSet_case_177; unum32 "IcmpCode"
theorem case_179 : (TF.ConvertNetFlowDataSet_case_179 m time rng v).map stepOut =
    (applyAction cfg bt up m v (.unum "IcmpCode")).map fun m' => some (m', rng + 1) := by
  unfold TF.ConvertNetFlowDataSet_case_179; unum32 "IcmpCode"
theorem case_59 : (TF.ConvertNetFlowDataSet_case_59 m time rng v).map stepOut =
    (applyAction cfg bt up m v (.unum "DstVlan")).map fun m' => some (m', rng + 1) := by
  unfold TF.ConvertNetFlowDataSet_case_59; unum32 "DstVlan"
theorem case_54 : (TF.ConvertNetFlowDataSet_case_54 m time rng v).map stepOut =
    (applyAction cfg bt up m v (.unum "FragmentId")).map fun m' => some (m', rng + 1) := by
  unfold TF.ConvertNetFlowDataSet_case_54; unum32 "FragmentId"
theorem case_31 : (TF.ConvertNetFlowDataSet_case_31 m time rng v).map stepOut =
    (applyAction cfg bt up m v (.unum "Ipv6FlowLabel")).map fun m' => some (m', rng + 1) := by
  unfold TF.ConvertNetFlowDataSet_case_31; unum32 "Ipv6FlowLabel"
theorem case_1 : (TF.ConvertNetFlowDataSet_case_1 m time rng v).map stepOut =
    (applyAction cfg bt up m v (.unum "Bytes")).map fun m' => some (m', rng + 1) := by
  unfold TF.ConvertNetFlowDataSet_case_1; unum64 "Bytes"
theorem case_2 : (TF.ConvertNetFlowDataSet_case_2 m time rng v).map stepOut =
    (applyAction cfg bt up m v (.unum "Packets")).map fun m' => some (m', rng + 1) := by
  unfold TF.ConvertNetFlowDataSet_case_2; unum64 "Packets"
theorem case_23 : (TF.ConvertNetFlowDataSet_case_23 m time rng v).map stepOut =
    (applyAction cfg bt up m v (.unum "Bytes")).map fun m' => some (m', rng + 1) := by
  unfold TF.ConvertNetFlowDataSet_case_23; unum64 "Bytes"
theorem case_24 : (TF.ConvertNetFlowDataSet_case_24 m time rng v).map stepOut =
    (applyAction cfg bt up m v (.unum "Packets")).map fun m' => some (m', rng + 1) := by
  unfold TF.ConvertNetFlowDataSet_case_24; unum64 "Packets"
theorem case_56 : (TF.ConvertNetFlowDataSet_case_56 m time rng v).map stepOut =
    (applyAction cfg bt up m v (.unum "SrcMac")).map fun m' => some (m', rng + 1) := by
  unfold TF.ConvertNetFlowDataSet_case_56; unum64 "SrcMac"
theorem case_80 : (TF.ConvertNetFlowDataSet_case_80 m time rng v).map stepOut =
    (applyAction cfg bt up m v (.unum "DstMac")).map fun m' => some (m', rng + 1) := by
  unfold TF.ConvertNetFlowDataSet_case_80; unum64 "DstMac"
theorem case_81 : (TF.ConvertNetFlowDataSet_case_81 m time rng v).map stepOut =
    (applyAction cfg bt up m v (.unum "SrcMac")).map fun m' => some (m', rng + 1) := by
  unfold TF.ConvertNetFlowDataSet_case_81; unum64 "SrcMac"
theorem case_57 : (TF.ConvertNetFlowDataSet_case_57 m time rng v).map stepOut =
    (applyAction cfg bt up m v (.unum "DstMac")).map fun m' => some (m', rng + 1) := by
  unfold TF.ConvertNetFlowDataSet_case_57; unum64 "DstMac"
theorem case_15 : (TF.ConvertNetFlowDataSet_case_15 m time rng v).map stepOut =
    (applyAction cfg bt up m v (.bytes "NextHop")).map fun m' => some (m', rng + 1) := by
  unfold TF.ConvertNetFlowDataSet_case_15; rfl
theorem case_18 : (TF.ConvertNetFlowDataSet_case_18 m time rng v).map stepOut =
    (applyAction cfg bt up m v (.bytes "BgpNextHop")).map fun m' => some (m', rng + 1) := by
  unfold TF.ConvertNetFlowDataSet_case_18; rfl
theorem case_62 : (TF.ConvertNetFlowDataSet_case_62 m time rng v).map stepOut =
    (applyAction cfg bt up m v (.bytes "NextHop")).map fun m' => some (m', rng + 1) := by
  unfold TF.ConvertNetFlowDataSet_case_62; rfl
theorem case_63 : (TF.ConvertNetFlowDataSet_case_63 m time rng v).map stepOut =
    (applyAction cfg bt up m v (.bytes "BgpNextHop")).map fun m' => some (m', rng + 1) := by
  unfold TF.ConvertNetFlowDataSet_case_63; rfl
theorem case_47 : (TF.ConvertNetFlowDataSet_case_47 m time rng v).map stepOut =
    (applyAction cfg bt up m v .mplsIp).map fun m' => some (m', rng + 1) := by
  unfold TF.ConvertNetFlowDataSet_case_47; rfl
theorem case_140 : (TF.ConvertNetFlowDataSet_case_140 m time rng v).map stepOut =
    (applyAction cfg bt up m v .mplsIp).map fun m' => some (m', rng + 1) := by
  unfold TF.ConvertNetFlowDataSet_case_140; rfl

theorem case_58 : (TF.ConvertNetFlowDataSet_case_58 m time rng v).map stepOut =
    (applyAction cfg bt up m v (.unum2 "VlanId" "SrcVlan")).map fun m' => some (m', rng + 1) := by
  unfold TF.ConvertNetFlowDataSet_case_58
  have hc1 : colBits "VlanId" = 32 := rfl
  have hc2 : colBits "SrcVlan" = 32 := rfl
  simp only [applyAction, hc1, hc2, dec32]
  cases hd : decodeUNumber 32 v with
  | error e => simp only [Except.map, err_bind, Except.bind]
  | ok x =>
    have hx : x < 4294967296 := decodeUNumber_lt hd
    simp only [Except.map, ok_bind, stepOut, Go.Cell.getU32, UInt32.toNat_ofNat', Nat.mod_eq_of_lt hx, Nat.reducePow]
    rfl

theorem case_60 : (TF.ConvertNetFlowDataSet_case_60 m time rng v).map stepOut =
    (applyAction cfg bt up m v .ipVersion).map fun m' => some (m', rng + 1) := by
  unfold TF.ConvertNetFlowDataSet_case_60
  cases v with
  | nil => simp [applyAction, stepOut, Except.map]
  | cons x xs =>
    by_cases h4 : x = 4
    · subst h4; simp [applyAction, stepOut, Except.map, Go.idx]
    · by_cases h6 : x = 6
      · subst h6; simp [applyAction, stepOut, Except.map, Go.idx]
      · simp [applyAction, stepOut, Except.map, Go.idx, h4, h6]

theorem addr_src (v6 : Bool) (he : m.etype < 4294967296) :
    (TF.addrReplaceCheck m.srcAddr v (UInt32.ofNat m.etype) v6 >>= fun t =>
      (Except.ok (Go.Ctl.next (({ ({ m with srcAddr := t.1 } : FlowMsg) with etype := (t.2 : UInt32).toNat } : FlowMsg), time, rng + 1)) :
        Res (Go.Ctl (FlowMsg × UInt64 × Nat) FlowMsg))).map stepOut =
      (applyAction cfg bt up m v (.addr "SrcAddr" v6)).map fun m' => some (m', rng + 1) := by
  rw [addrReplaceCheck_raw]
  simp only [applyAction, Producer.addrReplaceCheck, ok_bind, Except.map, stepOut]
  have hg : (m.getBytes "SrcAddr").getD [] = m.srcAddr := rfl
  rw [hg]
  by_cases hc : (m.srcAddr.length = 0 ∧ v.length > 0) ∨ (m.srcAddr.length ≠ 0 ∧ v.length > 0 ∧ (!(v.all (· == 0))) = true)
  · cases v6 <;> simp only [hc, if_true] <;> rfl
  · simp only [hc, if_false, UInt32.toNat_ofNat', Nat.reducePow, Nat.mod_eq_of_lt he]

theorem addr_dst (v6 : Bool) (he : m.etype < 4294967296) :
    (TF.addrReplaceCheck m.dstAddr v (UInt32.ofNat m.etype) v6 >>= fun t =>
      (Except.ok (Go.Ctl.next (({ ({ m with dstAddr := t.1 } : FlowMsg) with etype := (t.2 : UInt32).toNat } : FlowMsg), time, rng + 1)) :
        Res (Go.Ctl (FlowMsg × UInt64 × Nat) FlowMsg))).map stepOut =
      (applyAction cfg bt up m v (.addr "DstAddr" v6)).map fun m' => some (m', rng + 1) := by
  rw [addrReplaceCheck_raw]
  simp only [applyAction, Producer.addrReplaceCheck, ok_bind, Except.map, stepOut]
  have hg : (m.getBytes "DstAddr").getD [] = m.dstAddr := rfl
  rw [hg]
  by_cases hc : (m.dstAddr.length = 0 ∧ v.length > 0) ∨ (m.dstAddr.length ≠ 0 ∧ v.length > 0 ∧ (!(v.all (· == 0))) = true)
  · cases v6 <;> simp only [hc, if_true] <;> rfl
  · simp only [hc, if_false, UInt32.toNat_ofNat', Nat.reducePow, Nat.mod_eq_of_lt he]

theorem case_8 (he : m.etype < 4294967296) : (TF.ConvertNetFlowDataSet_case_8 m time rng v).map stepOut =
    (applyAction cfg bt up m v (.addr "SrcAddr" false)).map fun m' => some (m', rng + 1) := addr_src cfg bt up m time rng v false he
theorem case_27 (he : m.etype < 4294967296) : (TF.ConvertNetFlowDataSet_case_27 m time rng v).map stepOut =
    (applyAction cfg bt up m v (.addr "SrcAddr" true)).map fun m' => some (m', rng + 1) := addr_src cfg bt up m time rng v true he
theorem case_12 (he : m.etype < 4294967296) : (TF.ConvertNetFlowDataSet_case_12 m time rng v).map stepOut =
    (applyAction cfg bt up m v (.addr "DstAddr" false)).map fun m' => some (m', rng + 1) := addr_dst cfg bt up m time rng v false he
theorem case_28 (he : m.etype < 4294967296) : (TF.ConvertNetFlowDataSet_case_28 m time rng v).map stepOut =
    (applyAction cfg bt up m v (.addr "DstAddr" true)).map fun m' => some (m', rng + 1) := addr_dst cfg bt up m time rng v true he

theorem icmp_split (x : Nat) (hx : x < 65536) :
    (UInt32.ofNat (Go.shr16 (UInt16.ofNat x) 8).toNat).toNat = x / 256 ∧
    (UInt32.ofNat (UInt16.ofNat x &&& 255).toNat).toNat = x % 256 := by
  constructor
  · rw [UInt32.toNat_ofNat', shr16_toNat, UInt16.toNat_ofNat']; omega
  · rw [UInt32.toNat_ofNat', UInt16.toNat_and, UInt16.toNat_ofNat']
    have : (255 : UInt16).toNat = 255 := rfl
    rw [this, and_255]; omega

set_option hygiene false in
macro "icmp_tac" : tactic => `(tactic| (
  simp only [applyAction, dec16]
  cases hd : decodeUNumber 16 v with
  | error e => simp only [Except.map, err_bind, Except.bind]
  | ok x =>
    have hx : x < 65536 := decodeUNumber_lt hd
    obtain ⟨h1, h2⟩ := icmp_split x hx
    simp only [Except.map, ok_bind, stepOut, Go.Cell.getU16, h1, h2]))

theorem case_32 : (TF.ConvertNetFlowDataSet_case_32 m time rng v).map stepOut =
    (applyAction cfg bt up m v .icmpTypeCode).map fun m' => some (m', rng + 1) := by
  unfold TF.ConvertNetFlowDataSet_case_32; icmp_tac
theorem case_139 : (TF.ConvertNetFlowDataSet_case_139 m time rng v).map stepOut =
    (applyAction cfg bt up m v .icmpTypeCode).map fun m' => some (m', rng + 1) := by
  unfold TF.ConvertNetFlowDataSet_case_139; icmp_tac

theorem case_88 : (TF.ConvertNetFlowDataSet_case_88 m time rng v).map stepOut =
    (applyAction cfg bt up m v .fragOffset).map fun m' => some (m', rng + 1) := by
  unfold TF.ConvertNetFlowDataSet_case_88
  simp only [applyAction, dec32]
  cases hd : decodeUNumber 32 v with
  | error e => simp only [Except.map, err_bind, Except.bind]
  | ok x =>
    have hx : x < 4294967296 := decodeUNumber_lt hd
    simp only [Except.map, ok_bind, stepOut, Go.Cell.getU32, UInt32.toNat_ofNat', Nat.mod_eq_of_lt hx, Nat.reducePow]

theorem case_197 : (TF.ConvertNetFlowDataSet_case_197 m time rng v).map stepOut =
    (applyAction cfg bt up m v .ipFlags).map fun m' => some (m', rng + 1) := by
  unfold TF.ConvertNetFlowDataSet_case_197
  simp only [applyAction, dec32]
  cases hd : decodeUNumber 32 v with
  | error e => simp only [Except.map, err_bind, Except.bind]
  | ok x =>
    have hx : x < 4294967296 := decodeUNumber_lt hd
    simp only [Except.map, ok_bind, stepOut, Go.Cell.getU32, shr32_toNat, UInt32.toNat_ofNat', Nat.mod_eq_of_lt hx, Nat.reducePow]

theorem case_312 : (TF.ConvertNetFlowDataSet_case_312 m time rng v).map stepOut =
    (applyAction cfg bt up m v .frameSize).map fun m' => some (m', rng + 1) := by
  unfold TF.ConvertNetFlowDataSet_case_312
  simp only [applyAction, dec64]
  cases hd : decodeUNumber 64 v with
  | error e => simp only [Except.map, err_bind, Except.bind]
  | ok x =>
    have hx : x < 18446744073709551616 := decodeUNumber_lt hd
    simp only [Except.map, ok_bind, stepOut, Go.Cell.getU64, UInt64.toNat_ofNat', Nat.mod_eq_of_lt hx, Nat.reducePow]
    rfl

set_option hygiene false in
macro "time_tac" : tactic => `(tactic| (
  simp only [applyAction, dec64]
  cases hd : decodeUNumber 64 v with
  | error e => simp only [Except.map, err_bind, Except.bind]
  | ok x =>
    have hx : x < 18446744073709551616 := decodeUNumber_lt hd
    simp only [Except.map, ok_bind, stepOut, Go.Cell.getU64, UInt64.toNat_mul, UInt64.toNat_sub, UInt64.toNat_ofNat', Nat.mod_eq_of_lt hx, Nat.reducePow,
      U64, if_true, Bool.false_eq_true, if_false, Nat.mul_one, Nat.mod_eq_of_lt hx]
    first | done | rfl | (have hb := btw.toNat_lt; simp; omega)))

theorem case_150 : (TF.ConvertNetFlowDataSet_case_150 m time rng v).map stepOut =
    (applyAction cfg bt up m v (.ipfixTime true 1000000000)).map fun m' => some (m', rng + 1) := by
  unfold TF.ConvertNetFlowDataSet_case_150; time_tac
theorem case_152 : (TF.ConvertNetFlowDataSet_case_152 m time rng v).map stepOut =
    (applyAction cfg bt up m v (.ipfixTime true 1000000)).map fun m' => some (m', rng + 1) := by
  unfold TF.ConvertNetFlowDataSet_case_152; time_tac
theorem case_154 : (TF.ConvertNetFlowDataSet_case_154 m time rng v).map stepOut =
    (applyAction cfg bt up m v (.ipfixTime true 1000)).map fun m' => some (m', rng + 1) := by
  unfold TF.ConvertNetFlowDataSet_case_154; time_tac
theorem case_156 : (TF.ConvertNetFlowDataSet_case_156 m time rng v).map stepOut =
    (applyAction cfg bt up m v (.ipfixTime true 1)).map fun m' => some (m', rng + 1) := by
  unfold TF.ConvertNetFlowDataSet_case_156; time_tac
theorem case_151 : (TF.ConvertNetFlowDataSet_case_151 m time rng v).map stepOut =
    (applyAction cfg bt up m v (.ipfixTime false 1000000000)).map fun m' => some (m', rng + 1) := by
  unfold TF.ConvertNetFlowDataSet_case_151; time_tac
theorem case_153 : (TF.ConvertNetFlowDataSet_case_153 m time rng v).map stepOut =
    (applyAction cfg bt up m v (.ipfixTime false 1000000)).map fun m' => some (m', rng + 1) := by
  unfold TF.ConvertNetFlowDataSet_case_153; time_tac
theorem case_155 : (TF.ConvertNetFlowDataSet_case_155 m time rng v).map stepOut =
    (applyAction cfg bt up m v (.ipfixTime false 1000)).map fun m' => some (m', rng + 1) := by
  unfold TF.ConvertNetFlowDataSet_case_155; time_tac
theorem case_157 : (TF.ConvertNetFlowDataSet_case_157 m time rng v).map stepOut =
    (applyAction cfg bt up m v (.ipfixTime false 1)).map fun m' => some (m', rng + 1) := by
  unfold TF.ConvertNetFlowDataSet_case_157; time_tac
theorem case_158 (btw : UInt64) : (TF.ConvertNetFlowDataSet_case_158 m time btw rng v).map stepOut =
    (applyAction cfg btw.toNat up m v (.ipfixDelta true)).map fun m' => some (m', rng + 1) := by
  unfold TF.ConvertNetFlowDataSet_case_158; time_tac
theorem case_159 (btw : UInt64) : (TF.ConvertNetFlowDataSet_case_159 m time btw rng v).map stepOut =
    (applyAction cfg btw.toNat up m v (.ipfixDelta false)).map fun m' => some (m', rng + 1) := by
  unfold TF.ConvertNetFlowDataSet_case_159; time_tac

theorem sub_sub_mod (c a b : Nat) (hc : c < 18446744073709551616) (ha : a < 4294967296000000) (hb : b < 4294967296000000) :
    (18446744073709551616 - (18446744073709551616 - b + a) % 18446744073709551616 + c) % 18446744073709551616 =
      (c + 18446744073709551616 - (a + 18446744073709551616 - b) % 18446744073709551616) % 18446744073709551616 := by
  by_cases hab : b ≤ a
  · have i1 : (18446744073709551616 - b + a) % 18446744073709551616 = a - b := by omega
    have i2 : (a + 18446744073709551616 - b) % 18446744073709551616 = a - b := by omega
    rw [i1, i2]; omega
  · have i1 : (18446744073709551616 - b + a) % 18446744073709551616 = 18446744073709551616 - b + a := by omega
    have i2 : (a + 18446744073709551616 - b) % 18446744073709551616 = a + 18446744073709551616 - b := by omega
    rw [i1, i2]; omega

theorem v9_time (btw : UInt64) (up32 : UInt32) (x : Nat) (hx : x < 4294967296) :
    (btw - (UInt64.ofNat up32.toNat * 1000000 - UInt64.ofNat (UInt32.ofNat x).toNat * 1000000)).toNat =
      (btw.toNat + U64 - (up32.toNat * 1000000 + U64 - x * 1000000 % U64) % U64) % U64 := by
  have hb := btw.toNat_lt; have hu := up32.toNat_lt
  have ha : up32.toNat * 1000000 < 4294967296000000 := Nat.mul_lt_mul_of_pos_right (show up32.toNat < 4294967296 from hu) (by decide)
  have hb2 : x * 1000000 < 4294967296000000 := Nat.mul_lt_mul_of_pos_right hx (by decide)
  have e1 : up32.toNat % 18446744073709551616 = up32.toNat := Nat.mod_eq_of_lt (Nat.lt_trans hu (by decide))
  have e2 : x % 18446744073709551616 = x := Nat.mod_eq_of_lt (Nat.lt_trans hx (by decide))
  have e3 : UInt64.toNat 1000000 = 1000000 := rfl
  have e4 : up32.toNat * 1000000 % 18446744073709551616 = up32.toNat * 1000000 := Nat.mod_eq_of_lt (Nat.lt_trans ha (by decide))
  have e5 : x * 1000000 % 18446744073709551616 = x * 1000000 := Nat.mod_eq_of_lt (Nat.lt_trans hb2 (by decide))
  simp only [UInt64.toNat_sub, UInt64.toNat_mul, UInt64.toNat_ofNat', UInt32.toNat_ofNat', U64, Nat.reducePow,
    Nat.mod_eq_of_lt hx, e1, e2, e3, e4, e5]
  exact sub_sub_mod btw.toNat _ _ hb ha hb2

theorem case_22 (btw : UInt64) (up32 : UInt32) :
    (TF.ConvertNetFlowDataSet_case_22 m time btw rng v (UInt64.ofNat up32.toNat * 1000000)).map stepOut =
    (applyAction cfg btw.toNat up32.toNat m v .v9First).map fun m' => some (m', rng + 1) := by
  unfold TF.ConvertNetFlowDataSet_case_22
  simp only [applyAction, dec32]
  cases hd : decodeUNumber 32 v with
  | error e => simp only [Except.map, err_bind, Except.bind]
  | ok x =>
    have hx : x < 4294967296 := decodeUNumber_lt hd
    simp only [Except.map, ok_bind, stepOut, Go.Cell.getU32, v9_time btw up32 x hx]

theorem case_21 (btw : UInt64) (up32 : UInt32) :
    (TF.ConvertNetFlowDataSet_case_21 m time btw rng v (UInt64.ofNat up32.toNat * 1000000)).map stepOut =
    (applyAction cfg btw.toNat up32.toNat m v .v9Last).map fun m' => some (m', rng + 1) := by
  unfold TF.ConvertNetFlowDataSet_case_21
  simp only [applyAction, dec32]
  cases hd : decodeUNumber 32 v with
  | error e => simp only [Except.map, err_bind, Except.bind]
  | ok x =>
    have hx : x < 4294967296 := decodeUNumber_lt hd
    simp only [Except.map, ok_bind, stepOut, Go.Cell.getU32, v9_time btw up32 x hx]

theorem map_roundtrip (l : List Nat) (h : ∀ x ∈ l, x < 4294967296) : (l.map UInt32.ofNat).map UInt32.toNat = l := by
  induction l with
  | nil => rfl
  | cons a as ih =>
    have ha : a < 4294967296 := h a (List.mem_cons_self)
    simp only [List.map_cons, UInt32.toNat_ofNat', Nat.reducePow, Nat.mod_eq_of_lt ha]
    rw [ih (fun x hx => h x (List.mem_cons_of_mem _ hx))]

theorem case_70 : (TF.ConvertNetFlowDataSet_case_70 m time rng v).map stepOut =
    (applyAction cfg bt up m v (.mplsLabel 0)).map fun m' => some (m', rng + 1) := by
  unfold TF.ConvertNetFlowDataSet_case_70
  simp only [applyAction, dec32]
  cases hd : decodeUNumber 32 v with
  | error e => simp only [Except.map, err_bind, Except.bind]
  | ok x =>
    have hx : x < 4294967296 := decodeUNumber_lt hd
    simp only [Except.map, ok_bind, Go.Cell.getU32, shr32_toNat, UInt32.toNat_ofNat', Nat.mod_eq_of_lt hx, Nat.reducePow,
      List.length_map, Go.makeU32s, setAt]
    by_cases hl : m.mplsLabel.length < 1
    · have : m.mplsLabel = [] := List.eq_nil_of_length_eq_zero (by omega)
      simp [this, Go.setIdxNat, stepOut]
    · simp [hl, Go.setIdxNat, stepOut, show 0 < m.mplsLabel.length by omega]

theorem case_71 (hml : ∀ x ∈ m.mplsLabel, x < 4294967296) : (TF.ConvertNetFlowDataSet_case_71 m time rng v).map stepOut =
    (applyAction cfg bt up m v (.mplsLabel 1)).map fun m' => some (m', rng + 1) := by
  unfold TF.ConvertNetFlowDataSet_case_71
  simp only [applyAction, dec32]
  cases hd : decodeUNumber 32 v with
  | error e => simp only [Except.map, err_bind, Except.bind]
  | ok x =>
    have hx : x < 4294967296 := decodeUNumber_lt hd
    simp only [Except.map, ok_bind, Go.Cell.getU32, shr32_toNat, UInt32.toNat_ofNat', Nat.mod_eq_of_lt hx, Nat.reducePow,
      List.length_map, Go.makeU32s, setAt]
    by_cases hl : m.mplsLabel.length < 2
    · have hrt := map_roundtrip _ hml
      generalize m.mplsLabel = l at *
      match l, hl with
      | [], _ => simp [Go.setIdxNat, stepOut, Go.copyList]
      | [a], _ => simp [Go.setIdxNat, stepOut, Go.copyList] at hrt ⊢; simp [hrt]
    · simp [hl, Go.setIdxNat, stepOut, show 1 < m.mplsLabel.length by omega]

theorem case_72 (hml : ∀ x ∈ m.mplsLabel, x < 4294967296) : (TF.ConvertNetFlowDataSet_case_72 m time rng v).map stepOut =
    (applyAction cfg bt up m v (.mplsLabel 2)).map fun m' => some (m', rng + 1) := by
  unfold TF.ConvertNetFlowDataSet_case_72
  simp only [applyAction, dec32]
  cases hd : decodeUNumber 32 v with
  | error e => simp only [Except.map, err_bind, Except.bind]
  | ok x =>
    have hx : x < 4294967296 := decodeUNumber_lt hd
    simp only [Except.map, ok_bind, Go.Cell.getU32, shr32_toNat, UInt32.toNat_ofNat', Nat.mod_eq_of_lt hx, Nat.reducePow,
      List.length_map, Go.makeU32s, setAt]
    by_cases hl : m.mplsLabel.length < 3
    · have hrt := map_roundtrip _ hml
      generalize m.mplsLabel = l at *
      match l, hl with
      | [], _ => simp [Go.setIdxNat, stepOut, Go.copyList]
      | [a], _ => simp [Go.setIdxNat, stepOut, Go.copyList] at hrt ⊢; simp [hrt]
      | [a, b], _ => simp [Go.setIdxNat, stepOut, Go.copyList] at hrt ⊢; simp [hrt]
    · simp [hl, Go.setIdxNat, stepOut, show 2 < m.mplsLabel.length by omega]

theorem case_315 (hv : v.length < 18446744073709551616)
    (hb : ∀ c m1, cfg = some c → parsePacket c m v = .ok m1 → m1.bytes < 18446744073709551616) :
    (TF.ConvertNetFlowDataSet_case_315 m cfg time rng v).map stepOut =
    (applyAction cfg bt up m v .frameSection).map fun m' => some (m', rng + 1) := by
  unfold TF.ConvertNetFlowDataSet_case_315
  cases cfg with
  | none => simp [applyAction, Go.ParsePacket, Except.map]
  | some c =>
    simp only [applyAction, Go.ParsePacket]
    cases hp : parsePacket c m v with
    | error e => simp only [Except.map, err_bind, Except.bind]
    | ok m1 =>
      have hb1 := hb c m1 rfl hp
      have e1 : (UInt64.ofNat m1.bytes = 0) ↔ m1.bytes = 0 := by
        rw [← UInt64.toNat_inj, UInt64.toNat_ofNat', Nat.mod_eq_of_lt (by simpa using hb1)]; rfl
      by_cases h0 : m1.bytes = 0
      · simp [Except.map, stepOut, e1, h0, Nat.mod_eq_of_lt hv]
      · simp [Except.map, stepOut, e1, h0]

/-- the facts about the message the width-less `FlowMsg` of the model cannot express: they hold for every message the
    Go code can hold (`Etype` is a uint32, the labels are uint32s, `Bytes` is a uint64, a slice is shorter than 2^64) -/
def StepOK (cfg : Option Config) (v : Bytes) (m : FlowMsg) : Prop :=
  m.etype < 4294967296 ∧ (∀ x ∈ m.mplsLabel, x < 4294967296) ∧ v.length < 18446744073709551616 ∧
    ∀ c m1, cfg = some c → parsePacket c m v = .ok m1 → m1.bytes < 18446744073709551616

theorem lookupAction_none_of (ver id : Nat) (h9 : ver ≠ 9) (h10 : ver ≠ 10)
    (h0 : caseTable.find? (fun e => e.1 == 0 && e.2.1.contains id) = none) : lookupAction ver id = none := by
  unfold lookupAction
  rw [h0]
  have hver : ∀ e ∈ caseTable, e.1 = 0 ∨ e.1 = 9 ∨ e.1 = 10 := by decide
  have h2 : caseTable.find? (fun e => e.1 == ver && e.2.1.contains id) = none := by
    rw [List.find?_eq_none] at h0 ⊢
    intro e he
    rcases hver e he with h | h | h
    · have := h0 e he
      by_cases hv : ver = 0
      · subst hv; simpa [h] using this
      · simp [h, Ne.symm hv]
    · simp [h, Ne.symm h9]
    · simp [h, Ne.symm h10]
  rw [h2]


def outerIds : List UInt16 := [138, 1, 2, 23, 24, 7, 11, 4, 16, 17, 10, 14, 89, 5, 6, 52, 60, 8, 12, 9, 13, 27, 28, 29, 30, 15, 18, 62, 63, 32, 139, 176, 178, 177, 179, 56, 80, 81, 57, 58, 59, 54, 88, 197, 31, 70, 71, 72, 47, 140]
def v9Ids : List UInt16 := [22, 21]
def v10Ids : List UInt16 := [150, 152, 154, 156, 151, 153, 155, 157, 158, 159, 312, 315]

theorem caseTable_ids : ∀ e ∈ caseTable,
    (e.1 = 0 → ∀ i ∈ e.2.1, i ∈ outerIds.map UInt16.toNat) ∧ (e.1 = 9 → ∀ i ∈ e.2.1, i ∈ v9Ids.map UInt16.toNat) ∧
    (e.1 = 10 → ∀ i ∈ e.2.1, i ∈ v10Ids.map UInt16.toNat) ∧ (e.1 = 0 ∨ e.1 = 9 ∨ e.1 = 10) := by decide

theorem not_mem_toNat {l : List UInt16} {t : UInt16} (h : t ∉ l) : t.toNat ∉ l.map UInt16.toNat := by
  intro hm
  obtain ⟨a, ha, hat⟩ := List.mem_map.1 hm
  exact h (UInt16.toNat_inj.1 hat ▸ ha)

/-- an element id none of the cases lists (for its version) has no action -/
theorem lookupAction_none (ver : Nat) (t : UInt16) (h0 : t ∉ outerIds) (h9 : ver = 9 → t ∉ v9Ids) (h10 : ver = 10 → t ∉ v10Ids) :
    lookupAction ver t.toNat = none := by
  unfold lookupAction
  have h1 : caseTable.find? (fun e => e.1 == 0 && e.2.1.contains t.toNat) = none := by
    rw [List.find?_eq_none]
    intro e he
    obtain ⟨ho, _, _, _⟩ := caseTable_ids e he
    by_cases hz : e.1 = 0
    · have : t.toNat ∉ e.2.1 := fun hc => not_mem_toNat h0 (ho hz _ hc)
      simp [hz, this]
    · simp [hz]
  have h2 : caseTable.find? (fun e => e.1 == ver && e.2.1.contains t.toNat) = none := by
    rw [List.find?_eq_none]
    intro e he
    obtain ⟨ho, hn, ht, hv⟩ := caseTable_ids e he
    by_cases hev : e.1 = ver
    · have : t.toNat ∉ e.2.1 := by
        intro hc
        rcases hv with hz | hz | hz
        · exact not_mem_toNat h0 (ho hz _ hc)
        · exact not_mem_toNat (h9 (hev ▸ hz)) (hn hz _ hc)
        · exact not_mem_toNat (h10 (hev ▸ hz)) (ht hz _ hc)
      simp [hev, this]
    · simp [hev]
  rw [h1, h2]

/-- One iteration of the loop of ConvertNetFlowDataSet (the whole `switch df.Type`, the custom mapping, the
    enterprise skip) is one step of the model's `convertFields`, for every element id and every version. -/
theorem convertField_eq (version : UInt16) (uptime : UInt32) (record : List TF.DataField) (cfg : Option Config)
    (baseTimeNs time : UInt64) (m : FlowMsg) (rng : Nat) (df : TF.DataField) (hr : rng < record.length) (hdf : record[rng] = df)
    (hok : ∀ v m1, df.Value = some v →
      mapStep (cfg.map fun c => if version.toNat = 10 then c.ipfix else c.v9) (dfOf df) v m = .ok m1 → StepOK cfg v m1) :
    (TF.ConvertNetFlowDataSet_loop1_body version uptime record (cfg.map fun c => if version.toNat = 10 then c.ipfix else c.v9) cfg
        baseTimeNs record.length m time rng).map stepOut =
      (modelStep cfg version.toNat baseTimeNs.toNat uptime.toNat (dfOf df) m).map fun m' => some (m', rng + 1) := by
  unfold TF.ConvertNetFlowDataSet_loop1_body modelStep
  have hidx : Go.idxL record rng = .ok df := by simp [Go.idxL, hr, hdf]
  simp only [hr, decide_true, if_true, hidx, ok_bind]
  cases hv : df.Value with
  | none => simp [Go.anyIsBytes, Go.anyBytes, dfOf, hv, stepOut, Except.map]
  | some v =>
    have hok := hok v
    simp only [hv, true_implies, dfOf] at hok
    simp only [Go.anyIsBytes, Go.anyBytes, Option.isSome_some, Option.getD_some, Bool.not_true, Bool.false_eq_true, if_false,
      mapCustomNetFlow_eq _ _ v _ hv, dfOf, hv]
    cases hm : mapStep (cfg.map fun c => if version.toNat = 10 then c.ipfix else c.v9)
        ⟨df.PenProvided, df.Type.toNat, df.Pen.toNat, some v⟩ v m with
    | error e => simp only [Except.map, err_bind, Except.bind]
    | ok m1 =>
      simp only [ok_bind]
      by_cases hp : df.PenProvided = true
      · simp [hp, stepOut, Except.map]
      simp only [hp, if_false, Bool.false_eq_true]
      generalize df.Type = t
      by_cases h138 : t = 138
      · subst h138
        have hl : lookupAction version.toNat (UInt16.toNat 138) = some (.unum "ObservationPointId") := rfl
        simp (config := {decide := true}) only [if_true, if_false, hl]
        exact case_138 cfg baseTimeNs.toNat uptime.toNat m1 time rng v
      by_cases h1 : t = 1
      · subst h1
        have hl : lookupAction version.toNat (UInt16.toNat 1) = some (.unum "Bytes") := rfl
        simp (config := {decide := true}) only [if_true, if_false, hl]
        exact case_1 cfg baseTimeNs.toNat uptime.toNat m1 time rng v
      by_cases h2 : t = 2
      · subst h2
        have hl : lookupAction version.toNat (UInt16.toNat 2) = some (.unum "Packets") := rfl
        simp (config := {decide := true}) only [if_true, if_false, hl]
        exact case_2 cfg baseTimeNs.toNat uptime.toNat m1 time rng v
      by_cases h23 : t = 23
      · subst h23
        have hl : lookupAction version.toNat (UInt16.toNat 23) = some (.unum "Bytes") := rfl
        simp (config := {decide := true}) only [if_true, if_false, hl]
        exact case_23 cfg baseTimeNs.toNat uptime.toNat m1 time rng v
      by_cases h24 : t = 24
      · subst h24
        have hl : lookupAction version.toNat (UInt16.toNat 24) = some (.unum "Packets") := rfl
        simp (config := {decide := true}) only [if_true, if_false, hl]
        exact case_24 cfg baseTimeNs.toNat uptime.toNat m1 time rng v
      by_cases h7 : t = 7
      · subst h7
        have hl : lookupAction version.toNat (UInt16.toNat 7) = some (.unum "SrcPort") := rfl
        simp (config := {decide := true}) only [if_true, if_false, hl]
        exact case_7 cfg baseTimeNs.toNat uptime.toNat m1 time rng v
      by_cases h11 : t = 11
      · subst h11
        have hl : lookupAction version.toNat (UInt16.toNat 11) = some (.unum "DstPort") := rfl
        simp (config := {decide := true}) only [if_true, if_false, hl]
        exact case_11 cfg baseTimeNs.toNat uptime.toNat m1 time rng v
      by_cases h4 : t = 4
      · subst h4
        have hl : lookupAction version.toNat (UInt16.toNat 4) = some (.unum "Proto") := rfl
        simp (config := {decide := true}) only [if_true, if_false, hl]
        exact case_4 cfg baseTimeNs.toNat uptime.toNat m1 time rng v
      by_cases h16 : t = 16
      · subst h16
        have hl : lookupAction version.toNat (UInt16.toNat 16) = some (.unum "SrcAs") := rfl
        simp (config := {decide := true}) only [if_true, if_false, hl]
        exact case_16 cfg baseTimeNs.toNat uptime.toNat m1 time rng v
      by_cases h17 : t = 17
      · subst h17
        have hl : lookupAction version.toNat (UInt16.toNat 17) = some (.unum "DstAs") := rfl
        simp (config := {decide := true}) only [if_true, if_false, hl]
        exact case_17 cfg baseTimeNs.toNat uptime.toNat m1 time rng v
      by_cases h10 : t = 10
      · subst h10
        have hl : lookupAction version.toNat (UInt16.toNat 10) = some (.unum "InIf") := rfl
        simp (config := {decide := true}) only [if_true, if_false, hl]
        exact case_10 cfg baseTimeNs.toNat uptime.toNat m1 time rng v
      by_cases h14 : t = 14
      · subst h14
        have hl : lookupAction version.toNat (UInt16.toNat 14) = some (.unum "OutIf") := rfl
        simp (config := {decide := true}) only [if_true, if_false, hl]
        exact case_14 cfg baseTimeNs.toNat uptime.toNat m1 time rng v
      by_cases h89 : t = 89
      · subst h89
        have hl : lookupAction version.toNat (UInt16.toNat 89) = some (.unum "ForwardingStatus") := rfl
        simp (config := {decide := true}) only [if_true, if_false, hl]
        exact case_89 cfg baseTimeNs.toNat uptime.toNat m1 time rng v
      by_cases h5 : t = 5
      · subst h5
        have hl : lookupAction version.toNat (UInt16.toNat 5) = some (.unum "IpTos") := rfl
        simp (config := {decide := true}) only [if_true, if_false, hl]
        exact case_5 cfg baseTimeNs.toNat uptime.toNat m1 time rng v
      by_cases h6 : t = 6
      · subst h6
        have hl : lookupAction version.toNat (UInt16.toNat 6) = some (.unum "TcpFlags") := rfl
        simp (config := {decide := true}) only [if_true, if_false, hl]
        exact case_6 cfg baseTimeNs.toNat uptime.toNat m1 time rng v
      by_cases h52 : t = 52
      · subst h52
        have hl : lookupAction version.toNat (UInt16.toNat 52) = some (.unum "IpTtl") := rfl
        simp (config := {decide := true}) only [if_true, if_false, hl]
        exact case_52 cfg baseTimeNs.toNat uptime.toNat m1 time rng v
      by_cases h60 : t = 60
      · subst h60
        have hl : lookupAction version.toNat (UInt16.toNat 60) = some (.ipVersion) := rfl
        simp (config := {decide := true}) only [if_true, if_false, hl]
        exact case_60 cfg baseTimeNs.toNat uptime.toNat m1 time rng v
      by_cases h8 : t = 8
      · subst h8
        have hl : lookupAction version.toNat (UInt16.toNat 8) = some (.addr "SrcAddr" false) := rfl
        simp (config := {decide := true}) only [if_true, if_false, hl]
        exact case_8 cfg baseTimeNs.toNat uptime.toNat m1 time rng v (hok m1 hm).1
      by_cases h12 : t = 12
      · subst h12
        have hl : lookupAction version.toNat (UInt16.toNat 12) = some (.addr "DstAddr" false) := rfl
        simp (config := {decide := true}) only [if_true, if_false, hl]
        exact case_12 cfg baseTimeNs.toNat uptime.toNat m1 time rng v (hok m1 hm).1
      by_cases h9 : t = 9
      · subst h9
        have hl : lookupAction version.toNat (UInt16.toNat 9) = some (.unum "SrcNet") := rfl
        simp (config := {decide := true}) only [if_true, if_false, hl]
        exact case_9 cfg baseTimeNs.toNat uptime.toNat m1 time rng v
      by_cases h13 : t = 13
      · subst h13
        have hl : lookupAction version.toNat (UInt16.toNat 13) = some (.unum "DstNet") := rfl
        simp (config := {decide := true}) only [if_true, if_false, hl]
        exact case_13 cfg baseTimeNs.toNat uptime.toNat m1 time rng v
      by_cases h27 : t = 27
      · subst h27
        have hl : lookupAction version.toNat (UInt16.toNat 27) = some (.addr "SrcAddr" true) := rfl
        simp (config := {decide := true}) only [if_true, if_false, hl]
        exact case_27 cfg baseTimeNs.toNat uptime.toNat m1 time rng v (hok m1 hm).1
      by_cases h28 : t = 28
      · subst h28
        have hl : lookupAction version.toNat (UInt16.toNat 28) = some (.addr "DstAddr" true) := rfl
        simp (config := {decide := true}) only [if_true, if_false, hl]
        exact case_28 cfg baseTimeNs.toNat uptime.toNat m1 time rng v (hok m1 hm).1
      by_cases h29 : t = 29
      · subst h29
        have hl : lookupAction version.toNat (UInt16.toNat 29) = some (.unum "SrcNet") := rfl
        simp (config := {decide := true}) only [if_true, if_false, hl]
        exact case_29 cfg baseTimeNs.toNat uptime.toNat m1 time rng v
      by_cases h30 : t = 30
      · subst h30
        have hl : lookupAction version.toNat (UInt16.toNat 30) = some (.unum "DstNet") := rfl
        simp (config := {decide := true}) only [if_true, if_false, hl]
        exact case_30 cfg baseTimeNs.toNat uptime.toNat m1 time rng v
      by_cases h15 : t = 15
      · subst h15
        have hl : lookupAction version.toNat (UInt16.toNat 15) = some (.bytes "NextHop") := rfl
        simp (config := {decide := true}) only [if_true, if_false, hl]
        exact case_15 cfg baseTimeNs.toNat uptime.toNat m1 time rng v
      by_cases h18 : t = 18
      · subst h18
        have hl : lookupAction version.toNat (UInt16.toNat 18) = some (.bytes "BgpNextHop") := rfl
        simp (config := {decide := true}) only [if_true, if_false, hl]
        exact case_18 cfg baseTimeNs.toNat uptime.toNat m1 time rng v
      by_cases h62 : t = 62
      · subst h62
        have hl : lookupAction version.toNat (UInt16.toNat 62) = some (.bytes "NextHop") := rfl
        simp (config := {decide := true}) only [if_true, if_false, hl]
        exact case_62 cfg baseTimeNs.toNat uptime.toNat m1 time rng v
      by_cases h63 : t = 63
      · subst h63
        have hl : lookupAction version.toNat (UInt16.toNat 63) = some (.bytes "BgpNextHop") := rfl
        simp (config := {decide := true}) only [if_true, if_false, hl]
        exact case_63 cfg baseTimeNs.toNat uptime.toNat m1 time rng v
      by_cases h32 : t = 32
      · subst h32
        have hl : lookupAction version.toNat (UInt16.toNat 32) = some (.icmpTypeCode) := rfl
        simp (config := {decide := true}) only [if_true, if_false, hl]
        exact case_32 cfg baseTimeNs.toNat uptime.toNat m1 time rng v
      by_cases h139 : t = 139
      · subst h139
        have hl : lookupAction version.toNat (UInt16.toNat 139) = some (.icmpTypeCode) := rfl
        simp (config := {decide := true}) only [if_true, if_false, hl]
        exact case_139 cfg baseTimeNs.toNat uptime.toNat m1 time rng v
      by_cases h176 : t = 176
      · subst h176
        have hl : lookupAction version.toNat (UInt16.toNat 176) = some (.unum "IcmpType") := rfl
        simp (config := {decide := true}) only [if_true, if_false, hl]
        exact case_176 cfg baseTimeNs.toNat uptime.toNat m1 time rng v
      by_cases h178 : t = 178
      · subst h178
        have hl : lookupAction version.toNat (UInt16.toNat 178) = some (.unum "IcmpType") := rfl
        simp (config := {decide := true}) only [if_true, if_false, hl]
        exact case_178 cfg baseTimeNs.toNat uptime.toNat m1 time rng v
      by_cases h177 : t = 177
      · subst h177
        have hl : lookupAction version.toNat (UInt16.toNat 177) = some (.unum "IcmpCode") := rfl
        simp (config := {decide := true}) only [if_true, if_false, hl]
        exact case_177 cfg baseTimeNs.toNat uptime.toNat m1 time rng v
      by_cases h179 : t = 179
      · subst h179
        have hl : lookupAction version.toNat (UInt16.toNat 179) = some (.unum "IcmpCode") := rfl
        simp (config := {decide := true}) only [if_true, if_false, hl]
        exact case_179 cfg baseTimeNs.toNat uptime.toNat m1 time rng v
      by_cases h56 : t = 56
      · subst h56
        have hl : lookupAction version.toNat (UInt16.toNat 56) = some (.unum "SrcMac") := rfl
        simp (config := {decide := true}) only [if_true, if_false, hl]
        exact case_56 cfg baseTimeNs.toNat uptime.toNat m1 time rng v
      by_cases h80 : t = 80
      · subst h80
        have hl : lookupAction version.toNat (UInt16.toNat 80) = some (.unum "DstMac") := rfl
        simp (config := {decide := true}) only [if_true, if_false, hl]
        exact case_80 cfg baseTimeNs.toNat uptime.toNat m1 time rng v
      by_cases h81 : t = 81
      · subst h81
        have hl : lookupAction version.toNat (UInt16.toNat 81) = some (.unum "SrcMac") := rfl
        simp (config := {decide := true}) only [if_true, if_false, hl]
        exact case_81 cfg baseTimeNs.toNat uptime.toNat m1 time rng v
      by_cases h57 : t = 57
      · subst h57
        have hl : lookupAction version.toNat (UInt16.toNat 57) = some (.unum "DstMac") := rfl
        simp (config := {decide := true}) only [if_true, if_false, hl]
        exact case_57 cfg baseTimeNs.toNat uptime.toNat m1 time rng v
      by_cases h58 : t = 58
      · subst h58
        have hl : lookupAction version.toNat (UInt16.toNat 58) = some (.unum2 "VlanId" "SrcVlan") := rfl
        simp (config := {decide := true}) only [if_true, if_false, hl]
        exact case_58 cfg baseTimeNs.toNat uptime.toNat m1 time rng v
      by_cases h59 : t = 59
      · subst h59
        have hl : lookupAction version.toNat (UInt16.toNat 59) = some (.unum "DstVlan") := rfl
        simp (config := {decide := true}) only [if_true, if_false, hl]
        exact case_59 cfg baseTimeNs.toNat uptime.toNat m1 time rng v
      by_cases h54 : t = 54
      · subst h54
        have hl : lookupAction version.toNat (UInt16.toNat 54) = some (.unum "FragmentId") := rfl
        simp (config := {decide := true}) only [if_true, if_false, hl]
        exact case_54 cfg baseTimeNs.toNat uptime.toNat m1 time rng v
      by_cases h88 : t = 88
      · subst h88
        have hl : lookupAction version.toNat (UInt16.toNat 88) = some (.fragOffset) := rfl
        simp (config := {decide := true}) only [if_true, if_false, hl]
        exact case_88 cfg baseTimeNs.toNat uptime.toNat m1 time rng v
      by_cases h197 : t = 197
      · subst h197
        have hl : lookupAction version.toNat (UInt16.toNat 197) = some (.ipFlags) := rfl
        simp (config := {decide := true}) only [if_true, if_false, hl]
        exact case_197 cfg baseTimeNs.toNat uptime.toNat m1 time rng v
      by_cases h31 : t = 31
      · subst h31
        have hl : lookupAction version.toNat (UInt16.toNat 31) = some (.unum "Ipv6FlowLabel") := rfl
        simp (config := {decide := true}) only [if_true, if_false, hl]
        exact case_31 cfg baseTimeNs.toNat uptime.toNat m1 time rng v
      by_cases h70 : t = 70
      · subst h70
        have hl : lookupAction version.toNat (UInt16.toNat 70) = some (.mplsLabel 0) := rfl
        simp (config := {decide := true}) only [if_true, if_false, hl]
        exact case_70 cfg baseTimeNs.toNat uptime.toNat m1 time rng v
      by_cases h71 : t = 71
      · subst h71
        have hl : lookupAction version.toNat (UInt16.toNat 71) = some (.mplsLabel 1) := rfl
        simp (config := {decide := true}) only [if_true, if_false, hl]
        exact case_71 cfg baseTimeNs.toNat uptime.toNat m1 time rng v (hok m1 hm).2.1
      by_cases h72 : t = 72
      · subst h72
        have hl : lookupAction version.toNat (UInt16.toNat 72) = some (.mplsLabel 2) := rfl
        simp (config := {decide := true}) only [if_true, if_false, hl]
        exact case_72 cfg baseTimeNs.toNat uptime.toNat m1 time rng v (hok m1 hm).2.1
      by_cases h47 : t = 47
      · subst h47
        have hl : lookupAction version.toNat (UInt16.toNat 47) = some (.mplsIp) := rfl
        simp (config := {decide := true}) only [if_true, if_false, hl]
        exact case_47 cfg baseTimeNs.toNat uptime.toNat m1 time rng v
      by_cases h140 : t = 140
      · subst h140
        have hl : lookupAction version.toNat (UInt16.toNat 140) = some (.mplsIp) := rfl
        simp (config := {decide := true}) only [if_true, if_false, hl]
        exact case_140 cfg baseTimeNs.toNat uptime.toNat m1 time rng v
      have hout : t ∉ outerIds := by simp [outerIds, h138, h1, h2, h23, h24, h7, h11, h4, h16, h17, h10, h14, h89, h5, h6, h52, h60, h8, h12, h9, h13, h27, h28, h29, h30, h15, h18, h62, h63, h32, h139, h176, h178, h177, h179, h56, h80, h81, h57, h58, h59, h54, h88, h197, h31, h70, h71, h72, h47, h140]
      simp only [h138, h1, h2, h23, h24, h7, h11, h4, h16, h17, h10, h14, h89, h5, h6, h52, h60, h8, h12, h9, h13, h27, h28, h29, h30, h15, h18, h62, h63, h32, h139, h176, h178, h177, h179, h56, h80, h81, h57, h58, h59, h54, h88, h197, h31, h70, h71, h72, h47, h140, decide_false, if_false, Bool.false_eq_true]
      by_cases hv9 : version = 9
      · subst hv9
        simp only [decide_true, if_true]
        by_cases h22 : t = 22
        · subst h22
          have hl : lookupAction (UInt16.toNat 9) (UInt16.toNat 22) = some (.v9First) := rfl
          simp (config := {decide := true}) only [if_true, if_false, hl]
          exact case_22 cfg m1 time rng v baseTimeNs uptime
        by_cases h21 : t = 21
        · subst h21
          have hl : lookupAction (UInt16.toNat 9) (UInt16.toNat 21) = some (.v9Last) := rfl
          simp (config := {decide := true}) only [if_true, if_false, hl]
          exact case_21 cfg m1 time rng v baseTimeNs uptime
        have hl : lookupAction (UInt16.toNat 9) t.toNat = none :=
          lookupAction_none _ t hout (fun _ => by simp [v9Ids, h22, h21]) (fun h => by cases h)
        simp only [h22, h21, decide_false, if_false, Bool.false_eq_true, hl, Except.map, stepOut]
      by_cases hv10 : version = 10
      · subst hv10
        simp (config := {decide := true}) only [if_true, if_false]
        by_cases h150 : t = 150
        · subst h150
          have hl : lookupAction (UInt16.toNat 10) (UInt16.toNat 150) = some (.ipfixTime true 1000000000) := rfl
          simp (config := {decide := true}) only [if_true, if_false, hl]
          exact case_150 cfg baseTimeNs.toNat uptime.toNat m1 time rng v
        by_cases h152 : t = 152
        · subst h152
          have hl : lookupAction (UInt16.toNat 10) (UInt16.toNat 152) = some (.ipfixTime true 1000000) := rfl
          simp (config := {decide := true}) only [if_true, if_false, hl]
          exact case_152 cfg baseTimeNs.toNat uptime.toNat m1 time rng v
        by_cases h154 : t = 154
        · subst h154
          have hl : lookupAction (UInt16.toNat 10) (UInt16.toNat 154) = some (.ipfixTime true 1000) := rfl
          simp (config := {decide := true}) only [if_true, if_false, hl]
          exact case_154 cfg baseTimeNs.toNat uptime.toNat m1 time rng v
        by_cases h156 : t = 156
        · subst h156
          have hl : lookupAction (UInt16.toNat 10) (UInt16.toNat 156) = some (.ipfixTime true 1) := rfl
          simp (config := {decide := true}) only [if_true, if_false, hl]
          exact case_156 cfg baseTimeNs.toNat uptime.toNat m1 time rng v
        by_cases h151 : t = 151
        · subst h151
          have hl : lookupAction (UInt16.toNat 10) (UInt16.toNat 151) = some (.ipfixTime false 1000000000) := rfl
          simp (config := {decide := true}) only [if_true, if_false, hl]
          exact case_151 cfg baseTimeNs.toNat uptime.toNat m1 time rng v
        by_cases h153 : t = 153
        · subst h153
          have hl : lookupAction (UInt16.toNat 10) (UInt16.toNat 153) = some (.ipfixTime false 1000000) := rfl
          simp (config := {decide := true}) only [if_true, if_false, hl]
          exact case_153 cfg baseTimeNs.toNat uptime.toNat m1 time rng v
        by_cases h155 : t = 155
        · subst h155
          have hl : lookupAction (UInt16.toNat 10) (UInt16.toNat 155) = some (.ipfixTime false 1000) := rfl
          simp (config := {decide := true}) only [if_true, if_false, hl]
          exact case_155 cfg baseTimeNs.toNat uptime.toNat m1 time rng v
        by_cases h157 : t = 157
        · subst h157
          have hl : lookupAction (UInt16.toNat 10) (UInt16.toNat 157) = some (.ipfixTime false 1) := rfl
          simp (config := {decide := true}) only [if_true, if_false, hl]
          exact case_157 cfg baseTimeNs.toNat uptime.toNat m1 time rng v
        by_cases h158 : t = 158
        · subst h158
          have hl : lookupAction (UInt16.toNat 10) (UInt16.toNat 158) = some (.ipfixDelta true) := rfl
          simp (config := {decide := true}) only [if_true, if_false, hl]
          exact case_158 cfg uptime.toNat m1 time rng v baseTimeNs
        by_cases h159 : t = 159
        · subst h159
          have hl : lookupAction (UInt16.toNat 10) (UInt16.toNat 159) = some (.ipfixDelta false) := rfl
          simp (config := {decide := true}) only [if_true, if_false, hl]
          exact case_159 cfg uptime.toNat m1 time rng v baseTimeNs
        by_cases h312 : t = 312
        · subst h312
          have hl : lookupAction (UInt16.toNat 10) (UInt16.toNat 312) = some (.frameSize) := rfl
          simp (config := {decide := true}) only [if_true, if_false, hl]
          exact case_312 cfg baseTimeNs.toNat uptime.toNat m1 time rng v
        by_cases h315 : t = 315
        · subst h315
          have hl : lookupAction (UInt16.toNat 10) (UInt16.toNat 315) = some (.frameSection) := rfl
          simp (config := {decide := true}) only [if_true, if_false, hl]
          exact case_315 cfg baseTimeNs.toNat uptime.toNat m1 time rng v (hok m1 hm).2.2.1 (hok m1 hm).2.2.2
        have hl : lookupAction (UInt16.toNat 10) t.toNat = none :=
          lookupAction_none _ t hout (fun h => by cases h) (fun _ => by simp [v10Ids, h150, h152, h154, h156, h151, h153, h155, h157, h158, h159, h312, h315])
        simp only [h150, h152, h154, h156, h151, h153, h155, h157, h158, h159, h312, h315, decide_false, if_false, Bool.false_eq_true, hl, Except.map, stepOut]
      have hn9 : version.toNat ≠ 9 := fun h => hv9 (UInt16.toNat_inj.1 h)
      have hn10 : version.toNat ≠ 10 := fun h => hv10 (UInt16.toNat_inj.1 h)
      have hl : lookupAction version.toNat t.toNat = none :=
        lookupAction_none _ t hout (fun h => absurd h hn9) (fun h => absurd h hn10)
      simp only [hv9, hv10, decide_false, if_false, Bool.false_eq_true, hl, Except.map, stepOut]

/-! ### the loop and the whole function -/

theorem convertFields_cons (cfg : Option Config) (ver bt up : Nat) (df : Netflow.DataField) (rest : List Netflow.DataField) (m : FlowMsg) :
    convertFields cfg ver bt up (df :: rest) m =
      match modelStep cfg ver bt up df m with
      | .error e => .error e
      | .ok m' => convertFields cfg ver bt up rest m' := by
  cases cfg with
  | none =>
    rw [convertFields, modelStep]
    cases hv : df.value with
    | none => simp
    | some v =>
      have hl0 : lookupNetflow [] df.penProvided df.pen df.type = none := rfl
      simp only [mapStep, Option.map_none, hl0]
      by_cases hp : df.penProvided = true
      · simp [hp]
      · cases hl : lookupAction ver df.type with
        | none => simp [hp]
        | some a => simp [hp]; cases applyAction none bt up m v a <;> rfl
  | some c =>
    rw [convertFields, modelStep]
    cases hv : df.value with
    | none => simp
    | some v =>
      simp only [mapStep, Option.map_some]
      cases hm : lookupNetflow (if ver = 10 then c.ipfix else c.v9) df.penProvided df.pen df.type with
      | none =>
        by_cases hp : df.penProvided = true
        · simp [hp]
        · cases hl : lookupAction ver df.type with
          | none => simp [hp]
          | some a => simp [hp]; cases applyAction (some c) bt up m v a <;> rfl
      | some f =>
        cases hmc : mapCustom m v f with
        | error e => simp [hmc]
        | ok m1 =>
          by_cases hp : df.penProvided = true
          · simp [hp, hmc]
          · cases hl : lookupAction ver df.type with
            | none => simp [hp, hmc]
            | some a => simp [hp, hmc]; cases applyAction (some c) bt up m1 v a <;> rfl

/-- the message a loop exit carries -/
def loopOut : Go.Ctl (FlowMsg × UInt64 × Nat) FlowMsg → FlowMsg
  | .next c => c.1
  | .brk c => c.1
  | .ret m => m

theorem stepOut_some {c : Go.Ctl (FlowMsg × UInt64 × Nat) FlowMsg} {m' : FlowMsg} {r : Nat} (h : stepOut c = some (m', r)) :
    ∃ t', c = .next (m', t', r) := by
  cases c with
  | next a => obtain ⟨a1, a2, a3⟩ := a; simp [stepOut] at h; exact ⟨a2, by rw [h.1, h.2]⟩
  | brk a => simp [stepOut] at h
  | ret x => simp [stepOut] at h

/-- The loop of ConvertNetFlowDataSet over the record is the model's `convertFields`, given an invariant `Inv` of the
    message under which the width facts of `StepOK` hold (the model's `FlowMsg` has unbounded columns). -/
theorem convertLoop_eq (version : UInt16) (uptime : UInt32) (record : List TF.DataField) (cfg : Option Config) (baseTimeNs : UInt64)
    (Inv : FlowMsg → Prop)
    (hstep : ∀ m (i : Nat) (hi : i < record.length) v m1, Inv m → record[i].Value = some v →
      mapStep (cfg.map fun c => if version.toNat = 10 then c.ipfix else c.v9) (dfOf record[i]) v m = .ok m1 → StepOK cfg v m1)
    (hpres : ∀ m (i : Nat) (hi : i < record.length) m', Inv m →
      modelStep cfg version.toNat baseTimeNs.toNat uptime.toNat (dfOf record[i]) m = .ok m' → Inv m') :
    ∀ (fuel rng : Nat) (m : FlowMsg) (time : UInt64), Inv m → rng ≤ record.length → record.length - rng < fuel →
      (TF.ConvertNetFlowDataSet_loop1 version uptime record (cfg.map fun c => if version.toNat = 10 then c.ipfix else c.v9) cfg
          baseTimeNs record.length fuel m time rng).map loopOut =
        convertFields cfg version.toNat baseTimeNs.toNat uptime.toNat ((record.drop rng).map dfOf) m := by
  intro fuel
  induction fuel with
  | zero => intro rng m time _ _ h; omega
  | succ fuel ih =>
    intro rng m time hinv h1 h2
    rw [TF.ConvertNetFlowDataSet_loop1]
    by_cases hr : rng < record.length
    · have hd : record.drop rng = record[rng] :: record.drop (rng + 1) := List.drop_eq_getElem_cons hr
      have hs := convertField_eq version uptime record cfg baseTimeNs time m rng record[rng] hr rfl
        (fun v m1 hv hm => hstep m rng hr v m1 hinv hv hm)
      rw [hd, List.map_cons, convertFields_cons]
      cases hms : modelStep cfg version.toNat baseTimeNs.toNat uptime.toNat (dfOf record[rng]) m with
      | error e =>
        rw [hms] at hs
        cases hb : TF.ConvertNetFlowDataSet_loop1_body version uptime record (cfg.map fun c => if version.toNat = 10 then c.ipfix else c.v9) cfg
            baseTimeNs record.length m time rng with
        | error e' => rw [hb] at hs; simp [Except.map] at hs ⊢; exact hs
        | ok c => rw [hb] at hs; simp [Except.map] at hs
      | ok m' =>
        rw [hms] at hs
        cases hb : TF.ConvertNetFlowDataSet_loop1_body version uptime record (cfg.map fun c => if version.toNat = 10 then c.ipfix else c.v9) cfg
            baseTimeNs record.length m time rng with
        | error e' => rw [hb] at hs; simp [Except.map] at hs
        | ok c =>
          rw [hb] at hs
          simp only [Except.map, Except.ok.injEq] at hs
          obtain ⟨t', rfl⟩ := stepOut_some hs
          simp only [ok_bind]
          exact ih (rng + 1) m' t' (hpres m rng hr m' hinv hms) (by omega) (by omega)
    · have hrl : rng = record.length := by omega
      subst hrl
      have hb : TF.ConvertNetFlowDataSet_loop1_body version uptime record (cfg.map fun c => if version.toNat = 10 then c.ipfix else c.v9) cfg
          baseTimeNs record.length m time record.length = .ok (.brk (m, time, record.length)) := by
        unfold TF.ConvertNetFlowDataSet_loop1_body
        simp
      simp [hb, Except.map, loopOut, convertFields]

/-- ConvertNetFlowDataSet on a Reset() message is the model's `convertNetFlowDataSet` -/
theorem convertNetFlowDataSet_eq (version : UInt16) (baseTime uptime : UInt32) (record : List TF.DataField) (cfg : Option Config)
    (Inv : FlowMsg → Prop)
    (hinit : ∀ m : FlowMsg, m.etype = 0 → m.mplsLabel = [] → m.bytes = 0 → Inv m)
    (hstep : ∀ m (i : Nat) (hi : i < record.length) v m1, Inv m → record[i].Value = some v →
      mapStep (cfg.map fun c => if version.toNat = 10 then c.ipfix else c.v9) (dfOf record[i]) v m = .ok m1 → StepOK cfg v m1)
    (hpres : ∀ m (i : Nat) (hi : i < record.length) m', Inv m →
      modelStep cfg version.toNat (baseTime.toNat * 1000000000) uptime.toNat (dfOf record[i]) m = .ok m' → Inv m') :
    TF.ConvertNetFlowDataSet FlowMsg.empty version baseTime uptime record
        (cfg.map fun c => if version.toNat = 10 then c.ipfix else c.v9) cfg =
      convertNetFlowDataSet cfg version.toNat baseTime.toNat uptime.toNat (record.map dfOf) := by
  have hbt : (UInt64.ofNat baseTime.toNat * 1000000000).toNat = baseTime.toNat * 1000000000 := by
    have hb := baseTime.toNat_lt
    have h1 : baseTime.toNat * 1000000000 < 4294967296000000000 :=
      Nat.mul_lt_mul_of_pos_right (show baseTime.toNat < 4294967296 from hb) (by decide)
    rw [UInt64.toNat_mul, UInt64.toNat_ofNat', Nat.mod_eq_of_lt (Nat.lt_trans hb (by decide))]
    exact Nat.mod_eq_of_lt (Nat.lt_trans h1 (by decide))
  have hafter : ∀ r : Res (Go.Ctl (FlowMsg × UInt64 × Nat) FlowMsg),
      (r >>= fun t => Go.Ctl.elim t (fun x => (.ok x : Res FlowMsg)) fun c => .ok c.1) = r.map loopOut := by
    intro r
    cases r with
    | error e => rfl
    | ok c => cases c <;> rfl
  have key := fun m0 (h0 : Inv m0) => convertLoop_eq version uptime record cfg (UInt64.ofNat baseTime.toNat * 1000000000) Inv hstep
    (by rw [hbt]; exact hpres) (record.length + 1) 0 m0 0 h0 (by omega) (by omega)
  simp only [List.drop_zero, hbt] at key
  unfold TF.ConvertNetFlowDataSet convertNetFlowDataSet
  by_cases h9 : version = 9
  · subst h9
    simp only [decide_true, if_true, hafter, hbt]
    rw [key _ (hinit _ rfl rfl rfl)]
    rfl
  · by_cases h10 : version = 10
    · subst h10
      simp only [show decide ((10 : UInt16) = 9) = false from rfl, show decide ((10 : UInt16) = 10) = true from rfl,
        if_true, if_false, Bool.false_eq_true, hafter, hbt]
      rw [key _ (hinit _ rfl rfl rfl)]
      rfl
    · have hn9 : version.toNat ≠ 9 := fun h => h9 (UInt16.toNat_inj.1 h)
      have hn10 : version.toNat ≠ 10 := fun h => h10 (UInt16.toNat_inj.1 h)
      simp only [h9, h10, decide_false, if_false, Bool.false_eq_true, hafter, hbt]
      rw [key _ (hinit _ rfl rfl rfl)]
      simp only [hn9, hn10, if_false]
      rfl

end Goflow.C08Trans2
