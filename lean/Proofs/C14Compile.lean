import Goflow.Format.Formatter
import Proofs.Lemmas.Assoc
import Proofs.C14Map
/-!
  C14 — from the mapping file to the compiled mappers (`compile`, the model of mapConfig / mapFormat /
  finalize in config_impl.go).

  * `compile_eq`: `compile raw s = if Accepted raw then .ok ⟨cfgOf raw, fmtOf raw s⟩ else .error ()`, hence
    `compile_ok_iff`, `compile_accepts_iff`, `compile_rejects_iff`; `accepted_iff` spells `Accepted` out.
  * `lastPerKey` (the element statements left in the Go map: the last one per key), `mem_lastPerKey_iff`,
    `lastPerKey_of_distinct`, `lookupNetflow_lastPerKey`, `lookup_compiled`.
  * `compile_netflow_entries`: keys, offsets, lengths, encap flags pass through unchanged and in order; the
    destination is `destOf` (`destOf_declared`, `destOf_declared_type`, `destOf_column`, `destOf_other`, `destOf_little`).
  * `compile_formatter` with `reMapOf_lookup`, `reMapOf_isSome_iff`, `renderOf_lookup(_accepted)`, `renderKey_eq`,
    `numToPbOf_lookup`, `isSliceOf_lookup`, `isSliceAfter_eq`.
  * `file_lookup_last` (the LAST statement with a key wins), `file_element_mapping`, `file_element_mapping_record`,
    `file_enterprise_element`, `file_element_unmapped`, `file_layer_entries`.
  * `Example`: a concrete file, accepted by `decide`, its compiled form, rejected variants.
-/
namespace Goflow.C14Compile
open Goflow Goflow.Format Goflow.Producer

/-! ## generic facts about `for … in` loops in the `Except Unit` monad -/

/-- a loop that only checks: it succeeds iff every element passes -/
theorem forIn_check {α} (l : List α) (f : α → PUnit → Except Unit (ForInStep PUnit)) (ok : α → Bool)
    (h : ∀ a s, f a s = if ok a = true then .ok (.yield PUnit.unit) else .error ()) :
    forIn l PUnit.unit f = if l.all ok = true then .ok PUnit.unit else .error () := by
  induction l with
  | nil => rfl
  | cons a l ih =>
    rw [List.forIn_cons, h]
    by_cases ha : ok a = true
    · simp only [ha, if_true, List.all_cons, Bool.true_and]
      exact ih
    · simp only [ha, if_false, List.all_cons, Bool.false_eq_true, Bool.false_and]
      rfl

/-- a loop that never leaves early and never fails is a left fold -/
theorem forIn_fold {α σ} (l : List α) (f : α → σ → Except Unit (ForInStep σ)) (g : σ → α → σ) (init : σ)
    (h : ∀ a s, f a s = .ok (.yield (g s a))) :
    forIn l init f = .ok (l.foldl g init) := by
  induction l generalizing init with
  | nil => rfl
  | cons a l ih =>
    rw [List.forIn_cons, h]
    exact ih _

/-- a loop whose body updates the state or fails -/
theorem forIn_foldOk {α σ} (l : List α) (f : α → σ → Except Unit (ForInStep σ)) (ok : α → Bool) (g : σ → α → σ) (init : σ)
    (h : ∀ a s, f a s = if ok a = true then .ok (.yield (g s a)) else .error ()) :
    forIn l init f = if l.all ok = true then .ok (l.foldl g init) else .error () := by
  induction l generalizing init with
  | nil => rfl
  | cons a l ih =>
    rw [List.forIn_cons, h]
    by_cases ha : ok a = true
    · simp only [ha, if_true, List.all_cons, Bool.true_and, List.foldl_cons]
      exact ih _
    · simp only [ha, if_false, List.all_cons, Bool.false_eq_true, Bool.false_and]
      rfl


/-! ## the specification of `compile` -/

/-- a `sflow.ports` statement the loader accepts: a parser of the table, direction src / dst / both -/
def portOK (p : PortEntry) : Bool :=
  (parserByName p.parser).isSome && (p.dir == "src" || p.dir == "dst" || p.dir == "both")

/-- RegisterPort: `both` registers the parser under both directions -/
def portsOf (raw : RawConfig) : List PortEntry :=
  raw.ports.flatMap fun p => if p.dir = "both" then [{ p with dir := "src" }, { p with dir := "dst" }] else [p]

/-- reMap: documented column name ↦ Go field name, every declared protobuf name ↦ "" -/
def reMapOf (raw : RawConfig) : List (String × String) :=
  raw.protobuf.foldl (fun acc pb => assocSet acc pb.name "") defaultReMap

/-- numToPb: the last declaration per field number -/
def numToPbOf (raw : RawConfig) : List (Nat × PbField) :=
  raw.protobuf.foldl (fun acc pb => (pb.index, pb) :: acc.filter (fun e => e.1 != pb.index)) []

def isSliceOf (raw : RawConfig) (isSlice0 : List (String × Bool)) : List (String × Bool) :=
  raw.protobuf.foldl (fun acc pb => assocSet acc pb.name pb.array) isSlice0

/-- the name a `render` statement is filed under: the Go field name of a documented column, else the name as written -/
def renderKey (reMap : List (String × String)) (k : String) : String :=
  match reMap.lookup k with
  | some go => if go ≠ "" then go else k
  | none => k

/-- render: the default renderers, then the statements of the file in order (a later one replaces an earlier one) -/
def renderOf (raw : RawConfig) : List (String × String) :=
  raw.render.foldl (fun acc kv => assocSet acc (renderKey (reMapOf raw) kv.1) ((rendererFunc kv.2).getD "")) Goflow.Generated.defaultRenderers

/-- the last declaration of a protobuf field with this name -/
def declOf (raw : RawConfig) (dest : String) : Option PbField := raw.protobuf.reverse.find? (fun p => p.name == dest)

/-- a destination is legal unless it names a declared protobuf field whose type is none of varint / string / bytes -/
def destOK (raw : RawConfig) (dest : String) : Bool :=
  match declOf raw dest with
  | some p => (protoTypeOf p.type).isSome
  | none => true

def fieldOK (raw : RawConfig) (f : String) : Bool := ((reMapOf raw).lookup f).isSome || ((renderOf raw).lookup f).isSome

/-- the mapping files the loader accepts. Of the element statements only those left in the Go map
    (`lastPerKey`: the last statement per (penprovided, pen, field) key) have their destination checked;
    every layer statement has -/
def Accepted (raw : RawConfig) : Prop :=
  (∀ p ∈ raw.ports, portOK p = true) ∧
  (∀ k ∈ raw.key, ((reMapOf raw).lookup k).isSome = true) ∧
  (∀ kv ∈ raw.render, (rendererFunc kv.2).isSome = true) ∧
  (∀ f ∈ raw.fields, fieldOK raw f = true) ∧
  (∀ m ∈ lastPerKey raw.ipfix, destOK raw m.destination = true) ∧
  (∀ m ∈ lastPerKey raw.v9, destOK raw m.destination = true) ∧
  (∀ m ∈ raw.layers, destOK raw m.destination = true)

instance (raw : RawConfig) : Decidable (Accepted raw) := by unfold Accepted; infer_instance

/-- the compiled destination of a statement -/
def destOf (raw : RawConfig) (m : RawMap) : MapField :=
  let little := m.endian == "little"
  match declOf raw m.destination with
  | some p => ⟨m.destination, little, p.index, (protoTypeOf p.type).getD .none, p.array⟩
  | none =>
    match flowMessageColumns.find? (fun c => c.protoName == m.destination) with
    | some c => ⟨c.goName, little, 0, .none, false⟩
    | none => ⟨m.destination, little, 0, .none, false⟩

def fmtOf (raw : RawConfig) (isSlice0 : List (String × Bool)) : Fmt :=
  ⟨if raw.fields.isEmpty then defaultFields else raw.fields, raw.key, reMapOf raw, raw.rename, renderOf raw,
   numToPbOf raw, isSliceOf raw isSlice0⟩

def cfgOf (raw : RawConfig) : Config :=
  { ipfix := (lastPerKey raw.ipfix).map fun m => ⟨m.penProvided, m.pen, m.type, destOf raw m⟩,
    v9 := (lastPerKey raw.v9).map fun m => ⟨m.penProvided, m.pen, m.type, destOf raw m⟩,
    layers := raw.layers.map fun m => ⟨m.layer, m.encap, m.offset, m.length, destOf raw m⟩,
    ports := portsOf raw, present := true }

theorem ite_iff_congr {α} {p q : Prop} [Decidable p] [Decidable q] (h : p ↔ q) (a b : α) :
    (if p then a else b) = if q then a else b := by
  by_cases hp : p
  · rw [if_pos hp, if_pos (h.1 hp)]
  · rw [if_neg hp, if_neg (fun hq => hp (h.2 hq))]

theorem pure_bind' {α β : Type} (a : α) (f : α → Except Unit β) : (pure a >>= f) = f a := rfl
theorem ok_bind {α β} (a : α) (f : α → Except Unit β) : (Except.ok a >>= f) = f a := rfl
theorem error_bind {α β} (f : α → Except Unit β) : ((Except.error () : Except Unit α) >>= f) = .error () := rfl

theorem foldl_triple {α β γ δ} (l : List α) (f : β → α → β) (g : γ → α → γ) (h : δ → α → δ) (b : β) (c : γ) (d : δ) :
    l.foldl (fun s a => (f s.1 a, g s.2.1 a, h s.2.2 a)) (b, c, d) = (l.foldl f b, l.foldl g c, l.foldl h d) := by
  induction l generalizing b c d with
  | nil => rfl
  | cons a l ih => simp only [List.foldl_cons]; exact ih _ _ _

/-! ### reMap -/

theorem lookup_assocSet {β} (l : List (String × β)) (k k' : String) (v : β) :
    (assocSet l k v).lookup k' = if k' = k then some v else l.lookup k' := by
  unfold assocSet
  rw [lookup_cons_filter]
  by_cases h : k' = k <;> simp [h]

theorem lookup_foldl_assocSet {α β} (l : List α) (name : α → String) (val : α → β) (init : List (String × β)) (k : String) :
    (l.foldl (fun acc a => assocSet acc (name a) (val a)) init).lookup k =
      match l.reverse.find? (fun a => name a == k) with
      | some a => some (val a)
      | none => init.lookup k := by
  induction l generalizing init with
  | nil => rfl
  | cons a l ih =>
    rw [List.foldl_cons, ih, List.reverse_cons, List.find?_append]
    cases hf : l.reverse.find? (fun a => name a == k) with
    | some b => rfl
    | none =>
      simp only [Option.none_or, List.find?_cons, List.find?_nil]
      by_cases hk : name a = k
      · simp [hk, lookup_assocSet]
      · have : k ≠ name a := fun h => hk h.symm
        have hb : (name a == k) = false := by simpa using hk
        simp [hb, lookup_assocSet, this]

/-- reMap: a declared protobuf name maps to "", any other name to what the column table says -/
theorem reMapOf_lookup (raw : RawConfig) (k : String) :
    (reMapOf raw).lookup k = match declOf raw k with
      | some _ => some ""
      | none => defaultReMap.lookup k := by
  unfold reMapOf declOf
  rw [lookup_foldl_assocSet raw.protobuf (fun p => p.name) (fun _ => "")]
  cases raw.protobuf.reverse.find? (fun p => p.name == k) <;> rfl

theorem lookup_map_find {α β} (l : List α) (f : α → String) (g : α → β) (k : String) :
    (l.map fun c => (f c, g c)).lookup k = (l.find? (fun c => f c == k)).map g := by
  induction l with
  | nil => rfl
  | cons a l ih =>
    simp only [List.map_cons, List.lookup_cons, List.find?_cons]
    by_cases h : f a = k
    · simp [h]
    · have : (k == f a) = false := by simpa using fun h' => h h'.symm
      have hb : (f a == k) = false := by simpa using h
      simp [hb, this, ih]

theorem defaultReMap_lookup (k : String) :
    defaultReMap.lookup k = (flowMessageColumns.find? (fun c => c.protoName == k)).map (·.goName) :=
  lookup_map_find flowMessageColumns (·.protoName) (·.goName) k

theorem goName_ne_empty : ∀ c ∈ flowMessageColumns, c.goName ≠ "" := by decide

/-- finalizemapDest -/
theorem finalizeDest_eq (raw : RawConfig) (m : RawMap) :
    finalizeDest raw.protobuf (reMapOf raw) m.destination (m.endian == "little") =
      if destOK raw m.destination = true then .ok (destOf raw m) else .error () := by
  unfold finalizeDest destOK destOf
  rw [reMapOf_lookup, defaultReMap_lookup]
  unfold declOf
  cases hd : raw.protobuf.reverse.find? (fun p => p.name == m.destination) with
  | some p =>
    simp only
    cases protoTypeOf p.type <;> simp
  | none =>
    simp only
    cases hc : flowMessageColumns.find? (fun c => c.protoName == m.destination) with
    | none => simp
    | some c =>
      have := goName_ne_empty c (List.mem_of_find?_eq_some hc)
      simp [this]

theorem mapM_fin (raw : RawConfig) (ms : List RawMap) :
    ms.mapM (fun m => do
        let f ← finalizeDest raw.protobuf (reMapOf raw) m.destination (m.endian == "little")
        pure (m, f)) =
      if ms.all (fun m => destOK raw m.destination) = true then (.ok (ms.map fun m => (m, destOf raw m)) : Except Unit _)
      else .error () := by
  induction ms with
  | nil => rfl
  | cons m ms ih =>
    rw [List.mapM_cons, ih, finalizeDest_eq]
    by_cases h1 : destOK raw m.destination = true
    · by_cases h2 : ms.all (fun m => destOK raw m.destination) = true
      · simp only [h1, h2, if_true, List.all_cons, Bool.and_self]; rfl
      · simp only [h1, h2, if_true, List.all_cons, Bool.true_and]; rfl
    · simp only [h1, if_false, List.all_cons, Bool.false_eq_true, Bool.false_and]; rfl

set_option linter.unusedSimpArgs false in
/-- `compile` is: check the file, then build the mappers and the formatter from it -/
theorem compile_eq (raw : RawConfig) (isSlice0 : List (String × Bool)) :
    compile raw isSlice0 = if Accepted raw then .ok ⟨cfgOf raw, fmtOf raw isSlice0⟩ else .error () := by
  unfold compile
  rw [forIn_check raw.ports _ portOK (by
    intro a s
    cases hp : parserByName a.parser <;> by_cases h1 : a.dir = "src" <;> by_cases h2 : a.dir = "dst" <;>
      by_cases h3 : a.dir = "both" <;> simp [portOK, hp, h1, h2, h3, throw, throwThe, MonadExceptOf.throw, bind, Except.bind, pure, Except.pure])]
  dsimp only
  rw [forIn_fold raw.protobuf _ (fun (s : List (String × String) × List (Nat × PbField) × List (String × Bool)) pb =>
      (assocSet s.1 pb.name "", (pb.index, pb) :: s.2.1.filter (fun e => e.1 != pb.index), assocSet s.2.2 pb.name pb.array))
    _ (by intro a s; rfl)]
  rw [foldl_triple raw.protobuf (fun acc pb => assocSet acc pb.name "")
    (fun acc pb => (pb.index, pb) :: acc.filter (fun e => e.1 != pb.index)) (fun acc pb => assocSet acc pb.name pb.array)]
  change (_ >>= fun _ => (Except.ok (reMapOf raw, numToPbOf raw, isSliceOf raw isSlice0) >>= _)) = _
  rw [ok_bind]
  dsimp only
  rw [forIn_check raw.key _ (fun k => ((reMapOf raw).lookup k).isSome) (by
    intro a s
    cases (reMapOf raw).lookup a <;> rfl)]
  rw [forIn_foldOk raw.render _ (fun kv => (rendererFunc kv.2).isSome)
    (fun acc kv => assocSet acc (renderKey (reMapOf raw) kv.1) ((rendererFunc kv.2).getD "")) _ (by
    intro a s
    cases rendererFunc a.2 <;> rfl)]
  simp only [mapM_fin]
  by_cases h1 : raw.ports.all portOK = true
  case neg =>
    rw [if_neg h1, error_bind, if_neg]
    intro h; exact h1 (List.all_eq_true.2 h.1)
  rw [if_pos h1, ok_bind]
  by_cases h2 : (raw.key.all fun k => (List.lookup k (reMapOf raw)).isSome) = true
  case neg =>
    rw [if_neg h2, error_bind, if_neg]
    intro h; exact h2 (List.all_eq_true.2 h.2.1)
  rw [if_pos h2, ok_bind]
  by_cases h3 : (raw.render.all fun kv => (rendererFunc kv.snd).isSome) = true
  case neg =>
    rw [if_neg h3, error_bind, if_neg]
    intro h; exact h3 (List.all_eq_true.2 h.2.2.1)
  rw [if_pos h3, ok_bind]
  rw [forIn_check raw.fields _ (fieldOK raw) (by
    intro a s
    unfold fieldOK renderOf
    cases (reMapOf raw).lookup a <;>
      cases List.lookup a (List.foldl (fun acc kv => assocSet acc (renderKey (reMapOf raw) kv.fst) ((rendererFunc kv.snd).getD ""))
                Generated.defaultRenderers raw.render) <;> rfl)]
  have hacc : Accepted raw ↔ (raw.fields.all (fieldOK raw) = true ∧ ((lastPerKey raw.ipfix).all fun m => destOK raw m.destination) = true ∧
      ((lastPerKey raw.v9).all fun m => destOK raw m.destination) = true ∧ (raw.layers.all fun m => destOK raw m.destination) = true) := by
    unfold Accepted
    simp only [List.all_eq_true] at h1 h2 h3 ⊢
    exact ⟨fun h => h.2.2.2, fun h => ⟨h1, h2, h3, h⟩⟩
  rw [ite_iff_congr hacc]
  cases hfe : raw.fields.isEmpty
  · simp only [Bool.false_eq_true, if_false]
    by_cases hf : raw.fields.all (fieldOK raw) = true <;>
    by_cases h5 : ((lastPerKey raw.ipfix).all fun m => destOK raw m.destination) = true <;>
    by_cases h6 : ((lastPerKey raw.v9).all fun m => destOK raw m.destination) = true <;>
    by_cases h7 : (raw.layers.all fun m => destOK raw m.destination) = true <;>
    simp only [hf, h5, h6, h7, if_true, if_false, ok_bind, error_bind, pure_bind', and_self, and_true, and_false, false_and] <;>
    first
    | rfl
    | (simp [cfgOf, fmtOf, portsOf, renderOf, hfe, List.map_map, Function.comp_def, pure, Except.pure])
  · have hf : raw.fields.all (fieldOK raw) = true := by
      have : raw.fields = [] := by simpa using hfe
      rw [this]; rfl
    simp only [if_true]
    by_cases h5 : ((lastPerKey raw.ipfix).all fun m => destOK raw m.destination) = true <;>
    by_cases h6 : ((lastPerKey raw.v9).all fun m => destOK raw m.destination) = true <;>
    by_cases h7 : (raw.layers.all fun m => destOK raw m.destination) = true <;>
    simp only [hf, h5, h6, h7, if_true, if_false, ok_bind, error_bind, pure_bind', and_self, and_true, and_false, false_and] <;>
    first
    | rfl
    | (simp [cfgOf, fmtOf, portsOf, renderOf, hfe, List.map_map, Function.comp_def, pure, Except.pure])

/-! ## which files are accepted, and what they compile to -/

/-- **the loader accepts exactly the `Accepted` files**, and the result is determined by the file -/
theorem compile_ok_iff (raw : RawConfig) (isSlice0 : List (String × Bool)) (c : Compiled) :
    compile raw isSlice0 = .ok c ↔ Accepted raw ∧ c = ⟨cfgOf raw, fmtOf raw isSlice0⟩ := by
  rw [compile_eq]
  by_cases h : Accepted raw
  · rw [if_pos h]
    constructor
    · intro hc; exact ⟨h, (Except.ok.inj hc).symm⟩
    · intro hc; rw [hc.2]
  · rw [if_neg h]
    constructor
    · intro hc; cases hc
    · intro hc; exact absurd hc.1 h

theorem compile_accepts_iff (raw : RawConfig) (isSlice0 : List (String × Bool)) :
    (∃ c, compile raw isSlice0 = .ok c) ↔ Accepted raw := by
  constructor
  · rintro ⟨c, hc⟩; exact ((compile_ok_iff raw isSlice0 c).1 hc).1
  · intro h; exact ⟨_, (compile_ok_iff raw isSlice0 _).2 ⟨h, rfl⟩⟩

/-- a rejected file yields the error and nothing else -/
theorem compile_rejects_iff (raw : RawConfig) (isSlice0 : List (String × Bool)) :
    compile raw isSlice0 = .error () ↔ ¬ Accepted raw := by
  rw [compile_eq]
  by_cases h : Accepted raw
  · rw [if_pos h]; constructor
    · intro hc; cases hc
    · intro hc; exact absurd h hc
  · rw [if_neg h]; exact ⟨fun _ => h, fun _ => rfl⟩

/-- `Accepted` does not depend on the package-level slice map -/
theorem compile_accepts_indep (raw : RawConfig) (s s' : List (String × Bool)) :
    (∃ c, compile raw s = .ok c) ↔ (∃ c, compile raw s' = .ok c) := by
  rw [compile_accepts_iff, compile_accepts_iff]

/-- **the element and layer statements pass through the compilation unchanged and in file order**: the key
    (penProvided, pen, type) resp. (layer, encap, offset, length) as written, the destination as `destOf` says.
    Of several element statements with the same key only the last one is kept (`lastPerKey`, the Go map);
    `lookupNetflow_lastPerKey` / `lookup_compiled`: every lookup answers as on the complete list. -/
theorem compile_netflow_entries (raw : RawConfig) (isSlice0 : List (String × Bool)) (c : Compiled)
    (h : compile raw isSlice0 = .ok c) :
    c.cfg.ipfix = (lastPerKey raw.ipfix).map (fun m => ⟨m.penProvided, m.pen, m.type, destOf raw m⟩) ∧
    c.cfg.v9 = (lastPerKey raw.v9).map (fun m => ⟨m.penProvided, m.pen, m.type, destOf raw m⟩) ∧
    c.cfg.layers = raw.layers.map (fun m => ⟨m.layer, m.encap, m.offset, m.length, destOf raw m⟩) ∧
    c.cfg.ports = portsOf raw ∧ c.cfg.present = true := by
  rw [((compile_ok_iff raw isSlice0 c).1 h).2]
  exact ⟨rfl, rfl, rfl, rfl, rfl⟩

/-! ### the destination -/

/-- a declared protobuf field: the name as written, the configured endianness, and number / wire type / array
    flag of the LAST declaration with that name -/
theorem destOf_declared (raw : RawConfig) (m : RawMap) (p : PbField) (h : declOf raw m.destination = some p) :
    destOf raw m = ⟨m.destination, m.endian == "little", p.index, (protoTypeOf p.type).getD .none, p.array⟩ := by
  simp [destOf, h]

/-- in an accepted file the wire type is the one the declaration names: varint, or length-delimited for string / bytes -/
theorem destOf_declared_type (raw : RawConfig) (m : RawMap) (p : PbField) (h : declOf raw m.destination = some p)
    (hok : destOK raw m.destination = true) :
    (destOf raw m).protoType = (if p.type = "varint" then .varint else .string) ∧
      (p.type = "varint" ∨ p.type = "string" ∨ p.type = "bytes") := by
  rw [destOf_declared raw m p h]
  simp only [destOK, h] at hok
  unfold protoTypeOf at hok ⊢
  by_cases h1 : p.type = "string" ∨ p.type = "bytes"
  · have hv : p.type ≠ "varint" := by rcases h1 with h1 | h1 <;> (rw [h1]; decide)
    refine ⟨by simp [h1, hv], Or.inr h1⟩
  · by_cases h2 : p.type = "varint"
    · exact ⟨by simp [h2], Or.inl h2⟩
    · simp [h1, h2] at hok

/-- a documented column name (`in_if`, `sampling_rate`, …) that is not also a declared protobuf name: the Go column -/
theorem destOf_column (raw : RawConfig) (m : RawMap) (c : Column) (h : declOf raw m.destination = none)
    (hc : flowMessageColumns.find? (fun c => c.protoName == m.destination) = some c) :
    destOf raw m = ⟨c.goName, m.endian == "little", 0, .none, false⟩ := by
  simp [destOf, h, hc]

/-- anything else: the name itself (e.g. the Go name of a column, which MapCustom resolves by reflection) -/
theorem destOf_other (raw : RawConfig) (m : RawMap) (h : declOf raw m.destination = none)
    (hc : flowMessageColumns.find? (fun c => c.protoName == m.destination) = none) :
    destOf raw m = ⟨m.destination, m.endian == "little", 0, .none, false⟩ := by
  simp [destOf, h, hc]

/-- the endianness flag: little iff the file says exactly `little` -/
theorem destOf_little (raw : RawConfig) (m : RawMap) : (destOf raw m).little = (m.endian == "little") := by
  unfold destOf
  dsimp only
  split
  · rfl
  · split <;> rfl

/-- `declOf` finds a declaration iff the name is declared -/
theorem declOf_isSome_iff (raw : RawConfig) (k : String) : (declOf raw k).isSome = true ↔ k ∈ raw.protobuf.map (·.name) := by
  unfold declOf
  rw [List.find?_isSome]
  constructor
  · rintro ⟨p, hp, hk⟩
    exact List.mem_map.2 ⟨p, by simpa using hp, by simpa using hk⟩
  · intro h
    obtain ⟨p, hp, hk⟩ := List.mem_map.1 h
    exact ⟨p, by simpa using hp, by simpa using hk⟩

theorem declOf_name (raw : RawConfig) (k : String) (p : PbField) (h : declOf raw k = some p) : p.name = k ∧ p ∈ raw.protobuf := by
  unfold declOf at h
  have h1 := List.find?_some h
  have h2 := List.mem_of_find?_eq_some h
  exact ⟨by simpa using h1, by simpa using h2⟩

/-! ### the formatter -/

/-- the names the formatter knows: declared protobuf names and documented column names -/
theorem reMapOf_isSome_iff (raw : RawConfig) (k : String) :
    ((reMapOf raw).lookup k).isSome = true ↔ k ∈ raw.protobuf.map (·.name) ∨ k ∈ defaultFields := by
  rw [reMapOf_lookup, ← declOf_isSome_iff]
  cases hd : declOf raw k with
  | some p => simp
  | none =>
    simp only [Option.isSome_none, Bool.false_eq_true, false_or]
    rw [defaultReMap_lookup, Option.isSome_map, List.find?_isSome]
    unfold defaultFields
    simp only [List.mem_map, beq_iff_eq]

/-- generic: a Go map filled in a loop holds, per key, the value of the last assignment -/
theorem lookup_foldl_set {α κ β} [BEq κ] [LawfulBEq κ] (l : List α) (key : α → κ) (val : α → β) (init : List (κ × β)) (k : κ) :
    (l.foldl (fun acc a => (key a, val a) :: acc.filter (fun e => e.1 != key a)) init).lookup k =
      match l.reverse.find? (fun a => key a == k) with
      | some a => some (val a)
      | none => init.lookup k := by
  induction l generalizing init with
  | nil => rfl
  | cons a l ih =>
    rw [List.foldl_cons, ih, List.reverse_cons, List.find?_append]
    cases hf : l.reverse.find? (fun a => key a == k) with
    | some b => rfl
    | none =>
      simp only [Option.none_or, List.find?_cons, List.find?_nil]
      rw [lookup_cons_filter]
      by_cases hk : key a = k
      · simp [hk]
      · have : (k == key a) = false := by simpa using fun h => hk h.symm
        have hb : (key a == k) = false := by simpa using hk
        simp [hb, this]

/-- numToPb holds the last declaration per field number -/
theorem numToPbOf_lookup (raw : RawConfig) (n : Nat) :
    (numToPbOf raw).lookup n = raw.protobuf.reverse.find? (fun p => p.index == n) := by
  unfold numToPbOf
  rw [lookup_foldl_set raw.protobuf (fun p => p.index) (fun p => p) [] n]
  cases raw.protobuf.reverse.find? (fun p => p.index == n) <;> rfl

/-- the slice map: the array flag of the last declaration with the name, else what it held before -/
theorem isSliceOf_lookup (raw : RawConfig) (isSlice0 : List (String × Bool)) (k : String) :
    (isSliceOf raw isSlice0).lookup k = match declOf raw k with
      | some p => some p.array
      | none => isSlice0.lookup k := by
  unfold isSliceOf declOf
  rw [lookup_foldl_assocSet raw.protobuf (fun p => p.name) (fun p => p.array) isSlice0 k]
  cases raw.protobuf.reverse.find? (fun p => p.name == k) <;> rfl

/-- render: the last statement whose (resolved) key is the name, else the default renderer of the name -/
theorem renderOf_lookup (raw : RawConfig) (n : String) :
    (renderOf raw).lookup n =
      match raw.render.reverse.find? (fun kv => renderKey (reMapOf raw) kv.1 == n) with
      | some kv => some ((rendererFunc kv.2).getD "")
      | none => Goflow.Generated.defaultRenderers.lookup n := by
  unfold renderOf
  rw [lookup_foldl_assocSet raw.render (fun kv => renderKey (reMapOf raw) kv.1) (fun kv => (rendererFunc kv.2).getD "") _ n]
  cases raw.render.reverse.find? (fun kv => renderKey (reMapOf raw) kv.1 == n) <;> rfl

/-- … and in an accepted file that statement's renderer id is registered: the function is the registered one -/
theorem renderOf_lookup_accepted (raw : RawConfig) (h : Accepted raw) (n : String) :
    (renderOf raw).lookup n =
      match raw.render.reverse.find? (fun kv => renderKey (reMapOf raw) kv.1 == n) with
      | some kv => rendererFunc kv.2
      | none => Goflow.Generated.defaultRenderers.lookup n := by
  rw [renderOf_lookup]
  cases hf : raw.render.reverse.find? (fun kv => renderKey (reMapOf raw) kv.1 == n) with
  | none => rfl
  | some kv =>
    have hm : kv ∈ raw.render := by simpa using List.mem_of_find?_eq_some hf
    have := h.2.2.1 kv hm
    cases hr : rendererFunc kv.2 with
    | none => rw [hr] at this; cases this
    | some f => simp [hr]

/-- a render statement on a documented column name is filed under the Go field name; on a declared protobuf
    field or a virtual column under the name as written -/
theorem renderKey_eq (raw : RawConfig) (k : String) :
    renderKey (reMapOf raw) k =
      match declOf raw k with
      | some _ => k
      | none => match flowMessageColumns.find? (fun c => c.protoName == k) with
        | some c => c.goName
        | none => k := by
  unfold renderKey
  rw [reMapOf_lookup, defaultReMap_lookup]
  cases declOf raw k with
  | some p => simp
  | none =>
    simp only
    cases hc : flowMessageColumns.find? (fun c => c.protoName == k) with
    | none => rfl
    | some c =>
      have := goName_ne_empty c (List.mem_of_find?_eq_some hc)
      simp [this]

theorem isSliceAfter_eq (raw : RawConfig) (isSlice0 : List (String × Bool)) :
    isSliceAfter raw isSlice0 = if raw.ports.all portOK = true then isSliceOf raw isSlice0 else isSlice0 := by
  unfold isSliceAfter
  have : (raw.ports.any fun p => (parserByName p.parser).isNone || (p.dir != "src" && p.dir != "dst" && p.dir != "both")) =
      !(raw.ports.all portOK) := by
    rw [List.not_all_eq_any_not]
    congr 1
    funext p
    unfold portOK
    simp only [bne]
    cases parserByName p.parser <;> cases p.dir == "src" <;> cases p.dir == "dst" <;> cases p.dir == "both" <;> rfl
  rw [this]
  cases raw.ports.all portOK <;> rfl

/-- **the formatter of an accepted file**: field list (the documented columns when none is given), key fields and
    renames as written; render statements resolved through reMap; numToPb the last declaration per number; the
    slice map updated by every declaration -/
theorem compile_formatter (raw : RawConfig) (isSlice0 : List (String × Bool)) (c : Compiled)
    (h : compile raw isSlice0 = .ok c) :
    c.fmt.fields = (if raw.fields.isEmpty then defaultFields else raw.fields) ∧
    c.fmt.key = raw.key ∧ c.fmt.rename = raw.rename ∧
    c.fmt.reMap = reMapOf raw ∧ c.fmt.render = renderOf raw ∧ c.fmt.numToPb = numToPbOf raw ∧
    c.fmt.isSlice = isSliceAfter raw isSlice0 := by
  obtain ⟨hacc, rfl⟩ := (compile_ok_iff raw isSlice0 c).1 h
  refine ⟨rfl, rfl, rfl, rfl, rfl, rfl, ?_⟩
  rw [isSliceAfter_eq, if_pos (List.all_eq_true.2 hacc.1)]
  rfl

/-! ### `Accepted`, spelled out -/

theorem protoTypeOf_isSome_iff (t : String) : (protoTypeOf t).isSome = true ↔ t = "varint" ∨ t = "string" ∨ t = "bytes" := by
  constructor
  · intro h
    by_cases h1 : t = "string" ∨ t = "bytes"
    · exact Or.inr h1
    · by_cases h2 : t = "varint"
      · exact Or.inl h2
      · unfold protoTypeOf at h
        rw [if_neg h1, if_neg h2] at h
        cases h
  · rintro (h | h | h) <;> subst h <;> decide

/-- the accepted files in the words of the documentation: every registered port names a parser of the table and a
    direction src / dst / both; every key field is a declared protobuf field or a documented column; every
    renderer id is registered; every listed field is a declared protobuf field, a documented column or a name with
    a renderer (a virtual column such as `icmp_name`); every destination — of a layer statement, or of an element
    statement that no later statement with the same key replaces (`mem_lastPerKey_iff`) — that names a declared
    protobuf field finds its (last) declaration with type varint, string or bytes -/
theorem accepted_iff (raw : RawConfig) :
    Accepted raw ↔
      (∀ p ∈ raw.ports, (parserByName p.parser).isSome = true ∧ (p.dir = "src" ∨ p.dir = "dst" ∨ p.dir = "both")) ∧
      (∀ k ∈ raw.key, k ∈ raw.protobuf.map (·.name) ∨ k ∈ defaultFields) ∧
      (∀ kv ∈ raw.render, ∃ f, rendererFunc kv.2 = some f) ∧
      (∀ f ∈ raw.fields, f ∈ raw.protobuf.map (·.name) ∨ f ∈ defaultFields ∨ ((renderOf raw).lookup f).isSome = true) ∧
      (∀ m ∈ lastPerKey raw.ipfix ++ lastPerKey raw.v9 ++ raw.layers, ∀ p, declOf raw m.destination = some p →
        p.type = "varint" ∨ p.type = "string" ∨ p.type = "bytes") := by
  have hdest : ∀ (ms : List RawMap), (∀ m ∈ ms, destOK raw m.destination = true) ↔
      (∀ m ∈ ms, ∀ p, declOf raw m.destination = some p → p.type = "varint" ∨ p.type = "string" ∨ p.type = "bytes") := by
    intro ms
    constructor
    · intro h m hm p hp
      have := h m hm
      simp only [destOK, hp] at this
      exact (protoTypeOf_isSome_iff p.type).1 this
    · intro h m hm
      unfold destOK
      cases hd : declOf raw m.destination with
      | none => rfl
      | some p => exact (protoTypeOf_isSome_iff p.type).2 (h m hm p hd)
  unfold Accepted
  rw [hdest, hdest, hdest]
  constructor
  · rintro ⟨h1, h2, h3, h4, h5, h6, h7⟩
    refine ⟨?_, ?_, ?_, ?_, ?_⟩
    · intro p hp
      have := h1 p hp
      simp only [portOK, Bool.and_eq_true, Bool.or_eq_true, beq_iff_eq] at this
      exact ⟨this.1, by rcases this.2 with (h | h) | h <;> simp [h]⟩
    · intro k hk; exact (reMapOf_isSome_iff raw k).1 (h2 k hk)
    · intro kv hkv; exact Option.isSome_iff_exists.1 (h3 kv hkv)
    · intro f hf
      have := h4 f hf
      simp only [fieldOK, Bool.or_eq_true] at this
      rcases this with h | h
      · rcases (reMapOf_isSome_iff raw f).1 h with h | h
        · exact Or.inl h
        · exact Or.inr (Or.inl h)
      · exact Or.inr (Or.inr h)
    · intro m hm
      simp only [List.mem_append] at hm
      rcases hm with (hm | hm) | hm
      · exact h5 m hm
      · exact h6 m hm
      · exact h7 m hm
  · rintro ⟨h1, h2, h3, h4, h5⟩
    refine ⟨?_, ?_, ?_, ?_, ?_, ?_, ?_⟩
    · intro p hp
      obtain ⟨ha, hb⟩ := h1 p hp
      simp only [portOK, Bool.and_eq_true, Bool.or_eq_true, beq_iff_eq]
      exact ⟨ha, by rcases hb with h | h | h <;> simp [h]⟩
    · intro k hk; exact (reMapOf_isSome_iff raw k).2 (h2 k hk)
    · intro kv hkv; exact Option.isSome_iff_exists.2 (h3 kv hkv)
    · intro f hf
      simp only [fieldOK, Bool.or_eq_true]
      rcases h4 f hf with h | h | h
      · exact Or.inl ((reMapOf_isSome_iff raw f).2 (Or.inl h))
      · exact Or.inl ((reMapOf_isSome_iff raw f).2 (Or.inr h))
      · exact Or.inr h
    · intro m hm; exact h5 m (by simp [hm])
    · intro m hm; exact h5 m (by simp [hm])
    · intro m hm; exact h5 m (by simp [hm])

/-! ## end to end: from a statement of the file to the message -/

section EndToEnd
open Goflow.C14Map Goflow.Netflow

/-- the statement list of the protocol version: `ipfix.mapping` for version 10, `netflowv9.mapping` otherwise -/
def rawMapper (raw : RawConfig) (version : Nat) : List RawMap := if version = 10 then raw.ipfix else raw.v9

/-- a statement's key (penprovided, pen, field) is the data field's -/
def rawKeyMatch (df : DataField) (e : RawMap) : Bool :=
  e.penProvided == df.penProvided && e.pen == df.pen && e.type == df.type

def compileEntry (raw : RawConfig) (m : RawMap) : NetflowMapEntry := ⟨m.penProvided, m.pen, m.type, destOf raw m⟩

/-! ### `lastPerKey`: the statements left in the Go map -/

theorem lastPerKey_sublist (ms : List RawMap) : (lastPerKey ms).Sublist ms := by
  induction ms with
  | nil => exact List.Sublist.slnil
  | cons m ms ih =>
    unfold lastPerKey
    split
    · exact ih.cons m
    · exact ih.cons_cons m

theorem lastPerKey_subset (ms : List RawMap) (m : RawMap) (h : m ∈ lastPerKey ms) : m ∈ ms :=
  (lastPerKey_sublist ms).subset h

/-- a statement survives iff no later statement of the list has its key -/
theorem mem_lastPerKey_iff (ms : List RawMap) (m : RawMap) :
    m ∈ lastPerKey ms ↔ ∃ a b, ms = a ++ m :: b ∧ ∀ x ∈ b, sameKey m x = false := by
  induction ms with
  | nil => simp [lastPerKey]
  | cons x xs ih =>
    unfold lastPerKey
    by_cases hx : xs.any (sameKey x) = true
    · rw [if_pos hx, ih]
      constructor
      · rintro ⟨a, b, rfl, hb⟩; exact ⟨x :: a, b, rfl, hb⟩
      · rintro ⟨a, b, hab, hb⟩
        cases a with
        | nil =>
          simp only [List.nil_append, List.cons.injEq] at hab
          obtain ⟨rfl, rfl⟩ := hab
          obtain ⟨y, hy, hxy⟩ := List.any_eq_true.1 hx
          rw [hb y hy] at hxy; cases hxy
        | cons a0 a =>
          simp only [List.cons_append, List.cons.injEq] at hab
          exact ⟨a, b, hab.2, hb⟩
    · rw [if_neg hx, List.mem_cons, ih]
      constructor
      · rintro (rfl | ⟨a, b, rfl, hb⟩)
        · refine ⟨[], xs, rfl, ?_⟩
          intro y hy
          cases hxy : sameKey m y with
          | false => rfl
          | true => exact absurd (List.any_eq_true.2 ⟨y, hy, hxy⟩) hx
        · exact ⟨x :: a, b, rfl, hb⟩
      · rintro ⟨a, b, hab, hb⟩
        cases a with
        | nil =>
          simp only [List.nil_append, List.cons.injEq] at hab
          exact Or.inl hab.1.symm
        | cons a0 a =>
          simp only [List.cons_append, List.cons.injEq] at hab
          exact Or.inr ⟨a, b, hab.2, hb⟩

/-- a list without repeated keys is left as it is -/
theorem lastPerKey_of_distinct (ms : List RawMap) (h : ms.Pairwise (fun a b => sameKey a b = false)) : lastPerKey ms = ms := by
  induction ms with
  | nil => rfl
  | cons m ms ih =>
    obtain ⟨h1, h2⟩ := List.pairwise_cons.1 h
    unfold lastPerKey
    have : ms.any (sameKey m) = false := by
      rw [List.any_eq_false]; intro x hx; simp [h1 x hx]
    rw [this, ih h2]; rfl

/-- the key of a data field, on statements -/
def rawKey (pp : Bool) (pen type : Nat) (e : RawMap) : Bool := e.penProvided == pp && e.pen == pen && e.type == type

theorem rawKey_of_sameKey {pp : Bool} {pen type : Nat} {a b : RawMap} (h : sameKey a b = true) :
    rawKey pp pen type a = rawKey pp pen type b := by
  simp only [sameKey, Bool.and_eq_true, beq_iff_eq] at h
  obtain ⟨⟨h1, h2⟩, h3⟩ := h
  simp [rawKey, h1, h2, h3]

/-- of the statements with a given key, the last one is the same before and after the Go map dropped the
    replaced ones -/
theorem filter_lastPerKey_getLast? (ms : List RawMap) (pp : Bool) (pen type : Nat) :
    ((lastPerKey ms).filter (rawKey pp pen type)).getLast? = (ms.filter (rawKey pp pen type)).getLast? := by
  induction ms with
  | nil => rfl
  | cons m ms ih =>
    unfold lastPerKey
    by_cases hx : ms.any (sameKey m) = true
    · rw [if_pos hx, ih, List.filter_cons]
      by_cases hm : rawKey pp pen type m = true
      · rw [if_pos hm]
        obtain ⟨y, hy, hxy⟩ := List.any_eq_true.1 hx
        have hyk : rawKey pp pen type y = true := by rw [← rawKey_of_sameKey hxy]; exact hm
        have hmem : y ∈ ms.filter (rawKey pp pen type) := List.mem_filter.2 ⟨hy, hyk⟩
        cases hf : ms.filter (rawKey pp pen type) with
        | nil => rw [hf] at hmem; cases hmem
        | cons z zs => rw [List.getLast?_cons_cons]
      · rw [if_neg hm]
    · rw [if_neg hx, List.filter_cons, List.filter_cons]
      by_cases hm : rawKey pp pen type m = true
      · rw [if_pos hm, if_pos hm, List.getLast?_cons, List.getLast?_cons, ih]
      · rw [if_neg hm, if_neg hm, ih]

theorem filter_map_compileEntry (raw : RawConfig) (ms : List RawMap) (pp : Bool) (pen type : Nat) :
    (ms.map (compileEntry raw)).filter (keyMatch pp pen type) = (ms.filter (rawKey pp pen type)).map (compileEntry raw) := by
  rw [List.filter_map]
  rfl

/-- **the lookup does not see the difference**: on the surviving statements it finds what it finds on all of them -/
theorem lookupNetflow_lastPerKey (raw : RawConfig) (ms : List RawMap) (pp : Bool) (pen type : Nat) :
    lookupNetflow ((lastPerKey ms).map (compileEntry raw)) pp pen type =
      lookupNetflow (ms.map (compileEntry raw)) pp pen type := by
  unfold lookupNetflow
  change (match (((lastPerKey ms).map (compileEntry raw)).filter (keyMatch pp pen type)).getLast? with
      | some e => some e.field | none => none) =
    (match ((ms.map (compileEntry raw)).filter (keyMatch pp pen type)).getLast? with
      | some e => some e.field | none => none)
  rw [filter_map_compileEntry, filter_map_compileEntry, List.getLast?_map, List.getLast?_map, filter_lastPerKey_getLast?]

theorem mapperOf_compiled (raw : RawConfig) (isSlice0 : List (String × Bool)) (c : Compiled)
    (h : compile raw isSlice0 = .ok c) (version : Nat) :
    mapperOf c.cfg version = (lastPerKey (rawMapper raw version)).map (compileEntry raw) := by
  obtain ⟨h1, h2, _⟩ := compile_netflow_entries raw isSlice0 c h
  unfold mapperOf rawMapper
  split
  · rw [h1]; rfl
  · rw [h2]; rfl

/-- the compiled mapper answers every lookup as the complete statement list of the file would -/
theorem lookup_compiled (raw : RawConfig) (isSlice0 : List (String × Bool)) (c : Compiled)
    (h : compile raw isSlice0 = .ok c) (version : Nat) (pp : Bool) (pen type : Nat) :
    lookupNetflow (mapperOf c.cfg version) pp pen type =
      lookupNetflow ((rawMapper raw version).map (compileEntry raw)) pp pen type := by
  rw [mapperOf_compiled raw isSlice0 c h, lookupNetflow_lastPerKey]

/-- files without repeated element keys (the usual case): every statement is compiled, in file order -/
theorem compile_netflow_entries_distinct (raw : RawConfig) (isSlice0 : List (String × Bool)) (c : Compiled)
    (h : compile raw isSlice0 = .ok c)
    (h10 : raw.ipfix.Pairwise (fun a b => sameKey a b = false)) (h9 : raw.v9.Pairwise (fun a b => sameKey a b = false)) :
    c.cfg.ipfix = raw.ipfix.map (compileEntry raw) ∧ c.cfg.v9 = raw.v9.map (compileEntry raw) := by
  obtain ⟨h1, h2, _⟩ := compile_netflow_entries raw isSlice0 c h
  rw [h1, h2, lastPerKey_of_distinct _ h10, lastPerKey_of_distinct _ h9]
  exact ⟨rfl, rfl⟩

/-- **which statement wins**: of the statements of the version's list whose key is the field's, the LAST one in
    file order (the Go map is filled in file order, a later statement with the same key replaces the earlier one) -/
theorem file_lookup_last (raw : RawConfig) (isSlice0 : List (String × Bool)) (c : Compiled)
    (h : compile raw isSlice0 = .ok c) (version : Nat) (df : DataField) (a b : List RawMap) (e : RawMap)
    (hfile : rawMapper raw version = a ++ e :: b) (he : rawKeyMatch df e = true)
    (hb : ∀ e' ∈ b, rawKeyMatch df e' = false) :
    lookupNetflow (mapperOf c.cfg version) df.penProvided df.pen df.type = some (destOf raw e) := by
  rw [lookup_compiled raw isSlice0 c h, hfile, List.map_append, List.map_cons]
  refine lookupNetflow_last _ _ (compileEntry raw e) _ _ _ he ?_
  intro e' he'
  obtain ⟨r, hr, rfl⟩ := List.mem_map.1 he'
  exact hb r hr

/-- no statement of the version's list has the field's key: nothing is looked up -/
theorem file_lookup_none (raw : RawConfig) (isSlice0 : List (String × Bool)) (c : Compiled)
    (h : compile raw isSlice0 = .ok c) (version : Nat) (df : DataField)
    (hno : ∀ e ∈ rawMapper raw version, rawKeyMatch df e = false) :
    lookupNetflow (mapperOf c.cfg version) df.penProvided df.pen df.type = none := by
  rw [lookup_compiled raw isSlice0 c h, lookupNetflow_none_iff]
  intro e' he'
  obtain ⟨r, hr, rfl⟩ := List.mem_map.1 he'
  exact hno r hr

/-- **`file_element_mapping`**: an accepted file, a data field carrying the bytes `v` whose (penProvided, pen,
    type) is the key of statement `e` of the version's list, `e` being the last such statement: the custom step
    of that field writes `v` into the destination `destOf raw e` — a declared protobuf field (tag with the
    configured number and wire type, the value under the configured endianness), or the column the destination
    names (documented name or Go name) — exactly as `mapCustomRef` says. -/
theorem file_element_mapping (raw : RawConfig) (isSlice0 : List (String × Bool)) (c : Compiled)
    (h : compile raw isSlice0 = .ok c) (version : Nat) (df : DataField) (v : Bytes) (m : FlowMsg)
    (a b : List RawMap) (e : RawMap)
    (hfile : rawMapper raw version = a ++ e :: b) (he : rawKeyMatch df e = true)
    (hb : ∀ e' ∈ b, rawKeyMatch df e' = false) (hs : Sane (destOf raw e) v) :
    customStep (mapperOf c.cfg version) df v m = .ok (mapCustomRef m v (destOf raw e)) := by
  unfold customStep
  rw [file_lookup_last raw isSlice0 c h version df a b e hfile he hb]
  exact mapCustom_spec m v (destOf raw e) hs

/-- … and inside the per-field loop of the converter: the mapped value is in the message the standard
    conversion of the same field and all later fields start from -/
theorem file_element_mapping_record (raw : RawConfig) (isSlice0 : List (String × Bool)) (c : Compiled)
    (h : compile raw isSlice0 = .ok c) (version baseTimeNs uptime : Nat) (df : DataField) (rest : List DataField)
    (v : Bytes) (hv : df.value = some v) (m : FlowMsg) (a b : List RawMap) (e : RawMap)
    (hfile : rawMapper raw version = a ++ e :: b) (he : rawKeyMatch df e = true)
    (hb : ∀ e' ∈ b, rawKeyMatch df e' = false) (hs : Sane (destOf raw e) v) :
    convertFields (some c.cfg) version baseTimeNs uptime (df :: rest) m =
      match standardStep (some c.cfg) version baseTimeNs uptime df v (mapCustomRef m v (destOf raw e)) with
      | .error err => .error err
      | .ok m2 => convertFields (some c.cfg) version baseTimeNs uptime rest m2 := by
  rw [element_mapping_spec c.cfg version baseTimeNs uptime df rest m v hv,
    file_element_mapping raw isSlice0 c h version df v m a b e hfile he hb hs]
  dsimp only
  cases standardStep (some c.cfg) version baseTimeNs uptime df v (mapCustomRef m v (destOf raw e)) <;> rfl

/-- an enterprise-specific element mapped to a declared field: nothing but the custom field changes -/
theorem file_enterprise_element (raw : RawConfig) (isSlice0 : List (String × Bool)) (c : Compiled)
    (h : compile raw isSlice0 = .ok c) (version baseTimeNs uptime : Nat) (df : DataField) (rest : List DataField)
    (v : Bytes) (hv : df.value = some v) (hpen : df.penProvided = true) (m : FlowMsg) (a b : List RawMap) (e : RawMap)
    (hfile : rawMapper raw version = a ++ e :: b) (he : rawKeyMatch df e = true)
    (hb : ∀ e' ∈ b, rawKeyMatch df e' = false) (hs : Sane (destOf raw e) v) :
    convertFields (some c.cfg) version baseTimeNs uptime (df :: rest) m =
      convertFields (some c.cfg) version baseTimeNs uptime rest (mapCustomRef m v (destOf raw e)) := by
  rw [file_element_mapping_record raw isSlice0 c h version baseTimeNs uptime df rest v hv m a b e hfile he hb hs,
    standardStep_enterprise _ _ _ _ _ _ _ hpen]

/-- **traffic the file does not match is unaffected**: a field whose key no statement of the version's list
    has is converted as without any mapping file section for it -/
theorem file_element_unmapped (raw : RawConfig) (isSlice0 : List (String × Bool)) (c : Compiled)
    (h : compile raw isSlice0 = .ok c) (version baseTimeNs uptime : Nat) (df : DataField) (rest : List DataField)
    (v : Bytes) (hv : df.value = some v) (m : FlowMsg)
    (hno : ∀ e ∈ rawMapper raw version, rawKeyMatch df e = false) :
    customStep (mapperOf c.cfg version) df v m = .ok m ∧
    convertFields (some c.cfg) version baseTimeNs uptime (df :: rest) m =
      match standardStep (some c.cfg) version baseTimeNs uptime df v m with
      | .error err => .error err
      | .ok m2 => convertFields (some c.cfg) version baseTimeNs uptime rest m2 := by
  have hcs : customStep (mapperOf c.cfg version) df v m = .ok m := by
    unfold customStep
    rw [file_lookup_none raw isSlice0 c h version df hno]
  refine ⟨hcs, ?_⟩
  rw [element_mapping_spec c.cfg version baseTimeNs uptime df rest m v hv, hcs]
  dsimp only
  cases standardStep (some c.cfg) version baseTimeNs uptime df v m <;> rfl

/-- the layer statements of one key: the statements of the file with that layer name, in file order, offsets /
    lengths / encap flags as written -/
theorem file_layer_entries (raw : RawConfig) (isSlice0 : List (String × Bool)) (c : Compiled)
    (h : compile raw isSlice0 = .ok c) (k : String) :
    lookupLayer c.cfg.layers k =
      (raw.layers.filter (fun m => m.layer == k)).map (fun m => ⟨m.layer, m.encap, m.offset, m.length, destOf raw m⟩) := by
  rw [(compile_netflow_entries raw isSlice0 c h).2.2.1]
  unfold lookupLayer
  rw [List.filter_map]
  rfl

end EndToEnd

/-! ## the hypotheses are satisfiable: a concrete mapping file -/

namespace Example

/-- protobuf declarations (one name declared twice: the last declaration counts), element statements for IPFIX
    (an enterprise element, the same element id twice, a documented column name, a Go column name, an unknown
    name) and NetFlow v9, layer statements, registered ports -/
def raw : RawConfig :=
  { fields := ["type", "src_addr", "in_if", "flowid", "vendor_str", "icmp_name"],
    key := ["src_addr", "flowid"],
    render := [("src_addr", "ip"), ("flowid", "none"), ("time_received_ns", "datetimenano")],
    rename := [("src_addr", str "source")],
    protobuf := [⟨"flowid", 1000, "string", true⟩, ⟨"vendor_str", 1001, "bytes", true⟩, ⟨"flowid", 1002, "varint", false⟩],
    ipfix := [{ penProvided := true, pen := 9, type := 100, destination := "flowid", endian := "little" },
              { type := 400, destination := "in_if" },
              { type := 400, destination := "vendor_str" },
              { type := 401, destination := "OutIf", endian := "big" },
              { type := 402, destination := "nowhere" }],
    v9 := [{ type := 400, destination := "bytes", endian := "big" }],
    layers := [{ layer := "ipv4", offset := 64, length := 8, destination := "flowid" },
               { layer := "udp", encap := true, offset := 0, length := 16, destination := "vendor_str", endian := "little" }],
    ports := [⟨"udp", "both", 6081, "geneve"⟩, ⟨"udp", "dst", 3544, "teredo-dst"⟩] }

theorem raw_accepted : Accepted raw := by decide

example : ∃ c, compile raw initialIsSlice = .ok c := (compile_accepts_iff raw initialIsSlice).2 raw_accepted

/-- the compiled mappers: of the two statements for element 400 only the last one is in the Go map -/
example : (cfgOf raw).ipfix =
    [⟨true, 9, 100, ⟨"flowid", true, 1002, .varint, false⟩⟩,
     ⟨false, 0, 400, ⟨"vendor_str", false, 1001, .string, true⟩⟩,
     ⟨false, 0, 401, ⟨"OutIf", false, 0, .none, false⟩⟩,
     ⟨false, 0, 402, ⟨"nowhere", false, 0, .none, false⟩⟩] := by decide
example : (cfgOf raw).v9 = [⟨false, 0, 400, ⟨"Bytes", false, 0, .none, false⟩⟩] := by decide
example : (cfgOf raw).layers =
    [⟨"ipv4", false, 64, 8, ⟨"flowid", false, 1002, .varint, false⟩⟩,
     ⟨"udp", true, 0, 16, ⟨"vendor_str", true, 1001, .string, true⟩⟩] := by decide
example : (cfgOf raw).ports =
    [⟨"udp", "src", 6081, "geneve"⟩, ⟨"udp", "dst", 6081, "geneve"⟩, ⟨"udp", "dst", 3544, "teredo-dst"⟩] := by decide

/-- element 400 is mapped twice: the last statement wins -/
example : lookupNetflow (cfgOf raw).ipfix false 0 400 = some ⟨"vendor_str", false, 1001, .string, true⟩ := by decide

/-- the compiled formatter: render statements filed under the Go field name / the declared name -/
example : (fmtOf raw initialIsSlice).fields = ["type", "src_addr", "in_if", "flowid", "vendor_str", "icmp_name"] ∧
    (fmtOf raw initialIsSlice).key = ["src_addr", "flowid"] ∧
    (fmtOf raw initialIsSlice).render.lookup "SrcAddr" = some "IPRenderer" ∧
    (fmtOf raw initialIsSlice).render.lookup "flowid" = some "NilRenderer" ∧
    (fmtOf raw initialIsSlice).render.lookup "TimeReceivedNs" = some "DateTimeNanoRenderer" ∧
    (fmtOf raw initialIsSlice).render.lookup "DstAddr" = some "IPRenderer" ∧
    (fmtOf raw initialIsSlice).numToPb = [(1002, ⟨"flowid", 1002, "varint", false⟩), (1001, ⟨"vendor_str", 1001, "bytes", true⟩),
      (1000, ⟨"flowid", 1000, "string", true⟩)] ∧
    (fmtOf raw initialIsSlice).isSlice.lookup "flowid" = some false ∧
    (fmtOf raw initialIsSlice).isSlice.lookup "vendor_str" = some true ∧
    (fmtOf raw initialIsSlice).isSlice.lookup "AsPath" = some true ∧
    (fmtOf raw initialIsSlice).reMap.lookup "flowid" = some "" ∧
    (fmtOf raw initialIsSlice).reMap.lookup "in_if" = some "InIf" := by decide

/-- files the loader rejects, one per check -/
example : ¬ Accepted { raw with ports := [⟨"udp", "dst", 4789, "vxlan"⟩] } := by decide
example : ¬ Accepted { raw with ports := [⟨"udp", "up", 4789, "geneve"⟩] } := by decide
example : ¬ Accepted { raw with key := ["no_such_key"] } := by decide
example : ¬ Accepted { raw with render := [("bytes", "network")] } := by decide
example : ¬ Accepted { raw with fields := ["type", "no_such_field"] } := by decide
example : ¬ Accepted { raw with protobuf := [⟨"flowid", 1000, "float", false⟩] } := by decide
/-- … an illegal type is harmless as long as no statement names the field -/
example : Accepted { raw with protobuf := raw.protobuf ++ [⟨"unused", 1003, "float", false⟩] } := by decide

/-- end to end on this file: the enterprise element (pen 9, id 100) goes little-endian into field 1002 … -/
example (c : Compiled) (h : compile raw initialIsSlice = .ok c) (m : FlowMsg) (rest : List Goflow.Netflow.DataField) :
    Producer.convertFields (some c.cfg) 10 0 0 (⟨true, 100, 9, some [1, 2]⟩ :: rest) m =
      Producer.convertFields (some c.cfg) 10 0 0 rest { m with unk := m.unk ++ (appendTag 1002 0 ++ appendVarint 0x0201) } :=
  file_enterprise_element raw initialIsSlice c h 10 0 0 ⟨true, 100, 9, some [1, 2]⟩ rest [1, 2] rfl rfl m []
    (raw.ipfix.drop 1) _ rfl (by decide) (by decide) (by decide)

/-- … element 400 is mapped twice in the file: the LAST statement (into `vendor_str`) applies, not the first (`in_if`) -/
example (c : Compiled) (h : compile raw initialIsSlice = .ok c) (m : FlowMsg) :
    C14Map.customStep (C14Map.mapperOf c.cfg 10) ⟨false, 400, 0, some [0x61]⟩ [0x61] m =
      .ok { m with unk := m.unk ++ (appendTag 1001 2 ++ [1] ++ [0x61]) } :=
  file_element_mapping raw initialIsSlice c h 10 ⟨false, 400, 0, some [0x61]⟩ [0x61] m (raw.ipfix.take 2) (raw.ipfix.drop 3) _ rfl
    (by decide) (by decide) (by decide)

/-- … the same element in a NetFlow v9 packet follows the other list: into the column `Bytes` -/
example (c : Compiled) (h : compile raw initialIsSlice = .ok c) (m : FlowMsg) :
    C14Map.customStep (C14Map.mapperOf c.cfg 9) ⟨false, 400, 0, some [1, 0]⟩ [1, 0] m = .ok { m with bytes := 256 } :=
  file_element_mapping raw initialIsSlice c h 9 ⟨false, 400, 0, some [1, 0]⟩ [1, 0] m [] [] _ rfl
    (by decide) (by decide) (by decide)

/-- … and an element no statement names leaves the message alone -/
example (c : Compiled) (h : compile raw initialIsSlice = .ok c) (m : FlowMsg) :
    C14Map.customStep (C14Map.mapperOf c.cfg 10) ⟨true, 100, 10, some [1]⟩ [1] m = .ok m :=
  (file_element_unmapped raw initialIsSlice c h 10 0 0 ⟨true, 100, 10, some [1]⟩ [] [1] rfl m (by decide)).1

/-- a statement replaced by a later one with the same (penprovided, pen, field) key is not in the Go map when
    `finalizeNetFlowMapper` runs: its destination of illegal type cannot make the loader fail, and the element
    goes to the destination of the later statement … -/
def shadowed : RawConfig :=
  { protobuf := [⟨"bad", 1000, "float", false⟩, ⟨"good", 1001, "varint", false⟩],
    ipfix := [{ type := 400, destination := "bad" }, { type := 400, destination := "good" }] }

theorem shadowed_accepted : Accepted shadowed := by decide
example : ∃ c, compile shadowed initialIsSlice = .ok c := (compile_accepts_iff _ _).2 shadowed_accepted
example : (cfgOf shadowed).ipfix = [⟨false, 0, 400, ⟨"good", false, 1001, .varint, false⟩⟩] := by decide

/-- … with the two statements swapped the surviving one is the illegal one: rejected -/
def shadowedSwapped : RawConfig :=
  { shadowed with ipfix := [{ type := 400, destination := "good" }, { type := 400, destination := "bad" }] }

example : ¬ Accepted shadowedSwapped := by decide
example : compile shadowedSwapped initialIsSlice = .error () := (compile_rejects_iff _ _).2 (by decide)

/-- the same for NetFlow v9; statements with different keys are all finalized; layer statements are kept in a
    list per layer, so every one of them is finalized whatever follows -/
example : Accepted { shadowed with ipfix := [], v9 := shadowed.ipfix } := by decide
example : ¬ Accepted { shadowed with ipfix := [], v9 := shadowedSwapped.ipfix } := by decide
example : ¬ Accepted { shadowed with ipfix := [{ type := 400, destination := "bad" }, { type := 401, destination := "good" }] } := by decide
example : ¬ Accepted { shadowed with ipfix := [{ penProvided := true, pen := 9, type := 400, destination := "bad" },
    { type := 400, destination := "good" }] } := by decide
example : ¬ Accepted { shadowed with ipfix := [], layers := [{ layer := "udp", length := 8, destination := "bad" },
    { layer := "udp", length := 8, destination := "good" }] } := by decide

end Example

end Goflow.C14Compile
