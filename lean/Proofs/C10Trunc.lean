import Proofs.C10Full
/-!
  C10 (truncated capture) — "when the capture is cut short, every reported field still equals the frame's true value
  or is left unset".

  * `expectedAt f n` — the message the specification expects when only the first `n` bytes of the frame `f` are
    captured: the layers whose header (the bytes the parser's guard asks for) lies inside the capture, in order;
    an MPLS label stack / an SRv6 segment list cut in the middle contributes the labels / segments completely inside.
  * `trunc_capture_cfg` / `trunc_capture_eq` — for every well-formed frame of the grammar (`FrameWFIn` / `FrameWF`,
    the hypotheses of `full_capture`) and every `n ≤ |bytes f|`:
    `parsePacket cfg FlowMsg.empty ((bytes f).take n) = .ok (expectedAt f n)`.
  * `Below ets vls m full` — every scalar column of `m` is unset or equals `full`'s, every list column is a prefix of
    `full`'s (layer sizes: `SizesBelow`, the last reported size may be smaller), `Etype` / `VlanId` may also be those
    of an outer L2 header (`outerEtypes f`, `f.vlans`).
  * `expectedAt_mono` — `n ≤ n' → Below (expectedAt f n) (expectedAt f n')`; `expectedAt_full` — at `n = |bytes f|`
    it is `expectedMsg f`.
  * `trunc_capture`, `trunc_capture_cfg_below` (`trunc_plain`, `trunc_tunnel`) — **the truncated-capture half of
    C10**: for every `n` the dissector succeeds on `(bytes f).take n` with a message `Below (expectedMsg f)`.
  * `trunc_capture_sizes` — one layer size per reported layer at every capture length.

  Structure: the parsers on a truncated layer (`runParser_short`, `parseX_take`, `parseRoute_cut`, `parseMPLS_cut`);
  one round of the loop on a truncated capture (`loop_short`, `loop_step_cut`); the layers one by one as in
  `Proofs.C10Full` (`loop_l4_cut` … `loop_eth_cut`); `Below` along the layers (`below_*`: a later layer only adds;
  `cut_*`: a longer capture only adds).
-/
set_option linter.unusedSimpArgs false

namespace Goflow.C10
open Goflow Goflow.Producer Goflow.Spec.Frame

/-! ### the message expected at capture length `n` -/

/-- the number of bytes an L4 parser needs to recognise its header -/
def l4Guard : L4 → Nat
  | .tcp .. => 20 | .udp .. => 8 | .icmp .. => 2 | .icmpv6 .. => 2 | .other .. => 0

def l4MsgAt (n off : Nat) (l : L4) (m : FlowMsg) : FlowMsg := if off + l4Guard l ≤ n then l4Msg l m else m

/-- layers (stack value, size) of a tunnelled stack and the ICMP header that ends it -/
abbrev Inner := List (Nat × Nat) × Option (Nat × Nat)
def Inner.nil : Inner := ([], none)
def Inner.cons (x : Nat × Nat) (r : Inner) : Inner := (x :: r.1, r.2)

def innerL4At (n off : Nat) (l : L4) : Inner :=
  if off + l4Guard l ≤ n then (stackL4 l, innerIcmpPayload (.l4 l)) else Inner.nil

mutual
def innerIPAt (n off : Nat) : IP → Inner
  | .v4 _ _ _ _ _ _ _ pl => if off + 20 ≤ n then Inner.cons (1, 20) (innerPayloadAt n (off + 20) pl) else Inner.nil
  | .v6 _ _ _ _ _ ext pl =>
    if off + 40 ≤ n then
      Inner.cons (2, 40) (match ext with
        | .none => innerPayloadAt n (off + 40) pl
        | .fragment .. => if off + 48 ≤ n then Inner.cons (11, 8) (innerPayloadAt n (off + 48) pl) else Inner.nil
        | .srh _ _ segs =>
          if off + 48 ≤ n then Inner.cons (10, 8 + 16 * segs.length) (innerPayloadAt n (off + 48 + 16 * segs.length) pl)
          else Inner.nil)
    else Inner.nil
def innerPayloadAt (n off : Nat) : Payload → Inner
  | .l4 l => innerL4At n off l
  | .gre inner => if off + 4 ≤ n then Inner.cons (9, 4) (innerEtherAt n (off + 4) inner) else Inner.nil
  | .ipip p => innerIPAt n off p
def innerEtherAt (n off : Nat) : EtherPayload → Inner
  | .ip p => innerIPAt n off p
  | .mpls labels p =>
    if off + 4 ≤ n then
      if off + 4 * labels.length < n then Inner.cons (5, 4 * labels.length) (innerIPAt n (off + 4 * labels.length) p)
      else ([(5, 4 * ((n - off) / 4))], none)
    else Inner.nil
  | .raw .. => Inner.nil
end

def payloadResAt (n off : Nat) : Payload → FlowMsg → FlowMsg
  | .l4 l, m => l4MsgAt n off l m
  | .gre inner, m =>
    if off + 4 ≤ n then
      innerRes (innerEtherAt n (off + 4) inner).1 (innerEtherAt n (off + 4) inner).2
        { m with layerStack := m.layerStack ++ [9], layerSize := m.layerSize ++ [4] }
    else m
  | .ipip p, m => innerRes (innerIPAt n off p).1 (innerIPAt n off p).2 m

/-- a routing header of which `k` bytes are captured (8 ≤ k): the segments that lie completely inside -/
def srhMsgAt (k : Nat) (sleft : Nat) (segs : List Bytes) (m : FlowMsg) : FlowMsg :=
  { m with layerStack := m.layerStack ++ [10], layerSize := m.layerSize ++ [8 + 16 * segs.length],
           ipv6RoutingHeaderSegLeft := sleft,
           ipv6RoutingHeaderAddresses := m.ipv6RoutingHeaderAddresses ++ segs.take ((k - 8) / 16) }

def ipResAt (n off : Nat) (p : IP) (m : FlowMsg) : FlowMsg :=
  match p with
  | .v4 _ _ _ _ _ _ _ pl => if off + 20 ≤ n then payloadResAt n (off + 20) pl (ipMsg p m) else m
  | .v6 _ _ _ _ _ ext pl =>
    if off + 40 ≤ n then
      match ext with
      | .none => payloadResAt n (off + 40) pl (ipMsg p m)
      | .fragment .. => if off + 48 ≤ n then payloadResAt n (off + 48) pl (extMsg ext (ipMsg p m)) else ipMsg p m
      | .srh sleft _ segs =>
        if off + 48 ≤ n then
          payloadResAt n (off + 48 + 16 * segs.length) pl (srhMsgAt (n - (off + 40)) sleft segs (ipMsg p m))
        else ipMsg p m
    else m

/-- an MPLS label stack of which `k` bytes are captured (4 ≤ k ≤ 4 · labels): the labels that lie completely inside -/
def mplsMsgAt (k : Nat) (labels : List (Nat × Nat)) (m : FlowMsg) : FlowMsg :=
  { m with layerStack := m.layerStack ++ [5], layerSize := m.layerSize ++ [4 * (k / 4)],
           mplsLabel := (labels.take (k / 4)).map (·.1), mplsTtl := (labels.take (k / 4)).map (·.2) }

def mplsMsg (labels : List (Nat × Nat)) (et : Nat) (m : FlowMsg) : FlowMsg :=
  { m with layerStack := m.layerStack ++ [5], layerSize := m.layerSize ++ [4 * labels.length],
           etype := et, mplsLabel := labels.map (·.1), mplsTtl := labels.map (·.2) }

def epResAt (n off : Nat) : EtherPayload → FlowMsg → FlowMsg
  | .ip p, m => ipResAt n off p m
  | .mpls labels p, m =>
    if off + 4 ≤ n then
      if off + 4 * labels.length < n then ipResAt n (off + 4 * labels.length) p (mplsMsg labels (ipEtype p) m)
      else mplsMsgAt (n - off) labels m
    else m
  | .raw .., m => m

/-- the ethertype field of the L2 header in front of the remaining tags `vs` -/
def l2Etype (ep : EtherPayload) : List Nat → Nat
  | [] => etherType ep
  | _ :: _ => 0x8100

def tagMsg (v et : Nat) (m : FlowMsg) : FlowMsg :=
  { m with layerStack := m.layerStack ++ [6], layerSize := m.layerSize ++ [4], vlanId := v, etype := et }

/-- `off` is the offset of the TCI of the first remaining tag -/
def vlansResAt (n off : Nat) (ep : EtherPayload) : List Nat → FlowMsg → FlowMsg
  | [], m => epResAt n off ep m
  | v :: vs, m => if off + 4 ≤ n then vlansResAt n (off + 4) ep vs (tagMsg v (l2Etype ep vs) m) else m

/-- **the message the specification expects when only the first `n` bytes of the frame are captured** -/
def expectedAt (f : Frame) (n : Nat) : FlowMsg :=
  if 14 ≤ n then
    vlansResAt n 14 f.payload f.vlans { ethMsg f.dstMac f.srcMac FlowMsg.empty with etype := l2Etype f.payload f.vlans }
  else FlowMsg.empty


/-! ### "every reported field equals the frame's true value or is left unset" -/

/-- layer sizes under truncation: one per reported layer, equal to the true sizes; only the last one may be
    smaller (a label stack cut in the middle reports the labels captured) -/
def SizesBelow : List Nat → List Nat → Prop
  | [], _ => True
  | _ :: _, [] => False
  | x :: a, y :: b => if a = [] then x ≤ y else x = y ∧ SizesBelow a b

instance : ∀ a b, Decidable (SizesBelow a b)
  | [], _ => isTrue trivial
  | _ :: _, [] => isFalse (fun h => h)
  | x :: a, y :: b =>
    if h : a = [] then decidable_of_iff (x ≤ y) (by simp [SizesBelow, h])
    else
      have := instDecidableSizesBelow a b
      decidable_of_iff (x = y ∧ SizesBelow a b) (by simp [SizesBelow, h])

/-- `m` (what a truncated capture reports) against `full` (what the complete frame reports): every scalar column is
    unset or has the value of the complete frame; every list column is a prefix of the complete frame's list (layer
    sizes: `SizesBelow`). Two columns are written by several L2 headers in turn, so a truncated capture may report
    the value of an outer one: `Etype` may be one of `ets` (the ethertypes of the L2 headers in front of the last
    one), `VlanId` one of the frame's tags `vls`. -/
def Below (ets vls : List Nat) (m full : FlowMsg) : Prop :=
  (m.etype = 0 ∨ m.etype = full.etype ∨ m.etype ∈ ets) ∧
  (m.vlanId = 0 ∨ m.vlanId = full.vlanId ∨ m.vlanId ∈ vls) ∧
  (m.type_ = 0 ∨ m.type_ = full.type_) ∧
  (m.timeReceivedNs = 0 ∨ m.timeReceivedNs = full.timeReceivedNs) ∧
  (m.sequenceNum = 0 ∨ m.sequenceNum = full.sequenceNum) ∧
  (m.samplingRate = 0 ∨ m.samplingRate = full.samplingRate) ∧
  (m.samplerAddress = [] ∨ m.samplerAddress = full.samplerAddress) ∧
  (m.timeFlowStartNs = 0 ∨ m.timeFlowStartNs = full.timeFlowStartNs) ∧
  (m.timeFlowEndNs = 0 ∨ m.timeFlowEndNs = full.timeFlowEndNs) ∧
  (m.bytes = 0 ∨ m.bytes = full.bytes) ∧
  (m.packets = 0 ∨ m.packets = full.packets) ∧
  (m.srcAddr = [] ∨ m.srcAddr = full.srcAddr) ∧
  (m.dstAddr = [] ∨ m.dstAddr = full.dstAddr) ∧
  (m.proto = 0 ∨ m.proto = full.proto) ∧
  (m.srcPort = 0 ∨ m.srcPort = full.srcPort) ∧
  (m.dstPort = 0 ∨ m.dstPort = full.dstPort) ∧
  (m.inIf = 0 ∨ m.inIf = full.inIf) ∧
  (m.outIf = 0 ∨ m.outIf = full.outIf) ∧
  (m.srcMac = 0 ∨ m.srcMac = full.srcMac) ∧
  (m.dstMac = 0 ∨ m.dstMac = full.dstMac) ∧
  (m.srcVlan = 0 ∨ m.srcVlan = full.srcVlan) ∧
  (m.dstVlan = 0 ∨ m.dstVlan = full.dstVlan) ∧
  (m.ipTos = 0 ∨ m.ipTos = full.ipTos) ∧
  (m.forwardingStatus = 0 ∨ m.forwardingStatus = full.forwardingStatus) ∧
  (m.ipTtl = 0 ∨ m.ipTtl = full.ipTtl) ∧
  (m.ipFlags = 0 ∨ m.ipFlags = full.ipFlags) ∧
  (m.tcpFlags = 0 ∨ m.tcpFlags = full.tcpFlags) ∧
  (m.icmpType = 0 ∨ m.icmpType = full.icmpType) ∧
  (m.icmpCode = 0 ∨ m.icmpCode = full.icmpCode) ∧
  (m.ipv6FlowLabel = 0 ∨ m.ipv6FlowLabel = full.ipv6FlowLabel) ∧
  (m.fragmentId = 0 ∨ m.fragmentId = full.fragmentId) ∧
  (m.fragmentOffset = 0 ∨ m.fragmentOffset = full.fragmentOffset) ∧
  (m.srcAs = 0 ∨ m.srcAs = full.srcAs) ∧
  (m.dstAs = 0 ∨ m.dstAs = full.dstAs) ∧
  (m.nextHop = [] ∨ m.nextHop = full.nextHop) ∧
  (m.nextHopAs = 0 ∨ m.nextHopAs = full.nextHopAs) ∧
  (m.srcNet = 0 ∨ m.srcNet = full.srcNet) ∧
  (m.dstNet = 0 ∨ m.dstNet = full.dstNet) ∧
  (m.bgpNextHop = [] ∨ m.bgpNextHop = full.bgpNextHop) ∧
  (m.bgpCommunities <+: full.bgpCommunities) ∧
  (m.asPath <+: full.asPath) ∧
  (m.mplsTtl <+: full.mplsTtl) ∧
  (m.mplsLabel <+: full.mplsLabel) ∧
  (m.mplsIp <+: full.mplsIp) ∧
  (m.observationDomainId = 0 ∨ m.observationDomainId = full.observationDomainId) ∧
  (m.observationPointId = 0 ∨ m.observationPointId = full.observationPointId) ∧
  (m.layerStack <+: full.layerStack) ∧
  SizesBelow m.layerSize full.layerSize ∧
  (m.ipv6RoutingHeaderAddresses <+: full.ipv6RoutingHeaderAddresses) ∧
  (m.ipv6RoutingHeaderSegLeft = 0 ∨ m.ipv6RoutingHeaderSegLeft = full.ipv6RoutingHeaderSegLeft) ∧
  (m.unk = [] ∨ m.unk = full.unk)

set_option synthInstance.maxSize 4096 in
instance (ets vls : List Nat) (m full : FlowMsg) : Decidable (Below ets vls m full) := by
  unfold Below; infer_instance

/-- the ethertypes of the L2 headers in front of the last one: 0x8100 when the frame is tagged, and the ethertype
    in front of an MPLS label stack (after which the dissector reports the ethertype of the IP version it peeks) -/
def outerEtypes (f : Frame) : List Nat :=
  (match f.vlans with | [] => [] | _ :: _ => [0x8100]) ++ (match f.payload with | .mpls .. => [0x8847] | _ => [])


/-! ### the parsers on a truncated layer -/

theorem u8_take {g k : Nat} (h : g ≤ k) (d : Bytes) (i : Nat) (hi : i < g) :
    Producer.u8 (d.take k) i = Producer.u8 d i := by
  have : i < k := by omega
  simp [Producer.u8, List.getD_eq_getElem?_getD, List.getElem?_take, this]

theorem be_take {g k : Nat} (h : g ≤ k) (d : Bytes) (i n : Nat) (hi : i + n ≤ g) :
    be (d.take k) i n = be d i n := by
  simp only [be, List.drop_take, List.take_take]
  rw [Nat.min_eq_left (by omega)]

theorem sl_take {g k : Nat} (h : g ≤ k) (d : Bytes) (i j : Nat) (hj : j ≤ g) :
    sl (d.take k) i j = sl d i j := by
  simp only [sl, List.drop_take, List.take_take]
  rw [Nat.min_eq_left (by omega)]

theorem lt_take {g k : Nat} (h : g ≤ k) (n : Nat) : (min k n < g) ↔ n < g := by omega

/-- the number of bytes a parser needs to recognise its header -/
def Parser.guard : Parser → Nat
  | .none => 0 | .ethernet => 14 | .dot1q => 4 | .mpls => 4 | .ipv4 => 20 | .ipv6 => 40 | .ipv6route => 8
  | .ipv6frag => 8 | .tcp => 20 | .udp => 8 | .icmp => 2 | .icmpv6 => 2 | .gre => 4 | .teredo => 0 | .geneve => 8

/-- a parser that finds fewer bytes than its header needs leaves the message alone and ends the chain -/
theorem runParser_short (p : Parser) (m : FlowMsg) (d : Bytes) (pc : PC) (h : d.length < Parser.guard p) :
    runParser p m d pc = tooShort m := by
  cases p <;> simp only [Parser.guard] at h <;> simp only [runParser]
  · simp [parseEthernet, h]
  · simp [parse8021Q, h]
  · simp [parseMPLS, h]
  · simp [parseIPv4, h]
  · simp [parseIPv6, h]
  · simp [parseIPv6HeaderRouting, h]
  · simp [parseIPv6HeaderFragment, h]
  · simp [parseTCP, h]
  · simp [parseUDP, h]
  · simp [parseICMP, h]
  · simp [parseICMPv6, h]
  · simp [parseGRE, h]
  · omega
  · simp [parseGeneve, h]

/-- the parsers of fixed-size headers read nothing beyond the bytes their guard asks for -/
theorem parseEthernet_take (m : FlowMsg) (d : Bytes) (pc : PC) {k : Nat} (h : 14 ≤ k) :
    parseEthernet m (d.take k) pc = parseEthernet m d pc := by
  unfold parseEthernet; simp [lt_take h, be_take h, u8_take h]

theorem parse8021Q_take (m : FlowMsg) (d : Bytes) (pc : PC) {k : Nat} (h : 4 ≤ k) :
    parse8021Q m (d.take k) pc = parse8021Q m d pc := by
  unfold parse8021Q; simp [lt_take h, be_take h, u8_take h]

theorem parseIPv4_take (m : FlowMsg) (d : Bytes) (pc : PC) {k : Nat} (h : 20 ≤ k) :
    parseIPv4 m (d.take k) pc = parseIPv4 m d pc := by
  unfold parseIPv4; simp [lt_take h, be_take h, u8_take h, sl_take h]

theorem parseIPv6_take (m : FlowMsg) (d : Bytes) (pc : PC) {k : Nat} (h : 40 ≤ k) :
    parseIPv6 m (d.take k) pc = parseIPv6 m d pc := by
  unfold parseIPv6; simp [lt_take h, be_take h, u8_take h, sl_take h]

theorem parseFrag_take (m : FlowMsg) (d : Bytes) (pc : PC) {k : Nat} (h : 8 ≤ k) :
    parseIPv6HeaderFragment m (d.take k) pc = parseIPv6HeaderFragment m d pc := by
  unfold parseIPv6HeaderFragment; simp [lt_take h, be_take h, u8_take h]

theorem parseTCP_take (m : FlowMsg) (d : Bytes) (pc : PC) {k : Nat} (h : 20 ≤ k) :
    parseTCP m (d.take k) pc = parseTCP m d pc := by
  unfold parseTCP; simp [lt_take h, be_take h, u8_take h]

theorem parseUDP_take (m : FlowMsg) (d : Bytes) (pc : PC) {k : Nat} (h : 8 ≤ k) :
    parseUDP m (d.take k) pc = parseUDP m d pc := by
  unfold parseUDP; simp [lt_take h, be_take h, u8_take h]

theorem parseICMP_take (m : FlowMsg) (d : Bytes) (pc : PC) {k : Nat} (h : 2 ≤ k) :
    parseICMP m (d.take k) pc = parseICMP m d pc := by
  unfold parseICMP; simp [lt_take h, u8_take h]

theorem parseICMPv6_take (m : FlowMsg) (d : Bytes) (pc : PC) {k : Nat} (h : 2 ≤ k) :
    parseICMPv6 m (d.take k) pc = parseICMPv6 m d pc := by
  unfold parseICMPv6; simp [lt_take h, u8_take h]

theorem parseGRE_take (m : FlowMsg) (d : Bytes) (pc : PC) {k : Nat} (h : 4 ≤ k) :
    parseGRE m (d.take k) pc = parseGRE m d pc := by
  unfold parseGRE; simp [lt_take h, u8_take h]

/-- a tunnelled routing header: only its first two bytes are read -/
theorem parseRoute_take_enc (m : FlowMsg) (d : Bytes) (pc : PC) {k : Nat} (h : 8 ≤ k) (henc : pc.encapsulated = true) :
    parseIPv6HeaderRouting m (d.take k) pc = parseIPv6HeaderRouting m d pc := by
  unfold parseIPv6HeaderRouting; simp [lt_take h, u8_take h, henc]


/-! ### a routing header cut inside its segment list -/

theorem srv6Loop_cut (hdr rest : Bytes) (size le k : Nat) (hhdr : hdr.length = 8) (todo : List Bytes) :
    ∀ (done : List Bytes) (fuel : Nat) (acc : List Bytes),
    (∀ s ∈ done ++ todo, s.length = 16) → size = 8 + 16 * (done ++ todo).length → (done ++ todo).length ≤ le + 1 →
    (k - 8 - 16 * done.length) / 16 + 1 ≤ fuel → 8 + 16 * done.length ≤ k →
    srv6Loop ((hdr ++ ((done ++ todo).flatMap id ++ rest)).take k) size le fuel (16 * done.length) done.length acc =
      acc ++ todo.take ((k - 8 - 16 * done.length) / 16) := by
  induction todo with
  | nil =>
    intro done fuel acc hlen hsize hle hf hk
    obtain ⟨fuel, rfl⟩ : ∃ f, fuel = f + 1 := ⟨fuel - 1, by omega⟩
    rw [srv6Loop, if_neg (by simp at hsize; omega)]; simp
  | cons s todo ih =>
    intro done fuel acc hlen hsize hle hf hk
    obtain ⟨fuel, rfl⟩ : ∃ f, fuel = f + 1 := ⟨fuel - 1, by omega⟩
    have hs : s.length = 16 := hlen s (by simp)
    have hdone : (done.flatMap id).length = 16 * done.length := flat_length done (fun x hx => hlen x (by simp [hx]))
    have hall : ((done ++ s :: todo).flatMap id).length = 16 * (done ++ s :: todo).length := flat_length _ hlen
    by_cases hfit : 8 + 16 * done.length + 16 ≤ k
    · have hsl : sl ((hdr ++ ((done ++ s :: todo).flatMap id ++ rest)).take k) (8 + 16 * done.length) (8 + 16 * done.length + 16) = s := by
        rw [sl_take (Nat.le_refl k) _ _ _ hfit]
        rw [sl_skip _ _ _ _ (by omega), List.flatMap_append, List.append_assoc, sl_skip _ _ _ _ (by omega)]
        simp only [List.flatMap_cons, id, List.append_assoc]
        have e1 : 8 + 16 * done.length - hdr.length - (done.flatMap id).length = 0 := by omega
        have e2 : 8 + 16 * done.length + 16 - hdr.length - (done.flatMap id).length = 16 := by omega
        rw [e1, e2, sl_here _ _ _ hs]
      rw [srv6Loop, if_pos (by
        refine ⟨by simp at hsize ⊢; omega, ?_, by simp at hle; omega⟩
        simp only [List.length_take, List.length_append, hall, hhdr]; simp; omega)]
      rw [hsl]
      have := ih (done ++ [s]) fuel (acc ++ [s]) (by simpa using hlen) (by simpa using hsize) (by simpa using hle)
        (by simp; omega) (by simp; omega)
      simp only [List.append_assoc, List.cons_append, List.nil_append, List.length_append, List.length_cons,
        List.length_nil] at this
      rw [show 16 * done.length + 16 = 16 * (done.length + (0 + 1)) by omega, this]
      obtain ⟨j, hj⟩ : ∃ j, (k - 8 - 16 * done.length) / 16 = j + 1 := ⟨(k - 8 - 16 * done.length) / 16 - 1, by omega⟩
      have hj' : (k - 8 - 16 * (done.length + (0 + 1))) / 16 = j := by omega
      rw [hj, hj']; simp
    · rw [srv6Loop, if_neg (by
        intro h; apply hfit
        have := h.2.1
        simp only [List.length_take] at this; omega)]
      have : (k - 8 - 16 * done.length) / 16 = 0 := by omega
      rw [this]; simp

/-- the routing header of which the first `k ≥ 8` bytes are captured: the true size, the segments completely inside -/
theorem parseRoute_cut (m : FlowMsg) (nh sleft le r1 r2 : Nat) (segs : List Bytes) (rest : Bytes) (pc : PC) (k : Nat)
    (hnh : nh < 256) (hsl : sleft < 256) (hle : le < 256) (hn : segs.length < 128)
    (hsegs : ∀ s ∈ segs, s.length = 16) (hlast : segs.length ≤ le + 1) (henc : pc.encapsulated = false)
    (hk : 8 ≤ k) :
    parseIPv6HeaderRouting m ((encBE 1 nh ++ (encBE 1 (2 * segs.length) ++ (encBE 1 4 ++ (encBE 1 sleft ++
        (encBE 1 le ++ (encBE 1 r1 ++ (encBE 2 r2 ++ (segs.flatMap id ++ rest)))))))).take k) pc =
      ⟨{ m with layerStack := m.layerStack ++ [10], ipv6RoutingHeaderSegLeft := sleft,
                ipv6RoutingHeaderAddresses := m.ipv6RoutingHeaderAddresses ++ segs.take ((k - 8) / 16) },
        nextParserProto nh, 8 + 16 * segs.length⟩ := by
  have h2n : 2 * segs.length < 256 := by omega
  generalize hd : encBE 1 nh ++ (encBE 1 (2 * segs.length) ++ (encBE 1 4 ++ (encBE 1 sleft ++
        (encBE 1 le ++ (encBE 1 r1 ++ (encBE 2 r2 ++ (segs.flatMap id ++ rest))))))) = d
  have hd2 : d = (encBE 1 nh ++ (encBE 1 (2 * segs.length) ++ (encBE 1 4 ++ (encBE 1 sleft ++
        (encBE 1 le ++ (encBE 1 r1 ++ encBE 2 r2)))))) ++ ((([] : List Bytes) ++ segs).flatMap id ++ rest) := by
    rw [← hd]; simp only [List.append_assoc, List.nil_append]
  have hlen : d.length = 8 + 16 * segs.length + rest.length := by
    rw [← hd]; simp only [List.length_append, encBE_length, flat_length segs hsegs]; omega
  have h0 : Producer.u8 (d.take k) 0 = nh := by
    rw [u8_take hk _ _ (by omega), ← hd]; simp [u8_here, beNat_encBE_of_lt, *]
  have h1 : Producer.u8 (d.take k) 1 = 2 * segs.length := by
    rw [u8_take hk _ _ (by omega), ← hd]; simp [u8_skip, u8_here, beNat_encBE_of_lt, *]
  have h2 : Producer.u8 (d.take k) 2 = 4 := by
    rw [u8_take hk _ _ (by omega), ← hd]; simp [u8_skip, u8_here, beNat_encBE_of_lt]
  have h3 : Producer.u8 (d.take k) 3 = sleft := by
    rw [u8_take hk _ _ (by omega), ← hd]; simp [u8_skip, u8_here, beNat_encBE_of_lt, *]
  have h4 : Producer.u8 (d.take k) 4 = le := by
    rw [u8_take hk _ _ (by omega), ← hd]; simp [u8_skip, u8_here, beNat_encBE_of_lt, *]
  have hloop : ∀ acc, srv6Loop (d.take k) (8 + 8 * (2 * segs.length)) le ((d.take k).length / 16 + 1) 0 0 acc =
      acc ++ segs.take ((k - 8) / 16) := by
    intro acc
    have hd3 : (encBE 1 nh ++ (encBE 1 (2 * segs.length) ++ (encBE 1 4 ++ (encBE 1 sleft ++ (encBE 1 le ++ (encBE 1 r1 ++ encBE 2 r2)))))) ++ (segs.flatMap id ++ rest) = d := by
      rw [← hd]; simp only [List.append_assoc]
    by_cases hkl : k ≤ d.length
    · have := srv6Loop_cut (encBE 1 nh ++ (encBE 1 (2 * segs.length) ++ (encBE 1 4 ++ (encBE 1 sleft ++ (encBE 1 le ++ (encBE 1 r1 ++ encBE 2 r2)))))) rest (8 + 8 * (2 * segs.length)) le k (by simp) segs [] ((d.take k).length / 16 + 1) acc
        (by simpa using hsegs) (by simp; omega) (by simpa using hlast)
      simp only [List.length_nil, Nat.mul_zero, Nat.sub_zero, List.nil_append, Nat.add_zero] at this
      rw [hd3] at this
      refine this ?_ hk
      rw [List.length_take, Nat.min_eq_left hkl]; omega
    · -- the capture is longer than the data: nothing is cut
      have hk2 : d.length ≤ k := by omega
      have h1 := srv6Loop_spec (encBE 1 nh ++ (encBE 1 (2 * segs.length) ++ (encBE 1 4 ++ (encBE 1 sleft ++ (encBE 1 le ++ (encBE 1 r1 ++ encBE 2 r2)))))) rest (8 + 8 * (2 * segs.length)) le (by simp) segs [] (d.length / 16 + 1) acc
        (by simpa using hsegs) (by simp; omega) (by simpa using hlast) (by rw [hlen]; omega)
      simp only [List.length_nil, Nat.mul_zero, List.nil_append] at h1
      rw [hd3] at h1
      rw [List.take_of_length_le hk2, h1, List.take_of_length_le (by omega)]
  unfold parseIPv6HeaderRouting
  rw [if_neg (by rw [List.length_take]; omega)]
  simp only [henc, addLayer, lsv2, h0, h1, h2, h3, h4, hloop]
  simp
  omega

/-! ### an MPLS label stack cut inside -/

theorem mplsLoop_cut (todo : List (Nat × Nat)) :
    ∀ (pre : Bytes) (k fuel : Nat) (ls ts : List Nat), LabelsWF todo → k ≤ 4 * todo.length → k / 4 + 1 ≤ fuel →
    mplsLoop (pre ++ (mplsBytes todo).take k) fuel pre.length ls ts =
      (ls ++ (todo.take (k / 4)).map (·.1), ts ++ (todo.take (k / 4)).map (·.2), pre.length + 4 * (k / 4), none) := by
  induction todo with
  | nil =>
    intro pre k fuel ls ts _ hk hf
    obtain ⟨fuel, rfl⟩ : ∃ f, fuel = f + 1 := ⟨fuel - 1, by omega⟩
    have : k = 0 := by simpa using hk
    subst this
    rw [mplsLoop, if_pos (by simp [mplsBytes])]
    simp
  | cons x xs ih =>
    intro pre k fuel ls ts hwf hk hf
    obtain ⟨l, t⟩ := x
    obtain ⟨fuel, rfl⟩ : ∃ f, fuel = f + 1 := ⟨fuel - 1, by omega⟩
    obtain ⟨hl15, hl20, ht⟩ := hwf (l, t) (by simp)
    simp only [Nat.reducePow] at hl20 ht
    by_cases hk4 : k < 4
    · rw [mplsLoop, if_pos (by simp only [List.length_append, List.length_take]; omega)]
      have : k / 4 = 0 := by omega
      simp [this]
    · cases xs with
      | nil =>
        have hk' : k = 4 := by simp at hk; omega
        subst hk'
        have h := mplsLoop_spec [] [(l, t)] pre (fuel + 1) ls ts (by simp) hwf (by simp)
        have e : (mplsBytes [(l, t)]).take 4 = mplsBytes [(l, t)] ++ [] := by
          rw [List.append_nil, List.take_of_length_le (by rw [mplsBytes_length]; simp)]
        rw [e, h]
        simp [peekEt]
      | cons y ys =>
        have hlen := mplsBytes_length (y :: ys)
        have e : (mplsBytes ((l, t) :: y :: ys)).take k =
            encBE 3 (l * 16) ++ (encBE 1 t ++ (mplsBytes (y :: ys)).take (k - 4)) := by
          simp only [mplsBytes, Spec.Frame.u8, List.append_assoc]
          rw [List.take_append, List.take_of_length_le (by simp; omega), encBE_length, List.take_append,
            List.take_of_length_le (by simp; omega), encBE_length, Nat.sub_sub]
        rw [e]
        have hk2 : k - 4 ≤ 4 * (y :: ys).length := by simp at hk ⊢; omega
        have hlt : ((mplsBytes (y :: ys)).take (k - 4)).length = k - 4 := by
          rw [List.length_take, hlen]; omega
        rw [mplsLoop, if_neg (by simp; omega)]
        have hlabel : be (pre ++ (encBE 3 (l * 16) ++ (encBE 1 t ++ (mplsBytes (y :: ys)).take (k - 4)))) pre.length 3 = l * 16 := by
          rw [be_skip _ _ _ _ (Nat.le_refl _), Nat.sub_self, be_here _ _ _ (by simp), beNat_encBE_of_lt (by omega)]
        have hbot : Producer.u8 (pre ++ (encBE 3 (l * 16) ++ (encBE 1 t ++ (mplsBytes (y :: ys)).take (k - 4)))) (pre.length + 2) = (l * 16) % 256 := by
          rw [u8_skip _ _ _ (by omega), Nat.add_sub_cancel_left, u8_enc3_2]
        have httl : Producer.u8 (pre ++ (encBE 3 (l * 16) ++ (encBE 1 t ++ (mplsBytes (y :: ys)).take (k - 4)))) (pre.length + 3) = t := by
          rw [u8_skip _ _ _ (by omega), Nat.add_sub_cancel_left, u8_skip _ _ _ (by simp)]
          simp [u8_here, beNat_encBE_of_lt, ht]
        simp only [hlabel, hbot, httl]
        rw [if_neg (by simp only [List.length_append, encBE_length, hlt]; omega)]
        have := ih (pre ++ (encBE 3 (l * 16) ++ encBE 1 t)) (k - 4) fuel (ls ++ [l * 16 / 16]) (ts ++ [t])
          (fun lt h => hwf lt (by simp [h])) hk2 (by omega)
        simp only [List.append_assoc, List.length_append, encBE_length] at this
        rw [show pre.length + 4 = pre.length + (3 + 1) by omega, this]
        obtain ⟨j, hj⟩ : ∃ j, k / 4 = j + 1 := ⟨k / 4 - 1, by omega⟩
        have hj' : (k - 4) / 4 = j := by omega
        rw [hj, hj']
        simp
        omega

theorem take_mpls (labels : List (Nat × Nat)) (tail : Bytes) (k : Nat) (hk : k ≤ 4 * labels.length) :
    (mplsBytes labels ++ tail).take k = (mplsBytes labels).take k := by
  rw [List.take_append_of_le_length (by rw [mplsBytes_length]; exact hk)]

/-- the label stack of which the first `k` bytes are captured, `4 ≤ k ≤ 4 · labels`: the labels completely inside,
    no ethertype (nothing to peek), no successor -/
theorem parseMPLS_cut (m : FlowMsg) (labels : List (Nat × Nat)) (tail : Bytes) (pc : PC) (k : Nat)
    (hwf : LabelsWF labels) (hk4 : 4 ≤ k) (hk : k ≤ 4 * labels.length) (henc : pc.encapsulated = false) :
    parseMPLS m ((mplsBytes labels ++ tail).take k) pc =
      ⟨{ m with layerStack := m.layerStack ++ [5], mplsLabel := (labels.take (k / 4)).map (·.1),
                mplsTtl := (labels.take (k / 4)).map (·.2) }, Next.none, 4 * (k / 4)⟩ := by
  rw [take_mpls labels tail k hk]
  have hlen : ((mplsBytes labels).take k).length = k := by rw [List.length_take, mplsBytes_length]; omega
  have hloop := mplsLoop_cut labels [] k (k / 4 + 1) [] [] hwf hk (Nat.le_refl _)
  simp only [List.nil_append, List.length_nil, Nat.zero_add] at hloop
  unfold parseMPLS
  rw [if_neg (by rw [hlen]; omega)]
  simp only [hlen, hloop, henc, addLayer, lsv2]
  simp

theorem parseMPLS_cut_enc (m : FlowMsg) (labels : List (Nat × Nat)) (tail : Bytes) (pc : PC) (k : Nat)
    (hwf : LabelsWF labels) (hk4 : 4 ≤ k) (hk : k ≤ 4 * labels.length) (henc : pc.encapsulated = true) :
    parseMPLS m ((mplsBytes labels ++ tail).take k) pc =
      ⟨{ m with layerStack := m.layerStack ++ [5] }, Next.none, 4 * (k / 4)⟩ := by
  rw [take_mpls labels tail k hk]
  have hlen : ((mplsBytes labels).take k).length = k := by rw [List.length_take, mplsBytes_length]; omega
  have hloop := mplsLoop_cut labels [] k (k / 4 + 1) [] [] hwf hk (Nat.le_refl _)
  simp only [List.nil_append, List.length_nil, Nat.zero_add] at hloop
  unfold parseMPLS
  rw [if_neg (by rw [hlen]; omega)]
  simp only [hlen, hloop, henc, addLayer, lsv2]
  simp

theorem peekEt_take (tail : Bytes) (j : Nat) (hj : 1 ≤ j) : peekEt (tail.take j) = peekEt tail := by
  unfold peekEt
  rw [u8_take hj _ _ (by omega)]
  simp only [List.length_take]
  by_cases h : tail.length > 0
  · rw [if_pos (by omega), if_pos h]
  · rw [if_neg (by omega), if_neg h]

/-- a label stack captured together with at least one byte behind it -/
theorem take_mpls_more (labels : List (Nat × Nat)) (tail : Bytes) (k : Nat) (hk : 4 * labels.length < k) :
    (mplsBytes labels ++ tail).take k = mplsBytes labels ++ tail.take (k - 4 * labels.length) := by
  rw [List.take_append, List.take_of_length_le (by rw [mplsBytes_length]; omega), mplsBytes_length]

/-! ### the loop of ParsePacket on a truncated capture -/

/-- the capture ends before the next header is complete: the chain ends, the message stays -/
theorem loop_short {cfg : Config} {data : Bytes} {fuel : Nat} {next : Next} {off : Nat}
    {encap : Bool} {idx : Nat} {calls : List (Nat × Nat)} {m : FlowMsg}
    (h : data.length < off + Parser.guard next.parser) :
    parseLoop cfg data (fuel + 2) next off encap idx calls m = .ok m := by
  rw [parseLoop]
  by_cases hc : next.callable = true ∧ off ≤ data.length
  · have hr := runParser_short next.parser m (data.drop off)
      ⟨encap, (calls.lookup next.parserIndex).getD 0, cfg.ports⟩ (by rw [List.length_drop]; omega)
    simp only [hc, and_self, if_true, hr, tooShort, Nat.lt_irrefl, decide_false, Bool.false_eq_true, if_false]
    rw [loop_stop (by rfl)]
  · rw [if_neg hc]

/-- one layer of a capture of `n` bytes: the parser sees the first `n - off` bytes of the layer -/
theorem loop_step_cut {cfg : Config} (hcfg : cfg.layers = []) {full : Bytes} {n fuel : Nat} {next : Next} {off : Nat}
    {encap : Bool} {idx : Nat} {calls : List (Nat × Nat)} {m : FlowMsg}
    (hc : next.callable = true) (hon : off ≤ n) (hn : n ≤ full.length) {d : Bytes} (hd : full.drop off = d) (r : PRes)
    (hr : runParser next.parser m (d.take (n - off)) ⟨encap, (calls.lookup next.parserIndex).getD 0, cfg.ports⟩ = r)
    (hrec : m.layerStack.length < r.msg.layerStack.length := by simp) :
    parseLoop cfg (full.take n) (fuel + 1) next off encap idx calls m =
      parseLoop cfg (full.take n) fuel r.next (off + r.size)
        (encap || encapTrig (encapIdx idx next.encapSkip next.layerIndex) r.next.encapSkip r.next.layerIndex)
        (encapIdx idx next.encapSkip next.layerIndex) (bump calls next.parserIndex)
        { r.msg with layerSize := r.msg.layerSize ++ [r.size % 2 ^ 32] } :=
  loop_step' hcfg hc (by rw [List.length_take]; omega) (by rw [List.drop_take, hd]) r hr hrec


theorem take_len {full : Bytes} {n : Nat} (hn : n ≤ full.length) : (full.take n).length = n := by
  rw [List.length_take]; omega

/-! ### layer 4 of a truncated capture -/

theorem loop_l4_cut {cfg : Config} (hcfg : cfg.layers = []) (l : L4) (hl : L4WF cfg.ports l)
    {full : Bytes} {n off : Nat} (hn : n ≤ full.length) (hd : full.drop off = l4Bytes l)
    {fuel : Nat} (hf : 2 ≤ fuel) {calls : List (Nat × Nat)} (hfresh : IcmpFresh calls) (idx : Nat) (m : FlowMsg) :
    parseLoop cfg (full.take n) fuel (nextParserProto (l4Proto l)) off false idx calls m = .ok (l4MsgAt n off l m) := by
  obtain ⟨fuel, rfl⟩ : ∃ f, fuel = f + 2 := ⟨fuel - 2, by omega⟩
  have hlen := take_len hn
  cases l with
  | tcp sp dp seq ack doff flags win opts =>
    obtain ⟨hsp, hdp, _, _, h5, h16, hfl, _, _, hport⟩ := hl
    simp only [l4Bytes, Spec.Frame.u8, Spec.Frame.u16, Spec.Frame.u32, List.append_assoc] at hd
    obtain ⟨ks, hnx⟩ : ∃ ks, nextParserProto (l4Proto (.tcp sp dp seq ack doff flags win opts)) = ⟨.tcp, ks, false⟩ := ⟨_, rfl⟩
    rw [hnx]
    by_cases hg : off + 20 ≤ n
    · rw [loop_step_cut (next := ⟨.tcp, ks, false⟩) (encap := false) (idx := idx) hcfg rfl (by omega) hn hd _
        ((parseTCP_take _ _ _ (by omega)).trans (parseTCP_spec _ _ _ _ _ _ _ _ _ _ _ _ hsp hdp h5 h16 hfl (by rfl)))]
      rw [loop_stop hport]
      have : doff * 4 % 2 ^ 32 = doff * 4 := Nat.mod_eq_of_lt (by omega)
      simp only [l4MsgAt, l4Guard, hg, if_true, l4Msg, this]
    · rw [loop_short (by rw [hlen]; simp only [Parser.guard]; omega)]
      simp only [l4MsgAt, l4Guard, hg, if_false]
  | udp sp dp =>
    obtain ⟨hsp, hdp, hport⟩ := hl
    simp only [l4Bytes, Spec.Frame.u8, Spec.Frame.u16, Spec.Frame.u32, List.append_assoc] at hd
    obtain ⟨ks, hnx⟩ : ∃ ks, nextParserProto (l4Proto (.udp sp dp)) = ⟨.udp, ks, false⟩ := ⟨_, rfl⟩
    rw [hnx]
    by_cases hg : off + 8 ≤ n
    · rw [loop_step_cut (next := ⟨.udp, ks, false⟩) (encap := false) (idx := idx) hcfg rfl (by omega) hn hd _
        ((parseUDP_take _ _ _ (by omega)).trans (parseUDP_spec _ _ _ _ _ hsp hdp (by simp) (by rfl)))]
      rw [loop_stop hport]
      simp only [l4MsgAt, l4Guard, hg, if_true, l4Msg] <;> rfl
    · rw [loop_short (by rw [hlen]; simp only [Parser.guard]; omega)]
      simp only [l4MsgAt, l4Guard, hg, if_false]
  | icmp t c =>
    obtain ⟨ht, hc⟩ := hl
    simp only [l4Bytes, Spec.Frame.u8, Spec.Frame.u16, Spec.Frame.u32, List.append_assoc] at hd
    obtain ⟨ks, hnx⟩ : ∃ ks, nextParserProto (l4Proto (.icmp t c)) = ⟨.icmp, ks, false⟩ := ⟨_, rfl⟩
    have hcalls : (calls.lookup 10).getD 0 = 0 := by rw [hfresh.1]; rfl
    rw [hnx]
    by_cases hg : off + 2 ≤ n
    · rw [loop_step_cut (next := ⟨.icmp, ks, false⟩) (encap := false) (idx := idx) hcfg rfl (by omega) hn hd _
        ((parseICMP_take _ _ _ (by omega)).trans (parseICMP_spec _ _ _ _ _ ht hc hcalls))]
      rw [loop_stop rfl]
      simp only [l4MsgAt, l4Guard, hg, if_true, l4Msg] <;> rfl
    · rw [loop_short (by rw [hlen]; simp only [Parser.guard]; omega)]
      simp only [l4MsgAt, l4Guard, hg, if_false]
  | icmpv6 t c =>
    obtain ⟨ht, hc⟩ := hl
    simp only [l4Bytes, Spec.Frame.u8, Spec.Frame.u16, Spec.Frame.u32, List.append_assoc] at hd
    obtain ⟨ks, hnx⟩ : ∃ ks, nextParserProto (l4Proto (.icmpv6 t c)) = ⟨.icmpv6, ks, false⟩ := ⟨_, rfl⟩
    have hcalls : (calls.lookup 11).getD 0 = 0 := by rw [hfresh.2]; rfl
    rw [hnx]
    by_cases hg : off + 2 ≤ n
    · rw [loop_step_cut (next := ⟨.icmpv6, ks, false⟩) (encap := false) (idx := idx) hcfg rfl (by omega) hn hd _
        ((parseICMPv6_take _ _ _ (by omega)).trans (parseICMPv6_spec _ _ _ _ _ ht hc hcalls))]
      rw [loop_stop rfl]
      simp only [l4MsgAt, l4Guard, hg, if_true, l4Msg] <;> rfl
    · rw [loop_short (by rw [hlen]; simp only [Parser.guard]; omega)]
      simp only [l4MsgAt, l4Guard, hg, if_false]
  | other p pl =>
    simp only [L4WF, List.mem_cons, List.not_mem_nil, or_false, not_or] at hl
    obtain ⟨_, h1, h4, h6, h17, h41, h43, h44, h47, h58⟩ := hl
    rw [loop_stop (by simp [l4Proto, nextParserProto, Next.callable, *])]
    simp [l4MsgAt, l4Msg]

/-! ### tunnelled layers of a truncated capture -/

theorem innerRes_nil' (m : FlowMsg) : innerRes Inner.nil.1 Inner.nil.2 m = m := innerRes_nil m

theorem innerRes_cons' (x : Nat × Nat) (r : Inner) (m : FlowMsg) :
    innerRes (Inner.cons x r).1 (Inner.cons x r).2 m =
      innerRes r.1 r.2 { m with layerStack := m.layerStack ++ [x.1], layerSize := m.layerSize ++ [x.2] } := by
  obtain ⟨a, s⟩ := x
  exact innerRes_cons a s r.1 r.2 m

theorem loop_innerL4_cut {cfg : Config} (hcfg : cfg.layers = []) (l : L4) (hl : L4WF cfg.ports l)
    {full : Bytes} {n off : Nat} (hn : n ≤ full.length) (hd : full.drop off = l4Bytes l)
    {fuel : Nat} (hf : 2 ≤ fuel) {calls : List (Nat × Nat)} (hfresh : IcmpFresh calls)
    (idx : Nat) (m : FlowMsg) :
    parseLoop cfg (full.take n) fuel (nextParserProto (l4Proto l)) off true idx calls m =
      .ok (innerRes (innerL4At n off l).1 (innerL4At n off l).2 m) := by
  obtain ⟨fuel, rfl⟩ : ∃ f, fuel = f + 2 := ⟨fuel - 2, by omega⟩
  have hlen := take_len hn
  cases l with
  | tcp sp dp seq ack doff flags win opts =>
    simp only [L4WF, Nat.reducePow] at hl
    obtain ⟨hsp, hdp, _, _, h5, h16, hfl, _, _, hport⟩ := hl
    simp only [l4Bytes, Spec.Frame.u8, Spec.Frame.u16, Spec.Frame.u32, List.append_assoc] at hd
    obtain ⟨ks, hnx⟩ : ∃ ks, nextParserProto (l4Proto (.tcp sp dp seq ack doff flags win opts)) = ⟨.tcp, ks, false⟩ := ⟨_, rfl⟩
    rw [hnx]
    by_cases hg : off + 20 ≤ n
    · rw [loop_step_cut (next := ⟨.tcp, ks, false⟩) (encap := true) (idx := idx) hcfg rfl (by omega) hn hd _
        ((parseTCP_take _ _ _ (by omega)).trans (parseTCP_enc _ _ _ _ _ _ _ _ _ _ _ _ hsp hdp h5 h16 (by rfl)))]
      rw [loop_stop hport]
      have : doff * 4 % 2 ^ 32 = doff * 4 := Nat.mod_eq_of_lt (by omega)
      simp [innerL4At, l4Guard, hg, stackL4, innerIcmpPayload, innerRes, this]
    · rw [loop_short (by rw [hlen]; simp only [Parser.guard]; omega)]
      simp only [innerL4At, l4Guard, hg, if_false, innerRes_nil']
  | udp sp dp =>
    simp only [L4WF, Nat.reducePow] at hl
    obtain ⟨hsp, hdp, hport⟩ := hl
    simp only [l4Bytes, Spec.Frame.u8, Spec.Frame.u16, Spec.Frame.u32, List.append_assoc] at hd
    obtain ⟨ks, hnx⟩ : ∃ ks, nextParserProto (l4Proto (.udp sp dp)) = ⟨.udp, ks, false⟩ := ⟨_, rfl⟩
    rw [hnx]
    by_cases hg : off + 8 ≤ n
    · rw [loop_step_cut (next := ⟨.udp, ks, false⟩) (encap := true) (idx := idx) hcfg rfl (by omega) hn hd _
        ((parseUDP_take _ _ _ (by omega)).trans (parseUDP_enc _ _ _ _ _ hsp hdp (by simp) (by rfl)))]
      rw [loop_stop hport]
      simp [innerL4At, l4Guard, hg, stackL4, innerIcmpPayload, innerRes]
    · rw [loop_short (by rw [hlen]; simp only [Parser.guard]; omega)]
      simp only [innerL4At, l4Guard, hg, if_false, innerRes_nil']
  | icmp t c =>
    simp only [L4WF, Nat.reducePow] at hl
    obtain ⟨ht, hc⟩ := hl
    simp only [l4Bytes, Spec.Frame.u8, Spec.Frame.u16, Spec.Frame.u32, List.append_assoc] at hd
    obtain ⟨ks, hnx⟩ : ∃ ks, nextParserProto (l4Proto (.icmp t c)) = ⟨.icmp, ks, false⟩ := ⟨_, rfl⟩
    have hcalls : (calls.lookup 10).getD 0 = 0 := by rw [hfresh.1]; rfl
    rw [hnx]
    by_cases hg : off + 2 ≤ n
    · rw [loop_step_cut (next := ⟨.icmp, ks, false⟩) (encap := true) (idx := idx) hcfg rfl (by omega) hn hd _
        ((parseICMP_take _ _ _ (by omega)).trans (parseICMP_spec _ _ _ _ _ ht hc hcalls))]
      rw [loop_stop rfl]
      simp [innerL4At, l4Guard, hg, stackL4, innerIcmpPayload, innerRes]
    · rw [loop_short (by rw [hlen]; simp only [Parser.guard]; omega)]
      simp only [innerL4At, l4Guard, hg, if_false, innerRes_nil']
  | icmpv6 t c =>
    simp only [L4WF, Nat.reducePow] at hl
    obtain ⟨ht, hc⟩ := hl
    simp only [l4Bytes, Spec.Frame.u8, Spec.Frame.u16, Spec.Frame.u32, List.append_assoc] at hd
    obtain ⟨ks, hnx⟩ : ∃ ks, nextParserProto (l4Proto (.icmpv6 t c)) = ⟨.icmpv6, ks, false⟩ := ⟨_, rfl⟩
    have hcalls : (calls.lookup 11).getD 0 = 0 := by rw [hfresh.2]; rfl
    rw [hnx]
    by_cases hg : off + 2 ≤ n
    · rw [loop_step_cut (next := ⟨.icmpv6, ks, false⟩) (encap := true) (idx := idx) hcfg rfl (by omega) hn hd _
        ((parseICMPv6_take _ _ _ (by omega)).trans (parseICMPv6_spec _ _ _ _ _ ht hc hcalls))]
      rw [loop_stop rfl]
      simp [innerL4At, l4Guard, hg, stackL4, innerIcmpPayload, innerRes]
    · rw [loop_short (by rw [hlen]; simp only [Parser.guard]; omega)]
      simp only [innerL4At, l4Guard, hg, if_false, innerRes_nil']
  | other p pl =>
    simp only [L4WF, List.mem_cons, List.not_mem_nil, or_false, not_or] at hl
    obtain ⟨_, h1, h4, h6, h17, h41, h43, h44, h47, h58⟩ := hl
    rw [loop_stop (by simp [l4Proto, nextParserProto, Next.callable, *])]
    have : innerL4At n off (.other p pl) = Inner.nil := by
      simp [innerL4At, stackL4, innerIcmpPayload, Inner.nil]
    rw [this, innerRes_nil']


theorem drop_next {data full rest : Bytes} {off s : Nat} (hd : data.drop off = full) (hrest : full.drop s = rest) :
    data.drop (off + s) = rest := by
  rw [← List.drop_drop, hd, hrest]

theorem drop_next_app {data hdr rest : Bytes} {off s : Nat} (hd : data.drop off = hdr ++ rest) (hs : hdr.length = s) :
    data.drop (off + s) = rest :=
  drop_next hd (List.drop_left' hs)

mutual
theorem loop_innerIP_cut {cfg : Config} (hcfg : cfg.layers = []) {full : Bytes} {n : Nat} (hn : n ≤ full.length) :
    ∀ (p : IP), IPWF cfg.ports p → ∀ (off : Nat), full.drop off = ipBytes p →
    ∀ (fuel : Nat), (stackIP p).length + 2 ≤ fuel → ∀ (ks : List String) (calls : List (Nat × Nat)), IcmpFresh calls →
    ∀ (idx : Nat) (m : FlowMsg),
    parseLoop cfg (full.take n) fuel ⟨ipParser p, ks, false⟩ off true idx calls m =
      .ok (innerRes (innerIPAt n off p).1 (innerIPAt n off p).2 m)
  | .v4 tos ident fl fo ttl src dst pl, hp => by
    intro off hd fuel hf ks calls hfresh idx m
    simp only [IPWF, Nat.reducePow] at hp
    obtain ⟨htos, hident, hfl, hfo, httl, hsrc, hdst, hpl⟩ := hp
    simp only [stackIP, List.length_cons] at hf
    obtain ⟨fuel, rfl⟩ : ∃ f, fuel = f + 2 := ⟨fuel - 2, by omega⟩
    simp only [ipBytes, Spec.Frame.u8, Spec.Frame.u16, Spec.Frame.u32, List.append_assoc] at hd
    have hd' := drop_next (s := 20) (rest := payloadBytes pl) hd (by simp [drop_skip, hsrc, hdst])
    simp only [ipParser]
    by_cases hg : off + 20 ≤ n
    · rw [loop_step_cut (next := ⟨.ipv4, ks, false⟩) (encap := true) (idx := idx) hcfg rfl (by omega) hn hd _
        ((parseIPv4_take _ _ _ (by omega)).trans
          (parseIPv4_enc _ _ _ _ _ _ _ _ _ _ _ _ _ (payloadProto_lt hpl) hsrc hdst (by rfl)))]
      refine Eq.trans (loop_innerPayload_cut hcfg hn pl hpl _ hd' (fuel + 1) (by omega) _
        (hfresh.bump 4 (by decide) (by decide)) _ _) ?_
      simp only [innerIPAt, hg, if_true]
      rw [innerRes_cons'] <;> rfl
    · rw [loop_short (by rw [take_len hn]; simp only [Parser.guard]; omega)]
      simp only [innerIPAt, hg, if_false, innerRes_nil']
  | .v6 tc fl hlim src dst ext pl, hp => by
    intro off hd fuel hf ks calls hfresh idx m
    simp only [IPWF, Nat.reducePow] at hp
    obtain ⟨htc, hfl, hhl, hsrc, hdst, hext, hpl⟩ := hp
    have hnh := payloadProto_lt hpl
    simp only [stackIP, List.length_cons, List.length_append] at hf
    obtain ⟨fuel, rfl⟩ : ∃ f, fuel = f + 2 := ⟨fuel - 2, by omega⟩
    simp only [ipParser]
    by_cases hg : off + 40 ≤ n
    case neg =>
      rw [loop_short (by rw [take_len hn]; simp only [Parser.guard]; omega)]
      simp only [innerIPAt, hg, if_false, innerRes_nil']
    cases ext with
    | none =>
      simp only [ipBytes, Spec.Frame.u8, Spec.Frame.u16, Spec.Frame.u32, List.append_assoc,
        List.nil_append, List.length_nil, Nat.zero_add] at hd
      have hd' := drop_next (s := 40) (rest := payloadBytes pl) hd (by simp [drop_skip, hsrc, hdst])
      rw [loop_step_cut (next := ⟨.ipv6, ks, false⟩) (encap := true) (idx := idx) hcfg rfl (by omega) hn hd _
        ((parseIPv6_take _ _ _ (by omega)).trans (parseIPv6_enc _ _ _ _ _ _ _ _ _ hnh hsrc hdst (by rfl)))]
      simp only [stackExt, List.length_nil] at hf
      refine Eq.trans (loop_innerPayload_cut hcfg hn pl hpl _ hd' (fuel + 1) (by omega) _
        (hfresh.bump 5 (by decide) (by decide)) _ _) ?_
      simp only [innerIPAt, hg, if_true]
      rw [innerRes_cons'] <;> rfl
    | fragment fo fl3 ident =>
      obtain ⟨len, hd⟩ : ∃ len, full.drop off = encBE 4 (6 * 2 ^ 28 + tc * 2 ^ 20 + fl) ++ (encBE 2 len ++ (encBE 1 44 ++
          (encBE 1 hlim ++ (src ++ (dst ++ (encBE 1 (payloadProto pl) ++ (encBE 1 0 ++ (encBE 2 (fo * 8 + fl3) ++
          (encBE 4 ident ++ payloadBytes pl))))))))) :=
        ⟨_, by rw [hd]; simp only [ipBytes, Spec.Frame.u8, Spec.Frame.u16, Spec.Frame.u32, List.append_assoc]; rfl⟩
      have hd1 := drop_next (s := 40) (rest := encBE 1 (payloadProto pl) ++ (encBE 1 0 ++
        (encBE 2 (fo * 8 + fl3) ++ (encBE 4 ident ++ payloadBytes pl)))) hd (by simp [drop_skip, hsrc, hdst])
      have hd2 := drop_next (s := 8) (rest := payloadBytes pl) hd1 (by simp [drop_skip])
      rw [loop_step_cut (next := ⟨.ipv6, ks, false⟩) (encap := true) (idx := idx) hcfg rfl (by omega) hn hd _
        ((parseIPv6_take _ _ _ (by omega)).trans (parseIPv6_enc _ _ _ 44 _ _ _ _ _ (by decide) hsrc hdst (by rfl)))]
      obtain ⟨ks1, hn1⟩ : ∃ ks1, nextParserProto 44 = ⟨.ipv6frag, ks1, false⟩ := ⟨_, rfl⟩
      simp only [hn1, Bool.true_or]
      simp only [stackExt, List.length_cons, List.length_nil] at hf
      by_cases hg2 : off + 48 ≤ n
      · rw [loop_step_cut (next := ⟨.ipv6frag, ks1, false⟩) (encap := true) hcfg rfl (by omega) hn hd1 _
          ((parseFrag_take _ _ _ (by omega)).trans (parseFrag_enc _ _ _ _ _ _ _ hnh (by rfl)))]
        refine Eq.trans (loop_innerPayload_cut hcfg hn pl hpl _ hd2 fuel (by omega) _
          ((hfresh.bump 5 (by decide) (by decide)).bump 6 (by decide) (by decide)) _ _) ?_
        simp only [innerIPAt, hg, hg2, if_true]
        rw [innerRes_cons', innerRes_cons'] <;> rfl
      · obtain ⟨fuel, rfl⟩ : ∃ f, fuel = f + 1 := ⟨fuel - 1, by omega⟩
        rw [loop_short (by rw [take_len hn]; simp only [Parser.guard]; omega)]
        simp only [innerIPAt, hg, hg2, if_true, if_false]
        rw [innerRes_cons', innerRes_nil'] <;> rfl
    | srh sleft le segs =>
      simp only [ExtWF, Nat.reducePow] at hext
      obtain ⟨hsleft, hle, hnseg, hsegs, hlast⟩ := hext
      obtain ⟨len, hd⟩ : ∃ len, full.drop off = encBE 4 (6 * 2 ^ 28 + tc * 2 ^ 20 + fl) ++ (encBE 2 len ++ (encBE 1 43 ++
          (encBE 1 hlim ++ (src ++ (dst ++ (encBE 1 (payloadProto pl) ++ (encBE 1 (2 * segs.length) ++ (encBE 1 4 ++
          (encBE 1 sleft ++ (encBE 1 le ++ (encBE 1 0 ++ (encBE 2 0 ++ (segs.flatMap id ++ payloadBytes pl)))))))))))))  :=
        ⟨_, by rw [hd]; simp only [ipBytes, Spec.Frame.u8, Spec.Frame.u16, Spec.Frame.u32, List.append_assoc]; rfl⟩
      have hd1 := drop_next (s := 40) (rest := encBE 1 (payloadProto pl) ++ (encBE 1 (2 * segs.length) ++
        (encBE 1 4 ++ (encBE 1 sleft ++ (encBE 1 le ++ (encBE 1 0 ++ (encBE 2 0 ++ (segs.flatMap id ++ payloadBytes pl))))))))
        hd (by simp [drop_skip, hsrc, hdst])
      have hd2 := drop_next_app (s := 8 + 16 * segs.length) (rest := payloadBytes pl)
        (hdr := encBE 1 (payloadProto pl) ++ (encBE 1 (2 * segs.length) ++
        (encBE 1 4 ++ (encBE 1 sleft ++ (encBE 1 le ++ (encBE 1 0 ++ (encBE 2 0 ++ segs.flatMap id)))))))
        (by rw [hd1]; simp only [List.append_assoc])
        (by simp only [List.length_append, encBE_length, flat_length segs hsegs]; omega)
      rw [loop_step_cut (next := ⟨.ipv6, ks, false⟩) (encap := true) (idx := idx) hcfg rfl (by omega) hn hd _
        ((parseIPv6_take _ _ _ (by omega)).trans (parseIPv6_enc _ _ _ 43 _ _ _ _ _ (by decide) hsrc hdst (by rfl)))]
      obtain ⟨ks1, hn1⟩ : ∃ ks1, nextParserProto 43 = ⟨.ipv6route, ks1, false⟩ := ⟨_, rfl⟩
      simp only [hn1, Bool.true_or]
      simp only [stackExt, List.length_cons, List.length_nil] at hf
      by_cases hg2 : off + 48 ≤ n
      · rw [loop_step_cut (next := ⟨.ipv6route, ks1, false⟩) (encap := true) hcfg rfl (by omega) hn hd1 _
          ((parseRoute_take_enc _ _ _ (by omega) (by rfl)).trans
            (parseRoute_enc _ _ _ _ _ _ _ _ _ _ hnh (by omega) (by rfl)))]
        have h4 : 8 + 8 * (2 * segs.length) = 8 + 16 * segs.length := by omega
        have h3 : (8 + 16 * segs.length) % 2 ^ 32 = 8 + 16 * segs.length := by omega
        simp only [h4, h3]
        refine Eq.trans (loop_innerPayload_cut hcfg hn pl hpl _ hd2 fuel (by omega) _
          ((hfresh.bump 5 (by decide) (by decide)).bump 7 (by decide) (by decide)) _ _) ?_
        simp only [innerIPAt, hg, hg2, if_true]
        rw [innerRes_cons', innerRes_cons', show off + 40 + (8 + 16 * segs.length) = off + 48 + 16 * segs.length by omega] <;> rfl
      · obtain ⟨fuel, rfl⟩ : ∃ f, fuel = f + 1 := ⟨fuel - 1, by omega⟩
        rw [loop_short (by rw [take_len hn]; simp only [Parser.guard]; omega)]
        simp only [innerIPAt, hg, hg2, if_true, if_false]
        rw [innerRes_cons', innerRes_nil'] <;> rfl
theorem loop_innerPayload_cut {cfg : Config} (hcfg : cfg.layers = []) {full : Bytes} {n : Nat} (hn : n ≤ full.length) :
    ∀ (pl : Payload), PayloadWF cfg.ports pl → ∀ (off : Nat), full.drop off = payloadBytes pl →
    ∀ (fuel : Nat), (stackPayload pl).length + 2 ≤ fuel →
    ∀ (calls : List (Nat × Nat)), IcmpFresh calls → ∀ (idx : Nat) (m : FlowMsg),
    parseLoop cfg (full.take n) fuel (nextParserProto (payloadProto pl)) off true idx calls m =
      .ok (innerRes (innerPayloadAt n off pl).1 (innerPayloadAt n off pl).2 m)
  | .l4 l, hl => by
    intro off hd fuel hf calls hfresh idx m
    exact loop_innerL4_cut hcfg l hl hn hd (by omega) hfresh idx m
  | .gre inner, hin => by
    intro off hd fuel hf calls hfresh idx m
    have het := hi_lo (etherType_lt inner hin)
    simp only [stackPayload, List.length_cons] at hf
    obtain ⟨fuel, rfl⟩ : ∃ f, fuel = f + 2 := ⟨fuel - 2, by omega⟩
    simp only [payloadBytes, Spec.Frame.u16, List.append_assoc] at hd
    rw [encBE_two (etherType inner)] at hd
    simp only [List.cons_append, List.nil_append] at hd
    have hd' := drop_next (s := 4) (rest := etherPayloadBytes inner) hd (by simp [drop_skip])
    obtain ⟨ks, hnx⟩ : ∃ ks, nextParserProto (payloadProto (.gre inner)) = ⟨.gre, ks, false⟩ := ⟨_, rfl⟩
    rw [hnx]
    by_cases hg : off + 4 ≤ n
    · rw [loop_step_cut (next := ⟨.gre, ks, false⟩) (encap := true) (idx := idx) hcfg rfl (by omega) hn hd _
        ((parseGRE_take _ _ _ (by omega)).trans
          (parseGRE_spec _ (encBE 2 0) _ _ _ ⟨true, (calls.lookup 12).getD 0, cfg.ports⟩ (by simp)))]
      simp only [het.1, het.2]
      refine Eq.trans (loop_innerEther_cut hcfg hn inner hin _ hd' (fuel + 1) (by omega)
        _ (hfresh.bump 12 (by decide) (by decide)) _ _) ?_
      simp only [innerPayloadAt, hg, if_true]
      rw [innerRes_cons'] <;> rfl
    · rw [loop_short (by rw [take_len hn]; simp only [Parser.guard]; omega)]
      simp only [innerPayloadAt, hg, if_false, innerRes_nil']
  | .ipip p, hp => by
    intro off hd fuel hf calls hfresh idx m
    obtain ⟨ks, hnx⟩ := ipip_next p
    rw [hnx]
    simp only [payloadBytes, stackPayload, innerPayloadAt] at hd hf ⊢
    exact loop_innerIP_cut hcfg hn p hp off hd fuel hf ks calls hfresh idx m
theorem loop_innerEther_cut {cfg : Config} (hcfg : cfg.layers = []) {full : Bytes} {n : Nat} (hn : n ≤ full.length) :
    ∀ (ep : EtherPayload), EpWF cfg.ports ep → ∀ (off : Nat), full.drop off = etherPayloadBytes ep →
    ∀ (fuel : Nat), (stackEther ep).length + 2 ≤ fuel →
    ∀ (calls : List (Nat × Nat)), IcmpFresh calls → ∀ (idx : Nat) (m : FlowMsg),
    parseLoop cfg (full.take n) fuel (nextParserEtype (etherType ep / 256) (etherType ep % 256)) off true idx calls m =
      .ok (innerRes (innerEtherAt n off ep).1 (innerEtherAt n off ep).2 m)
  | .ip p, hp => by
    intro off hd fuel hf calls hfresh idx m
    obtain ⟨ks, hnx⟩ := ip_next p
    rw [etherType_ip, hnx]
    simp only [etherPayloadBytes, stackEther, innerEtherAt] at hd hf ⊢
    exact loop_innerIP_cut hcfg hn p hp off hd fuel hf ks calls hfresh idx m
  | .mpls labels p, hp => by
    intro off hd fuel hf calls hfresh idx m
    obtain ⟨hne, hlen, hwf, hp⟩ := hp
    simp only [stackEther, List.length_cons] at hf
    obtain ⟨fuel, rfl⟩ : ∃ f, fuel = f + 2 := ⟨fuel - 2, by omega⟩
    simp only [etherPayloadBytes] at hd
    have hd' := drop_next_app (s := 4 * labels.length) hd (mplsBytes_length labels)
    obtain ⟨ks, hnx⟩ : ∃ ks, nextParserEtype (34887 / 256) (34887 % 256) = ⟨.mpls, ks, false⟩ := ⟨_, rfl⟩
    simp only [etherType]
    rw [hnx]
    by_cases hg : off + 4 ≤ n
    case neg =>
      rw [loop_short (by rw [take_len hn]; simp only [Parser.guard]; omega)]
      simp only [innerEtherAt, hg, if_false, innerRes_nil']
    by_cases hg2 : off + 4 * labels.length < n
    · rw [loop_step_cut (next := ⟨.mpls, ks, false⟩) (encap := true) (idx := idx) hcfg rfl (by omega) hn hd _
        ((congrArg (fun d => parseMPLS m d _) (take_mpls_more labels (ipBytes p) (n - off) (by omega))).trans
          (parseMPLS_enc _ labels _ _ _ _ hne hwf ((peekEt_take _ _ (by omega)).trans (peek_ip p hp)) (by rfl)))]
      obtain ⟨ks', hn'⟩ := ip_next p
      simp only [hn']
      have h1 : 4 * labels.length % 2 ^ 32 = 4 * labels.length := Nat.mod_eq_of_lt (by omega)
      simp only [h1]
      refine Eq.trans (loop_innerIP_cut hcfg hn p hp _ hd' (fuel + 1) (by omega) ks' _
        (hfresh.bump 3 (by decide) (by decide)) _ _) ?_
      simp only [innerEtherAt, hg, hg2, if_true]
      rw [innerRes_cons'] <;> rfl
    · rw [loop_step_cut (next := ⟨.mpls, ks, false⟩) (encap := true) (idx := idx) hcfg rfl (by omega) hn hd _
        (parseMPLS_cut_enc _ labels _ _ (n - off) hwf (by omega) (by omega) (by rfl))]
      rw [loop_stop (by rfl)]
      have h1 : 4 * ((n - off) / 4) % 2 ^ 32 = 4 * ((n - off) / 4) := Nat.mod_eq_of_lt (by omega)
      simp only [innerEtherAt, hg, hg2, if_true, if_false, h1]
      simp [innerRes]
  | .raw t b, ht => by
    intro off hd fuel hf calls hfresh idx m
    obtain ⟨ks, hnx⟩ := raw_next t ht.2
    obtain ⟨fuel, rfl⟩ : ∃ f, fuel = f + 1 := ⟨fuel - 1, by omega⟩
    simp only [etherType, hnx]
    rw [loop_stop rfl]
    simp only [innerEtherAt, innerRes_nil']
end


/-! ### the outer layers of a truncated capture -/

theorem loop_payload_cut {cfg : Config} (hcfg : cfg.layers = []) (pl : Payload) (hpl : PayloadWF cfg.ports pl)
    {full : Bytes} {n off : Nat} (hn : n ≤ full.length) (hd : full.drop off = payloadBytes pl)
    {fuel : Nat} (hf : (stackPayload pl).length + 3 ≤ fuel) {calls : List (Nat × Nat)} (hfresh : IcmpFresh calls)
    (li : Nat) (hli : 30 ≤ li ∧ li < 40) (m : FlowMsg) :
    parseLoop cfg (full.take n) fuel (nextParserProto (payloadProto pl)) off
      (false || encapTrig li (nextParserProto (payloadProto pl)).encapSkip
        (nextParserProto (payloadProto pl)).layerIndex) li calls m = .ok (payloadResAt n off pl m) := by
  match pl, hpl with
  | .l4 l, hl =>
    have e := l4_noencap hl li hli.2
    change parseLoop cfg (full.take n) fuel (nextParserProto (l4Proto l)) off (false || encapTrig li
      (nextParserProto (l4Proto l)).encapSkip (nextParserProto (l4Proto l)).layerIndex) li calls m = _
    rw [e]
    exact loop_l4_cut hcfg l hl hn hd (by omega) hfresh li m
  | .ipip p, hp =>
    obtain ⟨ks, hnx⟩ := ipip_next p
    rw [hnx, ip_encap p ks li hli.1]
    simp only [payloadBytes, stackPayload] at hd hf
    exact loop_innerIP_cut hcfg hn p hp off hd fuel (by omega) ks calls hfresh li m
  | .gre inner, hin =>
    have het := hi_lo (etherType_lt inner hin)
    simp only [stackPayload, List.length_cons] at hf
    obtain ⟨fuel, rfl⟩ : ∃ f, fuel = f + 2 := ⟨fuel - 2, by omega⟩
    simp only [payloadBytes, Spec.Frame.u16, List.append_assoc] at hd
    rw [encBE_two (etherType inner)] at hd
    simp only [List.cons_append, List.nil_append] at hd
    have hd' := drop_next (s := 4) (rest := etherPayloadBytes inner) hd (by simp [drop_skip])
    obtain ⟨ks, hnx⟩ : ∃ ks, nextParserProto (payloadProto (.gre inner)) = ⟨.gre, ks, false⟩ := ⟨_, rfl⟩
    rw [hnx, gre_noencap ks li hli.2, Bool.or_false]
    by_cases hg : off + 4 ≤ n
    case neg =>
      rw [loop_short (by rw [take_len hn]; simp only [Parser.guard]; omega)]
      simp only [payloadResAt, hg, if_false]
    rw [loop_step_cut (next := ⟨.gre, ks, false⟩) (encap := false) (idx := li) hcfg rfl (by omega) hn hd _
      ((parseGRE_take _ _ _ (by omega)).trans
        (parseGRE_spec _ (encBE 2 0) _ _ _ ⟨false, (calls.lookup 12).getD 0, cfg.ports⟩ (by simp)))]
    simp only [het.1, het.2]
    rw [show encapIdx li (Next.encapSkip ⟨.gre, ks, false⟩) (Next.layerIndex ⟨.gre, ks, false⟩) = 40 from rfl]
    simp only [payloadResAt, hg, if_true]
    match inner, hin with
    | .raw t b, ht =>
      obtain ⟨ks', hn'⟩ := raw_next t ht.2
      simp only [etherType, hn']
      rw [loop_stop rfl]
      simp only [innerEtherAt, innerRes_nil']
    | .ip p, hp =>
      obtain ⟨ks', hn'⟩ := ip_next p
      have henc : (false || encapTrig 40 (nextParserEtype (etherType (.ip p) / 256) (etherType (.ip p) % 256)).encapSkip
          (nextParserEtype (etherType (.ip p) / 256) (etherType (.ip p) % 256)).layerIndex) = true := by
        rw [etherType_ip, hn', ip_encap p ks' 40 (by omega)]; rfl
      rw [henc]
      exact loop_innerEther_cut hcfg hn (.ip p) hp _ hd' (fuel + 1) (by omega) _
        (hfresh.bump 12 (by decide) (by decide)) _ _
    | .mpls labels p, hp =>
      have henc : (false || encapTrig 40 (nextParserEtype (etherType (.mpls labels p) / 256) (etherType (.mpls labels p) % 256)).encapSkip
          (nextParserEtype (etherType (.mpls labels p) / 256) (etherType (.mpls labels p) % 256)).layerIndex) = true := by
        simp only [etherType]; rfl
      rw [henc]
      exact loop_innerEther_cut hcfg hn (.mpls labels p) hp _ hd' (fuel + 1) (by omega) _
        (hfresh.bump 12 (by decide) (by decide)) _ _

theorem loop_ip_cut {cfg : Config} (hcfg : cfg.layers = []) (p : IP) (hp : IPWF cfg.ports p)
    {full : Bytes} {n off : Nat} (hn : n ≤ full.length) (hd : full.drop off = ipBytes p)
    {fuel : Nat} (hf : (stackIP p).length + 3 ≤ fuel) (ks : List String) {calls : List (Nat × Nat)}
    (hfresh : IcmpFresh calls) (idx : Nat) (m : FlowMsg) :
    parseLoop cfg (full.take n) fuel ⟨ipParser p, ks, false⟩ off false idx calls m = .ok (ipResAt n off p m) := by
  match p, hp with
  | .v4 tos ident fl fo ttl src dst pl, hp =>
    simp only [stackIP, List.length_cons] at hf
    obtain ⟨fuel, rfl⟩ : ∃ f, fuel = f + 2 := ⟨fuel - 2, by omega⟩
    simp only [IPWF, Nat.reducePow] at hp
    obtain ⟨htos, hident, hfl, hfo, httl, hsrc, hdst, hpl⟩ := hp
    simp only [ipBytes, Spec.Frame.u8, Spec.Frame.u16, Spec.Frame.u32, List.append_assoc] at hd
    have hd' := drop_next (s := 20) (rest := payloadBytes pl) hd (by simp [drop_skip, hsrc, hdst])
    simp only [ipParser]
    by_cases hg : off + 20 ≤ n
    case neg =>
      rw [loop_short (by rw [take_len hn]; simp only [Parser.guard]; omega)]
      simp only [ipResAt, hg, if_false]
    rw [loop_step_cut (next := ⟨.ipv4, ks, false⟩) (encap := false) (idx := idx) hcfg rfl (by omega) hn hd _
      ((parseIPv4_take _ _ _ (by omega)).trans
        (parseIPv4_spec m 0x45 tos (20 + (payloadBytes pl).length) ident (fl * 8192 + fo) ttl (payloadProto pl) 0
          src dst (payloadBytes pl) _ htos hident (by omega) httl (payloadProto_lt hpl) hsrc hdst rfl))]
    refine Eq.trans (loop_payload_cut hcfg pl hpl hn hd' (by omega) (hfresh.bump 4 (by decide) (by decide)) 30
      (by omega) _) ?_
    have h1 : (fl * 8192 + fo) % 8192 = fo := by omega
    have h2 : (fl * 8192 + fo) / 8192 = fl := by omega
    simp only [ipResAt, hg, if_true, ipMsg, h1, h2]
  | .v6 tc fl hlim src dst ext pl, hp =>
    simp only [stackIP, List.length_cons, List.length_append] at hf
    obtain ⟨fuel, rfl⟩ : ∃ f, fuel = f + 2 := ⟨fuel - 2, by omega⟩
    simp only [IPWF, Nat.reducePow] at hp
    obtain ⟨htc, hfl, hhl, hsrc, hdst, hext, hpl⟩ := hp
    have h1 : (6 * 2 ^ 28 + tc * 2 ^ 20 + fl) / 65536 % 65536 % 4096 / 16 = tc := by omega
    have h2 : (6 * 2 ^ 28 + tc * 2 ^ 20 + fl) % 2 ^ 32 % 2 ^ 20 = fl := by omega
    have hnh := payloadProto_lt hpl
    simp only [ipParser]
    by_cases hg : off + 40 ≤ n
    case neg =>
      rw [loop_short (by rw [take_len hn]; simp only [Parser.guard]; omega)]
      simp only [ipResAt, hg, if_false]
    cases ext with
    | none =>
      simp only [stackExt, List.length_nil] at hf
      simp only [ipBytes, Spec.Frame.u8, Spec.Frame.u16, Spec.Frame.u32, List.append_assoc,
        List.nil_append, List.length_nil, Nat.zero_add] at hd
      have hd' := drop_next (s := 40) (rest := payloadBytes pl) hd (by simp [drop_skip, hsrc, hdst])
      rw [loop_step_cut (next := ⟨.ipv6, ks, false⟩) (encap := false) (idx := idx) hcfg rfl (by omega) hn hd _
        ((parseIPv6_take _ _ _ (by omega)).trans
          (parseIPv6_spec m (6 * 2 ^ 28 + tc * 2 ^ 20 + fl) (payloadBytes pl).length (payloadProto pl) hlim src dst
            (payloadBytes pl) _ hnh hhl hsrc hdst rfl))]
      refine Eq.trans (loop_payload_cut hcfg pl hpl hn hd' (by omega) (hfresh.bump 5 (by decide) (by decide)) 30
        (by omega) _) ?_
      simp only [ipResAt, hg, if_true, ipMsg, v6First, h1, h2]
    | fragment fo fl3 ident =>
      simp only [stackExt, List.length_cons, List.length_nil] at hf
      simp only [ExtWF, Nat.reducePow] at hext
      obtain ⟨hfo, hfl3, hident⟩ := hext
      obtain ⟨len, hd⟩ : ∃ len, full.drop off = encBE 4 (6 * 2 ^ 28 + tc * 2 ^ 20 + fl) ++ (encBE 2 len ++ (encBE 1 44 ++
          (encBE 1 hlim ++ (src ++ (dst ++ (encBE 1 (payloadProto pl) ++ (encBE 1 0 ++ (encBE 2 (fo * 8 + fl3) ++
          (encBE 4 ident ++ payloadBytes pl))))))))) :=
        ⟨_, by rw [hd]; simp only [ipBytes, Spec.Frame.u8, Spec.Frame.u16, Spec.Frame.u32, List.append_assoc]; rfl⟩
      have hd1 := drop_next (s := 40) (rest := encBE 1 (payloadProto pl) ++ (encBE 1 0 ++
        (encBE 2 (fo * 8 + fl3) ++ (encBE 4 ident ++ payloadBytes pl)))) hd (by simp [drop_skip, hsrc, hdst])
      have hd2 := drop_next (s := 8) (rest := payloadBytes pl) hd1 (by simp [drop_skip])
      rw [loop_step_cut (next := ⟨.ipv6, ks, false⟩) (encap := false) (idx := idx) hcfg rfl (by omega) hn hd _
        ((parseIPv6_take _ _ _ (by omega)).trans
          (parseIPv6_spec _ _ _ 44 _ _ _ _ _ (by decide) hhl hsrc hdst (by rfl)))]
      obtain ⟨ks1, hn1⟩ : ∃ ks1, nextParserProto 44 = ⟨.ipv6frag, ks1, false⟩ := ⟨_, rfl⟩
      simp only [hn1]
      rw [show (false || encapTrig (encapIdx idx (Next.encapSkip ⟨.ipv6, ks, false⟩) (Next.layerIndex ⟨.ipv6, ks, false⟩))
          (Next.encapSkip ⟨.ipv6frag, ks1, false⟩) (Next.layerIndex ⟨.ipv6frag, ks1, false⟩)) = false from rfl,
        show encapIdx idx (Next.encapSkip ⟨.ipv6, ks, false⟩) (Next.layerIndex ⟨.ipv6, ks, false⟩) = 30 from rfl]
      by_cases hg2 : off + 48 ≤ n
      · rw [loop_step_cut (next := ⟨.ipv6frag, ks1, false⟩) (encap := false) (idx := 30) hcfg rfl (by omega) hn hd1 _
          ((parseFrag_take _ _ _ (by omega)).trans (parseFrag_spec _ _ _ _ _ _ _ hnh (by omega) hident (by rfl)))]
        refine Eq.trans (loop_payload_cut hcfg pl hpl hn hd2 (by omega)
          ((hfresh.bump 5 (by decide) (by decide)).bump 6 (by decide) (by decide)) 30 (by omega) _) ?_
        have h3 : (fo * 8 + fl3) / 8 = fo := by omega
        have h4 : (fo * 8 + fl3) % 8 = fl3 := by omega
        simp only [ipResAt, hg, hg2, if_true, extMsg, ipMsg, v6First, h1, h2, h3, h4]
      · obtain ⟨fuel, rfl⟩ : ∃ f, fuel = f + 1 := ⟨fuel - 1, by omega⟩
        rw [loop_short (by rw [take_len hn]; simp only [Parser.guard]; omega)]
        simp only [ipResAt, hg, hg2, if_true, if_false, ipMsg, v6First, h1, h2]
    | srh sleft le segs =>
      simp only [stackExt, List.length_cons, List.length_nil] at hf
      simp only [ExtWF, Nat.reducePow] at hext
      obtain ⟨hsleft, hle, hnseg, hsegs, hlast⟩ := hext
      obtain ⟨len, hd⟩ : ∃ len, full.drop off = encBE 4 (6 * 2 ^ 28 + tc * 2 ^ 20 + fl) ++ (encBE 2 len ++ (encBE 1 43 ++
          (encBE 1 hlim ++ (src ++ (dst ++ (encBE 1 (payloadProto pl) ++ (encBE 1 (2 * segs.length) ++ (encBE 1 4 ++
          (encBE 1 sleft ++ (encBE 1 le ++ (encBE 1 0 ++ (encBE 2 0 ++ (segs.flatMap id ++ payloadBytes pl)))))))))))))  :=
        ⟨_, by rw [hd]; simp only [ipBytes, Spec.Frame.u8, Spec.Frame.u16, Spec.Frame.u32, List.append_assoc]; rfl⟩
      have hd1 := drop_next (s := 40) (rest := encBE 1 (payloadProto pl) ++ (encBE 1 (2 * segs.length) ++
        (encBE 1 4 ++ (encBE 1 sleft ++ (encBE 1 le ++ (encBE 1 0 ++ (encBE 2 0 ++ (segs.flatMap id ++ payloadBytes pl))))))))
        hd (by simp [drop_skip, hsrc, hdst])
      have hd2 := drop_next_app (s := 8 + 16 * segs.length) (rest := payloadBytes pl)
        (hdr := encBE 1 (payloadProto pl) ++ (encBE 1 (2 * segs.length) ++
        (encBE 1 4 ++ (encBE 1 sleft ++ (encBE 1 le ++ (encBE 1 0 ++ (encBE 2 0 ++ segs.flatMap id)))))))
        (by rw [hd1]; simp only [List.append_assoc])
        (by simp only [List.length_append, encBE_length, flat_length segs hsegs]; omega)
      rw [loop_step_cut (next := ⟨.ipv6, ks, false⟩) (encap := false) (idx := idx) hcfg rfl (by omega) hn hd _
        ((parseIPv6_take _ _ _ (by omega)).trans
          (parseIPv6_spec _ _ _ 43 _ _ _ _ _ (by decide) hhl hsrc hdst (by rfl)))]
      obtain ⟨ks1, hn1⟩ : ∃ ks1, nextParserProto 43 = ⟨.ipv6route, ks1, false⟩ := ⟨_, rfl⟩
      simp only [hn1]
      rw [show (false || encapTrig (encapIdx idx (Next.encapSkip ⟨.ipv6, ks, false⟩) (Next.layerIndex ⟨.ipv6, ks, false⟩))
          (Next.encapSkip ⟨.ipv6route, ks1, false⟩) (Next.layerIndex ⟨.ipv6route, ks1, false⟩)) = false from rfl,
        show encapIdx idx (Next.encapSkip ⟨.ipv6, ks, false⟩) (Next.layerIndex ⟨.ipv6, ks, false⟩) = 30 from rfl]
      by_cases hg2 : off + 48 ≤ n
      · rw [loop_step_cut (next := ⟨.ipv6route, ks1, false⟩) (encap := false) (idx := 30) hcfg rfl (by omega) hn hd1 _
          (parseRoute_cut _ _ _ _ _ _ _ _ _ (n - (off + 40)) hnh hsleft hle hnseg hsegs hlast (by rfl) (by omega))]
        refine Eq.trans (loop_payload_cut hcfg pl hpl hn hd2 (by omega)
          ((hfresh.bump 5 (by decide) (by decide)).bump 7 (by decide) (by decide)) 35 (by omega) _) ?_
        have h3 : (8 + 16 * segs.length) % 2 ^ 32 = 8 + 16 * segs.length := Nat.mod_eq_of_lt (by omega)
        simp only [ipResAt, hg, hg2, if_true, srhMsgAt, ipMsg, v6First, h1, h2, h3,
          show off + 40 + (8 + 16 * segs.length) = off + 48 + 16 * segs.length by omega]
      · obtain ⟨fuel, rfl⟩ : ∃ f, fuel = f + 1 := ⟨fuel - 1, by omega⟩
        rw [loop_short (by rw [take_len hn]; simp only [Parser.guard]; omega)]
        simp only [ipResAt, hg, hg2, if_true, if_false, ipMsg, v6First, h1, h2]

theorem loop_ep_cut {cfg : Config} (hcfg : cfg.layers = []) (ep : EtherPayload) (hep : EpWF cfg.ports ep)
    {full : Bytes} {n off : Nat} (hn : n ≤ full.length) (hd : full.drop off = etherPayloadBytes ep)
    {fuel : Nat} (hf : (stackEther ep).length + 3 ≤ fuel) (ks : List String) {calls : List (Nat × Nat)}
    (hfresh : IcmpFresh calls) (idx : Nat) (hidx : idx ≤ 25) (m : FlowMsg) :
    parseLoop cfg (full.take n) fuel ⟨epParser ep, ks, false⟩ off false idx calls m = .ok (epResAt n off ep m) := by
  match ep, hep with
  | .raw t b, _ =>
    obtain ⟨fuel, rfl⟩ : ∃ f, fuel = f + 1 := ⟨fuel - 1, by omega⟩
    simp only [epParser, epResAt]
    rw [loop_stop rfl]
  | .ip p, hp =>
    simp only [etherPayloadBytes, stackEther] at hd hf
    exact loop_ip_cut hcfg p hp hn hd hf ks hfresh idx m
  | .mpls labels p, ⟨hne, hlen, hwf, hp⟩ =>
    simp only [stackEther, List.length_cons] at hf
    obtain ⟨fuel, rfl⟩ : ∃ f, fuel = f + 2 := ⟨fuel - 2, by omega⟩
    simp only [etherPayloadBytes] at hd
    have hd' := drop_next_app (s := 4 * labels.length) hd (mplsBytes_length labels)
    simp only [epParser]
    by_cases hg : off + 4 ≤ n
    case neg =>
      rw [loop_short (by rw [take_len hn]; simp only [Parser.guard]; omega)]
      simp only [epResAt, hg, if_false]
    by_cases hg2 : off + 4 * labels.length < n
    · rw [loop_step_cut (next := ⟨.mpls, ks, false⟩) (encap := false) (idx := idx) hcfg rfl (by omega) hn hd _
        ((congrArg (fun d => parseMPLS m d _) (take_mpls_more labels (ipBytes p) (n - off) (by omega))).trans
          (parseMPLS_spec _ labels _ _ _ _ hne hwf ((peekEt_take _ _ (by omega)).trans (peek_ip p hp)) (by rfl)))]
      obtain ⟨ks', hnx⟩ := ip_next p
      simp only [hnx, Bool.false_or]
      rw [show encapIdx idx (Next.encapSkip ⟨.mpls, ks, false⟩) (Next.layerIndex ⟨.mpls, ks, false⟩) = idx from rfl,
        ip_noencap p ks' idx (by omega)]
      refine Eq.trans (loop_ip_cut hcfg p hp hn hd' (by omega) ks' (hfresh.bump 3 (by decide) (by decide)) idx _) ?_
      have h1 : 4 * labels.length % 2 ^ 32 = 4 * labels.length := Nat.mod_eq_of_lt (by omega)
      have h2 : ipEtype p / 256 * 256 + ipEtype p % 256 = ipEtype p := by omega
      simp only [epResAt, hg, hg2, if_true, mplsMsg, h1, h2]
    · rw [loop_step_cut (next := ⟨.mpls, ks, false⟩) (encap := false) (idx := idx) hcfg rfl (by omega) hn hd _
        (parseMPLS_cut _ labels _ _ (n - off) hwf (by omega) (by omega) (by rfl))]
      rw [loop_stop (by rfl)]
      have h1 : 4 * ((n - off) / 4) % 2 ^ 32 = 4 * ((n - off) / 4) := Nat.mod_eq_of_lt (by omega)
      simp only [epResAt, hg, hg2, if_true, if_false, mplsMsgAt, h1]

/-! ### Ethernet and the 802.1Q tags of a truncated capture -/

theorem vlansResAt_cons (n off : Nat) (ep : EtherPayload) (v : Nat) (vs : List Nat) (m : FlowMsg) :
    vlansResAt n off ep (v :: vs) m =
      if off + 4 ≤ n then vlansResAt n (off + 4) ep vs (tagMsg v (l2Etype ep vs) m) else m := by
  rw [vlansResAt]

theorem loop_vlans_cut {cfg : Config} (hcfg : cfg.layers = []) (ep : EtherPayload) (hep : EpWF cfg.ports ep)
    (vs : List Nat) (v : Nat) (hv : v < 65536) (hvs : ∀ x ∈ vs, x < 65536)
    {full : Bytes} {n off : Nat} (hn : n ≤ full.length)
    (hd : full.drop off = encBE 2 v ++ (vlanBytes (etherType ep) vs ++ etherPayloadBytes ep))
    {fuel : Nat} (hf : vs.length + (stackEther ep).length + 4 ≤ fuel) (ks : List String)
    {calls : List (Nat × Nat)} (hfresh : IcmpFresh calls) (idx : Nat) (hidx : idx ≤ 25) (m : FlowMsg) :
    parseLoop cfg (full.take n) fuel ⟨.dot1q, ks, false⟩ off false idx calls m =
      .ok (vlansResAt n off ep (v :: vs) m) := by
  have het := hi_lo (etherType_lt ep hep)
  induction vs generalizing v off fuel ks calls m with
  | nil =>
    obtain ⟨fuel, rfl⟩ : ∃ f, fuel = f + 2 := ⟨fuel - 2, by omega⟩
    simp only [vlanBytes, Spec.Frame.u16, encBE_two (etherType ep), List.cons_append, List.nil_append] at hd
    have hd' := drop_next (s := 4) (rest := etherPayloadBytes ep) hd (by simp [drop_skip])
    by_cases hg : off + 4 ≤ n
    case neg =>
      rw [loop_short (by rw [take_len hn]; simp only [Parser.guard]; omega)]
      simp only [vlansResAt, hg, if_false]
    rw [loop_step_cut (next := ⟨.dot1q, ks, false⟩) (encap := false) (idx := idx) hcfg rfl (by omega) hn hd _
      ((parse8021Q_take _ _ _ (by omega)).trans (parse8021Q_spec _ (encBE 2 v) _ _ _ _ (by simp) (by rfl)))]
    obtain ⟨ks', hnx⟩ := ep_next ep hep
    simp only [Bool.false_or, het.1, het.2, hnx]
    rw [show encapIdx idx (Next.encapSkip ⟨.dot1q, ks, false⟩) (Next.layerIndex ⟨.dot1q, ks, false⟩) = idx from rfl,
      ep_noencap ep hep ks' idx hidx]
    refine Eq.trans (loop_ep_cut hcfg ep hep hn hd' (by simp at hf ⊢; omega) ks' (hfresh.bump 2 (by decide) (by decide)) idx hidx _) ?_
    have hval : etherType ep / 256 * 256 + etherType ep % 256 = etherType ep := by omega
    simp [vlansResAt, hg, tagMsg, l2Etype, beNat_encBE_of_lt (show v < 256 ^ 2 from hv), hval]
  | cons w ws ih =>
    obtain ⟨fuel, rfl⟩ : ∃ f, fuel = f + 2 := ⟨fuel - 2, by omega⟩
    simp only [vlanBytes, Spec.Frame.u16, List.append_assoc] at hd
    rw [encBE_two 33024] at hd
    simp only [List.cons_append, List.nil_append] at hd
    have hd' := drop_next (s := 4) (rest := encBE 2 w ++ (vlanBytes (etherType ep) ws ++ etherPayloadBytes ep)) hd
      (by simp [drop_skip])
    by_cases hg : off + 4 ≤ n
    case neg =>
      rw [loop_short (by rw [take_len hn]; simp only [Parser.guard]; omega)]
      simp only [vlansResAt, hg, if_false]
    rw [loop_step_cut (next := ⟨.dot1q, ks, false⟩) (encap := false) (idx := idx) hcfg rfl (by omega) hn hd _
      ((parse8021Q_take _ _ _ (by omega)).trans (parse8021Q_spec _ (encBE 2 v) _ _ _ _ (by simp) (by rfl)))]
    obtain ⟨ks', hnx⟩ := dot1q_next
    simp only [Bool.false_or, hnx]
    rw [show encapIdx idx (Next.encapSkip ⟨.dot1q, ks, false⟩) (Next.layerIndex ⟨.dot1q, ks, false⟩) = idx from rfl,
      dot1q_noencap ks' idx hidx]
    refine Eq.trans (ih w (hvs w (by simp)) (fun x hx => hvs x (by simp [hx])) hd' (by simp at hf ⊢; omega) ks'
      (hfresh.bump 2 (by decide) (by decide)) _) ?_
    rw [vlansResAt_cons n off ep v (w :: ws) m, if_pos hg]
    simp [tagMsg, l2Etype, beNat_encBE_of_lt (show v < 256 ^ 2 from hv)]

/-- the message after the Ethernet header and everything behind it, `n` bytes captured -/
def ethResAt (n : Nat) (d s : Nat) (vs : List Nat) (ep : EtherPayload) (m : FlowMsg) : FlowMsg :=
  if 14 ≤ n then vlansResAt n 14 ep vs { ethMsg d s m with etype := l2Etype ep vs } else m

theorem loop_eth_cut {cfg : Config} (hcfg : cfg.layers = []) (ep : EtherPayload) (hep : EpWF cfg.ports ep)
    (vs : List Nat) (hvs : ∀ x ∈ vs, x < 65536) (d s : Nat) (hd : d < 2 ^ 48) (hs : s < 2 ^ 48) {n : Nat}
    (hn : n ≤ (encBE 6 d ++ (encBE 6 s ++ (vlanBytes (etherType ep) vs ++ etherPayloadBytes ep))).length)
    {fuel : Nat} (hf : vs.length + (stackEther ep).length + 5 ≤ fuel) (ks : List String) (m : FlowMsg) :
    parseLoop cfg ((encBE 6 d ++ (encBE 6 s ++ (vlanBytes (etherType ep) vs ++ etherPayloadBytes ep))).take n) fuel
        ⟨.ethernet, ks, false⟩ 0 false 20 [] m =
      .ok (ethResAt n d s vs ep m) := by
  have het := hi_lo (etherType_lt ep hep)
  obtain ⟨fuel, rfl⟩ : ∃ f, fuel = f + 2 := ⟨fuel - 2, by omega⟩
  have hdv : beNat (encBE 6 d) = d := beNat_encBE_of_lt (show d < 256 ^ 6 from hd)
  have hsv : beNat (encBE 6 s) = s := beNat_encBE_of_lt (show s < 256 ^ 6 from hs)
  generalize hdata : encBE 6 d ++ (encBE 6 s ++ (vlanBytes (etherType ep) vs ++ etherPayloadBytes ep)) = data at hn ⊢
  by_cases hg : 14 ≤ n
  case neg =>
    rw [loop_short (by rw [take_len hn]; simp only [Parser.guard]; omega)]
    simp only [ethResAt, hg, if_false]
  cases vs with
  | nil =>
    have hd0 : data.drop 0 = encBE 6 d ++ (encBE 6 s ++ (UInt8.ofNat (etherType ep / 256 % 256) ::
        UInt8.ofNat (etherType ep % 256) :: etherPayloadBytes ep)) := by
      rw [← hdata]; simp [vlanBytes, Spec.Frame.u16, encBE_two (etherType ep)]
    have hd' := drop_next (s := 14) (rest := etherPayloadBytes ep) hd0 (by simp [drop_skip])
    rw [loop_step_cut (next := ⟨.ethernet, ks, false⟩) (encap := false) (idx := 20) hcfg rfl (by omega) hn hd0 _
      ((parseEthernet_take _ _ _ (by omega)).trans
        (parseEthernet_spec _ (encBE 6 d) (encBE 6 s) _ _ _ _ (by simp) (by simp) (by rfl)))]
    obtain ⟨ks', hnx⟩ := ep_next ep hep
    simp only [Bool.false_or, het.1, het.2, hnx]
    rw [show encapIdx 20 (Next.encapSkip ⟨.ethernet, ks, false⟩) (Next.layerIndex ⟨.ethernet, ks, false⟩) = 20 from rfl,
      ep_noencap ep hep ks' 20 (by omega)]
    refine Eq.trans (loop_ep_cut hcfg ep hep hn hd' (by simp at hf ⊢; omega) ks' (IcmpFresh.nil.bump 1 (by decide) (by decide))
      20 (by omega) _) ?_
    have hval : etherType ep / 256 * 256 + etherType ep % 256 = etherType ep := by omega
    simp [ethResAt, hg, vlansResAt, l2Etype, ethMsg, hdv, hsv, hval]
  | cons v vs =>
    have hd0 : data.drop 0 = encBE 6 d ++ (encBE 6 s ++ (UInt8.ofNat (33024 / 256 % 256) ::
        UInt8.ofNat (33024 % 256) :: (encBE 2 v ++ (vlanBytes (etherType ep) vs ++ etherPayloadBytes ep)))) := by
      rw [← hdata]; simp [vlanBytes, Spec.Frame.u16, encBE_two 33024]
    have hd' := drop_next (s := 14) (rest := encBE 2 v ++ (vlanBytes (etherType ep) vs ++ etherPayloadBytes ep)) hd0
      (by simp [drop_skip])
    rw [loop_step_cut (next := ⟨.ethernet, ks, false⟩) (encap := false) (idx := 20) hcfg rfl (by omega) hn hd0 _
      ((parseEthernet_take _ _ _ (by omega)).trans
        (parseEthernet_spec _ (encBE 6 d) (encBE 6 s) _ _ _ _ (by simp) (by simp) (by rfl)))]
    obtain ⟨ks', hnx⟩ := dot1q_next
    simp only [Bool.false_or, hnx]
    rw [show encapIdx 20 (Next.encapSkip ⟨.ethernet, ks, false⟩) (Next.layerIndex ⟨.ethernet, ks, false⟩) = 20 from rfl,
      dot1q_noencap ks' 20 (by omega)]
    refine Eq.trans (loop_vlans_cut hcfg ep hep vs v (hvs v (by simp)) (fun x hx => hvs x (by simp [hx])) hn hd'
      (by simp at hf ⊢; omega) ks' (IcmpFresh.nil.bump 1 (by decide) (by decide)) 20 (by omega) _) ?_
    simp [ethResAt, hg, l2Etype, ethMsg, hdv, hsv]

theorem expectedAt_eq (d s : Nat) (vs : List Nat) (ep : EtherPayload) (n : Nat) :
    expectedAt ⟨d, s, vs, ep⟩ n = ethResAt n d s vs ep FlowMsg.empty := rfl

/-- **C10, truncated capture (the message).** Whatever prefix of a well-formed frame is captured, the dissector
    reports exactly `expectedAt f n` — for every configuration without layer mappings whose registered ports the
    frame's L4 ports do not hit. -/
theorem trunc_capture_cfg (cfg : Config) (hcfg : cfg.layers = []) (f : Frame) (h : FrameWFIn cfg.ports f) (n : Nat)
    (hn : n ≤ (bytes f).length) :
    parsePacket cfg FlowMsg.empty ((bytes f).take n) = .ok (expectedAt f n) := by
  obtain ⟨m', hm'⟩ := parsePacket_safe cfg hcfg FlowMsg.empty ((bytes f).take n)
  rw [hm']
  obtain ⟨d, s, vs, ep⟩ := f
  obtain ⟨hd, hs, hvs, hep⟩ := h
  simp only at hd hs hvs hep
  rw [expectedAt_eq]
  unfold parsePacket at hm'
  generalize 2 * ((bytes ⟨d, s, vs, ep⟩).take n).length + 4 = F at hm'
  have h1 := parseLoop_mono hcfg _ _ _ _ _ _ _ _ _ hm' (vs.length + (stackEther ep).length + 5)
  unfold bytes at h1 hn
  simp only [List.append_assoc] at h1 hn
  have h2 := loop_eth_cut hcfg ep hep vs (fun x hx => Nat.lt_trans (hvs x hx) (by decide)) d s hd hs hn
    (fuel := F + (vs.length + (stackEther ep).length + 5)) (by omega)
    Parser.ethernet.keys FlowMsg.empty
  rw [show Parser.ethernet.layerIndex = 20 from rfl, h2] at h1
  exact h1.symm


/-! ### `Below` along the layers -/

theorem SizesBelow.refl : ∀ a : List Nat, SizesBelow a a
  | [] => trivial
  | x :: a => by
    by_cases h : a = []
    · simp [SizesBelow, h]
    · simp [SizesBelow, h, SizesBelow.refl a]

theorem SizesBelow.append_right : ∀ {a b : List Nat} (c : List Nat), SizesBelow a b → SizesBelow a (b ++ c)
  | [], _, _, _ => trivial
  | _ :: _, [], _, h => h.elim
  | x :: a, y :: b, c, h => by
    by_cases ha : a = []
    · simpa [SizesBelow, ha] using h
    · simp only [SizesBelow, ha, if_false, List.cons_append] at h ⊢
      exact ⟨h.1, SizesBelow.append_right c h.2⟩

theorem SizesBelow.append_left : ∀ (p : List Nat) {a b : List Nat}, SizesBelow a b → a ≠ [] → SizesBelow (p ++ a) (p ++ b)
  | [], _, _, h, _ => h
  | x :: p, a, b, h, ha => by
    have := SizesBelow.append_left p h ha
    simp only [List.cons_append, SizesBelow]
    rw [if_neg (by simp [ha])]
    exact ⟨trivial, this⟩

theorem SizesBelow.last (p : List Nat) {x y : Nat} (c : List Nat) (h : x ≤ y) : SizesBelow (p ++ [x]) (p ++ y :: c) :=
  SizesBelow.append_left p (by simp [SizesBelow, h]) (by simp)

theorem SizesBelow.append_both (p : List Nat) {a b : List Nat} (h : SizesBelow a b) : SizesBelow (p ++ a) (p ++ b) := by
  by_cases ha : a = []
  · subst ha; simpa using SizesBelow.append_right b (SizesBelow.refl p)
  · exact SizesBelow.append_left p h ha

/-- columns no layer in front of L4 writes -/
def FreshL4 (m : FlowMsg) : Prop :=
  m.srcPort = 0 ∧ m.dstPort = 0 ∧ m.tcpFlags = 0 ∧ m.icmpType = 0 ∧ m.icmpCode = 0

/-- columns no layer in front of an IPv6 extension header writes -/
def FreshExt (m : FlowMsg) : Prop :=
  FreshL4 m ∧ m.fragmentId = 0 ∧ m.fragmentOffset = 0 ∧ m.ipFlags = 0 ∧ m.ipv6RoutingHeaderSegLeft = 0 ∧
    m.ipv6RoutingHeaderAddresses = []

/-- columns no layer in front of the IP header writes -/
def FreshIP (m : FlowMsg) : Prop :=
  FreshExt m ∧ m.srcAddr = [] ∧ m.dstAddr = [] ∧ m.ipTos = 0 ∧ m.ipTtl = 0 ∧ m.ipv6FlowLabel = 0 ∧ m.proto = 0

/-- columns no layer in front of the MPLS label stack writes -/
def FreshMpls (m : FlowMsg) : Prop := FreshIP m ∧ m.mplsLabel = [] ∧ m.mplsTtl = []

theorem Below.refl (ets vls : List Nat) (m : FlowMsg) : Below ets vls m m := by
  simp [Below, SizesBelow.refl]

theorem prefix_app {α} {a b : List α} (c : List α) (h : a <+: b) : a <+: b ++ c :=
  List.IsPrefix.trans h (List.prefix_append b c)

theorem below_l4 {ets vls : List Nat} {m' m : FlowMsg} (l : L4) (h : Below ets vls m' m) (hf : FreshL4 m) :
    Below ets vls m' (l4Msg l m) := by
  simp only [Below, FreshL4] at h hf ⊢
  cases l <;> simp only [l4Msg] <;> simp_all [prefix_app, SizesBelow.append_right]


theorem below_l4At {ets vls : List Nat} {m' m : FlowMsg} (n off : Nat) (l : L4) (h : Below ets vls m' m)
    (hf : FreshL4 m) : Below ets vls m' (l4MsgAt n off l m) := by
  unfold l4MsgAt; split
  · exact below_l4 l h hf
  · exact h

theorem below_layer {ets vls : List Nat} {m' m : FlowMsg} (v s : Nat) (h : Below ets vls m' m) :
    Below ets vls m' { m with layerStack := m.layerStack ++ [v], layerSize := m.layerSize ++ [s] } := by
  simp only [Below] at h ⊢
  simp_all [prefix_app, SizesBelow.append_right]

theorem below_inner {ets vls : List Nat} {m' m : FlowMsg} (layers : List (Nat × Nat)) (icmp : Option (Nat × Nat))
    (h : Below ets vls m' m) (hf : FreshL4 m) : Below ets vls m' (innerRes layers icmp m) := by
  simp only [Below, FreshL4] at h hf ⊢
  rcases icmp with _ | ⟨t, c⟩ <;> simp only [innerRes] <;> simp_all [prefix_app, SizesBelow.append_right]

theorem below_payloadAt {ets vls : List Nat} {m' m : FlowMsg} (n off : Nat) (pl : Payload) (h : Below ets vls m' m)
    (hf : FreshL4 m) : Below ets vls m' (payloadResAt n off pl m) := by
  cases pl with
  | l4 l => exact below_l4At n off l h hf
  | gre inner =>
    simp only [payloadResAt]; split
    · exact below_inner _ _ (below_layer 9 4 h) hf
    · exact h
  | ipip p => exact below_inner _ _ h hf

theorem below_ipMsg {ets vls : List Nat} {m' m : FlowMsg} (p : IP) (h : Below ets vls m' m) (hf : FreshIP m) :
    Below ets vls m' (ipMsg p m) := by
  simp only [Below, FreshIP, FreshExt, FreshL4] at h hf ⊢
  cases p <;> simp only [ipMsg] <;> simp_all [prefix_app, SizesBelow.append_right]

theorem fresh_ipMsg_l4 {m : FlowMsg} (p : IP) (hf : FreshIP m) : FreshL4 (ipMsg p m) := by
  simp only [FreshIP, FreshExt, FreshL4] at hf ⊢
  cases p <;> simp only [ipMsg] <;> simp_all

theorem fresh_ipMsg_ext {m : FlowMsg} (tc fl hl : Nat) (src dst : Bytes) (ext : V6Ext) (pl : Payload) (hf : FreshIP m) :
    FreshExt (ipMsg (.v6 tc fl hl src dst ext pl) m) := by
  simp only [FreshIP, FreshExt, FreshL4] at hf ⊢
  simp only [ipMsg]; simp_all

theorem below_extMsg {ets vls : List Nat} {m' m : FlowMsg} (ext : V6Ext) (h : Below ets vls m' m) (hf : FreshExt m) :
    Below ets vls m' (extMsg ext m) := by
  simp only [Below, FreshExt, FreshL4] at h hf ⊢
  cases ext <;> simp only [extMsg] <;> simp_all [prefix_app, SizesBelow.append_right]

theorem fresh_extMsg {m : FlowMsg} (ext : V6Ext) (hf : FreshExt m) : FreshL4 (extMsg ext m) := by
  simp only [FreshExt, FreshL4] at hf ⊢
  cases ext <;> simp only [extMsg] <;> simp_all

theorem below_srhAt {ets vls : List Nat} {m' m : FlowMsg} (k sleft : Nat) (segs : List Bytes) (h : Below ets vls m' m)
    (hf : FreshExt m) : Below ets vls m' (srhMsgAt k sleft segs m) := by
  simp only [Below, FreshExt, FreshL4] at h hf ⊢
  simp only [srhMsgAt]; simp_all [prefix_app, SizesBelow.append_right]

theorem fresh_srhAt {m : FlowMsg} (k sleft : Nat) (segs : List Bytes) (hf : FreshExt m) :
    FreshL4 (srhMsgAt k sleft segs m) := by
  simp only [FreshExt, FreshL4] at hf ⊢
  simp only [srhMsgAt]; simp_all

theorem below_ipAt {ets vls : List Nat} {m' m : FlowMsg} (n off : Nat) (p : IP) (h : Below ets vls m' m)
    (hf : FreshIP m) : Below ets vls m' (ipResAt n off p m) := by
  cases p with
  | v4 tos ident fl fo ttl src dst pl =>
    simp only [ipResAt]; split
    · exact below_payloadAt _ _ _ (below_ipMsg _ h hf) (fresh_ipMsg_l4 _ hf)
    · exact h
  | v6 tc fl hl src dst ext pl =>
    have h1 := below_ipMsg (.v6 tc fl hl src dst ext pl) h hf
    have f1 := fresh_ipMsg_ext tc fl hl src dst ext pl hf
    simp only [ipResAt]; split
    · cases ext with
      | none => exact below_payloadAt _ _ _ h1 f1.1
      | fragment fo fl3 ident =>
        simp only []; split
        · exact below_payloadAt _ _ _ (below_extMsg _ h1 f1) (fresh_extMsg _ f1)
        · exact h1
      | srh sleft le segs =>
        simp only []; split
        · exact below_payloadAt _ _ _ (below_srhAt _ _ _ h1 f1) (fresh_srhAt _ _ _ f1)
        · exact h1
    · exact h

/-- the ethertype the message carries may be overwritten by a later L2 header -/
def EtypeOK (ets : List Nat) (m : FlowMsg) : Prop := m.etype = 0 ∨ m.etype ∈ ets
def VlanOK (vls : List Nat) (m : FlowMsg) : Prop := m.vlanId = 0 ∨ m.vlanId ∈ vls

theorem etype_step {ets : List Nat} {a b c : Nat} (h : a = 0 ∨ a = b ∨ a ∈ ets) (hb : b = 0 ∨ b ∈ ets) :
    a = 0 ∨ a = c ∨ a ∈ ets := by
  rcases h with h | h | h
  · exact Or.inl h
  · rcases hb with hb | hb
    · exact Or.inl (h.trans hb)
    · exact Or.inr (Or.inr (h ▸ hb))
  · exact Or.inr (Or.inr h)

theorem below_mplsMsg {ets vls : List Nat} {m' m : FlowMsg} (labels : List (Nat × Nat)) (et : Nat)
    (h : Below ets vls m' m) (hf : FreshMpls m) (he : EtypeOK ets m) : Below ets vls m' (mplsMsg labels et m) := by
  simp only [Below, FreshMpls] at h hf ⊢
  obtain ⟨h1, h2⟩ := h
  refine ⟨etype_step h1 he, ?_⟩
  simp only [mplsMsg]; simp_all [prefix_app, SizesBelow.append_right]

theorem fresh_mplsMsg {m : FlowMsg} (labels : List (Nat × Nat)) (et : Nat) (hf : FreshMpls m) :
    FreshIP (mplsMsg labels et m) := by
  simp only [FreshMpls, FreshIP, FreshExt, FreshL4] at hf ⊢
  simp only [mplsMsg]; simp_all

theorem below_mplsAt {ets vls : List Nat} {m' m : FlowMsg} (k : Nat) (labels : List (Nat × Nat))
    (h : Below ets vls m' m) (hf : FreshMpls m) : Below ets vls m' (mplsMsgAt k labels m) := by
  simp only [Below, FreshMpls] at h hf ⊢
  simp only [mplsMsgAt]; simp_all [prefix_app, SizesBelow.append_right]

def isMpls : EtherPayload → Prop
  | .mpls .. => True
  | _ => False

theorem below_epAt {ets vls : List Nat} {m' m : FlowMsg} (n off : Nat) (ep : EtherPayload) (h : Below ets vls m' m)
    (hf : FreshMpls m) (he : isMpls ep → EtypeOK ets m) : Below ets vls m' (epResAt n off ep m) := by
  cases ep with
  | ip p => exact below_ipAt n off p h hf.1
  | raw t b => exact h
  | mpls labels p =>
    simp only [epResAt]; split
    · split
      · exact below_ipAt _ _ _ (below_mplsMsg _ _ h hf (he trivial)) (fresh_mplsMsg _ _ hf)
      · exact below_mplsAt _ _ h hf
    · exact h

theorem below_tag {ets vls : List Nat} {m' m : FlowMsg} (v et : Nat) (h : Below ets vls m' m)
    (he : EtypeOK ets m) (hv : VlanOK vls m) : Below ets vls m' (tagMsg v et m) := by
  simp only [Below] at h ⊢
  obtain ⟨h1, h2, h3⟩ := h
  refine ⟨etype_step h1 he, etype_step h2 hv, ?_⟩
  simp only [tagMsg]; simp_all [prefix_app, SizesBelow.append_right]

theorem fresh_tag {m : FlowMsg} (v et : Nat) (hf : FreshMpls m) : FreshMpls (tagMsg v et m) := by
  simp only [FreshMpls, FreshIP, FreshExt, FreshL4] at hf ⊢
  simp only [tagMsg]; simp_all

theorem below_vlansAt {ets vls : List Nat} (n : Nat) (ep : EtherPayload) (hC : isMpls ep → 0x8847 ∈ ets) :
    ∀ (vs : List Nat) (off : Nat) (m' m : FlowMsg), Below ets vls m' m → FreshMpls m →
      ((vs ≠ [] ∨ isMpls ep) → EtypeOK ets m) → VlanOK vls m → (∀ x ∈ vs, x ∈ vls) → (vs ≠ [] → 0x8100 ∈ ets) →
      Below ets vls m' (vlansResAt n off ep vs m)
  | [], off, m', m, h, hf, he, _, _, _ => by
    simp only [vlansResAt]
    exact below_epAt n off ep h hf (fun hm => he (Or.inr hm))
  | v :: vs, off, m', m, h, hf, he, hv, hA, hB => by
    rw [vlansResAt_cons]; split
    · refine below_vlansAt n ep hC vs (off + 4) m' _ (below_tag _ _ h (he (Or.inl (by simp))) hv) (fresh_tag _ _ hf)
        ?_ (Or.inr (hA v (by simp))) (fun x hx => hA x (by simp [hx])) (fun _ => hB (by simp))
      intro hcase
      cases vs with
      | nil =>
        rcases hcase with hcase | hcase
        · exact absurd rfl hcase
        · right
          cases ep with
          | mpls labels p => simpa [tagMsg, l2Etype, etherType] using hC trivial
          | ip p => exact hcase.elim
          | raw t b => exact hcase.elim
      | cons w ws => right; simpa [tagMsg, l2Etype] using hB (by simp)
    · exact h


/-! ### a longer capture reports at least as much: `expectedAt` is monotone in the capture length -/

theorem SizesBelow.cons (x : Nat) {a b : List Nat} (h : SizesBelow a b) : SizesBelow (x :: a) (x :: b) := by
  simpa using SizesBelow.append_both [x] h

/-- tunnelled layers and the ICMP header that ends them, under truncation -/
def InnerBelow (r r' : Inner) : Prop :=
  r.1.map (·.1) <+: r'.1.map (·.1) ∧ SizesBelow (r.1.map (·.2)) (r'.1.map (·.2)) ∧ (r.2 = none ∨ r.2 = r'.2)

theorem InnerBelow.nil (r : Inner) : InnerBelow Inner.nil r := by
  simp [InnerBelow, Inner.nil, SizesBelow]

theorem InnerBelow.refl (r : Inner) : InnerBelow r r := by
  simp [InnerBelow, SizesBelow.refl]

theorem InnerBelow.cons (x : Nat × Nat) {r r' : Inner} (h : InnerBelow r r') :
    InnerBelow (Inner.cons x r) (Inner.cons x r') := by
  obtain ⟨h1, h2, h3⟩ := h
  refine ⟨?_, ?_, h3⟩
  · simpa [Inner.cons, List.cons_prefix_cons] using h1
  · simpa [Inner.cons] using SizesBelow.cons x.2 h2

theorem innerL4_mono {n n' : Nat} (hnn : n ≤ n') (off : Nat) (l : L4) :
    InnerBelow (innerL4At n off l) (innerL4At n' off l) := by
  unfold innerL4At
  by_cases hg : off + l4Guard l ≤ n
  · rw [if_pos hg, if_pos (show off + l4Guard l ≤ n' by omega)]; exact InnerBelow.refl _
  · rw [if_neg hg]; exact InnerBelow.nil _

mutual
theorem innerIP_mono {n n' : Nat} (hnn : n ≤ n') : ∀ (p : IP) (off : Nat),
    InnerBelow (innerIPAt n off p) (innerIPAt n' off p)
  | .v4 _ _ _ _ _ _ _ pl, off => by
    simp only [innerIPAt]
    by_cases hg : off + 20 ≤ n
    · rw [if_pos hg, if_pos (show off + 20 ≤ n' by omega)]; exact (innerPayload_mono hnn pl _).cons _
    · rw [if_neg hg]; exact InnerBelow.nil _
  | .v6 _ _ _ _ _ ext pl, off => by
    simp only [innerIPAt]
    by_cases hg : off + 40 ≤ n
    · rw [if_pos hg, if_pos (show off + 40 ≤ n' by omega)]
      refine InnerBelow.cons _ ?_
      cases ext with
      | none => exact innerPayload_mono hnn pl _
      | fragment fo fl3 ident =>
        simp only []
        by_cases hg2 : off + 48 ≤ n
        · rw [if_pos hg2, if_pos (show off + 48 ≤ n' by omega)]; exact (innerPayload_mono hnn pl _).cons _
        · rw [if_neg hg2]; exact InnerBelow.nil _
      | srh sleft le segs =>
        simp only []
        by_cases hg2 : off + 48 ≤ n
        · rw [if_pos hg2, if_pos (show off + 48 ≤ n' by omega)]; exact (innerPayload_mono hnn pl _).cons _
        · rw [if_neg hg2]; exact InnerBelow.nil _
    · rw [if_neg hg]; exact InnerBelow.nil _
theorem innerPayload_mono {n n' : Nat} (hnn : n ≤ n') : ∀ (pl : Payload) (off : Nat),
    InnerBelow (innerPayloadAt n off pl) (innerPayloadAt n' off pl)
  | .l4 l, off => by simp only [innerPayloadAt]; exact innerL4_mono hnn off l
  | .gre inner, off => by
    simp only [innerPayloadAt]
    by_cases hg : off + 4 ≤ n
    · rw [if_pos hg, if_pos (show off + 4 ≤ n' by omega)]; exact (innerEther_mono hnn inner _).cons _
    · rw [if_neg hg]; exact InnerBelow.nil _
  | .ipip p, off => by simp only [innerPayloadAt]; exact innerIP_mono hnn p off
theorem innerEther_mono {n n' : Nat} (hnn : n ≤ n') : ∀ (ep : EtherPayload) (off : Nat),
    InnerBelow (innerEtherAt n off ep) (innerEtherAt n' off ep)
  | .ip p, off => by simp only [innerEtherAt]; exact innerIP_mono hnn p off
  | .mpls labels p, off => by
    simp only [innerEtherAt]
    by_cases hg : off + 4 ≤ n
    · rw [if_pos hg, if_pos (show off + 4 ≤ n' by omega)]
      by_cases hg2 : off + 4 * labels.length < n
      · rw [if_pos hg2, if_pos (show off + 4 * labels.length < n' by omega)]; exact (innerIP_mono hnn p _).cons _
      · rw [if_neg hg2]
        by_cases hg3 : off + 4 * labels.length < n'
        · rw [if_pos hg3]
          refine ⟨by simp [Inner.cons], ?_, Or.inl rfl⟩
          simp only [Inner.cons, List.map_cons, List.map_nil, SizesBelow, if_true]
          omega
        · rw [if_neg hg3]
          refine ⟨by simp, ?_, Or.inl rfl⟩
          simp only [List.map_cons, List.map_nil, SizesBelow, if_true]
          omega
    · rw [if_neg hg]; exact InnerBelow.nil _
  | .raw .., off => by simp only [innerEtherAt]; exact InnerBelow.nil _
end

theorem below_inner_cut {ets vls : List Nat} {m : FlowMsg} {r r' : Inner} (h : InnerBelow r r') (hf : FreshL4 m) :
    Below ets vls (innerRes r.1 r.2 m) (innerRes r'.1 r'.2 m) := by
  obtain ⟨h1, h2, h3⟩ := h
  obtain ⟨l, i⟩ := r
  obtain ⟨l', i'⟩ := r'
  simp only [FreshL4] at hf
  simp only at h1 h2 h3
  have hs : SizesBelow (m.layerSize ++ l.map (·.2)) (m.layerSize ++ l'.map (·.2)) := SizesBelow.append_both _ h2
  rcases h3 with rfl | rfl
  · rcases i' with _ | ⟨t, c⟩ <;> simp [Below, innerRes, List.prefix_append_right_inj, h1, hs, hf, SizesBelow.refl]
  · rcases i with _ | ⟨t, c⟩ <;> simp [Below, innerRes, List.prefix_append_right_inj, h1, hs, hf, SizesBelow.refl]

theorem cut_l4 {ets vls : List Nat} {n n' : Nat} (hnn : n ≤ n') (off : Nat) (l : L4) (m : FlowMsg) (hf : FreshL4 m) :
    Below ets vls (l4MsgAt n off l m) (l4MsgAt n' off l m) := by
  by_cases hg : off + l4Guard l ≤ n
  · simp only [l4MsgAt, if_pos hg, if_pos (show off + l4Guard l ≤ n' by omega)]; exact Below.refl _ _ _
  · simp only [l4MsgAt, if_neg hg]; exact below_l4At n' off l (Below.refl _ _ _) hf

theorem fresh_layer {m : FlowMsg} (v s : Nat) (hf : FreshL4 m) :
    FreshL4 { m with layerStack := m.layerStack ++ [v], layerSize := m.layerSize ++ [s] } := hf

theorem cut_payload {ets vls : List Nat} {n n' : Nat} (hnn : n ≤ n') (off : Nat) (pl : Payload) (m : FlowMsg)
    (hf : FreshL4 m) : Below ets vls (payloadResAt n off pl m) (payloadResAt n' off pl m) := by
  cases pl with
  | l4 l => exact cut_l4 hnn off l m hf
  | gre inner =>
    by_cases hg : off + 4 ≤ n
    · simp only [payloadResAt, if_pos hg, if_pos (show off + 4 ≤ n' by omega)]
      exact below_inner_cut (innerEther_mono hnn inner _) (fresh_layer 9 4 hf)
    · have := below_payloadAt (ets := ets) (vls := vls) n' off (.gre inner) (Below.refl _ _ m) hf
      simpa only [payloadResAt, if_neg hg] using this
  | ipip p => exact below_inner_cut (innerIP_mono hnn p _) hf

theorem innerIPAt_short {n off : Nat} (h : n < off) (p : IP) : innerIPAt n off p = Inner.nil := by
  cases p <;> simp only [innerIPAt] <;> rw [if_neg (by omega)]

theorem payloadResAt_short {n off : Nat} (h : n < off) (pl : Payload) (m : FlowMsg) : payloadResAt n off pl m = m := by
  cases pl with
  | l4 l => simp only [payloadResAt, l4MsgAt]; rw [if_neg (by omega)]
  | gre inner => simp only [payloadResAt]; rw [if_neg (by omega)]
  | ipip p => simp only [payloadResAt, innerIPAt_short h, innerRes_nil']

theorem below_srh_srh {ets vls : List Nat} {k k' : Nat} (hk : k ≤ k') (sleft : Nat) (segs : List Bytes) (m : FlowMsg) :
    Below ets vls (srhMsgAt k sleft segs m) (srhMsgAt k' sleft segs m) := by
  have : List.take ((k - 8) / 16) segs <+: List.take ((k' - 8) / 16) segs :=
    List.take_prefix_take_left (by omega)
  simp [Below, srhMsgAt, SizesBelow.refl, List.prefix_append_right_inj, this]

theorem cut_ip {ets vls : List Nat} {n n' : Nat} (hnn : n ≤ n') (off : Nat) (p : IP) (m : FlowMsg) (hf : FreshIP m) :
    Below ets vls (ipResAt n off p m) (ipResAt n' off p m) := by
  cases p with
  | v4 tos ident fl fo ttl src dst pl =>
    by_cases hg : off + 20 ≤ n
    · simp only [ipResAt, if_pos hg, if_pos (show off + 20 ≤ n' by omega)]
      exact cut_payload hnn _ pl _ (fresh_ipMsg_l4 _ hf)
    · have := below_ipAt (ets := ets) (vls := vls) n' off (.v4 tos ident fl fo ttl src dst pl) (Below.refl _ _ m) hf
      simpa only [ipResAt, if_neg hg] using this
  | v6 tc fl hl src dst ext pl =>
    by_cases hg : off + 40 ≤ n
    case neg =>
      have := below_ipAt (ets := ets) (vls := vls) n' off (.v6 tc fl hl src dst ext pl) (Below.refl _ _ m) hf
      simpa only [ipResAt, if_neg hg] using this
    have f1 := fresh_ipMsg_ext tc fl hl src dst ext pl hf
    simp only [ipResAt, if_pos hg, if_pos (show off + 40 ≤ n' by omega)]
    cases ext with
    | none => exact cut_payload hnn _ pl _ f1.1
    | fragment fo fl3 ident =>
      simp only []
      by_cases hg2 : off + 48 ≤ n
      · rw [if_pos hg2, if_pos (show off + 48 ≤ n' by omega)]
        exact cut_payload hnn _ pl _ (fresh_extMsg _ f1)
      · rw [if_neg hg2]; split
        · exact below_payloadAt _ _ _ (below_extMsg _ (Below.refl _ _ _) f1) (fresh_extMsg _ f1)
        · exact Below.refl _ _ _
    | srh sleft le segs =>
      simp only []
      by_cases hg2 : off + 48 ≤ n
      · rw [if_pos hg2, if_pos (show off + 48 ≤ n' by omega)]
        by_cases hfull : off + 48 + 16 * segs.length ≤ n
        · have e : ∀ k, 8 + 16 * segs.length ≤ k → ∀ mm, srhMsgAt k sleft segs mm = srhMsgAt (8 + 16 * segs.length) sleft segs mm := by
            intro k hk mm
            simp only [srhMsgAt]
            rw [List.take_of_length_le (by omega), List.take_of_length_le (by omega)]
          rw [e (n - (off + 40)) (by omega), e (n' - (off + 40)) (by omega)]
          exact cut_payload hnn _ pl _ (fresh_srhAt _ _ _ f1)
        · rw [payloadResAt_short (by omega)]
          exact below_payloadAt _ _ _ (below_srh_srh (by omega) _ _ _) (fresh_srhAt _ _ _ f1)
      · rw [if_neg hg2]; split
        · exact below_payloadAt _ _ _ (below_srhAt _ _ _ (Below.refl _ _ _) f1) (fresh_srhAt _ _ _ f1)
        · exact Below.refl _ _ _

theorem below_mpls_mpls {ets vls : List Nat} {k k' : Nat} (hk : k ≤ k') (labels : List (Nat × Nat)) (m : FlowMsg) :
    Below ets vls (mplsMsgAt k labels m) (mplsMsgAt k' labels m) := by
  have hp : ∀ l : List Nat, List.take (k / 4) l <+: List.take (k' / 4) l :=
    fun l => List.take_prefix_take_left (by omega)
  have hs : SizesBelow (m.layerSize ++ [4 * (k / 4)]) (m.layerSize ++ [4 * (k' / 4)]) :=
    SizesBelow.last _ [] (by omega)
  simp [Below, mplsMsgAt, SizesBelow.refl, hp, hs]

theorem below_mpls_full {ets vls : List Nat} {k : Nat} (labels : List (Nat × Nat)) (hk : k ≤ 4 * labels.length)
    (et : Nat) (m : FlowMsg) (he : EtypeOK ets m) :
    Below ets vls (mplsMsgAt k labels m) (mplsMsg labels et m) := by
  have hp : ∀ l : List Nat, List.take (k / 4) l <+: l := fun l => List.take_prefix _ _
  have hs : SizesBelow (m.layerSize ++ [4 * (k / 4)]) (m.layerSize ++ [4 * labels.length]) :=
    SizesBelow.last _ [] (by omega)
  have he' : m.etype = 0 ∨ m.etype = et ∨ m.etype ∈ ets := by
    rcases he with h | h
    · exact Or.inl h
    · exact Or.inr (Or.inr h)
  simp [Below, mplsMsgAt, mplsMsg, SizesBelow.refl, hp, hs, he']

theorem cut_ep {ets vls : List Nat} {n n' : Nat} (hnn : n ≤ n') (off : Nat) (ep : EtherPayload) (m : FlowMsg)
    (hf : FreshMpls m) (he : isMpls ep → EtypeOK ets m) :
    Below ets vls (epResAt n off ep m) (epResAt n' off ep m) := by
  cases ep with
  | ip p => exact cut_ip hnn off p m hf.1
  | raw t b => exact Below.refl _ _ _
  | mpls labels p =>
    by_cases hg : off + 4 ≤ n
    case neg =>
      have := below_epAt (ets := ets) (vls := vls) n' off (.mpls labels p) (Below.refl _ _ m) hf he
      simpa only [epResAt, if_neg hg] using this
    simp only [epResAt, if_pos hg, if_pos (show off + 4 ≤ n' by omega)]
    by_cases hg2 : off + 4 * labels.length < n
    · rw [if_pos hg2, if_pos (show off + 4 * labels.length < n' by omega)]
      exact cut_ip hnn _ p _ (fresh_mplsMsg _ _ hf)
    · rw [if_neg hg2]; split
      · exact below_ipAt _ _ _ (below_mpls_full labels (by omega) _ m (he trivial)) (fresh_mplsMsg _ _ hf)
      · exact below_mpls_mpls (by omega) labels m

theorem cut_vlans {ets vls : List Nat} {n n' : Nat} (hnn : n ≤ n') (ep : EtherPayload) (hC : isMpls ep → 0x8847 ∈ ets) :
    ∀ (vs : List Nat) (off : Nat) (m : FlowMsg), FreshMpls m →
      ((vs ≠ [] ∨ isMpls ep) → EtypeOK ets m) → VlanOK vls m → (∀ x ∈ vs, x ∈ vls) → (vs ≠ [] → 0x8100 ∈ ets) →
      Below ets vls (vlansResAt n off ep vs m) (vlansResAt n' off ep vs m)
  | [], off, m, hf, he, _, _, _ => by
    simp only [vlansResAt]
    exact cut_ep hnn off ep m hf (fun hm => he (Or.inr hm))
  | v :: vs, off, m, hf, he, hv, hA, hB => by
    by_cases hg : off + 4 ≤ n
    · rw [vlansResAt_cons, vlansResAt_cons, if_pos hg, if_pos (show off + 4 ≤ n' by omega)]
      refine cut_vlans hnn ep hC vs (off + 4) _ (fresh_tag _ _ hf) ?_ (Or.inr (hA v (by simp)))
        (fun x hx => hA x (by simp [hx])) (fun _ => hB (by simp))
      intro hcase
      cases vs with
      | nil =>
        rcases hcase with hcase | hcase
        · exact absurd rfl hcase
        · right
          cases ep with
          | mpls labels p => simpa [tagMsg, l2Etype, etherType] using hC trivial
          | ip p => exact hcase.elim
          | raw t b => exact hcase.elim
      | cons w ws => right; simpa [tagMsg, l2Etype] using hB (by simp)
    · have := below_vlansAt (ets := ets) (vls := vls) n' ep hC (v :: vs) off m m (Below.refl _ _ m) hf he hv hA hB
      rw [vlansResAt_cons n, if_neg hg]
      exact this

theorem below_empty (ets vls : List Nat) (m : FlowMsg) : Below ets vls FlowMsg.empty m := by
  simp [Below, FlowMsg.empty, SizesBelow]

/-- **a longer capture never contradicts a shorter one**: what `n` bytes report is `Below` what `n' ≥ n` bytes report -/
theorem expectedAt_mono (f : Frame) {n n' : Nat} (hnn : n ≤ n') :
    Below (outerEtypes f) f.vlans (expectedAt f n) (expectedAt f n') := by
  obtain ⟨d, s, vs, ep⟩ := f
  simp only [expectedAt]
  by_cases hg : 14 ≤ n
  · rw [if_pos hg, if_pos (show 14 ≤ n' by omega)]
    refine cut_vlans hnn ep ?_ vs 14 _ ?_ ?_ ?_ (fun x hx => hx) ?_
    · intro h; cases ep <;> simp [isMpls] at h; simp [outerEtypes]
    · simp [FreshMpls, FreshIP, FreshExt, FreshL4, ethMsg, FlowMsg.empty]
    · intro hcase
      right
      cases vs with
      | nil =>
        rcases hcase with hcase | hcase
        · exact absurd rfl hcase
        · cases ep <;> simp [isMpls] at hcase; simp [outerEtypes, l2Etype, etherType]
      | cons v vs => simp [outerEtypes, l2Etype]
    · left; simp [ethMsg, FlowMsg.empty]
    · intro h; cases vs with
      | nil => exact absurd rfl h
      | cons v vs => simp [outerEtypes]
  · rw [if_neg hg]; exact below_empty _ _ _


/-! ### the truncated-capture half of C10 -/

/-- capturing the whole frame: `expectedAt` is the specification's `expectedMsg` -/
theorem expectedAt_full (cfg : Config) (hcfg : cfg.layers = []) (f : Frame) (h : FrameWFIn cfg.ports f) :
    expectedAt f (bytes f).length = expectedMsg f := by
  have h1 := trunc_capture_cfg cfg hcfg f h (bytes f).length (Nat.le_refl _)
  rw [List.take_length, full_capture_cfg cfg hcfg f h] at h1
  exact (Except.ok.inj h1).symm

/-- what a capture of `n` bytes is expected to report is `Below` what the whole frame reports -/
theorem expectedAt_below (cfg : Config) (hcfg : cfg.layers = []) (f : Frame) (h : FrameWFIn cfg.ports f) {n : Nat}
    (hn : n ≤ (bytes f).length) : Below (outerEtypes f) f.vlans (expectedAt f n) (expectedMsg f) := by
  rw [← expectedAt_full cfg hcfg f h]
  exact expectedAt_mono f hn

/-- **C10, truncated capture.** When only the first `n` bytes of a well-formed frame are captured (any `n`), the
    dissector succeeds and every column it reports equals the value the complete frame reports (`expectedMsg f`, the
    frame's true values by `full_capture`) or is left unset; the list columns (layer stack, MPLS labels / TTLs,
    segment list) are prefixes of the complete lists; there is one layer size per reported layer, equal to the true
    size except that the last may be smaller (a label stack cut in the middle); `Etype` / `VlanId` may be those of an
    outer L2 header of the frame. For every configuration without layer mappings whose registered ports the frame's
    L4 ports do not hit. -/
theorem trunc_capture_cfg_below (cfg : Config) (hcfg : cfg.layers = []) (f : Frame) (h : FrameWFIn cfg.ports f) (n : Nat) :
    ∃ m, parsePacket cfg FlowMsg.empty ((bytes f).take n) = .ok m ∧
      Below (outerEtypes f) f.vlans m (expectedMsg f) := by
  by_cases hn : n ≤ (bytes f).length
  · exact ⟨expectedAt f n, trunc_capture_cfg cfg hcfg f h n hn, expectedAt_below cfg hcfg f h hn⟩
  · rw [List.take_of_length_le (by omega)]
    exact ⟨expectedMsg f, full_capture_cfg cfg hcfg f h, Below.refl _ _ _⟩

/-- the default environment (no registered ports), the message itself -/
theorem trunc_capture_eq (f : Frame) (h : FrameWF f) (n : Nat) (hn : n ≤ (bytes f).length) :
    parsePacket {} FlowMsg.empty ((bytes f).take n) = .ok (expectedAt f n) :=
  trunc_capture_cfg {} rfl f h n hn

/-- **C10, truncated capture**, every well-formed frame of the grammar in the default environment -/
theorem trunc_capture (f : Frame) (h : FrameWF f) (n : Nat) :
    ∃ m, parsePacket {} FlowMsg.empty ((bytes f).take n) = .ok m ∧
      Below (outerEtypes f) f.vlans m (expectedMsg f) :=
  trunc_capture_cfg_below {} rfl f h n

theorem trunc_plain (f : Frame) (h : PlainWF f) (n : Nat) :
    ∃ m, parsePacket {} FlowMsg.empty ((bytes f).take n) = .ok m ∧
      Below (outerEtypes f) f.vlans m (expectedMsg f) :=
  trunc_capture f (PlainWFIn.wf h) n

theorem trunc_tunnel (f : Frame) (h : TunnelWF f) (n : Nat) :
    ∃ m, parsePacket {} FlowMsg.empty ((bytes f).take n) = .ok m ∧
      Below (outerEtypes f) f.vlans m (expectedMsg f) :=
  trunc_capture f h.1 n

/-! ### concrete captures -/

/-- `sampleTunnel` (102 bytes) cut inside the tunnelled label stack: the outer columns are there, the tunnelled MPLS
    layer is reported with the one label captured, nothing of the tunnelled IPv4 / ICMP headers -/
example : (bytes sampleTunnel).length = 102 ∧
    (expectedAt sampleTunnel 70).layerStack = [0, 2, 11, 9, 5] ∧ (expectedAt sampleTunnel 70).layerSize = [14, 40, 8, 4, 4] ∧
    (expectedAt sampleTunnel 70).fragmentId = 77 ∧ (expectedAt sampleTunnel 70).icmpType = 0 ∧
    (expectedMsg sampleTunnel).layerSize = [14, 40, 8, 4, 8, 20, 8] := by decide

example : parsePacket {} FlowMsg.empty ((bytes sampleTunnel).take 70) = .ok (expectedAt sampleTunnel 70) :=
  trunc_capture_eq sampleTunnel sampleTunnel_wf.1 70 (by decide)

example : Below (outerEtypes sampleTunnel) sampleTunnel.vlans (expectedAt sampleTunnel 70) (expectedMsg sampleTunnel) :=
  expectedAt_below {} rfl sampleTunnel sampleTunnel_wf.1 (by decide)

/-- `sampleFrame` cut inside the second tag: the ethertype reported is that of the first tag -/
example : (expectedAt sampleFrame 20).etype = 0x8100 ∧ (expectedAt sampleFrame 20).vlanId = 100 ∧
    (expectedMsg sampleFrame).etype = 0x86dd ∧ (expectedMsg sampleFrame).vlanId = 200 ∧
    outerEtypes sampleFrame = [0x8100] := by decide

/-- `Below` discriminates: a wrong port, a layer too many, a size that is not the true one are not `Below` -/
example : ¬ Below [] [] { srcPort := 5 } { srcPort := 6 } ∧
    ¬ Below [] [] { layerStack := [0, 1] } { layerStack := [0, 2] } ∧
    ¬ Below [] [] { layerSize := [14, 21] } { layerSize := [14, 20, 8] } ∧
    ¬ Below [] [] { layerSize := [13, 20] } { layerSize := [14, 20, 8] } ∧
    Below [] [] { layerSize := [14, 4] } { layerSize := [14, 8, 20] } := by decide


/-! ### one layer size per reported layer, at every capture length -/

/-- as many layer sizes as layers -/
def Bal (m : FlowMsg) : Prop := m.layerSize.length = m.layerStack.length

theorem bal_layer {m : FlowMsg} (v s : Nat) (h : Bal m) :
    Bal { m with layerStack := m.layerStack ++ [v], layerSize := m.layerSize ++ [s] } := by
  simp only [Bal, List.length_append, List.length_cons, List.length_nil] at h ⊢; omega

theorem bal_l4At {m : FlowMsg} (n off : Nat) (l : L4) (h : Bal m) : Bal (l4MsgAt n off l m) := by
  unfold l4MsgAt; split
  · cases l <;> simp only [l4Msg, Bal, List.length_append, List.length_cons, List.length_nil] at h ⊢ <;> omega
  · exact h

theorem bal_inner {m : FlowMsg} (layers : List (Nat × Nat)) (icmp : Option (Nat × Nat)) (h : Bal m) :
    Bal (innerRes layers icmp m) := by
  cases icmp <;> simp only [innerRes, Bal, List.length_append, List.length_map, List.length_cons, List.length_nil] at h ⊢ <;> omega

theorem bal_payloadAt {m : FlowMsg} (n off : Nat) (pl : Payload) (h : Bal m) : Bal (payloadResAt n off pl m) := by
  cases pl with
  | l4 l => exact bal_l4At n off l h
  | gre inner => simp only [payloadResAt]; split; exact bal_inner _ _ (bal_layer 9 4 h); exact h
  | ipip p => exact bal_inner _ _ h

theorem bal_ipMsg {m : FlowMsg} (p : IP) (h : Bal m) : Bal (ipMsg p m) := by
  cases p <;> simp only [ipMsg, Bal, List.length_append, List.length_cons, List.length_nil] at h ⊢ <;> omega

theorem bal_ipAt {m : FlowMsg} (n off : Nat) (p : IP) (h : Bal m) : Bal (ipResAt n off p m) := by
  have h1 := bal_ipMsg p h
  cases p with
  | v4 tos ident fl fo ttl src dst pl =>
    simp only [ipResAt]; split
    · exact bal_payloadAt _ _ _ h1
    · exact h
  | v6 tc fl hl src dst ext pl =>
    simp only [ipResAt]; split
    · cases ext with
      | none => exact bal_payloadAt _ _ _ h1
      | fragment fo fl3 ident =>
        simp only []; split
        · exact bal_payloadAt _ _ _ (by simp only [extMsg, Bal, List.length_append, List.length_cons, List.length_nil] at h1 ⊢; omega)
        · exact h1
      | srh sleft le segs =>
        simp only []; split
        · exact bal_payloadAt _ _ _ (by simp only [srhMsgAt, Bal, List.length_append, List.length_cons, List.length_nil] at h1 ⊢; omega)
        · exact h1
    · exact h

theorem bal_epAt {m : FlowMsg} (n off : Nat) (ep : EtherPayload) (h : Bal m) : Bal (epResAt n off ep m) := by
  cases ep with
  | ip p => exact bal_ipAt n off p h
  | raw t b => exact h
  | mpls labels p =>
    simp only [epResAt]; split
    · split
      · exact bal_ipAt _ _ _ (by simp only [mplsMsg, Bal, List.length_append, List.length_cons, List.length_nil] at h ⊢; omega)
      · simp only [mplsMsgAt, Bal, List.length_append, List.length_cons, List.length_nil] at h ⊢; omega
    · exact h

theorem bal_vlansAt (n : Nat) (ep : EtherPayload) : ∀ (vs : List Nat) (off : Nat) (m : FlowMsg), Bal m →
    Bal (vlansResAt n off ep vs m)
  | [], off, m, h => by simp only [vlansResAt]; exact bal_epAt n off ep h
  | v :: vs, off, m, h => by
    rw [vlansResAt_cons]; split
    · exact bal_vlansAt n ep vs _ _ (by simp only [tagMsg, Bal, List.length_append, List.length_cons, List.length_nil] at h ⊢; omega)
    · exact h

theorem expectedAt_bal (f : Frame) (n : Nat) :
    (expectedAt f n).layerSize.length = (expectedAt f n).layerStack.length := by
  simp only [expectedAt]; split
  · exact bal_vlansAt n _ _ _ _ (by simp [Bal, ethMsg, FlowMsg.empty])
  · rfl

/-- **C10, truncated capture: one layer size per reported layer.** (The tree before the `fix:` commits appended a
    size for a header it had not recognised.) -/
theorem trunc_capture_sizes (f : Frame) (h : FrameWF f) (n : Nat) :
    ∃ m, parsePacket {} FlowMsg.empty ((bytes f).take n) = .ok m ∧ m.layerSize.length = m.layerStack.length := by
  by_cases hn : n ≤ (bytes f).length
  · exact ⟨expectedAt f n, trunc_capture_eq f h n hn, expectedAt_bal f n⟩
  · rw [List.take_of_length_le (by omega)]
    refine ⟨expectedMsg f, full_capture f h, ?_⟩
    rw [← expectedAt_full {} rfl f h]
    exact expectedAt_bal f _

end Goflow.C10
