import Goflow.Conc.KafkaAdapter
import Goflow.Generated.Sync
import Goflow.Generated.Kafka
/-!
  C20 — Kafka output. **Partial by a wide margin**: what is proved is the adapter (topic, key and
  value pass unchanged and in order; the producer is closed — flushed — before the forwarder is
  stopped) and the consequences of the stated sarama contract. Delivery itself lives in sarama's
  runtime and is exercised, not proved, by the correspondence check against a mock broker.
-/
namespace Goflow.C20
open Goflow Goflow.Conc.KafkaAdapter

/-- Send passes topic, key and value bytes unchanged, one producer message per call, in call order -/
theorem send_preserves (st : St) (msgs : List (Bytes × Bytes)) :
    (sendAll st msgs).input = st.input ++ msgs.map (fun kv => ⟨st.topic, kv.1, kv.2⟩) ∧ (sendAll st msgs).topic = st.topic := by
  induction msgs generalizing st with
  | nil => simp [sendAll]
  | cons m rest ih =>
    obtain ⟨k, v⟩ := m
    have := ih (send st k v)
    simp only [sendAll, send] at this ⊢
    simp [this.1, this.2]

/-- Close flushes before it stops the forwarder: producer.Close() precedes close(d.q); Send is one
    push on Input() (regenerated from transport/kafka/kafka.go) -/
theorem close_flushes_before_stop :
    Goflow.Generated.skKafkaClose = ["d.producer.Close()", "close(d.q)"] ∧
    Goflow.Generated.skKafkaSend =
      ["d.producer.Input() <- &sarama.ProducerMessage{ Topic: d.kafkaTopic, Key: sarama.ByteEncoder(key), Value: sarama.ByteEncoder(data), }",
       "d.producer.Input()"] := by
  decide +kernel

/-- under the contract: the delivered multiset equals the multiset handed to Send, with keys and values intact -/
theorem all_delivered (hashing : Bool) (parts : Nat) (topic : String) (msgs : List (Bytes × Bytes)) (o : Outcome)
    (hc : Contract hashing parts (sendAll ⟨topic, [], false⟩ msgs).input o) :
    (o.delivered.map (·.1)).Perm (msgs.map fun kv => ⟨topic, kv.1, kv.2⟩) ∧ o.errors = [] := by
  have := (send_preserves ⟨topic, [], false⟩ msgs).1
  simp only [List.nil_append] at this
  rw [this] at hc
  exact ⟨hc.2.1, hc.1⟩

/-- under the contract with hashing: messages with equal keys go to the same partition -/
theorem equal_keys_same_partition (parts : Nat) (input : List KMsg) (o : Outcome)
    (hc : Contract true parts input o) (a b : KMsg × Nat) (ha : a ∈ o.delivered) (hb : b ∈ o.delivered)
    (hk : a.1.key = b.1.key) : a.2 = b.2 := by
  rw [hc.2.2 rfl a ha, hc.2.2 rfl b hb, hk]

/-- The producer settings the contract is stated for, as (*KafkaDriver).Init assigns them now (regenerated on every
    run): errors are returned on the error stream (`Return.Errors = true`, successes not), the message size limit is the
    `maxmsgbytes` flag and nothing else, the flush threshold is the `flushbytes` flag — two *different* settings, so a
    small flush threshold cannot limit the size of a message —, the partitioner is round-robin unless `hashing` is set,
    then the hash partitioner; compression only when a known codec is named. Every assignment to a producer setting is
    in this list, with the conditions it sits under. -/
theorem producer_settings_match :
    Goflow.Generated.kafkaProducerSettings =
      [("", "kafkaConfig.Producer.Return.Successes", "false"),
       ("", "kafkaConfig.Producer.Return.Errors", "true"),
       ("", "kafkaConfig.Producer.MaxMessageBytes", "d.kafkaMaxMsgBytes"),
       ("", "kafkaConfig.Producer.Flush.Bytes", "d.kafkaFlushBytes"),
       ("", "kafkaConfig.Producer.Flush.Frequency", "d.kafkaFlushFrequency"),
       ("", "kafkaConfig.Producer.Partitioner", "sarama.NewRoundRobinPartitioner"),
       ("d.kafkaCompressionCodec != \"\" && !(cc, ok := compressionCodecs[strings.ToLower(d.kafkaCompressionCodec)]; !ok)",
        "kafkaConfig.Producer.Compression", "cc"),
       ("d.kafkaHashing", "kafkaConfig.Producer.Partitioner", "sarama.NewHashPartitioner")] := by
  decide +kernel

/-- non-vacuity: an outcome satisfying the contract -/
example : Contract true 4 [⟨"t", [1], [2]⟩] ⟨[(⟨"t", [1], [2]⟩, hashPartition [1] 4)], []⟩ := by
  refine ⟨rfl, ?_, ?_⟩
  · exact List.Perm.refl _
  · intro _ e he; simp at he; subst he; rfl

end Goflow.C20
