import Goflow.Generated.SflowT
import Goflow.Decoders.Sflow
import Proofs.C05Trans
/-!
  C04 (translation tie, first part) — the sFlow decoder. So far `DecodeIP` of decoders/sflow/sflow.go is regenerated
  (Goflow/Generated/SflowT.lean) and proved equal to the model's `decodeIP` for every byte string: the address family,
  the address bytes, the buffer that remains, and the error class (EOF when the family word is cut, `bad` for an unknown
  family or a cut address).
-/
set_option linter.unusedSimpArgs false
namespace Goflow.C04Trans
open Goflow Goflow.Producer Goflow.Generated Goflow.Go Goflow.Sflow Goflow.C05Trans

theorem readBytes_ok {b : Bytes} {n : Nat} (hn : 0 < n) (h : n ≤ b.length) : Go.readBytes b n = .ok (b.take n, b.drop n) := by
  have h0 : ¬ n = 0 := by omega
  have h1 : ¬ (min n b.length < n) := by omega
  simp [Go.readBytes, Go.next, List.length_take, h0, h1]

/-- sflow.DecodeIP for every byte string: (family, address, rest) or the model's error class -/
theorem decodeIP_trans_eq (b : Bytes) :
    (TS.DecodeIP b).map (fun r => (r.2.1.toNat, r.2.2, r.1)) = decodeIP b := by
  unfold TS.DecodeIP decodeIP
  by_cases h4 : 4 ≤ b.length
  · rw [readU32_ok h4, readU_ok h4]
    simp only [ok_bind, Go.makeBytes]
    have hv : (UInt32.ofNat (beNat (b.take 4))).toNat = beNat (b.take 4) := u32_beNat b
    by_cases h1 : beNat (b.take 4) = 1
    · have h1' : UInt32.ofNat (beNat (b.take 4)) = 1 := by rw [h1]; rfl
      by_cases hl : 4 ≤ b.length - 4
      · have hl' : 4 ≤ (b.drop 4).length := by simpa using hl
        simp [h1', h1, hl, readBytes_ok (by decide : 0 < 4) hl', Except.map]
      · simp [h1', h1, hl, Go.retSt, Except.map]
    · have h1' : UInt32.ofNat (beNat (b.take 4)) ≠ 1 := fun h => h1 (by rw [← hv, h]; rfl)
      by_cases h2 : beNat (b.take 4) = 2
      · have h2' : UInt32.ofNat (beNat (b.take 4)) = 2 := by rw [h2]; rfl
        by_cases hl : 16 ≤ b.length - 4
        · have hl' : 16 ≤ (b.drop 4).length := by simpa using hl
          simp [h2', h2, hl, readBytes_ok (by decide : 0 < 16) hl', Except.map]
        · simp [h2', h2, hl, Go.retSt, Except.map]
      · have h2' : UInt32.ofNat (beNat (b.take 4)) ≠ 2 := fun h => h2 (by rw [← hv, h]; rfl)
        simp [h1', h1, h2', h2, Go.retSt, Except.map]
  · have h4' : b.length < 4 := by omega
    rw [readU32_short h4', readU_short h4']
    rfl

end Goflow.C04Trans
