import Goflow.Pipe
import Goflow.Basic.MsgDump
/-!
  C12 — Messages do not depend on what was processed before.
  In the model every message starts from `FlowMsg.empty` (what `Reset()` leaves) and `decodeFlow`
  reads the state only through the exporter's own template store and its IP's sampling rates.
  That the real code behaves like this model with an arbitrarily poisoned sync.Pool is what the
  correspondence check of this property exercises.
-/
namespace Goflow.C12
open Goflow Goflow.Pipe Goflow.Producer

/-- the part of the state a datagram from `src` can observe -/
def relevant (st : State) (src : Src) : Netflow.Store × Rates := (st.templatesOf src, st.ratesOf src.ip)

/-- Reset() leaves nothing behind: every column, every repeated field and the unknown fields are empty -/
theorem reset_total : FlowMsg.empty.dump = "msg" ∧ FlowMsg.empty.unk = [] ∧
    flowMessageColumns.all (fun c => (FlowMsg.empty.dumpField c).isNone) = true := by
  decide

/-- The messages and the outcome of a datagram are a function of the datagram, the receive
    metadata, the configuration and the exporter's template / sampling state only: two states that
    agree on that part — whatever else they contain, whatever was processed before — give the
    same output. -/
theorem pool_independent (k : Kind) (cfg : Config) (st st' : State) (src : Src) (recv : Nat) (d : Bytes)
    (h : relevant st src = relevant st' src) :
    (decodeFlow k cfg st src recv d).msgs = (decodeFlow k cfg st' src recv d).msgs ∧
    (decodeFlow k cfg st src recv d).err = (decodeFlow k cfg st' src recv d).err := by
  have ht : st.templatesOf src = st'.templatesOf src := congrArg Prod.fst h
  have hr : st.ratesOf src.ip = st'.ratesOf src.ip := congrArg Prod.snd h
  have hrates : ∀ (s : State) (t : Netflow.Store), (s.setTemplates src t).ratesOf src.ip = s.ratesOf src.ip := by
    intro s t; rfl
  have nf : (netflowPipe cfg st src recv d).msgs = (netflowPipe cfg st' src recv d).msgs ∧
      (netflowPipe cfg st src recv d).err = (netflowPipe cfg st' src recv d).err := by
    unfold netflowPipe
    simp only [ht, hrates, hr]
    split
    · exact ⟨rfl, rfl⟩
    · split
      · split <;> exact ⟨rfl, rfl⟩
      · split
        · split
          · exact ⟨rfl, rfl⟩
          · split <;> exact ⟨rfl, rfl⟩
        · exact ⟨rfl, rfl⟩
  have sf : (sflowPipe cfg st recv d).msgs = (sflowPipe cfg st' recv d).msgs ∧
      (sflowPipe cfg st recv d).err = (sflowPipe cfg st' recv d).err := by
    unfold sflowPipe
    split
    · exact ⟨rfl, rfl⟩
    · split <;> exact ⟨rfl, rfl⟩
  cases k with
  | netflow => exact nf
  | sflow => exact sf
  | auto =>
    unfold decodeFlow autoPipe
    simp only
    split
    · exact ⟨rfl, rfl⟩
    · split
      · exact sf
      · split
        · exact nf
        · exact ⟨rfl, rfl⟩

/-- sFlow and NetFlow v5 datagrams do not look at the state at all -/
theorem sflow_stateless (cfg : Config) (st st' : State) (recv : Nat) (d : Bytes) :
    (sflowPipe cfg st recv d).msgs = (sflowPipe cfg st' recv d).msgs := by
  unfold sflowPipe
  split
  · rfl
  · split <;> rfl

/-- non-vacuity: two different states that agree on the relevant part -/
example : relevant ({} : State) ⟨[10,0,0,1], 2055⟩ =
    relevant ({ templates := [(⟨[10,0,0,2], 2055⟩, [(1, default)])], sampling := [([10,0,0,9], [((9,1), 100)])] } : State) ⟨[10,0,0,1], 2055⟩ := by
  decide

end Goflow.C12
