import Goflow.Pipe
import Proofs.C01
import Proofs.C03
import Proofs.C04Roundtrip
import Proofs.C05
import Proofs.C06
import Proofs.C07
import Proofs.C08
/-!
  C07, end to end — "for every datagram the collector emits exactly one flow message per flow record
  it carries, in wire order, and none for templates, options records, counter samples or drop samples"
  — stated against the WIRE encoders of the specification side (Goflow/Spec/{V5,Netflow,Sflow}.lean)
  and through the whole pipe (`Pipe.netflowPipe`, `Pipe.sflowPipe`, `Pipe.autoPipe` / `decodeFlow .auto`),
  for every pipe state. (The per-stage counts on the decoded packet and the "any bytes" bounds are in
  Proofs/C07.lean.)

  (a) `v5_pipe_messages`, `v5_auto_messages`; `v5_pipe_messages_trunc` also covers datagrams cut
      inside a record and header counts that disagree with the records present.
  (b) `netflow_pipe_messages` (+ `_known`, `_default`, `netflow_auto_eq`): C03's `MsgWF`, extended
      (`MsgWFU`) so that data / options data sets may refer to templates the collector does not hold.
      `roundtripU` is the corresponding extension of C03's round trip.
      Conversion can fail; the hypothesis is `RecordsConvert` (every flow record of a KNOWN template
      converts), `netflow_pipe_conversion_failure` says what happens otherwise (no message at all).
      How a record can fail (`applyAction`, `convertFields`): (1) a non-enterprise element that the
      switch of ConvertNetFlowDataSet reads with DecodeUNumber carries a value wider than 8 bytes;
      (2) a custom `ipfix.mapping` / `netflowv9.mapping` entry whose MapCustom fails; (3) element 315
      through layer mappings (`sflow.mapping`). `recordsConvert_of_widths` proves (1) is the only
      source without custom mappings: `WidthsOK` (decidable, specification side) suffices.
      The sampling-rate lookup never fails (`searchSamplingRate_ok`).
  (c) `sflow_pipe_messages` (+ `_default`, `sflow_auto_eq`): C04's `DatagramWF`. A sample can only
      fail through a raw-header record (header protocol 1) whose dissection applies a failing layer
      mapping; without `sflow.mapping` entries (`cfg.layers = []`, whatever the port table) no sample
      fails (`samplesConvert_of_noLayers`, on top of C01's `parsePacket_safe`), so the theorem is
      unconditional for the default configuration. `sflow_pipe_conversion_failure`: no partial output.
  (d) `history_counts`: histories of datagrams of several exporters through the auto pipe against a
      specification-side template knowledge `Know` = exporter ↦ (version, domain, id) ↦ layout,
      updated by every template / options template record (latest wins). Well-formedness (`MsgWFK`)
      and the expected count (`countK`) only refer to that knowledge; `msgWFK_sound` shows that the
      collector's packed-key stores refine it (`Refines`, using C06's `store_refines` and
      `templateKey_injective`), `history_step` is the invariant step.

  Non-vacuity: section `Examples` at the end (all hypotheses decided on concrete datagrams, the
  model evaluated on the encoded bytes by the kernel).
-/
namespace Goflow.C07E2E
open Goflow Goflow.Producer Goflow.Pipe

/-! ## specification-side vocabulary -/

/-! ### (a) NetFlow v5 -/

/-- the flow message of one v5 record of a datagram with header `h`, as the pipe hands it on -/
def v5Msg (recv : Nat) (exporter : Bytes) (h : V5.Header) (r : V5.Record) : FlowMsg :=
  stampRecv recv (unmap exporter)
    { convertLegacyRecord (h.unixSecs * 1000000000 + h.unixNSecs) h.sysUptime r with
      sequenceNum := h.flowSequence, samplingRate := h.samplingInterval % 16384 }

/-! ### (b) NetFlow v9 / IPFIX -/
section
open Goflow.Netflow Goflow.Spec.Netflow Goflow.C03

/-- the collector holds no template under the id a data / options data set refers to -/
def isUnknown (version dom : Nat) (s : Store) : SSet → Bool
  | .data tid _ _ _ => (s.get (templateKey version dom tid)).isNone
  | .optsData tid _ _ _ _ => (s.get (templateKey version dom tid)).isNone
  | _ => false

/-- a data or options data set that refers to a template the collector does not hold; nothing is
    required of its content (it cannot be cut into records without the template) -/
def UnknownSetWF (version dom : Nat) (s : Store) : SSet → Prop
  | .data tid tpl records pad =>
      256 ≤ tid ∧ tid < 65536 ∧ s.get (templateKey version dom tid) = none ∧
      4 + (records.flatMap (encRecord tpl)).length + pad < 65536
  | .optsData tid scopes options records pad =>
      256 ≤ tid ∧ tid < 65536 ∧ s.get (templateKey version dom tid) = none ∧
      4 + (records.flatMap fun r => encRecord scopes r.1 ++ encRecord options r.2).length + pad < 65536
  | _ => False

/-- C03's well-formedness of a set, or a set of an unknown template -/
def SetWFU (version dom : Nat) (s : Store) (set : SSet) : Prop :=
  SetWF version dom s set ∨ UnknownSetWF version dom s set

def SetsWFU (version dom : Nat) : Store → List SSet → Prop
  | _, [] => True
  | s, set :: rest => SetWFU version dom s set ∧ SetsWFU version dom (setStore version dom s set) rest

/-- C03's `MsgWF`, except that data and options data sets may also refer to unknown templates -/
def MsgWFU (s : Store) (m : Msg) : Prop :=
  (m.version = 9 ∨ m.version = 10) ∧ m.count < 65536 ∧ m.uptime < 2 ^ 32 ∧ m.time < 2 ^ 32 ∧ m.seq < 2 ^ 32 ∧
  m.domain < 2 ^ 32 ∧ SetsWFU m.version m.domain s m.sets ∧
  (m.version = 9 → m.sets.length ≤ m.count) ∧
  (m.version = 10 → 16 + (m.sets.flatMap (encSSet m.version)).length < 65536)

instance (v d : Nat) (s : Store) (set : SSet) : Decidable (UnknownSetWF v d s set) := by
  cases set <;> unfold UnknownSetWF <;> infer_instance
instance (v d : Nat) (s : Store) (set : SSet) : Decidable (SetWFU v d s set) := by
  unfold SetWFU; infer_instance
def SetsWFU.dec (v d : Nat) : (s : Store) → (sets : List SSet) → Decidable (SetsWFU v d s sets)
  | _, [] => isTrue trivial
  | s, set :: rest =>
    match SetsWFU.dec v d (setStore v d s set) rest with
    | isTrue h => if hs : SetWFU v d s set then isTrue ⟨hs, h⟩ else isFalse (fun h' => hs h'.1)
    | isFalse h => isFalse (fun h' => h h'.2)
instance (v d : Nat) (s : Store) (sets : List SSet) : Decidable (SetsWFU v d s sets) := SetsWFU.dec v d s sets
instance (s : Store) (m : Msg) : Decidable (MsgWFU s m) := by unfold MsgWFU; infer_instance

/-- what the decoder must return for a set: a set of an unknown template comes back as its raw
    bytes, anything else as in C03 -/
def expSetU (version dom : Nat) (s : Store) (set : SSet) : FlowSet :=
  match set with
  | .data tid _ _ _ =>
      if isUnknown version dom s set then .raw tid (setLen version set) ((encSSet version set).drop 4) else expSet version set
  | .optsData tid _ _ _ _ =>
      if isUnknown version dom s set then .raw tid (setLen version set) ((encSSet version set).drop 4) else expSet version set
  | _ => expSet version set

def expSetsU (version dom : Nat) : Store → List SSet → List FlowSet
  | _, [] => []
  | s, set :: rest => expSetU version dom s set :: expSetsU version dom (setStore version dom s set) rest

/-- the packet a correct decoder returns for `m` when the collector holds the templates `s` -/
def expectedU (s : Store) (m : Msg) : Packet :=
  { expected m with flowSets := expSetsU m.version m.domain s m.sets }

/-- the flow records of one set, given the templates in force when it is reached: the data records of
    a data set of a known template; nothing for anything else -/
def setFlowRecords (version dom : Nat) (s : Store) (set : SSet) : List (List DataField) :=
  match set with
  | .data _ tpl recs _ => if isUnknown version dom s set then [] else recs.map (expRecord tpl)
  | _ => []

/-- the flow records of a message in wire order; template sets earlier in the message count -/
def knownRecords (version dom : Nat) : Store → List SSet → List (List DataField)
  | _, [] => []
  | s, set :: rest => setFlowRecords version dom s set ++ knownRecords version dom (setStore version dom s set) rest

/-- the options records of the options data sets of known options templates (they carry the sampling rate) -/
def setOptionRecords (version dom : Nat) (s : Store) (set : SSet) : List OptionsDataRecord :=
  match set with
  | .optsData _ scopes options recs _ =>
      if isUnknown version dom s set then [] else recs.map fun r => ⟨expRecord scopes r.1, expRecord options r.2⟩
  | _ => []

def knownOptionRecords (version dom : Nat) : Store → List SSet → List OptionsDataRecord
  | _, [] => []
  | s, set :: rest => setOptionRecords version dom s set ++ knownOptionRecords version dom (setStore version dom s set) rest

/-- does the message contain a set of an unknown template -/
def anyUnknown (version dom : Nat) : Store → List SSet → Bool
  | _, [] => false
  | s, set :: rest => isUnknown version dom s set || anyUnknown version dom (setStore version dom s set) rest

/-- number of flow records of the sets with a known data template -/
def knownFlowRecords (version dom : Nat) (s : Store) (sets : List SSet) : Nat :=
  (knownRecords version dom s sets).length

/-- v9 sysUptime; IPFIX has none -/
def Msg.up (m : Msg) : Nat := if m.version = 9 then m.uptime else 0

/-- conversion of one data record of message `m` (before the packet-level stamps) -/
def recordMsg (cfg : Config) (m : Msg) (r : List DataField) : Res FlowMsg :=
  convertNetFlowDataSet (some cfg) m.version m.time (Msg.up m) r

/-- the sampling rate the messages of `m` are stamped with: announced by an options record of `m`,
    else the one remembered for (version, domain) of this exporter address -/
def rateOf (st : State) (src : Src) (m : Msg) : Nat :=
  (applyRate (match searchSamplingRate (knownOptionRecords m.version m.domain (st.templatesOf src) m.sets) with
              | .ok f => f | .error _ => none)
    (st.ratesOf src.ip) (m.version, m.domain)).1

/-- packet-level stamps of a v9 / IPFIX flow message -/
def nfStamp (st : State) (src : Src) (recv : Nat) (m : Msg) (x : FlowMsg) : FlowMsg :=
  stampRecv recv (unmap src.ip) (stampNetflow m.seq (rateOf st src m) m.domain x)

/-- the value of a successful conversion -/
def Res.val {α} [Inhabited α] : Res α → α
  | .ok a => a
  | .error _ => default

/-- every flow record of the sets with a known template converts -/
def RecordsConvert (cfg : Config) (s : Store) (m : Msg) : Prop :=
  ∀ r ∈ knownRecords m.version m.domain s m.sets, ∃ x, recordMsg cfg m r = .ok x

/-- the information elements the collector reads as unsigned numbers (docs/protocols.md: counters,
    ports, protocol, interfaces, AS numbers, masks, MACs, VLANs, MPLS labels, ICMP, time stamps …):
    a value wider than 8 bytes is not a number and makes the conversion fail -/
def numericElements : List Nat :=
  [1, 2, 4, 5, 6, 7, 9, 10, 11, 13, 14, 16, 17, 21, 22, 23, 24, 29, 30, 31, 32, 52, 54, 56, 57, 58, 59, 70, 71, 72,
   80, 81, 88, 89, 138, 139, 150, 151, 152, 153, 154, 155, 156, 157, 158, 159, 176, 177, 178, 179, 197, 312]

/-- a decidable sufficient condition for conversion: the values of non-enterprise numeric elements
    are at most 8 bytes wide (for fixed-length fields: the template width is ≤ 8) -/
def ValuesOK : List SField → List SValue → Prop
  | f :: fs, v :: vs => (f.ent = none → f.id ∈ numericElements → v.bytes.length ≤ 8) ∧ ValuesOK fs vs
  | _, _ => True

def SetValuesOK : SSet → Prop
  | .data _ tpl recs _ => ∀ r ∈ recs, ValuesOK tpl r
  | _ => True

def WidthsOK (m : Msg) : Prop := ∀ set ∈ m.sets, SetValuesOK set

def ValuesOK.dec : (fs : List SField) → (vs : List SValue) → Decidable (ValuesOK fs vs)
  | f :: fs, v :: vs =>
    match ValuesOK.dec fs vs with
    | isTrue h =>
      if hv : (f.ent = none → f.id ∈ numericElements → v.bytes.length ≤ 8) then isTrue ⟨hv, h⟩
      else isFalse (fun h' => hv h'.1)
    | isFalse h => isFalse (fun h' => h h'.2)
  | [], _ => isTrue (by unfold ValuesOK; trivial)
  | _ :: _, [] => isTrue (by unfold ValuesOK; trivial)
instance (fs : List SField) (vs : List SValue) : Decidable (ValuesOK fs vs) := ValuesOK.dec fs vs
instance (set : SSet) : Decidable (SetValuesOK set) := by cases set <;> unfold SetValuesOK <;> infer_instance
instance (m : Msg) : Decidable (WidthsOK m) := by unfold WidthsOK; infer_instance

end

/-! ### (c) sFlow -/
section
open Goflow.Sflow Goflow.Spec.Sflow

def isFlowSample : SSample → Bool
  | .flow .. => true
  | .expFlow .. => true
  | _ => false

/-- conversion of one sample: `none` for samples that are not flow samples -/
def sampleMsg (cfg : Config) (s : SSample) : Option (Res FlowMsg) := convertSample (some cfg) (expSample s)

/-- datagram-level stamps of an sFlow flow message: agent address, datagram sequence number, receive time -/
def sfStamp (recv : Nat) (d : Datagram) (x : FlowMsg) : FlowMsg :=
  stampSflow recv { x with samplerAddress := d.agent, sequenceNum := d.seq }

/-- the flow message of a flow / expanded flow sample whose conversion succeeds -/
def flowSampleMsg (cfg : Config) (s : SSample) : FlowMsg :=
  match sampleMsg cfg s with
  | some (.ok x) => x
  | _ => default

/-- no sample of the datagram fails to convert -/
def SamplesConvert (cfg : Config) (d : Datagram) : Prop :=
  ∀ s ∈ d.samples, ∀ e, sampleMsg cfg s ≠ some (.error e)

end

/-! ## (a) NetFlow v5 through the pipe -/
section V5
open Goflow.V5 Goflow.Spec.V5

/-- the first four bytes of an encoded v5 datagram, as AutoFlowPipe reads them -/
private theorem readU4_v5 (h : Header) (rest : Bytes) (hc : h.count < 2 ^ 16) :
    ∃ b', readU 4 (encodeHeader h ++ rest) = .ok (5 * 65536 + h.count, b') := by
  have e : encodeHeader h ++ rest = (encBE 2 5 ++ encBE 2 h.count) ++
      (encBE 4 h.sysUptime ++ encBE 4 h.unixSecs ++ encBE 4 h.unixNSecs ++ encBE 4 h.flowSequence ++
        encBE 1 h.engineType ++ encBE 1 h.engineId ++ encBE 2 h.samplingInterval ++ rest) := by
    simp [encodeHeader]
  rw [e, readU_append _ _ (by simp), beNat_append, beNat_encBE_of_lt (by decide : 5 < 256 ^ 2),
    beNat_encBE_of_lt (by simpa using hc)]
  exact ⟨_, by rw [encBE_length]⟩

/-- v5, cut or padded datagrams included: `rs` complete records followed by fewer than 48 stray
    bytes, under any header count: exactly the first `count` records yield one message each, in order -/
theorem v5_pipe_messages_trunc (cfg : Config) (st : State) (src : Src) (recv : Nat)
    (h : Header) (rs : List Record) (p : Bytes)
    (hw : HeaderWF h) (hwf : ∀ r ∈ rs, RecordWF r) (hp : p.length < 48) :
    netflowPipe cfg st src recv (encode h rs ++ p) =
      ⟨st.setTemplates src (st.templatesOf src), (rs.take h.count).map (v5Msg recv src.ip h), none⟩ := by
  have ht := C05.truncation h rs p hw hwf hp
  obtain ⟨h1, _, _⟩ := C05.header_roundtrip h (rs.flatMap encodeRecord ++ p) hw
  have e : encode h rs ++ p = encodeHeader h ++ (rs.flatMap encodeRecord ++ p) := by simp [encode]
  rw [e] at ht ⊢
  unfold decodeMessageVersion at ht
  rw [h1] at ht
  simp only [ne_eq, not_true_eq_false, if_false] at ht
  unfold netflowPipe
  simp only [h1, ht, if_true]
  rw [C07.produce_order_v5, List.map_map]
  rfl

/-- **C07 (a)** — a well-formed NetFlow v5 datagram (C05's hypotheses): no error, and exactly one
    message per record, in wire order, each the stamped conversion of its record -/
theorem v5_pipe_messages (cfg : Config) (st : State) (src : Src) (recv : Nat)
    (h : Header) (rs : List Record)
    (hw : HeaderWF h) (hwf : ∀ r ∈ rs, RecordWF r) (hc : rs.length = h.count) :
    (netflowPipe cfg st src recv (encode h rs)).err = none ∧
    (netflowPipe cfg st src recv (encode h rs)).msgs = rs.map (v5Msg recv src.ip h) ∧
    (netflowPipe cfg st src recv (encode h rs)).msgs.length = rs.length := by
  have := v5_pipe_messages_trunc cfg st src recv h rs [] hw hwf (by decide)
  simp only [List.append_nil] at this
  rw [this, ← hc]
  simp

/-- the same datagrams through AutoFlowPipe are NetFlow datagrams -/
theorem v5_auto_eq (cfg : Config) (st : State) (src : Src) (recv : Nat)
    (h : Header) (rs : List Record) (p : Bytes) (hw : HeaderWF h) :
    autoPipe cfg st src recv (encode h rs ++ p) = netflowPipe cfg st src recv (encode h rs ++ p) := by
  have e : encode h rs ++ p = encodeHeader h ++ (rs.flatMap encodeRecord ++ p) := by simp [encode]
  obtain ⟨b', hb⟩ := readU4_v5 h (rs.flatMap encodeRecord ++ p) hw.1
  unfold autoPipe
  rw [e, hb]
  have hc := hw.1
  simp only [Nat.reducePow] at hc
  have h1 : ¬ (5 * 65536 + h.count = 5) := by omega
  have h2 : (5 * 65536 + h.count) / 65536 = 5 := by omega
  simp [h1, h2]

theorem v5_auto_messages (cfg : Config) (st : State) (src : Src) (recv : Nat)
    (h : Header) (rs : List Record)
    (hw : HeaderWF h) (hwf : ∀ r ∈ rs, RecordWF r) (hc : rs.length = h.count) :
    (decodeFlow .auto cfg st src recv (encode h rs)).err = none ∧
    (decodeFlow .auto cfg st src recv (encode h rs)).msgs = rs.map (v5Msg recv src.ip h) ∧
    (decodeFlow .auto cfg st src recv (encode h rs)).msgs.length = rs.length := by
  have := v5_auto_eq cfg st src recv h rs [] hw
  simp only [List.append_nil] at this
  simp only [decodeFlow, this]
  exact v5_pipe_messages cfg st src recv h rs hw hwf hc

end V5

/-! ## (b) NetFlow v9 / IPFIX through the pipe -/
section Netflow
open Goflow.Netflow Goflow.Spec.Netflow Goflow.C03

/-! ### decoding: C03's round trip, extended to sets of unknown templates -/

private theorem readFields2 (a b : Nat) (rest : Bytes) (ha : a < 65536) (hb : b < 65536) :
    readFields [2, 2] (encBE 2 a ++ (encBE 2 b ++ rest)) = .ok ([a, b], rest) := by
  have : Fits [2, 2] [a, b] := by simp [Fits]; omega
  have := readFields_enc [2, 2] [a, b] rest this
  simpa [encFields] using this

private theorem zeros_length (n : Nat) : (zeros n).length = n := by simp [zeros]

private theorem nextN_append (x rest : Bytes) : nextN x.length (x ++ rest) = (x, rest) := by
  simp [nextN]

private theorem encSet_shape (id : Nat) (body : Bytes) (pad : Nat) (rest : Bytes)
    (hid : id < 65536) (hlen : 4 + body.length + pad < 65536) :
    readFields [2, 2] (encSet id body pad ++ rest) = .ok ([id, 4 + body.length + pad], body ++ zeros pad ++ rest) ∧
    nextN (4 + body.length + pad - 4) (body ++ zeros pad ++ rest) = (body ++ zeros pad, rest) := by
  constructor
  · unfold encSet
    simp only [List.append_assoc]
    exact readFields2 _ _ _ hid hlen
  · have : 4 + body.length + pad - 4 = (body ++ zeros pad).length := by simp [zeros_length]; omega
    rw [this]
    exact nextN_append _ _

private theorem encSet_drop4 (id : Nat) (body : Bytes) (pad : Nat) : (encSet id body pad).drop 4 = body ++ zeros pad := by
  have : encSet id body pad = (encBE 2 id ++ encBE 2 (4 + body.length + pad)) ++ (body ++ zeros pad) := by
    simp [encSet]
  rw [this]
  exact List.drop_left' (by simp)

private theorem flatMap_length_ge {α} (xs : List α) (f : α → Bytes) (k : Nat) (h : ∀ x ∈ xs, k ≤ (f x).length) :
    k * xs.length ≤ (xs.flatMap f).length := by
  induction xs with
  | nil => simp
  | cons x xs ih =>
    have h1 := h x (by simp)
    have h2 := ih (fun y hy => h y (by simp [hy]))
    simp only [List.flatMap_cons, List.length_append, List.length_cons, Nat.mul_succ]
    omega

private theorem encSSet_length_ge (version : Nat) (set : SSet) : 4 ≤ (encSSet version set).length := by
  cases set <;> simp only [encSSet, encSet, List.length_append, encBE_length] <;> omega

/-- a well-formed set of a known template is not unknown -/
private theorem isUnknown_of_wf (version dom : Nat) (s : Store) (set : SSet) (h : SetWF version dom s set) :
    isUnknown version dom s set = false := by
  cases set with
  | data tid tpl records pad => simp [isUnknown, h.2.2.1]
  | optsData tid scopes options records pad =>
    rcases h.2.2.1 with h' | h' <;> simp [isUnknown, h']
  | _ => rfl

private theorem isUnknown_of_unknown (version dom : Nat) (s : Store) (set : SSet) (h : UnknownSetWF version dom s set) :
    isUnknown version dom s set = true := by
  cases set with
  | data tid tpl records pad => simp [isUnknown, h.2.2.1]
  | optsData tid scopes options records pad => simp [isUnknown, h.2.2.1]
  | _ => exact absurd h (by simp [UnknownSetWF])

/-- DecodeMessageCommonFlowSet on one encoded set, known or unknown template -/
theorem flowSetU_roundtrip (version dom : Nat) (s : Store) (set : SSet) (rest : Bytes) (fuel : Nat)
    (hwf : SetWFU version dom s set) (hfuel : (encSSet version set).length < fuel) :
    ∃ o, decodeFlowSet fuel version dom s (encSSet version set ++ rest) = .ok o ∧
      o.flowSet = expSetU version dom s set ∧ o.tnf = isUnknown version dom s set ∧
      o.store = setStore version dom s set ∧ o.rest = rest := by
  rcases hwf with hwf | hwf
  · obtain ⟨o, h1, h2, h3, h4, h5⟩ := flowSet_roundtrip version dom s set rest fuel hwf hfuel
    have hk := isUnknown_of_wf version dom s set hwf
    refine ⟨o, h1, ?_, by rw [h3, hk], h4, h5⟩
    rw [h2]
    cases set <;> simp [expSetU, hk]
  · have hk := isUnknown_of_unknown version dom s set hwf
    cases set with
    | data tid tpl records pad =>
      obtain ⟨hlo, hhi, hget, hlen⟩ := hwf
      obtain ⟨h1, h2⟩ := encSet_shape tid (records.flatMap (encRecord tpl)) pad rest hhi hlen
      unfold decodeFlowSet
      simp only [encSSet]
      rw [h1]
      have hge : ¬ 4 + (records.flatMap (encRecord tpl)).length + pad < 4 := by omega
      simp only [hge, if_false]
      rw [h2]
      have c1 : ¬ (tid = 0 ∧ version = 9 ∨ tid = 2 ∧ version = 10) := by omega
      have c2 : ¬ (tid = 1 ∧ version = 9) := by omega
      have c3 : ¬ (tid = 3 ∧ version = 10) := by omega
      simp only [c1, c2, c3, if_false, ge_iff_le, hlo, if_true, hget]
      refine ⟨_, rfl, ?_, by rw [hk], ?_, rfl⟩
      · simp only [expSetU, hk, if_true, encSSet, encSet_drop4, setLen]
        simp [encSet, zeros_length]
        omega
      · simp [setStore, announces, addTemplates]
    | optsData tid scopes options records pad =>
      obtain ⟨hlo, hhi, hget, hlen⟩ := hwf
      obtain ⟨h1, h2⟩ := encSet_shape tid (records.flatMap fun r => encRecord scopes r.1 ++ encRecord options r.2) pad rest hhi hlen
      unfold decodeFlowSet
      simp only [encSSet]
      rw [h1]
      have hge : ¬ 4 + (records.flatMap fun r => encRecord scopes r.1 ++ encRecord options r.2).length + pad < 4 := by omega
      simp only [hge, if_false]
      rw [h2]
      have c1 : ¬ (tid = 0 ∧ version = 9 ∨ tid = 2 ∧ version = 10) := by omega
      have c2 : ¬ (tid = 1 ∧ version = 9) := by omega
      have c3 : ¬ (tid = 3 ∧ version = 10) := by omega
      simp only [c1, c2, c3, if_false, ge_iff_le, hlo, if_true, hget]
      refine ⟨_, rfl, ?_, by rw [hk], ?_, rfl⟩
      · simp only [expSetU, hk, if_true, encSSet, encSet_drop4, setLen]
        simp [encSet, zeros_length]
        omega
      · simp [setStore, announces, addTemplates]
    | template _ _ => exact absurd hwf (by simp [UnknownSetWF])
    | v9opts _ _ => exact absurd hwf (by simp [UnknownSetWF])
    | ipfixopts _ _ => exact absurd hwf (by simp [UnknownSetWF])

/-- DecodeMessageCommon on the concatenation of the encoded sets -/
theorem messageCommonU_roundtrip (version dom size startLen : Nat) (sets : List SSet) (s : Store) (i fuel : Nat)
    (hwf : SetsWFU version dom s sets) (hfuel : sets.length < fuel)
    (h9 : version = 9 → i + sets.length ≤ size)
    (h10 : version = 10 → (sets.flatMap (encSSet version)).length ≤ startLen ∧ startLen ≤ size ∧ startLen < 65536)
    (hv : version = 9 ∨ version = 10) :
    decodeSets version dom size startLen fuel i s (sets.flatMap (encSSet version)) =
      ⟨expSetsU version dom s sets, anyUnknown version dom s sets, storeAfter version dom s sets, none⟩ := by
  induction sets generalizing s i fuel with
  | nil =>
    cases fuel with
    | zero => simp at hfuel
    | succ fuel => simp [decodeSets, storeAfter, expSetsU, anyUnknown]
  | cons set rest ih =>
    cases fuel with
    | zero => simp at hfuel
    | succ fuel =>
      obtain ⟨hset, hrest⟩ := hwf
      simp only [List.flatMap_cons]
      unfold decodeSets
      have hlen4 := encSSet_length_ge version set
      have hpos : 0 < (encSSet version set ++ List.flatMap (encSSet version) rest).length := by
        simp only [List.length_append]; omega
      have hcond : ((i < size ∧ version = 9) ∨ ((startLen - (encSSet version set ++ List.flatMap (encSSet version) rest).length) % 65536 < size ∧ version = 10)) := by
        rcases hv with hv | hv
        · left
          have := h9 hv
          simp only [List.length_cons] at this
          exact ⟨by omega, hv⟩
        · right
          obtain ⟨a, b, c⟩ := h10 hv
          simp only [List.flatMap_cons] at a
          refine ⟨?_, hv⟩
          have : (startLen - (encSSet version set ++ List.flatMap (encSSet version) rest).length) < 65536 := by omega
          rw [Nat.mod_eq_of_lt this]
          omega
      simp only [hcond, hpos, and_self, if_true]
      obtain ⟨o, ho, hfs, htnf, hst, hr⟩ := flowSetU_roundtrip version dom s set (List.flatMap (encSSet version) rest)
        ((encSSet version set ++ List.flatMap (encSSet version) rest).length + 2) hset
        (by simp only [List.length_append]; omega)
      rw [ho]
      simp only
      rw [hr, hst]
      have := ih (setStore version dom s set) (i + 1) fuel hrest (by simpa using hfuel)
        (fun hv => by have := h9 hv; simp only [List.length_cons] at this; omega)
        (fun hv => by
          obtain ⟨a, b, c⟩ := h10 hv
          simp only [List.flatMap_cons, List.length_append] at a
          exact ⟨by omega, b, c⟩)
      rw [this]
      simp [hfs, htnf, storeAfter, expSetsU, anyUnknown]

/-- decode (encode M) for messages that may refer to unknown templates: the sets of known templates
    decode as in C03, the others come back raw and are reported as template-not-found (not fatal);
    the store afterwards holds every announced template -/
theorem roundtripU (s : Store) (m : Msg) (hwf : MsgWFU s m) :
    decodeMessageVersion s (encode m) =
      ⟨expectedU s m, anyUnknown m.version m.domain s m.sets, storeAfter m.version m.domain s m.sets, none⟩ := by
  obtain ⟨hv, hc, hu, ht, hs, hd, hsets, h9, h10⟩ := hwf
  have hn : m.sets.length < (m.sets.flatMap (encSSet m.version)).length + 2 := by
    have := flatMap_length_ge m.sets (encSSet m.version) 4 (fun x _ => encSSet_length_ge m.version x)
    omega
  rcases hv with hv | hv
  · -- NetFlow v9
    unfold decodeMessageVersion encode
    simp only [hv, if_true, List.append_assoc]
    rw [readU_enc _ (by decide)]
    simp only [if_true, decodeMessageNetFlow]
    have hf : Fits [2, 4, 4, 4, 4] [m.count, m.uptime, m.time, m.seq, m.domain] := by
      simp only [Fits, Nat.reducePow, and_true] at *; omega
    have := readFields_enc [2, 4, 4, 4, 4] [m.count, m.uptime, m.time, m.seq, m.domain] (m.sets.flatMap (encSSet 9)) hf
    simp only [encFields, List.append_nil, List.append_assoc] at this
    rw [this]
    simp only
    have hmc := messageCommonU_roundtrip 9 m.domain m.count (m.sets.flatMap (encSSet 9)).length m.sets s 0
      ((m.sets.flatMap (encSSet 9)).length + 2) (hv ▸ hsets) (hv ▸ hn) (fun _ => by have := h9 hv; omega)
      (fun h => by cases h) (Or.inl rfl)
    rw [hmc]
    simp [expectedU, expected, hv]
  · -- IPFIX
    have hlen := h10 hv
    unfold decodeMessageVersion encode
    have hne : ¬ m.version = 9 := by omega
    simp only [hne, if_false, List.append_assoc]
    rw [readU_enc _ (by decide)]
    simp only [show ¬ ((10:Nat) = 9) by decide, if_false, if_true, decodeMessageIPFIX]
    rw [hv] at hlen ⊢
    have hf : Fits [2, 4, 4, 4] [16 + (m.sets.flatMap (encSSet 10)).length, m.time, m.seq, m.domain] := by
      simp only [Fits, Nat.reducePow, and_true] at *; omega
    have := readFields_enc [2, 4, 4, 4] [16 + (m.sets.flatMap (encSSet 10)).length, m.time, m.seq, m.domain] (m.sets.flatMap (encSSet 10)) hf
    simp only [encFields, List.append_nil, List.append_assoc] at this
    rw [this]
    simp only
    have hsize : (16 + (m.sets.flatMap (encSSet 10)).length + 65536 - 16) % 65536 = (m.sets.flatMap (encSSet 10)).length := by omega
    rw [hsize]
    have hmc := messageCommonU_roundtrip 10 m.domain (m.sets.flatMap (encSSet 10)).length (m.sets.flatMap (encSSet 10)).length m.sets s 0
      ((m.sets.flatMap (encSSet 10)).length + 2) (hv ▸ hsets) (hv ▸ hn) (fun h => by cases h)
      (fun _ => ⟨Nat.le_refl _, Nat.le_refl _, by omega⟩) (Or.inr rfl)
    rw [hmc]
    simp [expectedU, expected, hv]

/-! ### production: the decoded packet through the producer -/

private theorem dataRecordsOf_cons (x : FlowSet) (xs : List FlowSet) :
    dataRecordsOf (x :: xs) = (match x with | .data _ _ rs => rs | _ => []) ++ dataRecordsOf xs := by
  cases x <;> simp [dataRecordsOf]

private theorem optionRecordsOf_cons (x : FlowSet) (xs : List FlowSet) :
    optionRecordsOf (x :: xs) = (match x with | .optsData _ _ rs => rs | _ => []) ++ optionRecordsOf xs := by
  cases x <;> simp [optionRecordsOf]

/-- the data records the producer sees are the flow records of the sets of known templates -/
theorem dataRecordsOf_expSetsU (version dom : Nat) (s : Store) (sets : List SSet) :
    dataRecordsOf (expSetsU version dom s sets) = (knownRecords version dom s sets).map DataRecord.mk := by
  induction sets generalizing s with
  | nil => rfl
  | cons set rest ih =>
    simp only [expSetsU, knownRecords, dataRecordsOf_cons, ih, List.map_append]
    congr 1
    cases set with
    | data tid tpl recs pad =>
      by_cases hk : isUnknown version dom s (.data tid tpl recs pad) = true
      · simp [expSetU, setFlowRecords, hk]
      · simp [expSetU, setFlowRecords, hk, expSet, List.map_map, Function.comp_def]
    | optsData tid scopes options recs pad =>
      by_cases hk : isUnknown version dom s (.optsData tid scopes options recs pad) = true
      · simp [expSetU, setFlowRecords, hk]
      · simp [expSetU, setFlowRecords, hk, expSet]
    | template _ _ => simp [expSetU, setFlowRecords, expSet]
    | v9opts _ _ => simp [expSetU, setFlowRecords, expSet]
    | ipfixopts _ _ => simp [expSetU, setFlowRecords, expSet]

theorem optionRecordsOf_expSetsU (version dom : Nat) (s : Store) (sets : List SSet) :
    optionRecordsOf (expSetsU version dom s sets) = knownOptionRecords version dom s sets := by
  induction sets generalizing s with
  | nil => rfl
  | cons set rest ih =>
    simp only [expSetsU, knownOptionRecords, optionRecordsOf_cons, ih]
    congr 1
    cases set with
    | data tid tpl recs pad =>
      by_cases hk : isUnknown version dom s (.data tid tpl recs pad) = true
      · simp [expSetU, setOptionRecords, hk]
      · simp [expSetU, setOptionRecords, hk, expSet]
    | optsData tid scopes options recs pad =>
      by_cases hk : isUnknown version dom s (.optsData tid scopes options recs pad) = true
      · simp [expSetU, setOptionRecords, hk]
      · simp [expSetU, setOptionRecords, hk, expSet]
    | template _ _ => simp [expSetU, setOptionRecords, expSet]
    | v9opts _ _ => simp [expSetU, setOptionRecords, expSet]
    | ipfixopts _ _ => simp [expSetU, setOptionRecords, expSet]

/-- header fields of the expected packet, as the producer reads them -/
private theorem expectedU_fields (s : Store) (m : Msg) (hv : m.version = 9 ∨ m.version = 10) :
    (expectedU s m).version = m.version ∧ (expectedU s m).baseTime = m.time ∧ (expectedU s m).uptime = Msg.up m ∧
    (expectedU s m).seqNum = m.seq ∧ (expectedU s m).domain = m.domain ∧
    (expectedU s m).flowSets = expSetsU m.version m.domain s m.sets := by
  rcases hv with hv | hv
  · simp [expectedU, expected, hv, Packet.baseTime, Packet.uptime, Packet.seqNum, Packet.domain, Msg.up]
  · simp [expectedU, expected, hv, Packet.baseTime, Packet.uptime, Packet.seqNum, Packet.domain, Msg.up]

/-- the sampling-rate lookup never fails: values of up to 8 bytes are decoded, wider ones ignored -/
theorem searchSamplingRate_ok (rs : List OptionsDataRecord) : ∃ f, searchSamplingRate rs = .ok f := by
  have pop : ∀ (fs : List DataField) (t : Nat), ∃ f, populate fs t = .ok f := by
    intro fs t
    unfold populate
    split
    · exact ⟨_, rfl⟩
    · split
      · exact ⟨_, rfl⟩
      · split
        · exact ⟨_, rfl⟩
        · rename_i hl
          split
          · rename_i e he
            rw [C08.writeDecoded_trunc 32 _ (by omega)] at he
            cases he
          · exact ⟨_, rfl⟩
  induction rs with
  | nil => exact ⟨none, rfl⟩
  | cons r rs ih =>
    unfold searchSamplingRate
    obtain ⟨f1, h1⟩ := pop r.optionsValues 305
    obtain ⟨f2, h2⟩ := pop r.optionsValues 50
    obtain ⟨f3, h3⟩ := pop r.optionsValues 34
    rw [h1]
    cases f1 with
    | some x => exact ⟨_, rfl⟩
    | none =>
      simp only [h2]
      cases f2 with
      | some x => exact ⟨_, rfl⟩
      | none =>
        simp only [h3]
        cases f3 with
        | some x => exact ⟨_, rfl⟩
        | none => exact ih

/-- the conversion loop when every record converts: one message per record, in order -/
private theorem convertRecords_spec (cfg : Option Config) (v bt up : Nat) (recs : List (List DataField))
    (hok : ∀ r ∈ recs, ∃ x, convertNetFlowDataSet cfg v bt up r = .ok x) :
    convertRecords cfg v bt up (recs.map DataRecord.mk) =
      .ok (recs.map fun r => Res.val (convertNetFlowDataSet cfg v bt up r)) := by
  induction recs with
  | nil => rfl
  | cons r rs ih =>
    obtain ⟨x, hx⟩ := hok r (by simp)
    simp only [List.map_cons]
    unfold convertRecords
    simp only [hx, ih (fun y hy => hok y (by simp [hy])), Res.val]

/-- … and when some record does not: an error (the first failing record's) and nothing else -/
private theorem convertRecords_fail (cfg : Option Config) (v bt up : Nat) (recs : List (List DataField))
    (hbad : ∃ r ∈ recs, ∃ e, convertNetFlowDataSet cfg v bt up r = .error e) :
    ∃ e, convertRecords cfg v bt up (recs.map DataRecord.mk) = .error e := by
  induction recs with
  | nil => obtain ⟨r, hr, _⟩ := hbad; cases hr
  | cons r rs ih =>
    simp only [List.map_cons]
    unfold convertRecords
    cases hx : convertNetFlowDataSet cfg v bt up r with
    | error e => exact ⟨e, rfl⟩
    | ok x =>
      simp only
      have : ∃ r' ∈ rs, ∃ e, convertNetFlowDataSet cfg v bt up r' = .error e := by
        obtain ⟨r', hr', e, he⟩ := hbad
        rcases List.mem_cons.1 hr' with rfl | h
        · rw [hx] at he; cases he
        · exact ⟨r', h, e, he⟩
      obtain ⟨e, he⟩ := ih this
      rw [he]
      exact ⟨e, rfl⟩

private theorem readU2_encode (m : Msg) (hv : m.version = 9 ∨ m.version = 10) :
    ∃ b, readU 2 (encode m) = .ok (m.version, b) := by
  rcases hv with hv | hv
  · unfold encode
    simp only [hv, if_true, List.append_assoc]
    exact ⟨_, readU_enc _ (by decide)⟩
  · unfold encode
    have hne : ¬ m.version = 9 := by omega
    simp only [hne, if_false, List.append_assoc]
    rw [hv]
    exact ⟨_, readU_enc _ (by decide)⟩

private theorem ratesOf_setTemplates (st : State) (k : Src) (t : Store) (ip : Bytes) :
    (st.setTemplates k t).ratesOf ip = st.ratesOf ip := rfl

private theorem templatesOf_setTemplates (st : State) (k : Src) (t : Store) :
    (st.setTemplates k t).templatesOf k = t := by
  simp [State.setTemplates, State.templatesOf]

private theorem templatesOf_setRates (st : State) (k : Src) (ip : Bytes) (r : Rates) :
    (st.setRates ip r).templatesOf k = st.templatesOf k := rfl

/-- the NetFlow pipe on the encoding of a well-formed message, in terms of the producer on the
    expected packet -/
private theorem netflowPipe_encode (cfg : Config) (st : State) (src : Src) (recv : Nat) (m : Msg)
    (hwf : MsgWFU (st.templatesOf src) m) :
    netflowPipe cfg st src recv (encode m) =
      (let s0 := st.templatesOf src
       let st1 := (st.setTemplates src s0).setTemplates src (storeAfter m.version m.domain s0 m.sets)
       let r := processNetflow (some cfg) (expectedU s0 m) (st.ratesOf src.ip)
       match r.err with
       | some e => ⟨st1.setRates src.ip r.rates, [], some e⟩
       | none => ⟨st1.setRates src.ip r.rates, r.msgs.map (stampRecv recv (unmap src.ip)),
                  if anyUnknown m.version m.domain s0 m.sets then some .tnf else none⟩) := by
  have hv := hwf.1
  obtain ⟨b, hb⟩ := readU2_encode m hv
  have hdec : (if m.version = 9 then decodeMessageNetFlow (st.templatesOf src) b
      else decodeMessageIPFIX (st.templatesOf src) b) = decodeMessageVersion (st.templatesOf src) (encode m) := by
    unfold decodeMessageVersion
    rw [hb]
    rcases hv with hv | hv
    · simp [hv]
    · simp [hv]
  unfold netflowPipe
  simp only [hb]
  have h5 : ¬ m.version = 5 := by omega
  simp only [h5, if_false, hv, if_true, hdec, roundtripU _ m hwf, ratesOf_setTemplates]
  rfl

/-- the producer on the expected packet: the conversion loop runs over the flow records of the sets
    of known templates, the sampling-rate lookup over their options records -/
private theorem processNetflow_expectedU (cfg : Config) (s : Store) (m : Msg) (rates : Rates)
    (hv : m.version = 9 ∨ m.version = 10) :
    processNetflow (some cfg) (expectedU s m) rates =
      match convertRecords (some cfg) m.version m.time (Msg.up m) ((knownRecords m.version m.domain s m.sets).map DataRecord.mk) with
      | .error e => ⟨[], rates, some e⟩
      | .ok msgs =>
        match searchSamplingRate (knownOptionRecords m.version m.domain s m.sets) with
        | .error e => ⟨[], rates, some e⟩
        | .ok found =>
          ⟨msgs.map (stampNetflow m.seq (applyRate found rates (m.version, m.domain)).1 m.domain),
            (applyRate found rates (m.version, m.domain)).2, none⟩ := by
  obtain ⟨h1, h2, h3, h4, h5, h6⟩ := expectedU_fields s m hv
  unfold processNetflow
  simp only [h1, h2, h3, h4, h5, h6, dataRecordsOf_expSetsU, optionRecordsOf_expSetsU]
  rfl

/-- **C07 (b)** — a well-formed v9 / IPFIX message (C03's hypotheses relative to the exporter's
    current templates, data sets of unknown templates allowed) all of whose flow records convert:
    the messages are exactly, in wire order, the stamped conversions of the data records of the
    data sets whose template is known when the set is reached (template sets earlier in the same
    message count). Template sets, options template sets and options data sets yield none; data
    sets of unknown templates yield none and turn the outcome into template-not-found, without
    touching the messages of the other sets. The exporter's templates afterwards are the announced ones. -/
theorem netflow_pipe_messages (cfg : Config) (st : State) (src : Src) (recv : Nat) (m : Msg)
    (hwf : MsgWFU (st.templatesOf src) m) (hok : RecordsConvert cfg (st.templatesOf src) m) :
    (netflowPipe cfg st src recv (encode m)).msgs =
      (knownRecords m.version m.domain (st.templatesOf src) m.sets).map
        (fun r => nfStamp st src recv m (Res.val (recordMsg cfg m r))) ∧
    (netflowPipe cfg st src recv (encode m)).msgs.length =
      knownFlowRecords m.version m.domain (st.templatesOf src) m.sets ∧
    (netflowPipe cfg st src recv (encode m)).err =
      (if anyUnknown m.version m.domain (st.templatesOf src) m.sets then some .tnf else none) ∧
    (netflowPipe cfg st src recv (encode m)).state.templatesOf src =
      storeAfter m.version m.domain (st.templatesOf src) m.sets := by
  obtain ⟨f, hf⟩ := searchSamplingRate_ok (knownOptionRecords m.version m.domain (st.templatesOf src) m.sets)
  have hconv := convertRecords_spec (some cfg) m.version m.time (Msg.up m)
    (knownRecords m.version m.domain (st.templatesOf src) m.sets) hok
  rw [netflowPipe_encode cfg st src recv m hwf]
  simp only [processNetflow_expectedU cfg _ m _ hwf.1, hconv, hf]
  refine ⟨?_, ?_, ?_, ?_⟩
  · simp only [List.map_map]
    apply List.map_congr_left
    intro r _
    simp [nfStamp, rateOf, hf, recordMsg]
  · simp [knownFlowRecords]
  · trivial
  · rw [templatesOf_setRates, templatesOf_setTemplates]

/-- conversion failure of any flow record: an error and no message at all (no partial output);
    the templates announced by the message are learned all the same -/
theorem netflow_pipe_conversion_failure (cfg : Config) (st : State) (src : Src) (recv : Nat) (m : Msg)
    (hwf : MsgWFU (st.templatesOf src) m) (hbad : ¬ RecordsConvert cfg (st.templatesOf src) m) :
    (netflowPipe cfg st src recv (encode m)).msgs = [] ∧
    (∃ e, (netflowPipe cfg st src recv (encode m)).err = some e) ∧
    (netflowPipe cfg st src recv (encode m)).state.templatesOf src =
      storeAfter m.version m.domain (st.templatesOf src) m.sets := by
  have : ∃ r ∈ knownRecords m.version m.domain (st.templatesOf src) m.sets,
      ∃ e, convertNetFlowDataSet (some cfg) m.version m.time (Msg.up m) r = .error e := by
    apply Classical.byContradiction
    intro hn
    apply hbad
    intro r hr
    cases hx : recordMsg cfg m r with
    | ok x => exact ⟨x, rfl⟩
    | error e => exact absurd ⟨r, hr, e, hx⟩ hn
  obtain ⟨e, he⟩ := convertRecords_fail (some cfg) m.version m.time (Msg.up m) _ this
  rw [netflowPipe_encode cfg st src recv m hwf]
  simp only [processNetflow_expectedU cfg _ m _ hwf.1, he]
  refine ⟨?_, ?_, ?_⟩
  · trivial
  · exact ⟨e, by trivial⟩
  · rw [templatesOf_setRates, templatesOf_setTemplates]

/-! ### messages all of whose templates are known (C03's `MsgWF`) -/

private theorem setsWFU_of_setsWF (version dom : Nat) (s : Store) (sets : List SSet) (h : SetsWF version dom s sets) :
    SetsWFU version dom s sets ∧ anyUnknown version dom s sets = false ∧
    (knownRecords version dom s sets).length =
      (sets.map fun s => match s with | .data _ _ rs _ => rs.length | _ => 0).foldr (· + ·) 0 := by
  induction sets generalizing s with
  | nil => exact ⟨trivial, rfl, rfl⟩
  | cons set rest ih =>
    obtain ⟨h1, h2⟩ := h
    obtain ⟨a, b, c⟩ := ih _ h2
    have hk := isUnknown_of_wf version dom s set h1
    refine ⟨⟨Or.inl h1, a⟩, by simp [anyUnknown, hk, b], ?_⟩
    simp only [knownRecords, List.length_append, c, List.map_cons, List.foldr_cons]
    congr 1
    cases set <;> simp [setFlowRecords, hk]

theorem msgWFU_of_msgWF (s : Store) (m : Msg) (h : MsgWF s m) : MsgWFU s m := by
  obtain ⟨h1, h2, h3, h4, h5, h6, h7, h8, h9⟩ := h
  exact ⟨h1, h2, h3, h4, h5, h6, (setsWFU_of_setsWF _ _ _ _ h7).1, h8, h9⟩

/-- **C07 (b), all templates known** — for C03's well-formed messages: no error and exactly
    `flowRecords m` messages, one per data record, in wire order -/
theorem netflow_pipe_messages_known (cfg : Config) (st : State) (src : Src) (recv : Nat) (m : Msg)
    (hwf : MsgWF (st.templatesOf src) m) (hok : RecordsConvert cfg (st.templatesOf src) m) :
    (netflowPipe cfg st src recv (encode m)).msgs =
      (knownRecords m.version m.domain (st.templatesOf src) m.sets).map
        (fun r => nfStamp st src recv m (Res.val (recordMsg cfg m r))) ∧
    (netflowPipe cfg st src recv (encode m)).msgs.length = flowRecords m ∧
    (netflowPipe cfg st src recv (encode m)).err = none := by
  obtain ⟨h1, h2, h3, _⟩ := netflow_pipe_messages cfg st src recv m (msgWFU_of_msgWF _ _ hwf) hok
  obtain ⟨_, b, c⟩ := setsWFU_of_setsWF m.version m.domain (st.templatesOf src) m.sets hwf.2.2.2.2.2.2.1
  refine ⟨h1, ?_, ?_⟩
  · rw [h2, knownFlowRecords, c]; rfl
  · rw [h3, b]; rfl

/-! ### when does a flow record fail to convert -/

/-- the `case` bodies that go through DecodeUNumber -/
def readsNumber : Action → Bool
  | .unum _ => true | .unum2 _ _ => true | .icmpTypeCode => true | .fragOffset => true | .ipFlags => true
  | .mplsLabel _ => true | .v9First => true | .v9Last => true | .ipfixTime _ _ => true | .ipfixDelta _ => true
  | .frameSize => true
  | _ => false

/-- every element the producer's switch reads as a number is in `numericElements` -/
private theorem caseTable_numeric :
    ∀ e ∈ caseTable, readsNumber e.2.2 = true → ∀ id ∈ e.2.1, id ∈ numericElements := by
  decide

private theorem lookupAction_numeric (version id : Nat) (a : Action) (h : lookupAction version id = some a)
    (hn : readsNumber a = true) : id ∈ numericElements := by
  unfold lookupAction at h
  split at h
  · rename_i e he
    cases h
    have hm := List.mem_of_find?_eq_some he
    have hp := List.find?_some he
    simp only [Bool.and_eq_true, List.contains_eq_mem, decide_eq_true_eq] at hp
    exact caseTable_numeric e hm hn id hp.2
  · split at h
    · rename_i e he
      cases h
      have hm := List.mem_of_find?_eq_some he
      have hp := List.find?_some he
      simp only [Bool.and_eq_true, List.contains_eq_mem, decide_eq_true_eq] at hp
      exact caseTable_numeric e hm hn id hp.2
    · cases h

/-- one `case` body without layer mappings: it can only fail on a number wider than 8 bytes -/
private theorem applyAction_ok (cfg : Config) (hl : cfg.layers = []) (bt up : Nat) (m : FlowMsg) (v : Bytes) (a : Action)
    (h : readsNumber a = true → v.length ≤ 8) : ∃ m', applyAction (some cfg) bt up m v a = .ok m' := by
  cases a with
  | unum c => simp only [applyAction, C08.writeDecoded_trunc _ v (h rfl)]; exact ⟨_, rfl⟩
  | unum2 a b => simp only [applyAction, C08.writeDecoded_trunc _ v (h rfl)]; exact ⟨_, rfl⟩
  | ipVersion => cases v <;> exact ⟨_, rfl⟩
  | addr c v6 => exact ⟨_, rfl⟩
  | bytes c => exact ⟨_, rfl⟩
  | icmpTypeCode => simp only [applyAction, C08.writeDecoded_trunc _ v (h rfl)]; exact ⟨_, rfl⟩
  | fragOffset => simp only [applyAction, C08.writeDecoded_trunc _ v (h rfl)]; exact ⟨_, rfl⟩
  | ipFlags => simp only [applyAction, C08.writeDecoded_trunc _ v (h rfl)]; exact ⟨_, rfl⟩
  | mplsLabel i => simp only [applyAction, C08.writeDecoded_trunc _ v (h rfl)]; exact ⟨_, rfl⟩
  | mplsIp => exact ⟨_, rfl⟩
  | v9First => simp only [applyAction, C08.writeDecoded_trunc _ v (h rfl)]; exact ⟨_, rfl⟩
  | v9Last => simp only [applyAction, C08.writeDecoded_trunc _ v (h rfl)]; exact ⟨_, rfl⟩
  | ipfixTime s mult => simp only [applyAction, C08.writeDecoded_trunc _ v (h rfl)]; exact ⟨_, rfl⟩
  | ipfixDelta s => simp only [applyAction, C08.writeDecoded_trunc _ v (h rfl)]; exact ⟨_, rfl⟩
  | frameSize => simp only [applyAction, C08.writeDecoded_trunc _ v (h rfl)]; exact ⟨_, rfl⟩
  | frameSection =>
    obtain ⟨m1, h1⟩ := Producer.parsePacket_safe cfg hl m v
    simp only [applyAction, h1]
    exact ⟨_, rfl⟩

private theorem expDataField_fields (f : SField) (v : SValue) :
    (expDataField f v).value = some v.bytes ∧ (expDataField f v).type = f.id ∧
    (expDataField f v).penProvided = f.ent.isSome := by
  unfold expDataField
  cases f.ent <;> exact ⟨rfl, rfl, rfl⟩

private theorem convertFields_ok (cfg : Config) (hcfg : C01.NoMappings cfg) (version bt up : Nat)
    (tpl : List SField) (vals : List SValue) (hv : ValuesOK tpl vals) (m : FlowMsg) :
    ∃ m', convertFields (some cfg) version bt up (expRecord tpl vals) m = .ok m' := by
  induction tpl generalizing vals m with
  | nil => exact ⟨m, by simp [expRecord, convertFields]⟩
  | cons f fs ih =>
    cases vals with
    | nil => exact ⟨m, by simp [expRecord, convertFields]⟩
    | cons v vs =>
      obtain ⟨hfv, hrest⟩ := hv
      obtain ⟨e1, e2, e3⟩ := expDataField_fields f v
      simp only [expRecord]
      unfold convertFields
      have hmap : (if version = 10 then cfg.ipfix else cfg.v9) = [] := by
        split
        · exact hcfg.2.1
        · exact hcfg.2.2
      simp only [e1, e2, e3, hmap, lookupNetflow, List.filter_nil, List.getLast?_nil]
      cases hent : f.ent with
      | some pen => simp only [Option.isSome_some, if_true]; exact ih vs hrest m
      | none =>
        simp only [Option.isSome_none, Bool.false_eq_true, if_false]
        cases ha : lookupAction version f.id with
        | none => exact ih vs hrest m
        | some a =>
          obtain ⟨m2, h2⟩ := applyAction_ok cfg hcfg.1 bt up m v.bytes a
            (fun hn => hfv hent (lookupAction_numeric version f.id a ha hn))
          simp only [h2]
          exact ih vs hrest m2

/-- the flow records of the known sets are records of data sets of the message -/
private theorem mem_knownRecords (version dom : Nat) (s : Store) (sets : List SSet) (r : List DataField)
    (h : r ∈ knownRecords version dom s sets) :
    ∃ tid tpl recs pad vals, SSet.data tid tpl recs pad ∈ sets ∧ vals ∈ recs ∧ r = expRecord tpl vals := by
  induction sets generalizing s with
  | nil => cases h
  | cons set rest ih =>
    simp only [knownRecords, List.mem_append] at h
    rcases h with h | h
    · cases set with
      | data tid tpl recs pad =>
        simp only [setFlowRecords] at h
        split at h
        · cases h
        · obtain ⟨vals, hv, rfl⟩ := List.mem_map.1 h
          exact ⟨tid, tpl, recs, pad, vals, by simp, hv, rfl⟩
      | _ => simp [setFlowRecords] at h
    · obtain ⟨tid, tpl, recs, pad, vals, h1, h2, h3⟩ := ih _ h
      exact ⟨tid, tpl, recs, pad, vals, by simp [h1], h2, h3⟩

/-- a sufficient, decidable condition for `RecordsConvert`: no custom mappings and no numeric
    element wider than 8 bytes -/
theorem recordsConvert_of_widths (cfg : Config) (hcfg : C01.NoMappings cfg) (s : Store) (m : Msg)
    (hw : WidthsOK m) : RecordsConvert cfg s m := by
  intro r hr
  obtain ⟨tid, tpl, recs, pad, vals, h1, h2, rfl⟩ := mem_knownRecords _ _ _ _ _ hr
  have := hw _ h1 vals h2
  exact convertFields_ok cfg hcfg _ _ _ tpl vals this _

/-- **C07 (b), default configuration** — unconditional but for the decidable width condition -/
theorem netflow_pipe_messages_default (cfg : Config) (hcfg : C01.NoMappings cfg) (st : State) (src : Src) (recv : Nat)
    (m : Msg) (hwf : MsgWFU (st.templatesOf src) m) (hw : WidthsOK m) :
    (netflowPipe cfg st src recv (encode m)).msgs =
      (knownRecords m.version m.domain (st.templatesOf src) m.sets).map
        (fun r => nfStamp st src recv m (Res.val (recordMsg cfg m r))) ∧
    (netflowPipe cfg st src recv (encode m)).msgs.length =
      knownFlowRecords m.version m.domain (st.templatesOf src) m.sets ∧
    (netflowPipe cfg st src recv (encode m)).err =
      (if anyUnknown m.version m.domain (st.templatesOf src) m.sets then some .tnf else none) ∧
    (netflowPipe cfg st src recv (encode m)).state.templatesOf src =
      storeAfter m.version m.domain (st.templatesOf src) m.sets :=
  netflow_pipe_messages cfg st src recv m hwf (recordsConvert_of_widths cfg hcfg _ m hw)

/-- the same datagrams through AutoFlowPipe are NetFlow datagrams -/
theorem netflow_auto_eq (cfg : Config) (st : State) (src : Src) (recv : Nat) (m : Msg)
    (hv : m.version = 9 ∨ m.version = 10) (hc : m.count < 65536) :
    decodeFlow .auto cfg st src recv (encode m) = netflowPipe cfg st src recv (encode m) := by
  have : ∃ x, x < 65536 ∧ ∃ b, readU 4 (encode m) = .ok (m.version * 65536 + x, b) := by
    rcases hv with hv | hv
    · refine ⟨m.count, hc, ?_⟩
      unfold encode
      simp only [hv, if_true]
      have e : encBE 2 9 ++ encBE 2 m.count ++ encBE 4 m.uptime ++ encBE 4 m.time ++ encBE 4 m.seq ++ encBE 4 m.domain ++
          m.sets.flatMap (encSSet 9) = (encBE 2 9 ++ encBE 2 m.count) ++ (encBE 4 m.uptime ++ encBE 4 m.time ++
            encBE 4 m.seq ++ encBE 4 m.domain ++ m.sets.flatMap (encSSet 9)) := by simp
      rw [e, readU_append _ _ (by simp), beNat_append, beNat_encBE_of_lt (by decide : 9 < 256 ^ 2),
        beNat_encBE_of_lt (by simpa using hc), encBE_length]
      exact ⟨_, rfl⟩
    · refine ⟨(16 + (m.sets.flatMap (encSSet 10)).length) % 65536, Nat.mod_lt _ (by decide), ?_⟩
      unfold encode
      simp only [hv, show ¬ ((10:Nat) = 9) by decide, if_false]
      have e : encBE 2 10 ++ encBE 2 (16 + (m.sets.flatMap (encSSet 10)).length) ++ encBE 4 m.time ++ encBE 4 m.seq ++
          encBE 4 m.domain ++ m.sets.flatMap (encSSet 10) = (encBE 2 10 ++ encBE 2 (16 + (m.sets.flatMap (encSSet 10)).length)) ++
            (encBE 4 m.time ++ encBE 4 m.seq ++ encBE 4 m.domain ++ m.sets.flatMap (encSSet 10)) := by simp
      rw [e, readU_append _ _ (by simp), beNat_append, beNat_encBE_of_lt (by decide : 10 < 256 ^ 2),
        beNat_encBE, encBE_length]
      exact ⟨_, rfl⟩
  obtain ⟨x, hx, b, hb⟩ := this
  simp only [decodeFlow]
  unfold autoPipe
  rw [hb]
  have h1 : ¬ (m.version * 65536 + x = 5) := by omega
  have h2 : (m.version * 65536 + x) / 65536 = m.version := by omega
  have h3 : (m.version = 5 ∨ m.version = 9 ∨ m.version = 10) := Or.inr hv
  simp [h1, h2, h3]

end Netflow

/-! ## (c) sFlow through the pipe -/
section SFlow
open Goflow.Sflow Goflow.Spec.Sflow Goflow.C04

/-- counter, expanded counter and drop samples are not converted at all -/
theorem sampleMsg_none_iff (cfg : Config) (s : SSample) : sampleMsg cfg s = none ↔ isFlowSample s = false := by
  cases s <;> simp [sampleMsg, expSample, convertSample, isFlowSample]

/-- the conversion loop over the decoded samples of an abstract datagram, when no sample fails:
    one message per flow / expanded flow sample, in order -/
private theorem convertSamples_spec (cfg : Config) (ss : List SSample)
    (hok : ∀ s ∈ ss, ∀ e, sampleMsg cfg s ≠ some (.error e)) :
    convertSamples (some cfg) (ss.map expSample) = .ok ((ss.filter isFlowSample).map (flowSampleMsg cfg)) := by
  induction ss with
  | nil => rfl
  | cons s ss ih =>
    have ih' := ih (fun x hx => hok x (by simp [hx]))
    have hs := hok s (by simp)
    simp only [List.map_cons]
    unfold convertSamples
    cases hm : sampleMsg cfg s with
    | none =>
      have hf := (sampleMsg_none_iff cfg s).1 hm
      unfold sampleMsg at hm
      simp only [hm, ih', List.filter_cons, hf, Bool.false_eq_true, if_false]
    | some r =>
      have hf : isFlowSample s = true := by
        cases hfs : isFlowSample s with
        | true => rfl
        | false => rw [(sampleMsg_none_iff cfg s).2 hfs] at hm; cases hm
      cases r with
      | error e => exact absurd hm (hs e)
      | ok x =>
        have hx : flowSampleMsg cfg s = x := by simp [flowSampleMsg, hm]
        unfold sampleMsg at hm
        simp only [hm, ih', List.filter_cons, hf, if_true, List.map_cons, hx]

/-- the first failing sample aborts the conversion of the whole datagram -/
private theorem convertSamples_fail (cfg : Config) (ss : List SSample)
    (hbad : ∃ s ∈ ss, ∃ e, sampleMsg cfg s = some (.error e)) :
    ∃ e, convertSamples (some cfg) (ss.map expSample) = .error e := by
  induction ss with
  | nil => obtain ⟨s, hs, _⟩ := hbad; cases hs
  | cons s ss ih =>
    simp only [List.map_cons]
    unfold convertSamples
    cases hm : convertSample (some cfg) (expSample s) with
    | none =>
      simp only
      apply ih
      obtain ⟨s', hs', e, he⟩ := hbad
      rcases List.mem_cons.1 hs' with rfl | h
      · unfold sampleMsg at he; rw [hm] at he; cases he
      · exact ⟨s', h, e, he⟩
    | some r =>
      cases r with
      | error e => exact ⟨e, rfl⟩
      | ok x =>
        simp only
        by_cases hb : ∃ s' ∈ ss, ∃ e, sampleMsg cfg s' = some (.error e)
        · obtain ⟨e, he⟩ := ih hb
          rw [he]; exact ⟨e, rfl⟩
        · obtain ⟨s', hs', e, he⟩ := hbad
          rcases List.mem_cons.1 hs' with rfl | h
          · unfold sampleMsg at he; rw [hm] at he; cases he
          · exact absurd ⟨s', h, e, he⟩ hb

/-- the pipe on the encoding of a well-formed datagram, in terms of the conversion of its samples -/
private theorem sflowPipe_encode (cfg : Config) (st : State) (recv : Nat) (d : Datagram) (h : DatagramWF d) :
    sflowPipe cfg st recv (encode d) =
      match convertSamples (some cfg) (d.samples.map expSample) with
      | .error e => ⟨st, [], some e⟩
      | .ok ms => ⟨st, ms.map (sfStamp recv d), none⟩ := by
  unfold sflowPipe
  rw [C04.roundtrip d h]
  simp only [processSflow, expected]
  cases convertSamples (some cfg) (d.samples.map expSample) with
  | error e => rfl
  | ok ms =>
    simp only [List.map_map]
    rfl

/-- **C07 (c)** — a well-formed sFlow datagram (C04's `DatagramWF`) none of whose samples fails to
    convert: no error, and exactly one message per flow / expanded flow sample, in wire order, each
    the stamped conversion of its sample; counter, expanded counter and drop samples yield none. -/
theorem sflow_pipe_messages (cfg : Config) (st : State) (recv : Nat) (d : Datagram)
    (h : DatagramWF d) (hok : SamplesConvert cfg d) :
    (sflowPipe cfg st recv (encode d)).err = none ∧
    (sflowPipe cfg st recv (encode d)).msgs =
      (d.samples.filter isFlowSample).map (fun s => sfStamp recv d (flowSampleMsg cfg s)) ∧
    (sflowPipe cfg st recv (encode d)).msgs.length = flowSamples d ∧
    (sflowPipe cfg st recv (encode d)).state = st := by
  rw [sflowPipe_encode cfg st recv d h, convertSamples_spec cfg d.samples hok]
  refine ⟨rfl, by simp [List.map_map, Function.comp_def], ?_, rfl⟩
  simp only [List.length_map, flowSamples]
  congr 2

/-- conversion failure of any sample: an error and no message at all (no partial output) -/
theorem sflow_pipe_conversion_failure (cfg : Config) (st : State) (recv : Nat) (d : Datagram)
    (h : DatagramWF d) (hbad : ¬ SamplesConvert cfg d) :
    (∃ e, (sflowPipe cfg st recv (encode d)).err = some e) ∧ (sflowPipe cfg st recv (encode d)).msgs = [] := by
  have : ∃ s ∈ d.samples, ∃ e, sampleMsg cfg s = some (.error e) := by
    apply Classical.byContradiction
    intro hn
    apply hbad
    intro s hs e he
    exact hn ⟨s, hs, e, he⟩
  obtain ⟨e, he⟩ := convertSamples_fail cfg d.samples this
  rw [sflowPipe_encode cfg st recv d h, he]
  exact ⟨⟨e, rfl⟩, rfl⟩

/-- any bytes: an error of the sFlow pipe means that nothing was emitted -/
theorem sflow_no_output_on_error (cfg : Config) (st : State) (recv : Nat) (b : Bytes) (e : Err)
    (he : (sflowPipe cfg st recv b).err = some e) : (sflowPipe cfg st recv b).msgs = [] := by
  revert he
  unfold sflowPipe
  cases Sflow.decodeMessageVersion b with
  | error e' => intro _; rfl
  | ok p =>
    simp only
    cases processSflow (some cfg) p with
    | error e' => intro _; rfl
    | ok ms => intro he; simp at he

/-- without layer mappings (in particular for the default configuration) no flow record fails:
    the sampled-header dissector is total -/
private theorem applyRecords_ok (cfg : Config) (hcfg : cfg.layers = []) (rs : List FlowRecord) (m : FlowMsg) :
    ∃ m', applyRecords (some cfg) rs m = .ok m' := by
  have rec1 : ∀ (m : FlowMsg) (r : FlowRecord), ∃ m', applyRecord (some cfg) m r = .ok m' := by
    intro m r
    unfold applyRecord
    split
    · split
      · exact Producer.parsePacket_safe _ (by simpa using hcfg) _ _
      · exact ⟨_, rfl⟩
    · split
      · exact ⟨_, rfl⟩
      · split
        · exact ⟨_, rfl⟩
        · split <;> exact ⟨_, rfl⟩
    · exact ⟨_, rfl⟩
    · exact ⟨_, rfl⟩
    · exact ⟨_, rfl⟩
  induction rs generalizing m with
  | nil => exact ⟨m, rfl⟩
  | cons r rs ih =>
    obtain ⟨m1, h1⟩ := rec1 m r
    obtain ⟨m2, h2⟩ := ih m1
    exact ⟨m2, by simp [applyRecords, h1, h2]⟩

/-- a sufficient condition for `SamplesConvert`: the configuration has no `sflow.mapping` entries -/
theorem samplesConvert_of_noLayers (cfg : Config) (hcfg : cfg.layers = []) (d : Datagram) : SamplesConvert cfg d := by
  intro s _ e he
  cases s with
  | flow seq st sv vals recs =>
    obtain ⟨m', hm⟩ := applyRecords_ok cfg hcfg (recs.map expRecord)
      (sampleBase ((vals ++ [recs.length]).getD 0 0) ((vals ++ [recs.length]).getD 3 0) ((vals ++ [recs.length]).getD 4 0))
    simp only [sampleMsg, expSample, convertSample, hm] at he
    cases he
  | expFlow seq st sv vals recs =>
    obtain ⟨m', hm⟩ := applyRecords_ok cfg hcfg (recs.map expRecord)
      (sampleBase ((vals ++ [recs.length]).getD 0 0) ((vals ++ [recs.length]).getD 4 0) ((vals ++ [recs.length]).getD 6 0))
    simp only [sampleMsg, expSample, convertSample, hm] at he
    cases he
  | counter seq st sv recs => simp [sampleMsg, expSample, convertSample] at he
  | expCounter seq st sv recs => simp [sampleMsg, expSample, convertSample] at he
  | drop seq st sv vals recs => simp [sampleMsg, expSample, convertSample] at he

/-- **C07 (c), default configuration** — unconditional for every configuration without layer
    mappings (whatever its NetFlow mappings and port table) -/
theorem sflow_pipe_messages_default (cfg : Config) (hcfg : cfg.layers = []) (st : State) (recv : Nat) (d : Datagram)
    (h : DatagramWF d) :
    (sflowPipe cfg st recv (encode d)).err = none ∧
    (sflowPipe cfg st recv (encode d)).msgs =
      (d.samples.filter isFlowSample).map (fun s => sfStamp recv d (flowSampleMsg cfg s)) ∧
    (sflowPipe cfg st recv (encode d)).msgs.length = flowSamples d ∧
    (sflowPipe cfg st recv (encode d)).state = st :=
  sflow_pipe_messages cfg st recv d h (samplesConvert_of_noLayers cfg hcfg d)

/-- the same datagrams through AutoFlowPipe are sFlow datagrams -/
theorem sflow_auto_eq (cfg : Config) (st : State) (src : Src) (recv : Nat) (d : Datagram) :
    decodeFlow .auto cfg st src recv (encode d) = sflowPipe cfg st recv (encode d) := by
  simp only [decodeFlow]
  unfold autoPipe
  have : readU 4 (encode d) = .ok (5, xdrAddr d.agent ++ u32 d.subAgent ++ u32 d.seq ++ u32 d.uptime ++
      u32 d.samples.length ++ d.samples.flatMap encSample) := by
    unfold encode
    simp only [List.append_assoc]
    exact readU_u32 _ (by decide)
  rw [this]
  simp

end SFlow

/-! ## (d) histories: several exporters, templates learned from earlier datagrams -/
section History
open Goflow.Netflow Goflow.Spec.Netflow Goflow.C03

/-! ### specification-side template knowledge -/

/-- what an exporter has announced under one template id -/
inductive Layout where
  | data (fields : List SField)
  | v9opts (scopes options : List SField)
  | ipfixopts (scopes options : List SField)
  deriving DecidableEq, Repr

/-- the knowledge about one exporter: (version, domain, template id) ↦ layout -/
abbrev Know1 := Nat → Nat → Nat → Option Layout
/-- the knowledge about all exporters, keyed by the UDP source -/
abbrev Know := Src → Know1

def Know.empty : Know := fun _ _ _ _ => none

def Know1.add (k : Know1) (version dom tid : Nat) (l : Layout) : Know1 :=
  fun v d i => if v = version ∧ d = dom ∧ i = tid then some l else k v d i

/-- announcements are processed in wire order: the latest one wins -/
def Know1.learn (k : Know1) (version dom : Nat) : List (Nat × Layout) → Know1
  | [] => k
  | (tid, l) :: rest => (k.add version dom tid l).learn version dom rest

/-- the layouts a set announces -/
def announcesL : SSet → List (Nat × Layout)
  | .template recs _ => recs.map fun r => (r.1, .data r.2)
  | .v9opts recs _ => recs.map fun r => (r.1, .v9opts r.2.1 r.2.2)
  | .ipfixopts recs _ => recs.map fun r => (r.1, .ipfixopts r.2.1 r.2.2)
  | _ => []

def Know1.afterSet (k : Know1) (version dom : Nat) (set : SSet) : Know1 := k.learn version dom (announcesL set)
def Know1.afterSets (k : Know1) (version dom : Nat) (sets : List SSet) : Know1 :=
  sets.foldl (fun k set => k.afterSet version dom set) k

/-- well-formedness of a set relative to the knowledge: as C03's `SetWF`, with "the template the
    data set uses is the one announced last under its id", or nothing was announced under that id -/
def SetWFK (k : Know1) (version dom : Nat) : SSet → Prop
  | .data tid tpl records pad =>
      256 ≤ tid ∧ tid < 65536 ∧ 4 + (records.flatMap (encRecord tpl)).length + pad < 65536 ∧
      (k version dom tid = none ∨
        (k version dom tid = some (.data tpl) ∧ (∀ r ∈ records, RecordWF tpl r) ∧
          0 < templateSize (tpl.map expField) ∧ pad < templateSize (tpl.map expField)))
  | .optsData tid scopes options records pad =>
      256 ≤ tid ∧ tid < 65536 ∧
      4 + (records.flatMap fun r => encRecord scopes r.1 ++ encRecord options r.2).length + pad < 65536 ∧
      (k version dom tid = none ∨
        ((k version dom tid = some (.v9opts scopes options) ∨ k version dom tid = some (.ipfixopts scopes options)) ∧
          (∀ r ∈ records, RecordWF scopes r.1 ∧ RecordWF options r.2) ∧
          0 < templateSize (scopes.map expField) + templateSize (options.map expField) ∧
          pad < templateSize (scopes.map expField) + templateSize (options.map expField)))
  | set => SetWF version dom [] set        -- template and options template sets: no reference to the knowledge

def SetsWFK (version dom : Nat) : Know1 → List SSet → Prop
  | _, [] => True
  | k, set :: rest => SetWFK k version dom set ∧ SetsWFK version dom (k.afterSet version dom set) rest

def MsgWFK (k : Know1) (m : Msg) : Prop :=
  (m.version = 9 ∨ m.version = 10) ∧ m.count < 65536 ∧ m.uptime < 2 ^ 32 ∧ m.time < 2 ^ 32 ∧ m.seq < 2 ^ 32 ∧
  m.domain < 2 ^ 32 ∧ SetsWFK m.version m.domain k m.sets ∧
  (m.version = 9 → m.sets.length ≤ m.count) ∧
  (m.version = 10 → 16 + (m.sets.flatMap (encSSet m.version)).length < 65536)

instance (k : Know1) (v d : Nat) (set : SSet) : Decidable (SetWFK k v d set) := by
  cases set <;> unfold SetWFK <;> infer_instance
def SetsWFK.dec (v d : Nat) : (k : Know1) → (sets : List SSet) → Decidable (SetsWFK v d k sets)
  | _, [] => isTrue trivial
  | k, set :: rest =>
    match SetsWFK.dec v d (k.afterSet v d set) rest with
    | isTrue h => if hs : SetWFK k v d set then isTrue ⟨hs, h⟩ else isFalse (fun h' => hs h'.1)
    | isFalse h => isFalse (fun h' => h h'.2)
instance (v d : Nat) (k : Know1) (sets : List SSet) : Decidable (SetsWFK v d k sets) := SetsWFK.dec v d k sets
instance (k : Know1) (m : Msg) : Decidable (MsgWFK k m) := by unfold MsgWFK; infer_instance

/-- the flow records of a set that the collector can use: those of a data set under whose id
    something was announced -/
def setCountK (k : Know1) (version dom : Nat) : SSet → Nat
  | .data tid _ recs _ => if (k version dom tid).isSome then recs.length else 0
  | _ => 0

/-- specification-side count of a message: the data records of the data sets whose template was
    announced before the set, by an earlier datagram of the same exporter or earlier in the message -/
def countK (version dom : Nat) : Know1 → List SSet → Nat
  | _, [] => 0
  | k, set :: rest => setCountK k version dom set + countK version dom (k.afterSet version dom set) rest

/-- the flow records themselves, in wire order -/
def setFlowRecordsK (k : Know1) (version dom : Nat) : SSet → List (List DataField)
  | .data tid tpl recs _ => if (k version dom tid).isSome then recs.map (expRecord tpl) else []
  | _ => []

def knownRecordsK (version dom : Nat) : Know1 → List SSet → List (List DataField)
  | _, [] => []
  | k, set :: rest => setFlowRecordsK k version dom set ++ knownRecordsK version dom (k.afterSet version dom set) rest

/-- every flow record the collector can use converts -/
def RecordsConvertK (cfg : Config) (k : Know1) (m : Msg) : Prop :=
  ∀ r ∈ knownRecordsK m.version m.domain k m.sets, ∃ x, recordMsg cfg m r = .ok x

/-- one datagram of a history, on the specification side -/
inductive Dgram where
  | v5 (h : V5.Header) (rs : List V5.Record)
  | nf (m : Msg)
  | sflow (d : Spec.Sflow.Datagram)

def Dgram.encode : Dgram → Bytes
  | .v5 h rs => Spec.V5.encode h rs
  | .nf m => Spec.Netflow.encode m
  | .sflow d => Spec.Sflow.encode d

structure Event where
  src : Src
  recv : Nat
  dgram : Dgram

def Event.WF (cfg : Config) (K : Know) (e : Event) : Prop :=
  match e.dgram with
  | .v5 h rs => Spec.V5.HeaderWF h ∧ (∀ r ∈ rs, Spec.V5.RecordWF r) ∧ rs.length = h.count
  | .nf m => MsgWFK (K e.src) m ∧ RecordsConvertK cfg (K e.src) m
  | .sflow d => C04.DatagramWF d ∧ SamplesConvert cfg d

/-- the number of flow records of the datagram, under the knowledge accumulated so far -/
def Event.count (K : Know) (e : Event) : Nat :=
  match e.dgram with
  | .v5 _ rs => rs.length
  | .nf m => countK m.version m.domain (K e.src) m.sets
  | .sflow d => Spec.Sflow.flowSamples d

/-- only v9 / IPFIX messages change the knowledge, and only that of their own exporter -/
def Know.step (K : Know) (e : Event) : Know :=
  match e.dgram with
  | .nf m => fun s => if s = e.src then (K s).afterSets m.version m.domain m.sets else K s
  | _ => K

def HistoryWF (cfg : Config) : Know → List Event → Prop
  | _, [] => True
  | K, e :: es => e.WF cfg K ∧ HistoryWF cfg (K.step e) es

def specCounts : Know → List Event → List Nat
  | _, [] => []
  | K, e :: es => e.count K :: specCounts (K.step e) es

/-- the message counts of the successive DecodeFlow calls of a pipe -/
def runCounts (kind : Kind) (cfg : Config) : State → List Event → List Nat
  | _, [] => []
  | st, e :: es =>
    let o := decodeFlow kind cfg st e.src e.recv e.dgram.encode
    o.msgs.length :: runCounts kind cfg o.state es

/-! ### the collector's stores refine the knowledge -/

def Layout.toTemplate (tid : Nat) : Layout → Template
  | .data fs => .data ⟨tid, fs.length, fs.map expField⟩
  | .v9opts sc op => .v9opts ⟨tid, 4 * sc.length, 4 * op.length, sc.map expField, op.map expField⟩
  | .ipfixopts sc op => .ipfixopts ⟨tid, sc.length + op.length, sc.length, op.map expField, sc.map expField⟩

/-- the store of one exporter holds exactly the announced layouts, under the packed keys -/
def Refines (k : Know1) (s : Store) : Prop :=
  ∀ v d i, d < 2 ^ 32 → i < 2 ^ 16 → s.get (templateKey v d i) = (k v d i).map (Layout.toTemplate i)

def Inv (K : Know) (st : State) : Prop := ∀ src, Refines (K src) (st.templatesOf src)

private theorem refines_add (k : Know1) (s : Store) (version dom tid : Nat) (l : Layout)
    (h : Refines k s) (hd : dom < 2 ^ 32) (ht : tid < 2 ^ 16) :
    Refines (k.add version dom tid l) (s.add (templateKey version dom tid) (l.toTemplate tid)) := by
  intro v d i hd' hi'
  rw [C06.store_refines]
  unfold Know1.add
  by_cases hk : v = version ∧ d = dom ∧ i = tid
  · obtain ⟨rfl, rfl, rfl⟩ := hk
    simp
  · have : templateKey v d i ≠ templateKey version dom tid := by
      intro he
      exact hk (C06.templateKey_injective v d i version dom tid hi' ht hd' hd he)
    simp only [this, if_false, hk]
    exact h v d i hd' hi'

private theorem refines_learn (version dom : Nat) (hd : dom < 2 ^ 32) (anns : List (Nat × Layout))
    (ht : ∀ a ∈ anns, a.1 < 2 ^ 16) (k : Know1) (s : Store) (h : Refines k s) :
    Refines (k.learn version dom anns)
      (addTemplates version dom s (anns.map fun a => (a.1, a.2.toTemplate a.1))) := by
  induction anns generalizing k s with
  | nil => exact h
  | cons a rest ih =>
    obtain ⟨tid, l⟩ := a
    simp only [List.map_cons, addTemplates, Know1.learn]
    exact ih (fun a ha => ht a (by simp [ha])) _ _ (refines_add k s version dom tid l h hd (ht (tid, l) (by simp)))

private theorem announces_eq (set : SSet) :
    announces set = (announcesL set).map fun a => (a.1, a.2.toTemplate a.1) := by
  cases set <;> simp [announces, announcesL, Layout.toTemplate, List.map_map, Function.comp_def]

/-- a set that is well-formed relative to the knowledge is well-formed relative to a store that
    refines it, known and unknown templates agree, the counts agree, and the refinement is preserved -/
private theorem setWFK_sound (k : Know1) (s : Store) (version dom : Nat) (set : SSet)
    (hr : Refines k s) (hd : dom < 2 ^ 32) (h : SetWFK k version dom set) :
    SetWFU version dom s set ∧
    setFlowRecords version dom s set = setFlowRecordsK k version dom set ∧
    (setFlowRecordsK k version dom set).length = setCountK k version dom set ∧
    Refines (k.afterSet version dom set) (setStore version dom s set) := by
  have hstep : (∀ a ∈ announcesL set, a.1 < 2 ^ 16) →
      Refines (k.afterSet version dom set) (setStore version dom s set) := by
    intro ht
    unfold Know1.afterSet setStore
    rw [announces_eq]
    exact refines_learn version dom hd _ ht k s hr
  cases set with
  | data tid tpl records pad =>
    obtain ⟨h1, h2, h3, h4⟩ := h
    have hg := hr version dom tid hd (by simpa using h2)
    refine ⟨?_, ?_, ?_, hstep (by simp [announcesL])⟩
    · rcases h4 with h4 | ⟨h4, h5, h6, h7⟩
      · right
        rw [h4] at hg
        exact ⟨h1, h2, hg, h3⟩
      · left
        rw [h4] at hg
        exact ⟨h1, h2, hg, h5, h6, h7, h3⟩
    · simp only [setFlowRecords, isUnknown, setFlowRecordsK, hg]
      cases k version dom tid <;> simp
    · simp only [setFlowRecordsK, setCountK]
      cases k version dom tid <;> simp
  | optsData tid scopes options records pad =>
    obtain ⟨h1, h2, h3, h4⟩ := h
    have hg := hr version dom tid hd (by simpa using h2)
    refine ⟨?_, by simp [setFlowRecords, setFlowRecordsK], by simp [setFlowRecordsK, setCountK], hstep (by simp [announcesL])⟩
    rcases h4 with h4 | ⟨h4, h5, h6, h7⟩
    · right
      rw [h4] at hg
      exact ⟨h1, h2, hg, h3⟩
    · left
      refine ⟨h1, h2, ?_, h5, h6, h7, h3⟩
      rcases h4 with h4 | h4
      · left; rw [h4] at hg; exact hg
      · right; rw [h4] at hg; exact hg
  | template recs pad =>
    have h' : SetWF version dom s (.template recs pad) := h
    refine ⟨Or.inl h', by simp [setFlowRecords, setFlowRecordsK], by simp [setFlowRecordsK, setCountK], hstep ?_⟩
    intro a ha
    simp only [announcesL, List.mem_map] at ha
    obtain ⟨r, hr', rfl⟩ := ha
    exact (h.2.1 r hr').1
  | v9opts recs pad =>
    have h' : SetWF version dom s (.v9opts recs pad) := h
    refine ⟨Or.inl h', by simp [setFlowRecords, setFlowRecordsK], by simp [setFlowRecordsK, setCountK], hstep ?_⟩
    intro a ha
    simp only [announcesL, List.mem_map] at ha
    obtain ⟨r, hr', rfl⟩ := ha
    exact (h.2.1 r hr').1
  | ipfixopts recs pad =>
    have h' : SetWF version dom s (.ipfixopts recs pad) := h
    refine ⟨Or.inl h', by simp [setFlowRecords, setFlowRecordsK], by simp [setFlowRecordsK, setCountK], hstep ?_⟩
    intro a ha
    simp only [announcesL, List.mem_map] at ha
    obtain ⟨r, hr', rfl⟩ := ha
    exact (h.2.1 r hr').1

private theorem setsWFK_sound (version dom : Nat) (hd : dom < 2 ^ 32) (sets : List SSet) (k : Know1) (s : Store)
    (hr : Refines k s) (h : SetsWFK version dom k sets) :
    SetsWFU version dom s sets ∧
    knownRecords version dom s sets = knownRecordsK version dom k sets ∧
    (knownRecordsK version dom k sets).length = countK version dom k sets ∧
    Refines (k.afterSets version dom sets) (storeAfter version dom s sets) := by
  induction sets generalizing k s with
  | nil => exact ⟨trivial, rfl, rfl, hr⟩
  | cons set rest ih =>
    obtain ⟨h1, h2⟩ := h
    obtain ⟨a, b, b2, c⟩ := setWFK_sound k s version dom set hr hd h1
    obtain ⟨a', b', b2', c'⟩ := ih _ _ c h2
    refine ⟨⟨a, a'⟩, ?_, ?_, ?_⟩
    · simp only [knownRecords, knownRecordsK, b, b']
    · simp only [knownRecordsK, List.length_append, countK, b2, b2']
    · simpa [Know1.afterSets, storeAfter] using c'

/-- **soundness of the knowledge**: a message that is well-formed relative to what the exporter
    announced so far is well-formed relative to the collector's store; the collector uses exactly
    the data sets the knowledge says it can use; afterwards the store again refines the knowledge -/
theorem msgWFK_sound (k : Know1) (s : Store) (m : Msg) (hr : Refines k s) (h : MsgWFK k m) :
    MsgWFU s m ∧
    knownRecords m.version m.domain s m.sets = knownRecordsK m.version m.domain k m.sets ∧
    knownFlowRecords m.version m.domain s m.sets = countK m.version m.domain k m.sets ∧
    Refines (k.afterSets m.version m.domain m.sets) (storeAfter m.version m.domain s m.sets) := by
  obtain ⟨h1, h2, h3, h4, h5, h6, h7, h8, h9⟩ := h
  obtain ⟨a, b, b2, c⟩ := setsWFK_sound m.version m.domain h6 m.sets k s hr h7
  exact ⟨⟨h1, h2, h3, h4, h5, h6, a, h8, h9⟩, b, by rw [knownFlowRecords, b, b2], c⟩

private theorem mem_knownRecordsK (version dom : Nat) (k : Know1) (sets : List SSet) (r : List DataField)
    (h : r ∈ knownRecordsK version dom k sets) :
    ∃ tid tpl recs pad vals, SSet.data tid tpl recs pad ∈ sets ∧ vals ∈ recs ∧ r = expRecord tpl vals := by
  induction sets generalizing k with
  | nil => cases h
  | cons set rest ih =>
    simp only [knownRecordsK, List.mem_append] at h
    rcases h with h | h
    · cases set with
      | data tid tpl recs pad =>
        simp only [setFlowRecordsK] at h
        split at h
        · obtain ⟨vals, hv, rfl⟩ := List.mem_map.1 h
          exact ⟨tid, tpl, recs, pad, vals, by simp, hv, rfl⟩
        · cases h
      | _ => simp [setFlowRecordsK] at h
    · obtain ⟨tid, tpl, recs, pad, vals, h1, h2, h3⟩ := ih _ h
      exact ⟨tid, tpl, recs, pad, vals, by simp [h1], h2, h3⟩

/-- no custom mappings and no numeric element wider than 8 bytes: every record converts -/
theorem recordsConvertK_of_widths (cfg : Config) (hcfg : C01.NoMappings cfg) (k : Know1) (m : Msg) (hw : WidthsOK m) :
    RecordsConvertK cfg k m := by
  intro r hr
  obtain ⟨tid, tpl, recs, pad, vals, h1, h2, rfl⟩ := mem_knownRecordsK _ _ _ _ _ hr
  exact convertFields_ok cfg hcfg _ _ _ tpl vals (hw _ h1 vals h2) _

/-- one step of a history: the count of the call is the specification-side count, and the
    invariant (every exporter's store refines the knowledge about it) is preserved -/
theorem history_step (cfg : Config) (K : Know) (st : State) (e : Event) (hinv : Inv K st) (hwf : e.WF cfg K) :
    (decodeFlow .auto cfg st e.src e.recv e.dgram.encode).msgs.length = e.count K ∧
    Inv (K.step e) (decodeFlow .auto cfg st e.src e.recv e.dgram.encode).state := by
  obtain ⟨src, recv, dg⟩ := e
  cases dg with
  | v5 h rs =>
    obtain ⟨hw, hrs, hc⟩ := hwf
    have heq := v5_auto_eq cfg st src recv h rs [] hw
    have hp := v5_pipe_messages_trunc cfg st src recv h rs [] hw hrs (by decide)
    simp only [List.append_nil] at heq hp
    simp only [Dgram.encode, decodeFlow, heq, hp, Event.count, Know.step, List.length_map, ← hc, List.take_length]
    refine ⟨trivial, ?_⟩
    intro src'
    by_cases hs : src' = src
    · subst hs; rw [templatesOf_setTemplates]; exact hinv src'
    · have := C06.exporter_isolation cfg st src src' recv (Spec.V5.encode h rs) hs
      rw [hp] at this
      simp only at this
      rw [this]; exact hinv src'
  | nf m =>
    obtain ⟨hk, hconv⟩ := hwf
    simp only at hk
    obtain ⟨hU, hrecs, hcount, href⟩ := msgWFK_sound (K src) (st.templatesOf src) m (hinv src) hk
    have heq := netflow_auto_eq cfg st src recv m hk.1 hk.2.1
    have hconv' : RecordsConvert cfg (st.templatesOf src) m := by
      intro r hr
      rw [hrecs] at hr
      exact hconv r hr
    obtain ⟨_, h2, _, h4⟩ := netflow_pipe_messages cfg st src recv m hU hconv'
    simp only [Dgram.encode, heq, Event.count, Know.step]
    refine ⟨by rw [h2, hcount], ?_⟩
    intro src'
    by_cases hs : src' = src
    · subst hs; simp only [if_true]; rw [h4]; exact href
    · simp only [hs, if_false]
      rw [C06.exporter_isolation cfg st src src' recv (encode m) hs]
      exact hinv src'
  | sflow d =>
    obtain ⟨hw, hconv⟩ := hwf
    obtain ⟨_, _, h3, h4⟩ := sflow_pipe_messages cfg st recv d hw hconv
    simp only [Dgram.encode, sflow_auto_eq, Event.count, Know.step, h3, h4]
    exact ⟨trivial, hinv⟩

/-- **C07 (d)** — a whole history of well-formed datagrams of several exporters through the
    auto pipe: the message count of the i-th call is the specification-side count of the i-th
    datagram under the template knowledge accumulated from the earlier datagrams of the same
    exporter (UDP source) -/
theorem history_counts_from (cfg : Config) (es : List Event) (K : Know) (st : State)
    (hinv : Inv K st) (hwf : HistoryWF cfg K es) :
    runCounts .auto cfg st es = specCounts K es := by
  induction es generalizing K st with
  | nil => rfl
  | cons e es ih =>
    obtain ⟨h1, h2⟩ := hwf
    obtain ⟨a, b⟩ := history_step cfg K st e hinv h1
    simp only [runCounts, specCounts, a, ih _ _ b h2]

theorem history_counts (cfg : Config) (es : List Event) (hwf : HistoryWF cfg Know.empty es) :
    runCounts .auto cfg {} es = specCounts Know.empty es :=
  history_counts_from cfg es Know.empty {} (by intro src v d i _ _; rfl) hwf

/-- well-formedness of a history for configurations without custom mappings: the conversion
    hypotheses become the decidable width condition (v9 / IPFIX) or disappear (sFlow) -/
def Event.WFD (K : Know) (e : Event) : Prop :=
  match e.dgram with
  | .v5 h rs => Spec.V5.HeaderWF h ∧ (∀ r ∈ rs, Spec.V5.RecordWF r) ∧ rs.length = h.count
  | .nf m => MsgWFK (K e.src) m ∧ WidthsOK m
  | .sflow d => C04.DatagramWF d

def HistoryWFD : Know → List Event → Prop
  | _, [] => True
  | K, e :: es => e.WFD K ∧ HistoryWFD (K.step e) es

theorem historyWF_of_default (cfg : Config) (hcfg : C01.NoMappings cfg) (es : List Event) (K : Know)
    (h : HistoryWFD K es) : HistoryWF cfg K es := by
  induction es generalizing K with
  | nil => trivial
  | cons e es ih =>
    obtain ⟨h1, h2⟩ := h
    refine ⟨?_, ih _ h2⟩
    obtain ⟨src, recv, dg⟩ := e
    cases dg with
    | v5 h rs => exact h1
    | nf m => exact ⟨h1.1, recordsConvertK_of_widths cfg hcfg _ m h1.2⟩
    | sflow d => exact ⟨h1, samplesConvert_of_noLayers cfg hcfg.1 d⟩

/-- **C07 (d), default configuration** -/
theorem history_counts_default (cfg : Config) (hcfg : C01.NoMappings cfg) (es : List Event)
    (hwf : HistoryWFD Know.empty es) :
    runCounts .auto cfg {} es = specCounts Know.empty es :=
  history_counts cfg es (historyWF_of_default cfg hcfg es _ hwf)

/-- the same, call by call -/
theorem history_counts_get (cfg : Config) (es : List Event) (hwf : HistoryWF cfg Know.empty es) (i : Nat) :
    (runCounts .auto cfg {} es)[i]? = (specCounts Know.empty es)[i]? := by
  rw [history_counts cfg es hwf]

end History

/-! ## non-vacuity: concrete datagrams meet the hypotheses, and the model evaluates as the theorems say -/
section Examples
open Goflow.Spec.Netflow Goflow.C03

def exSrcA : Src := ⟨[192, 0, 2, 1], 2055⟩
def exSrcB : Src := ⟨[192, 0, 2, 2], 2055⟩
def exCfg : Config := {}
theorem exCfg_noMappings : C01.NoMappings exCfg := ⟨rfl, rfl, rfl⟩

def exTpl : List SField := [⟨8, 4, none⟩, ⟨12, 4, none⟩, ⟨1, 4, none⟩, ⟨2, 2, none⟩]

/-- IPFIX: a template set followed by two data sets of that template (2 + 1 records) -/
def exKnown : Msg := ⟨10, 0, 0, 1700000000, 42, 7, [
  .template [(256, exTpl)] 0,
  .data 256 exTpl
    [[⟨[10, 0, 0, 1], false⟩, ⟨[10, 0, 0, 2], false⟩, ⟨[0, 0, 5, 220], false⟩, ⟨[0, 3], false⟩],
     [⟨[10, 0, 0, 3], false⟩, ⟨[10, 0, 0, 4], false⟩, ⟨[0, 0, 0, 64], false⟩, ⟨[0, 1], false⟩]] 0,
  .data 256 exTpl
    [[⟨[10, 0, 0, 5], false⟩, ⟨[10, 0, 0, 6], false⟩, ⟨[0, 0, 1, 0], false⟩, ⟨[0, 2], false⟩]] 2]⟩

/-- the same, with an options template, its options data (sampling interval 100) and a data set
    of a template that was never announced (2 records the collector cannot use) -/
def exMixed : Msg := { exKnown with sets := exKnown.sets ++ [
  .ipfixopts [(257, [⟨1, 4, none⟩], [⟨34, 4, none⟩])] 2,
  .optsData 257 [⟨1, 4, none⟩] [⟨34, 4, none⟩] [([⟨[0, 0, 0, 1], false⟩], [⟨[0, 0, 0, 100], false⟩])] 0,
  .data 300 [⟨4, 1, none⟩] [[⟨[6], false⟩], [⟨[17], false⟩]] 0] }

/-- a later message of the same exporter that only carries data of template 256 -/
def exDataOnly : Msg := ⟨10, 0, 0, 1700000060, 43, 7, [
  .data 256 exTpl
    [[⟨[10, 0, 0, 7], false⟩, ⟨[10, 0, 0, 8], false⟩, ⟨[0, 0, 0, 40], false⟩, ⟨[0, 1], false⟩]] 0]⟩

/-- a numeric element (octetDeltaCount) announced on 16 bytes: its records do not convert -/
def exWide : Msg := ⟨10, 0, 0, 1700000000, 42, 7, [
  .template [(256, [⟨1, 16, none⟩])] 0,
  .data 256 [⟨1, 16, none⟩] [[⟨List.replicate 16 1, false⟩]] 0]⟩

set_option maxRecDepth 100000 in
example : MsgWF [] exKnown ∧ WidthsOK exKnown ∧ flowRecords exKnown = 3 := by decide +kernel
set_option maxRecDepth 100000 in
example : MsgWFU [] exMixed ∧ ¬ MsgWF [] exMixed ∧ WidthsOK exMixed ∧ flowRecords exMixed = 5 ∧
    knownFlowRecords 10 7 [] exMixed.sets = 3 ∧ anyUnknown 10 7 [] exMixed.sets = true := by decide +kernel
set_option maxRecDepth 100000 in
example : MsgWF [] exWide ∧ ¬ WidthsOK exWide := by decide +kernel

/-- the theorems apply … -/
example := netflow_pipe_messages_known exCfg {} exSrcA 5 exKnown (by decide +kernel)
  (recordsConvert_of_widths exCfg exCfg_noMappings _ _ (by decide +kernel))
example := netflow_pipe_messages_default exCfg exCfg_noMappings {} exSrcA 5 exMixed (by decide +kernel) (by decide +kernel)

/-- … and the model, evaluated on the encoded bytes, gives what they say: three messages in wire
    order for the three records of the known template, none for templates, options and the set of the
    unknown template, which is reported as template-not-found; the sampling rate of the options record
    is stamped on every message -/
example :
    (netflowPipe exCfg {} exSrcA 5 (encode exKnown)).msgs.length = 3 ∧
    (netflowPipe exCfg {} exSrcA 5 (encode exKnown)).err = none ∧
    (netflowPipe exCfg {} exSrcA 5 (encode exMixed)).err = some .tnf ∧
    (netflowPipe exCfg {} exSrcA 5 (encode exMixed)).msgs.map (fun x => (x.srcAddr, x.bytes, x.packets, x.samplingRate)) =
      [([10, 0, 0, 1], 1500, 3, 100), ([10, 0, 0, 3], 64, 1, 100), ([10, 0, 0, 5], 256, 2, 100)] ∧
    -- conversion failure: nothing at all
    (netflowPipe exCfg {} exSrcA 5 (encode exWide)).msgs = [] ∧
    (netflowPipe exCfg {} exSrcA 5 (encode exWide)).err = some .bad := by decide +kernel

def exV5Header : V5.Header := ⟨2, 1000, 1700000000, 5, 42, 0, 0, 16385⟩
def exV5Records : List V5.Record := [
  ⟨0x0a000001, 0x0a000002, 0, 1, 2, 10, 1000, 500, 900, 443, 55000, 0, 0x18, 6, 0, 65000, 65001, 24, 24, 0⟩,
  ⟨0x0a000003, 0x0a000004, 0, 2, 1, 1, 40, 600, 600, 53, 40000, 0, 0, 17, 0, 65001, 65000, 24, 24, 0⟩]

example := v5_pipe_messages exCfg {} exSrcA 5 exV5Header exV5Records (by decide) (by decide) rfl
example : (netflowPipe exCfg {} exSrcA 5 (Spec.V5.encode exV5Header exV5Records)).msgs.map (fun x => (x.srcPort, x.bytes)) =
    [(443, 1000), (53, 40)] := by decide +kernel

/-- sFlow: C04's example datagram carries a flow sample, a counter sample and a drop sample -/
example := sflow_pipe_messages_default exCfg rfl {} 5 C04.exampleDatagram C04.exampleDatagram_wf
example : Spec.Sflow.flowSamples C04.exampleDatagram = 1 ∧
    (sflowPipe exCfg {} 5 (Spec.Sflow.encode C04.exampleDatagram)).msgs.length = 1 ∧
    (sflowPipe exCfg {} 5 (Spec.Sflow.encode C04.exampleDatagram)).err = none := by decide +kernel

/-- a history over two exporters: A announces template 256 and uses it; B uses id 256 without ever
    announcing it (unknown to the collector *for B*: nothing is emitted); A uses it again in a later
    datagram without re-announcing it; then a v5 and an sFlow datagram -/
def exHistory : List Event := [
  ⟨exSrcA, 1, .nf exMixed⟩,
  ⟨exSrcB, 2, .nf exDataOnly⟩,
  ⟨exSrcA, 3, .nf exDataOnly⟩,
  ⟨exSrcB, 4, .v5 exV5Header exV5Records⟩,
  ⟨exSrcA, 5, .sflow C04.exampleDatagram⟩]

set_option maxRecDepth 100000 in
theorem exHistory_wf : HistoryWF exCfg Know.empty exHistory :=
  ⟨⟨by decide +kernel, recordsConvertK_of_widths exCfg exCfg_noMappings _ _ (by decide +kernel)⟩,
   ⟨by decide +kernel, recordsConvertK_of_widths exCfg exCfg_noMappings _ _ (by decide +kernel)⟩,
   ⟨by decide +kernel, recordsConvertK_of_widths exCfg exCfg_noMappings _ _ (by decide +kernel)⟩,
   ⟨by decide, by decide, rfl⟩,
   ⟨C04.exampleDatagram_wf, samplesConvert_of_noLayers exCfg rfl _⟩,
   trivial⟩

example : specCounts Know.empty exHistory = [3, 0, 1, 2, 1] := by decide +kernel
example : runCounts .auto exCfg {} exHistory = [3, 0, 1, 2, 1] := by decide +kernel
example : runCounts .auto exCfg {} exHistory = specCounts Know.empty exHistory := history_counts _ _ exHistory_wf

set_option maxRecDepth 100000 in
example : HistoryWFD Know.empty exHistory :=
  ⟨⟨by decide +kernel, by decide +kernel⟩, ⟨by decide +kernel, by decide +kernel⟩, ⟨by decide +kernel, by decide +kernel⟩,
   ⟨by decide, by decide, rfl⟩, C04.exampleDatagram_wf, trivial⟩

end Examples

end Goflow.C07E2E
