import Goflow.Conc.KafkaLifecycle
import Proofs.C20
/-!
  C20 with lifecycles and faults — the singleton Kafka driver through any number of
  Init → Send* → Close lifecycles; brokers that reject messages; a reader of the error stream that
  stops at the nil end marker.

  Part 1 (call level): under the stated sarama contract for each producer, every lifecycle's
  messages are delivered or reported by that lifecycle's Close.
  Part 2 (transition system, every schedule): the same as an invariant, with the producers'
  internals explicit; and Close never waits for the reader of `Errors()`.
  As in C20 nothing about sarama itself is proved: the producer's behaviour is the stated contract.
-/
namespace Goflow.C20Faults
open Goflow Goflow.Conc.KafkaAdapter Goflow.Conc.KafkaLifecycle

/-! ## Part 1 — call level -/

theorem sendAll_eq (st : St) (msgs : List (Bytes × Bytes)) :
    sendAll st msgs = { st with input := st.input ++ msgs.map (mkMsg st.topic) } := by
  induction msgs generalizing st with
  | nil => simp [sendAll]
  | cons m rest ih =>
    obtain ⟨k, v⟩ := m
    rw [sendAll, ih]
    simp [send, mkMsg]

private theorem runOps_append (once : Bool) (d : Driver) (a b : List Op) :
    runOps once d (a ++ b) = (runOps once d a).bind fun d' => runOps once d' b := by
  induction a generalizing d with
  | nil => rfl
  | cons o rest ih =>
    simp only [List.cons_append, runOps]
    cases applyOp once d o with
    | none => rfl
    | some d' => exact ih d'

private theorem runOps_sends (once : Bool) (d : Driver) (p : St) (hp : d.cur = some p) (hc : p.closed = false)
    (msgs : List (Bytes × Bytes)) :
    runOps once d (msgs.map fun kv => Op.send kv.1 kv.2) = some { d with cur := some (sendAll p msgs) } := by
  induction msgs generalizing d p with
  | nil =>
    simp only [List.map_nil, runOps, sendAll, ← hp]
  | cons m rest ih =>
    obtain ⟨k, v⟩ := m
    simp only [List.map_cons, runOps, applyOp, hp, hc, Bool.false_eq_true, if_false]
    rw [ih _ (send p k v) rfl (by simpa [send] using hc)]
    rfl

/-- the driver after one more lifecycle with the messages `msgs` -/
def afterLifecycle (d : Driver) (msgs : List (Bytes × Bytes)) : Driver :=
  ⟨d.topic, producers d, some ⟨d.topic, msgs.map (mkMsg d.topic), true⟩, true⟩

/-- one whole lifecycle on the Go driver: a NEW producer receives exactly this lifecycle's
    messages, in order, and is closed; the earlier producers are untouched -/
theorem runOps_lifecycle (d : Driver) (msgs : List (Bytes × Bytes)) :
    runOps false d (lifecycleOps msgs) = some (afterLifecycle d msgs) := by
  simp only [lifecycleOps, List.cons_append, runOps, applyOp]
  rw [runOps_append, runOps_sends false _ ⟨d.topic, [], false⟩ rfl rfl]
  simp [runOps, applyOp, sendAll_eq, afterLifecycle]

theorem runOps_all (d : Driver) (ls : List (List (Bytes × Bytes))) :
    ∃ d', runOps false d (allOps ls) = some d' ∧ d'.topic = d.topic ∧
      producers d' = producers d ++ ls.map fun msgs => ⟨d.topic, msgs.map (mkMsg d.topic), true⟩ := by
  induction ls generalizing d with
  | nil => exact ⟨d, rfl, rfl, by simp⟩
  | cons msgs rest ih =>
    have h1 := runOps_lifecycle d msgs
    obtain ⟨d', h2, ht, hp⟩ := ih (afterLifecycle d msgs)
    refine ⟨d', ?_, ht, ?_⟩
    · simp only [allOps, List.flatMap_cons] at h2 ⊢
      rw [runOps_append, h1]
      exact h2
    · rw [hp]
      simp [producers, afterLifecycle]

theorem contract_implies_contractF (hashing : Bool) (parts : Nat) (input : List KMsg) (o : Outcome)
    (h : Contract hashing parts input o) : ContractF hashing parts input o := by
  obtain ⟨he, hp, hh⟩ := h
  refine ⟨?_, hh⟩
  rw [he, List.append_nil]; exact hp

/-- **every lifecycle flushed (call level)**: for every number of lifecycles and every batch of
    messages in each: the calls do not panic; lifecycle `i` has its own producer, which received
    exactly the messages handed to Send in lifecycle `i` and whose Close WAS called (by the i-th
    `d.Close()`, before it returned); hence, under the stated contract for each producer — Close of a
    producer delivers or reports everything handed to it before — every message of lifecycle `i` is
    delivered or reported exactly once by the time the i-th Close returns. -/
theorem every_lifecycle_flushed_contract (hashing : Bool) (parts : Nat) (topic : String)
    (ls : List (List (Bytes × Bytes))) (o : Nat → Outcome) :
    ∃ d, runOps false { topic := topic } (allOps ls) = some d ∧
      (∀ (i : Nat) (p : St), (producers d)[i]? = some p → p.closed = true) ∧
      ((∀ (i : Nat) (p : St), (producers d)[i]? = some p → p.closed = true → ContractF hashing parts p.input (o i)) →
        ∀ (i : Nat) (msgs : List (Bytes × Bytes)), ls[i]? = some msgs →
          ((o i).delivered.map (·.1) ++ (o i).errors).Perm (msgs.map (mkMsg topic))) := by
  obtain ⟨d, hrun, _, hp⟩ := runOps_all { topic := topic } ls
  have hp' : producers d = ls.map fun msgs => (⟨topic, msgs.map (mkMsg topic), true⟩ : St) := by
    rw [hp]; simp [producers]
  refine ⟨d, hrun, ?_, ?_⟩
  · intro i p hi
    rw [hp', List.getElem?_map] at hi
    cases hl : ls[i]? with
    | none => rw [hl] at hi; cases hi
    | some msgs => rw [hl] at hi; cases hi; rfl
  · intro hc i msgs hi
    have hprod : (producers d)[i]? = some ⟨topic, msgs.map (mkMsg topic), true⟩ := by
      rw [hp', List.getElem?_map, hi]; rfl
    exact (hc i _ hprod rfl).1

/-- the same with the fault-free `KafkaAdapter.Contract`: everything delivered, nothing reported -/
theorem every_lifecycle_delivered_contract (hashing : Bool) (parts : Nat) (topic : String)
    (ls : List (List (Bytes × Bytes))) (o : Nat → Outcome) :
    ∃ d, runOps false { topic := topic } (allOps ls) = some d ∧
      ((∀ (i : Nat) (p : St), (producers d)[i]? = some p → p.closed = true → Contract hashing parts p.input (o i)) →
        ∀ (i : Nat) (msgs : List (Bytes × Bytes)), ls[i]? = some msgs →
          ((o i).delivered.map (·.1)).Perm (msgs.map (mkMsg topic)) ∧ (o i).errors = []) := by
  obtain ⟨d, hrun, hclosed, hF⟩ := every_lifecycle_flushed_contract hashing parts topic ls o
  refine ⟨d, hrun, fun hc i msgs hi => ?_⟩
  have hperm := hF (fun j p hj hcl => contract_implies_contractF _ _ _ _ (hc j p hj hcl)) i msgs hi
  obtain ⟨p, hp⟩ : ∃ p, (producers d)[i]? = some p := by
    cases h : (producers d)[i]? with
    | some p => exact ⟨p, rfl⟩
    | none =>
      exfalso
      have hlen : (producers d).length = ls.length := by
        obtain ⟨d2, h2, _, hp2⟩ := runOps_all { topic := topic } ls
        rw [hrun] at h2; cases h2
        rw [hp2]; simp [producers]
      have hi' : i < ls.length := by
        rcases Nat.lt_or_ge i ls.length with h' | h'
        · exact h'
        · rw [List.getElem?_eq_none h'] at hi; cases hi
      rw [List.getElem?_eq_none_iff] at h
      omega
  have he := (hc i p hp (hclosed i p hp)).1
  rw [he, List.append_nil] at hperm
  exact ⟨hperm, he⟩

/-! ## Part 2 — the transition system: every schedule -/

/-- per lifecycle: conservation of the messages handed to Send; `p.errors` is closed only when nothing
    is in flight and only after Close was called; a Close that got past `producer.Close()` saw it closed -/
def LInv (cfg : Cfg) (lf : Life) : Prop :=
  (∀ m : KMsg, lf.input.count m = (lf.delivered.map (·.1)).count m + lf.reported.count m + lf.pending.count m) ∧
  (lf.errClosed = true → lf.pending = [] ∧ lf.close ≠ CPc.notCalled) ∧
  (lf.close ≠ CPc.notCalled → lf.close ≠ CPc.draining → lf.errClosed = true) ∧
  (cfg.hashing = true → ∀ e ∈ lf.delivered, e.2 = hashPartition e.1.key cfg.parts)

def SInv (cfg : Cfg) (s : Sys) : Prop := ∀ lf ∈ s.lives, LInv cfg lf

private theorem count_move (pending : List KMsg) (m x : KMsg) (hm : m ∈ pending) :
    (pending.erase m).count x + (if m = x then 1 else 0) = pending.count x := by
  rw [List.count_erase]
  by_cases h : m = x
  · subst h
    have := List.count_pos_iff.mpr hm
    simp; omega
  · simp [h]

private theorem count_snoc (l : List KMsg) (m x : KMsg) :
    (l ++ [m]).count x = l.count x + (if m = x then 1 else 0) := by
  simp [List.count_append, List.count_cons]

theorem lifeStep_inv (cfg : Cfg) (rd : Reader) (lf lf' : Life) (ev : LEv) (out : Option (Option KMsg))
    (hinv : LInv cfg lf) (h : lifeStep cfg rd lf ev = some (lf', out)) : LInv cfg lf' := by
  obtain ⟨ha, hb, hc, hd⟩ := hinv
  cases ev with
  | deliver m p =>
    simp only [lifeStep] at h
    split at h
    · rename_i hm
      cases h
      have hmem : m ∈ lf.pending := List.contains_iff_mem.mp hm
      refine ⟨?_, ?_, hc, ?_⟩
      · intro x
        have h1 := ha x
        have h2 := count_move lf.pending m x hmem
        simp only [List.map_append, List.map_cons, List.map_nil, count_snoc]
        omega
      · intro he
        have := (hb he).1
        rw [this] at hmem; cases hmem
      · intro hh e he
        simp only [List.mem_append, List.mem_singleton] at he
        rcases he with he | rfl
        · exact hd hh e he
        · simp [hh]
    · cases h
  | failToFwd m =>
    simp only [lifeStep] at h
    split at h
    · rename_i hm
      cases h
      have hmem : m ∈ lf.pending := List.contains_iff_mem.mp hm.1
      refine ⟨?_, ?_, hc, hd⟩
      · intro x
        have h1 := ha x
        have h2 := count_move lf.pending m x hmem
        simp only [count_snoc]
        omega
      · intro he
        have := (hb he).1
        rw [this] at hmem; cases hmem
    · cases h
  | failToClose m =>
    simp only [lifeStep] at h
    split at h
    · rename_i hm
      cases h
      have hmem : m ∈ lf.pending := List.contains_iff_mem.mp hm.1
      refine ⟨?_, ?_, hc, hd⟩
      · intro x
        have h1 := ha x
        have h2 := count_move lf.pending m x hmem
        simp only [count_snoc]
        omega
      · intro he
        have := (hb he).1
        rw [this] at hmem; cases hmem
    · cases h
  | errorsClosed =>
    simp only [lifeStep] at h
    split at h
    · rename_i hg
      cases h
      refine ⟨ha, fun _ => ⟨hg.2.1, by rw [hg.1]; simp⟩, fun _ _ => rfl, hd⟩
    · cases h
  | closeSeesEnd =>
    simp only [lifeStep] at h
    split at h
    · rename_i hg
      cases h
      refine ⟨ha, fun he => ⟨(hb he).1, ?_⟩, fun _ _ => hg.2, hd⟩
      dsimp only; split <;> simp
    · cases h
  | closeForward =>
    simp only [lifeStep] at h
    split at h
    · rename_i e rest hcl
      split at h
      · cases h
        refine ⟨ha, fun he => ⟨(hb he).1, by simp⟩, fun _ _ => hc (by rw [hcl]; simp) (by rw [hcl]; simp), hd⟩
      · cases h
    · cases h
  | closeQ =>
    simp only [lifeStep] at h
    split at h
    · rename_i hg
      cases h
      refine ⟨ha, fun he => ⟨(hb he).1, by simp⟩, fun _ _ => ?_, hd⟩
      rcases hg with hg | hg <;> exact hc (by rw [hg]; simp) (by rw [hg]; simp)
    · cases h
  | fwdSeesEnd =>
    simp only [lifeStep] at h
    split at h
    · cases h; exact ⟨ha, hb, hc, hd⟩
    · cases h
  | fwdQuit =>
    simp only [lifeStep] at h
    split at h
    · cases h; exact ⟨ha, hb, hc, hd⟩
    · cases h
  | fwdForward =>
    simp only [lifeStep] at h
    split at h
    · split at h
      · cases h; exact ⟨ha, hb, hc, hd⟩
      · cases h
    · cases h
  | fwdDrop =>
    simp only [lifeStep] at h
    split at h
    · cases h; exact ⟨ha, hb, hc, hd⟩
    · cases h

private theorem toReader_lives (s : Sys) (out : Option (Option KMsg)) : (toReader s out).lives = s.lives := by
  cases out <;> rfl

private theorem lastLife_mem {s : Sys} {lf : Life} (h : lastLife s = some lf) : lf ∈ s.lives :=
  List.mem_of_getElem? h

theorem linv_new (cfg : Cfg) : LInv cfg {} := by
  refine ⟨fun m => by simp, fun h => by simp at h, fun h => by simp at h, fun _ e he => by simp at he⟩

theorem sinv_step (cfg : Cfg) (honce : cfg.onceClose = false) (s s' : Sys) (e : Ev)
    (hinv : SInv cfg s) (h : step cfg s e = some s') : SInv cfg s' := by
  have hset : ∀ (l : Nat) (lf' : Life), LInv cfg lf' → ∀ x ∈ s.lives.set l lf', LInv cfg x := by
    intro l lf' hl x hx
    rcases List.mem_or_eq_of_mem_set hx with hx | rfl
    · exact hinv x hx
    · exact hl
  cases e with
  | init =>
    have hnew : ∀ x ∈ s.lives ++ [({} : Life)], LInv cfg x := by
      intro x hx
      simp only [List.mem_append, List.mem_singleton] at hx
      rcases hx with hx | rfl
      · exact hinv x hx
      · exact linv_new cfg
    simp only [step] at h
    split at h
    · cases h; exact hnew
    · split at h
      · cases h; exact hnew
      · cases h
  | send k v =>
    simp only [step] at h
    split at h
    · rename_i lf hl
      split at h
      · rename_i hnc
        cases h
        obtain ⟨ha, hb, hc, hd⟩ := hinv lf (lastLife_mem hl)
        apply hset
        refine ⟨?_, ?_, ?_, hd⟩
        · intro x
          have := ha x
          simp only [count_snoc]; omega
        · intro he; exact absurd hnc (hb he).2
        · intro hne; exact absurd hnc hne
      · cases h
    · cases h
  | closeCall =>
    simp only [step, honce, Bool.false_and, Bool.false_eq_true, if_false] at h
    split at h
    · rename_i lf hl
      split at h
      · rename_i hnc
        cases h
        obtain ⟨ha, hb, hc, hd⟩ := hinv lf (lastLife_mem hl)
        apply hset
        refine ⟨ha, ?_, ?_, hd⟩
        · intro he; exact absurd hnc (hb he).2
        · intro _ hne; exact absurd rfl hne
      · cases h
    · cases h
  | life l ev =>
    simp only [step] at h
    split at h
    · rename_i lf hl
      split at h
      · rename_i lf' out hls
        cases h
        intro x hx
        rw [toReader_lives] at hx
        exact hset l lf' (lifeStep_inv cfg _ lf lf' ev out (hinv lf (List.mem_of_getElem? hl)) hls) x hx
      · cases h
    · cases h
  | readerQuit =>
    simp only [step] at h
    split at h
    · cases h; exact hinv
    · cases h

theorem sinv_run (cfg : Cfg) (honce : cfg.onceClose = false) (s : Sys) (sched : List Ev) (hinv : SInv cfg s) :
    SInv cfg (run cfg s sched) := by
  induction sched generalizing s with
  | nil => exact hinv
  | cons e rest ih =>
    simp only [run]
    split
    · rename_i s' hs; exact ih s' (sinv_step cfg honce s s' e hinv hs)
    · exact ih s hinv

theorem sinv_init (cfg : Cfg) (topic : String) : SInv cfg (initSys topic) := by
  intro lf h; simp [initSys] at h

/-- **every lifecycle flushed**: for every number of lifecycles and EVERY interleaving of the
    application's calls, the brokers' acknowledgements and rejections, the forwarders, Close's steps
    and the reader: when the Close of lifecycle `l` has returned, nothing handed to Send in lifecycle
    `l` is still in flight — every such message has been delivered or reported, exactly once (and with
    the hash partitioner on its key's partition). Both for Go's Close and for the variant that forwards
    the collected errors; NOT for a `sync.Once`-guarded Close (`Findings.C20`). -/
theorem every_lifecycle_flushed (cfg : Cfg) (honce : cfg.onceClose = false) (topic : String) (sched : List Ev)
    (l : Nat) (lf : Life) (hl : (run cfg (initSys topic) sched).lives[l]? = some lf) (hret : lf.close = CPc.returned) :
    lf.pending = [] ∧ ContractF cfg.hashing cfg.parts lf.input (outcome lf) := by
  obtain ⟨ha, hb, hc, hd⟩ := sinv_run cfg honce _ sched (sinv_init cfg topic) lf (List.mem_of_getElem? hl)
  have herr : lf.errClosed = true := hc (by rw [hret]; simp) (by rw [hret]; simp)
  have hpend := (hb herr).1
  refine ⟨hpend, ?_, hd⟩
  rw [List.perm_iff_count]
  intro m
  have := ha m
  rw [hpend] at this
  simp only [outcome, List.count_append, List.count_nil] at this ⊢
  omega

/-- … and when the brokers rejected nothing in that lifecycle the outcome is the one of the fault-free
    `KafkaAdapter.Contract`: the operational producer of the transition system implements the contract -/
theorem lifecycle_outcome_contract (cfg : Cfg) (honce : cfg.onceClose = false) (topic : String) (sched : List Ev)
    (l : Nat) (lf : Life) (hl : (run cfg (initSys topic) sched).lives[l]? = some lf) (hret : lf.close = CPc.returned)
    (hnofault : lf.reported = []) :
    Contract cfg.hashing cfg.parts lf.input (outcome lf) := by
  obtain ⟨_, hperm, hh⟩ := every_lifecycle_flushed cfg honce topic sched l lf hl hret
  refine ⟨hnofault, ?_, hh⟩
  simpa [outcome, hnofault] using hperm

/-- what was handed to Send: the inputs only grow by Sends of the lifecycle's own phase, and every
    message carries the configured topic and the caller's key and value unchanged -/
theorem inputs_are_sends (cfg : Cfg) (topic : String) (sched : List Ev) (lf : Life)
    (hl : lf ∈ (run cfg (initSys topic) sched).lives) (m : KMsg) (hm : m ∈ lf.input) : m.topic = topic := by
  have key : ∀ (s : Sys), (∀ lf ∈ s.lives, ∀ m ∈ lf.input, m.topic = s.topic) →
      ∀ e s', step cfg s e = some s' → (∀ lf ∈ s'.lives, ∀ m ∈ lf.input, m.topic = s'.topic) ∧ s'.topic = s.topic := by
    intro s hs e s' h
    have hset : ∀ (l : Nat) (lf' : Life), (∀ m ∈ lf'.input, m.topic = s.topic) →
        ∀ x ∈ s.lives.set l lf', ∀ m ∈ x.input, m.topic = s.topic := by
      intro l lf' hl x hx
      rcases List.mem_or_eq_of_mem_set hx with hx | rfl
      · exact hs x hx
      · exact hl
    cases e with
    | init =>
      have hnew : ∀ x ∈ s.lives ++ [({} : Life)], ∀ m ∈ x.input, m.topic = s.topic := by
        intro x hx
        simp only [List.mem_append, List.mem_singleton] at hx
        rcases hx with hx | rfl
        · exact hs x hx
        · intro m hm; simp at hm
      simp only [step] at h
      split at h
      · cases h; exact ⟨hnew, rfl⟩
      · split at h
        · cases h; exact ⟨hnew, rfl⟩
        · cases h
    | send k v =>
      simp only [step] at h
      split at h
      · rename_i lf0 hl0
        split at h
        · cases h
          refine ⟨hset _ _ ?_, rfl⟩
          intro m hm
          simp only [List.mem_append, List.mem_singleton] at hm
          rcases hm with hm | rfl
          · exact hs lf0 (lastLife_mem hl0) m hm
          · rfl
        · cases h
      · cases h
    | closeCall =>
      simp only [step] at h
      split at h
      · rename_i lf0 hl0
        split at h
        · split at h <;> (cases h; exact ⟨hset _ _ (hs lf0 (lastLife_mem hl0)), rfl⟩)
        · cases h
      · cases h
    | life l ev =>
      simp only [step] at h
      split at h
      · rename_i lf0 hl0
        split at h
        · rename_i lf' out hls
          cases h
          have hin : lf'.input = lf0.input := by
            cases ev <;> simp only [lifeStep] at hls <;> (repeat' split at hls) <;> (first | cases hls | skip) <;> rfl
          have htop : (toReader { s with lives := s.lives.set l lf' } out).topic = s.topic := by cases out <;> rfl
          refine ⟨?_, htop⟩
          rw [toReader_lives, htop]
          exact hset l lf' (by rw [hin]; exact hs lf0 (List.mem_of_getElem? hl0))
        · cases h
      · cases h
    | readerQuit =>
      simp only [step] at h
      split at h
      · cases h; exact ⟨hs, rfl⟩
      · cases h
  have hrun : ∀ (sched : List Ev) (s : Sys), (∀ lf ∈ s.lives, ∀ m ∈ lf.input, m.topic = s.topic) →
      (∀ lf ∈ (run cfg s sched).lives, ∀ m ∈ lf.input, m.topic = (run cfg s sched).topic) ∧ (run cfg s sched).topic = s.topic := by
    intro sched
    induction sched with
    | nil => intro s hs; exact ⟨hs, rfl⟩
    | cons e rest ih =>
      intro s hs
      simp only [run]
      split
      · rename_i s' hstep
        obtain ⟨h1, h2⟩ := key s hs e s' hstep
        obtain ⟨h3, h4⟩ := ih s' h1
        exact ⟨h3, by rw [h4, h2]⟩
      · exact ih s hs
  obtain ⟨h1, h2⟩ := hrun sched (initSys topic) (by intro lf h; simp [initSys] at h)
  rw [h1 lf hl m hm, h2]; rfl

/-! ### Close never waits for the reader of `Errors()` -/

def fwdW : FPc → Nat
  | .waiting => 2
  | .got (some _) => 3
  | .got none => 1
  | .exited => 0

def closeW : CPc → Nat
  | .notCalled => 3
  | .draining => 2
  | .flushed => 1
  | .forwarding errs => errs.length + 1
  | .returned => 0

/-- the work left in a lifecycle: messages in flight, the forwarder's remaining moves, the closing
    of `p.errors`, Close's remaining statements -/
def lifeM (lf : Life) : Nat :=
  2 * lf.pending.length + fwdW lf.fwd + (if lf.errClosed then 0 else 1) + closeW lf.close

def readerW : Reader → Nat
  | .reading => 1
  | .stopped => 0

def M (s : Sys) : Nat := (s.lives.map lifeM).sum + readerW s.reader

theorem lifeStep_decreases (cfg : Cfg) (hgo : cfg.blockingForward = false) (rd : Reader) (lf lf' : Life) (ev : LEv)
    (out : Option (Option KMsg)) (h : lifeStep cfg rd lf ev = some (lf', out)) : lifeM lf' < lifeM lf := by
  have herase : ∀ m : KMsg, lf.pending.contains m = true → (lf.pending.erase m).length + 1 = lf.pending.length := by
    intro m hm
    have hmem : m ∈ lf.pending := List.contains_iff_mem.mp hm
    have := List.length_erase_of_mem hmem
    have hpos : 0 < lf.pending.length := List.length_pos_of_mem hmem
    omega
  cases ev with
  | deliver m p =>
    simp only [lifeStep] at h
    split at h
    · rename_i hm
      cases h
      have := herase m hm
      simp only [lifeM]; omega
    · cases h
  | failToFwd m =>
    simp only [lifeStep] at h
    split at h
    · rename_i hm
      cases h
      have := herase m hm.1
      simp only [lifeM, hm.2, fwdW]; omega
    · cases h
  | failToClose m =>
    simp only [lifeStep] at h
    split at h
    · rename_i hm
      cases h
      have := herase m hm.1
      simp only [lifeM]; omega
    · cases h
  | errorsClosed =>
    simp only [lifeStep] at h
    split at h
    · rename_i hg
      cases h
      simp [lifeM, hg.2.2]
    · cases h
  | closeSeesEnd =>
    simp only [lifeStep, hgo, Bool.false_eq_true, if_false] at h
    split at h
    · rename_i hg
      cases h
      simp [lifeM, hg.1, closeW]
    · cases h
  | closeForward =>
    simp only [lifeStep] at h
    split at h
    · rename_i e rest hcl
      split at h
      · cases h
        simp [lifeM, hcl, closeW]
      · cases h
    · cases h
  | closeQ =>
    simp only [lifeStep] at h
    split at h
    · rename_i hg
      cases h
      rcases hg with hg | hg <;> simp [lifeM, hg, closeW]
    · cases h
  | fwdSeesEnd =>
    simp only [lifeStep] at h
    split at h
    · rename_i hg
      cases h
      simp [lifeM, hg.1, fwdW]
    · cases h
  | fwdQuit =>
    simp only [lifeStep] at h
    split at h
    · rename_i hg
      cases h
      simp [lifeM, hg.1, fwdW]
    · cases h
  | fwdForward =>
    simp only [lifeStep] at h
    split at h
    · rename_i e hf
      split at h
      · cases h
        cases e <;> simp [lifeM, hf, fwdW, afterForward]
      · cases h
    · cases h
  | fwdDrop =>
    simp only [lifeStep] at h
    split at h
    · rename_i e hf
      cases h
      cases e <;> simp [lifeM, hf, fwdW, afterForward]
    · cases h

private theorem sum_map_set (f : Life → Nat) (l : List Life) (i : Nat) (a b : Life) (h : l[i]? = some a) :
    ((l.set i b).map f).sum + f a = (l.map f).sum + f b := by
  induction l generalizing i with
  | nil => simp at h
  | cons x xs ih =>
    cases i with
    | zero =>
      simp only [List.getElem?_cons_zero, Option.some.injEq] at h
      subst h
      simp only [List.set_cons_zero, List.map_cons, List.sum_cons]; omega
    | succ i =>
      simp only [List.getElem?_cons_succ] at h
      have := ih i h
      simp only [List.set_cons_succ, List.map_cons, List.sum_cons]; omega

private theorem readerW_toReader (s : Sys) (out : Option (Option KMsg)) : readerW (toReader s out).reader ≤ readerW s.reader := by
  cases out with
  | none => exact Nat.le_refl _
  | some e =>
    simp only [toReader]
    split
    · cases s.reader <;> simp [readerW]
    · exact Nat.le_refl _

/-- the application thread is inside `d.Close()` -/
def closing (s : Sys) : Prop := ∃ lf, lastLife s = some lf ∧ inClose lf = true

/-- every step other than the application's own calls uses up work -/
theorem step_decreases (cfg : Cfg) (hgo : cfg.blockingForward = false) (s s' : Sys) (e : Ev)
    (happ : ∀ k v, e ≠ Ev.init ∧ e ≠ Ev.send k v ∧ e ≠ Ev.closeCall) (h : step cfg s e = some s') : M s' < M s := by
  cases e with
  | init => exact absurd rfl (happ [] []).1
  | send k v => exact absurd rfl (happ k v).2.1
  | closeCall => exact absurd rfl (happ [] []).2.2
  | life l ev =>
    simp only [step] at h
    split at h
    · rename_i lf hl
      split at h
      · rename_i lf' out hls
        cases h
        have h1 := lifeStep_decreases cfg hgo _ lf lf' ev out hls
        have h2 := sum_map_set lifeM s.lives l lf lf' hl
        have h3 := readerW_toReader { s with lives := s.lives.set l lf' } out
        simp only [M, toReader_lives] at h3 ⊢
        omega
      · cases h
    · cases h
  | readerQuit =>
    simp only [step] at h
    split at h
    · rename_i hr
      cases h
      simp [M, hr, readerW]
    · cases h

/-- while the application thread is inside Close, its other calls cannot happen -/
theorem closing_no_app (cfg : Cfg) (s : Sys) (hc : closing s) (k v : Bytes) :
    step cfg s .init = none ∧ step cfg s (.send k v) = none ∧ step cfg s .closeCall = none := by
  obtain ⟨lf, hl, hin⟩ := hc
  have h1 : lf.close ≠ CPc.returned := by intro h; rw [inClose, h] at hin; cases hin
  have h2 : lf.close ≠ CPc.notCalled := by intro h; rw [inClose, h] at hin; cases hin
  simp [step, hl, h1, h2]

/-- **every step during Close uses up work**: whatever is scheduled while `d.Close()` is in progress
    (Go's Close) strictly decreases the measure `M` — no interleaving keeps Close busy forever -/
theorem close_step_decreases (cfg : Cfg) (hgo : cfg.blockingForward = false) (s s' : Sys) (e : Ev)
    (hc : closing s) (h : step cfg s e = some s') : M s' < M s := by
  apply step_decreases cfg hgo s s' e _ h
  intro k v
  refine ⟨?_, ?_, ?_⟩ <;> intro he <;> subst he
  · rw [(closing_no_app cfg s hc [] []).1] at h; cases h
  · rw [(closing_no_app cfg s hc k v).2.1] at h; cases h
  · rw [(closing_no_app cfg s hc [] []).2.2] at h; cases h

/-- the steps that do not involve the reader are enabled or not independently of what the reader does -/
theorem reader_irrelevant (cfg : Cfg) (s : Sys) (r : Reader) (e : Ev) (he : usesReader e = false) :
    (step cfg { s with reader := r } e).isSome = (step cfg s e).isSome := by
  cases e with
  | init => simp only [step, lastLife]; split <;> (try split) <;> rfl
  | send k v => simp only [step, lastLife]; split <;> (try split) <;> rfl
  | closeCall => simp only [step, lastLife]; split <;> (try split) <;> (try split) <;> rfl
  | readerQuit => simp [usesReader] at he
  | life l ev =>
    have hls : ∀ lf, lifeStep cfg r lf ev = lifeStep cfg s.reader lf ev := by
      intro lf
      cases ev <;> first | rfl | simp [usesReader] at he
    simp only [step, hls]
    split
    · split <;> rfl
    · rfl

/-- no lifecycle of Go's Close is ever in the `forwarding` state -/
def NoFwd (s : Sys) : Prop := ∀ lf ∈ s.lives, ∀ errs, lf.close ≠ CPc.forwarding errs

theorem noFwd_step (cfg : Cfg) (hgo : cfg.blockingForward = false) (s s' : Sys) (e : Ev)
    (hinv : NoFwd s) (h : step cfg s e = some s') : NoFwd s' := by
  have hset : ∀ (l : Nat) (lf' : Life), (∀ errs, lf'.close ≠ CPc.forwarding errs) →
      ∀ x ∈ s.lives.set l lf', ∀ errs, x.close ≠ CPc.forwarding errs := by
    intro l lf' hl x hx
    rcases List.mem_or_eq_of_mem_set hx with hx | rfl
    · exact hinv x hx
    · exact hl
  cases e with
  | init =>
    have hnew : ∀ x ∈ s.lives ++ [({} : Life)], ∀ errs, x.close ≠ CPc.forwarding errs := by
      intro x hx
      simp only [List.mem_append, List.mem_singleton] at hx
      rcases hx with hx | rfl
      · exact hinv x hx
      · intro errs; simp
    simp only [step] at h
    split at h
    · cases h; exact hnew
    · split at h
      · cases h; exact hnew
      · cases h
  | send k v =>
    simp only [step] at h
    split at h
    · rename_i lf hl
      split at h
      · cases h; exact hset _ _ (hinv lf (lastLife_mem hl))
      · cases h
    · cases h
  | closeCall =>
    simp only [step] at h
    split at h
    · split at h
      · split at h <;> (cases h; exact hset _ _ (by intro errs; simp))
      · cases h
    · cases h
  | life l ev =>
    simp only [step] at h
    split at h
    · rename_i lf hl
      split at h
      · rename_i lf' out hls
        cases h
        have hold := hinv lf (List.mem_of_getElem? hl)
        intro x hx
        rw [toReader_lives] at hx
        refine hset l lf' ?_ x hx
        cases ev <;> simp only [lifeStep, hgo, Bool.false_eq_true, if_false] at hls <;> (repeat' split at hls) <;>
          (first | cases hls | skip) <;>
          (first | exact hold | exact absurd ‹lf.close = CPc.forwarding _› (hold _) | (intro errs; simp))
      · cases h
    · cases h
  | readerQuit =>
    simp only [step] at h
    split at h
    · cases h; exact hinv
    · cases h

theorem noFwd_run (cfg : Cfg) (hgo : cfg.blockingForward = false) (s : Sys) (sched : List Ev) (hinv : NoFwd s) :
    NoFwd (run cfg s sched) := by
  induction sched generalizing s with
  | nil => exact hinv
  | cons e rest ih =>
    simp only [run]
    split
    · rename_i s' hs; exact ih s' (noFwd_step cfg hgo s s' e hinv hs)
    · exact ih s hinv

/-- **Close forwards nothing by a blocking send — it is never blocked**: in every state reachable under
    any schedule in which `d.Close()` is in progress, a step of Close or of the producer it waits for is
    enabled that does not involve the reader of `Errors()` — and stays enabled whatever the reader does
    (reading, stopped after the nil end marker, gone). For a message still in flight the broker may
    acknowledge it or reject it: Close itself takes the error event. -/
theorem close_forwards_nonblocking (cfg : Cfg) (hgo : cfg.blockingForward = false) (topic : String) (sched : List Ev)
    (hc : closing (run cfg (initSys topic) sched)) :
    ∃ e, usesReader e = false ∧ (step cfg (run cfg (initSys topic) sched) e).isSome = true ∧
      ∀ r, (step cfg { run cfg (initSys topic) sched with reader := r } e).isSome = true := by
  have hnf := noFwd_run cfg hgo _ sched (by intro lf h; simp [initSys] at h : NoFwd (initSys topic))
  generalize run cfg (initSys topic) sched = s at *
  obtain ⟨lf, hl, hin⟩ := hc
  have hl' : s.lives[s.lives.length - 1]? = some lf := hl
  have key : ∃ ev, (lifeStep cfg s.reader lf ev).isSome = true ∧ usesReader (.life (s.lives.length - 1) ev) = false := by
    cases hcl : lf.close with
    | notCalled => rw [inClose, hcl] at hin; cases hin
    | returned => rw [inClose, hcl] at hin; cases hin
    | forwarding errs => exact absurd hcl (hnf lf (lastLife_mem hl) errs)
    | flushed => exact ⟨.closeQ, by simp [lifeStep, hcl], rfl⟩
    | draining =>
      cases hp : lf.pending with
      | cons m rest => exact ⟨.deliver m 0, by simp [lifeStep, hp], rfl⟩
      | nil =>
        cases he : lf.errClosed with
        | true => exact ⟨.closeSeesEnd, by simp [lifeStep, hcl, he], rfl⟩
        | false => exact ⟨.errorsClosed, by simp [lifeStep, hcl, hp, he], rfl⟩
  obtain ⟨ev, hev, hur⟩ := key
  have hstep : (step cfg s (.life (s.lives.length - 1) ev)).isSome = true := by
    simp only [step, hl']
    cases hls : lifeStep cfg s.reader lf ev with
    | none => rw [hls] at hev; cases hev
    | some x => rfl
  exact ⟨.life (s.lives.length - 1) ev, hur, hstep, fun r => by rw [reader_irrelevant cfg s r _ hur]; exact hstep⟩

/-- while Close drains, the broker is free to REJECT any message in flight: the error event is taken by
    Close's own range loop, no forwarder and no reader is needed -/
theorem draining_accepts_errors (cfg : Cfg) (rd : Reader) (lf : Life) (m : KMsg)
    (hd : lf.close = CPc.draining) (hm : m ∈ lf.pending) :
    (lifeStep cfg rd lf (.failToClose m)).isSome = true ∧ (lifeStep cfg rd lf (.deliver m 0)).isSome = true := by
  simp [lifeStep, hm, hd]

/-! #### … and it returns after boundedly many steps, in every interleaving -/

private theorem lifeStep_close (cfg : Cfg) (rd : Reader) (lf lf' : Life) (ev : LEv) (out : Option (Option KMsg))
    (h : lifeStep cfg rd lf ev = some (lf', out)) :
    (inClose lf = true → inClose lf' = true ∨ lf'.close = CPc.returned) ∧
    (lf.close = CPc.returned → lf'.close = CPc.returned) := by
  cases ev <;> simp only [lifeStep] at h <;> (repeat' split at h) <;> (first | cases h | skip) <;>
    (first
      | exact ⟨fun hh => Or.inl hh, fun hh => hh⟩
      | (refine ⟨fun _ => ?_, fun hh => ?_⟩ <;> simp_all [inClose]))

private theorem getElem?_set_some' {l : List Life} {i : Nat} {old : Life} (a : Life) (h : l[i]? = some old) (j : Nat) :
    (l.set i a)[j]? = if i = j then some a else l[j]? := by
  have hlt : i < l.length := by
    rcases Nat.lt_or_ge i l.length with h' | h'
    · exact h'
    · rw [List.getElem?_eq_none h'] at h; cases h
  rw [List.getElem?_set]
  by_cases hij : i = j
  · subst hij; simp [hlt]
  · simp [hij]

/-- a Close that has returned stays returned -/
private theorem returned_step (cfg : Cfg) (s s' : Sys) (e : Ev) (l : Nat) (h : step cfg s e = some s')
    (hr : ∃ lf, s.lives[l]? = some lf ∧ lf.close = CPc.returned) :
    ∃ lf, s'.lives[l]? = some lf ∧ lf.close = CPc.returned := by
  obtain ⟨lf, hl, hret⟩ := hr
  have hlt : l < s.lives.length := by
    rcases Nat.lt_or_ge l s.lives.length with h' | h'
    · exact h'
    · rw [List.getElem?_eq_none h'] at hl; cases hl
  have hlast : ∀ (lf0 lf1 : Life), lastLife s = some lf0 → lf0.close = CPc.notCalled →
      ∃ lf2, (s.lives.set (s.lives.length - 1) lf1)[l]? = some lf2 ∧ lf2.close = CPc.returned := by
    intro lf0 lf1 h0 hnc
    rw [getElem?_set_some' lf1 h0]
    by_cases hij : s.lives.length - 1 = l
    · exfalso
      have : lastLife s = some lf := by rw [lastLife, hij]; exact hl
      rw [this] at h0; cases h0
      rw [hret] at hnc; cases hnc
    · simp only [hij, if_false]; exact ⟨lf, hl, hret⟩
  cases e with
  | init =>
    have hnew : (s.lives ++ [({} : Life)])[l]? = some lf := by rw [List.getElem?_append_left hlt]; exact hl
    simp only [step] at h
    split at h
    · cases h; exact ⟨lf, hnew, hret⟩
    · split at h
      · cases h; exact ⟨lf, hnew, hret⟩
      · cases h
  | send k v =>
    simp only [step] at h
    split at h
    · rename_i lf0 hl0
      split at h
      · rename_i hnc; cases h; exact hlast lf0 _ hl0 hnc
      · cases h
    · cases h
  | closeCall =>
    simp only [step] at h
    split at h
    · rename_i lf0 hl0
      split at h
      · rename_i hnc
        split at h <;> (cases h; exact hlast lf0 _ hl0 hnc)
      · cases h
    · cases h
  | life l' ev =>
    simp only [step] at h
    split at h
    · rename_i lf0 hl0
      split at h
      · rename_i lf' out hls
        cases h
        rw [toReader_lives]
        dsimp only
        rw [getElem?_set_some' lf' hl0]
        by_cases hij : l' = l
        · subst hij
          rw [hl] at hl0; cases hl0
          simp only [if_true]
          exact ⟨lf', rfl, (lifeStep_close cfg _ lf lf' ev out hls).2 hret⟩
        · simp only [hij, if_false]; exact ⟨lf, hl, hret⟩
      · cases h
    · cases h
  | readerQuit =>
    simp only [step] at h
    split at h
    · cases h; exact ⟨lf, hl, hret⟩
    · cases h

private theorem returned_run (cfg : Cfg) (s : Sys) (sched : List Ev) (l : Nat)
    (hr : ∃ lf, s.lives[l]? = some lf ∧ lf.close = CPc.returned) :
    ∃ lf, (run cfg s sched).lives[l]? = some lf ∧ lf.close = CPc.returned := by
  induction sched generalizing s with
  | nil => exact hr
  | cons e rest ih =>
    simp only [run]
    split
    · rename_i s' hs; exact ih s' (returned_step cfg s s' e l hs hr)
    · exact ih s hr

private theorem closingAt_closing (s : Sys) (l : Nat) (h : closingAt s l) : closing s := by
  obtain ⟨hlen, lf, hl, hin⟩ := h
  refine ⟨lf, ?_, hin⟩
  rw [lastLife, hlen]; exact hl

/-- a step taken while the Close of lifecycle `l` is in progress leaves it in progress or returned -/
private theorem closingAt_step (cfg : Cfg) (s s' : Sys) (e : Ev) (l : Nat) (hc : closingAt s l)
    (h : step cfg s e = some s') :
    closingAt s' l ∨ ∃ lf, s'.lives[l]? = some lf ∧ lf.close = CPc.returned := by
  have hno := closing_no_app cfg s (closingAt_closing s l hc)
  obtain ⟨hlen, lf, hl, hin⟩ := hc
  cases e with
  | init => rw [(hno [] []).1] at h; cases h
  | send k v => rw [(hno k v).2.1] at h; cases h
  | closeCall => rw [(hno [] []).2.2] at h; cases h
  | life l' ev =>
    simp only [step] at h
    split at h
    · rename_i lf0 hl0
      split at h
      · rename_i lf' out hls
        cases h
        have hlen' : (toReader { s with lives := s.lives.set l' lf' } out).lives.length = l + 1 := by
          rw [toReader_lives]; simpa using hlen
        have hget : (toReader { s with lives := s.lives.set l' lf' } out).lives[l]? = if l' = l then some lf' else s.lives[l]? := by
          rw [toReader_lives]; exact getElem?_set_some' lf' hl0 l
        by_cases hij : l' = l
        · subst hij
          rw [hl] at hl0; cases hl0
          simp only [if_true] at hget
          rcases (lifeStep_close cfg _ lf lf' ev out hls).1 hin with h1 | h1
          · exact Or.inl ⟨hlen', lf', hget, h1⟩
          · exact Or.inr ⟨lf', hget, h1⟩
        · simp only [hij, if_false] at hget
          exact Or.inl ⟨hlen', lf, by rw [hget]; exact hl, hin⟩
      · cases h
    · cases h
  | readerQuit =>
    simp only [step] at h
    split at h
    · cases h; exact Or.inl ⟨hlen, lf, hl, hin⟩
    · cases h

/-- **Close returns within `M` steps, in every interleaving**: start in any state in which the Close of
    lifecycle `l` is in progress and run ANY schedule; as long as that Close has not returned, the
    number of steps taken so far plus the work left is bounded by the work at the start. -/
theorem close_bounded (cfg : Cfg) (hgo : cfg.blockingForward = false) (s : Sys) (sched : List Ev) (l : Nat)
    (h0 : closingAt s l) (h1 : closingAt (run cfg s sched) l) :
    effSteps cfg s sched + M (run cfg s sched) ≤ M s := by
  induction sched generalizing s with
  | nil => simp [effSteps, run]
  | cons e rest ih =>
    simp only [run, effSteps] at h1 ⊢
    cases hs : step cfg s e with
    | none =>
      simp only [hs] at h1 ⊢
      exact ih s h0 h1
    | some s' =>
      simp only [hs] at h1 ⊢
      have hdec := close_step_decreases cfg hgo s s' e (closingAt_closing s l h0) hs
      rcases closingAt_step cfg s s' e l h0 hs with hc | hr
      · have := ih s' hc h1
        omega
      · exfalso
        obtain ⟨lf, hl, hret⟩ := returned_run cfg s' rest l hr
        obtain ⟨_, lf2, hl2, hin⟩ := h1
        rw [hl] at hl2; cases hl2
        rw [inClose, hret] at hin; cases hin

/-- … so a schedule with more than `M s` effective steps cannot leave that Close in progress -/
theorem close_returns_within (cfg : Cfg) (hgo : cfg.blockingForward = false) (s : Sys) (sched : List Ev) (l : Nat)
    (h0 : closingAt s l) (hlong : M s < effSteps cfg s sched) : ¬ closingAt (run cfg s sched) l := by
  intro h1
  have := close_bounded cfg hgo s sched l h0 h1
  omega

/-! ### non-vacuity -/

private def ma : KMsg := ⟨"t", [1], [10]⟩
private def mb : KMsg := ⟨"t", [2], [20]⟩
private def mc : KMsg := ⟨"t", [3], [30]⟩

/-- two lifecycles on Go's driver. Lifecycle 1: one message acknowledged, one rejected during the final
    flush (Close's range loop takes the event); the forwarder hands the nil end marker to the reader, which
    stops. Lifecycle 2: the message is rejected, its forwarder takes the event and — the reader is gone —
    drops it (`default:`); Close returns all the same. -/
private def twoLifecycles : List Ev :=
  [.init, .send [1] [10], .send [2] [20], .closeCall, .life 0 (.deliver ma 0), .life 0 (.failToClose mb), .life 0 .errorsClosed,
   .life 0 .fwdSeesEnd, .life 0 .fwdForward, .life 0 .closeSeesEnd, .life 0 .closeQ,
   .init, .send [3] [30], .closeCall, .life 1 (.failToFwd mc), .life 1 .fwdForward, .life 1 .fwdDrop, .life 1 .errorsClosed,
   .life 1 .closeSeesEnd, .life 1 .closeQ, .life 1 .fwdQuit]

example :
    let s := run (goCfg false 1) (initSys "t") twoLifecycles
    (s.lives.map (·.close)) = [CPc.returned, CPc.returned] ∧
    (s.lives.map (·.input)) = [[ma, mb], [mc]] ∧
    (s.lives.map (·.delivered)) = [[(ma, 0)], []] ∧
    (s.lives.map (·.reported)) = [[mb], [mc]] ∧
    (s.lives.map (·.pending)) = [[], []] ∧
    s.reader = Reader.stopped ∧ s.readerGot = [none] ∧
    effSteps (goCfg false 1) (initSys "t") twoLifecycles = 20 := by decide

/-- the hypotheses of `close_forwards_nonblocking` / `close_bounded` are satisfiable: Close in progress with
    two messages in flight and a reader that has already gone; the work left is `M = 9` -/
example :
    let s := run (goCfg false 1) (initSys "t") [.init, .send [1] [10], .send [2] [20], .readerQuit, .closeCall]
    closingAt s 0 ∧ closing s ∧ M s = 9 := by
  intro s
  refine ⟨⟨by decide, ⟨[ma, mb], [ma, mb], [], [], [], false, false, .waiting, .draining⟩, by decide, by decide⟩,
    ⟨⟨[ma, mb], [ma, mb], [], [], [], false, false, .waiting, .draining⟩, by decide, by decide⟩, by decide⟩

/-- the hypothesis of `lifecycle_outcome_contract` (no rejection) is satisfiable, with hashing -/
example :
    let s := run (goCfg true 4) (initSys "t")
      [.init, .send [1] [10], .closeCall, .life 0 (.deliver ma 7), .life 0 .errorsClosed, .life 0 .closeSeesEnd, .life 0 .closeQ]
    (s.lives.map (·.close)) = [CPc.returned] ∧ (s.lives.map (·.reported)) = [[]] ∧
    (s.lives.map (·.delivered)) = [[(ma, hashPartition [1] 4)]] := by decide

/-- the contract hypothesis of `every_lifecycle_flushed_contract` is satisfiable for every driver state -/
example (d : Driver) :
    ∃ o : Nat → Outcome, ∀ (i : Nat) (p : St), (producers d)[i]? = some p → p.closed = true → ContractF false 1 p.input (o i) := by
  refine ⟨fun i => match (producers d)[i]? with
    | some p => ⟨p.input.map (fun m => (m, 0)), []⟩
    | none => ⟨[], []⟩, ?_⟩
  intro i p hp _
  simp only [hp]
  refine ⟨?_, fun h => by cases h⟩
  simp [Function.comp_def]

end Goflow.C20Faults
