import Goflow.Spec.Sflow
import Proofs.C04
import Proofs.Lemmas.Bytes
import Proofs.Lemmas.Fields
/-!
  C04 — whole-datagram round trip of the sFlow v5 decoder model:
  `decodeMessageVersion (encode d) = .ok (expected d)` for every well-formed abstract datagram.
  Layers: words / fixed layouts / strings / addresses → flow and counter records → record loop →
  samples → sample loop → datagram.
-/
set_option linter.unusedSimpArgs false
namespace Goflow.C04
open Goflow Goflow.Sflow Goflow.Spec.Sflow

/-! ### well-formedness of the abstract datagram -/

/-- every value of the list is a 32-bit quantity -/
def AllU32 (vs : List Nat) : Prop := ∀ v ∈ vs, v < 2 ^ 32

/-- an address is an IPv4 (4 bytes) or an IPv6 (16 bytes) address -/
def AddrWF (ip : Bytes) : Prop := ip.length = 4 ∨ ip.length = 16

def knownFlowFormats : List Nat := [1, 2, 3, 4, 1001, 1002, 1003, 1036, 1037, 1038]

/-- the fields of a flow record fit their wire representation -/
def RecordFieldsWF : SRecord → Prop
  | .rawHeader p fl st h => p < 2 ^ 32 ∧ fl < 2 ^ 32 ∧ st < 2 ^ 32 ∧ h.length < 2 ^ 32
  | .ethernet l s d t => l < 2 ^ 32 ∧ s.length = 6 ∧ d.length = 6 ∧ t < 2 ^ 32
  | .ipv4 l p s d sp dp f t =>
    l < 2 ^ 32 ∧ p < 2 ^ 32 ∧ s.length = 4 ∧ d.length = 4 ∧ sp < 2 ^ 32 ∧ dp < 2 ^ 32 ∧ f < 2 ^ 32 ∧ t < 2 ^ 32
  | .ipv6 l p s d sp dp f t =>
    l < 2 ^ 32 ∧ p < 2 ^ 32 ∧ s.length = 16 ∧ d.length = 16 ∧ sp < 2 ^ 32 ∧ dp < 2 ^ 32 ∧ f < 2 ^ 32 ∧ t < 2 ^ 32
  | .extSwitch a b c d => a < 2 ^ 32 ∧ b < 2 ^ 32 ∧ c < 2 ^ 32 ∧ d < 2 ^ 32
  | .extRouter nh s d => AddrWF nh ∧ s < 2 ^ 32 ∧ d < 2 ^ 32
  | .extGateway nh a sa spa path comm lp =>
    AddrWF nh ∧ a < 2 ^ 32 ∧ sa < 2 ^ 32 ∧ spa < 2 ^ 32 ∧
    (match path with
     | none => True
     | some (t, asns) => t < 2 ^ 32 ∧ asns.length ≤ 1000 ∧ AllU32 asns) ∧
    comm.length ≤ 1000 ∧ AllU32 comm ∧ lp < 2 ^ 32
  | .egressQueue q => q < 2 ^ 32
  | .acl n name d => n < 2 ^ 32 ∧ name.length < 2 ^ 32 ∧ d < 2 ^ 32
  | .function s => s.length < 2 ^ 32
  | .unknown f d => f < 2 ^ 32 ∧ f ∉ knownFlowFormats ∧ d.length < 2 ^ 32

/-- a flow record: its fields fit and its encoded length is a 32-bit quantity -/
def RecordWF (r : SRecord) : Prop := RecordFieldsWF r ∧ (recBody r).length < 2 ^ 32

/-- the fields of a counter record fit their wire representation -/
def CRecordFieldsWF : SCRecord → Prop
  | .ifc vs => vs.length = 19 ∧ Fits ifCountersW vs
  | .eth vs => vs.length = 13 ∧ AllU32 vs
  | .unknown f d => f < 2 ^ 32 ∧ f ≠ 1 ∧ f ≠ 2 ∧ d.length < 2 ^ 32

def CRecordWF (r : SCRecord) : Prop := CRecordFieldsWF r ∧ (crecBody r).length < 2 ^ 32

def SampleFieldsWF : SSample → Prop
  | .flow seq st sv vals recs =>
    seq < 2 ^ 32 ∧ st < 2 ^ 8 ∧ sv < 2 ^ 24 ∧ vals.length = 5 ∧ AllU32 vals ∧
    recs.length ≤ 1000 ∧ ∀ r ∈ recs, RecordWF r
  | .expFlow seq st sv vals recs =>
    seq < 2 ^ 32 ∧ st < 2 ^ 32 ∧ sv < 2 ^ 32 ∧ vals.length = 7 ∧ AllU32 vals ∧
    recs.length ≤ 1000 ∧ ∀ r ∈ recs, RecordWF r
  | .counter seq st sv recs =>
    seq < 2 ^ 32 ∧ st < 2 ^ 8 ∧ sv < 2 ^ 24 ∧ recs.length ≤ 1000 ∧ ∀ r ∈ recs, CRecordWF r
  | .expCounter seq st sv recs =>
    seq < 2 ^ 32 ∧ st < 2 ^ 32 ∧ sv < 2 ^ 32 ∧ recs.length ≤ 1000 ∧ ∀ r ∈ recs, CRecordWF r
  | .drop seq st sv vals recs =>
    seq < 2 ^ 32 ∧ st < 2 ^ 32 ∧ sv < 2 ^ 32 ∧ vals.length = 4 ∧ AllU32 vals ∧
    recs.length ≤ 1000 ∧ ∀ r ∈ recs, RecordWF r

def SampleWF (s : SSample) : Prop := SampleFieldsWF s ∧ (sampleBody s).length < 2 ^ 32

/-- well-formedness of an abstract datagram -/
def DatagramWF (d : Datagram) : Prop :=
  AddrWF d.agent ∧ d.subAgent < 2 ^ 32 ∧ d.seq < 2 ^ 32 ∧ d.uptime < 2 ^ 32 ∧
  d.samples.length ≤ 1000 ∧ ∀ s ∈ d.samples, SampleWF s

/-! ### words, strings, addresses -/

theorem u32_length (v : Nat) : (u32 v).length = 4 := by simp [u32]

theorem readU_u32 {v : Nat} (r : Bytes) (h : v < 2 ^ 32) : readU 4 (u32 v ++ r) = .ok (v, r) := by
  unfold u32; exact readU_enc r (by simpa using h)

theorem readU_u32' {v : Nat} (h : v < 2 ^ 32) : readU 4 (u32 v) = .ok (v, []) := by
  have := readU_u32 [] h
  simpa using this

theorem words_nil : words [] = [] := rfl
theorem words_cons (v : Nat) (vs : List Nat) : words (v :: vs) = u32 v ++ words vs := by
  simp [words]
theorem words_append (xs ys : List Nat) : words (xs ++ ys) = words xs ++ words ys := by
  simp [words]
theorem words_length (vs : List Nat) : (words vs).length = 4 * vs.length := by
  induction vs with
  | nil => rfl
  | cons v vs ih => rw [words_cons, List.length_append, u32_length, ih, List.length_cons]; omega

theorem AllU32.cons {v : Nat} {vs : List Nat} (h : AllU32 (v :: vs)) : v < 2 ^ 32 ∧ AllU32 vs :=
  ⟨h v (by simp), fun w hw => h w (by simp [hw])⟩

theorem AllU32.append {xs ys : List Nat} (hx : AllU32 xs) (hy : AllU32 ys) : AllU32 (xs ++ ys) := by
  intro v hv
  rcases List.mem_append.mp hv with h | h
  · exact hx v h
  · exact hy v h

theorem AllU32.single {v : Nat} (h : v < 2 ^ 32) : AllU32 [v] := by
  intro w hw; simp at hw; omega

/-- a run of 32-bit fields read by one BinaryDecoder call -/
theorem readFields_words (vs : List Nat) (ws : List Nat) (r : Bytes)
    (hw : ws = List.replicate vs.length 4) (h : AllU32 vs) :
    readFields ws (words vs ++ r) = .ok (vs, r) := by
  induction vs generalizing ws with
  | nil => subst hw; simp [readFields, words]
  | cons v vs ih =>
    subst hw
    obtain ⟨hv, hvs⟩ := h.cons
    simp only [List.length_cons, List.replicate_succ, readFields, words_cons, List.append_assoc]
    rw [readU_u32 _ hv]
    simp only
    rw [ih _ rfl hvs]

/-- a slice of 32-bit words (AS path, communities) -/
theorem readWords_words (vs : List Nat) (r : Bytes) (h : AllU32 vs) :
    readWords 4 vs.length (words vs ++ r) = .ok (vs, r) := by
  induction vs with
  | nil => simp [readWords, words]
  | cons v vs ih =>
    obtain ⟨hv, hvs⟩ := h.cons
    simp only [List.length_cons, readWords, words_cons, List.append_assoc]
    rw [readU_u32 _ hv]
    simp only
    rw [ih hvs]

theorem readCapped_words (vs : List Nat) (r : Bytes) (hl : vs.length ≤ 1000) (h : AllU32 vs)
    (hr : 4 ≤ r.length) : readCapped vs.length (words vs ++ r) = .ok (vs, r) := by
  unfold readCapped
  have h1 : ¬ vs.length > 1000 := by omega
  have h2 : ¬ vs.length + 4 > (words vs ++ r).length := by
    rw [List.length_append, words_length]; omega
  rw [if_neg h1, if_neg h2]
  exact readWords_words vs r h

theorem takeN_exact {n : Nat} (x : Bytes) (h : x.length = n) : takeN n x = .ok (x, []) := by
  have := takeN_append x [] h
  simpa using this

theorem readString_exact (d : Bytes) (h : d.length < 2 ^ 32) :
    readString (xdrOpaque d) = .ok (d, []) := by
  have := xdrString_roundtrip d [] h
  simpa using this

theorem pad_length (n : Nat) : (pad n).length = padLen n := by simp [pad]

theorem xdrOpaque_length (d : Bytes) : (xdrOpaque d).length = 4 + d.length + padLen d.length := by
  simp [xdrOpaque, u32_length, pad_length]; omega

theorem xdrAddr_length (ip : Bytes) : (xdrAddr ip).length = 4 + ip.length := by
  simp [xdrAddr, u32_length]


/-! ### flow records -/

theorem rawHeader_roundtrip (p fl st : Nat) (h : Bytes)
    (hw : RecordFieldsWF (.rawHeader p fl st h)) (len : Nat) :
    decodeFlowRecord 1 len (recBody (.rawHeader p fl st h)) =
      .ok ⟨1, len, expData (.rawHeader p fl st h)⟩ := by
  obtain ⟨h1, h2, h3, h4⟩ := hw
  have hb : recBody (.rawHeader p fl st h) = words [p, fl, st, h.length] ++ (h ++ pad h.length) := by
    simp [recBody, xdrOpaque, words]
  have hall : AllU32 [p, fl, st, h.length] := by
    intro v hv; simp at hv; rcases hv with rfl | rfl | rfl | rfl <;> assumption
  rw [hb]
  unfold decodeFlowRecord
  rw [if_pos rfl, readFields_words _ [4, 4, 4, 4] _ rfl hall]
  rfl


theorem ethernet_roundtrip (l : Nat) (s d : Bytes) (t : Nat)
    (hw : RecordFieldsWF (.ethernet l s d t)) (len : Nat) :
    decodeFlowRecord 2 len (recBody (.ethernet l s d t)) =
      .ok ⟨2, len, expData (.ethernet l s d t)⟩ := by
  obtain ⟨h1, h2, h3, h4⟩ := hw
  unfold decodeFlowRecord
  rw [if_neg (by decide), if_neg (by decide), if_neg (by decide), if_neg (by decide), if_neg (by decide)]
  rw [show layoutOf 2 = some [.u 4, .b 6, .b 6, .u 4] from rfl]
  simp only [recBody, List.append_assoc, readItems, readU_u32 _ h1, takeN_append _ _ h2, takeN_append _ _ h3, readU_u32' h4]
  rfl


theorem ipv4_roundtrip (l p : Nat) (s d : Bytes) (sp dp f t : Nat)
    (hw : RecordFieldsWF (.ipv4 l p s d sp dp f t)) (len : Nat) :
    decodeFlowRecord 3 len (recBody (.ipv4 l p s d sp dp f t)) =
      .ok ⟨3, len, expData (.ipv4 l p s d sp dp f t)⟩ := by
  obtain ⟨h1, h2, h3, h4, h5, h6, h7, h8⟩ := hw
  unfold decodeFlowRecord
  rw [if_neg (by decide), if_neg (by decide), if_neg (by decide), if_neg (by decide), if_neg (by decide)]
  rw [show layoutOf 3 = some [.u 4, .u 4, .b 4, .b 4, .u 4, .u 4, .u 4, .u 4] from rfl]
  simp only [recBody, List.append_assoc, readItems, readU_u32 _ h1, readU_u32 _ h2,
    takeN_append _ _ h3, takeN_append _ _ h4, readU_u32 _ h5, readU_u32 _ h6, readU_u32 _ h7,
    readU_u32' h8]
  rfl

theorem ipv6_roundtrip (l p : Nat) (s d : Bytes) (sp dp f t : Nat)
    (hw : RecordFieldsWF (.ipv6 l p s d sp dp f t)) (len : Nat) :
    decodeFlowRecord 4 len (recBody (.ipv6 l p s d sp dp f t)) =
      .ok ⟨4, len, expData (.ipv6 l p s d sp dp f t)⟩ := by
  obtain ⟨h1, h2, h3, h4, h5, h6, h7, h8⟩ := hw
  unfold decodeFlowRecord
  rw [if_neg (by decide), if_neg (by decide), if_neg (by decide), if_neg (by decide), if_neg (by decide)]
  rw [show layoutOf 4 = some [.u 4, .u 4, .b 16, .b 16, .u 4, .u 4, .u 4, .u 4] from rfl]
  simp only [recBody, List.append_assoc, readItems, readU_u32 _ h1, readU_u32 _ h2,
    takeN_append _ _ h3, takeN_append _ _ h4, readU_u32 _ h5, readU_u32 _ h6, readU_u32 _ h7,
    readU_u32' h8]
  rfl

theorem extSwitch_roundtrip (a b c d : Nat)
    (hw : RecordFieldsWF (.extSwitch a b c d)) (len : Nat) :
    decodeFlowRecord 1001 len (recBody (.extSwitch a b c d)) =
      .ok ⟨1001, len, expData (.extSwitch a b c d)⟩ := by
  obtain ⟨h1, h2, h3, h4⟩ := hw
  unfold decodeFlowRecord
  rw [if_neg (by decide), if_neg (by decide), if_neg (by decide), if_neg (by decide), if_neg (by decide)]
  rw [show layoutOf 1001 = some [.u 4, .u 4, .u 4, .u 4] from rfl]
  simp only [recBody, List.append_assoc, readItems, readU_u32 _ h1, readU_u32 _ h2, readU_u32 _ h3,
    readU_u32' h4]
  rfl

theorem egressQueue_roundtrip (q : Nat) (hw : RecordFieldsWF (.egressQueue q)) (len : Nat) :
    decodeFlowRecord 1036 len (recBody (.egressQueue q)) =
      .ok ⟨1036, len, expData (.egressQueue q)⟩ := by
  have h1 : q < 2 ^ 32 := hw
  unfold decodeFlowRecord
  rw [if_neg (by decide), if_neg (by decide), if_neg (by decide), if_neg (by decide), if_neg (by decide)]
  rw [show layoutOf 1036 = some [.u 4] from rfl]
  simp only [recBody, readItems, readU_u32' h1]
  rfl

theorem readFields2_u32 {a b : Nat} (r : Bytes) (ha : a < 2 ^ 32) (hb : b < 2 ^ 32) :
    readFields [4, 4] (u32 a ++ (u32 b ++ r)) = .ok ([a, b], r) := by
  simp only [readFields, readU_u32 _ ha, readU_u32 _ hb]

theorem readFields2_u32' {a b : Nat} (ha : a < 2 ^ 32) (hb : b < 2 ^ 32) :
    readFields [4, 4] (u32 a ++ u32 b) = .ok ([a, b], []) := by
  simp only [readFields, readU_u32 _ ha, readU_u32' hb]

theorem extRouter_roundtrip (nh : Bytes) (s d : Nat)
    (hw : RecordFieldsWF (.extRouter nh s d)) (len : Nat) :
    decodeFlowRecord 1002 len (recBody (.extRouter nh s d)) =
      .ok ⟨1002, len, expData (.extRouter nh s d)⟩ := by
  obtain ⟨h1, h2, h3⟩ := hw
  unfold decodeFlowRecord
  rw [if_neg (by decide), if_pos rfl]
  simp only [recBody, List.append_assoc]
  rw [ip_roundtrip _ _ h1]
  simp only
  rw [readFields2_u32' h2 h3]
  rfl

theorem acl_roundtrip (n : Nat) (name : Bytes) (d : Nat)
    (hw : RecordFieldsWF (.acl n name d)) (len : Nat) :
    decodeFlowRecord 1037 len (recBody (.acl n name d)) =
      .ok ⟨1037, len, expData (.acl n name d)⟩ := by
  obtain ⟨h1, h2, h3⟩ := hw
  unfold decodeFlowRecord
  rw [if_neg (by decide), if_neg (by decide), if_neg (by decide), if_pos rfl]
  simp only [recBody, List.append_assoc]
  rw [readU_u32 _ h1]
  simp only
  rw [xdrString_roundtrip _ _ h2]
  simp only
  rw [readU_u32' h3]
  rfl

theorem function_roundtrip (s : Bytes) (hw : RecordFieldsWF (.function s)) (len : Nat) :
    decodeFlowRecord 1038 len (recBody (.function s)) =
      .ok ⟨1038, len, expData (.function s)⟩ := by
  have h1 : s.length < 2 ^ 32 := hw
  unfold decodeFlowRecord
  rw [if_neg (by decide), if_neg (by decide), if_neg (by decide), if_neg (by decide), if_pos rfl]
  simp only [recBody]
  rw [readString_exact _ h1]
  rfl

theorem unknown_roundtrip (f : Nat) (d : Bytes) (hw : RecordFieldsWF (.unknown f d)) (len : Nat) :
    decodeFlowRecord f len (recBody (.unknown f d)) = .ok ⟨f, len, expData (.unknown f d)⟩ := by
  obtain ⟨_, h2, _⟩ := hw
  exact unknown_flow_record f len d h2


theorem readFields4_u32 {a b c d : Nat} (r : Bytes) (ha : a < 2 ^ 32) (hb : b < 2 ^ 32)
    (hc : c < 2 ^ 32) (hd : d < 2 ^ 32) :
    readFields [4, 4, 4, 4] (u32 a ++ (u32 b ++ (u32 c ++ (u32 d ++ r)))) = .ok ([a, b, c, d], r) := by
  simp only [readFields, readU_u32 _ ha, readU_u32 _ hb, readU_u32 _ hc, readU_u32 _ hd]

theorem extGateway_roundtrip (nh : Bytes) (a sa spa : Nat) (path : Option (Nat × List Nat))
    (comm : List Nat) (lp : Nat)
    (hw : RecordFieldsWF (.extGateway nh a sa spa path comm lp)) (len : Nat) :
    decodeFlowRecord 1003 len (recBody (.extGateway nh a sa spa path comm lp)) =
      .ok ⟨1003, len, expData (.extGateway nh a sa spa path comm lp)⟩ := by
  obtain ⟨h1, h2, h3, h4, h5, h6, h7, h8⟩ := hw
  unfold decodeFlowRecord
  rw [if_neg (by decide), if_neg (by decide), if_pos rfl]
  cases path with
  | none =>
    simp only [recBody, List.append_assoc]
    rw [ip_roundtrip _ _ h1]
    simp only
    rw [readFields4_u32 _ h2 h3 h4 (by decide)]
    simp only [List.getD_cons_succ, List.getD_cons_zero, ne_eq, not_true_eq_false, if_false]
    rw [readU_u32 _ (show comm.length < 2 ^ 32 by omega)]
    simp only
    rw [readCapped_words _ _ h6 h7 (by rw [u32_length]; omega)]
    simp only
    rw [readU_u32' h8]
    rfl
  | some p =>
    obtain ⟨t, asns⟩ := p
    obtain ⟨h51, h52, h53⟩ := h5
    simp only [recBody, List.append_assoc]
    rw [ip_roundtrip _ _ h1]
    simp only
    rw [readFields4_u32 _ h2 h3 h4 (by decide)]
    simp only [List.getD_cons_succ, List.getD_cons_zero, ne_eq]
    rw [if_pos (by decide)]
    rw [readFields2_u32 _ h51 (by omega)]
    simp only
    rw [readCapped_words _ _ h52 h53 (by rw [List.length_append, u32_length]; omega)]
    simp only
    rw [readU_u32 _ (show comm.length < 2 ^ 32 by omega)]
    simp only
    rw [readCapped_words _ _ h6 h7 (by rw [u32_length]; omega)]
    simp only
    rw [readU_u32' h8]
    rfl


/-- every flow record decodes to the expected record when handed exactly its body -/
theorem flowRecord_roundtrip (r : SRecord) (hw : RecordFieldsWF r) :
    decodeFlowRecord (recFormat r) (recBody r).length (recBody r) = .ok (expRecord r) := by
  cases r with
  | rawHeader p fl st h => exact rawHeader_roundtrip p fl st h hw _
  | ethernet l s d t => exact ethernet_roundtrip l s d t hw _
  | ipv4 l p s d sp dp f t => exact ipv4_roundtrip l p s d sp dp f t hw _
  | ipv6 l p s d sp dp f t => exact ipv6_roundtrip l p s d sp dp f t hw _
  | extSwitch a b c d => exact extSwitch_roundtrip a b c d hw _
  | extRouter nh s d => exact extRouter_roundtrip nh s d hw _
  | extGateway nh a sa spa path comm lp => exact extGateway_roundtrip nh a sa spa path comm lp hw _
  | egressQueue q => exact egressQueue_roundtrip q hw _
  | acl n name d => exact acl_roundtrip n name d hw _
  | function s => exact function_roundtrip s hw _
  | unknown f d => exact unknown_roundtrip f d hw _

theorem recFormat_lt (r : SRecord) (hw : RecordFieldsWF r) : recFormat r < 2 ^ 32 := by
  cases r <;> first | (simp only [recFormat]; decide) | exact hw.1

/-! ### counter records -/

theorem fits_of_allU32 (vs : List Nat) (h : AllU32 vs) : Fits (List.replicate vs.length 4) vs := by
  induction vs with
  | nil => simp [Fits]
  | cons v vs ih =>
    obtain ⟨hv, hvs⟩ := h.cons
    simp only [List.length_cons, List.replicate_succ, Fits]
    exact ⟨by simpa using hv, ih hvs⟩

theorem readFields_exact (ws vs : List Nat) (h : Fits ws vs) :
    readFields ws (encFields ws vs) = .ok (vs, []) := by
  have := readFields_enc ws vs [] h
  simpa using this

theorem counterRecord_roundtrip (r : SCRecord) (hw : CRecordFieldsWF r) :
    decodeCounterRecord (crecFormat r) (crecBody r).length (crecBody r) = .ok (expCRecord r) := by
  cases r with
  | ifc vs =>
    obtain ⟨_, hf⟩ := hw
    show decodeCounterRecord 1 _ (encFields ifCountersW vs) = _
    unfold decodeCounterRecord
    rw [if_pos rfl, readFields_exact _ _ hf]
    rfl
  | eth vs =>
    obtain ⟨hl, ha⟩ := hw
    have hf : Fits ethCountersW vs := by
      have := fits_of_allU32 vs ha
      rw [hl] at this
      exact this
    show decodeCounterRecord 2 _ (encFields ethCountersW vs) = _
    unfold decodeCounterRecord
    rw [if_neg (by decide), if_pos rfl, readFields_exact _ _ hf]
    rfl
  | unknown f d =>
    obtain ⟨_, h1, h2, _⟩ := hw
    show decodeCounterRecord f _ d = _
    unfold decodeCounterRecord
    rw [if_neg h1, if_neg h2]
    rfl

theorem crecFormat_lt (r : SCRecord) (hw : CRecordFieldsWF r) : crecFormat r < 2 ^ 32 := by
  cases r <;> first | (simp only [crecFormat]; decide) | exact hw.1

/-! ### the record loop -/

theorem recordLoop_roundtrip {α β} (dec : Nat → Nat → Bytes → Res α) (fmt : β → Nat)
    (body : β → Bytes) (exp : β → α) (rs : List β)
    (h : ∀ r ∈ rs, fmt r < 2 ^ 32 ∧ (body r).length < 2 ^ 32 ∧
      dec (fmt r) (body r).length (body r) = .ok (exp r)) :
    recordLoop dec rs.length (rs.flatMap fun r => u32 (fmt r) ++ u32 (body r).length ++ body r) =
      .ok (rs.map exp) := by
  induction rs with
  | nil => simp [recordLoop]
  | cons r rs ih =>
    obtain ⟨h1, h2, h3⟩ := h r (by simp)
    have ih' := ih (fun q hq => h q (by simp [hq]))
    simp only [List.length_cons, List.flatMap_cons, List.map_cons]
    rw [unknown_record_skipped dec rs.length (fmt r) (body r) _ h1 h2 (exp r) h3, ih']

theorem flowRecords_roundtrip (rs : List SRecord) (h : ∀ r ∈ rs, RecordWF r) :
    recordLoop decodeFlowRecord rs.length (rs.flatMap encRecord) = .ok (rs.map expRecord) :=
  recordLoop_roundtrip decodeFlowRecord recFormat recBody expRecord rs fun r hr =>
    ⟨recFormat_lt r (h r hr).1, (h r hr).2, flowRecord_roundtrip r (h r hr).1⟩

theorem counterRecords_roundtrip (rs : List SCRecord) (h : ∀ r ∈ rs, CRecordWF r) :
    recordLoop decodeCounterRecord rs.length (rs.flatMap encCRecord) = .ok (rs.map expCRecord) :=
  recordLoop_roundtrip decodeCounterRecord crecFormat crecBody expCRecord rs fun r hr =>
    ⟨crecFormat_lt r (h r hr).1, (h r hr).2, counterRecord_roundtrip r (h r hr).1⟩

theorem padTo_full {α} (n : Nat) (z : α) (xs : List α) (h : xs.length = n) : padTo n z xs = xs := by
  simp [padTo, h]

theorem words_snoc (vs : List Nat) (n : Nat) : words (vs ++ [n]) = words vs ++ u32 n := by
  rw [words_append, words_cons, words_nil, List.append_nil]

theorem getD_snoc (vs : List Nat) (n d : Nat) : (vs ++ [n]).getD vs.length d = n := by
  simp [List.getD]

/-! ### samples -/

theorem flowSample_roundtrip (seq st sv : Nat) (vals : List Nat) (recs : List SRecord)
    (hw : SampleFieldsWF (.flow seq st sv vals recs)) (len : Nat) :
    decodeSample 1 len (sampleBody (.flow seq st sv vals recs)) =
      .ok (.flow ⟨1, len, seq, st, sv⟩ (vals ++ [recs.length]) (recs.map expRecord)) := by
  obtain ⟨h1, h2, h3, h4, h5, h6, h7⟩ := hw
  unfold decodeSample
  simp only [sampleBody, List.append_assoc]
  rw [readU_u32 _ h1]
  simp only [true_or, ↓reduceIte]
  have hsid : st * 2 ^ 24 + sv < 2 ^ 32 := by omega
  have hdiv : (st * 2 ^ 24 + sv) / 2 ^ 24 = st := by omega
  have hmod : (st * 2 ^ 24 + sv) % 2 ^ 24 = sv := by omega
  rw [readU_u32 _ hsid]
  simp only
  rw [hdiv, hmod, ← List.append_assoc (words vals), ← words_snoc]
  rw [readFields_words (vals ++ [recs.length]) [4, 4, 4, 4, 4, 4] _ (by simp [h4])
    (h5.append (AllU32.single (by omega)))]
  simp only
  have hget : (vals ++ [recs.length]).getD 5 0 = recs.length := by
    rw [← h4]; exact getD_snoc _ _ _
  rw [hget, if_neg (by omega), flowRecords_roundtrip recs h7]
  simp only
  rw [padTo_full _ _ _ (by simp)]


theorem expFlowSample_roundtrip (seq st sv : Nat) (vals : List Nat) (recs : List SRecord)
    (hw : SampleFieldsWF (.expFlow seq st sv vals recs)) (len : Nat) :
    decodeSample 3 len (sampleBody (.expFlow seq st sv vals recs)) =
      .ok (.expFlow ⟨3, len, seq, st, sv⟩ (vals ++ [recs.length]) (recs.map expRecord)) := by
  obtain ⟨h1, h2, h3, h4, h5, h6, h7⟩ := hw
  unfold decodeSample
  simp only [sampleBody, List.append_assoc]
  rw [readU_u32 _ h1]
  simp only [true_or, or_true, ↓reduceIte, Nat.reduceEqDiff, false_or, or_false]
  rw [readFields2_u32 _ h2 h3]
  simp only
  rw [← List.append_assoc (words vals), ← words_snoc]
  rw [readFields_words (vals ++ [recs.length]) [4, 4, 4, 4, 4, 4, 4, 4] _ (by simp [h4])
    (h5.append (AllU32.single (by omega)))]
  simp only
  have hget : (vals ++ [recs.length]).getD 7 0 = recs.length := by
    rw [← h4]; exact getD_snoc _ _ _
  rw [hget, if_neg (by omega), flowRecords_roundtrip recs h7]
  simp only
  rw [padTo_full _ _ _ (by simp)]


theorem dropSample_roundtrip (seq st sv : Nat) (vals : List Nat) (recs : List SRecord)
    (hw : SampleFieldsWF (.drop seq st sv vals recs)) (len : Nat) :
    decodeSample 5 len (sampleBody (.drop seq st sv vals recs)) =
      .ok (.drop ⟨5, len, seq, st, sv⟩ (vals ++ [recs.length]) (recs.map expRecord)) := by
  obtain ⟨h1, h2, h3, h4, h5, h6, h7⟩ := hw
  unfold decodeSample
  simp only [sampleBody, List.append_assoc]
  rw [readU_u32 _ h1]
  simp only [true_or, or_true, ↓reduceIte, Nat.reduceEqDiff, false_or, or_false]
  rw [readFields2_u32 _ h2 h3]
  simp only
  rw [← List.append_assoc (words vals), ← words_snoc]
  rw [readFields_words (vals ++ [recs.length]) [4, 4, 4, 4, 4] _ (by simp [h4])
    (h5.append (AllU32.single (by omega)))]
  simp only
  have hget : (vals ++ [recs.length]).getD 4 0 = recs.length := by
    rw [← h4]; exact getD_snoc _ _ _
  rw [hget, if_neg (by omega), flowRecords_roundtrip recs h7]
  simp only
  rw [padTo_full _ _ _ (by simp)]

theorem counterSample_roundtrip (seq st sv : Nat) (recs : List SCRecord)
    (hw : SampleFieldsWF (.counter seq st sv recs)) (len : Nat) :
    decodeSample 2 len (sampleBody (.counter seq st sv recs)) =
      .ok (.counter ⟨2, len, seq, st, sv⟩ recs.length (recs.map expCRecord)) := by
  obtain ⟨h1, h2, h3, h6, h7⟩ := hw
  unfold decodeSample
  simp only [sampleBody, List.append_assoc]
  rw [readU_u32 _ h1]
  simp only [true_or, or_true, ↓reduceIte, Nat.reduceEqDiff, false_or, or_false]
  have hsid : st * 2 ^ 24 + sv < 2 ^ 32 := by omega
  have hdiv : (st * 2 ^ 24 + sv) / 2 ^ 24 = st := by omega
  have hmod : (st * 2 ^ 24 + sv) % 2 ^ 24 = sv := by omega
  rw [readU_u32 _ hsid]
  simp only
  rw [hdiv, hmod, readU_u32 _ (show recs.length < 2 ^ 32 by omega)]
  simp only
  rw [if_neg (by omega), counterRecords_roundtrip recs h7]
  simp only
  rw [padTo_full _ _ _ (by simp)]

theorem expCounterSample_roundtrip (seq st sv : Nat) (recs : List SCRecord)
    (hw : SampleFieldsWF (.expCounter seq st sv recs)) (len : Nat) :
    decodeSample 4 len (sampleBody (.expCounter seq st sv recs)) =
      .ok (.counter ⟨4, len, seq, st, sv⟩ recs.length (recs.map expCRecord)) := by
  obtain ⟨h1, h2, h3, h6, h7⟩ := hw
  unfold decodeSample
  simp only [sampleBody, List.append_assoc]
  rw [readU_u32 _ h1]
  simp only [true_or, or_true, ↓reduceIte, Nat.reduceEqDiff, false_or, or_false]
  rw [readFields2_u32 _ h2 h3]
  simp only
  rw [readU_u32 _ (show recs.length < 2 ^ 32 by omega)]
  simp only
  rw [if_neg (by omega), counterRecords_roundtrip recs h7]
  simp only
  rw [padTo_full _ _ _ (by simp)]

/-- every sample decodes to the expected sample when handed exactly its body -/
theorem sample_roundtrip (s : SSample) (hw : SampleFieldsWF s) :
    decodeSample (sampleFormat s) (sampleBody s).length (sampleBody s) = .ok (expSample s) := by
  cases s with
  | flow seq st sv vals recs => exact flowSample_roundtrip seq st sv vals recs hw _
  | expFlow seq st sv vals recs => exact expFlowSample_roundtrip seq st sv vals recs hw _
  | counter seq st sv recs => exact counterSample_roundtrip seq st sv recs hw _
  | expCounter seq st sv recs => exact expCounterSample_roundtrip seq st sv recs hw _
  | drop seq st sv vals recs => exact dropSample_roundtrip seq st sv vals recs hw _

theorem sampleFormat_lt (s : SSample) : sampleFormat s < 2 ^ 32 := by
  cases s <;> (simp only [sampleFormat]; decide)

/-! ### the sample loop and the datagram -/

theorem sampleLoop_step (n : Nat) (s : SSample) (rest : Bytes) (hw : SampleWF s) :
    sampleLoop (n + 1) (encSample s ++ rest) =
      match sampleLoop n rest with
      | .error e => .error e
      | .ok ss => .ok (expSample s :: ss) := by
  obtain ⟨hf, hl⟩ := hw
  conv => lhs; unfold sampleLoop
  have hlen : 8 ≤ (encSample s ++ rest).length := by
    simp [encSample, u32_length]; omega
  rw [if_pos hlen]
  simp only [encSample, List.append_assoc]
  rw [readFields2_u32 _ (sampleFormat_lt s) hl]
  simp only
  have hle : ¬ (sampleBody s).length > (sampleBody s ++ rest).length := by simp
  rw [if_neg hle]
  simp only [List.take_left', List.drop_left', sample_roundtrip s hf]
  rfl

theorem sampleLoop_roundtrip (ss : List SSample) (h : ∀ s ∈ ss, SampleWF s) :
    sampleLoop ss.length (ss.flatMap encSample) = .ok (ss.map expSample) := by
  induction ss with
  | nil => simp [sampleLoop]
  | cons s ss ih =>
    have ih' := ih (fun q hq => h q (by simp [hq]))
    simp only [List.length_cons, List.flatMap_cons, List.map_cons]
    rw [sampleLoop_step _ _ _ (h s (by simp)), ih']


theorem decodeMessage_roundtrip (d : Datagram) (h : DatagramWF d) :
    decodeMessage (xdrAddr d.agent ++ u32 d.subAgent ++ u32 d.seq ++ u32 d.uptime ++
      u32 d.samples.length ++ d.samples.flatMap encSample) = .ok (expected d) := by
  obtain ⟨h1, h2, h3, h4, h5, h6⟩ := h
  unfold decodeMessage
  simp only [xdrAddr, List.append_assoc]
  have hn : d.samples.length < 2 ^ 32 := by omega
  have hipv : (if d.agent.length = 4 then 1 else 2) < 2 ^ 32 := by split <;> decide
  have htake : (if (if d.agent.length = 4 then 1 else 2) = 1 then 4
      else if (if d.agent.length = 4 then 1 else 2) = 2 then 16 else 0) = d.agent.length := by
    rcases h1 with h | h <;> simp [h]
  have hne : ¬ d.agent.length = 0 := by rcases h1 with h | h <;> omega
  rw [readU_u32 _ hipv]
  simp only
  rw [htake, if_neg hne, takeN_append _ _ rfl]
  simp only
  rw [readFields4_u32 _ h2 h3 h4 hn]
  simp only [List.getD_cons_succ, List.getD_cons_zero]
  rw [if_neg (by omega), sampleLoop_roundtrip _ h6]
  simp only
  rw [padTo_full _ _ _ (by simp)]
  rfl

/-- **C04 round trip**: decoding the XDR encoding of a well-formed sFlow v5 datagram yields exactly
    the packet a correct collector must produce. -/
theorem roundtrip (d : Datagram) (h : DatagramWF d) :
    decodeMessageVersion (encode d) = .ok (expected d) := by
  unfold decodeMessageVersion encode
  simp only [List.append_assoc]
  rw [readU_u32 _ (by decide)]
  simp only [ne_eq, not_true_eq_false, if_false]
  have := decodeMessage_roundtrip d h
  simp only [List.append_assoc] at this
  exact this


/-! ### non-vacuity: a concrete well-formed datagram -/

/-- a datagram with a flow sample (raw header, extended gateway with an AS path, a record of an
    unknown format), a counter sample (interface and ethernet counters) and a drop sample -/
def exampleDatagram : Datagram :=
  { agent := [10, 0, 0, 1], subAgent := 0, seq := 7, uptime := 123456,
    samples :=
      [ .flow 1 0 3 [1000, 50000, 0, 3, 4]
          [ .rawHeader 1 64 4 [0xde, 0xad, 0xbe, 0xef, 0x01],
            .extGateway [192, 0, 2, 1] 65000 65001 65002 (some (2, [65010, 65020])) [100, 200] 100,
            .unknown 9999 [1, 2, 3, 4] ],
        .counter 2 0 3
          [ .ifc [3, 6, 10000000000, 1, 3, 123456789012, 10, 11, 12, 13, 14, 15, 987654321098, 20, 21, 22, 23, 24, 1],
            .eth [0, 1, 2, 3, 4, 5, 6, 7, 8, 9, 10, 11, 12] ],
        .drop 3 0 5 [1, 3, 4, 256]
          [ .ipv4 60 6 [10, 0, 0, 2] [10, 0, 0, 3] 443 51234 16 0 ] ] }

theorem exampleDatagram_wf : DatagramWF exampleDatagram := by
  simp [DatagramWF, exampleDatagram, SampleWF, SampleFieldsWF, RecordWF, RecordFieldsWF, CRecordWF,
    CRecordFieldsWF, AllU32, AddrWF, knownFlowFormats, Fits, ifCountersW, ethCountersW,
    sampleBody, encRecord, encCRecord, recBody, crecBody, recFormat, crecFormat, xdrOpaque, xdrAddr,
    words, pad, padLen, u32_length, encFields]

/-- the theorem applies to it -/
example : decodeMessageVersion (encode exampleDatagram) = .ok (expected exampleDatagram) :=
  roundtrip _ exampleDatagram_wf

end Goflow.C04
