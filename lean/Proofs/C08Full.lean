import Goflow.Spec.FieldTable
import Proofs.C08
/-!
  C08, the complete statement for NetFlow v9 / IPFIX: for every record the documentation speaks
  about (`RecordOK`), the producer's conversion — a fold over the fields in template order — equals the
  documented reference mapping `Spec.FieldTable.refRecord` — a column-by-column lookup by element id.

  Main results: `record_eq_ref` (ConvertNetFlowDataSet on one record), `convertFields_record_eq_ref`
  (the same for the field loop), `packet_eq_ref` (ProcessMessageNetFlowV9Config / …IPFIXConfig on a
  whole packet), `recordOK_of_check` (an executable checker for the domain).

  Proof: the reference depends on the record only through the lookup `val r` (`refRecord_eq`); every
  `case` of the switch, applied to the reference message of a record `p`, yields the reference message
  of `p ++ [element]` provided `p` carries no competitor of the element (`apply_cases`, one lemma per
  case); the theorem follows by induction on the record from the end (`convertFields_eq_ref`), the
  domain being closed under prefixes. Order independence is thus a consequence, not a separate lemma.
-/
namespace Goflow.C08
open Goflow Goflow.Producer Goflow.Spec.FieldTable

/-- the record as the decoder hands it to the producer -/
def toFields (r : Record) : List Netflow.DataField := r.map fun (id, v) => ⟨false, id, 0, some v⟩

/-- every element id that some `case` of the switch in ConvertNetFlowDataSet mentions (any version) -/
def interpreted : List Nat := caseTable.flatMap (·.2.1)

/-- documented elements that `groups` does not list, with their legal widths
    (addresses, ipVersion, separate ICMP type / code, MPLS label stack sections, the clocks of the version) -/
def extraElements (version : Nat) : List (Nat × List Nat) :=
  [(8, [4]), (12, [4]), (27, [16]), (28, [16]), (60, [1]),
   (176, [1, 2]), (178, [1, 2]), (177, [1, 2]), (179, [1, 2]),
   (70, [3, 4]), (71, [3, 4]), (72, [3, 4])] ++
  (if version = 9 then [(22, [4]), (21, [4])]
   else [(150, [4, 8]), (152, [8]), (154, [8]), (156, [8]), (158, [4, 8]),
         (151, [4, 8]), (153, [8]), (155, [8]), (157, [8]), (159, [4, 8]), (312, [1, 2, 4, 8])])

/-- all documented (element id, legal widths) of a version -/
def documented (version : Nat) : List (Nat × List Nat) := groups.flatMap (·.2) ++ extraElements version

/-- sets of element ids of which one record carries at most one -/
def exclusive : List (List Nat) :=
  groups.map (fun g => g.2.map (·.1)) ++            -- the alternatives for one output column (`groups`)
  [[8, 27], [12, 28],                               -- source / destination address: IPv4 or IPv6 …
   [8, 28], [12, 27],                               -- … and both of one family
   [60],
   [1, 23, 312], [2, 24, 312],                      -- 312 writes Bytes and Packets
   [32, 139, 176, 178], [32, 139, 177, 179],        -- ICMP type / code: combined or separate
   [70], [71], [72],
   [22], [21],                                      -- v9 clocks
   [150, 152, 154, 156, 158], [151, 153, 155, 157, 159]]  -- IPFIX flow start / flow end

/-- how many elements of the record have their id in `ids` -/
def count (r : Record) (ids : List Nat) : Nat := (r.filter fun e => ids.contains e.1).length

/-- the records the documentation speaks about (`Record` holds the non-enterprise elements only; the
    decoder hands them over with `penProvided = false`, see `toFields`) -/
def RecordOK (version : Nat) (r : Record) : Prop :=
  -- every element is a documented one at a legal width, or one that no case of the conversion mentions
  (∀ e ∈ r, (∃ ws, (e.1, ws) ∈ documented version ∧ e.2.length ∈ ws) ∨ e.1 ∉ interpreted) ∧
  -- at most one element per output column (and no element twice)
  (∀ g ∈ exclusive, count r g ≤ 1) ∧
  -- ipVersion (element 60) does not contradict the family of the addresses
  (∀ x rest, val r 60 = some (x :: rest) →
    (x = 6 → val r 8 = none ∧ val r 12 = none) ∧ (x = 4 → val r 27 = none ∧ val r 28 = none))

/-! ### association-list lemmas -/

theorem val_snoc (p : Record) (i : Nat) (v : Bytes) (j : Nat) :
    val (p ++ [(i, v)]) j = (val p j).or (if j = i then some v else none) := by
  simp only [val, List.lookup_append, List.lookup_cons, List.lookup_nil]
  by_cases h : j = i
  · subst h; simp
  · have : (j == i) = false := by simp [h]
    simp [this, h]

theorem val_append_of_some (p s : Record) (j : Nat) (b : Bytes) (h : val p j = some b) :
    val (p ++ s) j = some b := by
  simp only [val, List.lookup_append] at *
  simp [h]

theorem val_none_of_append (p s : Record) (j : Nat) (h : val (p ++ s) j = none) : val p j = none := by
  simp only [val, List.lookup_append] at *
  cases hp : List.lookup j p with
  | none => rfl
  | some b => simp [hp] at h

theorem count_append (p s : Record) (g : List Nat) : count (p ++ s) g = count p g + count s g := by
  simp [count]

theorem val_none_of_count (p : Record) (g : List Nat) (h : count p g = 0) (j : Nat) (hj : j ∈ g) :
    val p j = none := by
  simp only [val, List.lookup_eq_none_iff]
  intro e he
  simp only [count, List.length_eq_zero_iff, List.filter_eq_nil_iff] at h
  have := h e he
  simp only [bne_iff_ne, ne_eq]
  intro hje
  apply this
  simp only [List.contains_iff_mem]
  rw [← hje]; exact hj

/-! ### the reference as a function of the lookup -/

/-- `refRecord` as a function of the lookup `val r` alone, every column written out -/
def refOf (h : Hdr) (f : Nat → Option Bytes) : FlowMsg :=
  { type_ := if h.version = 9 then 3 else 4,
    timeFlowStartNs :=
      if h.version = 9 then
        match f 22 with
        | some b => (h.time * 1000000000 + M64 * 1000001 - h.uptime * 1000000 + (beNat b % 2 ^ 32) * 1000000) % M64
        | none => h.time * 1000000000
      else
        match f 150 with
        | some b => (beNat b % 2 ^ 64 * 1000000000) % M64
        | none => match f 152 with
        | some b => (beNat b % 2 ^ 64 * 1000000) % M64
        | none => match f 154 with
        | some b => (beNat b % 2 ^ 64 * 1000) % M64
        | none => match f 156 with
        | some b => (beNat b % 2 ^ 64 * 1) % M64
        | none => match f 158 with
        | some b => (h.time * 1000000000 + M64 * 1000 - (beNat b % M64) * 1000) % M64
        | none => h.time * 1000000000,
    timeFlowEndNs :=
      if h.version = 9 then
        match f 21 with
        | some b => (h.time * 1000000000 + M64 * 1000001 - h.uptime * 1000000 + (beNat b % 2 ^ 32) * 1000000) % M64
        | none => h.time * 1000000000
      else
        match f 151 with
        | some b => (beNat b % 2 ^ 64 * 1000000000) % M64
        | none => match f 153 with
        | some b => (beNat b % 2 ^ 64 * 1000000) % M64
        | none => match f 155 with
        | some b => (beNat b % 2 ^ 64 * 1000) % M64
        | none => match f 157 with
        | some b => (beNat b % 2 ^ 64 * 1) % M64
        | none => match f 159 with
        | some b => (h.time * 1000000000 + M64 * 1000 - (beNat b % M64) * 1000) % M64
        | none => h.time * 1000000000,
    bytes := num 64 ((f 1).or ((f 23).or (f 312))),
    packets := if (f 312).isSome then 1 else num 64 ((f 2).or (f 24)),
    srcAddr := ((f 8).or (f 27)).getD [],
    dstAddr := ((f 12).or (f 28)).getD [],
    etype :=
      if (f 27).isSome || (f 28).isSome then 0x86dd
      else if (f 8).isSome || (f 12).isSome then 0x800
      else match f 60 with
        | some (x :: _) => if x.toNat = 4 then 0x800 else if x.toNat = 6 then 0x86dd else 0
        | _ => 0,
    proto := num 32 (f 4), srcPort := num 32 (f 7), dstPort := num 32 (f 11),
    inIf := num 32 (f 10), outIf := num 32 (f 14),
    srcMac := num 64 ((f 56).or (f 81)), dstMac := num 64 ((f 80).or (f 57)),
    srcVlan := num 32 (f 58), vlanId := num 32 (f 58), dstVlan := num 32 (f 59),
    ipTos := num 32 (f 5), forwardingStatus := num 32 (f 89), ipTtl := num 32 (f 52), tcpFlags := num 32 (f 6),
    icmpType := (match (f 32).or (f 139) with | some b => (beNat b % 65536) / 256 | none => num 32 ((f 176).or (f 178))),
    icmpCode := (match (f 32).or (f 139) with | some b => (beNat b % 65536) % 256 | none => num 32 ((f 177).or (f 179))),
    ipv6FlowLabel := num 32 (f 31), fragmentId := num 32 (f 54), fragmentOffset := num 32 (f 88),
    ipFlags := num 32 (f 197) / 32,
    srcAs := num 32 (f 16), dstAs := num 32 (f 17),
    nextHop := ((f 15).or (f 62)).getD [], bgpNextHop := ((f 18).or (f 63)).getD [],
    srcNet := num 32 ((f 9).or (f 29)), dstNet := num 32 ((f 13).or (f 30)),
    mplsLabel :=
      if (f 72).isSome then [num 32 (f 70) / 16, num 32 (f 71) / 16, num 32 (f 72) / 16]
      else if (f 71).isSome then [num 32 (f 70) / 16, num 32 (f 71) / 16]
      else if (f 70).isSome then [num 32 (f 70) / 16] else [],
    mplsIp := (match (f 47).or (f 140) with | some v => [v] | none => []),
    observationPointId := num 32 (f 138) }

theorem firstOf2 (r : Record) (a b : Nat) : firstOf r [a, b] = (val r a).or (val r b) := by
  simp only [firstOf]; cases val r a <;> cases val r b <;> rfl
theorem firstOf3 (r : Record) (a b c : Nat) : firstOf r [a, b, c] = (val r a).or ((val r b).or (val r c)) := by
  simp only [firstOf]; cases val r a <;> cases val r b <;> cases val r c <;> rfl

set_option maxRecDepth 4000 in
theorem refRecord_eq (h : Hdr) (r : Record) : refRecord h r = refOf h (val r) := by
  unfold refRecord refOf
  simp only [firstOf2, firstOf3]
  congr 1
  · simp only [timeOf, if_true]
    split
    · rfl
    · cases h150 : val r 150 <;> cases h152 : val r 152 <;> cases h154 : val r 154 <;> cases h156 : val r 156 <;>
        simp [List.find?, h150, h152, h154, h156, num]
      cases val r 158 <;> rfl
  · simp only [timeOf, Bool.false_eq_true, if_false]
    split
    · rfl
    · cases h150 : val r 151 <;> cases h152 : val r 153 <;> cases h154 : val r 155 <;> cases h156 : val r 157 <;>
        simp [List.find?, h150, h152, h154, h156, num]
      cases val r 159 <;> rfl
  · cases h60 : val r 60 with
    | none => rfl
    | some b => cases b <;> rfl
  · cases val r 70 <;> cases val r 71 <;> cases val r 72 <;> rfl


/-! ### one field of the conversion -/

/-- the body of the field loop for a non-enterprise field with a value, without a custom mapping -/
def convertOne (ver base up : Nat) (m : FlowMsg) (e : Nat × Bytes) : Res FlowMsg :=
  match lookupAction ver e.1 with
  | none => .ok m
  | some a => applyAction none base up m e.2 a

/-- the lookup of the record extended by one element at the end -/
def upd (f : Nat → Option Bytes) (i : Nat) (v : Bytes) : Nat → Option Bytes :=
  fun j => (f j).or (if j = i then some v else none)

theorem upd_ne (f : Nat → Option Bytes) (i : Nat) (v : Bytes) (j : Nat) (h : j ≠ i) : upd f i v j = f j := by
  simp [upd, h]

theorem upd_self (f : Nat → Option Bytes) (i : Nat) (v : Bytes) : upd f i v i = (f i).or (some v) := by
  simp [upd]

theorem val_snoc_eq_upd (p : Record) (i : Nat) (v : Bytes) : val (p ++ [(i, v)]) = upd (val p) i v :=
  funext fun j => val_snoc p i v j

/-- the element ids that may not accompany element `i` (including `i` itself) -/
def conflictsOf (i : Nat) : List Nat := (exclusive.filter (·.contains i)).flatten

/-- what the conversion needs of a width: numbers on at most 8 bytes, addresses not empty -/
def widthOK (id w : Nat) : Bool :=
  if [8, 12, 27, 28].contains id then 0 < w
  else if [60, 15, 18, 62, 63, 47, 140, 315].contains id then true
  else w ≤ 8

/-! the string-keyed setters at the columns the switch uses (each by evaluation) -/
theorem setNum_ObservationPointId (m : FlowMsg) (x : Nat) : m.setNum "ObservationPointId" x = { m with observationPointId := x } := rfl
theorem colBits_ObservationPointId : colBits "ObservationPointId" = 32 := rfl
theorem setNum_Bytes (m : FlowMsg) (x : Nat) : m.setNum "Bytes" x = { m with bytes := x } := rfl
theorem colBits_Bytes : colBits "Bytes" = 64 := rfl
theorem setNum_Packets (m : FlowMsg) (x : Nat) : m.setNum "Packets" x = { m with packets := x } := rfl
theorem colBits_Packets : colBits "Packets" = 64 := rfl
theorem setNum_SrcPort (m : FlowMsg) (x : Nat) : m.setNum "SrcPort" x = { m with srcPort := x } := rfl
theorem colBits_SrcPort : colBits "SrcPort" = 32 := rfl
theorem setNum_DstPort (m : FlowMsg) (x : Nat) : m.setNum "DstPort" x = { m with dstPort := x } := rfl
theorem colBits_DstPort : colBits "DstPort" = 32 := rfl
theorem setNum_Proto (m : FlowMsg) (x : Nat) : m.setNum "Proto" x = { m with proto := x } := rfl
theorem colBits_Proto : colBits "Proto" = 32 := rfl
theorem setNum_SrcAs (m : FlowMsg) (x : Nat) : m.setNum "SrcAs" x = { m with srcAs := x } := rfl
theorem colBits_SrcAs : colBits "SrcAs" = 32 := rfl
theorem setNum_DstAs (m : FlowMsg) (x : Nat) : m.setNum "DstAs" x = { m with dstAs := x } := rfl
theorem colBits_DstAs : colBits "DstAs" = 32 := rfl
theorem setNum_InIf (m : FlowMsg) (x : Nat) : m.setNum "InIf" x = { m with inIf := x } := rfl
theorem colBits_InIf : colBits "InIf" = 32 := rfl
theorem setNum_OutIf (m : FlowMsg) (x : Nat) : m.setNum "OutIf" x = { m with outIf := x } := rfl
theorem colBits_OutIf : colBits "OutIf" = 32 := rfl
theorem setNum_ForwardingStatus (m : FlowMsg) (x : Nat) : m.setNum "ForwardingStatus" x = { m with forwardingStatus := x } := rfl
theorem colBits_ForwardingStatus : colBits "ForwardingStatus" = 32 := rfl
theorem setNum_IpTos (m : FlowMsg) (x : Nat) : m.setNum "IpTos" x = { m with ipTos := x } := rfl
theorem colBits_IpTos : colBits "IpTos" = 32 := rfl
theorem setNum_TcpFlags (m : FlowMsg) (x : Nat) : m.setNum "TcpFlags" x = { m with tcpFlags := x } := rfl
theorem colBits_TcpFlags : colBits "TcpFlags" = 32 := rfl
theorem setNum_IpTtl (m : FlowMsg) (x : Nat) : m.setNum "IpTtl" x = { m with ipTtl := x } := rfl
theorem colBits_IpTtl : colBits "IpTtl" = 32 := rfl
theorem setNum_SrcNet (m : FlowMsg) (x : Nat) : m.setNum "SrcNet" x = { m with srcNet := x } := rfl
theorem colBits_SrcNet : colBits "SrcNet" = 32 := rfl
theorem setNum_DstNet (m : FlowMsg) (x : Nat) : m.setNum "DstNet" x = { m with dstNet := x } := rfl
theorem colBits_DstNet : colBits "DstNet" = 32 := rfl
theorem setNum_IcmpType (m : FlowMsg) (x : Nat) : m.setNum "IcmpType" x = { m with icmpType := x } := rfl
theorem colBits_IcmpType : colBits "IcmpType" = 32 := rfl
theorem setNum_IcmpCode (m : FlowMsg) (x : Nat) : m.setNum "IcmpCode" x = { m with icmpCode := x } := rfl
theorem colBits_IcmpCode : colBits "IcmpCode" = 32 := rfl
theorem setNum_SrcMac (m : FlowMsg) (x : Nat) : m.setNum "SrcMac" x = { m with srcMac := x } := rfl
theorem colBits_SrcMac : colBits "SrcMac" = 64 := rfl
theorem setNum_DstMac (m : FlowMsg) (x : Nat) : m.setNum "DstMac" x = { m with dstMac := x } := rfl
theorem colBits_DstMac : colBits "DstMac" = 64 := rfl
theorem setNum_VlanId (m : FlowMsg) (x : Nat) : m.setNum "VlanId" x = { m with vlanId := x } := rfl
theorem colBits_VlanId : colBits "VlanId" = 32 := rfl
theorem setNum_SrcVlan (m : FlowMsg) (x : Nat) : m.setNum "SrcVlan" x = { m with srcVlan := x } := rfl
theorem colBits_SrcVlan : colBits "SrcVlan" = 32 := rfl
theorem setNum_DstVlan (m : FlowMsg) (x : Nat) : m.setNum "DstVlan" x = { m with dstVlan := x } := rfl
theorem colBits_DstVlan : colBits "DstVlan" = 32 := rfl
theorem setNum_FragmentId (m : FlowMsg) (x : Nat) : m.setNum "FragmentId" x = { m with fragmentId := x } := rfl
theorem colBits_FragmentId : colBits "FragmentId" = 32 := rfl
theorem setNum_Ipv6FlowLabel (m : FlowMsg) (x : Nat) : m.setNum "Ipv6FlowLabel" x = { m with ipv6FlowLabel := x } := rfl
theorem colBits_Ipv6FlowLabel : colBits "Ipv6FlowLabel" = 32 := rfl
theorem setBytes_SrcAddr (m : FlowMsg) (x : Bytes) : m.setBytes "SrcAddr" x = { m with srcAddr := x } := rfl
theorem getBytes_SrcAddr (m : FlowMsg) : m.getBytes "SrcAddr" = some m.srcAddr := rfl
theorem setBytes_DstAddr (m : FlowMsg) (x : Bytes) : m.setBytes "DstAddr" x = { m with dstAddr := x } := rfl
theorem getBytes_DstAddr (m : FlowMsg) : m.getBytes "DstAddr" = some m.dstAddr := rfl
theorem setBytes_NextHop (m : FlowMsg) (x : Bytes) : m.setBytes "NextHop" x = { m with nextHop := x } := rfl
theorem getBytes_NextHop (m : FlowMsg) : m.getBytes "NextHop" = some m.nextHop := rfl
theorem setBytes_BgpNextHop (m : FlowMsg) (x : Bytes) : m.setBytes "BgpNextHop" x = { m with bgpNextHop := x } := rfl
theorem getBytes_BgpNextHop (m : FlowMsg) : m.getBytes "BgpNextHop" = some m.bgpNextHop := rfl

/-! ### every case of the switch, on a reference message -/

/-- hypothesis of the case of element 60: its value may only name the family of the addresses present -/
def H60 (i : Nat) (v : Bytes) (f : Nat → Option Bytes) : Prop :=
  i = 60 → ∀ x rest, v = x :: rest → (x = 6 → f 8 = none ∧ f 12 = none) ∧ (x = 4 → f 27 = none ∧ f 28 = none)

/-- the case of element `id` (action `a`, version scope `scope`), applied to the reference message of a
    record that carries none of the elements excluded by `id`, yields the reference message of the
    record extended by `id` -/
def CaseOK (h : Hdr) (scope id : Nat) (a : Action) : Prop :=
  (scope = 0 ∨ scope = h.version) → ∀ (f : Nat → Option Bytes) (v : Bytes),
    (∀ j, j ∈ conflictsOf id → f j = none) → widthOK id v.length = true → H60 id v f →
    applyAction none (h.time * 1000000000) h.uptime (refOf h f) v a = .ok (refOf h (upd f id v))

set_option linter.unusedSimpArgs false
set_option maxRecDepth 4000

/-- numbers: DecodeUNumber into one or two columns -/
local macro "num_case" i:num l:term : tactic => `(tactic| (
  intro _ f v habs hw _
  have hsub : ∀ j ∈ $l, j ∈ conflictsOf $i := by decide
  have habs' : ∀ j ∈ $l, f j = none := fun j hj => habs j (hsub j hj)
  simp only [List.forall_mem_cons, List.not_mem_nil, false_imp_iff, implies_true, and_true] at habs'
  have hv8 : List.length v ≤ 8 := by simpa [widthOK] using hw
  simp only [applyAction, writeDecoded_trunc _ v hv8, refOf,
    setNum_ObservationPointId, colBits_ObservationPointId, setNum_Bytes, colBits_Bytes, setNum_Packets,
    colBits_Packets, setNum_SrcPort, colBits_SrcPort, setNum_DstPort, colBits_DstPort, setNum_Proto,
    colBits_Proto, setNum_SrcAs, colBits_SrcAs, setNum_DstAs, colBits_DstAs, setNum_InIf, colBits_InIf,
    setNum_OutIf, colBits_OutIf, setNum_ForwardingStatus, colBits_ForwardingStatus, setNum_IpTos,
    colBits_IpTos, setNum_TcpFlags, colBits_TcpFlags, setNum_IpTtl, colBits_IpTtl, setNum_SrcNet,
    colBits_SrcNet, setNum_DstNet, colBits_DstNet, setNum_IcmpType, colBits_IcmpType, setNum_IcmpCode,
    colBits_IcmpCode, setNum_SrcMac, colBits_SrcMac, setNum_DstMac, colBits_DstMac, setNum_VlanId,
    colBits_VlanId, setNum_SrcVlan, colBits_SrcVlan, setNum_DstVlan, colBits_DstVlan, setNum_FragmentId,
    colBits_FragmentId, setNum_Ipv6FlowLabel, colBits_Ipv6FlowLabel, setBytes_SrcAddr, getBytes_SrcAddr,
    setBytes_DstAddr, getBytes_DstAddr, setBytes_NextHop, getBytes_NextHop, setBytes_BgpNextHop,
    getBytes_BgpNextHop]
  simp (disch := decide) only [upd_ne, upd_self, habs']
  simp [num]))

/-- addresses: addrReplaceCheck on an empty column -/
local macro "addr_case" i:num l:term : tactic => `(tactic| (
  intro _ f v habs hw _
  have hsub : ∀ j ∈ $l, j ∈ conflictsOf $i := by decide
  have habs' : ∀ j ∈ $l, f j = none := fun j hj => habs j (hsub j hj)
  simp only [List.forall_mem_cons, List.not_mem_nil, false_imp_iff, implies_true, and_true] at habs'
  have hpos : 0 < List.length v := by simpa [widthOK] using hw
  simp only [applyAction, addrReplaceCheck, refOf,
    setNum_ObservationPointId, colBits_ObservationPointId, setNum_Bytes, colBits_Bytes, setNum_Packets,
    colBits_Packets, setNum_SrcPort, colBits_SrcPort, setNum_DstPort, colBits_DstPort, setNum_Proto,
    colBits_Proto, setNum_SrcAs, colBits_SrcAs, setNum_DstAs, colBits_DstAs, setNum_InIf, colBits_InIf,
    setNum_OutIf, colBits_OutIf, setNum_ForwardingStatus, colBits_ForwardingStatus, setNum_IpTos,
    colBits_IpTos, setNum_TcpFlags, colBits_TcpFlags, setNum_IpTtl, colBits_IpTtl, setNum_SrcNet,
    colBits_SrcNet, setNum_DstNet, colBits_DstNet, setNum_IcmpType, colBits_IcmpType, setNum_IcmpCode,
    colBits_IcmpCode, setNum_SrcMac, colBits_SrcMac, setNum_DstMac, colBits_DstMac, setNum_VlanId,
    colBits_VlanId, setNum_SrcVlan, colBits_SrcVlan, setNum_DstVlan, colBits_DstVlan, setNum_FragmentId,
    colBits_FragmentId, setNum_Ipv6FlowLabel, colBits_Ipv6FlowLabel, setBytes_SrcAddr, getBytes_SrcAddr,
    setBytes_DstAddr, getBytes_DstAddr, setBytes_NextHop, getBytes_NextHop, setBytes_BgpNextHop,
    getBytes_BgpNextHop]
  simp (disch := decide) only [upd_ne, upd_self, habs']
  simp [num, hpos]))

/-- byte strings stored as they are -/
local macro "bytes_case" i:num l:term : tactic => `(tactic| (
  intro _ f v habs _ _
  have hsub : ∀ j ∈ $l, j ∈ conflictsOf $i := by decide
  have habs' : ∀ j ∈ $l, f j = none := fun j hj => habs j (hsub j hj)
  simp only [List.forall_mem_cons, List.not_mem_nil, false_imp_iff, implies_true, and_true] at habs'
  simp only [applyAction, refOf,
    setNum_ObservationPointId, colBits_ObservationPointId, setNum_Bytes, colBits_Bytes, setNum_Packets,
    colBits_Packets, setNum_SrcPort, colBits_SrcPort, setNum_DstPort, colBits_DstPort, setNum_Proto,
    colBits_Proto, setNum_SrcAs, colBits_SrcAs, setNum_DstAs, colBits_DstAs, setNum_InIf, colBits_InIf,
    setNum_OutIf, colBits_OutIf, setNum_ForwardingStatus, colBits_ForwardingStatus, setNum_IpTos,
    colBits_IpTos, setNum_TcpFlags, colBits_TcpFlags, setNum_IpTtl, colBits_IpTtl, setNum_SrcNet,
    colBits_SrcNet, setNum_DstNet, colBits_DstNet, setNum_IcmpType, colBits_IcmpType, setNum_IcmpCode,
    colBits_IcmpCode, setNum_SrcMac, colBits_SrcMac, setNum_DstMac, colBits_DstMac, setNum_VlanId,
    colBits_VlanId, setNum_SrcVlan, colBits_SrcVlan, setNum_DstVlan, colBits_DstVlan, setNum_FragmentId,
    colBits_FragmentId, setNum_Ipv6FlowLabel, colBits_Ipv6FlowLabel, setBytes_SrcAddr, getBytes_SrcAddr,
    setBytes_DstAddr, getBytes_DstAddr, setBytes_NextHop, getBytes_NextHop, setBytes_BgpNextHop,
    getBytes_BgpNextHop]
  simp (disch := decide) only [upd_ne, upd_self, habs']
  simp [num]))

/-- MPLS label stack section `k`: the other two sections present or not -/
local macro "mpls_case" i:num l:term:max a:term:max b:term:max : tactic => `(tactic| (
  intro _ f v habs hw _
  have hsub : ∀ j ∈ $l, j ∈ conflictsOf $i := by decide
  have habs' : ∀ j ∈ $l, f j = none := fun j hj => habs j (hsub j hj)
  simp only [List.forall_mem_cons, List.not_mem_nil, false_imp_iff, implies_true, and_true] at habs'
  have hv8 : List.length v ≤ 8 := by simpa [widthOK] using hw
  simp only [applyAction, writeDecoded_trunc _ v hv8, refOf, setAt]
  simp (disch := decide) only [upd_ne, upd_self, habs']
  cases f $a <;> cases f $b <;> simp [num]))

/-- IPFIX absolute clocks -/
local macro "ipfix_case" h:ident i:num l:term : tactic => `(tactic| (
  intro hs f v habs hw _
  have hsub : ∀ j ∈ $l, j ∈ conflictsOf $i := by decide
  have habs' : ∀ j ∈ $l, f j = none := fun j hj => habs j (hsub j hj)
  simp only [List.forall_mem_cons, List.not_mem_nil, false_imp_iff, implies_true, and_true] at habs'
  have hver : Hdr.version $h = 10 := by simpa [eq_comm] using hs
  have hv8 : List.length v ≤ 8 := by simpa [widthOK] using hw
  simp only [applyAction, writeDecoded_trunc _ v hv8, refOf, hver]
  simp (disch := decide) only [upd_ne, upd_self, habs']
  simp [num, U64, M64]))

theorem case_138 (h : Hdr) : CaseOK h 0 138 (.unum "ObservationPointId") := by num_case 138 [138]
theorem case_1 (h : Hdr) : CaseOK h 0 1 (.unum "Bytes") := by num_case 1 [1, 23, 312]
theorem case_2 (h : Hdr) : CaseOK h 0 2 (.unum "Packets") := by num_case 2 [2, 24, 312]
theorem case_23 (h : Hdr) : CaseOK h 0 23 (.unum "Bytes") := by num_case 23 [1, 23, 312]
theorem case_24 (h : Hdr) : CaseOK h 0 24 (.unum "Packets") := by num_case 24 [2, 24, 312]
theorem case_7 (h : Hdr) : CaseOK h 0 7 (.unum "SrcPort") := by num_case 7 [7]
theorem case_11 (h : Hdr) : CaseOK h 0 11 (.unum "DstPort") := by num_case 11 [11]
theorem case_4 (h : Hdr) : CaseOK h 0 4 (.unum "Proto") := by num_case 4 [4]
theorem case_16 (h : Hdr) : CaseOK h 0 16 (.unum "SrcAs") := by num_case 16 [16]
theorem case_17 (h : Hdr) : CaseOK h 0 17 (.unum "DstAs") := by num_case 17 [17]
theorem case_10 (h : Hdr) : CaseOK h 0 10 (.unum "InIf") := by num_case 10 [10]
theorem case_14 (h : Hdr) : CaseOK h 0 14 (.unum "OutIf") := by num_case 14 [14]
theorem case_89 (h : Hdr) : CaseOK h 0 89 (.unum "ForwardingStatus") := by num_case 89 [89]
theorem case_5 (h : Hdr) : CaseOK h 0 5 (.unum "IpTos") := by num_case 5 [5]
theorem case_6 (h : Hdr) : CaseOK h 0 6 (.unum "TcpFlags") := by num_case 6 [6]
theorem case_52 (h : Hdr) : CaseOK h 0 52 (.unum "IpTtl") := by num_case 52 [52]
theorem case_8 (h : Hdr) : CaseOK h 0 8 (.addr "SrcAddr" false) := by addr_case 8 [8, 27, 28]
theorem case_12 (h : Hdr) : CaseOK h 0 12 (.addr "DstAddr" false) := by addr_case 12 [12, 28, 27]
theorem case_9 (h : Hdr) : CaseOK h 0 9 (.unum "SrcNet") := by num_case 9 [9, 29]
theorem case_13 (h : Hdr) : CaseOK h 0 13 (.unum "DstNet") := by num_case 13 [13, 30]
theorem case_27 (h : Hdr) : CaseOK h 0 27 (.addr "SrcAddr" true) := by addr_case 27 [8, 27, 12]
theorem case_28 (h : Hdr) : CaseOK h 0 28 (.addr "DstAddr" true) := by addr_case 28 [12, 28, 8]
theorem case_29 (h : Hdr) : CaseOK h 0 29 (.unum "SrcNet") := by num_case 29 [9, 29]
theorem case_30 (h : Hdr) : CaseOK h 0 30 (.unum "DstNet") := by num_case 30 [13, 30]
theorem case_15 (h : Hdr) : CaseOK h 0 15 (.bytes "NextHop") := by bytes_case 15 [15, 62]
theorem case_18 (h : Hdr) : CaseOK h 0 18 (.bytes "BgpNextHop") := by bytes_case 18 [18, 63]
theorem case_62 (h : Hdr) : CaseOK h 0 62 (.bytes "NextHop") := by bytes_case 62 [15, 62]
theorem case_63 (h : Hdr) : CaseOK h 0 63 (.bytes "BgpNextHop") := by bytes_case 63 [18, 63]
theorem case_32 (h : Hdr) : CaseOK h 0 32 (.icmpTypeCode) := by num_case 32 [32, 139, 176, 178, 177, 179]
theorem case_139 (h : Hdr) : CaseOK h 0 139 (.icmpTypeCode) := by num_case 139 [32, 139, 176, 178, 177, 179]
theorem case_176 (h : Hdr) : CaseOK h 0 176 (.unum "IcmpType") := by num_case 176 [32, 139, 176, 178]
theorem case_178 (h : Hdr) : CaseOK h 0 178 (.unum "IcmpType") := by num_case 178 [32, 139, 176, 178]
theorem case_177 (h : Hdr) : CaseOK h 0 177 (.unum "IcmpCode") := by num_case 177 [32, 139, 177, 179]
theorem case_179 (h : Hdr) : CaseOK h 0 179 (.unum "IcmpCode") := by num_case 179 [32, 139, 177, 179]
theorem case_56 (h : Hdr) : CaseOK h 0 56 (.unum "SrcMac") := by num_case 56 [56, 81]
theorem case_80 (h : Hdr) : CaseOK h 0 80 (.unum "DstMac") := by num_case 80 [80, 57]
theorem case_81 (h : Hdr) : CaseOK h 0 81 (.unum "SrcMac") := by num_case 81 [56, 81]
theorem case_57 (h : Hdr) : CaseOK h 0 57 (.unum "DstMac") := by num_case 57 [80, 57]
theorem case_58 (h : Hdr) : CaseOK h 0 58 (.unum2 "VlanId" "SrcVlan") := by num_case 58 [58]
theorem case_59 (h : Hdr) : CaseOK h 0 59 (.unum "DstVlan") := by num_case 59 [59]
theorem case_54 (h : Hdr) : CaseOK h 0 54 (.unum "FragmentId") := by num_case 54 [54]
theorem case_88 (h : Hdr) : CaseOK h 0 88 (.fragOffset) := by num_case 88 [88]
theorem case_197 (h : Hdr) : CaseOK h 0 197 (.ipFlags) := by num_case 197 [197]
theorem case_31 (h : Hdr) : CaseOK h 0 31 (.unum "Ipv6FlowLabel") := by num_case 31 [31]
theorem case_70 (h : Hdr) : CaseOK h 0 70 (.mplsLabel 0) := by mpls_case 70 [70] 71 72
theorem case_71 (h : Hdr) : CaseOK h 0 71 (.mplsLabel 1) := by mpls_case 71 [71] 70 72
theorem case_72 (h : Hdr) : CaseOK h 0 72 (.mplsLabel 2) := by mpls_case 72 [72] 70 71
theorem case_47 (h : Hdr) : CaseOK h 0 47 (.mplsIp) := by bytes_case 47 [47, 140]
theorem case_140 (h : Hdr) : CaseOK h 0 140 (.mplsIp) := by bytes_case 140 [47, 140]
theorem case_150 (h : Hdr) : CaseOK h 10 150 (.ipfixTime true 1000000000) := by ipfix_case h 150 [150, 152, 154, 156, 158]
theorem case_152 (h : Hdr) : CaseOK h 10 152 (.ipfixTime true 1000000) := by ipfix_case h 152 [150, 152, 154, 156, 158]
theorem case_154 (h : Hdr) : CaseOK h 10 154 (.ipfixTime true 1000) := by ipfix_case h 154 [150, 152, 154, 156, 158]
theorem case_156 (h : Hdr) : CaseOK h 10 156 (.ipfixTime true 1) := by ipfix_case h 156 [150, 152, 154, 156, 158]
theorem case_151 (h : Hdr) : CaseOK h 10 151 (.ipfixTime false 1000000000) := by ipfix_case h 151 [151, 153, 155, 157, 159]
theorem case_153 (h : Hdr) : CaseOK h 10 153 (.ipfixTime false 1000000) := by ipfix_case h 153 [151, 153, 155, 157, 159]
theorem case_155 (h : Hdr) : CaseOK h 10 155 (.ipfixTime false 1000) := by ipfix_case h 155 [151, 153, 155, 157, 159]
theorem case_157 (h : Hdr) : CaseOK h 10 157 (.ipfixTime false 1) := by ipfix_case h 157 [151, 153, 155, 157, 159]
theorem case_158 (h : Hdr) : CaseOK h 10 158 (.ipfixDelta true) := by ipfix_case h 158 [150, 152, 154, 156, 158]; omega
theorem case_159 (h : Hdr) : CaseOK h 10 159 (.ipfixDelta false) := by ipfix_case h 159 [151, 153, 155, 157, 159]; omega
theorem case_312 (h : Hdr) : CaseOK h 10 312 (.frameSize) := by num_case 312 [1, 23, 312, 2, 24]

theorem case_22 (h : Hdr) (hup : h.version = 9 → h.uptime < 2 ^ 32) : CaseOK h 9 22 .v9First := by
  intro hs f v habs hw _
  have hver : h.version = 9 := by simpa [eq_comm] using hs
  have hu := hup hver
  have hv8 : List.length v ≤ 8 := by simpa [widthOK] using hw
  have hf : f 22 = none := habs 22 (by decide)
  simp only [applyAction, writeDecoded_trunc _ v hv8, refOf, hver]
  simp (disch := decide) only [upd_ne, upd_self, hf]
  simp [num, U64, M64]
  omega

theorem case_21 (h : Hdr) (hup : h.version = 9 → h.uptime < 2 ^ 32) : CaseOK h 9 21 .v9Last := by
  intro hs f v habs hw _
  have hver : h.version = 9 := by simpa [eq_comm] using hs
  have hu := hup hver
  have hv8 : List.length v ≤ 8 := by simpa [widthOK] using hw
  have hf : f 21 = none := habs 21 (by decide)
  simp only [applyAction, writeDecoded_trunc _ v hv8, refOf, hver]
  simp (disch := decide) only [upd_ne, upd_self, hf]
  simp [num, U64, M64]
  omega

theorem case_60 (h : Hdr) : CaseOK h 0 60 .ipVersion := by
  intro _ f v habs _ h60
  have h60' := h60 rfl
  have hf60 : f 60 = none := habs 60 (by decide)
  cases v with
  | nil =>
    simp only [applyAction, refOf]
    simp (disch := decide) only [upd_ne, upd_self, hf60]
    simp
  | cons x rest =>
    obtain ⟨h6, h4⟩ := h60' x rest rfl
    simp only [applyAction, refOf]
    simp (disch := decide) only [upd_ne, upd_self, hf60]
    by_cases hx4 : x = 4
    · obtain ⟨h27, h28⟩ := h4 hx4
      subst hx4
      simp [h27, h28]
    · by_cases hx6 : x = 6
      · obtain ⟨h8, h12⟩ := h6 hx6
        subst hx6
        simp [h8, h12]
      · have n4 : x.toNat ≠ 4 := fun hh => hx4 (UInt8.toNat_inj.mp hh)
        have n6 : x.toNat ≠ 6 := fun hh => hx6 (UInt8.toNat_inj.mp hh)
        simp [hx4, hx6, n4, n6]

/-- all cases of the switch except element 315 (a packet section, which needs the packet mapper) -/
theorem apply_cases (h : Hdr) (hup : h.version = 9 → h.uptime < 2 ^ 32) :
    ∀ e ∈ caseTable, ∀ id ∈ e.2.1, id ≠ 315 → CaseOK h e.1 id e.2.2 := by
  simp only [caseTable, List.forall_mem_cons, List.not_mem_nil, false_imp_iff, implies_true, and_true]
  and_intros
  · exact fun _ => case_138 h
  · exact fun _ => case_1 h
  · exact fun _ => case_2 h
  · exact fun _ => case_23 h
  · exact fun _ => case_24 h
  · exact fun _ => case_7 h
  · exact fun _ => case_11 h
  · exact fun _ => case_4 h
  · exact fun _ => case_16 h
  · exact fun _ => case_17 h
  · exact fun _ => case_10 h
  · exact fun _ => case_14 h
  · exact fun _ => case_89 h
  · exact fun _ => case_5 h
  · exact fun _ => case_6 h
  · exact fun _ => case_52 h
  · exact fun _ => case_60 h
  · exact fun _ => case_8 h
  · exact fun _ => case_12 h
  · exact fun _ => case_9 h
  · exact fun _ => case_13 h
  · exact fun _ => case_27 h
  · exact fun _ => case_28 h
  · exact fun _ => case_29 h
  · exact fun _ => case_30 h
  · exact fun _ => case_15 h
  · exact fun _ => case_18 h
  · exact fun _ => case_62 h
  · exact fun _ => case_63 h
  · exact fun _ => case_32 h
  · exact fun _ => case_139 h
  · exact fun _ => case_176 h
  · exact fun _ => case_178 h
  · exact fun _ => case_177 h
  · exact fun _ => case_179 h
  · exact fun _ => case_56 h
  · exact fun _ => case_80 h
  · exact fun _ => case_81 h
  · exact fun _ => case_57 h
  · exact fun _ => case_58 h
  · exact fun _ => case_59 h
  · exact fun _ => case_54 h
  · exact fun _ => case_88 h
  · exact fun _ => case_197 h
  · exact fun _ => case_31 h
  · exact fun _ => case_70 h
  · exact fun _ => case_71 h
  · exact fun _ => case_72 h
  · exact fun _ => case_47 h
  · exact fun _ => case_140 h
  · exact fun _ => case_22 h hup
  · exact fun _ => case_21 h hup
  · exact fun _ => case_150 h
  · exact fun _ => case_152 h
  · exact fun _ => case_154 h
  · exact fun _ => case_156 h
  · exact fun _ => case_151 h
  · exact fun _ => case_153 h
  · exact fun _ => case_155 h
  · exact fun _ => case_157 h
  · exact fun _ => case_158 h
  · exact fun _ => case_159 h
  · exact fun _ => case_312 h
  · exact fun hne => absurd rfl hne

/-! ### the switch: which case an element id selects -/

theorem lookupAction_some {ver id : Nat} {a : Action} (h : lookupAction ver id = some a) :
    ∃ e ∈ caseTable, (e.1 = 0 ∨ e.1 = ver) ∧ id ∈ e.2.1 ∧ e.2.2 = a := by
  unfold lookupAction at h
  split at h
  · rename_i e he
    have hm := List.mem_of_find?_eq_some he
    have hp := List.find?_some he
    simp only [Bool.and_eq_true, beq_iff_eq, List.contains_iff_mem] at hp
    cases h
    exact ⟨e, hm, Or.inl hp.1, hp.2, rfl⟩
  · split at h
    · rename_i e he
      have hm := List.mem_of_find?_eq_some he
      have hp := List.find?_some he
      simp only [Bool.and_eq_true, beq_iff_eq, List.contains_iff_mem] at hp
      cases h
      exact ⟨e, hm, Or.inr hp.1, hp.2, rfl⟩
    · cases h

theorem lookupAction_none {ver id : Nat} (h : id ∉ interpreted) : lookupAction ver id = none := by
  have key : ∀ s : Nat, caseTable.find? (fun e => e.1 == s && e.2.1.contains id) = none := by
    intro s
    rw [List.find?_eq_none]
    intro e he hqe
    apply h
    simp only [Bool.and_eq_true, beq_iff_eq, List.contains_iff_mem] at hqe
    simp only [interpreted, List.mem_flatMap]
    exact ⟨e, he, hqe.2⟩
  unfold lookupAction
  rw [key 0, key ver]

/-- every documented element has a case in its version, is not element 315, and its legal widths are
    widths the conversion can read -/
theorem documented_facts : ∀ ver ∈ [9, 10], ∀ e ∈ documented ver,
    (lookupAction ver e.1).isSome = true ∧ e.1 ≠ 315 ∧ ∀ w ∈ e.2, widthOK e.1 w = true := by
  decide +kernel

/-- the element ids the reference looks at -/
def refIds : List Nat :=
  [22, 150, 152, 154, 156, 158, 21, 151, 153, 155, 157, 159, 1, 23, 312, 2, 24, 8, 27, 12, 28, 60, 4, 7, 11, 10, 14,
   56, 81, 80, 57, 58, 59, 5, 89, 52, 6, 32, 139, 176, 178, 177, 179, 31, 54, 88, 197, 16, 17, 15, 62, 18, 63,
   9, 29, 13, 30, 70, 71, 72, 47, 140, 138]

theorem refIds_interpreted : ∀ j ∈ refIds, j ∈ interpreted := by decide +kernel

theorem refOf_congr (h : Hdr) (f g : Nat → Option Bytes) (H : ∀ j, j ∈ refIds → f j = g j) :
    refOf h f = refOf h g := by
  unfold refOf
  simp (disch := decide) only [H]

/-- one step: the reference message of a record, one more element converted, is the reference message
    of the extended record -/
theorem step_ok (h : Hdr) (hv : h.version = 9 ∨ h.version = 10) (hup : h.version = 9 → h.uptime < 2 ^ 32)
    (f : Nat → Option Bytes) (i : Nat) (v : Bytes)
    (hdoc : (∃ ws, (i, ws) ∈ documented h.version ∧ v.length ∈ ws) ∨ i ∉ interpreted)
    (habs : ∀ j, j ∈ conflictsOf i → f j = none) (h60 : H60 i v f) :
    convertOne h.version (h.time * 1000000000) h.uptime (refOf h f) (i, v) = .ok (refOf h (upd f i v)) := by
  rcases hdoc with ⟨ws, hmem, hw⟩ | hni
  · have hver : h.version ∈ [9, 10] := by rcases hv with hv | hv <;> simp [hv]
    obtain ⟨hsome, h315, hwok⟩ := documented_facts h.version hver (i, ws) hmem
    simp only [convertOne]
    cases hl : lookupAction h.version i with
    | none => simp [hl] at hsome
    | some a =>
      obtain ⟨e, he, hscope, hid, rfl⟩ := lookupAction_some hl
      exact apply_cases h hup e he i hid h315 hscope f v habs (hwok _ hw) h60
  · simp only [convertOne, lookupAction_none hni]
    congr 1
    apply refOf_congr
    intro j hj
    rw [upd_ne]
    intro hji
    exact hni (hji ▸ refIds_interpreted j hj)

/-! ### the field loop -/

theorem convertFields_cons (ver b u : Nat) (e : Nat × Bytes) (r : Record) (m : FlowMsg) :
    convertFields none ver b u (toFields (e :: r)) m =
      match convertOne ver b u m e with
      | .error x => .error x
      | .ok m' => convertFields none ver b u (toFields r) m' := by
  obtain ⟨i, v⟩ := e
  simp only [toFields, List.map_cons, convertFields, lookupNetflow, List.filter_nil, List.getLast?_nil,
    convertOne]
  cases lookupAction ver i with
  | none => simp
  | some a =>
    simp only
    generalize applyAction none b u m v a = res
    cases res <;> rfl

theorem convertFields_snoc (ver b u : Nat) (p : Record) (e : Nat × Bytes) (m : FlowMsg) :
    convertFields none ver b u (toFields (p ++ [e])) m =
      match convertFields none ver b u (toFields p) m with
      | .error x => .error x
      | .ok m' => convertOne ver b u m' e := by
  induction p generalizing m with
  | nil =>
    rw [List.nil_append, convertFields_cons]
    simp only [toFields, List.map_nil, convertFields]
    cases convertOne ver b u m e <;> rfl
  | cons a p ih =>
    rw [List.cons_append, convertFields_cons, convertFields_cons]
    cases convertOne ver b u m a with
    | error x => rfl
    | ok m' => exact ih m'

/-! ### the domain is closed under prefixes -/

theorem RecordOK.prefix {ver : Nat} {p s : Record} (h : RecordOK ver (p ++ s)) : RecordOK ver p := by
  obtain ⟨h1, h2, h3⟩ := h
  refine ⟨fun e he => h1 e (List.mem_append_left _ he), fun g hg => ?_, fun x rest hx => ?_⟩
  · have := h2 g hg
    rw [count_append] at this
    omega
  · obtain ⟨h6, h4⟩ := h3 x rest (val_append_of_some p s 60 _ hx)
    exact ⟨fun e6 => ⟨val_none_of_append _ _ _ (h6 e6).1, val_none_of_append _ _ _ (h6 e6).2⟩,
      fun e4 => ⟨val_none_of_append _ _ _ (h4 e4).1, val_none_of_append _ _ _ (h4 e4).2⟩⟩

theorem mem_conflictsOf {i j : Nat} (h : j ∈ conflictsOf i) : ∃ g ∈ exclusive, i ∈ g ∧ j ∈ g := by
  simp only [conflictsOf, List.mem_flatten, List.mem_filter, List.contains_iff_mem] at h
  obtain ⟨g, ⟨hg, hi⟩, hj⟩ := h
  exact ⟨g, hg, hi, hj⟩

/-- the last element of a record of the domain excludes its competitors from the rest -/
theorem RecordOK.absent {ver : Nat} {p : Record} {i : Nat} {v : Bytes} (h : RecordOK ver (p ++ [(i, v)]))
    (j : Nat) (hj : j ∈ conflictsOf i) : val p j = none := by
  obtain ⟨g, hg, hig, hjg⟩ := mem_conflictsOf hj
  have := h.2.1 g hg
  rw [count_append] at this
  have h1 : count [(i, v)] g = 1 := by
    simp [count, List.filter, hig]
  exact val_none_of_count p g (by omega) j hjg

theorem RecordOK.h60 {ver : Nat} {p : Record} {i : Nat} {v : Bytes} (h : RecordOK ver (p ++ [(i, v)])) :
    H60 i v (val p) := by
  intro hi x rest hv
  subst hi
  have h60 : val p 60 = none := h.absent 60 (by decide)
  have hval : val (p ++ [(60, v)]) 60 = some (x :: rest) := by
    rw [val_snoc, h60, hv]; simp
  obtain ⟨h6, h4⟩ := h.2.2 x rest hval
  exact ⟨fun e6 => ⟨val_none_of_append _ _ _ (h6 e6).1, val_none_of_append _ _ _ (h6 e6).2⟩,
    fun e4 => ⟨val_none_of_append _ _ _ (h4 e4).1, val_none_of_append _ _ _ (h4 e4).2⟩⟩

/-! ### the theorem -/

theorem refRecord_nil (h : Hdr) (hv : h.version = 9 ∨ h.version = 10) :
    refRecord h [] =
      { FlowMsg.empty with
        timeFlowStartNs := h.time * 1000000000, timeFlowEndNs := h.time * 1000000000,
        type_ := if h.version = 9 then 3 else if h.version = 10 then 4 else 0 } := by
  rw [refRecord_eq]
  rcases hv with hv | hv <;> simp [refOf, val, hv, FlowMsg.empty, num]

theorem convertFields_eq_ref (h : Hdr) (hv : h.version = 9 ∨ h.version = 10) (hup : h.version = 9 → h.uptime < 2 ^ 32) :
    ∀ (n : Nat) (r : Record), r.length = n → RecordOK h.version r →
    convertFields none h.version (h.time * 1000000000) h.uptime (toFields r) (refRecord h []) = .ok (refRecord h r) := by
  intro n
  induction n with
  | zero =>
    intro r hl _
    have : r = [] := List.eq_nil_of_length_eq_zero hl
    subst this
    rfl
  | succ n ih =>
    intro r hl hr
    have hne : r ≠ [] := by intro h0; simp [h0] at hl
    obtain ⟨p, e, rfl⟩ : ∃ p e, r = p ++ [e] := ⟨r.dropLast, r.getLast hne, (List.dropLast_concat_getLast hne).symm⟩
    obtain ⟨i, v⟩ := e
    have hlp : p.length = n := by simpa using hl
    rw [convertFields_snoc, ih p hlp hr.prefix]
    simp only
    rw [refRecord_eq, refRecord_eq, val_snoc_eq_upd]
    exact step_ok h hv hup (val p) i v (hr.1 (i, v) (by simp)) hr.absent hr.h60

/-- **C08 for NetFlow v9 / IPFIX.** For every record of the documented domain, in whatever template
    order, ConvertNetFlowDataSet on a fresh message yields exactly the documented reference mapping. -/
theorem record_eq_ref (h : Hdr) (r : Record) (hr : RecordOK h.version r) (hv : h.version = 9 ∨ h.version = 10)
    (hup : h.version = 9 → h.uptime < 2 ^ 32) :
    convertNetFlowDataSet none h.version h.time h.uptime (toFields r) = .ok (refRecord h r) := by
  unfold convertNetFlowDataSet
  simp only
  rw [← refRecord_nil h hv]
  exact convertFields_eq_ref h hv hup _ r rfl hr

/-- the same, stated for the field loop with the arguments `convertNetFlowDataSet` passes to it -/
theorem convertFields_record_eq_ref (h : Hdr) (r : Record) (hr : RecordOK h.version r)
    (hv : h.version = 9 ∨ h.version = 10) (hup : h.version = 9 → h.uptime < 2 ^ 32) :
    convertFields none h.version (h.time * 1000000000) h.uptime (toFields r)
      { FlowMsg.empty with
        timeFlowStartNs := h.time * 1000000000, timeFlowEndNs := h.time * 1000000000,
        type_ := if h.version = 9 then 3 else if h.version = 10 then 4 else 0 } = .ok (refRecord h r) :=
  record_eq_ref h r hr hv hup

/-! ### the packet level -/

/-- the header of a decoded packet as the documentation names its fields -/
def hdrOf (p : Netflow.Packet) : Hdr := ⟨p.version, p.uptime, p.baseTime, p.seqNum, p.domain⟩

theorem convertRecords_eq_ref (h : Hdr) (hv : h.version = 9 ∨ h.version = 10)
    (hup : h.version = 9 → h.uptime < 2 ^ 32) (rs : List Record) (hrs : ∀ r ∈ rs, RecordOK h.version r) :
    convertRecords none h.version h.time h.uptime (rs.map fun r => ⟨toFields r⟩) = .ok (rs.map (refRecord h)) := by
  induction rs with
  | nil => rfl
  | cons r rs ih =>
    simp only [List.map_cons, convertRecords]
    rw [record_eq_ref h r (hrs r (by simp)) hv hup, ih (fun r' hr' => hrs r' (by simp [hr']))]

/-- ProcessMessageNetFlowV9Config / ProcessMessageIPFIXConfig on a packet whose data records all lie in
    the documented domain: one message per record, the documented mapping with the packet-level stamps
    (sequence number, observation domain, sampling rate) -/
theorem packet_eq_ref (p : Netflow.Packet) (rates : Rates) (rs : List Record) (found : Option Nat)
    (hv : p.version = 9 ∨ p.version = 10) (hup : p.version = 9 → p.uptime < 2 ^ 32)
    (hdata : dataRecordsOf p.flowSets = rs.map fun r => ⟨toFields r⟩)
    (hrs : ∀ r ∈ rs, RecordOK p.version r)
    (hopt : searchSamplingRate (optionRecordsOf p.flowSets) = .ok found) :
    processNetflow none p rates =
      ⟨rs.map fun r => stampNetflow p.seqNum (applyRate found rates (p.version, p.domain)).1 p.domain
          (refRecord (hdrOf p) r),
        (applyRate found rates (p.version, p.domain)).2, none⟩ := by
  have := convertRecords_eq_ref (hdrOf p) hv hup rs hrs
  simp only [hdrOf] at this
  simp only [processNetflow, hdata, this, hopt, List.map_map]
  rfl

/-! ### a checker for the domain -/

/-- executable form of `RecordOK` -/
def recordOKb (version : Nat) (r : Record) : Bool :=
  r.all (fun e => (documented version).any (fun d => d.1 == e.1 && d.2.contains e.2.length) || !interpreted.contains e.1) &&
  exclusive.all (fun g => count r g ≤ 1) &&
  (match val r 60 with
   | some (x :: _) => (x != 6 || ((val r 8).isNone && (val r 12).isNone)) && (x != 4 || ((val r 27).isNone && (val r 28).isNone))
   | _ => true)

theorem recordOK_of_check {version : Nat} {r : Record} (h : recordOKb version r = true) : RecordOK version r := by
  simp only [recordOKb, Bool.and_eq_true, List.all_eq_true, Bool.or_eq_true, List.any_eq_true, beq_iff_eq,
    List.contains_iff_mem, Bool.not_eq_true', decide_eq_true_eq] at h
  obtain ⟨⟨h1, h2⟩, h3⟩ := h
  refine ⟨fun e he => ?_, h2, fun x rest hx => ?_⟩
  · rcases h1 e he with ⟨d, hd, hde, hw⟩ | hni
    · exact Or.inl ⟨d.2, by rw [← hde]; exact hd, hw⟩
    · right
      intro hmem
      have : interpreted.contains e.1 = true := by simpa using hmem
      rw [this] at hni; cases hni
  · rw [hx] at h3
    simp only [Bool.and_eq_true, Bool.or_eq_true, bne_iff_ne, ne_eq, Option.isNone_iff_eq_none] at h3
    refine ⟨fun e6 => ?_, fun e4 => ?_⟩
    · rcases h3.1 with h | h
      · exact absurd e6 h
      · exact h
    · rcases h3.2 with h | h
      · exact absurd e4 h
      · exact h

/-- an IPv4 TCP flow exported over NetFlow v9 with the fields in an arbitrary template order … -/
example : RecordOK 9
    [(21, [7, 91, 205, 21]), (8, [10, 0, 0, 1]), (1, [0, 0, 5, 220]), (11, [1, 187]), (12, [10, 0, 0, 2]), (60, [4]),
     (2, [9]), (7, [0, 80]), (4, [6]), (6, [0x12]), (5, [0]), (10, [0, 3]), (14, [0, 4]), (22, [7, 91, 205, 0]),
     (58, [0, 100]), (56, [1, 2, 3, 4, 5, 6]), (70, [0, 1, 1]), (72, [0, 3, 1]), (4242, [1, 2, 3])] :=
  recordOK_of_check (by decide +kernel)

/-- … and an IPv6 ICMP flow over IPFIX with a frame-size element -/
example : RecordOK 10
    [(152, [0, 0, 1, 140, 0, 0, 0, 0]), (27, List.replicate 16 1), (312, [5, 220]), (28, List.replicate 16 2),
     (139, [128, 0]), (153, [0, 0, 1, 140, 0, 0, 0, 9]), (62, List.replicate 16 3), (31, [1, 2, 3])] :=
  recordOK_of_check (by decide +kernel)

end Goflow.C08
