import Goflow.Generated.Conversions
import Goflow.Producer.SourceSnapshot
import Goflow.Producer.Netflow
import Goflow.Generated.NetflowCases
import Goflow.Spec.FieldTable
import Proofs.Lemmas.Bytes
import Proofs.Lemmas.Numbers
import Goflow.Producer.Legacy
import Goflow.Pipe
/-!
  C08 — NetFlow v5/v9/IPFIX fields map to the flow message as documented.
-/
namespace Goflow.C08
open Goflow Goflow.Producer

def goCase (e : Nat × List Nat × Action) : Nat × List Nat × String := (e.1, e.2.1, e.2.2.goText)

/-- what the extractor must find in producer_nf.go for the model's table to be the code's table -/
def expectedCases : List (Nat × List Nat × String) :=
  (caseTable.filter fun e => e.1 == 0).map goCase ++
  [(9, [], "preamble: uptimeNs := uint64(uptime) * 1e6")] ++
  (caseTable.filter fun e => e.1 != 0).map goCase

/-- The `switch df.Type` of ConvertNetFlowDataSet, regenerated from producer_nf.go on every run,
    is the table the model interprets: same element ids, same version scope, same Go text of every
    case body; and the per-field preamble (value assertion, custom mapping, enterprise skip) is the
    one the model's `convertFields` was written for. -/
theorem cases_match : Goflow.Generated.netflowCases = expectedCases ∧
    Goflow.Generated.netflowLoopPreamble =
      "df := record[i] ; v, ok := df.Value.([]byte) ; if !ok { continue } ; if err := MapCustomNetFlow(flowMessage, df, mapperNetFlow); err != nil { return err } ; if df.PenProvided { continue }" := by
  decide +kernel

/-- DecodeUNumber reads a big-endian unsigned integer of any width 0..8 at full value -/
theorem decodeUNumber_eq (b : Bytes) (h : b.length ≤ 8) : decodeUNumberRaw b = .ok (beNat b) := by
  unfold decodeUNumberRaw
  simp only
  split
  · rfl
  · rename_i h1
    have : b.length < 8 := by omega
    simp only [this, if_true, shiftLoopBE_beNat]

/-- … and rejects anything longer (an error, never a panic) -/
theorem decodeUNumber_long (b : Bytes) (h : 8 < b.length) : decodeUNumberRaw b = .error .bad := by
  unfold decodeUNumberRaw
  simp only
  have h1 : ¬ (b.length = 1 ∨ b.length = 2 ∨ b.length = 4 ∨ b.length = 8) := by omega
  have h2 : ¬ b.length < 8 := by omega
  simp [h1, h2]

theorem decodeUNumberLE_eq (b : Bytes) (h : b.length ≤ 8) : decodeUNumberLERaw b = .ok (leNat b) := by
  unfold decodeUNumberLERaw
  simp only
  split
  · rfl
  · rename_i h1
    have : b.length < 8 := by omega
    simp only [this, if_true, shiftLoopLE_leNat]

/-- the destination truncates exactly as Go's `uint32(o)` / `uint16(o)` / `byte(o)` -/
theorem writeDecoded_trunc (bits : Nat) (b : Bytes) (h : b.length ≤ 8) :
    decodeUNumber bits b = .ok (beNat b % 2 ^ bits) := by
  simp [decodeUNumber, decodeUNumber_eq b h]

/-- a value that fits the column is stored at full value, for every encoded width 1..8 -/
theorem full_value (bits : Nat) (b : Bytes) (h : b.length ≤ 8) (hfit : beNat b < 2 ^ bits) :
    decodeUNumber bits b = .ok (beNat b) := by
  rw [writeDecoded_trunc bits b h, Nat.mod_eq_of_lt hfit]

/-- NetFlow v9 clock rule, in ℕ: with `first ≤ uptime` (milliseconds) and the difference not larger
    than the export time, flow start = export time − (uptime − first) -/
theorem v9_time (cfg : Option Config) (baseTime uptime : Nat) (m : FlowMsg) (v : Bytes)
    (hv : v.length ≤ 8) (hfirst : beNat v < 2 ^ 32) (hle : beNat v ≤ uptime) (hup : uptime < 2 ^ 32)
    (hbase : baseTime * 1000000000 < 2 ^ 64)
    (hdiff : (uptime - beNat v) * 1000000 ≤ baseTime * 1000000000) :
    applyAction cfg (baseTime * 1000000000) uptime m v .v9First =
      .ok { m with timeFlowStartNs := baseTime * 1000000000 - (uptime - beNat v) * 1000000 } := by
  simp only [applyAction, full_value 32 v hv hfirst, U64]
  congr 2
  simp only [Nat.reducePow] at *
  omega

/-- IPFIX clock rules: absolute seconds / milli- / micro- / nanoseconds are scaled to nanoseconds (mod 2^64) -/
theorem ipfix_time (cfg : Option Config) (baseTimeNs uptime : Nat) (m : FlowMsg) (v : Bytes) (mult : Nat)
    (hv : v.length ≤ 8) :
    applyAction cfg baseTimeNs uptime m v (.ipfixTime true mult) =
      .ok { m with timeFlowStartNs := (beNat v * mult) % 2 ^ 64 } := by
  have : beNat v < 2 ^ 64 := by
    have := beNat_lt v
    calc beNat v < 256 ^ v.length := this
      _ ≤ 256 ^ 8 := Nat.pow_le_pow_right (by decide) hv
      _ = 2 ^ 64 := by decide
  simp [applyAction, full_value 64 v hv this, U64]

/-- the 14-bit sampling interval of the v5 header -/
theorem v5_sampling_14bit (p : V5.Packet) : ∀ m ∈ processLegacy p, m.samplingRate = p.header.samplingInterval % 2 ^ 14 := by
  intro m hm
  simp only [processLegacy, List.mem_map] at hm
  obtain ⟨_, ⟨_, _, rfl⟩, rfl⟩ := hm
  rfl

private theorem mod_shift (a d M K : Nat) (hd : d ≤ M) (hK : 1 ≤ K) :
    (a + M - d) % M = (a + M * K - d) % M := by
  have : a + M * K - d = (a + M - d) + M * (K - 1) := by
    have h1 : M * K = M + M * (K - 1) := by
      obtain ⟨k, rfl⟩ : ∃ k, K = k + 1 := ⟨K - 1, by omega⟩
      simp [Nat.mul_succ, Nat.add_comm]
    rw [h1]; omega
  rw [this, Nat.add_mul_mod_self_left]

/-- NetFlow v5 records against the documented mapping, for every record and header (all field values) -/
theorem v5_record_eq_ref (p : V5.Packet) (recv : Nat) (exporter : Bytes) :
    (processLegacy p).map (Pipe.stampRecv recv (Pipe.unmap exporter)) =
      p.records.map fun r => Spec.FieldTable.refV5 p.header.sysUptime p.header.unixSecs p.header.unixNSecs
        p.header.flowSequence p.header.samplingInterval r.toList recv exporter := by
  simp only [processLegacy, List.map_map]
  apply List.map_congr_left
  intro r _
  simp [Function.comp, convertLegacyRecord, Spec.FieldTable.refV5, Spec.FieldTable.stamp, Pipe.stampRecv, Pipe.unmap,
    V5.Record.toList, U32, Spec.FieldTable.M64, FlowMsg.empty]
  have hM : (18446744073709551616000000 : Nat) = 18446744073709551616 * 1000000 := by decide
  refine ⟨?_, ?_, ?_⟩
  rotate_left
  · rw [hM]; exact mod_shift _ _ _ _ (by omega) (by decide)
  · rw [hM]; exact mod_shift _ _ _ _ (by omega) (by decide)
  have hsplit : List.take 12 exporter = List.take 10 exporter ++ List.take 2 (List.drop 10 exporter) := by
    rw [← List.take_add]
  rw [hsplit]
  by_cases h1 : List.take 10 exporter = [0, 0, 0, 0, 0, 0, 0, 0, 0, 0]
  · by_cases h2 : List.take 2 (List.drop 10 exporter) = [255, 255]
    · simp [h1, h2]
    · have : ¬ (List.take 10 exporter ++ List.take 2 (List.drop 10 exporter) = [0, 0, 0, 0, 0, 0, 0, 0, 0, 0, 255, 255]) := by
        rw [h1]; intro h; exact h2 (by simpa using h)
      simp [h2, this]
  · by_cases hl : exporter.length = 16
    · have : ¬ (List.take 10 exporter ++ List.take 2 (List.drop 10 exporter) = [0, 0, 0, 0, 0, 0, 0, 0, 0, 0, 255, 255]) := by
        intro h
        have h10 : (List.take 10 exporter).length = 10 := by simp [hl]
        have h' : List.take 10 exporter ++ List.take 2 (List.drop 10 exporter) = [0, 0, 0, 0, 0, 0, 0, 0, 0, 0] ++ [255, 255] := h
        have := List.append_inj h' (by simp [h10])
        exact h1 this.1
      simp [h1, this]
    · simp [hl]

/-- the statements of the NetFlow v5 conversion in the source now are the ones `Goflow/Producer/Legacy.lean` was written from -/
theorem legacy_source_matches :
    Goflow.Generated.legacyRecordStmts = Goflow.Snapshot.legacyRecordStmts ∧
    Goflow.Generated.legacyMessageStmts = Goflow.Snapshot.legacyMessageStmts := by
  decide +kernel

end Goflow.C08
