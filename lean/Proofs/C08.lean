import Goflow.Spec.FieldTable
