import Goflow.Cost
import Proofs.Lemmas.Safety
import Proofs.Lemmas.SafetySflow
/-!
  C02 — the modelled allocation cost of ANY datagram stays within the property's budget.

  `Goflow/Cost.lean` instruments the decoder, producer and pipe models with the bytes the Go code
  requests from the allocator (a `make([]T, count)` is charged before the elements are read, so a
  decode that fails has paid for it). This file proves, for every byte string:

  * `Netflow.netflow_cost_bound`  decodeCost ≤ price W · |b| + 65535·12       price W = 928 + 252·W
  * `Sflow.sflow_cost_bound`      decodeCost ≤ 1280 · |b| + 16016
  * `V5.v5_cost_bound`            decodeCost ≤ |b| + 65535·48
  * `produce_cost_bound`, `produce_cost_bound_sflow`, `produce_cost_bound_v5`
                                  the conversion of the decoded packet obeys the same bounds; moreover
                                  decode + produce together do (`Netflow.netflow_split` + `netflow_total_bound`, …):
                                  the two are not budgeted twice
  * `cost_within_budget`          pipeCost k cfg st src d ≤ 16 MiB + 256 · |d| · (1 + widest k st src d)
                                  for |d| ≤ `maxDatagram` = 16000 (`cost_within_budget_udp`: ≤ 9000, the receive buffer)
  * `uncapped_cost_unbounded`     negative control: without the cap of one sFlow site an 80-byte datagram
                                  costs 6000 × its budget

  The three facts everything rests on:
  (1) a successfully read list of n elements consumed at least n × (wire size) bytes of input
      (`decodeTemplateFields_consumes`, `decodeFieldsN_consumes`, `usingFields_facts`, `readRecord_consumes`,
      `recordLoopCost_bound`, `sampleCost_le`: a sample that allocates has ≥ 12 bytes);
  (2) a claimed count that is not backed by input costs ONE allocation of at most 65535 × element size
      (16-bit counts: `abandon`) or 1000 × element size (capped 32-bit counts), and then the datagram is
      abandoned — every decode error of the models is fatal for the datagram (`setsCost_bound`);
  (3) a data record allocates one `[]DataField` of the width of ITS template, which is in the exporter's
      store when the set begins (`get_width_le`, `flowSetCost_bound`).

  `widest` is `Netflow.setsWidest`: the widest template of the exporter's store at any set boundary
  while `d` is decoded, i.e. of the store on arrival and of the templates `d` announces — an upper
  bound of "the widest template the datagram references".

  The length hypothesis is needed, and not only for the model: the pre-built harness measures
  24 693 904 bytes for a 20 028-byte sFlow datagram of 1000 twenty-byte counter samples each claiming
  1000 records (1000 × make([]CounterRecord, 1000)); the budget for that length is 21 904 384.
  Below about 16 360 bytes the budget holds. The collector's UDP receiver reads into 9000 bytes.
-/
namespace Goflow.C02Cost
open Goflow Goflow.Cost

/-! ### arithmetic helpers -/

/-- one loop iteration that consumed `c ≥ 1` bytes and cost at most `K + k·c`, followed by a rest
    bounded by `P·r + A` -/
theorem lin_step {P K k c r len X A : Nat} (hc : 1 ≤ c) (hK : K + k ≤ P) (hlen : c + r ≤ len)
    (hX : X ≤ K + k * c + (P * r + A)) : X ≤ P * len + A := by
  have h1 : P * (c + r) ≤ P * len := Nat.mul_le_mul_left P hlen
  rw [Nat.mul_add] at h1
  have h2 : (K + k) * c ≤ P * c := Nat.mul_le_mul_right c hK
  rw [Nat.add_mul] at h2
  have h3 : K ≤ K * c := Nat.le_mul_of_pos_right K hc
  omega

theorem lin_step0 {P K k c r len X : Nat} (hc : 1 ≤ c) (hK : K + k ≤ P) (hlen : c + r ≤ len)
    (hX : X ≤ K + k * c + P * r) : X ≤ P * len := by
  have := lin_step (A := 0) hc hK hlen (by omega)
  omega

theorem mul_mono_len {P a b : Nat} (h : a ≤ b) : P * a ≤ P * b := Nat.mul_le_mul_left P h

/-! ### reader facts -/

theorem readFields_fits {ws : List Nat} {b b' : Bytes} {vs : List Nat} (h : readFields ws b = .ok (vs, b')) :
    Fits ws vs := by
  by_cases hn : sumW ws ≤ b.length
  · obtain ⟨vs', h1, _, h3⟩ := readFields_ok_of_le ws b hn
    rw [h1] at h
    simp only [Except.ok.injEq, Prod.mk.injEq] at h
    obtain ⟨rfl, _⟩ := h
    exact h3
  · rw [readFields_err_of_lt _ _ (Nat.lt_of_not_le hn)] at h; cases h

theorem readFields2 {b b' : Bytes} {vs : List Nat} (h : readFields [2, 2] b = .ok (vs, b')) :
    ∃ x y, vs = [x, y] ∧ b'.length + 4 = b.length ∧ x ≤ 65535 ∧ y ≤ 65535 := by
  obtain ⟨x, y, rfl, hl⟩ := readFields2_shape h
  have := readFields_fits h
  simp only [Fits] at this
  exact ⟨x, y, rfl, hl, by omega, by omega⟩

theorem readFields3 {b b' : Bytes} {vs : List Nat} (h : readFields [2, 2, 2] b = .ok (vs, b')) :
    ∃ x y z, vs = [x, y, z] ∧ b'.length + 6 = b.length ∧ x ≤ 65535 ∧ y ≤ 65535 ∧ z ≤ 65535 := by
  obtain ⟨x, y, z, rfl, hl⟩ := readFields3_shape h
  have := readFields_fits h
  simp only [Fits] at this
  exact ⟨x, y, z, rfl, hl, by omega, by omega, by omega⟩

namespace Netflow
open Goflow.Netflow

/-- a successfully read list of n template fields consumed at least 4·n bytes -/
theorem decodeTemplateFields_consumes (version n : Nat) (b b' : Bytes) (fs : List Field)
    (h : decodeTemplateFields version n b = .ok (fs, b')) : b'.length + 4 * n ≤ b.length := by
  induction n generalizing b b' fs with
  | zero => simp [decodeTemplateFields] at h; obtain ⟨_, rfl⟩ := h; omega
  | succ n ih =>
    unfold decodeTemplateFields at h
    cases hr : readFields [2, 2] b with
    | error e => rw [hr] at h; cases h
    | ok r =>
      obtain ⟨vs, b1⟩ := r
      obtain ⟨t, l, rfl, hl, _, _⟩ := readFields2 hr
      rw [hr] at h
      simp only at h
      split at h
      · cases hu : readU 4 b1 with
        | error e => rw [hu] at h; cases h
        | ok r2 =>
          obtain ⟨pen, b2⟩ := r2
          have := readU_ok_length hu
          rw [hu] at h
          simp only at h
          cases hrec : decodeTemplateFields version n b2 with
          | error e => rw [hrec] at h; cases h
          | ok r3 =>
            obtain ⟨fs', b3⟩ := r3
            rw [hrec] at h
            cases h
            have := ih _ _ _ hrec
            omega
      · cases hrec : decodeTemplateFields version n b1 with
        | error e => rw [hrec] at h; cases h
        | ok r3 =>
          obtain ⟨fs', b3⟩ := r3
          rw [hrec] at h
          cases h
          have := ih _ _ _ hrec
          omega

theorem decodeField_consumes (pen : Bool) (b b' : Bytes) (f : Field)
    (h : decodeField pen b = .ok (f, b')) : b'.length + 4 ≤ b.length := by
  unfold decodeField at h
  cases hr : readFields [2, 2] b with
  | error e => rw [hr] at h; cases h
  | ok r =>
    obtain ⟨vs, b1⟩ := r
    obtain ⟨t, l, rfl, hl, _, _⟩ := readFields2 hr
    rw [hr] at h
    simp only at h
    split at h
    · cases hu : readU 4 b1 with
      | error e => rw [hu] at h; cases h
      | ok r2 =>
        obtain ⟨p, b2⟩ := r2
        have := readU_ok_length hu
        rw [hu] at h
        cases h
        omega
    · cases h; omega

theorem decodeFieldsN_consumes (pen : Bool) (n : Nat) (b b' : Bytes) (fs : List Field)
    (h : decodeFieldsN pen n b = .ok (fs, b')) : b'.length + 4 * n ≤ b.length := by
  induction n generalizing b b' fs with
  | zero => simp [decodeFieldsN] at h; obtain ⟨_, rfl⟩ := h; omega
  | succ n ih =>
    unfold decodeFieldsN at h
    cases hd : decodeField pen b with
    | error e => rw [hd] at h; cases h
    | ok r =>
      obtain ⟨f, b1⟩ := r
      have := decodeField_consumes _ _ _ _ hd
      rw [hd] at h
      simp only at h
      cases hrec : decodeFieldsN pen n b1 with
      | error e => rw [hrec] at h; cases h
      | ok r2 =>
        obtain ⟨fs', b2⟩ := r2
        rw [hrec] at h
        cases h
        have := ih _ _ _ hrec
        omega

/-- the one allocation a datagram can leave unbacked: a 16-bit count of 12-byte fields -/
def abandon : Nat := 65535 * 12

/-- DecodeTemplateSet: 44 bytes per byte of input; a failed decode has in addition paid for one
    unbacked `make([]Field, count)`; a successful one returns at most one template per 4 bytes -/
theorem templateSetCost_bound (version fuel : Nat) (b : Bytes) :
    templateSetCost version fuel b ≤ 44 * b.length + abandon ∧
    (∀ rs, decodeTemplateSet version fuel b = .ok rs →
      templateSetCost version fuel b ≤ 44 * b.length ∧ 4 * rs.length ≤ b.length) := by
  induction fuel generalizing b with
  | zero => simp [templateSetCost, decodeTemplateSet]
  | succ fuel ih =>
    unfold templateSetCost decodeTemplateSet
    by_cases h4 : 4 ≤ b.length
    · simp only [h4, if_true]
      cases hr : readFields [2, 2] b with
      | error e => simp
      | ok r =>
        obtain ⟨vs, b1⟩ := r
        obtain ⟨tid, fc, rfl, hl, _, hfc⟩ := readFields2 hr
        simp only
        cases hd : decodeTemplateFields version fc b1 with
        | error e => simp [abandon, szField]; omega
        | ok r2 =>
          obtain ⟨fs, b2⟩ := r2
          have hc := decodeTemplateFields_consumes _ _ _ _ _ hd
          obtain ⟨i1, i2⟩ := ih b2
          simp only [szField, appTemplateRecord]
          constructor
          · omega
          · intro rs hrs
            cases hrec : decodeTemplateSet version fuel b2 with
            | error e => rw [hrec] at hrs; cases hrs
            | ok rs' =>
              rw [hrec] at hrs
              cases hrs
              obtain ⟨j1, j2⟩ := i2 _ hrec
              simp only [List.length_cons]
              omega
    · simp only [h4, if_false]
      refine ⟨by omega, fun rs h => ?_⟩
      cases h
      simp

/-- DecodeNFv9OptionsTemplateSet -/
theorem v9OptsSetCost_bound (fuel : Nat) (b : Bytes) :
    v9OptsSetCost fuel b ≤ 52 * b.length + abandon ∧
    (∀ rs, decodeNFv9OptionsTemplateSet fuel b = .ok rs →
      v9OptsSetCost fuel b ≤ 52 * b.length ∧ 4 * rs.length ≤ b.length) := by
  induction fuel generalizing b with
  | zero => simp [v9OptsSetCost, decodeNFv9OptionsTemplateSet]
  | succ fuel ih =>
    unfold v9OptsSetCost decodeNFv9OptionsTemplateSet
    by_cases h4 : 4 ≤ b.length
    · simp only [h4, if_true]
      cases hr : readFields [2, 2, 2] b with
      | error e => simp
      | ok r =>
        obtain ⟨vs, b1⟩ := r
        obtain ⟨tid, sl, ol, rfl, hl, _, hsl, hol⟩ := readFields3 hr
        simp only
        cases hd : decodeFieldsN false (sl / 4) b1 with
        | error e => simp [abandon, szField]; omega
        | ok r2 =>
          obtain ⟨scopes, b2⟩ := r2
          have hc := decodeFieldsN_consumes _ _ _ _ _ hd
          simp only
          cases hd2 : decodeFieldsN false (ol / 4) b2 with
          | error e => simp [abandon, szField]; omega
          | ok r3 =>
            obtain ⟨opts, b3⟩ := r3
            have hc2 := decodeFieldsN_consumes _ _ _ _ _ hd2
            obtain ⟨i1, i2⟩ := ih b3
            simp only [szField, appOptsTemplateRecord]
            constructor
            · omega
            · intro rs hrs
              cases hrec : decodeNFv9OptionsTemplateSet fuel b3 with
              | error e => rw [hrec] at hrs; cases hrs
              | ok rs' =>
                rw [hrec] at hrs
                cases hrs
                obtain ⟨j1, j2⟩ := i2 _ hrec
                simp only [List.length_cons]
                omega
    · simp only [h4, if_false]
      refine ⟨by omega, fun rs h => ?_⟩
      cases h
      simp

/-- DecodeIPFIXOptionsTemplateSet -/
theorem ipfixOptsSetCost_bound (fuel : Nat) (b : Bytes) :
    ipfixOptsSetCost fuel b ≤ 52 * b.length + abandon ∧
    (∀ rs, decodeIPFIXOptionsTemplateSet fuel b = .ok rs →
      ipfixOptsSetCost fuel b ≤ 52 * b.length ∧ 4 * rs.length ≤ b.length) := by
  induction fuel generalizing b with
  | zero => simp [ipfixOptsSetCost, decodeIPFIXOptionsTemplateSet]
  | succ fuel ih =>
    unfold ipfixOptsSetCost decodeIPFIXOptionsTemplateSet
    by_cases h4 : 4 ≤ b.length
    · simp only [h4, if_true]
      cases hr : readFields [2, 2, 2] b with
      | error e => simp
      | ok r =>
        obtain ⟨vs, b1⟩ := r
        obtain ⟨tid, fc, sfc, rfl, hl, _, hfc, hsfc⟩ := readFields3 hr
        simp only
        cases hd : decodeFieldsN true sfc b1 with
        | error e => simp [abandon, szField]; omega
        | ok r2 =>
          obtain ⟨scopes, b2⟩ := r2
          have hc := decodeFieldsN_consumes _ _ _ _ _ hd
          simp only
          by_cases hlt : fc < sfc
          · simp [hlt, abandon, szField]; omega
          · simp only [hlt, if_false]
            cases hd2 : decodeFieldsN true (fc - sfc) b2 with
            | error e => simp [abandon, szField]; omega
            | ok r3 =>
              obtain ⟨opts, b3⟩ := r3
              have hc2 := decodeFieldsN_consumes _ _ _ _ _ hd2
              obtain ⟨i1, i2⟩ := ih b3
              simp only [szField, appOptsTemplateRecord]
              constructor
              · omega
              · intro rs hrs
                cases hrec : decodeIPFIXOptionsTemplateSet fuel b3 with
                | error e => rw [hrec] at hrs; cases hrs
                | ok rs' =>
                  rw [hrec] at hrs
                  cases hrs
                  obtain ⟨j1, j2⟩ := i2 _ hrec
                  simp only [List.length_cons]
                  omega
    · simp only [h4, if_false]
      refine ⟨by omega, fun rs h => ?_⟩
      cases h
      simp

/-! ### data sets -/

/-- bytes held by the values of a decoded record -/
def valBytes : List DataField → Nat
  | [] => 0
  | df :: rest => (df.value.getD []).length + valBytes rest

theorem valBytes_replicate_zero (n : Nat) : valBytes (List.replicate n zeroDataField) = 0 := by
  induction n with
  | zero => rfl
  | succ n ih => rw [List.replicate_succ]; simp only [valBytes, ih]; rfl

/-- the values of a decoded record are disjoint pieces of the consumed input -/
theorem decodeFieldValues_valBytes (fs : List Field) (b b' : Bytes) (dfs : List DataField)
    (h : decodeFieldValues fs b = .ok (dfs, b')) : valBytes dfs + b'.length ≤ b.length := by
  induction fs generalizing b b' dfs with
  | nil =>
    simp only [decodeFieldValues, Except.ok.injEq, Prod.mk.injEq] at h
    obtain ⟨rfl, rfl⟩ := h
    simp [valBytes]
  | cons f fs ih =>
    unfold decodeFieldValues at h
    by_cases hv : f.length = 0xffff
    · simp only [hv, if_true] at h
      by_cases h1 : 1 ≤ b.length
      · rw [readU_ok h1] at h
        simp only at h
        by_cases h255 : beNat (b.take 1) = 0xff
        · simp only [h255, if_true] at h
          by_cases h2 : 2 ≤ (b.drop 1).length
          · rw [readU_ok h2] at h
            simp only [nextN] at h
            split at h
            · cases h
            · rename_i dfs' b3 hrec
              cases h
              have := ih _ _ _ hrec
              simp only [List.length_drop] at this h2
              simp only [valBytes, Option.getD_some, List.length_take, List.length_drop]
              omega
          · rw [readU_short (Nat.lt_of_not_le h2)] at h
            cases h
        · simp only [h255, if_false, nextN] at h
          split at h
          · cases h
          · rename_i dfs' b3 hrec
            cases h
            have := ih _ _ _ hrec
            simp only [List.length_drop] at this
            simp only [valBytes, Option.getD_some, List.length_take, List.length_drop]
            omega
      · rw [readU_short (Nat.lt_of_not_le h1)] at h
        cases h
    · simp only [hv, if_false, nextN] at h
      split at h
      · cases h
      · rename_i dfs' b3 hrec
        cases h
        have := ih _ _ _ hrec
        simp only [List.length_drop] at this
        simp only [valBytes, Option.getD_some, List.length_take]
        omega

/-- DecodeDataSetUsingFields: one value per template field, the values lie inside the consumed input,
    and a decoded record consumed at least the record size of the template -/
theorem usingFields_facts (fs : List Field) (b b1 : Bytes) (vs : List DataField)
    (h : decodeDataSetUsingFields fs b = .ok (vs, b1)) :
    vs.length = fs.length ∧ valBytes vs + b1.length ≤ b.length ∧
    (templateSize fs ≤ b.length → b1.length + templateSize fs ≤ b.length) := by
  unfold decodeDataSetUsingFields at h
  by_cases hsz : templateSize fs ≤ b.length
  · simp only [hsz, if_true] at h
    have h1 := decodeFieldValues_consumes _ _ _ _ h
    have h2 := decodeFieldValues_valBytes _ _ _ _ h
    exact ⟨h1.2, h2, fun _ => by omega⟩
  · simp only [hsz, if_false] at h
    cases h
    simp [valBytes_replicate_zero, hsz]

theorem usingFieldsCost_le (fs : List Field) (b : Bytes) : usingFieldsCost fs b ≤ 48 * fs.length := by
  unfold usingFieldsCost
  simp only [szDataField, szSliceBox]
  split <;> omega

/-- DecodeDataSet: every record consumed at least one byte and cost at most `P` per consumed byte,
    where `P` covers the fixed cost of a record, its `fs.length` fields and the bytes of its values;
    a failed record only has its `make` charged -/
theorem dataSetLoopCost_bound (g : List DataField → Nat) (gc gf gv : Nat)
    (Hg : ∀ vs, g vs ≤ gc + gf * vs.length + gv * valBytes vs)
    (fs : List Field) (hpos : 0 < templateSize fs) (P : Nat)
    (hP : 132 + gc + gv + (48 + gf) * fs.length ≤ P) (fuel : Nat) (b : Bytes) :
    dataSetLoopCost g fs fuel b ≤ P * b.length := by
  induction fuel generalizing b with
  | zero => simp [dataSetLoopCost]
  | succ fuel ih =>
    unfold dataSetLoopCost
    by_cases hsz : templateSize fs ≤ b.length
    · simp only [hsz, if_true]
      have hu := usingFieldsCost_le fs b
      have hlen : 1 ≤ b.length := by omega
      cases hd : decodeDataSetUsingFields fs b with
      | error e =>
        simp only
        have : P ≤ P * b.length := Nat.le_mul_of_pos_right P hlen
        rw [Nat.add_mul] at hP
        omega
      | ok r =>
        obtain ⟨vs, b1⟩ := r
        simp only
        obtain ⟨f1, f2, f3⟩ := usingFields_facts _ _ _ _ hd
        have f3' := f3 hsz
        have hg := Hg vs
        rw [f1] at hg
        have hrec := ih b1
        have hvb : gv * valBytes vs ≤ gv * (b.length - b1.length) := Nat.mul_le_mul_left gv (by omega)
        rw [Nat.add_mul] at hP
        refine lin_step0 (K := 132 + gc + 48 * fs.length + gf * fs.length) (k := gv)
          (c := b.length - b1.length) (r := b1.length) (by omega) (by omega) (by omega) ?_
        simp only [appDataRecord]
        omega
    · simp [hsz]

theorem dataSetCost_bound (g : List DataField → Nat) (gc gf gv : Nat)
    (Hg : ∀ vs, g vs ≤ gc + gf * vs.length + gv * valBytes vs)
    (fs : List Field) (P : Nat) (hP : 132 + gc + gv + (48 + gf) * fs.length ≤ P) (fuel : Nat) (b : Bytes) :
    dataSetCost g fs fuel b ≤ P * b.length := by
  unfold dataSetCost
  split
  · omega
  · rename_i hz
    exact dataSetLoopCost_bound g gc gf gv Hg fs (Nat.pos_of_ne_zero hz) P hP fuel b

/-- DecodeOptionsDataSet -/
theorem optsDataLoopCost_bound (go : Nat) (sc op : List Field) (hpos : 0 < templateSize sc + templateSize op)
    (P : Nat) (hP : 264 + go + 48 * (sc.length + op.length) ≤ P) (fuel : Nat) (b : Bytes) :
    optsDataLoopCost go sc op fuel b ≤ P * b.length := by
  induction fuel generalizing b with
  | zero => simp [optsDataLoopCost]
  | succ fuel ih =>
    unfold optsDataLoopCost
    by_cases hsz : templateSize sc + templateSize op ≤ b.length
    · simp only [hsz, if_true]
      have hu := usingFieldsCost_le sc b
      have hlen : 1 ≤ b.length := by omega
      have hPl : P ≤ P * b.length := Nat.le_mul_of_pos_right P hlen
      cases hd : decodeDataSetUsingFields sc b with
      | error e => simp only; omega
      | ok r =>
        obtain ⟨sv, b1⟩ := r
        simp only
        obtain ⟨_, _, f3⟩ := usingFields_facts _ _ _ _ hd
        have hu2 := usingFieldsCost_le op b1
        obtain ⟨_, s2⟩ := decodeDataSetUsingFields_safe sc b
        obtain ⟨a1, _⟩ := s2 sv b1 hd
        cases hd2 : decodeDataSetUsingFields op b1 with
        | error e => simp only; omega
        | ok r2 =>
          obtain ⟨ov, b2⟩ := r2
          simp only
          obtain ⟨_, _, g3⟩ := usingFields_facts _ _ _ _ hd2
          obtain ⟨_, t2⟩ := decodeDataSetUsingFields_safe op b1
          obtain ⟨c1, _⟩ := t2 ov b2 hd2
          have hprog : b2.length + 1 ≤ b.length := by
            by_cases hs0 : templateSize sc = 0
            · by_cases heq : b1.length = b.length
              · have := g3 (by omega); omega
              · omega
            · have := f3 (by omega); omega
          have hrec := ih b2
          refine lin_step0 (K := 264 + go + 48 * (sc.length + op.length)) (k := 0)
            (c := b.length - b2.length) (r := b2.length) (by omega) (by omega) (by omega) ?_
          simp only [appOptsDataRecord]
          omega
    · simp [hsz]

theorem optsDataSetCost_bound (go : Nat) (sc op : List Field)
    (P : Nat) (hP : 264 + go + 48 * (sc.length + op.length) ≤ P) (fuel : Nat) (b : Bytes) :
    optsDataSetCost go sc op fuel b ≤ P * b.length := by
  unfold optsDataSetCost
  split
  · omega
  · rename_i hz
    exact optsDataLoopCost_bound go sc op (Nat.pos_of_ne_zero hz) P hP fuel b

/-! ### sets -/

theorem set_step {P k c0 body len X A : Nat} (hk : k ≤ P) (hc0 : c0 ≤ 4 * P) (hlen : 4 + body ≤ len)
    (hX : X ≤ c0 + k * body + A) : X ≤ P * len + A := by
  have h1 : P * (4 + body) ≤ P * len := Nat.mul_le_mul_left P hlen
  rw [Nat.mul_add] at h1
  have h2 : k * body ≤ P * body := Nat.mul_le_mul_right body hk
  omega

theorem get_width_le (s : Store) (k : Nat) (t : Template) (h : s.get k = some t) : t.width ≤ storeWidth s := by
  unfold Store.get at h
  unfold storeWidth
  induction s with
  | nil => simp [List.lookup] at h
  | cons e s ih =>
    obtain ⟨k', t'⟩ := e
    simp only [List.lookup] at h
    simp only [List.map_cons, List.foldr_cons]
    split at h
    · cases h; exact Nat.le_max_left _ _
    · exact Nat.le_trans (ih h) (Nat.le_max_right _ _)

theorem addTemplatesCost_le (prom : Bool) (version dom : Nat) (s : Store) (l : List (Nat × Template)) :
    addTemplatesCost prom version dom s l ≤ 3072 * l.length := by
  induction l generalizing s with
  | nil => simp [addTemplatesCost]
  | cons e l ih =>
    obtain ⟨tid, t⟩ := e
    simp only [addTemplatesCost, List.length_cons]
    have := ih (s.add (templateKey version dom tid) t)
    have h2 : tplAdd prom (s.get (templateKey version dom tid)).isNone ≤ 3072 := by
      unfold tplAdd; split <;> (try split) <;> omega
    omega

/-- DecodeMessageCommonFlowSet. `P` is the price of one byte of input: it covers a template and its
    registration per 4 bytes of template set (820), a data record of the widest template `W` of the
    store, an options record, and — on the 4 header bytes — the fixed cost of a set (`setFixed` is the
    caller's share of it). A set that fails has in addition paid for one unbacked `make`. -/
theorem flowSetCost_bound (G : Share) (gc gf gv go : Nat)
    (Hrec : ∀ vs, G.record vs ≤ gc + gf * vs.length + gv * valBytes vs) (Hopt : G.opt ≤ go)
    (prom : Bool) (W P setFixed : Nat) (hP1 : 820 ≤ P) (hP2 : 132 + gc + gv + (48 + gf) * W ≤ P)
    (hP3 : 264 + go + 48 * W ≤ P) (hP4 : setFixed + 192 ≤ 4 * P)
    (fuel version dom : Nat) (s : Store) (b : Bytes) (hW : storeWidth s ≤ W) :
    flowSetCost G prom fuel version dom s b ≤ P * b.length + abandon ∧
    (∀ o, decodeFlowSet fuel version dom s b = .ok o →
      ∃ c, c + o.rest.length = b.length ∧ 4 ≤ c ∧ flowSetCost G prom fuel version dom s b + setFixed ≤ P * c) := by
  unfold flowSetCost decodeFlowSet
  cases hr : readFields [2, 2] b with
  | error e => simp
  | ok r =>
    obtain ⟨vs, b1⟩ := r
    obtain ⟨id, len, rfl, hl, _, _⟩ := readFields2 hr
    simp only
    by_cases hlen : len < 4
    · simp [hlen]
    · simp only [hlen, if_false, nextN]
      have hbody : (List.take (len - 4) b1).length + (List.drop (len - 4) b1).length = b1.length := by
        simp only [List.length_take, List.length_drop]; omega
      generalize hB : List.take (len - 4) b1 = body at hbody ⊢
      generalize hR : List.drop (len - 4) b1 = rest at hbody ⊢
      by_cases hc1 : id = 0 ∧ version = 9 ∨ id = 2 ∧ version = 10
      · simp only [if_pos hc1]
        obtain ⟨t1, t2⟩ := templateSetCost_bound version fuel body
        cases hd : decodeTemplateSet version fuel body with
        | error e =>
          simp only [szBuffer]
          refine ⟨set_step (k := 44) (c0 := 48) (body := body.length) (by omega) (by omega) (by omega) (by omega), ?_⟩
          intro o ho; cases ho
        | ok rs =>
          obtain ⟨u1, u2⟩ := t2 rs hd
          have ha := addTemplatesCost_le prom version dom s (rs.map fun r => (r.templateId, Template.data r))
          simp only [List.length_map] at ha
          simp only [szBuffer, szSetBox]
          refine ⟨set_step (k := 812) (c0 := 80) (body := body.length) (by omega) (by omega) (by omega) (by omega), ?_⟩
          intro o ho; cases ho
          refine ⟨4 + body.length, by simp only; omega, by omega, ?_⟩
          have := set_step (A := 0) (X := 48 + templateSetCost version fuel body + (32 + addTemplatesCost prom version dom s (rs.map fun r => (r.templateId, Template.data r))) + setFixed)
            (k := 812) (c0 := 80 + setFixed) (body := body.length) (len := 4 + body.length) (P := P) (by omega) (by omega) (by omega) (by omega)
          omega
      · simp only [if_neg hc1]
        by_cases hc2 : id = 1 ∧ version = 9
        · simp only [if_pos hc2]
          obtain ⟨t1, t2⟩ := v9OptsSetCost_bound fuel body
          cases hd : decodeNFv9OptionsTemplateSet fuel body with
          | error e =>
            simp only [szBuffer]
            refine ⟨set_step (k := 52) (c0 := 48) (body := body.length) (by omega) (by omega) (by omega) (by omega), ?_⟩
            intro o ho; cases ho
          | ok rs =>
            obtain ⟨u1, u2⟩ := t2 rs hd
            have ha := addTemplatesCost_le prom version dom s (rs.map fun r => (r.templateId, Template.v9opts r))
            simp only [List.length_map] at ha
            simp only [szBuffer, szSetBox]
            refine ⟨set_step (k := 820) (c0 := 80) (body := body.length) (by omega) (by omega) (by omega) (by omega), ?_⟩
            intro o ho; cases ho
            refine ⟨4 + body.length, by simp only; omega, by omega, ?_⟩
            have := set_step (A := 0) (X := 48 + v9OptsSetCost fuel body + (32 + addTemplatesCost prom version dom s (rs.map fun r => (r.templateId, Template.v9opts r))) + setFixed)
              (k := 820) (c0 := 80 + setFixed) (body := body.length) (len := 4 + body.length) (P := P) (by omega) (by omega) (by omega) (by omega)
            omega
        · simp only [if_neg hc2]
          by_cases hc3 : id = 3 ∧ version = 10
          · simp only [if_pos hc3]
            obtain ⟨t1, t2⟩ := ipfixOptsSetCost_bound fuel body
            cases hd : decodeIPFIXOptionsTemplateSet fuel body with
            | error e =>
              simp only [szBuffer]
              refine ⟨set_step (k := 52) (c0 := 48) (body := body.length) (by omega) (by omega) (by omega) (by omega), ?_⟩
              intro o ho; cases ho
            | ok rs =>
              obtain ⟨u1, u2⟩ := t2 rs hd
              have ha := addTemplatesCost_le prom version dom s (rs.map fun r => (r.templateId, Template.ipfixopts r))
              simp only [List.length_map] at ha
              simp only [szBuffer, szSetBox]
              refine ⟨set_step (k := 820) (c0 := 80) (body := body.length) (by omega) (by omega) (by omega) (by omega), ?_⟩
              intro o ho; cases ho
              refine ⟨4 + body.length, by simp only; omega, by omega, ?_⟩
              have := set_step (A := 0) (X := 48 + ipfixOptsSetCost fuel body + (32 + addTemplatesCost prom version dom s (rs.map fun r => (r.templateId, Template.ipfixopts r))) + setFixed)
                (k := 820) (c0 := 80 + setFixed) (body := body.length) (len := 4 + body.length) (P := P) (by omega) (by omega) (by omega) (by omega)
              omega
          · simp only [if_neg hc3]
            by_cases hc4 : id ≥ 256
            · simp only [if_pos hc4]
              -- a data set: every branch costs at most 192 + P·|body|
              have key : ∀ X : Nat, X ≤ 192 + P * body.length →
                  X ≤ P * b.length + abandon ∧ X + setFixed ≤ P * (4 + body.length) := by
                intro X hX
                have h1 : P * (4 + body.length) ≤ P * b.length := Nat.mul_le_mul_left P (by omega)
                rw [Nat.mul_add] at h1 ⊢
                omega
              cases hg : s.get (templateKey version dom id) with
              | none =>
                simp only [szSetBox, szBuffer, szTnf]
                obtain ⟨k1, k2⟩ := key (32 + 48 + 112) (by omega)
                refine ⟨k1, ?_⟩
                intro o ho; cases ho
                exact ⟨4 + body.length, by simp only; omega, by omega, k2⟩
              | some t =>
                have hw := Nat.le_trans (get_width_le s _ t hg) hW
                cases t with
                | data r =>
                  simp only [Template.width] at hw
                  have hP' : 132 + gc + gv + (48 + gf) * r.fields.length ≤ P :=
                    Nat.le_trans (by have := Nat.mul_le_mul_left (48 + gf) hw; omega) hP2
                  have hd := dataSetCost_bound G.record gc gf gv Hrec r.fields P hP' fuel body
                  simp only [szSetBox, szBuffer]
                  obtain ⟨k1, k2⟩ := key (32 + 48 + (dataSetCost G.record r.fields fuel body + 32)) (by omega)
                  refine ⟨k1, ?_⟩
                  intro o ho
                  cases hdec : decodeDataSet r.fields fuel body with
                  | error e => rw [hdec] at ho; cases ho
                  | ok rs =>
                    rw [hdec] at ho; cases ho
                    exact ⟨4 + body.length, by simp only; omega, by omega, k2⟩
                | ipfixopts r =>
                  simp only [Template.width] at hw
                  have hP' : 264 + G.opt + 48 * (r.scopes.length + r.options.length) ≤ P := by omega
                  have hd := optsDataSetCost_bound G.opt r.scopes r.options P hP' fuel body
                  simp only [szSetBox, szBuffer]
                  obtain ⟨k1, k2⟩ := key (32 + 48 + (optsDataSetCost G.opt r.scopes r.options fuel body + 32)) (by omega)
                  refine ⟨k1, ?_⟩
                  intro o ho
                  cases hdec : decodeOptionsDataSet r.scopes r.options fuel body with
                  | error e => rw [hdec] at ho; cases ho
                  | ok rs =>
                    rw [hdec] at ho; cases ho
                    exact ⟨4 + body.length, by simp only; omega, by omega, k2⟩
                | v9opts r =>
                  simp only [Template.width] at hw
                  have hP' : 264 + G.opt + 48 * (r.scopes.length + r.options.length) ≤ P := by omega
                  have hd := optsDataSetCost_bound G.opt r.scopes r.options P hP' fuel body
                  simp only [szSetBox, szBuffer]
                  obtain ⟨k1, k2⟩ := key (32 + 48 + (optsDataSetCost G.opt r.scopes r.options fuel body + 32)) (by omega)
                  refine ⟨k1, ?_⟩
                  intro o ho
                  cases hdec : decodeOptionsDataSet r.scopes r.options fuel body with
                  | error e => rw [hdec] at ho; cases ho
                  | ok rs =>
                    rw [hdec] at ho; cases ho
                    exact ⟨4 + body.length, by simp only; omega, by omega, k2⟩
            · simp only [if_neg hc4]; simp

/-- DecodeMessageCommon: the sets of a message share its bytes; only the one that fails can leave an
    allocation unbacked, because a failing set ends the datagram -/
theorem setsCost_bound (G : Share) (gc gf gv go gs : Nat)
    (Hrec : ∀ vs, G.record vs ≤ gc + gf * vs.length + gv * valBytes vs) (Hopt : G.opt ≤ go) (Hset : G.set ≤ gs)
    (prom : Bool) (W P : Nat) (hP1 : 820 ≤ P) (hP2 : 132 + gc + gv + (48 + gf) * W ≤ P)
    (hP3 : 264 + go + 48 * W ≤ P) (hP4 : 88 + gs + 192 ≤ 4 * P)
    (version dom size startLen fuel : Nat) (i : Nat) (s : Store) (b : Bytes)
    (hW : setsWidest version dom size startLen fuel i s b ≤ W) :
    setsCost G prom version dom size startLen fuel i s b ≤ P * b.length + abandon := by
  induction fuel generalizing i s b with
  | zero => simp [setsCost]
  | succ fuel ih =>
    unfold setsCost
    unfold setsWidest at hW
    by_cases hcnd : ((i < size ∧ version = 9) ∨ ((startLen - b.length) % 65536 < size ∧ version = 10)) ∧ 0 < b.length
    · simp only [if_pos hcnd] at hW ⊢
      cases hd : decodeFlowSet (b.length + 2) version dom s b with
      | error e =>
        rw [hd] at hW
        simp only at hW ⊢
        exact (flowSetCost_bound G gc gf gv go Hrec Hopt prom W P (88 + gs) hP1 hP2 hP3 (by omega)
          (b.length + 2) version dom s b hW).1
      | ok o =>
        rw [hd] at hW
        simp only at hW ⊢
        have hW1 : storeWidth s ≤ W := Nat.le_trans (Nat.le_max_left _ _) hW
        have hW2 := Nat.le_trans (Nat.le_max_right _ _) hW
        obtain ⟨c, hc1, hc2, hc3⟩ := (flowSetCost_bound G gc gf gv go Hrec Hopt prom W P (88 + gs) hP1 hP2 hP3 (by omega)
          (b.length + 2) version dom s b hW1).2 o hd
        have hrec := ih (i + 1) o.store o.rest hW2
        have hm : P * (c + o.rest.length) = P * b.length := by rw [hc1]
        rw [Nat.mul_add] at hm
        simp only [appIface]
        omega
    · simp only [if_neg hcnd]
      omega

/-- the price of one byte of a v9 / IPFIX datagram whose widest referenced template has `W` fields:
    928 bytes whatever the template (a one-byte record still gets a 576-byte message and its places
    in three lists; a template registered with Prometheus costs 820 per byte) and 252 per field
    (DataField 24, boxed value 24, mapping key 72, the MplsIp append 132) -/
def price (W : Nat) : Nat := 928 + 252 * W

theorem parseCost_le (v : Bytes) : Producer.parseCost v ≤ 44 * v.length := by
  unfold Producer.parseCost
  simp only [parseFixed, parsePerByte]
  split <;> omega

theorem actionCost_le (v : Bytes) (a : Option Producer.Action) : Producer.actionCost v a ≤ 132 + 44 * v.length := by
  have := parseCost_le v
  cases a with
  | none => simp [Producer.actionCost]
  | some act => cases act <;> simp [Producer.actionCost, appBytes] <;> omega

theorem fieldsProdCost_le (version : Nat) (vs : List DataField) :
    Producer.fieldsProdCost version vs ≤ 204 * vs.length + 44 * valBytes vs := by
  induction vs with
  | nil => simp [Producer.fieldsProdCost]
  | cons df rest ih =>
    simp only [Producer.fieldsProdCost, List.length_cons, valBytes]
    have hf : Producer.fieldProdCost version df ≤ 204 + 44 * (df.value.getD []).length := by
      unfold Producer.fieldProdCost
      cases hv : df.value with
      | none => simp
      | some v =>
        simp only [Option.getD_some, szMapKey]
        have := actionCost_le v (Producer.lookupAction version df.type)
        split <;> omega
    omega

theorem recordProdCost_le (version : Nat) (vs : List DataField) :
    Producer.recordProdCost version vs ≤ 752 + 204 * vs.length + 44 * valBytes vs := by
  have := fieldsProdCost_le version vs
  simp only [Producer.recordProdCost, szMsg, appIface]
  omega

theorem messageCost_bound (G : Share) (gc gf gv go gs : Nat)
    (Hrec : ∀ vs, G.record vs ≤ gc + gf * vs.length + gv * valBytes vs) (Hopt : G.opt ≤ go) (Hset : G.set ≤ gs)
    (prom : Bool) (W P : Nat) (hP1 : 820 ≤ P) (hP2 : 132 + gc + gv + (48 + gf) * W ≤ P)
    (hP3 : 264 + go + 48 * W ≤ P) (hP4 : 88 + gs + 192 ≤ 4 * P)
    (s : Store) (version : Nat) (b : Bytes) (hW : messageWidest s version b ≤ W) :
    messageCost G prom s version b ≤ P * b.length + abandon := by
  unfold messageCost
  unfold messageWidest at hW
  by_cases h9 : version = 9
  · simp only [if_pos h9] at hW ⊢
    cases hr : readFields [2, 4, 4, 4, 4] b with
    | error e => simp
    | ok r =>
      obtain ⟨vs, b1⟩ := r
      obtain ⟨hl1, hl2⟩ := readFields_length hr
      obtain ⟨c, u, t, q, d, rfl⟩ := list_len5 hl1
      rw [hr] at hW
      simp only at hW ⊢
      have := setsCost_bound G gc gf gv go gs Hrec Hopt Hset prom W P hP1 hP2 hP3 hP4 9 d c b1.length (b1.length + 2) 0 s b1 hW
      have hm : P * b1.length ≤ P * b.length := Nat.mul_le_mul_left P (by omega)
      omega
  · simp only [if_neg h9] at hW ⊢
    by_cases h10 : version = 10
    · simp only [if_pos h10] at hW ⊢
      cases hr : readFields [2, 4, 4, 4] b with
      | error e => simp
      | ok r =>
        obtain ⟨vs, b1⟩ := r
        obtain ⟨hl1, hl2⟩ := readFields_length hr
        obtain ⟨l, t, q, d, rfl⟩ := list_len4 hl1
        rw [hr] at hW
        simp only at hW ⊢
        have := setsCost_bound G gc gf gv go gs Hrec Hopt Hset prom W P hP1 hP2 hP3 hP4 10 d ((l + 65536 - 16) % 65536) b1.length (b1.length + 2) 0 s b1 hW
        have hm : P * b1.length ≤ P * b.length := Nat.mul_le_mul_left P (by omega)
        omega
    · simp only [if_neg h10]
      omega

/-- decoding AND producing a v9 / IPFIX message, charged along the decode -/
theorem netflow_total_bound (prom : Bool) (s : Store) (version : Nat) (b : Bytes) (W : Nat)
    (hW : messageWidest s version b ≤ W) :
    messageCost (Producer.netflowShare version) prom s version b ≤ price W * b.length + abandon := by
  refine messageCost_bound (Producer.netflowShare version) 752 204 44 144 176
    (recordProdCost_le version) (Nat.le_refl _) (Nat.le_refl _) prom W (price W) ?_ ?_ ?_ ?_ s version b hW
  all_goals (unfold price; omega)

/-- **netflow_cost_bound** — decoding any byte string as a v9 / IPFIX message allocates at most
    `price W` bytes per byte of input plus ONE unbacked allocation of 65535 fields -/
theorem netflow_cost_bound (prom : Bool) (s : Store) (version : Nat) (b : Bytes) (W : Nat)
    (hW : messageWidest s version b ≤ W) :
    decodeCost prom s version b ≤ price W * b.length + abandon := by
  unfold decodeCost
  refine messageCost_bound Share.none 752 204 44 144 176
    (fun vs => by simp [Share.none]) (by simp [Share.none]) (by simp [Share.none]) prom W (price W) ?_ ?_ ?_ ?_ s version b hW
  all_goals (unfold price; omega)

/-! ### the producer's share: what `Produce` allocates for the decoded packet is what the instrumented
    decode charges per record, per options record and per set -/

open Goflow.Producer in
theorem dataSetLoop_split (v : Nat) (fs : List Field) (fuel : Nat) (b : Bytes) :
    dataSetLoopCost (fun _ => 0) fs fuel b +
      (match decodeDataSetLoop fs fuel b with | .ok rs => recordsProdCost v rs | .error _ => 0) ≤
    dataSetLoopCost (recordProdCost v) fs fuel b := by
  induction fuel generalizing b with
  | zero => simp [dataSetLoopCost, decodeDataSetLoop]
  | succ fuel ih =>
    unfold dataSetLoopCost decodeDataSetLoop
    by_cases hsz : templateSize fs ≤ b.length
    · simp only [if_pos hsz]
      cases hd : decodeDataSetUsingFields fs b with
      | error e => simp
      | ok r =>
        obtain ⟨vs, b1⟩ := r
        simp only
        have := ih b1
        cases hrec : decodeDataSetLoop fs fuel b1 with
        | error e => rw [hrec] at this; simp only at this ⊢; omega
        | ok rs => rw [hrec] at this; simp only [recordsProdCost] at this ⊢; omega
    · simp [if_neg hsz, recordsProdCost]

open Goflow.Producer in
theorem optsDataLoop_split (sc op : List Field) (fuel : Nat) (b : Bytes) :
    optsDataLoopCost 0 sc op fuel b +
      (match decodeOptionsDataSetLoop sc op fuel b with | .ok rs => rs.length * optsRecordProd | .error _ => 0) ≤
    optsDataLoopCost optsRecordProd sc op fuel b := by
  induction fuel generalizing b with
  | zero => simp [optsDataLoopCost, decodeOptionsDataSetLoop]
  | succ fuel ih =>
    unfold optsDataLoopCost decodeOptionsDataSetLoop
    by_cases hsz : templateSize sc + templateSize op ≤ b.length
    · simp only [if_pos hsz]
      cases hd : decodeDataSetUsingFields sc b with
      | error e => simp
      | ok r =>
        obtain ⟨sv, b1⟩ := r
        simp only
        cases hd2 : decodeDataSetUsingFields op b1 with
        | error e => simp
        | ok r2 =>
          obtain ⟨ov, b2⟩ := r2
          simp only
          have := ih b2
          cases hrec : decodeOptionsDataSetLoop sc op fuel b2 with
          | error e => rw [hrec] at this; simp only at this ⊢; omega
          | ok rs =>
            rw [hrec] at this
            simp only [List.length_cons, Nat.add_mul, Nat.one_mul] at this ⊢
            omega
    · simp [if_neg hsz]

/-- what Produce allocates for one decoded set (beyond its place in the typed list) -/
def setProd (v : Nat) : FlowSet → Nat
  | .data _ _ rs => Producer.recordsProdCost v rs
  | .optsData _ _ rs => rs.length * optsRecordProd
  | _ => 0

theorem flowSet_split (prom : Bool) (fuel v dom : Nat) (s : Store) (b : Bytes) :
    flowSetCost Share.none prom fuel v dom s b +
      (match decodeFlowSet fuel v dom s b with | .ok o => setProd v o.flowSet | .error _ => 0) ≤
    flowSetCost (Producer.netflowShare v) prom fuel v dom s b := by
  unfold flowSetCost decodeFlowSet
  cases hr : readFields [2, 2] b with
  | error e => simp
  | ok r =>
    obtain ⟨vs, b1⟩ := r
    obtain ⟨id, len, rfl, hl, _, _⟩ := readFields2 hr
    simp only
    by_cases hlen : len < 4
    · simp [hlen]
    · simp only [if_neg hlen, nextN]
      generalize List.take (len - 4) b1 = body
      generalize List.drop (len - 4) b1 = rest
      by_cases hc1 : id = 0 ∧ v = 9 ∨ id = 2 ∧ v = 10
      · simp only [if_pos hc1]
        cases decodeTemplateSet v fuel body <;> simp [setProd]
      · simp only [if_neg hc1]
        by_cases hc2 : id = 1 ∧ v = 9
        · simp only [if_pos hc2]
          cases decodeNFv9OptionsTemplateSet fuel body <;> simp [setProd]
        · simp only [if_neg hc2]
          by_cases hc3 : id = 3 ∧ v = 10
          · simp only [if_pos hc3]
            cases decodeIPFIXOptionsTemplateSet fuel body <;> simp [setProd]
          · simp only [if_neg hc3]
            by_cases hc4 : id ≥ 256
            · simp only [if_pos hc4]
              cases hg : s.get (templateKey v dom id) with
              | none => simp [setProd]
              | some t =>
                cases t with
                | data r =>
                  simp only [dataSetCost, decodeDataSet, Share.none, Producer.netflowShare]
                  by_cases hz : templateSize r.fields = 0
                  · simp [hz]
                  · simp only [if_neg hz]
                    have := dataSetLoop_split v r.fields fuel body
                    cases hdec : decodeDataSetLoop r.fields fuel body with
                    | error e => rw [hdec] at this; simp only at this ⊢; omega
                    | ok rs => rw [hdec] at this; simp only [setProd] at this ⊢; omega
                | ipfixopts r =>
                  simp only [optsDataSetCost, decodeOptionsDataSet, Share.none, Producer.netflowShare]
                  by_cases hz : templateSize r.scopes + templateSize r.options = 0
                  · simp [hz]
                  · simp only [if_neg hz]
                    have := optsDataLoop_split r.scopes r.options fuel body
                    cases hdec : decodeOptionsDataSetLoop r.scopes r.options fuel body with
                    | error e => rw [hdec] at this; simp only at this ⊢; omega
                    | ok rs => rw [hdec] at this; simp only [setProd] at this ⊢; omega
                | v9opts r =>
                  simp only [optsDataSetCost, decodeOptionsDataSet, Share.none, Producer.netflowShare]
                  by_cases hz : templateSize r.scopes + templateSize r.options = 0
                  · simp [hz]
                  · simp only [if_neg hz]
                    have := optsDataLoop_split r.scopes r.options fuel body
                    cases hdec : decodeOptionsDataSetLoop r.scopes r.options fuel body with
                    | error e => rw [hdec] at this; simp only at this ⊢; omega
                    | ok rs => rw [hdec] at this; simp only [setProd] at this ⊢; omega
            · simp only [if_neg hc4]; simp

/-- Produce on a list of decoded sets, set by set -/
def setsProd (v : Nat) : List FlowSet → Nat
  | [] => 0
  | fs :: rest => appSet + setProd v fs + setsProd v rest

theorem recordsProdCost_append (v : Nat) (a b : List DataRecord) :
    Producer.recordsProdCost v (a ++ b) = Producer.recordsProdCost v a + Producer.recordsProdCost v b := by
  induction a with
  | nil => simp [Producer.recordsProdCost]
  | cons r a ih => simp [Producer.recordsProdCost, ih, Nat.add_assoc]

theorem setsProd_eq (v : Nat) (l : List FlowSet) :
    l.length * appSet + Producer.recordsProdCost v (Producer.dataRecordsOf l) +
      (Producer.optionRecordsOf l).length * optsRecordProd = setsProd v l := by
  induction l with
  | nil => simp [setsProd, Producer.dataRecordsOf, Producer.optionRecordsOf, Producer.recordsProdCost]
  | cons fs l ih =>
    cases fs <;>
    · simp only [Producer.dataRecordsOf, Producer.optionRecordsOf, List.flatMap_cons, List.nil_append,
        recordsProdCost_append, List.length_append, List.length_cons, setsProd, setProd,
        Nat.add_mul, Nat.one_mul] at ih ⊢
      omega

theorem sets_split (prom : Bool) (v dom size startLen fuel i : Nat) (s : Store) (b : Bytes) :
    setsCost Share.none prom v dom size startLen fuel i s b +
      setsProd v (decodeSets v dom size startLen fuel i s b).flowSets ≤
    setsCost (Producer.netflowShare v) prom v dom size startLen fuel i s b := by
  induction fuel generalizing i s b with
  | zero => simp [setsCost, decodeSets, setsProd]
  | succ fuel ih =>
    unfold setsCost decodeSets
    by_cases hcnd : ((i < size ∧ v = 9) ∨ ((startLen - b.length) % 65536 < size ∧ v = 10)) ∧ 0 < b.length
    · simp only [if_pos hcnd]
      have hf := flowSet_split prom (b.length + 2) v dom s b
      cases hd : decodeFlowSet (b.length + 2) v dom s b with
      | error e => rw [hd] at hf; simp only [setsProd] at hf ⊢; omega
      | ok o =>
        rw [hd] at hf
        have := ih (i + 1) o.store o.rest
        simp only [setsProd, Share.none, Producer.netflowShare] at hf this ⊢
        omega
    · simp [if_neg hcnd, setsProd]

/-- decode, then Produce on the decoded packet: together at most the instrumented decode with the
    producer's share -/
theorem netflow_split (prom : Bool) (s : Store) (v : Nat) (b : Bytes) (hv : v = 9 ∨ v = 10) :
    decodeCost prom s v b +
      Producer.netflowProduceCost (if v = 9 then decodeMessageNetFlow s b else decodeMessageIPFIX s b).packet ≤
    messageCost (Producer.netflowShare v) prom s v b := by
  unfold decodeCost messageCost Producer.netflowProduceCost
  rcases hv with rfl | rfl
  · simp only [if_true, decodeMessageNetFlow]
    cases hr : readFields [2, 4, 4, 4, 4] b with
    | error e => simp [Producer.dataRecordsOf, Producer.optionRecordsOf, Producer.recordsProdCost]
    | ok r =>
      obtain ⟨vs, b1⟩ := r
      obtain ⟨hl1, _⟩ := readFields_length hr
      obtain ⟨c, u, t, q, d, rfl⟩ := list_len5 hl1
      simp only
      rw [setsProd_eq]
      exact sets_split prom 9 d c b1.length (b1.length + 2) 0 s b1
  · simp only [show ¬ (10 = 9) by decide, if_false, if_true, decodeMessageIPFIX]
    cases hr : readFields [2, 4, 4, 4] b with
    | error e => simp [Producer.dataRecordsOf, Producer.optionRecordsOf, Producer.recordsProdCost]
    | ok r =>
      obtain ⟨vs, b1⟩ := r
      obtain ⟨hl1, _⟩ := readFields_length hr
      obtain ⟨l, t, q, d, rfl⟩ := list_len4 hl1
      simp only
      rw [setsProd_eq]
      exact sets_split prom 10 d ((l + 65536 - 16) % 65536) b1.length (b1.length + 2) 0 s b1

end Netflow

/-! ## NetFlow v5 -/
namespace V5
open Goflow.V5

theorem readRecord_consumes (b b' : Bytes) (r : Record) (h : readRecord b = .ok (r, b')) :
    b'.length + 48 = b.length := by
  unfold readRecord at h
  cases hr : readFields Record.widths b with
  | error e => rw [hr] at h; cases h
  | ok q =>
    obtain ⟨vs, b1⟩ := q
    rw [hr] at h
    simp only at h
    have := (readFields_length hr).2
    split at h
    · cases h; simpa [sumW, Record.widths] using this
    · cases h

/-- the record loop: every record consumed 48 bytes -/
theorem readRecordsCost_bound (g P : Nat) (hP : 48 + g ≤ 48 * P) (n : Nat) (b : Bytes) :
    readRecordsCost g n b ≤ P * b.length := by
  induction n generalizing b with
  | zero => simp [readRecordsCost]
  | succ n ih =>
    unfold readRecordsCost
    split
    · cases hr : readRecord b with
      | error e => simp
      | ok q =>
        obtain ⟨r, b'⟩ := q
        simp only [szV5Record]
        have hc := readRecord_consumes _ _ _ hr
        have := ih b'
        have hm : P * (b'.length + 48) = P * b.length := by rw [hc]
        rw [Nat.mul_add] at hm
        omega
    · omega

/-- the one allocation sized by the header: 65535 records of 48 bytes -/
def abandon : Nat := 65535 * 48

theorem messageCost_bound (g P : Nat) (hP : 48 + g ≤ 48 * P) (b : Bytes) :
    messageCost g b ≤ P * b.length + abandon := by
  unfold messageCost
  cases hr : readFields Header.widths b with
  | error e => simp
  | ok q =>
    obtain ⟨vs, b'⟩ := q
    simp only
    obtain ⟨hl1, hl2⟩ := readFields_length hr
    have hf := readFields_fits hr
    cases ho : Header.ofList vs with
    | none => simp
    | some h =>
      simp only [szV5Record]
      have hcount : h.count ≤ 65535 := by
        match vs, hl1, ho with
        | [a, b, c, d, e, f, g, i], _, ho =>
          simp only [Header.ofList, Option.some.injEq] at ho
          subst ho
          simp only [Header.widths, Fits] at hf
          show a ≤ 65535
          omega
      have := readRecordsCost_bound g P hP h.count b'
      have hm : P * b'.length ≤ P * b.length := Nat.mul_le_mul_left P (by omega)
      unfold abandon
      omega

/-- **v5_cost_bound** — whatever the header count says: one `make` of at most 65535 records, and one
    48-byte temporary per record that is really there -/
theorem v5_cost_bound (b : Bytes) : decodeCost b ≤ 1 * b.length + abandon :=
  messageCost_bound 0 1 (by omega) b

theorem v5_total_bound (b : Bytes) : messageCost Producer.v5RecordProd b ≤ 16 * b.length + abandon :=
  messageCost_bound _ 16 (by simp [Producer.v5RecordProd, szMsg, appIface]) b

theorem readRecords_split (g n : Nat) (b : Bytes) :
    readRecordsCost 0 n b + (match readRecords n b with | .ok rs => rs.length * g | .error _ => 0) ≤
    readRecordsCost g n b := by
  induction n generalizing b with
  | zero => simp [readRecordsCost, readRecords]
  | succ n ih =>
    unfold readRecordsCost readRecords
    split
    · cases hr : readRecord b with
      | error e => simp
      | ok q =>
        obtain ⟨r, b'⟩ := q
        simp only
        have := ih b'
        cases hrec : readRecords n b' with
        | error e => rw [hrec] at this; simp only at this ⊢; omega
        | ok rs =>
          rw [hrec] at this
          simp only [List.length_cons, Nat.add_mul, Nat.one_mul] at this ⊢
          omega
    · simp

theorem v5_split (b : Bytes) :
    decodeCost b + (match decodeMessage b with | .ok p => Producer.legacyProduceCost p | .error _ => 0) ≤
    messageCost Producer.v5RecordProd b := by
  unfold decodeCost messageCost decodeMessage
  cases hr : readFields Header.widths b with
  | error e => simp
  | ok q =>
    obtain ⟨vs, b'⟩ := q
    simp only
    cases ho : Header.ofList vs with
    | none => simp
    | some h =>
      simp only
      have := readRecords_split Producer.v5RecordProd h.count b'
      cases hrec : readRecords h.count b' with
      | error e => rw [hrec] at this; simp only at this ⊢; omega
      | ok rs => rw [hrec] at this; simp only [Producer.legacyProduceCost] at this ⊢; omega

end V5

/-! ## sFlow -/
namespace Sflow
open Goflow.Sflow

theorem readWords_length (w n : Nat) (b b' : Bytes) (vs : List Nat) (h : readWords w n b = .ok (vs, b')) :
    b'.length ≤ b.length := by
  induction n generalizing b b' vs with
  | zero => simp [readWords] at h; obtain ⟨_, rfl⟩ := h; omega
  | succ n ih =>
    unfold readWords at h
    cases hu : readU w b with
    | error e => rw [hu] at h; cases h
    | ok q =>
      obtain ⟨v, b1⟩ := q
      have := readU_ok_length hu
      rw [hu] at h
      simp only at h
      cases hrec : readWords w n b1 with
      | error e => rw [hrec] at h; cases h
      | ok q2 =>
        obtain ⟨vs', b2⟩ := q2
        rw [hrec] at h
        cases h
        have := ih _ _ _ hrec
        omega

theorem readCapped_length (len : Nat) (b b' : Bytes) (vs : List Nat) (h : readCapped len b = .ok (vs, b')) :
    b'.length ≤ b.length := by
  unfold readCapped at h
  split at h
  · cases h
  · split at h
    · cases h
    · exact readWords_length _ _ _ _ _ h

/-- the plausibility check of the decoder: an AS path / community list is only allocated when the
    payload is at least as long as its count -/
theorem cappedCost_le (len : Nat) (b : Bytes) : cappedCost len b ≤ 4 * b.length := by
  unfold cappedCost
  split
  · omega
  · split <;> omega

theorem decodeIP_length (b b1 ip : Bytes) (v : Nat) (h : decodeIP b = .ok (v, ip, b1)) : b1.length ≤ b.length := by
  unfold decodeIP at h
  cases hu : readU 4 b with
  | error e => rw [hu] at h; cases h
  | ok q =>
    obtain ⟨v', b'⟩ := q
    have := readU_ok_length hu
    rw [hu] at h
    simp only at h
    generalize (if v' = 1 then 4 else if v' = 2 then 16 else 0) = n at h
    by_cases h0 : n = 0
    · simp [h0] at h
    · by_cases hle : n ≤ b'.length
      · simp only [h0, hle, if_false, if_true, Except.ok.injEq, Prod.mk.injEq] at h
        obtain ⟨_, _, rfl⟩ := h
        simp only [List.length_drop]; omega
      · simp [h0, hle] at h

theorem stringCost_le (b : Bytes) : stringCost b ≤ b.length := by
  unfold stringCost
  cases hu : readU 4 b with
  | error e => simp
  | ok q =>
    obtain ⟨n, b1⟩ := q
    have := readU_ok_length hu
    simp only
    split <;> omega

theorem gatewayTailCost_le (b4 : Bytes) : gatewayTailCost b4 ≤ 120 + 4 * b4.length := by
  unfold gatewayTailCost
  cases hu : readU 4 b4 with
  | error e => simp
  | ok q =>
    obtain ⟨cl, b5⟩ := q
    have := readU_ok_length hu
    have := cappedCost_le cl b5
    simp only
    cases readCapped cl b5 with
    | error e => simp only; omega
    | ok q2 =>
      obtain ⟨_, b6⟩ := q2
      simp only
      cases readU 4 b6 <;> simp only <;> omega

theorem gatewayPath_le (hd : List Nat) (b2 : Bytes) :
    (gatewayPath hd b2).1 ≤ 4 * b2.length ∧ ∀ b4, (gatewayPath hd b2).2 = .ok b4 → b4.length ≤ b2.length := by
  unfold gatewayPath
  split
  · cases hr : readFields [4, 4] b2 with
    | error e => simp
    | ok q =>
      obtain ⟨tl, b3⟩ := q
      obtain ⟨hl1, hl2⟩ := readFields_length hr
      simp only [sumW, List.foldr] at hl2
      match tl, hl1 with
      | [pt, pl], _ =>
        simp only
        have := cappedCost_le pl b3
        refine ⟨by omega, ?_⟩
        intro b4 h4
        cases hc : readCapped pl b3 with
        | error e => rw [hc] at h4; cases h4
        | ok q2 =>
          obtain ⟨vs, b4'⟩ := q2
          rw [hc] at h4
          cases h4
          have := readCapped_length _ _ _ _ hc
          omega
  · simp only
    refine ⟨by omega, ?_⟩
    intro b4 h4; cases h4; omega

/-- DecodeFlowRecord: whatever the record claims, it allocates at most 136 bytes plus 8 per byte it has -/
theorem flowRecordCost_le (fmt len : Nat) (b : Bytes) : flowRecordCost fmt len b ≤ 136 + 8 * b.length := by
  unfold flowRecordCost
  split
  · cases readFields [4, 4, 4, 4] b <;> simp only <;> omega
  · split
    · cases hd : decodeIP b with
      | error e => simp only; omega
      | ok q =>
        obtain ⟨v, ip, b1⟩ := q
        simp only
        cases readFields [4, 4] b1 <;> simp only <;> omega
    · split
      · cases hd : decodeIP b with
        | error e => simp only; omega
        | ok q =>
          obtain ⟨v, ip, b1⟩ := q
          have h1 := decodeIP_length _ _ _ _ hd
          simp only
          cases hr : readFields [4, 4, 4, 4] b1 with
          | error e => simp only; omega
          | ok q2 =>
            obtain ⟨hd4, b2⟩ := q2
            have h2 := (readFields_length hr).2
            obtain ⟨p1, p2⟩ := gatewayPath_le hd4 b2
            simp only
            cases hp : (gatewayPath hd4 b2).2 with
            | error e => simp only; omega
            | ok b4 =>
              have h4 := p2 b4 hp
              have := gatewayTailCost_le b4
              simp only
              omega
      · split
        · cases hu : readU 4 b with
          | error e => simp only; omega
          | ok q =>
            obtain ⟨num, b1⟩ := q
            have := readU_ok_length hu
            have := stringCost_le b1
            simp only
            cases readString b1 with
            | error e => simp only; omega
            | ok q2 =>
              obtain ⟨name, b2⟩ := q2
              simp only
              cases readU 4 b2 <;> simp only <;> omega
        · split
          · have := stringCost_le b
            cases readString b <;> simp only <;> omega
          · split
            · rename_i lay _
              cases readItems lay b <;> simp only <;> omega
            · omega

theorem counterRecordCost_le (fmt len : Nat) (b : Bytes) : counterRecordCost fmt len b ≤ 88 := by
  unfold counterRecordCost
  split
  · cases readFields ifCountersW b <;> simp only <;> omega
  · split
    · cases readFields ethCountersW b <;> simp only <;> omega
    · omega

theorem rec_step {P K k l r len X : Nat} (hK : K ≤ 8 * P) (hk : k ≤ P) (hlen : 8 + l + r ≤ len)
    (hX : X ≤ K + k * l + P * r) : X ≤ P * len := by
  have h1 : P * (8 + l + r) ≤ P * len := Nat.mul_le_mul_left P hlen
  rw [Nat.mul_add, Nat.mul_add] at h1
  have h2 : k * l ≤ P * l := Nat.mul_le_mul_right l hk
  omega

/-- the record loop of DecodeSample: every record consumed its 8-byte header and its body -/
theorem recordLoopCost_bound {α} (dec : Nat → Nat → Bytes → Res α) (cost : Nat → Nat → Bytes → Nat) (g : α → Nat)
    (c0 k gk : Nat) (Hcost : ∀ fmt len b, cost fmt len b ≤ c0 + k * b.length)
    (Hg : ∀ fmt len b r, dec fmt len b = .ok r → g r ≤ gk * b.length)
    (P : Nat) (hP1 : 72 + c0 ≤ 8 * P) (hP2 : k + gk ≤ P) (n : Nat) (b : Bytes) :
    recordLoopCost dec cost g n b ≤ P * b.length := by
  induction n generalizing b with
  | zero => simp [recordLoopCost]
  | succ n ih =>
    unfold recordLoopCost
    split
    · cases hr : readFields [4, 4] b with
      | error e => simp
      | ok q =>
        obtain ⟨vs, b1⟩ := q
        obtain ⟨hl1, hl2⟩ := readFields_length hr
        simp only [sumW, List.foldr] at hl2
        match vs, hl1 with
        | [fmt, len], _ =>
          simp only
          split
          · omega
          · rename_i hle
            have hc := Hcost fmt len (b1.take len)
            have htake : (b1.take len).length = len := by simp only [List.length_take]; omega
            have hdrop : (b1.drop len).length = b1.length - len := by simp only [List.length_drop]
            rw [htake] at hc
            simp only [szRecordFixed]
            cases hd : dec fmt len (b1.take len) with
            | error e =>
              simp only
              exact rec_step (K := 72 + c0) (k := k) (l := len) (r := 0) hP1 (by omega) (by omega) (by omega)
            | ok r =>
              simp only
              have hg := Hg fmt len _ r hd
              rw [htake] at hg
              have hrec := ih (b1.drop len)
              have hkk : (k + gk) * len = k * len + gk * len := Nat.add_mul _ _ _
              exact rec_step (K := 72 + c0) (k := k + gk) (l := len) (r := (b1.drop len).length) hP1 hP2 (by omega) (by omega)
    · omega

/-- what Produce allocates for a decoded flow record lies inside the record: only a raw Ethernet
    header makes it allocate (ParsePacket) -/
theorem sflowRecordProd_le (fmt len : Nat) (b : Bytes) (r : FlowRecord)
    (h : decodeFlowRecord fmt len b = .ok r) : Producer.sflowRecordProdCost r ≤ 44 * b.length := by
  unfold decodeFlowRecord at h
  by_cases h1 : fmt = 1
  · simp only [if_pos h1] at h
    cases hr : readFields [4, 4, 4, 4] b with
    | error e => rw [hr] at h; cases h
    | ok q =>
      obtain ⟨vs, b1⟩ := q
      have := (readFields_length hr).2
      rw [hr] at h
      cases h
      simp only [Producer.sflowRecordProdCost]
      have := Netflow.parseCost_le (b1.take (vs.getD 3 0))
      have := List.length_take (i := vs.getD 3 0) (l := b1)
      split <;> omega
  · simp only [if_neg h1] at h
    have key : ∀ d, (∀ vs hd, d ≠ FlowData.raw vs hd) → Producer.sflowRecordProdCost ⟨fmt, len, d⟩ ≤ 44 * b.length := by
      intro d hd
      unfold Producer.sflowRecordProdCost
      cases d <;> simp only <;> first | omega | (exfalso; exact hd _ _ rfl)
    repeat' split at h
    all_goals first
      | (cases h; done)
      | (cases h; exact key _ (by intro _ _ hh; cases hh))

/-- the capped `make([]Record, count)` (at most 1000 × 24 bytes), the boxed sample, the records -/
theorem recordsCost_le {α} (dec : Nat → Nat → Bytes → Res α) (cost : Nat → Nat → Bytes → Nat) (g : α → Nat)
    (c0 k gk : Nat) (Hcost : ∀ fmt len b, cost fmt len b ≤ c0 + k * b.length)
    (Hg : ∀ fmt len b r, dec fmt len b = .ok r → g r ≤ gk * b.length)
    (P : Nat) (hP1 : 72 + c0 ≤ 8 * P) (hP2 : k + gk ≤ P) (cnt : Nat) (b : Bytes) :
    recordsCost true dec cost g cnt b ≤ 24080 + P * b.length := by
  unfold recordsCost
  have := recordLoopCost_bound dec cost g c0 k gk Hcost Hg P hP1 hP2 (min cnt cap1000) b
  simp only [true_and, cap1000, szFlowRecord, szSampleBox] at this ⊢
  split <;> omega

theorem sampleSrc_length (format : Nat) (b1 b2 : Bytes) (x : Nat × Nat)
    (h : sampleSrc format b1 = .ok (x, b2)) : b2.length + 4 ≤ b1.length := by
  unfold sampleSrc at h
  split at h
  · cases hu : readU 4 b1 with
    | error e => rw [hu] at h; cases h
    | ok q =>
      obtain ⟨sid, b2'⟩ := q
      have := readU_ok_length hu
      rw [hu] at h
      cases h
      omega
  · split at h
    · cases hr : readFields [4, 4] b1 with
      | error e => rw [hr] at h; cases h
      | ok q =>
        obtain ⟨vs, b2'⟩ := q
        obtain ⟨hl1, hl2⟩ := readFields_length hr
        simp only [sumW, List.foldr] at hl2
        rw [hr] at h
        match vs, hl1 with
        | [t, v], _ =>
          cases h
          omega
    · cases h

theorem sampleBodyCost_le (G : Share)
    (HG : ∀ fmt len b r, decodeFlowRecord fmt len b = .ok r → G.record r ≤ 44 * b.length) (Hs : G.sample ≤ 752)
    (format : Nat) (b2 : Bytes) :
    sampleBodyCost true G format b2 ≤ 52 * b2.length + (if 4 ≤ b2.length then 24832 else 0) := by
  have hflow : ∀ (g : FlowRecord → Nat), (∀ fmt len b r, decodeFlowRecord fmt len b = .ok r → g r ≤ 44 * b.length) →
      ∀ cnt b, recordsCost true decodeFlowRecord flowRecordCost g cnt b ≤ 24080 + 52 * b.length :=
    fun g hg cnt b => recordsCost_le decodeFlowRecord flowRecordCost g 136 8 44 flowRecordCost_le hg 52 (by omega) (by omega) cnt b
  have hcnt : ∀ cnt b, recordsCost true decodeCounterRecord counterRecordCost (fun _ => 0) cnt b ≤ 24080 + 52 * b.length :=
    fun cnt b => recordsCost_le decodeCounterRecord counterRecordCost (fun _ => 0) 88 0 0
      (fun f l b => by have := counterRecordCost_le f l b; omega) (fun _ _ _ _ _ => by omega) 52 (by omega) (by omega) cnt b
  unfold sampleBodyCost
  split
  · cases hr : readFields [4, 4, 4, 4, 4, 4] b2 with
    | error e => simp only; split <;> omega
    | ok q =>
      obtain ⟨vs, b3⟩ := q
      have := (readFields_length hr).2
      simp only [sumW, List.foldr] at this
      have := hflow G.record HG (vs.getD 5 0) b3
      simp only
      rw [if_pos (by omega)]
      omega
  · split
    · cases hu : readU 4 b2 with
      | error e => simp only; split <;> omega
      | ok q =>
        obtain ⟨cnt, b3⟩ := q
        have := readU_ok_length hu
        have := hcnt cnt b3
        simp only
        rw [if_pos (by omega)]
        omega
    · split
      · cases hr : readFields [4, 4, 4, 4, 4, 4, 4, 4] b2 with
        | error e => simp only; split <;> omega
        | ok q =>
          obtain ⟨vs, b3⟩ := q
          have := (readFields_length hr).2
          simp only [sumW, List.foldr] at this
          have := hflow G.record HG (vs.getD 7 0) b3
          simp only
          rw [if_pos (by omega)]
          omega
      · cases hr : readFields [4, 4, 4, 4, 4] b2 with
        | error e => simp only; split <;> omega
        | ok q =>
          obtain ⟨vs, b3⟩ := q
          have := (readFields_length hr).2
          simp only [sumW, List.foldr] at this
          have := hflow (fun _ => 0) (fun _ _ _ _ _ => by omega) (vs.getD 4 0) b3
          simp only
          rw [if_pos (by omega)]
          omega

/-- DecodeSample: the capped make can only happen in a sample of at least 12 bytes
    (sequence number, data source, record count) -/
theorem sampleCost_le (G : Share)
    (HG : ∀ fmt len b r, decodeFlowRecord fmt len b = .ok r → G.record r ≤ 44 * b.length) (Hs : G.sample ≤ 752)
    (format : Nat) (b : Bytes) :
    sampleCostWith true G format b ≤ 52 * b.length + (if 12 ≤ b.length then 24832 else 0) := by
  unfold sampleCostWith
  cases hu : readU 4 b with
  | error e => simp only; split <;> omega
  | ok q =>
    obtain ⟨seq, b1⟩ := q
    have h1 := readU_ok_length hu
    simp only
    cases hs : sampleSrc format b1 with
    | error e => simp only; split <;> omega
    | ok q2 =>
      obtain ⟨x, b2⟩ := q2
      have h2 := sampleSrc_length _ _ _ _ hs
      have h3 := sampleBodyCost_le G HG Hs format b2
      simp only
      split at h3
      · rw [if_pos (by omega)]; omega
      · split <;> omega

/-- the sample loop of DecodeMessage: a sample that allocates its (capped) record slice has consumed
    at least 20 bytes of the datagram — 1280 bytes per byte of input -/
theorem sampleLoopCost_bound (G : Share)
    (HG : ∀ fmt len b r, decodeFlowRecord fmt len b = .ok r → G.record r ≤ 44 * b.length) (Hs : G.sample ≤ 752)
    (n : Nat) (b : Bytes) : sampleLoopCost true G n b ≤ 1280 * b.length := by
  induction n generalizing b with
  | zero => simp [sampleLoopCost]
  | succ n ih =>
    unfold sampleLoopCost
    split
    · cases hr : readFields [4, 4] b with
      | error e => simp
      | ok q =>
        obtain ⟨vs, b1⟩ := q
        obtain ⟨hl1, hl2⟩ := readFields_length hr
        simp only [sumW, List.foldr] at hl2
        match vs, hl1 with
        | [fmt, len], _ =>
          simp only
          split
          · omega
          · rename_i hle
            have hc := sampleCost_le G HG Hs fmt (b1.take len)
            have htake : (b1.take len).length = len := by simp only [List.length_take]; omega
            have hdrop : (b1.drop len).length = b1.length - len := by simp only [List.length_drop]
            rw [htake] at hc
            have hrec := ih (b1.drop len)
            simp only [szSampleFixed]
            cases decodeSample fmt len (b1.take len) with
            | error e => simp only; split at hc <;> omega
            | ok smp => simp only; split at hc <;> omega
    · omega

/-- DecodeMessage: the agent address, the capped `make([]interface{}, count)` (at most 16 000 bytes) -/
theorem messageCost_bound (G : Share)
    (HG : ∀ fmt len b r, decodeFlowRecord fmt len b = .ok r → G.record r ≤ 44 * b.length) (Hs : G.sample ≤ 752)
    (b : Bytes) : messageCostWith true G b ≤ 1280 * b.length + 16016 := by
  unfold messageCostWith
  cases hu : readU 4 b with
  | error e => simp
  | ok q =>
    obtain ⟨v, b0⟩ := q
    have h0 := readU_ok_length hu
    simp only
    split
    · omega
    · cases hu1 : readU 4 b0 with
      | error e => simp
      | ok q1 =>
        obtain ⟨ipv, b1⟩ := q1
        have h1 := readU_ok_length hu1
        simp only
        generalize (if ipv = 1 then 4 else if ipv = 2 then 16 else 0) = n
        split
        · omega
        · cases ht : takeN n b1 with
          | error e => simp only; omega
          | ok q2 =>
            obtain ⟨ip, b2⟩ := q2
            have h2 : b2.length ≤ b1.length := by
              obtain ⟨_, _, rfl⟩ := takeN_ok_iff.mp ht
              simp only [List.length_drop]; omega
            simp only
            cases hr : readFields [4, 4, 4, 4] b2 with
            | error e => simp only; omega
            | ok q3 =>
              obtain ⟨hd, b3⟩ := q3
              have h3 := (readFields_length hr).2
              simp only
              split
              · omega
              · have := sampleLoopCost_bound G HG Hs (hd.getD 3 0) b3
                simp only [cap1000] at *
                omega

/-- **sflow_cost_bound** — decoding any byte string as an sFlow datagram allocates at most 1280
    bytes per byte of input (the capped slices) plus 16 016 -/
theorem sflow_cost_bound (b : Bytes) : decodeCost b ≤ 1280 * b.length + 16016 :=
  messageCost_bound Share.none (fun _ _ _ _ _ => by simp [Share.none]) (by simp [Share.none]) b

theorem sflow_total_bound (b : Bytes) : messageCostWith true Producer.sflowShare b ≤ 1280 * b.length + 16016 :=
  messageCost_bound Producer.sflowShare sflowRecordProd_le (by simp [Producer.sflowShare, szMsg, appIface]) b

/-! ### the producer's share of an sFlow datagram -/

open Goflow.Producer in
theorem flowRecordLoop_split (n : Nat) (b : Bytes) :
    recordLoopCost decodeFlowRecord flowRecordCost (fun _ => 0) n b +
      (match recordLoop decodeFlowRecord n b with | .ok rs => sflowRecordsProdCost rs | .error _ => 0) ≤
    recordLoopCost decodeFlowRecord flowRecordCost sflowRecordProdCost n b := by
  induction n generalizing b with
  | zero => simp [recordLoopCost, recordLoop, sflowRecordsProdCost]
  | succ n ih =>
    unfold recordLoopCost recordLoop
    split
    · cases hr : readFields [4, 4] b with
      | error e => simp
      | ok q =>
        obtain ⟨vs, b1⟩ := q
        obtain ⟨hl1, _⟩ := readFields_length hr
        match vs, hl1 with
        | [fmt, len], _ =>
          simp only
          split
          · simp [sflowRecordsProdCost]
          · cases hd : decodeFlowRecord fmt len (b1.take len) with
            | error e => simp
            | ok r =>
              simp only
              have := ih (b1.drop len)
              cases hrec : recordLoop decodeFlowRecord n (b1.drop len) with
              | error e => rw [hrec] at this; simp only at this ⊢; omega
              | ok rs => rw [hrec] at this; simp only [sflowRecordsProdCost] at this ⊢; omega
    · simp [sflowRecordsProdCost]

open Goflow.Producer in
theorem sflowRecordsProdCost_pad (rs : List FlowRecord) (k : Nat) :
    sflowRecordsProdCost (rs ++ List.replicate k zeroFlowRecord) = sflowRecordsProdCost rs := by
  induction rs with
  | nil =>
    induction k with
    | zero => rfl
    | succ k ih =>
      simp only [List.nil_append, List.replicate_succ, sflowRecordsProdCost] at ih ⊢
      rw [ih]; rfl
  | cons r rs ih => simp only [List.cons_append, sflowRecordsProdCost, ih]

open Goflow.Producer in
/-- flow-record samples: the count is capped, so the loop runs `cnt` times -/
theorem flowRecords_split (cnt : Nat) (b : Bytes) (hc : ¬ cnt > 1000) :
    recordsCost true decodeFlowRecord flowRecordCost (fun _ => 0) cnt b +
      (match recordLoop decodeFlowRecord cnt b with
       | .ok rs => sflowRecordsProdCost (padTo cnt zeroFlowRecord rs) | .error _ => 0) ≤
    recordsCost true decodeFlowRecord flowRecordCost sflowRecordProdCost cnt b := by
  unfold recordsCost
  have hmin : min cnt 1000 = cnt := by omega
  have := flowRecordLoop_split cnt b
  simp only [true_and, cap1000, if_neg hc] at this ⊢
  rw [hmin]
  cases hrec : recordLoop decodeFlowRecord cnt b with
  | error e => rw [hrec] at this; simp only at this ⊢; omega
  | ok rs =>
    rw [hrec] at this
    simp only [padTo, sflowRecordsProdCost_pad] at this ⊢
    omega

/-- DecodeSample behind the data source (a copy of the second half of `decodeSample`; `decodeSample_eq`
    checks by `rfl` that it is one) -/
def sampleTail (format length seq st sv : Nat) (b2 : Bytes) : Res Sample :=
  let h : SampleHeader := ⟨format, length, seq, st, sv⟩
  if format = 1 then
    match readFields [4, 4, 4, 4, 4, 4] b2 with
    | .error e => .error e
    | .ok (vs, b3) =>
      let cnt := vs.getD 5 0
      if cnt > 1000 then .error .bad else
      match recordLoop decodeFlowRecord cnt b3 with
      | .error e => .error e
      | .ok rs => .ok (.flow h vs (padTo cnt zeroFlowRecord rs))
  else if format = 2 ∨ format = 4 then
    match readU 4 b2 with
    | .error e => .error e
    | .ok (cnt, b3) =>
      if cnt > 1000 then .error .bad else
      match recordLoop decodeCounterRecord cnt b3 with
      | .error e => .error e
      | .ok rs => .ok (.counter h cnt (padTo cnt zeroCounterRecord rs))
  else if format = 3 then
    match readFields [4, 4, 4, 4, 4, 4, 4, 4] b2 with
    | .error e => .error e
    | .ok (vs, b3) =>
      let cnt := vs.getD 7 0
      if cnt > 1000 then .error .bad else
      match recordLoop decodeFlowRecord cnt b3 with
      | .error e => .error e
      | .ok rs => .ok (.expFlow h vs (padTo cnt zeroFlowRecord rs))
  else
    match readFields [4, 4, 4, 4, 4] b2 with
    | .error e => .error e
    | .ok (vs, b3) =>
      let cnt := vs.getD 4 0
      if cnt > 1000 then .error .bad else
      match recordLoop decodeFlowRecord cnt b3 with
      | .error e => .error e
      | .ok rs => .ok (.drop h vs (padTo cnt zeroFlowRecord rs))

/-- the cost function reads the data source with the decoder's own code -/
theorem decodeSample_eq (format length : Nat) (b : Bytes) :
    decodeSample format length b =
      match readU 4 b with
      | .error e => .error e
      | .ok (seq, b1) =>
        match sampleSrc format b1 with
        | .error e => .error e
        | .ok ((st, sv), b2) => sampleTail format length seq st sv b2 := by
  unfold decodeSample sampleSrc sampleTail
  rfl

open Goflow.Producer in
theorem sample_split (format length : Nat) (b : Bytes) :
    sampleCostWith true Share.none format b +
      (match decodeSample format length b with | .ok smp => sampleProdCost smp | .error _ => 0) ≤
    sampleCostWith true sflowShare format b := by
  rw [decodeSample_eq]
  unfold sampleCostWith
  cases hu : readU 4 b with
  | error e => simp
  | ok q =>
    obtain ⟨seq, b1⟩ := q
    simp only
    cases hs : sampleSrc format b1 with
    | error e => simp
    | ok q2 =>
      obtain ⟨⟨st, sv⟩, b2⟩ := q2
      simp only
      unfold sampleBodyCost sampleTail
      by_cases h1 : format = 1
      · simp only [if_pos h1]
        cases hr : readFields [4, 4, 4, 4, 4, 4] b2 with
        | error e => simp
        | ok q3 =>
          obtain ⟨vs, b3⟩ := q3
          simp only
          by_cases hc : vs.getD 5 0 > 1000
          · simp only [recordsCost, cap1000, true_and, Share.none, sflowShare, if_pos hc]; omega
          · simp only [if_neg hc]
            have := flowRecords_split (vs.getD 5 0) b3 hc
            cases hrec : recordLoop decodeFlowRecord (vs.getD 5 0) b3 with
            | error e => rw [hrec] at this; simp only [Share.none, sflowShare] at this ⊢; omega
            | ok rs => rw [hrec] at this; simp only [Share.none, sflowShare, sampleProdCost] at this ⊢; omega
      · simp only [if_neg h1]
        by_cases h24 : format = 2 ∨ format = 4
        · simp only [if_pos h24]
          cases hu2 : readU 4 b2 with
          | error e => simp
          | ok q3 =>
            obtain ⟨cnt, b3⟩ := q3
            simp only
            by_cases hc : cnt > 1000
            · simp only [if_pos hc]; omega
            · simp only [if_neg hc]
              cases recordLoop decodeCounterRecord cnt b3 <;> simp only [sampleProdCost] <;> omega
        · simp only [if_neg h24]
          by_cases h3 : format = 3
          · simp only [if_pos h3]
            cases hr : readFields [4, 4, 4, 4, 4, 4, 4, 4] b2 with
            | error e => simp
            | ok q3 =>
              obtain ⟨vs, b3⟩ := q3
              simp only
              by_cases hc : vs.getD 7 0 > 1000
              · simp only [recordsCost, cap1000, true_and, Share.none, sflowShare, if_pos hc]; omega
              · simp only [if_neg hc]
                have := flowRecords_split (vs.getD 7 0) b3 hc
                cases hrec : recordLoop decodeFlowRecord (vs.getD 7 0) b3 with
                | error e => rw [hrec] at this; simp only [Share.none, sflowShare] at this ⊢; omega
                | ok rs => rw [hrec] at this; simp only [Share.none, sflowShare, sampleProdCost] at this ⊢; omega
          · simp only [if_neg h3]
            cases hr : readFields [4, 4, 4, 4, 4] b2 with
            | error e => simp
            | ok q3 =>
              obtain ⟨vs, b3⟩ := q3
              simp only
              by_cases hc : vs.getD 4 0 > 1000
              · simp only [if_pos hc]; omega
              · simp only [if_neg hc]
                cases recordLoop decodeFlowRecord (vs.getD 4 0) b3 <;> simp only [sampleProdCost] <;> omega

open Goflow.Producer in
theorem sampleLoop_split (n : Nat) (b : Bytes) :
    sampleLoopCost true Share.none n b +
      (match sampleLoop n b with | .ok ss => samplesProdCost ss | .error _ => 0) ≤
    sampleLoopCost true sflowShare n b := by
  induction n generalizing b with
  | zero => simp [sampleLoopCost, sampleLoop, samplesProdCost]
  | succ n ih =>
    unfold sampleLoopCost sampleLoop
    split
    · cases hr : readFields [4, 4] b with
      | error e => simp
      | ok q =>
        obtain ⟨vs, b1⟩ := q
        obtain ⟨hl1, _⟩ := readFields_length hr
        match vs, hl1 with
        | [fmt, len], _ =>
          simp only
          split
          · simp [samplesProdCost]
          · have hsmp := sample_split fmt len (b1.take len)
            cases hd : decodeSample fmt len (b1.take len) with
            | error e => rw [hd] at hsmp; simp only at hsmp ⊢; omega
            | ok smp =>
              rw [hd] at hsmp
              simp only at hsmp ⊢
              have := ih (b1.drop len)
              cases hrec : sampleLoop n (b1.drop len) with
              | error e => rw [hrec] at this; simp only at this ⊢; omega
              | ok ss => rw [hrec] at this; simp only [samplesProdCost] at this ⊢; omega
    · simp [samplesProdCost]

open Goflow.Producer in
theorem samplesProdCost_pad (ss : List Sample) (k : Nat) :
    samplesProdCost (ss ++ List.replicate k Sample.none) = samplesProdCost ss := by
  induction ss with
  | nil =>
    induction k with
    | zero => rfl
    | succ k ih =>
      simp only [List.nil_append, List.replicate_succ, samplesProdCost] at ih ⊢
      rw [ih]; rfl
  | cons r rs ih => simp only [List.cons_append, samplesProdCost, ih]

open Goflow.Producer in
/-- decode, then Produce on the decoded datagram: together at most the instrumented decode with the
    producer's share -/
theorem sflow_split (b : Bytes) :
    decodeCost b + (match decodeMessageVersion b with | .ok p => sflowProduceCost p | .error _ => 0) ≤
    messageCostWith true sflowShare b := by
  unfold decodeCost messageCostWith decodeMessageVersion decodeMessage
  cases hu : readU 4 b with
  | error e => simp
  | ok q =>
    obtain ⟨v, b0⟩ := q
    simp only
    split
    · simp
    · cases hu1 : readU 4 b0 with
      | error e => simp
      | ok q1 =>
        obtain ⟨ipv, b1⟩ := q1
        simp only
        generalize (if ipv = 1 then 4 else if ipv = 2 then 16 else 0) = n
        split
        · simp
        · cases ht : takeN n b1 with
          | error e => simp
          | ok q2 =>
            obtain ⟨ip, b2⟩ := q2
            simp only
            cases hr : readFields [4, 4, 4, 4] b2 with
            | error e => simp
            | ok q3 =>
              obtain ⟨hd, b3⟩ := q3
              simp only
              by_cases hc : hd.getD 3 0 > cap1000
              · have hc' : hd.getD 3 0 > 1000 := hc
                simp only [if_pos hc, if_pos hc']; omega
              · have hc' : ¬ hd.getD 3 0 > 1000 := hc
                simp only [if_neg hc, if_neg hc']
                have := sampleLoop_split (hd.getD 3 0) b3
                cases hrec : sampleLoop (hd.getD 3 0) b3 with
                | error e => rw [hrec] at this; simp only at this ⊢; omega
                | ok ss =>
                  rw [hrec] at this
                  simp only [sflowProduceCost, padTo, samplesProdCost_pad] at this ⊢
                  omega

end Sflow

/-! ## the producers and the pipes -/
open Goflow.Pipe Goflow.Producer

/-- **produce_cost_bound** (v9 / IPFIX): converting the packet decoded from `b` allocates at most
    `price W` bytes per byte of `b` — one pooled message per record, and a record has at least one byte -/
theorem produce_cost_bound (prom : Bool) (s : Netflow.Store) (v : Nat) (b : Bytes) (hv : v = 9 ∨ v = 10) (W : Nat)
    (hW : Netflow.messageWidest s v b ≤ W) :
    netflowProduceCost (if v = 9 then Netflow.decodeMessageNetFlow s b else Netflow.decodeMessageIPFIX s b).packet ≤
      Netflow.price W * b.length + Netflow.abandon := by
  have h1 := Netflow.netflow_split prom s v b hv
  have h2 := Netflow.netflow_total_bound prom s v b W hW
  omega

/-- **produce_cost_bound** (sFlow): one pooled message per flow sample, ParsePacket inside the sampled header -/
theorem produce_cost_bound_sflow (b : Bytes) (p : Sflow.Packet) (h : Sflow.decodeMessageVersion b = .ok p) :
    sflowProduceCost p ≤ 1280 * b.length + 16016 := by
  have h1 := Sflow.sflow_split b
  have h2 := Sflow.sflow_total_bound b
  rw [h] at h1
  simp only at h1
  omega

/-- **produce_cost_bound** (NetFlow v5): one pooled message and three 4-byte slices per 48-byte record -/
theorem produce_cost_bound_v5 (b : Bytes) (p : V5.Packet) (h : V5.decodeMessage b = .ok p) :
    legacyProduceCost p ≤ 16 * b.length + V5.abandon := by
  have h1 := V5.v5_split b
  have h2 := V5.v5_total_bound b
  rw [h] at h1
  simp only at h1
  omega

theorem budget_mono (len w w' : Nat) (h : w ≤ w') : budget len w ≤ budget len w' := by
  unfold budget
  have : 256 * len * (1 + w) ≤ 256 * len * (1 + w') := Nat.mul_le_mul_left _ (by omega)
  omega

/-- the largest datagram the theorem covers. The UDP receiver reads into a 9000-byte buffer
    (utils/udp.go), so every datagram the collector decodes is shorter. The bound is needed: at about
    20 000 bytes 1000 minimal counter samples, each claiming 1000 records, cost 1000 × 24 000 bytes,
    which is above the budget for that length. -/
def maxDatagram : Nat := 16000

theorem sflowPipeCost_bound (d : Bytes) (hlen : d.length ≤ maxDatagram) : sflowPipeCost d ≤ budget d.length 0 := by
  unfold sflowPipeCost
  have h1 := Sflow.sflow_split d
  have h2 := Sflow.sflow_total_bound d
  cases hdec : Sflow.decodeMessageVersion d <;>
  · rw [hdec] at h1
    simp only [budget, pipeFixed, maxDatagram] at *
    omega

theorem netflowPipeCost_bound (prom : Bool) (st : State) (src : Src) (d : Bytes) (hlen : d.length ≤ maxDatagram) :
    netflowPipeCost prom st src d ≤
      budget d.length (match readU 2 d with
        | .error _ => 0
        | .ok (version, b) => Netflow.messageWidest (st.templatesOf src) version b) := by
  unfold netflowPipeCost
  cases hu : readU 2 d with
  | error e => simp only [budget, pipeFixed]; omega
  | ok q =>
    obtain ⟨version, b⟩ := q
    have hb := readU_ok_length hu
    simp only
    by_cases h5 : version = 5
    · simp only [if_pos h5]
      have h1 := V5.v5_split b
      have h2 := V5.v5_total_bound b
      cases hdec : V5.decodeMessage b <;>
      · rw [hdec] at h1
        simp only [budget, pipeFixed, V5.abandon, maxDatagram] at *
        omega
    · simp only [if_neg h5]
      by_cases h910 : version = 9 ∨ version = 10
      · simp only [if_pos h910]
        generalize hW : Netflow.messageWidest (st.templatesOf src) version b = W
        have h1 := Netflow.netflow_split prom (st.templatesOf src) version b h910
        have h2 := Netflow.netflow_total_bound prom (st.templatesOf src) version b W (by omega)
        generalize (if version = 9 then Netflow.decodeMessageNetFlow (st.templatesOf src) b
              else Netflow.decodeMessageIPFIX (st.templatesOf src) b) = o at h1 ⊢
        -- price W · |b| ≤ 928·|d| + 252·(|d|·W)
        have h4 : Netflow.price W * b.length ≤ Netflow.price W * d.length := Nat.mul_le_mul_left _ (by omega)
        have h5 : Netflow.price W * d.length = 928 * d.length + 252 * (d.length * W) := by
          unfold Netflow.price
          rw [Nat.add_mul, Nat.mul_assoc, Nat.mul_comm W d.length]
        have h6 : 256 * d.length * (1 + W) = 256 * d.length + 256 * (d.length * W) := by
          rw [Nat.mul_add, Nat.mul_one, Nat.mul_assoc]
        have h45 : Netflow.price W * b.length ≤ 928 * d.length + 252 * (d.length * W) := by
          rw [← h5]; exact h4
        simp only [budget, pipeFixed]
        rw [h6]
        simp only [Netflow.abandon, maxDatagram] at h2 hlen
        clear h4 h5 h6
        generalize d.length * W = X at *
        generalize Netflow.price W * b.length = Y at *
        cases o.err <;> simp only <;> omega
      · simp only [if_neg h910, budget, pipeFixed]
        omega

/-- **cost_within_budget** — for every pipe kind, configuration, collector state, source and byte
    string of at most `maxDatagram` bytes, the modelled allocation of `DecodeFlow` is within
    16 MiB + 256 × length × (1 + widest), where `widest` is the widest template of the exporter's
    store while the datagram is decoded (its store on arrival and the templates the datagram announces) -/
theorem cost_within_budget (k : Kind) (cfg : Config) (st : State) (src : Src) (d : Bytes)
    (hlen : d.length ≤ maxDatagram) :
    pipeCost k cfg st src d ≤ 16 * 2 ^ 20 + 256 * d.length * (1 + widest k st src d) := by
  show pipeCost k cfg st src d ≤ budget d.length (widest k st src d)
  cases k with
  | netflow => exact netflowPipeCost_bound false st src d hlen
  | sflow => exact sflowPipeCost_bound d hlen
  | auto =>
    simp only [pipeCost, widest, autoPipeCost]
    cases hu : readU 4 d with
    | error e => simp only [budget, pipeFixed]; omega
    | ok q =>
      obtain ⟨proto, r⟩ := q
      simp only
      split
      · exact Nat.le_trans (sflowPipeCost_bound d hlen) (budget_mono _ _ _ (Nat.zero_le _))
      · split
        · exact netflowPipeCost_bound true st src d hlen
        · simp only [budget, pipeFixed]; omega

/-- the collector's own datagrams: the UDP receiver never hands over more than 9000 bytes -/
theorem cost_within_budget_udp (k : Kind) (cfg : Config) (st : State) (src : Src) (d : Bytes)
    (hlen : d.length ≤ 9000) :
    pipeCost k cfg st src d ≤ 16 * 2 ^ 20 + 256 * d.length * (1 + widest k st src d) :=
  cost_within_budget k cfg st src d (by unfold maxDatagram; omega)

/-! ### negative control: the theorem is about the caps -/

/-- an 80-byte sFlow datagram: one expanded flow sample claiming 2^32 − 1 records -/
def giantCount : Bytes :=
  [0, 0, 0, 5, 0, 0, 0, 1, 10, 0, 0, 1, 0, 0, 0, 0, 0, 0, 0, 1, 0, 0, 0, 100, 0, 0, 0, 1,
   0, 0, 0, 3, 0, 0, 0, 44,
   0, 0, 0, 1, 0, 0, 0, 0, 0, 0, 0, 1, 0, 0, 0, 10, 0, 0, 0, 20, 0, 0, 0, 0, 0, 0, 0, 0, 0, 0, 0, 1,
   0, 0, 0, 0, 0, 0, 0, 2, 255, 255, 255, 255]

/-- **uncapped_cost_unbounded** — with the `> 1000` check of the expanded flow sample removed (the
    pinned tree before aff12d8), the same accounting charges 24 × (2^32 − 1) bytes for an 80-byte
    datagram: 6000 times the budget. With the cap the datagram is rejected before the make. -/
theorem uncapped_cost_unbounded :
    giantCount.length = 80 ∧
    Goflow.Sflow.decodeCostUncapped giantCount > budget 80 0 ∧
    Goflow.Sflow.decodeCost giantCount ≤ 200 := by
  decide +kernel

end Goflow.C02Cost
