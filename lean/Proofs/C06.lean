import Goflow.Pipe
import Goflow.Generated.Pool
/-!
  C06 — Templates are scoped per exporter, version, domain and id; latest wins.
  The store of one exporter refines an abstract map keyed by (version, domain, id); the pipe keeps
  one store per exporter (UDP source address and port).
-/
namespace Goflow.C06
open Goflow Goflow.Netflow

/-- the key is injective on (uint16, uint32, uint16) -/
theorem templateKey_injective (v d i v' d' i' : Nat)
    (hi : i < 2 ^ 16) (hi' : i' < 2 ^ 16) (hd : d < 2 ^ 32) (hd' : d' < 2 ^ 32)
    (h : templateKey v d i = templateKey v' d' i') : v = v' ∧ d = d' ∧ i = i' := by
  unfold templateKey at h
  simp only [Nat.reducePow] at *
  omega

/-- abstraction of a store: the partial map it represents -/
def abs (s : Store) : Nat → Option Template := fun k => s.get k

private theorem lookup_filter_ne (s : Store) (k k' : Nat) (h : k' ≠ k) :
    List.lookup k' (s.filter (fun e => e.1 != k)) = List.lookup k' s := by
  induction s with
  | nil => rfl
  | cons e s ih =>
    obtain ⟨a, t⟩ := e
    by_cases hak : a = k
    · subst hak
      have h1 : ((a, t).1 != a) = false := by simp
      have h2 : (k' == a) = false := by simpa using h
      simp [List.filter, h1, List.lookup, h2, ih]
    · have h1 : ((a, t).1 != k) = true := by simpa using hak
      simp only [List.filter, h1, List.lookup]
      split <;> simp_all

/-- AddTemplate is map update: the new template is found under its key, every other key is untouched -/
theorem store_refines (s : Store) (k : Nat) (t : Template) (k' : Nat) :
    (s.add k t).get k' = if k' = k then some t else s.get k' := by
  unfold Store.add Store.get
  by_cases h : k' = k
  · subst h; simp [List.lookup]
  · have h2 : (k' == k) = false := by simpa using h
    simp only [List.lookup, h2, h, if_false]
    exact lookup_filter_ne s k k' h

/-- latest wins: re-announcing a template replaces the old one -/
theorem latest_wins (s : Store) (k : Nat) (t t' : Template) :
    ((s.add k t).add k t').get k = some t' := by
  rw [store_refines]; simp

/-- isolation inside one exporter: adding under (v,d,i) leaves every other (v',d',i') unchanged -/
theorem isolation (s : Store) (v d i v' d' i' : Nat) (t : Template)
    (hi : i < 2 ^ 16) (hi' : i' < 2 ^ 16) (hd : d < 2 ^ 32) (hd' : d' < 2 ^ 32)
    (hne : ¬ (v = v' ∧ d = d' ∧ i = i')) :
    (s.add (templateKey v d i) t).get (templateKey v' d' i') = s.get (templateKey v' d' i') := by
  rw [store_refines]
  have : templateKey v' d' i' ≠ templateKey v d i := by
    intro h
    exact hne (by
      have := templateKey_injective v' d' i' v d i hi' hi hd' hd h
      exact ⟨this.1.symm, this.2.1.symm, this.2.2.symm⟩)
  simp [this]

/-- addTemplates (the loop over the records of a template set) is a fold of map updates:
    a key that no record of the set announces keeps its template -/
theorem addTemplates_other (version dom : Nat) (s : Store) (recs : List (Nat × Template)) (k : Nat)
    (h : ∀ r ∈ recs, templateKey version dom r.1 ≠ k) :
    (addTemplates version dom s recs).get k = s.get k := by
  induction recs generalizing s with
  | nil => rfl
  | cons r rs ih =>
    obtain ⟨tid, t⟩ := r
    simp only [addTemplates]
    rw [ih _ (fun r hr => h r (by simp [hr]))]
    rw [store_refines]
    have := h (tid, t) (by simp)
    simp [Ne.symm this]

/-- a data set whose template is not in the store is reported as template-not-found, yields a raw
    flow set (no records), leaves the store unchanged and consumes exactly its declared length, so
    the sets that follow (and the templates they announce) are still processed -/
theorem unknown_template (fuel version dom id len : Nat) (s : Store) (b rest : Bytes)
    (hid : 256 ≤ id) (hlen : 4 ≤ len)
    (hb : readFields [2, 2] b = .ok ([id, len], rest))
    (hnone : s.get (templateKey version dom id) = none) :
    ∃ o, decodeFlowSet fuel version dom s b = .ok o ∧ o.tnf = true ∧ o.store = s ∧
      o.flowSet = .raw id len (rest.take (len - 4)) ∧ o.rest = rest.drop (len - 4) := by
  unfold decodeFlowSet
  rw [hb]
  have h1 : ¬ len < 4 := by omega
  have h2 : ¬ (id = 0 ∧ version = 9 ∨ id = 2 ∧ version = 10) := by omega
  have h3 : ¬ (id = 1 ∧ version = 9) := by omega
  have h4 : ¬ (id = 3 ∧ version = 10) := by omega
  simp only [h1, h2, h3, h4, if_false, hid, ge_iff_le, if_true, hnone, nextN]
  exact ⟨_, rfl, rfl, rfl, rfl, rfl⟩

/-- the pipe keeps one store per exporter: processing a datagram of exporter `e` does not change
    the store of any other exporter `e'` (whatever the datagram contains) -/
theorem exporter_isolation (cfg : Producer.Config) (st : Pipe.State) (e e' : Pipe.Src) (recv : Nat) (d : Bytes)
    (hne : e' ≠ e) :
    (Pipe.netflowPipe cfg st e recv d).state.templatesOf e' = st.templatesOf e' := by
  have key : ∀ (s : Pipe.State) (t : Store), (s.setTemplates e t).templatesOf e' = s.templatesOf e' := by
    intro s t
    unfold Pipe.State.setTemplates Pipe.State.templatesOf
    have h2 : (e' == e) = false := by simpa using hne
    simp only [List.lookup, h2]
    congr 1
    induction s.templates with
    | nil => rfl
    | cons x xs ih =>
      obtain ⟨a, t0⟩ := x
      by_cases hak : a = e
      · subst hak
        have h1 : ((a, t0).1 != a) = false := by simp
        simp [List.filter, h1, List.lookup, h2, ih]
      · have h1 : ((a, t0).1 != e) = true := by simpa using hak
        simp only [List.filter, h1, List.lookup]
        split <;> simp_all
  have key2 : ∀ (s : Pipe.State) (ip : Bytes) (r : Producer.Rates), (s.setRates ip r).templatesOf e' = s.templatesOf e' := by
    intro s ip r; rfl
  unfold Pipe.netflowPipe
  simp only
  split
  · simp [key]
  · split
    · split <;> simp [key]
    · split
      · split
        · simp [key]
        · split <;> simp [key, key2]
      · simp [key]

/-- non-vacuity: concrete keys of two versions / domains / ids are all different -/
example : templateKey 9 1 256 ≠ templateKey 10 1 256 ∧ templateKey 9 1 256 ≠ templateKey 9 2 256 ∧
    templateKey 9 1 256 ≠ templateKey 9 1 257 := by decide

/-- the key function of the template store in the source now is the one `templateKey` models (each operand widened to
    64 bits before it is shifted: version above bit 48, the whole 32-bit domain above bit 16, the id below) — regenerated -/
theorem templateKey_source :
    Goflow.Generated.templateKeyBody = "return (uint64(version) << 48) | (uint64(obsDomainId) << 16) | uint64(templateId)" := by
  decide +kernel

end Goflow.C06
