import Goflow.Generated.NumbersT
import Goflow.Decoders.Netflow
import Goflow.Producer.Legacy
import Proofs.Lemmas.GoPrims
/-!
  C08 (translation tie) — DecodeUNumber / DecodeUNumberLE / WriteUDecoded (producer_nf.go),
  ConvertNetFlowLegacyRecord (producer_nflegacy.go) and templateKey (decoders/netflow/templates.go), regenerated
  into Lean on every run by extract/translate.go (Goflow/Generated/NumbersT.lean), are equal to the hand-written
  models of Goflow/Producer/Numbers.lean, Goflow/Producer/Legacy.lean and Goflow/Decoders/Netflow.lean:
  no panic, the loops end within their fuel, same value / same error.
-/
set_option linter.unusedSimpArgs false
namespace Goflow.C08Trans
open Goflow Goflow.Producer Goflow.Generated Goflow.Go

/-! ### templateKey -/

theorem templateKey_eq (v : UInt16) (o : UInt32) (t : UInt16) :
    TN.templateKey v o t = .ok (UInt64.ofNat (Netflow.templateKey v.toNat o.toNat t.toNat)) := by
  unfold TN.templateKey Netflow.templateKey
  congr 1
  rw [← UInt64.toNat_inj]
  have hv := v.toNat_lt; have ho := o.toNat_lt; have ht := t.toNat_lt
  simp [shl64_toNat]
  rw [or3 _ _ _ (by omega) (by omega) (by omega)]
  omega

/-! ### ConvertNetFlowLegacyRecord -/

/-- the record of the model behind a decoded `netflowlegacy.RecordsNetFlowV5` -/
def recOf (r : TN.RecordsNetFlowV5) : V5.Record :=
  { srcAddr := r.SrcAddr.toNat, dstAddr := r.DstAddr.toNat, nextHop := r.NextHop.toNat, input := r.Input.toNat,
    output := r.Output.toNat, dPkts := r.DPkts.toNat, dOctets := r.DOctets.toNat, first := r.First.toNat,
    last := r.Last.toNat, srcPort := r.SrcPort.toNat, dstPort := r.DstPort.toNat, pad1 := r.Pad1.toNat,
    tcpFlags := r.TCPFlags.toNat, proto := r.Proto.toNat, tos := r.Tos.toNat, srcAS := r.SrcAS.toNat,
    dstAS := r.DstAS.toNat, srcMask := r.SrcMask.toNat, dstMask := r.DstMask.toNat, pad2 := r.Pad2.toNat }

theorem convertLegacyRecord_eq (baseTime : UInt64) (uptime : UInt32) (r : TN.RecordsNetFlowV5) :
    TN.ConvertNetFlowLegacyRecord FlowMsg.empty baseTime uptime r =
      .ok (convertLegacyRecord baseTime.toNat uptime.toNat (recOf r)) := by
  unfold TN.ConvertNetFlowLegacyRecord convertLegacyRecord
  have hb := baseTime.toNat_lt; have hu := uptime.toNat_lt
  have hf := r.First.toNat_lt; have hl := r.Last.toNat_lt
  simp [Go.makeBytes, Go.putU32, recOf, U32, FlowMsg.empty, UInt32.toNat_sub, UInt64.toNat_sub, UInt64.toNat_mul]
  have key : ∀ f : Nat, f < 2 ^ 32 →
      (18446744073709551616 - (4294967296 - f + uptime.toNat) % 4294967296 * 1000000 % 18446744073709551616 + baseTime.toNat) % 18446744073709551616
        = (baseTime.toNat + 18446744073709551616 - (uptime.toNat + 4294967296 - f) % 4294967296 * 1000000) % 18446744073709551616 := by
    intro f hf
    have e : 4294967296 - f + uptime.toNat = uptime.toNat + 4294967296 - f := by omega
    rw [e]
    generalize hx : (uptime.toNat + 4294967296 - f) % 4294967296 = x
    have hxl : x < 4294967296 := by omega
    have e2 : x * 1000000 % 18446744073709551616 = x * 1000000 := by
      apply Nat.mod_eq_of_lt; omega
    rw [e2]
    congr 1
    omega
  exact ⟨key _ hf, key _ hl⟩

/-! ### DecodeUNumber / DecodeUNumberLE -/

theorem be_loop (b : Bytes) (hl : b.length < 8) : ∀ (fuel rng : Nat) (o : UInt64),
    rng ≤ b.length → b.length - rng < fuel →
    TN.DecodeUNumber_loop1 b b.length b.length fuel o (UInt64.ofNat rng) rng =
      .ok (UInt64.ofNat (shiftLoopBE b.length (b.drop rng) rng o.toNat), UInt64.ofNat b.length, b.length) := by
  intro fuel
  induction fuel with
  | zero => intro rng o h1 h2; omega
  | succ fuel ih =>
    intro rng o h1 h2
    rw [TN.DecodeUNumber_loop1]
    by_cases hr : rng < b.length
    · have hd : b.drop rng = b[rng] :: b.drop (rng + 1) := List.drop_eq_getElem_cons hr
      have hi : UInt64.ofNat rng + 1 = UInt64.ofNat (rng + 1) := by
        rw [← UInt64.toNat_inj]; simp [UInt64.toNat_add, UInt64.toNat_ofNat']
      have hc : ((8 : UInt64) * (UInt64.ofNat b.length - UInt64.ofNat rng - 1)).toNat = 8 * (b.length - rng - 1) := by
        simp [UInt64.toNat_mul, UInt64.toNat_sub, UInt64.toNat_ofNat']; omega
      simp only [hr, decide_true, if_true, idx_getElem hr, ok_bind, hi, hc]
      rw [ih (rng + 1) _ (by omega) (by omega), hd, shiftLoopBE]
      rw [UInt64.toNat_or, shl64_byte _ _ (by omega)]
    · have : rng = b.length := by omega
      subst this
      simp [shiftLoopBE]

theorem le_loop (b : Bytes) (hl : b.length < 8) : ∀ (fuel rng : Nat) (o : UInt64),
    rng ≤ b.length → b.length - rng < fuel →
    TN.DecodeUNumberLE_loop1 b b.length fuel o (UInt64.ofNat rng) rng =
      .ok (UInt64.ofNat (shiftLoopLE (b.drop rng) rng o.toNat), UInt64.ofNat b.length, b.length) := by
  intro fuel
  induction fuel with
  | zero => intro rng o h1 h2; omega
  | succ fuel ih =>
    intro rng o h1 h2
    rw [TN.DecodeUNumberLE_loop1]
    by_cases hr : rng < b.length
    · have hd : b.drop rng = b[rng] :: b.drop (rng + 1) := List.drop_eq_getElem_cons hr
      have hi : UInt64.ofNat rng + 1 = UInt64.ofNat (rng + 1) := by
        rw [← UInt64.toNat_inj]; simp [UInt64.toNat_add, UInt64.toNat_ofNat']
      have hc : ((8 : UInt64) * UInt64.ofNat rng).toNat = 8 * rng := by
        simp [UInt64.toNat_mul, UInt64.toNat_ofNat']; omega
      simp only [hr, decide_true, if_true, idx_getElem hr, ok_bind, hi, hc]
      rw [ih (rng + 1) _ (by omega) (by omega), hd, shiftLoopLE]
      rw [UInt64.toNat_or, shl64_byte _ _ (by omega)]
    · have : rng = b.length := by omega
      subst this
      simp [shiftLoopLE]

/-- WriteUDecoded: the stored value is `o` truncated to the width of the destination -/
theorem writeUDecoded_u8 (o : UInt64) (v : UInt8) : TN.WriteUDecoded o (.u8 v) = .ok (.u8 (UInt8.ofNat o.toNat)) := rfl

theorem writeUDecoded_u16 (o : UInt64) (v : UInt16) : TN.WriteUDecoded o (.u16 v) = .ok (.u16 (UInt16.ofNat o.toNat)) := rfl

theorem writeUDecoded_u32 (o : UInt64) (v : UInt32) : TN.WriteUDecoded o (.u32 v) = .ok (.u32 (UInt32.ofNat o.toNat)) := rfl

theorem writeUDecoded_u64 (o : UInt64) (v : UInt64) : TN.WriteUDecoded o (.u64 v) = .ok (.u64 o) := rfl

theorem writeUDecoded_other (o : UInt64) : TN.WriteUDecoded o .other = .error .bad := rfl

/-- DecodeUNumber up to the final store: the accumulator is the model's raw value -/
theorem decodeUNumber_raw (b : Bytes) (out : Go.Cell) :
    TN.DecodeUNumber b out =
      match decodeUNumberRaw b with
      | .ok v => TN.WriteUDecoded (UInt64.ofNat v) out
      | .error e => .error e := by
  unfold TN.DecodeUNumber decodeUNumberRaw
  have hb := beNat_lt b
  by_cases h1 : b.length = 1
  · match b, h1 with
    | [x], _ => simp [Go.idx, beNat]
  by_cases h2 : b.length = 2
  · rw [h2] at hb
    simp [h2, Go.beU16, List.take_of_length_le (Nat.le_of_eq h2), widen16 hb]
  by_cases h4 : b.length = 4
  · rw [h4] at hb
    simp [h4, Go.beU32, List.take_of_length_le (Nat.le_of_eq h4), widen32 hb]
  by_cases h8 : b.length = 8
  · simp [h8, Go.beU64, List.take_of_length_le (Nat.le_of_eq h8)]
  by_cases hl : b.length < 8
  · have := be_loop b hl (b.length + 1) 0 0 (by omega) (by omega)
    simp only [show UInt64.ofNat 0 = 0 from rfl, List.drop_zero, show UInt64.toNat 0 = 0 from rfl] at this
    simp [h1, h2, h4, h8, hl, this]
  · simp [h1, h2, h4, h8, hl, Go.retCell]

theorem decodeUNumberLE_raw (b : Bytes) (out : Go.Cell) :
    TN.DecodeUNumberLE b out =
      match decodeUNumberLERaw b with
      | .ok v => TN.WriteUDecoded (UInt64.ofNat v) out
      | .error e => .error e := by
  unfold TN.DecodeUNumberLE decodeUNumberLERaw
  have hb : leNat b < 256 ^ b.length := leNat_lt b
  by_cases h1 : b.length = 1
  · match b, h1 with
    | [x], _ => simp [Go.idx, leNat]
  by_cases h2 : b.length = 2
  · rw [h2] at hb
    simp [h2, Go.leU16, List.take_of_length_le (Nat.le_of_eq h2), widen16 hb]
  by_cases h4 : b.length = 4
  · rw [h4] at hb
    simp [h4, Go.leU32, List.take_of_length_le (Nat.le_of_eq h4), widen32 hb]
  by_cases h8 : b.length = 8
  · simp [h8, Go.leU64, List.take_of_length_le (Nat.le_of_eq h8)]
  by_cases hl : b.length < 8
  · have := le_loop b hl (b.length + 1) 0 0 (by omega) (by omega)
    simp only [show UInt64.ofNat 0 = 0 from rfl, List.drop_zero, show UInt64.toNat 0 = 0 from rfl] at this
    simp [h1, h2, h4, h8, hl, this]
  · simp [h1, h2, h4, h8, hl, Go.retCell]

theorem decodeUNumberRaw_err {b : Bytes} {e : Err} (h : decodeUNumberRaw b = .error e) : e = .bad := by
  unfold decodeUNumberRaw at h
  simp only [] at h
  split at h
  · cases h
  · split at h
    · cases h
    · cases h; rfl

theorem decodeUNumberLERaw_err {b : Bytes} {e : Err} (h : decodeUNumberLERaw b = .error e) : e = .bad := by
  unfold decodeUNumberLERaw at h
  simp only [] at h
  split at h
  · cases h
  · split at h
    · cases h
    · cases h; rfl

theorem decodeUNumber_trans_eq (b : Bytes) :
    (∀ v, TN.DecodeUNumber b (.u8 v) = (decodeUNumber 8 b).map fun n => .u8 (UInt8.ofNat n)) ∧
    (∀ v, TN.DecodeUNumber b (.u16 v) = (decodeUNumber 16 b).map fun n => .u16 (UInt16.ofNat n)) ∧
    (∀ v, TN.DecodeUNumber b (.u32 v) = (decodeUNumber 32 b).map fun n => .u32 (UInt32.ofNat n)) ∧
    (∀ v, TN.DecodeUNumber b (.u64 v) = (decodeUNumber 64 b).map fun n => .u64 (UInt64.ofNat n)) ∧
    TN.DecodeUNumber b .other = .error .bad := by
  simp only [decodeUNumber_raw, decodeUNumber]
  cases h : decodeUNumberRaw b with
  | error e =>
    have := decodeUNumberRaw_err h
    subst this
    simp [Except.map]
  | ok x =>
    simp [Except.map, writeUDecoded_u8, writeUDecoded_u16, writeUDecoded_u32, writeUDecoded_u64, writeUDecoded_other,
      trunc8, trunc16, trunc32]
    exact trunc64 x

theorem decodeUNumberLE_trans_eq (b : Bytes) :
    (∀ v, TN.DecodeUNumberLE b (.u8 v) = (decodeUNumberLE 8 b).map fun n => .u8 (UInt8.ofNat n)) ∧
    (∀ v, TN.DecodeUNumberLE b (.u16 v) = (decodeUNumberLE 16 b).map fun n => .u16 (UInt16.ofNat n)) ∧
    (∀ v, TN.DecodeUNumberLE b (.u32 v) = (decodeUNumberLE 32 b).map fun n => .u32 (UInt32.ofNat n)) ∧
    (∀ v, TN.DecodeUNumberLE b (.u64 v) = (decodeUNumberLE 64 b).map fun n => .u64 (UInt64.ofNat n)) ∧
    TN.DecodeUNumberLE b .other = .error .bad := by
  simp only [decodeUNumberLE_raw, decodeUNumberLE]
  cases h : decodeUNumberLERaw b with
  | error e =>
    have := decodeUNumberLERaw_err h
    subst this
    simp [Except.map]
  | ok x =>
    simp [Except.map, writeUDecoded_u8, writeUDecoded_u16, writeUDecoded_u32, writeUDecoded_u64, writeUDecoded_other,
      trunc8, trunc16, trunc32]
    exact trunc64 x

end Goflow.C08Trans
