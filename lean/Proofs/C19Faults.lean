import Goflow.Conc.FileTransportFaults
/-!
  C19 with faults — file output when a SIGHUP rotation's reopen fails.
  For every number of senders and every interleaving of the statements of the Sends, of good
  rotations and of failing rotations (and for both readings of the handler: it ends after a failed
  reopen, as the Go code does, or it keeps serving signals):
  every ACKNOWLEDGED message is in the files exactly once, in one generation; a Send that returned
  an error wrote nothing; the files consist of whole units.
  Assumed as in C19: one write(2) on an O_APPEND descriptor is atomic w.r.t. other writers.
-/
namespace Goflow.C19Faults
open Goflow.Conc.FileTransportFaults

/-- 1 for a sender whose write succeeded (it may not have returned yet), else 0 -/
def wroteOk : Option SPc → Nat
  | some (.wrote true) => 1
  | some .ok => 1
  | _ => 0

def Inv (st : St) : Prop :=
  -- the RWMutex: while the handler holds the write lock no sender holds the read lock
  (holdsW st.handler = true → ∀ (j : Nat) (pc : SPc), st.senders[j]? = some pc → holdsR pc = false) ∧
  -- the descriptor a sender picked is the current one (it cannot be swapped under the read lock)
  (∀ (j g : Nat), st.senders[j]? = some (SPc.picked g) → g = st.cur) ∧
  -- message j is in the files once iff its write succeeded, otherwise not at all
  (∀ j : Nat, (written st).count j = wroteOk st.senders[j]?) ∧
  -- the files consist of the units of the successful writes, nothing else
  (st.out = st.log.flatMap fun e => (unit e.2).map fun t => (e.1, t)) ∧
  (∀ e ∈ st.log, e.1 ≤ st.cur)

theorem inv_init (n : Nat) : Inv (init n) := by
  refine ⟨fun h => by simp [init, holdsW] at h, ?_, ?_, rfl, fun e he => by simp [init] at he⟩
  · intro j g h
    simp only [init, List.getElem?_replicate] at h
    split at h <;> simp at h
  · intro j
    simp only [init, written, List.map_nil, List.count_nil, List.getElem?_replicate]
    split <;> rfl

private theorem getElem?_set_some {α} {l : List α} {i : Nat} {old : α} (a : α) (h : l[i]? = some old) (j : Nat) :
    (l.set i a)[j]? = if i = j then some a else l[j]? := by
  have hlt : i < l.length := by
    rcases Nat.lt_or_ge i l.length with h' | h'
    · exact h'
    · rw [List.getElem?_eq_none h'] at h; cases h
  rw [List.getElem?_set]
  by_cases hij : i = j
  · subst hij; simp [hlt]
  · simp [hij]

/-- a sender moves from `old` to `new` without touching the files -/
private theorem inv_move (st : St) (i : Nat) (old new : SPc) (hs : st.senders[i]? = some old)
    (hinv : Inv st)
    (hW : holdsR new = true → holdsW st.handler = false)
    (hP : ∀ g, new = SPc.picked g → g = st.cur)
    (hK : wroteOk (some new) = wroteOk (some old)) :
    Inv { st with senders := st.senders.set i new } := by
  obtain ⟨h1, h2, h3, h4, h5⟩ := hinv
  refine ⟨?_, ?_, ?_, h4, h5⟩
  · intro hw j pc hj
    rw [getElem?_set_some new hs] at hj
    by_cases hij : i = j
    · simp only [hij, if_true, Option.some.injEq] at hj
      subst hj
      cases hr : holdsR new with
      | false => rfl
      | true => have := hW hr; dsimp only at hw; rw [this] at hw; cases hw
    · simp only [hij, if_false] at hj
      exact h1 hw j pc hj
  · intro j g hj
    rw [getElem?_set_some new hs] at hj
    by_cases hij : i = j
    · simp only [hij, if_true, Option.some.injEq] at hj
      exact hP g hj
    · simp only [hij, if_false] at hj
      exact h2 j g hj
  · intro j
    have := h3 j
    dsimp only [written] at this ⊢
    rw [getElem?_set_some new hs]
    by_cases hij : i = j
    · subst hij
      simp only [if_true]
      rw [hK, ← hs]; exact this
    · simp only [hij, if_false]; exact this

private theorem not_holdsW_of_reader (st : St) (hinv : Inv st) (i : Nat) (pc : SPc)
    (hs : st.senders[i]? = some pc) (hr : holdsR pc = true) : holdsW st.handler = false := by
  cases hw : holdsW st.handler with
  | false => rfl
  | true => have := hinv.1 hw i pc hs; rw [hr] at this; cases this

theorem inv_step (hexit : Bool) (st : St) (e : Ev) (hinv : Inv st) : Inv (step ⟨hexit, false⟩ st e) := by
  cases e with
  | send i =>
    simp only [step]
    cases hs : st.senders[i]? with
    | none => exact hinv
    | some pc =>
      cases pc with
      | idle =>
        dsimp only
        split
        · exact hinv
        · rename_i hw
          exact inv_move st i _ _ hs hinv (fun _ => by simpa using hw) (fun g hg => by cases hg) rfl
      | rlocked =>
        exact inv_move st i _ _ hs hinv (fun _ => not_holdsW_of_reader st hinv i _ hs rfl)
          (fun g hg => by cases hg; rfl) rfl
      | picked g =>
        have hg : g = st.cur := hinv.2.1 i g hs
        have hnw := not_holdsW_of_reader st hinv i _ hs rfl
        dsimp only
        split
        · exact inv_move st i _ _ hs hinv (fun _ => hnw) (fun g hg => by cases hg) rfl
        · -- the successful write
          obtain ⟨h1, h2, h3, h4, h5⟩ := hinv
          refine ⟨?_, ?_, ?_, ?_, ?_⟩
          · intro hw; dsimp only at hw; rw [hnw] at hw; cases hw
          · intro j g' hj
            dsimp only at hj ⊢
            rw [getElem?_set_some _ hs] at hj
            by_cases hij : i = j
            · simp [hij] at hj
            · simp only [hij, if_false] at hj
              exact h2 j g' hj
          · intro j
            have := h3 j
            dsimp only [written] at this ⊢
            rw [getElem?_set_some _ hs]
            simp only [List.map_append, List.map_cons, List.map_nil, List.count_append, List.count_cons, List.count_nil]
            by_cases hij : i = j
            · subst hij
              rw [hs] at this
              simp only [wroteOk] at this
              simp [wroteOk, this]
            · have hne : ¬ (i == j) = true := by simpa using hij
              simp only [hij, if_false, hne]
              simpa using this
          · dsimp only
            rw [h4]
            simp [List.flatMap_append]
          · intro e he
            dsimp only at he ⊢
            simp only [List.mem_append, List.mem_singleton] at he
            rcases he with he | rfl
            · exact h5 e he
            · exact Nat.le_of_eq hg
      | wrote ok =>
        dsimp only
        cases ok <;>
          exact inv_move st i _ _ hs hinv (fun h => by simp [wrapperSend, holdsR] at h)
            (fun g hg => by simp [wrapperSend] at hg) (by simp [wrapperSend, wroteOk])
      | ok => exact hinv
      | failed => exact hinv
  | hupLock =>
    simp only [step]
    split
    · split
      · rename_i hall
        obtain ⟨h1, h2, h3, h4, h5⟩ := hinv
        refine ⟨?_, h2, h3, h4, h5⟩
        intro _ j pc hj
        have hmem : pc ∈ st.senders := List.mem_of_getElem? hj
        have := List.all_eq_true.mp hall pc hmem
        simpa using this
      · exact hinv
    · exact hinv
  | hupClose =>
    simp only [step]
    split
    · rename_i hh
      obtain ⟨h1, h2, h3, h4, h5⟩ := hinv
      exact ⟨fun _ => h1 (by rw [hh]; rfl), h2, h3, h4, h5⟩
    · exact hinv
  | hupOpen ok =>
    simp only [step]
    split
    · rename_i hh
      obtain ⟨h1, h2, h3, h4, h5⟩ := hinv
      have hold : holdsW st.handler = true := by rw [hh]; rfl
      split
      · refine ⟨fun _ => h1 hold, ?_, h3, h4, ?_⟩
        · intro j g hj
          have := h1 hold j _ hj
          simp [holdsR] at this
        · intro e he
          have := h5 e he
          dsimp only; omega
      · exact ⟨fun _ => h1 hold, h2, h3, h4, h5⟩
    · exact hinv
  | hupUnlock =>
    simp only [step]
    split
    · obtain ⟨h1, h2, h3, h4, h5⟩ := hinv
      refine ⟨?_, h2, h3, h4, h5⟩
      intro hw
      dsimp only at hw
      split at hw <;> simp [holdsW] at hw
    · exact hinv

theorem inv_run (hexit : Bool) (st : St) (sched : List Ev) (h : Inv st) : Inv (run ⟨hexit, false⟩ st sched) := by
  induction sched generalizing st with
  | nil => exact h
  | cons e rest ih => exact ih _ (inv_step hexit st e h)

private theorem filter_singleton_of_count {l : List (Nat × Nat)} {i : Nat} (h : (l.map (·.2)).count i = 1) :
    ∃ g, l.filter (fun e => e.2 == i) = [(g, i)] := by
  have hlen : (l.filter (fun e => e.2 == i)).length = 1 := by
    rw [← h, List.count_eq_length_filter, List.filter_map, List.length_map]
    rfl
  obtain ⟨x, hf⟩ := List.length_eq_one_iff.mp hlen
  have hx : x ∈ l.filter (fun e => e.2 == i) := by rw [hf]; simp
  have := (List.mem_filter.mp hx).2
  have h2 : x.2 = i := by simpa using this
  exact ⟨x.1, by rw [hf, ← h2]⟩

/-- **acknowledged ⇒ written exactly once, in one file generation**: when `transport.Send` of
    message i has returned nil, the files contain exactly one unit of message i — one write, in one
    generation `g` — whatever rotations (good or failing) were interleaved with the senders -/
theorem acked_written (hexit : Bool) (n : Nat) (sched : List Ev) (i : Nat)
    (hack : (run ⟨hexit, false⟩ (init n) sched).senders[i]? = some SPc.ok) :
    ∃ g, (run ⟨hexit, false⟩ (init n) sched).log.filter (fun e => e.2 == i) = [(g, i)] ∧
      (written (run ⟨hexit, false⟩ (init n) sched)).count i = 1 := by
  have h := (inv_run hexit (init n) sched (inv_init n)).2.2.1 i
  rw [hack] at h
  obtain ⟨g, hg⟩ := filter_singleton_of_count h
  exact ⟨g, hg, h⟩

/-- **failed ⇒ nothing written**: a Send that returned an error has put nothing of its message into
    any file — neither a unit nor a single token -/
theorem failed_not_written (hexit : Bool) (n : Nat) (sched : List Ev) (i : Nat)
    (hfail : (run ⟨hexit, false⟩ (init n) sched).senders[i]? = some SPc.failed) :
    (written (run ⟨hexit, false⟩ (init n) sched)).count i = 0 ∧
    ∀ g, (g, Tok.body i) ∉ (run ⟨hexit, false⟩ (init n) sched).out := by
  obtain ⟨_, _, h3, h4, _⟩ := inv_run hexit (init n) sched (inv_init n)
  have h := h3 i
  rw [hfail] at h
  refine ⟨h, ?_⟩
  intro g hmem
  rw [h4] at hmem
  simp only [List.mem_flatMap, unit, List.map_cons, List.map_nil, List.mem_cons, Prod.mk.injEq, List.not_mem_nil,
    or_false] at hmem
  obtain ⟨e, he, hcase⟩ := hmem
  rcases hcase with ⟨_, hb⟩ | ⟨_, hb⟩
  · have hi : e.2 = i := by cases hb; rfl
    have : i ∈ written (run ⟨hexit, false⟩ (init n) sched) := by
      simp only [written, List.mem_map]
      exact ⟨e, he, hi⟩
    have := List.count_pos_iff.mpr this
    simp only [wroteOk] at h
    omega
  · cases hb

/-- and the converse of the two: a message is in the files iff its write succeeded; the other
    messages (not yet sent, in flight before the write, failed) are absent -/
theorem written_iff (hexit : Bool) (n : Nat) (sched : List Ev) (i : Nat) :
    (written (run ⟨hexit, false⟩ (init n) sched)).count i =
      wroteOk (run ⟨hexit, false⟩ (init n) sched).senders[i]? :=
  (inv_run hexit (init n) sched (inv_init n)).2.2.1 i

private theorem fileToks_units (log : List (Nat × Nat)) (g : Nat) :
    (((log.flatMap fun e => (unit e.2).map fun t => (e.1, t)).filter fun e => e.1 == g).map (·.2)) =
      ((log.filter fun e => e.1 == g).map (·.2)).flatMap unit := by
  induction log with
  | nil => rfl
  | cons x xs ih =>
    simp only [List.flatMap_cons, List.filter_append, List.map_append, ih, List.filter_cons]
    by_cases hx : x.1 = g
    · simp [hx, unit]
    · have : ¬ (x.1 == g) = true := by simpa using hx
      simp [hx, unit]

/-- **no partial units**: the file of every generation is the concatenation of the complete units
    (body followed by separator) of the messages successfully written to it, in write order —
    no lone body, no lone separator, nothing of a failed Send -/
theorem no_partial_units (hexit : Bool) (n : Nat) (sched : List Ev) (g : Nat) :
    fileToks (run ⟨hexit, false⟩ (init n) sched) g = (fileOf (run ⟨hexit, false⟩ (init n) sched) g).flatMap unit := by
  have h4 := (inv_run hexit (init n) sched (inv_init n)).2.2.2.1
  simp only [fileToks, fileOf]
  rw [h4]
  exact fileToks_units _ g

/-- no sender is ever between `RLock` and `RUnlock` while the handler holds the write lock -/
theorem lock_exclusion (hexit : Bool) (n : Nat) (sched : List Ev) (j : Nat) (pc : SPc)
    (hw : holdsW (run ⟨hexit, false⟩ (init n) sched).handler = true)
    (hj : (run ⟨hexit, false⟩ (init n) sched).senders[j]? = some pc) : holdsR pc = false :=
  (inv_run hexit (init n) sched (inv_init n)).1 hw j pc hj

/-! ### after a failed reopen every later Send fails (Go: the handler has ended) -/

/-- the descriptor is the closed one and nobody will replace it -/
def Broken (st : St) : Prop := st.handler = HPc.exited ∧ st.cur ∈ st.closed

/-- a sender that cannot be acknowledged any more -/
def Doomed (st : St) (j : Nat) : Prop :=
  ∀ pc, st.senders[j]? = some pc →
    pc = SPc.idle ∨ pc = SPc.rlocked ∨ pc = SPc.picked st.cur ∨ pc = SPc.wrote false ∨ pc = SPc.failed

private theorem broken_step (st : St) (e : Ev) (hinv : Inv st) (hb : Broken st) :
    Broken (step go st e) ∧ (step go st e).log = st.log ∧ (step go st e).cur = st.cur ∧
    ∀ j, Doomed st j → Doomed (step go st e) j := by
  obtain ⟨hh, hc⟩ := hb
  cases e with
  | send i =>
    simp only [step]
    cases hs : st.senders[i]? with
    | none => exact ⟨⟨hh, hc⟩, rfl, rfl, fun j hd => hd⟩
    | some pc =>
      have key : ∀ new : SPc,
          (new = SPc.idle ∨ new = SPc.rlocked ∨ new = SPc.picked st.cur ∨ new = SPc.wrote false ∨ new = SPc.failed) →
          ∀ j, Doomed st j → Doomed { st with senders := st.senders.set i new } j := by
        intro new hnew j hd pc' hj
        dsimp only at hj ⊢
        rw [getElem?_set_some new hs] at hj
        by_cases hij : i = j
        · simp only [hij, if_true, Option.some.injEq] at hj
          subst hj; exact hnew
        · simp only [hij, if_false] at hj
          exact hd pc' hj
      cases pc with
      | idle =>
        dsimp only
        split
        · exact ⟨⟨hh, hc⟩, rfl, rfl, fun j hd => hd⟩
        · exact ⟨⟨hh, hc⟩, rfl, rfl, key _ (by simp)⟩
      | rlocked => exact ⟨⟨hh, hc⟩, rfl, rfl, key _ (by simp)⟩
      | picked g =>
        have hg : g = st.cur := hinv.2.1 i g hs
        subst hg
        have hcont : st.closed.contains st.cur = true := by simpa using hc
        dsimp only
        rw [if_pos hcont]
        exact ⟨⟨hh, hc⟩, rfl, rfl, key _ (by simp)⟩
      | wrote ok =>
        dsimp only
        cases ok
        · exact ⟨⟨hh, hc⟩, rfl, rfl, key _ (by simp [wrapperSend, go])⟩
        · refine ⟨⟨hh, hc⟩, rfl, rfl, ?_⟩
          intro j hd pc' hj
          dsimp only at hj ⊢
          rw [getElem?_set_some _ hs] at hj
          by_cases hij : i = j
          · subst hij
            rcases hd _ hs with h | h | h | h | h <;> cases h
          · simp only [hij, if_false] at hj
            exact hd pc' hj
      | ok => exact ⟨⟨hh, hc⟩, rfl, rfl, fun j hd => hd⟩
      | failed => exact ⟨⟨hh, hc⟩, rfl, rfl, fun j hd => hd⟩
  | hupLock =>
    have h : step go st (.hupLock) = st := by simp only [step, hh]
    rw [h]; exact ⟨⟨hh, hc⟩, rfl, rfl, fun j hd => hd⟩
  | hupClose =>
    have h : step go st (.hupClose) = st := by simp only [step, hh]
    rw [h]; exact ⟨⟨hh, hc⟩, rfl, rfl, fun j hd => hd⟩
  | hupOpen ok =>
    have h : step go st (.hupOpen ok) = st := by simp only [step, hh]
    rw [h]; exact ⟨⟨hh, hc⟩, rfl, rfl, fun j hd => hd⟩
  | hupUnlock =>
    have h : step go st (.hupUnlock) = st := by simp only [step, hh]
    rw [h]; exact ⟨⟨hh, hc⟩, rfl, rfl, fun j hd => hd⟩

private theorem broken_run (st : St) (sched : List Ev) (hinv : Inv st) (hb : Broken st) :
    Broken (run go st sched) ∧ (run go st sched).log = st.log ∧ (run go st sched).cur = st.cur ∧
    ∀ j, Doomed st j → Doomed (run go st sched) j := by
  induction sched generalizing st with
  | nil => exact ⟨hb, rfl, rfl, fun j hd => hd⟩
  | cons e rest ih =>
    obtain ⟨b1, l1, c1, d1⟩ := broken_step st e hinv hb
    obtain ⟨b2, l2, c2, d2⟩ := ih (step go st e) (inv_step true st e hinv) b1
    exact ⟨b2, by simp only [run]; rw [l2, l1], by simp only [run]; rw [c2, c1], fun j hd => d2 j (d1 j hd)⟩

/-- **after a failed reopen** (the Go handler: it has ended, the descriptor is the closed one):
    whatever happens afterwards, nothing is written any more, and every Send that had not completed
    its write before — in particular every Send that starts later — is never acknowledged: once it
    returns, it returns the error -/
theorem after_failed_reopen_sends_fail (n : Nat) (pre sched : List Ev)
    (hb : Broken (run go (init n) pre)) :
    (run go (init n) (pre ++ sched)).log = (run go (init n) pre).log ∧
    ∀ j, Doomed (run go (init n) pre) j →
      (run go (init n) (pre ++ sched)).senders[j]? ≠ some SPc.ok ∧
      (written (run go (init n) (pre ++ sched))).count j = 0 := by
  have happ : ∀ (st : St) (a b : List Ev), run go st (a ++ b) = run go (run go st a) b := by
    intro st a b
    induction a generalizing st with
    | nil => rfl
    | cons e rest ih => simp only [List.cons_append, run]; exact ih _
  rw [happ]
  have hinv := inv_run true (init n) pre (inv_init n)
  obtain ⟨_, hl, _, hd⟩ := broken_run (run go (init n) pre) sched hinv hb
  refine ⟨hl, fun j hj => ?_⟩
  have hdoom := hd j hj
  have hne : (run go (run go (init n) pre) sched).senders[j]? ≠ some SPc.ok := by
    intro hok
    rcases hdoom _ hok with h | h | h | h | h <;> cases h
  refine ⟨hne, ?_⟩
  have hinv' := inv_run true (run go (init n) pre) sched hinv
  have hcnt : (written (run go (run go (init n) pre) sched)).count j =
      wroteOk (run go (run go (init n) pre) sched).senders[j]? := hinv'.2.2.1 j
  rw [hcnt]
  cases hs : (run go (run go (init n) pre) sched).senders[j]? with
  | none => rfl
  | some pc =>
    rcases hdoom pc hs with h | h | h | h | h <;> subst h <;> rfl

/-! ### non-vacuity -/

/-- 3 senders; a good rotation, then a FAILING rotation in the middle, then two more Sends:
    message 0 is in generation 0, message 1 in generation 1, Send 2 is refused — it returned an error
    and nothing of it is in any file; the handler has ended -/
example :
    let st := run go (init 3) (fullSend 0 ++ rotation true ++ fullSend 1 ++ rotation false ++ fullSend 2 ++ rotation true)
    st.senders = [SPc.ok, SPc.ok, SPc.failed] ∧ st.log = [(0, 0), (1, 1)] ∧ st.handler = HPc.exited ∧
    fileToks st 0 = [Tok.body 0, Tok.sep] ∧ fileToks st 1 = [Tok.body 1, Tok.sep] ∧ st.cur = 1 ∧ st.closed = [1, 0] := by
  decide

/-- the same with the statements interleaved: sender 2 takes the read lock before the failing
    rotation (which therefore has to wait: the first `hupLock` is not enabled) and is acknowledged;
    sender 1 comes after it and fails -/
example :
    let st := run go (init 3)
      ([.send 2, .send 2, .hupLock, .send 0, .send 2, .send 0, .send 2, .send 0, .send 0] ++ rotation false ++ fullSend 1)
    st.senders = [SPc.ok, SPc.failed, SPc.ok] ∧ st.log = [(0, 2), (0, 0)] ∧ Broken st := by
  refine ⟨by decide, by decide, by decide, by decide⟩

/-- the hypotheses of `after_failed_reopen_sends_fail` are satisfiable: after a failing rotation the state is
    `Broken` and an idle sender is `Doomed` -/
example : Broken (run go (init 2) (fullSend 0 ++ rotation false)) ∧ Doomed (run go (init 2) (fullSend 0 ++ rotation false)) 1 := by
  refine ⟨⟨by decide, by decide⟩, ?_⟩
  intro pc h
  have : (run go (init 2) (fullSend 0 ++ rotation false)).senders[1]? = some SPc.idle := by decide
  rw [this] at h
  left; cases h; rfl

/-- the variant whose handler keeps serving signals: a later good rotation repairs the output
    (the theorems above cover this variant too) -/
example :
    let st := run ⟨false, false⟩ (init 2) (rotation false ++ fullSend 0 ++ rotation true ++ fullSend 1)
    st.senders = [SPc.failed, SPc.ok] ∧ st.log = [(1, 1)] := by decide

end Goflow.C19Faults
