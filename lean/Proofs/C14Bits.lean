import Goflow.Producer.Custom
import Goflow.Spec.Bits
/-!
  C14 — bit-range extraction (reflect.go GetBytes) for every buffer, offset and length.

  * `getBytes_total`: for non-negative offset and length GetBytes returns (never panics), and the
    result is empty or has ⌈length / 8⌉ bytes.
  * `getBytes_aligned`: byte-aligned ranges are the plain sub-slice, zero-padded at the end.
-/
namespace Goflow.C14
open Goflow Goflow.Producer

theorem shiftPass_length (s n : Nat) (d : Bytes) : (shiftPass s n d).length = n := by
  induction n generalizing d with
  | zero => simp [shiftPass]
  | succ k ih =>
    match d with
    | [] => simp [shiftPass]
    | [x] => simp [shiftPass]
    | x :: y :: rest => simp [shiftPass, ih]

theorem setLast_length (bs : Bytes) (f : UInt8 → UInt8) : (setLast bs f).length = bs.length := by
  unfold setLast
  cases h : bs.reverse with
  | nil => simp at h; simp [h]
  | cons x xs =>
    have : bs.length = xs.length + 1 := by
      have := congrArg List.length h; simpa using this
    simp [this]

def ceil8 (n : Nat) : Nat := n / 8 + (if n % 8 > 0 then 1 else 0)

/-- GetBytes never panics on a non-negative bit range, whatever the buffer, and returns either
    nothing (range starts past the end, or zero length) or exactly ⌈length/8⌉ bytes -/
theorem getBytes_total (d : Bytes) (off len : Nat) (shift : Bool) :
    ∃ b, getBytes d (off : Int) (len : Int) shift = .ok b ∧ (b = [] ∨ b.length = ceil8 len) := by
  unfold getBytes
  by_cases h1 : (d.length : Int) * 8 < (off : Int)
  · exact ⟨[], by simp [h1], Or.inl rfl⟩
  simp only [h1, if_false]
  by_cases h2 : (len : Int) = 0
  · exact ⟨[], by simp [h2], Or.inl rfl⟩
  simp only [h2, if_false]
  have h3 : ¬ ((len : Int) < 0 ∨ (off : Int) ≤ -8) := by omega
  have h4 : ¬ ((off : Int) < 0) := by omega
  simp only [h3, h4, if_false, Int.toNat_natCast]
  by_cases ha : off % 8 = 0 ∧ len % 8 = 0
  · simp only [ha, and_self, if_true]
    have e1 : (off + len) % 8 = 0 := by omega
    have e2 : (off + len) / 8 = off / 8 + len / 8 := by omega
    simp only [e1, e2, Nat.lt_irrefl, if_false, Nat.add_zero, gt_iff_lt]
    by_cases hm : d.length < off / 8 + len / 8
    · simp only [hm, if_true]
      refine ⟨_, rfl, Or.inr ?_⟩
      simp only [List.length_append, List.length_drop, List.length_take, List.length_replicate, ceil8, ha.2, Nat.lt_irrefl, if_false]
      omega
    · simp only [hm, if_false]
      refine ⟨_, rfl, Or.inr ?_⟩
      simp only [List.length_drop, List.length_take, ceil8, ha.2, Nat.lt_irrefl, if_false]
      omega
  · simp only [ha, if_false]
    cases shift
    · simp only [Bool.false_eq_true, if_false]
      exact ⟨_, rfl, Or.inr (by simp [setLast_length, shiftPass_length, ceil8])⟩
    · simp only [if_true]
      exact ⟨_, rfl, Or.inr (by simp [setLast_length, shiftPass_length, ceil8])⟩

open Goflow.Spec.Bits

theorem byteBits_length (b : UInt8) : (byteBits b).length = 8 := by simp [byteBits]

theorem toBits_cons (b : UInt8) (d : Bytes) : toBits (b :: d) = byteBits b ++ toBits d := by simp [toBits]

theorem toBits_length (d : Bytes) : (toBits d).length = 8 * d.length := by
  induction d with
  | nil => rfl
  | cons b d ih => rw [toBits_cons, List.length_append, byteBits_length, ih]; simp; omega

theorem toBits_append (a b : Bytes) : toBits (a ++ b) = toBits a ++ toBits b := by simp [toBits]

theorem toBits_drop (d : Bytes) (o : Nat) : (toBits d).drop (8 * o) = toBits (d.drop o) := by
  induction o generalizing d with
  | zero => simp
  | succ k ih =>
    cases d with
    | nil => simp [toBits]
    | cons b d =>
      rw [toBits_cons, List.drop_succ_cons, ← ih d]
      have : 8 * (k + 1) = (byteBits b).length + 8 * k := by rw [byteBits_length]; omega
      rw [this, List.drop_append]
      simp

theorem toBits_take (d : Bytes) (l : Nat) : (toBits d).take (8 * l) = toBits (d.take l) := by
  induction l generalizing d with
  | zero => simp [toBits]
  | succ k ih =>
    cases d with
    | nil => simp [toBits]
    | cons b d =>
      rw [toBits_cons, List.take_succ_cons, toBits_cons, ← ih d]
      have : 8 * (k + 1) = (byteBits b).length + 8 * k := by rw [byteBits_length]; omega
      rw [this, List.take_append]
      simp [List.take_of_length_le]

theorem toBits_zeros (n : Nat) : toBits (List.replicate n 0) = List.replicate (8 * n) false := by
  induction n with
  | zero => rfl
  | succ k ih =>
    rw [List.replicate_succ, toBits_cons, ih]
    have : byteBits 0 = List.replicate 8 false := by decide
    rw [this, List.replicate_append_replicate]; congr 1; omega

theorem bitsVal_byteBits_fin : ∀ n : Fin 256, UInt8.ofNat (bitsVal (byteBits (UInt8.ofNat n.val))) = UInt8.ofNat n.val := by
  decide +kernel

theorem bitsVal_byteBits (b : UInt8) : UInt8.ofNat (bitsVal (byteBits b)) = b := by
  have := bitsVal_byteBits_fin ⟨b.toNat, UInt8.toNat_lt b⟩
  simpa using this

theorem groups_toBits (b : Bytes) (fuel : Nat) (h : b.length < fuel) : groups fuel (toBits b) = b.map byteBits := by
  induction b generalizing fuel with
  | nil => cases fuel <;> simp [groups, toBits]
  | cons x xs ih =>
    cases fuel with
    | zero => simp at h
    | succ n =>
      rw [toBits_cons]
      have hne : byteBits x ++ toBits xs ≠ [] := by
        intro e; have := congrArg List.length e; simp [byteBits_length] at this
      have e : groups (n + 1) (byteBits x ++ toBits xs) = (byteBits x ++ toBits xs).take 8 :: groups n ((byteBits x ++ toBits xs).drop 8) := by
        cases hb : byteBits x ++ toBits xs with
        | nil => exact absurd hb hne
        | cons _ _ => rfl
      rw [e]
      have l8 : (byteBits x).length = 8 := byteBits_length x
      rw [show (8 : Nat) = (byteBits x).length from l8.symm, List.take_left, List.drop_left]
      rw [ih n (by simp at h; omega)]
      simp

/-- the reference on a byte-aligned range: the sub-slice, zero-padded to the requested length -/
theorem extract_aligned (d : Bytes) (o l : Nat) (shift : Bool) (hl : 0 < l) (ho : o ≤ d.length) :
    extract d (8 * o) (8 * l) shift =
      some (((d.drop o).take l) ++ List.replicate (l - ((d.drop o).take l).length) 0) := by
  unfold extract
  have c1 : ¬ (d.length * 8 < 8 * o ∨ 8 * l = 0) := by omega
  simp only [c1, if_false]
  rw [toBits_drop, toBits_take]
  generalize hc : (d.drop o).take l = c
  have hcl : c.length ≤ l := by rw [← hc]; simp [List.length_take]; omega
  have e1 : 8 * l - (toBits c).length = 8 * (l - c.length) := by rw [toBits_length]; omega
  rw [e1, ← toBits_zeros, ← toBits_append]
  rw [groups_toBits _ _ (by simp; omega)]
  congr 1
  rw [List.map_map]
  conv => rhs; rw [← List.map_id (c ++ List.replicate (l - c.length) 0)]
  apply List.map_congr_left
  intro x _
  simp [byteBits_length, bitsVal_byteBits]

/-- GetBytes on a byte-aligned range (the documented mappings — ports, addresses, TTL — are all of
    this kind): the sub-slice, zero-padded -/
theorem getBytes_aligned (d : Bytes) (o l : Nat) (shift : Bool) (hl : 0 < l) (ho : o ≤ d.length) :
    getBytes d ((8 * o : Nat) : Int) ((8 * l : Nat) : Int) shift =
      .ok (((d.drop o).take l) ++ List.replicate (l - ((d.drop o).take l).length) 0) := by
  unfold getBytes
  have h1 : ¬ ((d.length : Int) * 8 < ((8 * o : Nat) : Int)) := by omega
  have h2 : ¬ (((8 * l : Nat) : Int) = 0) := by omega
  have h3 : ¬ ((((8 * l : Nat) : Int)) < 0 ∨ ((8 * o : Nat) : Int) ≤ -8) := by omega
  have h4 : ¬ (((8 * o : Nat) : Int) < 0) := by omega
  simp only [h1, h2, h3, h4, if_false, Int.toNat_natCast]
  have a1 : 8 * o % 8 = 0 := by omega
  have a2 : 8 * l % 8 = 0 := by omega
  have a3 : (8 * o + 8 * l) % 8 = 0 := by omega
  have a4 : (8 * o + 8 * l) / 8 = o + l := by omega
  have a5 : 8 * o / 8 = o := by omega
  have a6 : 8 * l / 8 = l := by omega
  simp only [a1, a2, a3, a4, a5, a6, and_self, if_true, Nat.lt_irrefl, if_false, Nat.add_zero, gt_iff_lt]
  have key : ∀ n, (d.take n).drop o = (d.drop o).take (n - o) := by
    intro n; rw [List.drop_take]
  by_cases hm : d.length < o + l
  · simp only [hm, if_true]
    rw [key d.length]
    have : (d.drop o).take (d.length - o) = (d.drop o).take l := by
      rw [List.take_of_length_le (by simp), List.take_of_length_le (by simp; omega)]
    rw [this]
  · simp only [hm, if_false]
    rw [key (o + l)]
    have : o + l - o = l := by omega
    rw [this]
    have hfull : ((d.drop o).take l).length = l := by simp [List.length_take]; omega
    simp [hfull]

/-- C14, byte-aligned ranges: the implementation's extraction equals the bit-list reference, for
    every buffer, every byte offset inside it and every positive byte length -/
theorem getBytes_eq_extract_aligned (d : Bytes) (o l : Nat) (shift : Bool) (hl : 0 < l) (ho : o ≤ d.length) :
    getBytes d ((8 * o : Nat) : Int) ((8 * l : Nat) : Int) shift = .ok ((extract d (8 * o) (8 * l) shift).getD []) := by
  rw [getBytes_aligned d o l shift hl ho, extract_aligned d o l shift hl ho]; rfl

example : getBytes [0xAA, 0x55, 0x01] 8 16 true = .ok [0x55, 0x01] ∧ extract [0xAA, 0x55, 0x01] 8 16 true = some [0x55, 0x01] := by decide

end Goflow.C14
