import Goflow.Generated.LegacyT
import Goflow.Decoders.NetflowLegacy
import Proofs.Lemmas.GoPrims
import Proofs.Lemmas.Fields
/-!
  C05 (translation tie) — the NetFlow v5 decoder. `DecodeMessageVersion` / `DecodeMessage` of
  decoders/netflowlegacy/netflow.go are regenerated into Lean on every run (Goflow/Generated/LegacyT.lean: the
  *bytes.Buffer is the remaining byte list, threaded through; `utils.BinaryDecoder` is one big-endian read per destination).
  `decodeMessageVersion_trans_eq`: for EVERY byte string (and whatever the packet behind the pointer held before) the
  translated body yields the model's packet — same header, same records — or stops with the same error class;
  it never panics (no `Records[i]` out of range, no bad `Records[:i]`) and the record loop ends within its fuel.
-/
set_option linter.unusedSimpArgs false
namespace Goflow.C05Trans
open Goflow Goflow.Producer Goflow.Generated Goflow.Go Goflow.V5

theorem readU8_ok {b : Bytes} (h : 1 ≤ b.length) : Go.readU8 b = .ok (UInt8.ofNat (beNat (b.take 1)), b.drop 1) := by
  have : ¬ (min 1 b.length < 1) := by omega
  simp [Go.readU8, Go.next, List.length_take, this]
theorem readU16_ok {b : Bytes} (h : 2 ≤ b.length) : Go.readU16 b = .ok (UInt16.ofNat (beNat (b.take 2)), b.drop 2) := by
  have : ¬ (min 2 b.length < 2) := by omega
  simp [Go.readU16, Go.next, List.length_take, this]
theorem readU32_ok {b : Bytes} (h : 4 ≤ b.length) : Go.readU32 b = .ok (UInt32.ofNat (beNat (b.take 4)), b.drop 4) := by
  have : ¬ (min 4 b.length < 4) := by omega
  simp [Go.readU32, Go.next, List.length_take, this]
theorem readU8_short {b : Bytes} (h : b.length < 1) : Go.readU8 b = .error .eof := by
  have : (min 1 b.length < 1) := by omega
  simp [Go.readU8, Go.next, List.length_take, this]
theorem readU16_short {b : Bytes} (h : b.length < 2) : Go.readU16 b = .error .eof := by
  have : (min 2 b.length < 2) := by omega
  simp [Go.readU16, Go.next, List.length_take, this]
theorem readU32_short {b : Bytes} (h : b.length < 4) : Go.readU32 b = .error .eof := by
  have : (min 4 b.length < 4) := by omega
  simp [Go.readU32, Go.next, List.length_take, this]

/-- the model's record / packet behind the generated typed structs -/
def recOf (r : TL.RecordsNetFlowV5) : V5.Record :=
  { srcAddr := r.SrcAddr.toNat, dstAddr := r.DstAddr.toNat, nextHop := r.NextHop.toNat, input := r.Input.toNat, output := r.Output.toNat, dPkts := r.DPkts.toNat, dOctets := r.DOctets.toNat, first := r.First.toNat, last := r.Last.toNat, srcPort := r.SrcPort.toNat, dstPort := r.DstPort.toNat, pad1 := r.Pad1.toNat, tcpFlags := r.TCPFlags.toNat, proto := r.Proto.toNat, tos := r.Tos.toNat, srcAS := r.SrcAS.toNat, dstAS := r.DstAS.toNat, srcMask := r.SrcMask.toNat, dstMask := r.DstMask.toNat, pad2 := r.Pad2.toNat }

def packetOf (p : TL.PacketNetFlowV5) : V5.Packet :=
  ⟨p.Version.toNat, ⟨p.Count.toNat, p.SysUptime.toNat, p.UnixSecs.toNat, p.UnixNSecs.toNat, p.FlowSequence.toNat,
    p.EngineType.toNat, p.EngineId.toNat, p.SamplingInterval.toNat⟩, p.Records.map recOf⟩

/-- the record the 20-field BinaryDecoder call reads from the front of `b` -/
def recAt (b : Bytes) : TL.RecordsNetFlowV5 :=
  { SrcAddr := UInt32.ofNat (beNat (b.take 4)),
    DstAddr := UInt32.ofNat (beNat ((b.drop 4).take 4)),
    NextHop := UInt32.ofNat (beNat ((b.drop 8).take 4)),
    Input := UInt16.ofNat (beNat ((b.drop 12).take 2)),
    Output := UInt16.ofNat (beNat ((b.drop 14).take 2)),
    DPkts := UInt32.ofNat (beNat ((b.drop 16).take 4)),
    DOctets := UInt32.ofNat (beNat ((b.drop 20).take 4)),
    First := UInt32.ofNat (beNat ((b.drop 24).take 4)),
    Last := UInt32.ofNat (beNat ((b.drop 28).take 4)),
    SrcPort := UInt16.ofNat (beNat ((b.drop 32).take 2)),
    DstPort := UInt16.ofNat (beNat ((b.drop 34).take 2)),
    Pad1 := UInt8.ofNat (beNat ((b.drop 36).take 1)),
    TCPFlags := UInt8.ofNat (beNat ((b.drop 37).take 1)),
    Proto := UInt8.ofNat (beNat ((b.drop 38).take 1)),
    Tos := UInt8.ofNat (beNat ((b.drop 39).take 1)),
    SrcAS := UInt16.ofNat (beNat ((b.drop 40).take 2)),
    DstAS := UInt16.ofNat (beNat ((b.drop 42).take 2)),
    SrcMask := UInt8.ofNat (beNat ((b.drop 44).take 1)),
    DstMask := UInt8.ofNat (beNat ((b.drop 45).take 1)),
    Pad2 := UInt16.ofNat (beNat ((b.drop 46).take 2)) }

theorem u8_beNat (l : Bytes) : (UInt8.ofNat (beNat (l.take 1))).toNat = beNat (l.take 1) := by
  have := beNat_lt (l.take 1); have hl : (l.take 1).length ≤ 1 := List.length_take_le _ _
  rw [UInt8.toNat_ofNat']; apply Nat.mod_eq_of_lt
  exact Nat.lt_of_lt_of_le this (Nat.pow_le_pow_right (by decide) hl)
theorem u16_beNat (l : Bytes) : (UInt16.ofNat (beNat (l.take 2))).toNat = beNat (l.take 2) := by
  have := beNat_lt (l.take 2); have hl : (l.take 2).length ≤ 2 := List.length_take_le _ _
  rw [UInt16.toNat_ofNat']; apply Nat.mod_eq_of_lt
  exact Nat.lt_of_lt_of_le this (Nat.pow_le_pow_right (by decide) hl)
theorem u32_beNat (l : Bytes) : (UInt32.ofNat (beNat (l.take 4))).toNat = beNat (l.take 4) := by
  have := beNat_lt (l.take 4); have hl : (l.take 4).length ≤ 4 := List.length_take_le _ _
  rw [UInt32.toNat_ofNat']; apply Nat.mod_eq_of_lt
  exact Nat.lt_of_lt_of_le this (Nat.pow_le_pow_right (by decide) hl)

theorem beNat_take1_mod (l : Bytes) : beNat (l.take 1) % 256 = beNat (l.take 1) := by
  have := u8_beNat l; rwa [UInt8.toNat_ofNat'] at this
theorem beNat_take2_mod (l : Bytes) : beNat (l.take 2) % 65536 = beNat (l.take 2) := by
  have := u16_beNat l; rwa [UInt16.toNat_ofNat'] at this
theorem beNat_take4_mod (l : Bytes) : beNat (l.take 4) % 4294967296 = beNat (l.take 4) := by
  have := u32_beNat l; rwa [UInt32.toNat_ofNat'] at this

theorem beNat_take1_lt (l : Bytes) : beNat (l.take 1) < 256 := by
  rw [← beNat_take1_mod]; exact Nat.mod_lt _ (by decide)
theorem beNat_take2_lt (l : Bytes) : beNat (l.take 2) < 65536 := by
  rw [← beNat_take2_mod]; exact Nat.mod_lt _ (by decide)
theorem beNat_take4_lt (l : Bytes) : beNat (l.take 4) < 4294967296 := by
  rw [← beNat_take4_mod]; exact Nat.mod_lt _ (by decide)

theorem readRecord_eq (b : Bytes) (h : 48 ≤ b.length) : readRecord b = .ok (recOf (recAt b), b.drop 48) := by
  simp (disch := (first | omega | (simp only [List.length_drop]; omega))) only [readRecord, readFields, Record.widths, readU_ok, List.drop_drop]
  simp [Record.ofList, recOf, recAt, beNat_take1_mod, beNat_take2_mod, beNat_take4_mod]

theorem loop_step (fuel : Nat) (b : Bytes) (pk : TL.PacketNetFlowV5) (i : Nat) (hi : i < pk.Count.toNat) (hb : 48 ≤ b.length)
    (hl : i < pk.Records.length) :
    TL.DecodeMessage_loop1 (fuel + 1) b pk i =
      TL.DecodeMessage_loop1 fuel (b.drop 48) { pk with Records := pk.Records.set i (recAt b) } (i + 1) := by
  rw [TL.DecodeMessage_loop1]
  have hc : (decide (i < pk.Count.toNat) && decide (b.length ≥ 48)) = true := by simp [hi, hb]
  simp (disch := (first | omega | (simp only [List.length_drop]; omega))) only [hc, if_true, readU8_ok, readU16_ok, readU32_ok, ok_bind, List.drop_drop,
    Go.setIdxL, hl]
  rfl

theorem take_set_succ {α : Type} (l : List α) (i : Nat) (r : α) (h : i < l.length) :
    (l.set i r).take (i + 1) = l.take i ++ [r] := by
  induction l generalizing i with
  | nil => simp at h
  | cons a as ih =>
    cases i with
    | zero => simp
    | succ i => simp at h; simp [ih i (by omega)]

/-- the record loop of DecodeMessage: the records it stores are the ones the model reads -/
theorem loop_eq : ∀ (fuel : Nat) (b : Bytes) (pk : TL.PacketNetFlowV5) (i : Nat),
    pk.Records.length = pk.Count.toNat → i ≤ pk.Count.toNat → b.length / 48 < fuel →
    ∃ b' pk' rs, TL.DecodeMessage_loop1 fuel b pk i = .ok (b', pk', i + rs.length) ∧
      readRecords (pk.Count.toNat - i) b = .ok (rs.map recOf) ∧
      pk'.Records.take (i + rs.length) = pk.Records.take i ++ rs ∧ i + rs.length ≤ pk'.Records.length ∧
      ({ pk' with Records := [] } : TL.PacketNetFlowV5) = { pk with Records := [] } := by
  intro fuel
  induction fuel with
  | zero => intro b pk i _ _ h; omega
  | succ fuel ih =>
    intro b pk i hlen hi hf
    by_cases hc : i < pk.Count.toNat ∧ 48 ≤ b.length
    · obtain ⟨hc1, hc2⟩ := hc
      rw [loop_step fuel b pk i hc1 hc2 (by omega)]
      obtain ⟨b', pk', rs', h1, h2, h3, h4, h5⟩ := ih (b.drop 48) { pk with Records := pk.Records.set i (recAt b) } (i + 1)
        (by simp [hlen]) (Nat.succ_le_of_lt hc1) (by simp only [List.length_drop]; omega)
      refine ⟨b', pk', recAt b :: rs', ?_, ?_, ?_, ?_, ?_⟩
      · rw [h1]; simp [Nat.add_assoc, Nat.add_comm 1]
      · obtain ⟨k, hk⟩ : ∃ k, pk.Count.toNat - i = k + 1 := ⟨pk.Count.toNat - i - 1, by omega⟩
        have hk' : pk.Count.toNat - (i + 1) = k := by omega
        simp only [hk'] at h2
        rw [hk, readRecords, if_pos hc2, readRecord_eq b hc2]
        simp only [h2, List.map_cons]
      · have : i + (recAt b :: rs').length = i + 1 + rs'.length := by simp; omega
        rw [this, h3]
        simp only [take_set_succ _ _ _ (by omega : i < pk.Records.length), List.append_assoc, List.singleton_append]
      · have : i + (recAt b :: rs').length = i + 1 + rs'.length := by simp; omega
        rw [this]; exact h4
      · rw [h5]
    · refine ⟨b, pk, [], ?_, ?_, ?_, ?_, rfl⟩
      · rw [TL.DecodeMessage_loop1]
        have : (decide (i < pk.Count.toNat) && decide (b.length ≥ 48)) = false := by
          simp only [Bool.and_eq_false_iff, decide_eq_false_iff_not]; omega
        simp [this]
      · cases hk : pk.Count.toNat - i with
        | zero => simp [readRecords]
        | succ k =>
          have : ¬ 48 ≤ b.length := by omega
          simp [readRecords, this]
      · simp
      · simp; omega

/-- the packet after the 8-field BinaryDecoder call and `packet.Records = make(…, Count)` -/
def hdrAt (b : Bytes) (pk : TL.PacketNetFlowV5) : TL.PacketNetFlowV5 :=
  { Version := pk.Version, Count := UInt16.ofNat (beNat (b.take 2)), SysUptime := UInt32.ofNat (beNat ((b.drop 2).take 4)),
    UnixSecs := UInt32.ofNat (beNat ((b.drop 6).take 4)), UnixNSecs := UInt32.ofNat (beNat ((b.drop 10).take 4)),
    FlowSequence := UInt32.ofNat (beNat ((b.drop 14).take 4)), EngineType := UInt8.ofNat (beNat ((b.drop 18).take 1)),
    EngineId := UInt8.ofNat (beNat ((b.drop 19).take 1)), SamplingInterval := UInt16.ofNat (beNat ((b.drop 20).take 2)),
    Records := List.replicate (UInt16.ofNat (beNat (b.take 2))).toNat ({} : TL.RecordsNetFlowV5) }

theorem decodeMessage_trans_eq (b : Bytes) (pk : TL.PacketNetFlowV5) (hv : pk.Version = 5) :
    (TL.DecodeMessage b pk).map (fun r => packetOf r.2) = decodeMessage b := by
  unfold TL.DecodeMessage decodeMessage
  by_cases hlen : 22 ≤ b.length
  · -- the header is there
    have hm : readFields Header.widths b = .ok ([beNat (b.take 2), beNat ((b.drop 2).take 4), beNat ((b.drop 6).take 4),
        beNat ((b.drop 10).take 4), beNat ((b.drop 14).take 4), beNat ((b.drop 18).take 1), beNat ((b.drop 19).take 1),
        beNat ((b.drop 20).take 2)], b.drop 22) := by
      simp (disch := (first | omega | (simp only [List.length_drop]; omega))) only [readFields, Header.widths, readU_ok, List.drop_drop]
    rw [hm]
    obtain ⟨b', pk', rs, h1, h2, h3, h4, h5⟩ := loop_eq (Go.loopFuel (b.drop 22)) (b.drop 22) (hdrAt b pk) 0
      (by simp [hdrAt]) (Nat.zero_le _) (by simp only [Go.loopFuel]; omega)
    simp only [hdrAt, Nat.zero_add, Nat.sub_zero, List.take_zero, List.nil_append] at h1 h2 h3 h4 h5
    simp (disch := (first | omega | (simp only [List.length_drop]; omega))) only [readU8_ok, readU16_ok, readU32_ok, ok_bind,
      List.drop_drop, Go.makeL, Header.ofList, h1, Go.sliceToL, h4, if_true, h3]
    have hc : (UInt16.ofNat (beNat (b.take 2))).toNat = beNat (b.take 2) := u16_beNat b
    rw [hc] at h2
    simp only [h2, Except.map, packetOf]
    injection h5 with e1 e2 e3 e4 e5 e6 e7 e8 e9
    simp [e1, e2, e3, e4, e5, e6, e7, e8, e9, hv, u8_beNat, u16_beNat, u32_beNat, beNat_take1_lt, beNat_take2_lt, beNat_take4_lt]
  · -- the header is cut short: both sides stop with the EOF class
    have hm : readFields Header.widths b = .error .eof := readFields_err_of_lt _ _ (by simpa [sumW, Header.widths] using Nat.lt_of_not_le hlen)
    rw [hm]
    have hcases : b.length < 2 ∨ (2 ≤ b.length ∧ b.length < 6) ∨ (6 ≤ b.length ∧ b.length < 10) ∨ (10 ≤ b.length ∧ b.length < 14) ∨
        (14 ≤ b.length ∧ b.length < 18) ∨ (18 ≤ b.length ∧ b.length < 19) ∨ (19 ≤ b.length ∧ b.length < 20) ∨
        (20 ≤ b.length ∧ b.length < 22) := by omega
    rcases hcases with h | h | h | h | h | h | h | h <;>
      simp (disch := (first | omega | (simp only [List.length_drop]; omega))) only [readU8_ok, readU16_ok, readU32_ok,
        readU8_short, readU16_short, readU32_short, ok_bind, err_bind, List.drop_drop, Except.map]

/-- netflowlegacy.DecodeMessageVersion, for every byte string and whatever the packet held before: the same header,
    the same records, the same error class as the model -/
theorem decodeMessageVersion_trans_eq (b : Bytes) (pk : TL.PacketNetFlowV5) :
    (TL.DecodeMessageVersion b pk).map (fun r => packetOf r.2) = decodeMessageVersion b := by
  unfold TL.DecodeMessageVersion decodeMessageVersion
  by_cases h2 : 2 ≤ b.length
  · rw [readU16_ok h2, readU_ok h2]
    simp only [ok_bind]
    by_cases hv : beNat (b.take 2) = 5
    · have hv' : UInt16.ofNat (beNat (b.take 2)) = 5 := by rw [hv]; rfl
      simp only [hv', hv, ne_eq, not_true_eq_false, decide_false, if_false, Bool.false_eq_true]
      exact decodeMessage_trans_eq _ _ rfl
    · have hv' : UInt16.ofNat (beNat (b.take 2)) ≠ 5 := by
        intro h
        apply hv
        have := congrArg UInt16.toNat h
        rw [u16_beNat] at this
        exact this
      simp [hv', hv, Go.retSt, Except.map]
  · have h2' : b.length < 2 := by omega
    rw [readU16_short h2', readU_short h2']
    rfl

end Goflow.C05Trans
