import Goflow.Generated.NetflowDecT
import Goflow.Decoders.Netflow
import Proofs.Lemmas.GoPrims
/-!
  C03 (translation tie, first part) — the NetFlow v9 / IPFIX decoder. So far `GetTemplateSize` of
  decoders/netflow/netflow.go is regenerated (Goflow/Generated/NetflowDecT.lean) and proved equal to the model's
  `templateSize`: a variable-length field (length 0xffff) counts one byte, every other field its length.
-/
set_option linter.unusedSimpArgs false
namespace Goflow.C03Trans
open Goflow Goflow.Producer Goflow.Generated Goflow.Go Goflow.Netflow

/-- the model's template field behind the generated `netflow.Field` -/
def fieldOf (f : TD.Field) : Netflow.Field := ⟨f.PenProvided, f.Type.toNat, f.Length.toNat, f.Pen.toNat⟩

theorem idxL_getElem {α : Type} {l : List α} {i : Nat} (h : i < l.length) : Go.idxL l i = .ok l[i] := by
  simp [Go.idxL, List.getElem?_eq_getElem h]

theorem templateSize_cons (f : Netflow.Field) (fs : List Netflow.Field) :
    templateSize (f :: fs) = (if f.length = 0xffff then 1 else f.length) + templateSize fs := by
  simp [templateSize]

theorem getTemplateSize_loop (tpl : List TD.Field) : ∀ (fuel sum rng : Nat), rng ≤ tpl.length → tpl.length - rng < fuel →
    TD.GetTemplateSize_loop1 tpl tpl.length fuel sum rng =
      .ok (sum + templateSize ((tpl.drop rng).map fieldOf), tpl.length) := by
  intro fuel
  induction fuel with
  | zero => intro sum rng _ h; omega
  | succ fuel ih =>
    intro sum rng h1 h2
    rw [TD.GetTemplateSize_loop1]
    by_cases hr : rng < tpl.length
    · have hd : tpl.drop rng = tpl[rng] :: tpl.drop (rng + 1) := List.drop_eq_getElem_cons hr
      rw [hd, List.map_cons, templateSize_cons]
      simp only [hr, decide_true, if_true, idxL_getElem hr, ok_bind]
      by_cases hv : tpl[rng].Length = 65535
      · have hv' : (fieldOf tpl[rng]).length = 0xffff := by simp [fieldOf, hv]
        simp [hv, hv', ih _ _ (Nat.succ_le_of_lt hr) (by omega : tpl.length - (rng + 1) < fuel), Nat.add_assoc]
      · have hv' : ¬ (fieldOf tpl[rng]).length = 0xffff := by
          intro h
          apply hv
          rw [← UInt16.toNat_inj]
          simpa [fieldOf] using h
        simp [hv, hv', ih _ _ (Nat.succ_le_of_lt hr) (by omega : tpl.length - (rng + 1) < fuel), Nat.add_assoc]
        simp [fieldOf]
    · have : rng = tpl.length := by omega
      subst this
      simp [templateSize]

/-- netflow.GetTemplateSize: never panics, ends within its fuel, and is the model's `templateSize` -/
theorem getTemplateSize_eq (version : UInt16) (tpl : List TD.Field) :
    TD.GetTemplateSize version tpl = .ok (templateSize (tpl.map fieldOf)) := by
  unfold TD.GetTemplateSize
  simp [getTemplateSize_loop tpl (tpl.length + 1) 0 0 (by omega) (by omega)]

end Goflow.C03Trans
