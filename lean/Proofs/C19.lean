import Goflow.Conc.FileTransport
import Goflow.Generated.Sync
/-!
  C19 — File output: each message written once and intact, also across rotation.
  Proved for the write-under-read-lock protocol, any number of senders, any number of rotations,
  any interleaving. Assumed: one write(2) on an O_APPEND descriptor is atomic w.r.t. other writers.
-/
namespace Goflow.C19
open Goflow.Conc.FileTransport

/-- invariant: nobody failed, nobody sits between picking and writing, and message i has been
    written exactly once iff sender i returned nil (never otherwise), always to an open-at-the-time file -/
def Inv (st : St) : Prop :=
  (∀ (i : Nat) (pc : Pc), st.senders[i]? = some pc → pc = .idle ∨ pc = .ok) ∧
  (∀ (i : Nat), (written st).count i = if st.senders[i]? = some Pc.ok then 1 else 0) ∧
  (∀ e ∈ st.log, e.1 ≤ st.cur ∧ (e.1 ∈ st.closed ∨ e.1 = st.cur))

theorem inv_init (n : Nat) : Inv (init n) := by
  refine ⟨?_, ?_, ?_⟩
  · intro i pc h
    simp only [init, List.getElem?_replicate] at h
    split at h <;> simp at h
    left; exact h.symm
  · intro i
    simp only [init, written, List.map_nil, List.count_nil, List.getElem?_replicate]
    split <;> simp
  · intro e he; simp [init] at he

private theorem get_set {l : List Pc} {i j : Nat} {a b : Pc} (h : (l.set i a)[j]? = some b) :
    (i = j ∧ a = b) ∨ (i ≠ j ∧ l[j]? = some b) := by
  rw [List.getElem?_set] at h
  by_cases hij : i = j
  · subst hij
    simp only [if_true] at h
    split at h
    · left; exact ⟨rfl, by simpa using h⟩
    · simp at h
  · right
    simp only [hij, if_false] at h
    exact ⟨hij, h⟩

theorem inv_step (st : St) (e : Ev) (h : Inv st) : Inv (step true st e) := by
  obtain ⟨h1, h2, h3⟩ := h
  cases e with
  | rotate =>
    refine ⟨h1, h2, ?_⟩
    intro e he
    obtain ⟨a, b⟩ := h3 e he
    simp only [step]
    refine ⟨by omega, ?_⟩
    left
    rcases b with b | b
    · simp [b]
    · simp [b]
  | send i =>
    simp only [step]
    cases hs : st.senders[i]? with
    | none => exact ⟨h1, h2, h3⟩
    | some pc =>
      rcases h1 i pc hs with rfl | rfl
      · -- idle: write under the read lock
        simp only [if_true]
        have hlt : i < st.senders.length := by
          rcases Nat.lt_or_ge i st.senders.length with h | h
          · exact h
          · rw [List.getElem?_eq_none h] at hs; cases hs
        refine ⟨?_, ?_, ?_⟩
        · intro j pc hj
          rcases get_set hj with ⟨_, he⟩ | ⟨_, hj'⟩
          · right; exact he.symm
          · exact h1 j pc hj'
        · intro j
          have hcount := h2 j
          simp only [written, List.map_append, List.map_cons, List.map_nil, List.count_append, List.count_cons, List.count_nil] at hcount ⊢
          rw [List.getElem?_set]
          by_cases hij : i = j
          · subst hij
            simp only [hs] at hcount
            simp [hlt] at hcount ⊢
            omega
          · have : ¬ (i == j) = true := by simpa using hij
            have hji : ¬ (j == i) = true := by simpa using (Ne.symm hij)
            simp only [hij, if_false] at hcount ⊢
            simp [hij] at hcount ⊢
            exact hcount
        · intro e he
          simp only [List.mem_append, List.mem_singleton] at he
          rcases he with he | rfl
          · exact h3 e he
          · exact ⟨Nat.le_refl _, Or.inr rfl⟩
      · exact ⟨h1, h2, h3⟩

theorem inv_run (st : St) (sched : List Ev) (h : Inv st) : Inv (run true st sched) := by
  induction sched generalizing st with
  | nil => exact h
  | cons e rest ih => exact ih _ (inv_step st e h)

/-- no Send fails and no write ever goes to a closed file: every write went to the file that was
    current — hence open — at that moment, whatever the interleaving with rotations -/
theorem no_closed_write (n : Nat) (sched : List Ev) :
    ∀ (i : Nat), (run true (init n) sched).senders[i]? ≠ some Pc.failed := by
  intro i h
  have := (inv_run (init n) sched (inv_init n)).1 i _ h
  rcases this with h | h <;> cases h

/-- every message whose Send returned appears exactly once in old + new files, the others not at all -/
theorem each_once (n : Nat) (sched : List Ev) (i : Nat) :
    (written (run true (init n) sched)).count i =
      if (run true (init n) sched).senders[i]? = some Pc.ok then 1 else 0 :=
  (inv_run (init n) sched (inv_init n)).2.1 i

/-- old and new files partition the writes: a message is in exactly the file of one generation -/
theorem units_in_one_file (st : St) (i : Nat) :
    (written st).count i = ((st.log.filter fun e => e.2 == i).map (·.1)).length := by
  simp only [written, List.count_eq_length_filter, List.length_map, List.filter_map, Function.comp_def]

/-- Send takes the read lock, releases it only on return (defer) and issues exactly one Fprint of
    data+separator in between; the rotation closes and reopens under the write lock
    (regenerated from transport/file/transport.go on every run) -/
theorem skeleton_matches :
    Goflow.Generated.skFileSend =
      ["d.lock.RLock()", "defer d.lock.RUnlock()", "verifPoint(\"file.send.picked\")", "fmt.Fprint(w, string(data)+d.lineSeparator)"] ∧
    Goflow.Generated.skFileInit =
      ["d.q = make(chan bool, 1)", "d.lock.Lock()", "d.openFile()", "d.lock.Unlock()", "go", "select{<-c | <-d.q}", "d.lock.Lock()", "d.file.Close()",
       "d.openFile()", "d.lock.Unlock()", "verifPoint(\"file.reopened\")"] := by
  decide +kernel

/-- The output file is opened for appending (O_APPEND): each `Fprint` of a Send is one write(2) that the kernel places
    at the current end of the file — the assumption under which concurrent senders holding the *read* lock cannot
    overwrite each other (DESIGN: "assumes O_APPEND write atomicity"). Regenerated from `openFile`. -/
theorem open_appends :
    Goflow.Generated.skFileOpen = ["os.OpenFile(d.fileDestination, os.O_APPEND|os.O_CREATE|os.O_WRONLY, 0644)"] := by
  decide +kernel

/-- non-vacuity: 3 senders and 2 rotations, everything written once -/
example : written (run true (init 3) [.send 0, .rotate, .send 2, .rotate, .send 1]) = [0, 2, 1] ∧
    fileOf (run true (init 3) [.send 0, .rotate, .send 2, .rotate, .send 1]) 1 = [2] := by decide

end Goflow.C19
