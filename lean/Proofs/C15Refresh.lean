import Proofs.C15
/-!
  C15 — refresh datagrams (a template re-announced exactly as stored, the stored sampling rate
  announced again) are read-only, so the parallel workload may mix them with data sets.

  IMPORTANT: `C15.Equiv` compares the per-exporter template stores and rate tables as *lists*.
  `Store.add` moves the (re-)announced key to the head of the association list, so a refresh of a
  template that is not already at the head changes the list although no lookup changes:
  `refresh_not_strictly_readOnly` below is a concrete refresh datagram that is NOT `C15.ReadOnly`.
  The statement "refresh ⇒ `C15.ReadOnly`" is therefore false for the model as it stands.  What is
  true, and proved here, is the same development one level coarser: `LEquiv` compares states by
  every template lookup and every rate lookup (`C15.Equiv → LEquiv`), `decodeFlow` respects `LEquiv`
  (`decodeFlow_congrL`: the decoder reads a store only through `Store.get`, the producer reads the
  rates only through lookups), `ReadOnlyL` is read-only up to `LEquiv`, and
  `parallel_eq_sequential_L` has the same conclusion about messages as `C15.parallel_eq_sequential`.
-/
namespace Goflow.C15Refresh
open Goflow Goflow.Pipe Goflow.Producer Goflow.Netflow

/-! ### lookup equivalence of stores, rate tables and states -/

/-- two template stores answer every `GetTemplate` alike -/
def SEq (a b : Store) : Prop := ∀ k, a.get k = b.get k
/-- two sampling-rate tables answer every lookup alike -/
def REq (a b : Rates) : Prop := ∀ k, a.lookup k = b.lookup k

theorem SEq.refl (a : Store) : SEq a a := fun _ => rfl
theorem SEq.symm {a b : Store} (h : SEq a b) : SEq b a := fun k => (h k).symm
theorem SEq.trans {a b c : Store} (h1 : SEq a b) (h2 : SEq b c) : SEq a c := fun k => (h1 k).trans (h2 k)
theorem REq.refl (a : Rates) : REq a a := fun _ => rfl
theorem REq.symm {a b : Rates} (h : REq a b) : REq b a := fun k => (h k).symm
theorem REq.trans {a b c : Rates} (h1 : REq a b) (h2 : REq b c) : REq a c := fun k => (h1 k).trans (h2 k)

/-- the shared state up to lookups: every exporter's store answers every template lookup alike,
    every exporter address's table answers every rate lookup alike -/
def LEquiv (a b : State) : Prop :=
  (∀ src : Src, SEq (a.templatesOf src) (b.templatesOf src)) ∧ (∀ ip : Bytes, REq (a.ratesOf ip) (b.ratesOf ip))

theorem LEquiv.refl (a : State) : LEquiv a a := ⟨fun _ => SEq.refl _, fun _ => REq.refl _⟩
theorem LEquiv.symm {a b : State} (h : LEquiv a b) : LEquiv b a :=
  ⟨fun s => (h.1 s).symm, fun s => (h.2 s).symm⟩
theorem LEquiv.trans {a b c : State} (h1 : LEquiv a b) (h2 : LEquiv b c) : LEquiv a c :=
  ⟨fun s => (h1.1 s).trans (h2.1 s), fun s => (h1.2 s).trans (h2.2 s)⟩

/-- the equivalence of Proofs/C15.lean (stores equal as lists) is finer -/
theorem LEquiv.of_equiv {a b : State} (h : C15.Equiv a b) : LEquiv a b :=
  ⟨fun s => by rw [h.1 s]; exact SEq.refl _, fun s => by rw [h.2 s]; exact REq.refl _⟩

/-! ### `Store.add` / `Rates.add` -/

theorem get_add (s : Store) (k k' : Nat) (t : Template) :
    (s.add k t).get k' = if k' = k then some t else s.get k' := by
  unfold Store.add Store.get
  rw [lookup_cons_filter]
  simp

theorem lookup_rates_add (r : Rates) (k k' : Nat × Nat) (v : Nat) :
    (r.add k v).lookup k' = if k' = k then some v else r.lookup k' := by
  unfold Rates.add
  rw [lookup_cons_filter]
  simp

/-- `AddTemplate` of the template already stored under that key leaves every lookup unchanged -/
theorem add_same (s : Store) (k : Nat) (t : Template) (h : s.get k = some t) : SEq (s.add k t) s := by
  intro k'
  rw [get_add]
  split
  · rename_i hk; rw [hk, h]
  · rfl

theorem add_congr (s s' : Store) (k : Nat) (t : Template) (h : SEq s s') : SEq (s.add k t) (s'.add k t) := by
  intro k'; rw [get_add, get_add, h k']

/-- `AddSamplingRate` of the rate already stored leaves every lookup unchanged -/
theorem rates_add_same (r : Rates) (k : Nat × Nat) (v : Nat) (h : r.lookup k = some v) : REq (r.add k v) r := by
  intro k'
  rw [lookup_rates_add]
  split
  · rename_i hk; rw [hk, h]
  · rfl

theorem rates_add_congr (r r' : Rates) (k : Nat × Nat) (v : Nat) (h : REq r r') : REq (r.add k v) (r'.add k v) := by
  intro k'; rw [lookup_rates_add, lookup_rates_add, h k']

theorem rates_get_congr (r r' : Rates) (k : Nat × Nat) (h : REq r r') : r.get k = r'.get k := by
  unfold Rates.get; rw [h k]

theorem addTemplates_congr (v dom : Nat) (l : List (Nat × Template)) (s s' : Store) (h : SEq s s') :
    SEq (addTemplates v dom s l) (addTemplates v dom s' l) := by
  induction l generalizing s s' with
  | nil => exact h
  | cons p rest ih =>
    obtain ⟨tid, t⟩ := p
    simp only [addTemplates]
    exact ih _ _ (add_congr _ _ _ _ h)

theorem addTemplates_append (v dom : Nat) (l₁ l₂ : List (Nat × Template)) (s : Store) :
    addTemplates v dom s (l₁ ++ l₂) = addTemplates v dom (addTemplates v dom s l₁) l₂ := by
  induction l₁ generalizing s with
  | nil => rfl
  | cons p rest ih =>
    obtain ⟨tid, t⟩ := p
    simp only [List.cons_append, addTemplates]
    exact ih _

/-- announcing templates that all equal what the store already holds under their keys leaves every
    lookup unchanged (starting from any store lookup-equivalent to it) -/
theorem addTemplates_same' (v dom : Nat) (l : List (Nat × Template)) (s s' : Store) (hs : SEq s' s)
    (h : ∀ e ∈ l, s.get (templateKey v dom e.1) = some e.2) : SEq (addTemplates v dom s' l) s := by
  induction l generalizing s' with
  | nil => exact hs
  | cons p rest ih =>
    obtain ⟨tid, t⟩ := p
    simp only [addTemplates]
    apply ih
    · have h0 : s'.get (templateKey v dom tid) = some t := by
        rw [hs]; exact h (tid, t) (by simp)
      exact (add_same s' _ t h0).trans hs
    · intro e he; exact h e (by simp [he])

theorem addTemplates_same (v dom : Nat) (l : List (Nat × Template)) (s : Store)
    (h : ∀ e ∈ l, s.get (templateKey v dom e.1) = some e.2) : SEq (addTemplates v dom s l) s :=
  addTemplates_same' v dom l s s (SEq.refl s) h

/-! ### the decoder reads the store only through lookups -/

def SetRel : Res SetOut → Res SetOut → Prop
  | .ok a, .ok b => a.flowSet = b.flowSet ∧ a.tnf = b.tnf ∧ a.rest = b.rest ∧ SEq a.store b.store
  | .error e, .error e' => e = e'
  | _, _ => False

theorem decodeFlowSet_congr (fuel v dom : Nat) (s s' : Store) (b : Bytes) (h : SEq s s') :
    SetRel (decodeFlowSet fuel v dom s b) (decodeFlowSet fuel v dom s' b) := by
  unfold decodeFlowSet
  split
  · simp [SetRel]
  · split
    · split
      · simp [SetRel]
      · simp only
        split
        · split
          · simp [SetRel]
          · simp only [SetRel, true_and]
            exact addTemplates_congr _ _ _ _ _ h
        · split
          · split
            · simp [SetRel]
            · simp only [SetRel, true_and]
              exact addTemplates_congr _ _ _ _ _ h
          · split
            · split
              · simp [SetRel]
              · simp only [SetRel, true_and]
                exact addTemplates_congr _ _ _ _ _ h
            · split
              · have h' : ∀ k, s.get k = s'.get k := h
                rw [h']
                split
                · simp only [SetRel, true_and]; exact h
                · split
                  · simp [SetRel]
                  · simp only [SetRel, true_and]; exact h
                · split
                  · simp [SetRel]
                  · simp only [SetRel, true_and]; exact h
                · split
                  · simp [SetRel]
                  · simp only [SetRel, true_and]; exact h
              · simp [SetRel]
    · simp [SetRel]

/-- the templates one flow set announces: (template id, what `AddTemplate` stores) -/
def tplsOf : FlowSet → List (Nat × Template)
  | .template _ _ rs => rs.map fun r => (r.templateId, Template.data r)
  | .v9opts _ _ rs => rs.map fun r => (r.templateId, Template.v9opts r)
  | .ipfixopts _ _ rs => rs.map fun r => (r.templateId, Template.ipfixopts r)
  | _ => []

/-- the store after one flow set = the store before + the templates that set announces -/
theorem decodeFlowSet_store (fuel v dom : Nat) (s : Store) (b : Bytes) (o : SetOut)
    (h : decodeFlowSet fuel v dom s b = .ok o) : o.store = addTemplates v dom s (tplsOf o.flowSet) := by
  unfold decodeFlowSet at h
  split at h
  · cases h
  · split at h
    · split at h
      · cases h
      · simp only at h
        split at h
        · split at h
          · cases h
          · cases h; rfl
        · split at h
          · split at h
            · cases h
            · cases h; rfl
          · split at h
            · split at h
              · cases h
              · cases h; rfl
            · split at h
              · split at h
                · cases h; rfl
                · split at h
                  · cases h
                  · cases h; rfl
                · split at h
                  · cases h
                  · cases h; rfl
                · split at h
                  · cases h
                  · cases h; rfl
              · cases h
    · cases h

theorem decodeSets_congr (v dom size sl : Nat) (fuel i : Nat) (s s' : Store) (b : Bytes) (h : SEq s s') :
    (decodeSets v dom size sl fuel i s b).flowSets = (decodeSets v dom size sl fuel i s' b).flowSets ∧
    (decodeSets v dom size sl fuel i s b).tnf = (decodeSets v dom size sl fuel i s' b).tnf ∧
    (decodeSets v dom size sl fuel i s b).err = (decodeSets v dom size sl fuel i s' b).err ∧
    SEq (decodeSets v dom size sl fuel i s b).store (decodeSets v dom size sl fuel i s' b).store := by
  induction fuel generalizing i s s' b with
  | zero => exact ⟨rfl, rfl, rfl, h⟩
  | succ fuel ih =>
    simp only [decodeSets]
    split
    · have hc := decodeFlowSet_congr (b.length + 2) v dom s s' b h
      cases ha : decodeFlowSet (b.length + 2) v dom s b with
      | error e =>
        cases hb : decodeFlowSet (b.length + 2) v dom s' b with
        | error e' =>
          rw [ha, hb] at hc
          simp only [SetRel] at hc
          subst hc
          exact ⟨rfl, rfl, rfl, h⟩
        | ok o' => rw [ha, hb] at hc; exact hc.elim
      | ok o =>
        cases hb : decodeFlowSet (b.length + 2) v dom s' b with
        | error e' => rw [ha, hb] at hc; exact hc.elim
        | ok o' =>
          rw [ha, hb] at hc
          obtain ⟨h1, h2, h3, h4⟩ := hc
          simp only
          obtain ⟨r1, r2, r3, r4⟩ := ih (i + 1) o.store o'.store o.rest h4
          rw [h3] at r1 r2 r3 r4
          rw [h3]
          exact ⟨by rw [h1, r1], by rw [h2, r2], r3, r4⟩
    · exact ⟨rfl, rfl, rfl, h⟩

/-- the store after a message = the store before + all templates announced by the decoded flow
    sets, in order (also when a later set fails: the sets decoded before it stay announced) -/
theorem decodeSets_store (v dom size sl : Nat) (fuel i : Nat) (s : Store) (b : Bytes) :
    (decodeSets v dom size sl fuel i s b).store =
      addTemplates v dom s ((decodeSets v dom size sl fuel i s b).flowSets.flatMap tplsOf) := by
  induction fuel generalizing i s b with
  | zero => rfl
  | succ fuel ih =>
    simp only [decodeSets]
    split
    · cases ha : decodeFlowSet (b.length + 2) v dom s b with
      | error e => rfl
      | ok o =>
        simp only [List.flatMap_cons]
        rw [addTemplates_append, ← decodeFlowSet_store _ _ _ _ _ _ ha]
        exact ih (i + 1) o.store o.rest
    · rfl

/-- `DecodeMessageNetFlow` / `DecodeMessageIPFIX` as the pipe selects them -/
def decodeMsg (version : Nat) (s : Store) (b : Bytes) : DecodeOut :=
  if version = 9 then decodeMessageNetFlow s b else decodeMessageIPFIX s b

theorem decodeMsg_congr (version : Nat) (s s' : Store) (b : Bytes) (h : SEq s s') :
    (decodeMsg version s b).packet = (decodeMsg version s' b).packet ∧
    (decodeMsg version s b).tnf = (decodeMsg version s' b).tnf ∧
    (decodeMsg version s b).err = (decodeMsg version s' b).err ∧
    SEq (decodeMsg version s b).store (decodeMsg version s' b).store := by
  unfold decodeMsg
  split
  · unfold decodeMessageNetFlow
    split
    · exact ⟨rfl, rfl, rfl, h⟩
    · split
      · simp only
        refine ⟨?_, (decodeSets_congr _ _ _ _ _ _ _ _ _ h).2.1, (decodeSets_congr _ _ _ _ _ _ _ _ _ h).2.2.1,
          (decodeSets_congr _ _ _ _ _ _ _ _ _ h).2.2.2⟩
        rw [(decodeSets_congr _ _ _ _ _ _ _ _ _ h).1]
      · exact ⟨rfl, rfl, rfl, h⟩
  · unfold decodeMessageIPFIX
    split
    · exact ⟨rfl, rfl, rfl, h⟩
    · split
      · simp only
        refine ⟨?_, (decodeSets_congr _ _ _ _ _ _ _ _ _ h).2.1, (decodeSets_congr _ _ _ _ _ _ _ _ _ h).2.2.1,
          (decodeSets_congr _ _ _ _ _ _ _ _ _ h).2.2.2⟩
        rw [(decodeSets_congr _ _ _ _ _ _ _ _ _ h).1]
      · exact ⟨rfl, rfl, rfl, h⟩

/-- the store a v9 / IPFIX message leaves = the store before + the templates of its decoded flow
    sets under (version, source id / observation domain) of its header -/
theorem decodeMsg_store (version : Nat) (hv : version = 9 ∨ version = 10) (s : Store) (b : Bytes) :
    (decodeMsg version s b).store =
      addTemplates (decodeMsg version s b).packet.version (decodeMsg version s b).packet.domain s
        ((decodeMsg version s b).packet.flowSets.flatMap tplsOf) := by
  unfold decodeMsg
  rcases hv with hv | hv
  · subst hv
    simp only [if_true]
    unfold decodeMessageNetFlow
    split
    · rfl
    · split
      · simp only [Packet.domain, if_true, List.getD_cons_succ, List.getD_cons_zero]
        exact decodeSets_store _ _ _ _ _ _ _ _
      · rfl
  · subst hv
    simp only [show ¬ (10 = 9) by decide, if_false]
    unfold decodeMessageIPFIX
    split
    · rfl
    · split
      · simp only [Packet.domain, show ¬ (10 = 9) by decide, if_false, List.getD_cons_succ, List.getD_cons_zero]
        exact decodeSets_store _ _ _ _ _ _ _ _
      · rfl

/-! ### the producer reads the rates only through lookups -/

theorem processNetflow_congr (cfg : Option Config) (p : Packet) (r r' : Rates) (h : REq r r') :
    (processNetflow cfg p r).msgs = (processNetflow cfg p r').msgs ∧
    (processNetflow cfg p r).err = (processNetflow cfg p r').err ∧
    REq (processNetflow cfg p r).rates (processNetflow cfg p r').rates := by
  unfold processNetflow
  split
  · exact ⟨by trivial, by trivial, h⟩
  · split
    · exact ⟨by trivial, by trivial, h⟩
    · rename_i found _
      cases found with
      | none =>
        simp only [applyRate]
        exact ⟨by rw [rates_get_congr r r' _ h], by trivial, h⟩
      | some x =>
        simp only [applyRate]
        exact ⟨by trivial, by trivial, rates_add_congr _ _ _ _ h⟩

/-- when the only rate the options data can announce is the stored one, the rates stay as they were -/
theorem processNetflow_rates_same (cfg : Option Config) (p : Packet) (r : Rates)
    (h : ∀ x, searchSamplingRate (optionRecordsOf p.flowSets) = .ok (some x) →
      r.lookup (p.version, p.domain) = some x) :
    REq (processNetflow cfg p r).rates r := by
  unfold processNetflow
  split
  · exact REq.refl _
  · split
    · exact REq.refl _
    · rename_i found hf
      cases found with
      | none => exact REq.refl _
      | some x =>
        simp only [applyRate]
        exact rates_add_same _ _ _ (h x hf)

/-! ### NetFlowPipe.DecodeFlow as a function of the exporter's store and its address's rates -/

structure Core where
  store : Store                -- the exporter's template store afterwards
  rates : Option Rates         -- `some r`: the address's rate table afterwards; `none`: not touched
  msgs : List FlowMsg
  err : Option Err

def nfCore910 (cfg : Config) (o : DecodeOut) (rates : Rates) (recvNs : Nat) (sa : Bytes) : Core :=
  match o.err with
  | some e => ⟨o.store, none, [], some e⟩
  | none =>
    match (processNetflow (some cfg) o.packet rates).err with
    | some e => ⟨o.store, some (processNetflow (some cfg) o.packet rates).rates, [], some e⟩
    | none => ⟨o.store, some (processNetflow (some cfg) o.packet rates).rates,
        (processNetflow (some cfg) o.packet rates).msgs.map (stampRecv recvNs sa),
        if o.tnf then some .tnf else none⟩

def nfCore (cfg : Config) (tpl : Store) (rates : Rates) (src : Src) (recvNs : Nat) (payload : Bytes) : Core :=
  match readU 2 payload with
  | .error e => ⟨tpl, none, [], some e⟩
  | .ok (version, b) =>
    if version = 5 then
      match V5.decodeMessage b with
      | .error e => ⟨tpl, none, [], some e⟩
      | .ok p => ⟨tpl, none, (processLegacy p).map (stampRecv recvNs (unmap src.ip)), none⟩
    else if version = 9 ∨ version = 10 then
      nfCore910 cfg (decodeMsg version tpl b) rates recvNs (unmap src.ip)
    else ⟨tpl, none, [], some .bad⟩

private theorem templatesOf_set (s : State) (k k' : Src) (t : Netflow.Store) :
    (s.setTemplates k t).templatesOf k' = if k' = k then t else s.templatesOf k' := by
  unfold State.setTemplates State.templatesOf
  simp only
  rw [lookup_cons_filter]
  by_cases h : k' = k
  · subst h; simp
  · have : (k' == k) = false := by simpa using h
    simp [h, this]

private theorem ratesOf_set (s : State) (k k' : Bytes) (r : Rates) :
    (s.setRates k r).ratesOf k' = if k' = k then r else s.ratesOf k' := by
  unfold State.setRates State.ratesOf
  simp only
  rw [lookup_cons_filter]
  by_cases h : k' = k
  · subst h; simp
  · have : (k' == k) = false := by simpa using h
    simp [h, this]

private theorem ratesOf_setTemplates (s : State) (k : Src) (t : Netflow.Store) (ip : Bytes) :
    (s.setTemplates k t).ratesOf ip = s.ratesOf ip := rfl
private theorem templatesOf_setRates (s : State) (ip : Bytes) (r : Rates) (k : Src) :
    (s.setRates ip r).templatesOf k = s.templatesOf k := rfl

/-- what a state looks like (through lookups) after a datagram whose core result is `c` -/
def After (st st' : State) (src : Src) (c : Core) : Prop :=
  (∀ k, st'.templatesOf k = if k = src then c.store else st.templatesOf k) ∧
  (∀ ip, st'.ratesOf ip = match c.rates with
      | some x => if ip = src.ip then x else st.ratesOf ip
      | none => st.ratesOf ip)

/-- `netflowPipe` is `nfCore` on the exporter's store and its address's rates; nothing else of the
    state is read, and only these two entries are written -/
theorem netflowPipe_core (cfg : Config) (st : State) (src : Src) (recv : Nat) (d : Bytes) :
    (netflowPipe cfg st src recv d).msgs = (nfCore cfg (st.templatesOf src) (st.ratesOf src.ip) src recv d).msgs ∧
    (netflowPipe cfg st src recv d).err = (nfCore cfg (st.templatesOf src) (st.ratesOf src.ip) src recv d).err ∧
    After st (netflowPipe cfg st src recv d).state src
      (nfCore cfg (st.templatesOf src) (st.ratesOf src.ip) src recv d) := by
  unfold netflowPipe nfCore After
  simp only
  cases hrd : readU 2 d with
  | error e =>
    refine ⟨rfl, rfl, fun k => ?_, fun ip => ?_⟩
    · by_cases hk : k = src <;> simp [templatesOf_set, hk]
    · simp [ratesOf_setTemplates]
  | ok vb =>
    obtain ⟨version, b⟩ := vb
    simp only
    by_cases h5 : version = 5
    · simp only [h5, if_true]
      cases V5.decodeMessage b <;>
      · refine ⟨rfl, rfl, fun k => ?_, fun ip => ?_⟩
        · by_cases hk : k = src <;> simp [templatesOf_set, hk]
        · simp [ratesOf_setTemplates]
    · simp only [h5, if_false]
      by_cases h910 : version = 9 ∨ version = 10
      · simp only [h910, if_true, nfCore910]
        have hdm : (if version = 9 then Netflow.decodeMessageNetFlow (st.templatesOf src) b
          else Netflow.decodeMessageIPFIX (st.templatesOf src) b) = decodeMsg version (st.templatesOf src) b := rfl
        rw [hdm]
        generalize decodeMsg version (st.templatesOf src) b = o
        cases ho : o.err with
        | some e' =>
          refine ⟨rfl, rfl, fun k => ?_, fun ip => ?_⟩
          · by_cases hk : k = src <;> simp [templatesOf_set, hk]
          · simp [ratesOf_setTemplates]
        | none =>
          simp only [ratesOf_setTemplates]
          cases hr : (processNetflow (some cfg) o.packet (st.ratesOf src.ip)).err with
          | some e' =>
            refine ⟨rfl, rfl, fun k => ?_, fun ip => ?_⟩
            · by_cases hk : k = src <;> simp [templatesOf_setRates, templatesOf_set, hk]
            · simp only [ratesOf_set, ratesOf_setTemplates]
          | none =>
            refine ⟨rfl, rfl, fun k => ?_, fun ip => ?_⟩
            · by_cases hk : k = src <;> simp [templatesOf_setRates, templatesOf_set, hk]
            · simp only [ratesOf_set, ratesOf_setTemplates]
      · simp only [h910, if_false]
        refine ⟨by trivial, by trivial, fun k => ?_, fun ip => ?_⟩
        · by_cases hk : k = src <;> simp [templatesOf_set, hk]
        · simp [ratesOf_setTemplates]

def ORel : Option Rates → Option Rates → Prop
  | some x, some y => REq x y
  | none, none => True
  | _, _ => False

theorem nfCore910_congr (cfg : Config) (o o' : DecodeOut) (r r' : Rates) (recv : Nat) (sa : Bytes)
    (hp : o.packet = o'.packet) (ht : o.tnf = o'.tnf) (he : o.err = o'.err) (hs : SEq o.store o'.store)
    (hr : REq r r') :
    (nfCore910 cfg o r recv sa).msgs = (nfCore910 cfg o' r' recv sa).msgs ∧
    (nfCore910 cfg o r recv sa).err = (nfCore910 cfg o' r' recv sa).err ∧
    SEq (nfCore910 cfg o r recv sa).store (nfCore910 cfg o' r' recv sa).store ∧
    ORel (nfCore910 cfg o r recv sa).rates (nfCore910 cfg o' r' recv sa).rates := by
  obtain ⟨h1, h2, h3⟩ := processNetflow_congr (some cfg) o.packet r r' hr
  rw [hp] at h1 h2 h3
  unfold nfCore910
  rw [← he, ← ht, ← h2]
  cases o.err with
  | some e => exact ⟨by trivial, by trivial, hs, trivial⟩
  | none =>
    simp only
    rw [hp]
    cases (processNetflow (some cfg) o'.packet r).err with
    | some e => exact ⟨by trivial, by trivial, hs, h3⟩
    | none => exact ⟨by simp only [h1], by trivial, hs, h3⟩

theorem nfCore_congr (cfg : Config) (t t' : Store) (r r' : Rates) (src : Src) (recv : Nat) (d : Bytes)
    (ht : SEq t t') (hr : REq r r') :
    (nfCore cfg t r src recv d).msgs = (nfCore cfg t' r' src recv d).msgs ∧
    (nfCore cfg t r src recv d).err = (nfCore cfg t' r' src recv d).err ∧
    SEq (nfCore cfg t r src recv d).store (nfCore cfg t' r' src recv d).store ∧
    ORel (nfCore cfg t r src recv d).rates (nfCore cfg t' r' src recv d).rates := by
  unfold nfCore
  split
  · exact ⟨rfl, rfl, ht, trivial⟩
  · split
    · split <;> exact ⟨rfl, rfl, ht, trivial⟩
    · split
      · exact nfCore910_congr cfg _ _ r r' recv _ (decodeMsg_congr _ _ _ _ ht).1 (decodeMsg_congr _ _ _ _ ht).2.1
          (decodeMsg_congr _ _ _ _ ht).2.2.1 (decodeMsg_congr _ _ _ _ ht).2.2.2 hr
      · exact ⟨rfl, rfl, ht, trivial⟩

/-- DecodeFlow respects lookup equivalence: same messages, same outcome, lookup-equivalent state
    (the counterpart of `C15.decodeFlow_congr`) -/
theorem decodeFlow_congrL (k : Kind) (cfg : Config) (a b : State) (src : Src) (recv : Nat) (d : Bytes)
    (h : LEquiv a b) :
    (decodeFlow k cfg a src recv d).msgs = (decodeFlow k cfg b src recv d).msgs ∧
    (decodeFlow k cfg a src recv d).err = (decodeFlow k cfg b src recv d).err ∧
    LEquiv (decodeFlow k cfg a src recv d).state (decodeFlow k cfg b src recv d).state := by
  have nf : (netflowPipe cfg a src recv d).msgs = (netflowPipe cfg b src recv d).msgs ∧
      (netflowPipe cfg a src recv d).err = (netflowPipe cfg b src recv d).err ∧
      LEquiv (netflowPipe cfg a src recv d).state (netflowPipe cfg b src recv d).state := by
    obtain ⟨am, ae, at1, at2⟩ := netflowPipe_core cfg a src recv d
    obtain ⟨bm, be, bt1, bt2⟩ := netflowPipe_core cfg b src recv d
    obtain ⟨c1, c2, c3, c4⟩ := nfCore_congr cfg _ _ _ _ src recv d (h.1 src) (h.2 src.ip)
    refine ⟨by rw [am, bm, c1], by rw [ae, be, c2], fun k' => ?_, fun ip => ?_⟩
    · rw [at1 k', bt1 k']
      by_cases hk : k' = src
      · simp only [hk, if_true]; exact c3
      · simp only [hk, if_false]; exact h.1 k'
    · rw [at2 ip, bt2 ip]
      revert c4
      cases (nfCore cfg (a.templatesOf src) (a.ratesOf src.ip) src recv d).rates <;>
      cases (nfCore cfg (b.templatesOf src) (b.ratesOf src.ip) src recv d).rates <;>
      intro c4
      · exact h.2 ip
      · exact c4.elim
      · exact c4.elim
      · simp only
        by_cases hip : ip = src.ip
        · simp only [hip, if_true]; exact c4
        · simp only [hip, if_false]; exact h.2 ip
  have sf : (sflowPipe cfg a recv d).msgs = (sflowPipe cfg b recv d).msgs ∧
      (sflowPipe cfg a recv d).err = (sflowPipe cfg b recv d).err ∧
      LEquiv (sflowPipe cfg a recv d).state (sflowPipe cfg b recv d).state := by
    unfold sflowPipe
    split
    · exact ⟨rfl, rfl, h⟩
    · split <;> exact ⟨rfl, rfl, h⟩
  cases k with
  | netflow => exact nf
  | sflow => exact sf
  | auto =>
    unfold decodeFlow autoPipe
    simp only
    split
    · exact ⟨rfl, rfl, h⟩
    · split
      · exact sf
      · split
        · exact nf
        · exact ⟨rfl, rfl, h⟩

/-! ### read-only up to lookups, and parallel = sequential -/

/-- processing the datagram leaves every template lookup and every rate lookup of the shared state
    as it was -/
def ReadOnlyL (k : Kind) (cfg : Config) (S : State) (d : C15.Dg) : Prop :=
  LEquiv (decodeFlow k cfg S d.src d.recv d.payload).state S

/-- everything that is read-only in the sense of Proofs/C15.lean is read-only up to lookups
    (in particular sFlow datagrams: `C15.sflow_readOnly`) -/
theorem readOnlyL_of_readOnly {k : Kind} {cfg : Config} {S : State} {d : C15.Dg} (h : C15.ReadOnly k cfg S d) :
    ReadOnlyL k cfg S d := LEquiv.of_equiv h

/-- **C15 up to lookups**: if every datagram of the workload is read-only (up to lookups) on the
    prologue state S₀, then for every order σ in which the workers process them, starting from any
    state lookup-equivalent to S₀, each datagram yields exactly the messages it yields when processed
    alone on S₀, and the shared state stays lookup-equivalent to S₀. -/
theorem parallel_eq_sequential_L (k : Kind) (cfg : Config) (S₀ : State) (σ : List C15.Dg)
    (hro : ∀ d ∈ σ, ReadOnlyL k cfg S₀ d) :
    ∀ S, LEquiv S S₀ →
      (C15.runSeq k cfg S σ).1 = σ.map (fun d => (decodeFlow k cfg S₀ d.src d.recv d.payload).msgs) ∧
      LEquiv (C15.runSeq k cfg S σ).2 S₀ := by
  induction σ with
  | nil => intro S h; exact ⟨rfl, h⟩
  | cons d rest ih =>
    intro S hS
    obtain ⟨hm, _, hst⟩ := decodeFlow_congrL k cfg S S₀ d.src d.recv d.payload hS
    have hro_d := hro d (by simp)
    have hnext : LEquiv (decodeFlow k cfg S d.src d.recv d.payload).state S₀ := hst.trans hro_d
    obtain ⟨h1, h2⟩ := ih (fun x hx => hro x (by simp [hx])) _ hnext
    simp only [C15.runSeq, List.map_cons]
    exact ⟨by rw [hm, h1], h2⟩

/-- any two processing orders of the same datagrams deliver the same messages -/
theorem per_datagram_order_L (k : Kind) (cfg : Config) (S₀ : State) (σ τ : List C15.Dg)
    (hσ : ∀ d ∈ σ, ReadOnlyL k cfg S₀ d) (hp : σ.Perm τ) :
    ((C15.runSeq k cfg S₀ σ).1.flatten).Perm ((C15.runSeq k cfg S₀ τ).1.flatten) := by
  have hτ : ∀ d ∈ τ, ReadOnlyL k cfg S₀ d := fun d hd => hσ d (hp.mem_iff.mpr hd)
  rw [(parallel_eq_sequential_L k cfg S₀ σ hσ S₀ (LEquiv.refl _)).1,
    (parallel_eq_sequential_L k cfg S₀ τ hτ S₀ (LEquiv.refl _)).1]
  exact (hp.map _).flatten

/-! ### refresh datagrams -/

/-- the v9 / IPFIX packet the pipe decodes from the payload with the exporter's store
    (`none`: the payload is not v9 / IPFIX — v5, sFlow, garbage) -/
def decodedPacket (tpl : Store) (payload : Bytes) : Option Packet :=
  match readU 2 payload with
  | .error _ => none
  | .ok (version, b) => if version = 9 ∨ version = 10 then some (decodeMsg version tpl b).packet else none

/-- the templates a decoded packet announces, under the keys `AddTemplate` files them -/
def announced (p : Packet) : List (Nat × Template) :=
  (p.flowSets.flatMap tplsOf).map fun e => (templateKey p.version p.domain e.1, e.2)

/-- a datagram is a *refresh* on S (on decoded structure): every template / options-template
    record it carries equals the template stored under its key for this exporter, and if its
    options data announce a sampling rate, that is the rate stored for (version, domain) of the
    exporter's address.  Data-only v9 / IPFIX datagrams, v5 datagrams and everything that is not
    v9 / IPFIX satisfy it trivially. -/
structure Refresh (S : State) (src : Src) (payload : Bytes) : Prop where
  templates : ∀ p, decodedPacket (S.templatesOf src) payload = some p →
    ∀ e ∈ announced p, (S.templatesOf src).get e.1 = some e.2
  rate : ∀ p, decodedPacket (S.templatesOf src) payload = some p →
    ∀ x, searchSamplingRate (optionRecordsOf p.flowSets) = .ok (some x) →
      (S.ratesOf src.ip).lookup (p.version, p.domain) = some x

/-- on the core: a refresh leaves the exporter's store and its address's rates lookup-equivalent -/
theorem refresh_core (cfg : Config) (S : State) (src : Src) (recv : Nat) (d : Bytes) (h : Refresh S src d) :
    SEq (nfCore cfg (S.templatesOf src) (S.ratesOf src.ip) src recv d).store (S.templatesOf src) ∧
    ∀ x, (nfCore cfg (S.templatesOf src) (S.ratesOf src.ip) src recv d).rates = some x →
      REq x (S.ratesOf src.ip) := by
  obtain ⟨htpl, hrate⟩ := h
  unfold decodedPacket at htpl hrate
  unfold nfCore
  cases hrd : readU 2 d with
  | error e => exact ⟨SEq.refl _, fun x hx => by cases hx⟩
  | ok vb =>
    obtain ⟨version, b⟩ := vb
    simp only
    by_cases h5 : version = 5
    · simp only [h5, if_true]
      cases V5.decodeMessage b <;> exact ⟨SEq.refl _, fun x hx => by cases hx⟩
    · simp only [h5, if_false]
      by_cases h910 : version = 9 ∨ version = 10
      · simp only [h910, if_true]
        simp only [hrd, h910, if_true] at htpl hrate
        have htpl' := htpl _ rfl
        have hrate' := hrate _ rfl
        have hstore : SEq (decodeMsg version (S.templatesOf src) b).store (S.templatesOf src) := by
          rw [decodeMsg_store version h910]
          apply addTemplates_same
          intro e he
          exact htpl' (templateKey _ _ e.1, e.2) (by
            simp only [announced, List.mem_map]
            exact ⟨e, he, rfl⟩)
        unfold nfCore910
        cases (decodeMsg version (S.templatesOf src) b).err with
        | some e => exact ⟨hstore, fun x hx => by cases hx⟩
        | none =>
          simp only
          have hr := processNetflow_rates_same (some cfg) _ (S.ratesOf src.ip) hrate'
          cases (processNetflow (some cfg) (decodeMsg version (S.templatesOf src) b).packet (S.ratesOf src.ip)).err with
          | some e => exact ⟨hstore, fun x hx => by cases hx; exact hr⟩
          | none => exact ⟨hstore, fun x hx => by cases hx; exact hr⟩
      · simp only [h910, if_false]
        exact ⟨SEq.refl _, fun x hx => by cases hx⟩

theorem refresh_netflowPipe (cfg : Config) (S : State) (src : Src) (recv : Nat) (d : Bytes) (h : Refresh S src d) :
    LEquiv (netflowPipe cfg S src recv d).state S := by
  obtain ⟨_, _, t1, t2⟩ := netflowPipe_core cfg S src recv d
  obtain ⟨c1, c2⟩ := refresh_core cfg S src recv d h
  refine ⟨fun k => ?_, fun ip => ?_⟩
  · rw [t1 k]
    by_cases hk : k = src
    · simp only [hk, if_true]; exact c1
    · simp only [hk, if_false]; exact SEq.refl _
  · rw [t2 ip]
    revert c2
    cases (nfCore cfg (S.templatesOf src) (S.ratesOf src.ip) src recv d).rates with
    | none => intro _; exact REq.refl _
    | some x =>
      intro c2
      simp only
      by_cases hip : ip = src.ip
      · simp only [hip, if_true]; exact c2 x rfl
      · simp only [hip, if_false]; exact REq.refl _

/-- **a refresh datagram is read-only** (up to lookups) through the NetFlow pipe -/
theorem refresh_readOnly (cfg : Config) (S : State) (d : C15.Dg) (h : Refresh S d.src d.payload) :
    ReadOnlyL .netflow cfg S d :=
  refresh_netflowPipe cfg S d.src d.recv d.payload h

/-- … through the auto pipe (where sFlow datagrams are read-only whatever they contain) -/
theorem refresh_readOnly_auto (cfg : Config) (S : State) (d : C15.Dg) (h : Refresh S d.src d.payload) :
    ReadOnlyL .auto cfg S d := by
  unfold ReadOnlyL decodeFlow autoPipe
  simp only
  split
  · exact LEquiv.refl _
  · split
    · exact readOnlyL_of_readOnly (C15.sflow_readOnly cfg S d)
    · split
      · exact refresh_netflowPipe cfg S d.src d.recv d.payload h
      · exact LEquiv.refl _

/-- … through any of the three pipes -/
theorem refresh_readOnly_any (k : Kind) (cfg : Config) (S : State) (d : C15.Dg) (h : Refresh S d.src d.payload) :
    ReadOnlyL k cfg S d := by
  cases k with
  | netflow => exact refresh_readOnly cfg S d h
  | sflow => exact readOnlyL_of_readOnly (C15.sflow_readOnly cfg S d)
  | auto => exact refresh_readOnly_auto cfg S d h

/-- everything that is not v9 / IPFIX (NetFlow v5, sFlow, a short or unknown payload) is a refresh -/
theorem refresh_of_not_v9_ipfix (S : State) (src : Src) (payload : Bytes)
    (h : ∀ v b, readU 2 payload = .ok (v, b) → v ≠ 9 ∧ v ≠ 10) : Refresh S src payload := by
  have hn : decodedPacket (S.templatesOf src) payload = none := by
    unfold decodedPacket
    split
    · rfl
    · rename_i v b hrd
      have := h v b hrd
      simp [this.1, this.2]
  constructor
  · intro p hp; rw [hn] at hp; cases hp
  · intro p hp; rw [hn] at hp; cases hp

/-- a v9 / IPFIX datagram that decodes to data sets only (no template set, no options data that
    announce a rate) is a refresh -/
theorem refresh_of_dataOnly (S : State) (src : Src) (payload : Bytes)
    (h : ∀ p, decodedPacket (S.templatesOf src) payload = some p →
      p.flowSets.flatMap tplsOf = [] ∧ ∀ x, searchSamplingRate (optionRecordsOf p.flowSets) ≠ .ok (some x)) :
    Refresh S src payload := by
  constructor
  · intro p hp e he
    simp [announced, (h p hp).1] at he
  · intro p hp x hx
    exact ((h p hp).2 x hx).elim

/-- **mixed workloads**: data-only v9 / IPFIX datagrams, NetFlow v5, sFlow and refresh datagrams in
    any number and any processing order — each datagram yields exactly the messages it yields alone
    on the prologue state, and every lookup of the shared state stays as the prologue left it -/
theorem mixed_parallel_eq_sequential (k : Kind) (cfg : Config) (S₀ : State) (σ : List C15.Dg)
    (h : ∀ d ∈ σ, Refresh S₀ d.src d.payload) :
    ∀ S, LEquiv S S₀ →
      (C15.runSeq k cfg S σ).1 = σ.map (fun d => (decodeFlow k cfg S₀ d.src d.recv d.payload).msgs) ∧
      LEquiv (C15.runSeq k cfg S σ).2 S₀ :=
  parallel_eq_sequential_L k cfg S₀ σ (fun d hd => refresh_readOnly_any k cfg S₀ d (h d hd))

/-- … and any two processing orders deliver the same messages -/
theorem mixed_per_datagram_order (k : Kind) (cfg : Config) (S₀ : State) (σ τ : List C15.Dg)
    (h : ∀ d ∈ σ, Refresh S₀ d.src d.payload) (hp : σ.Perm τ) :
    ((C15.runSeq k cfg S₀ σ).1.flatten).Perm ((C15.runSeq k cfg S₀ τ).1.flatten) :=
  per_datagram_order_L k cfg S₀ σ τ (fun d hd => refresh_readOnly_any k cfg S₀ d (h d hd)) hp

/-! ### the strict notion (`C15.ReadOnly`, stores equal as lists) for datagrams that announce nothing -/

theorem processNetflow_rates_eq (cfg : Option Config) (p : Packet) (r : Rates)
    (h : ∀ x, searchSamplingRate (optionRecordsOf p.flowSets) ≠ .ok (some x)) :
    (processNetflow cfg p r).rates = r := by
  unfold processNetflow
  split
  · rfl
  · split
    · rfl
    · rename_i found hf
      cases found with
      | none => rfl
      | some x => exact (h x hf).elim

/-- a datagram that decodes (with the exporter's store) to no template record and to no options data
    announcing a rate -/
def AnnouncesNothing (S : State) (src : Src) (payload : Bytes) : Prop :=
  ∀ p, decodedPacket (S.templatesOf src) payload = some p →
    p.flowSets.flatMap tplsOf = [] ∧ ∀ x, searchSamplingRate (optionRecordsOf p.flowSets) ≠ .ok (some x)

theorem announcesNothing_core (cfg : Config) (S : State) (src : Src) (recv : Nat) (d : Bytes)
    (h : AnnouncesNothing S src d) :
    (nfCore cfg (S.templatesOf src) (S.ratesOf src.ip) src recv d).store = S.templatesOf src ∧
    ∀ x, (nfCore cfg (S.templatesOf src) (S.ratesOf src.ip) src recv d).rates = some x → x = S.ratesOf src.ip := by
  unfold AnnouncesNothing decodedPacket at h
  unfold nfCore
  cases hrd : readU 2 d with
  | error e => exact ⟨rfl, fun x hx => by cases hx⟩
  | ok vb =>
    obtain ⟨version, b⟩ := vb
    simp only
    by_cases h5 : version = 5
    · simp only [h5, if_true]
      cases V5.decodeMessage b <;> exact ⟨rfl, fun x hx => by cases hx⟩
    · simp only [h5, if_false]
      by_cases h910 : version = 9 ∨ version = 10
      · simp only [h910, if_true]
        simp only [hrd, h910, if_true] at h
        obtain ⟨h1, h2⟩ := h _ rfl
        have hstore : (decodeMsg version (S.templatesOf src) b).store = S.templatesOf src := by
          rw [decodeMsg_store version h910, h1]; rfl
        unfold nfCore910
        cases (decodeMsg version (S.templatesOf src) b).err with
        | some e => exact ⟨hstore, fun x hx => by cases hx⟩
        | none =>
          simp only
          have hr := processNetflow_rates_eq (some cfg) _ (S.ratesOf src.ip) h2
          cases (processNetflow (some cfg) (decodeMsg version (S.templatesOf src) b).packet (S.ratesOf src.ip)).err with
          | some e => exact ⟨hstore, fun x hx => by cases hx; exact hr⟩
          | none => exact ⟨hstore, fun x hx => by cases hx; exact hr⟩
      · simp only [h910, if_false]
        exact ⟨by trivial, fun x hx => by cases hx⟩

/-- data-only v9 / IPFIX datagrams (and v5) are read-only in the strict sense of Proofs/C15.lean, so
    `C15.parallel_eq_sequential` itself applies to them -/
theorem announcesNothing_readOnly (cfg : Config) (S : State) (d : C15.Dg) (h : AnnouncesNothing S d.src d.payload) :
    C15.ReadOnly .netflow cfg S d := by
  obtain ⟨_, _, t1, t2⟩ := netflowPipe_core cfg S d.src d.recv d.payload
  obtain ⟨c1, c2⟩ := announcesNothing_core cfg S d.src d.recv d.payload h
  refine ⟨fun k => ?_, fun ip => ?_⟩
  · show (netflowPipe cfg S d.src d.recv d.payload).state.templatesOf k = _
    rw [t1 k]
    by_cases hk : k = d.src
    · simp only [hk, if_true]; exact c1
    · simp only [hk, if_false]
  · show (netflowPipe cfg S d.src d.recv d.payload).state.ratesOf ip = _
    rw [t2 ip]
    revert c2
    cases (nfCore cfg (S.templatesOf d.src) (S.ratesOf d.src.ip) d.src d.recv d.payload).rates with
    | none => intro _; rfl
    | some x =>
      intro c2
      simp only
      by_cases hip : ip = d.src.ip
      · simp only [hip, if_true]; exact c2 x rfl
      · simp only [hip, if_false]

/-! ### executable check, non-vacuity, and why `C15.ReadOnly` itself fails -/

/-- executable form of `Refresh` -/
def refreshB (S : State) (src : Src) (payload : Bytes) : Bool :=
  match decodedPacket (S.templatesOf src) payload with
  | none => true
  | some p =>
    (announced p).all (fun e => decide ((S.templatesOf src).get e.1 = some e.2)) &&
    match searchSamplingRate (optionRecordsOf p.flowSets) with
    | .ok (some x) => decide ((S.ratesOf src.ip).lookup (p.version, p.domain) = some x)
    | _ => true

theorem refresh_of_refreshB (S : State) (src : Src) (payload : Bytes) (h : refreshB S src payload = true) :
    Refresh S src payload := by
  unfold refreshB at h
  constructor
  · intro p hp e he
    rw [hp] at h
    simp only [Bool.and_eq_true, List.all_eq_true, decide_eq_true_eq] at h
    exact h.1 e he
  · intro p hp x hx
    rw [hp] at h
    simp only [hx, Bool.and_eq_true, decide_eq_true_eq] at h
    exact h.2

namespace Example

def exporter : Src := ⟨[10, 0, 0, 1], 2055⟩
def tplData : Template := .data ⟨256, 2, [⟨false, 1, 4, 0⟩, ⟨false, 2, 4, 0⟩]⟩
def tplOpts : Template := .v9opts ⟨257, 4, 4, [⟨false, 1, 4, 0⟩], [⟨false, 34, 4, 0⟩]⟩

/-- prologue state: exporter 10.0.0.1:2055 announced data template 256, options template 257 (source id 7)
    and the sampling rate 1000 -/
def S₀ : State :=
  { templates := [(exporter, [(templateKey 9 7 257, tplOpts), (templateKey 9 7 256, tplData)])],
    sampling := [([10, 0, 0, 1], [((9, 7), 1000)])] }

def hdr (count : UInt8) : Bytes := [0, 9, 0, count, 0, 0, 0, 1, 0, 0, 0, 2, 0, 0, 0, 3, 0, 0, 0, 7]
def setTpl : Bytes := [0, 0, 0, 16, 1, 0, 0, 2, 0, 1, 0, 4, 0, 2, 0, 4]
def setOptsTpl : Bytes := [0, 1, 0, 18, 1, 1, 0, 4, 0, 4, 0, 1, 0, 4, 0, 34, 0, 4]
def setOptsData : Bytes := [1, 1, 0, 12, 0, 0, 0, 0, 0, 0, 3, 232]
def setData : Bytes := [1, 0, 0, 12, 0, 0, 0, 100, 0, 0, 0, 5]

/-- refresh datagram: both templates re-announced as stored, the stored rate announced again, one flow -/
def dgRefresh : Bytes := hdr 4 ++ setTpl ++ setOptsTpl ++ setOptsData ++ setData
/-- refresh of the data template only -/
def dgRefresh256 : Bytes := hdr 1 ++ setTpl

example : (decodedPacket (S₀.templatesOf exporter) dgRefresh).map (fun p => (announced p, searchSamplingRate (optionRecordsOf p.flowSets)))
  = some ([(templateKey 9 7 256, tplData), (templateKey 9 7 257, tplOpts)], .ok (some 1000)) := by decide

example : refreshB S₀ exporter dgRefresh = true := by decide
example : ((decodeFlow .netflow {} S₀ exporter 1 dgRefresh).msgs.map (fun m => (m.bytes, m.packets, m.samplingRate)),
   (decodeFlow .netflow {} S₀ exporter 1 dgRefresh).err) = ([(100, 5, 1000)], none) := by decide


/-- the same template id announced with another field width, and another sampling rate: not refreshes -/
def dgChangedTpl : Bytes := hdr 1 ++ [0, 0, 0, 16, 1, 0, 0, 2, 0, 1, 0, 4, 0, 2, 0, 8]
def dgChangedRate : Bytes := hdr 1 ++ [1, 1, 0, 12, 0, 0, 0, 0, 0, 0, 7, 208]
/-- data only; and a payload that is not v9 / IPFIX (sFlow version word) -/
def dgData : Bytes := hdr 1 ++ setData
def dgOther : Bytes := [0, 0, 0, 5, 0, 0, 0, 1]

example : refreshB S₀ exporter dgChangedTpl = false ∧ refreshB S₀ exporter dgChangedRate = false := by decide

/-- non-vacuity of `Refresh`: the datagram announces two templates and a rate, all as stored -/
theorem dgRefresh_refresh : Refresh S₀ exporter dgRefresh := refresh_of_refreshB _ _ _ (by decide)

theorem dgRefresh_readOnly : ReadOnlyL .netflow {} S₀ ⟨exporter, 1, dgRefresh⟩ :=
  refresh_readOnly {} S₀ ⟨exporter, 1, dgRefresh⟩ dgRefresh_refresh

/-- a mixed workload (refresh, partial refresh, data only, something that is not NetFlow) in two
    processing orders through the auto pipe: same messages per datagram as alone on S₀ -/
example : ∀ σ ∈ [[dgRefresh, dgRefresh256, dgData, dgOther], [dgOther, dgData, dgRefresh256, dgRefresh]],
    (C15.runSeq .auto {} S₀ (σ.map fun b => ⟨exporter, 1, b⟩)).1 =
      (σ.map fun b => (⟨exporter, 1, b⟩ : C15.Dg)).map (fun d => (decodeFlow .auto {} S₀ d.src d.recv d.payload).msgs) := by
  intro σ hσ
  refine (mixed_parallel_eq_sequential .auto {} S₀ _ ?_ S₀ (LEquiv.refl _)).1
  intro d hd
  simp only [List.mem_cons, List.not_mem_nil, or_false] at hσ
  rcases hσ with rfl | rfl <;>
  · simp only [List.map_cons, List.map_nil, List.mem_cons, List.not_mem_nil, or_false] at hd
    rcases hd with rfl | rfl | rfl | rfl <;> exact refresh_of_refreshB _ _ _ (by decide)

/-- re-announcing everything in the order of the first announcement happens to rebuild the very same
    list … -/
example : (decodeFlow .netflow {} S₀ exporter 1 dgRefresh).state.templatesOf exporter = S₀.templatesOf exporter ∧
    (decodeFlow .netflow {} S₀ exporter 1 dgRefresh).state.ratesOf exporter.ip = S₀.ratesOf exporter.ip := by decide

/-- … but re-announcing only the older template moves it to the head of the association list:
    this refresh datagram is NOT read-only in the sense of Proofs/C15.lean (list equality), although
    no lookup changes (`refresh_readOnly`).  This is why the development above is up to lookups. -/
theorem refresh_not_strictly_readOnly : ¬ C15.ReadOnly .netflow {} S₀ ⟨exporter, 1, dgRefresh256⟩ := by
  intro h
  have := h.1 exporter
  revert this
  decide

theorem dgRefresh256_readOnlyL : ReadOnlyL .netflow {} S₀ ⟨exporter, 1, dgRefresh256⟩ :=
  refresh_readOnly {} S₀ ⟨exporter, 1, dgRefresh256⟩ (refresh_of_refreshB _ _ _ (by decide))

end Example

end Goflow.C15Refresh
