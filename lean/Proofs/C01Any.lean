import Proofs.C01Sane
import Proofs.Lemmas.Assoc
import Proofs.C14Compile
import Goflow.Wrapped
/-!
  C01 for **every** configuration the loader accepts, through the panic wrappers of main.go.

  `Proofs/C01Sane.lean` excludes two kinds of mapping (negative bit offset / length of a layer mapping,
  destination `sizeCache` / `unknownFields`): for those the model — and the Go code — panics inside
  `Produce`. Here nothing is excluded:

  * `pipe_any_total`: no configuration makes any loop run out of fuel;
  * `pipe_any`: the only outcomes of `Pipe.decodeFlow` are ok / eof / bad / tnf / panic;
  * `decodeFlowW_eq`: the wrapper layer of main.go (`Goflow/Wrapped.lean`, modelled where it sits) is the
    outcome of `Pipe.decodeFlow` with `panic` turned into the returned class `recovered`, state untouched;
  * `wrapped_safe`, `wrapped_history_safe`: through the wrappers every datagram of every history ends in
    ok / eof / bad / tnf / recovered;
  * `recovered_state`, `recovered_rates_untouched`, `recovered_templates`, `after_recovered`: the state a
    recovered datagram leaves is the one its decode step alone leaves;
  * `decoder_wrapper_idle`: every panic is caught by the producer wrapper, the decoder wrapper never fires;
  * `recovered_only_if_insane`, and concrete accepted-but-insane configurations by `decide`.
-/
namespace Goflow.C01
open Goflow Goflow.Producer Goflow.Pipe Goflow.Wrapped

/-! ### conversion with arbitrary mappings: a returned error or a panic, never out of fuel -/

/-- the failures of a mapping step -/
def Err.BP (e : Err) : Prop := e = .bad ∨ e = .panic

theorem mapCustom_any (m : FlowMsg) (v : Bytes) (f : MapField) :
    ∀ e, mapCustom m v f = .error e → Err.BP e := by
  intro e h
  unfold mapCustom at h
  simp only at h
  repeat' split at h
  all_goals first
    | cases h; done
    | (cases h; exact Or.inl rfl)
    | (cases h; exact Or.inr rfl)
    | (rename_i he; cases h; exact Or.inl (endianDecode_bad he))

theorem getBytes_any (d : Bytes) (offset length : Int) (shift : Bool) :
    ∀ e, getBytes d offset length shift = .error e → e = .panic := by
  intro e h
  unfold getBytes at h
  simp only at h
  repeat' split at h
  all_goals first
    | cases h; done
    | (cases h; rfl)

theorem mapLayerEntries_any (data : Bytes) (offset : Nat) (encap : Bool) (es : List LayerMapEntry) (m : FlowMsg) :
    ∀ e, mapLayerEntries data offset encap es m = .error e → Err.BP e := by
  induction es generalizing m with
  | nil => intro e h; simp [mapLayerEntries] at h
  | cons x xs ih =>
    intro e h
    unfold mapLayerEntries at h
    split at h
    · exact ih m e h
    · split at h
      · rename_i err he
        cases h
        exact Or.inr (getBytes_any _ _ _ _ _ he)
      · split at h
        · rename_i err he
          cases h
          exact mapCustom_any _ _ _ _ he
        · exact ih _ e h

theorem mapLayerKeys_any (cfg : Config) (data : Bytes) (offset : Nat) (encap : Bool) (ks : List String) (m : FlowMsg) :
    ∀ e, mapLayerKeys cfg data offset encap ks m = .error e → Err.BP e := by
  induction ks generalizing m with
  | nil => intro e h; simp [mapLayerKeys] at h
  | cons k ks ih =>
    intro e h
    unfold mapLayerKeys at h
    split at h
    · rename_i err he
      cases h
      exact mapLayerEntries_any _ _ _ _ _ _ he
    · exact ih _ e h

/-- the loop of ParsePacket with any layer mappings: a round either ends the loop (mapping error or
    panic, parser without successor, end of data) or advances by the measure `mu` — the result of the
    mapping step does not enter the measure. Hence 2·|data| + 3 rounds suffice whatever the mappings. -/
theorem parseLoop_any (cfg : Config) (data : Bytes) (fuel : Nat) (next : Next) (offset : Nat)
    (encap : Bool) (encapIndex : Nat) (calls : List (Nat × Nat)) (m : FlowMsg) (hf : mu data.length next offset + 1 ≤ fuel) :
    ∀ e, parseLoop cfg data fuel next offset encap encapIndex calls m = .error e → Err.BP e := by
  induction fuel generalizing next offset encap encapIndex calls m with
  | zero => omega
  | succ fuel ih =>
    intro e h
    unfold parseLoop at h
    by_cases hc : next.callable = true ∧ offset ≤ data.length
    · simp only [hc, and_self, if_true] at h
      split at h
      · rename_i err he
        cases h
        split at he
        · exact mapLayerKeys_any cfg _ _ _ _ _ _ he
        · cases he
      · refine ih _ _ _ _ _ _ ?_ e h
        have hprog := runParser_progress next.parser m (data.drop offset)
          ⟨encap, (calls.lookup next.parserIndex).getD 0, cfg.ports⟩
        generalize runParser next.parser m (data.drop offset) ⟨encap, (calls.lookup next.parserIndex).getD 0, cfg.ports⟩ = r at *
        unfold mu at hf ⊢
        simp only [hc.1, if_true] at hf
        by_cases hc' : r.next.callable = true
        · simp only [hc', if_true]
          rcases hprog hc' with h1 | ⟨h1, h2⟩
          · split <;> split at hf <;> omega
          · simp only [h1, if_true] at hf
            simp only [h2, show (Parser.ipv6 = Parser.teredo) = False by simp, if_false]
            omega
        · have hc'' : r.next.callable = false := by simpa using hc'
          simp only [hc'', Bool.false_eq_true, if_false]
          split at hf <;> omega
    · simp only [hc, if_false] at h
      cases h

/-- **the sampled-packet dissector under any configuration** terminates on every frame, at every
    capture length: a message, the returned error of a mapping step, or the panic of a mapping step -/
theorem parsePacket_any (cfg : Config) (m : FlowMsg) (data : Bytes) :
    ∀ e, parsePacket cfg m data = .error e → Err.BP e := by
  unfold parsePacket
  apply parseLoop_any cfg
  unfold mu
  split <;> simp <;> omega

private theorem applyAction_any (cfg : Config) (bt up : Nat) (m : FlowMsg) (v : Bytes) (a : Action) (e : Err)
    (h : applyAction (some cfg) bt up m v a = .error e) : Err.BP e := by
  cases a with
  | frameSection =>
    simp only [applyAction] at h
    split at h
    · rename_i err he
      cases h
      exact parsePacket_any cfg _ _ _ he
    · cases h
  | unum2 a b =>
    simp only [applyAction] at h
    split at h
    · rename_i he; cases h; exact Or.inl (decodeUNumber_bad he)
    · split at h
      · rename_i he; cases h; exact Or.inl (decodeUNumber_bad he)
      · cases h
  | ipVersion => simp only [applyAction] at h; split at h <;> cases h
  | addr c v6 => simp only [applyAction] at h; cases h
  | bytes c => simp only [applyAction] at h; cases h
  | mplsIp => simp only [applyAction] at h; cases h
  | unum c => simp only [applyAction] at h; split at h <;> first | (rename_i he; cases h; exact Or.inl (decodeUNumber_bad he)) | cases h
  | icmpTypeCode => simp only [applyAction] at h; split at h <;> first | (rename_i he; cases h; exact Or.inl (decodeUNumber_bad he)) | cases h
  | fragOffset => simp only [applyAction] at h; split at h <;> first | (rename_i he; cases h; exact Or.inl (decodeUNumber_bad he)) | cases h
  | ipFlags => simp only [applyAction] at h; split at h <;> first | (rename_i he; cases h; exact Or.inl (decodeUNumber_bad he)) | cases h
  | mplsLabel i => simp only [applyAction] at h; split at h <;> first | (rename_i he; cases h; exact Or.inl (decodeUNumber_bad he)) | cases h
  | v9First => simp only [applyAction] at h; split at h <;> first | (rename_i he; cases h; exact Or.inl (decodeUNumber_bad he)) | cases h
  | v9Last => simp only [applyAction] at h; split at h <;> first | (rename_i he; cases h; exact Or.inl (decodeUNumber_bad he)) | cases h
  | ipfixTime s mult => simp only [applyAction] at h; split at h <;> first | (rename_i he; cases h; exact Or.inl (decodeUNumber_bad he)) | cases h
  | ipfixDelta s => simp only [applyAction] at h; split at h <;> first | (rename_i he; cases h; exact Or.inl (decodeUNumber_bad he)) | cases h
  | frameSize => simp only [applyAction] at h; split at h <;> first | (rename_i he; cases h; exact Or.inl (decodeUNumber_bad he)) | cases h

private theorem convertFields_any (cfg : Config) (version bt up : Nat) (fs : List Netflow.DataField) (m : FlowMsg) (e : Err)
    (h : convertFields (some cfg) version bt up fs m = .error e) : Err.BP e := by
  induction fs generalizing m with
  | nil => simp [convertFields] at h
  | cons df rest ih =>
    unfold convertFields at h
    cases hv : df.value with
    | none => rw [hv] at h; exact ih _ h
    | some v =>
      rw [hv] at h
      simp only at h
      cases hl : lookupNetflow (if version = 10 then cfg.ipfix else cfg.v9) df.penProvided df.pen df.type with
      | some f =>
        rw [hl] at h
        simp only at h
        cases hm : mapCustom m v f with
        | error err =>
          rw [hm] at h
          cases h
          exact mapCustom_any _ _ _ _ hm
        | ok m1 =>
          rw [hm] at h
          simp only at h
          split at h
          · exact ih _ h
          · split at h
            · exact ih _ h
            · split at h
              · rename_i e' he; cases h; exact applyAction_any cfg _ _ _ _ _ _ he
              · exact ih _ h
      | none =>
        rw [hl] at h
        simp only at h
        split at h
        · exact ih _ h
        · split at h
          · exact ih _ h
          · split at h
            · rename_i e' he; cases h; exact applyAction_any cfg _ _ _ _ _ _ he
            · exact ih _ h

private theorem convertRecords_any (cfg : Config) (version bt up : Nat) (rs : List Netflow.DataRecord) (e : Err)
    (h : convertRecords (some cfg) version bt up rs = .error e) : Err.BP e := by
  induction rs with
  | nil => simp [convertRecords] at h
  | cons r rs ih =>
    unfold convertRecords at h
    split at h
    · rename_i e' he
      cases h
      exact convertFields_any cfg _ _ _ _ _ _ he
    · split at h
      · rename_i e' he; cases h; exact ih he
      · cases h

private theorem decodeUNumber_short'' (bits : Nat) (v : Bytes) (h : ¬ v.length > 8) : ∃ x, decodeUNumber bits v = .ok x := by
  unfold decodeUNumber decodeUNumberRaw
  by_cases h1 : v.length = 1 ∨ v.length = 2 ∨ v.length = 4 ∨ v.length = 8
  · simp [h1]
  · have h2 : v.length < 8 := by omega
    simp [h1, h2]

private theorem searchSamplingRate_eof (rs : List Netflow.OptionsDataRecord) (e : Err)
    (h : searchSamplingRate rs = .error e) : e = .eof := by
  have pop : ∀ (fs : List Netflow.DataField) (t : Nat) (e : Err), populate fs t = .error e → e = .eof := by
    intro fs t e h
    unfold populate at h
    split at h
    · cases h
    · split at h
      · cases h
      · split at h
        · cases h
        · rename_i hl
          obtain ⟨x, hx⟩ := decodeUNumber_short'' 32 _ hl
          rw [hx] at h
          cases h
  induction rs with
  | nil => simp [searchSamplingRate] at h
  | cons r rs ih =>
    unfold searchSamplingRate at h
    split at h
    · rename_i e' he; cases h; exact pop _ _ _ he
    · cases h
    · split at h
      · rename_i e' he; cases h; exact pop _ _ _ he
      · cases h
      · split at h
        · rename_i e' he; cases h; exact pop _ _ _ he
        · cases h
        · exact ih h

/-- **ProcessMessageNetFlowV9Config / ProcessMessageIPFIXConfig under any configuration**: a returned
    error or a panic — and the panic can only come from the conversion of the data records, which runs
    before the sampling options are looked at -/
theorem produce_any (cfg : Config) (p : Netflow.Packet) (rates : Rates) :
    ∀ e, (processNetflow (some cfg) p rates).err = some e → e = .eof ∨ e = .bad ∨ e = .panic := by
  intro e he
  unfold processNetflow at he
  split at he
  · rename_i e' hc
    simp at he; subst he
    right; exact convertRecords_any cfg _ _ _ _ _ hc
  · split at he
    · rename_i e' hs
      simp at he; subst he
      left; exact searchSamplingRate_eof _ _ hs
    · simp at he

/-- whenever the conversion fails — returned error or panic — no sampling rate has been written and
    no message is handed on -/
theorem produce_err_untouched (cfg : Option Config) (p : Netflow.Packet) (rates : Rates) (e : Err)
    (h : (processNetflow cfg p rates).err = some e) :
    (processNetflow cfg p rates).rates = rates ∧ (processNetflow cfg p rates).msgs = [] := by
  unfold processNetflow at h ⊢
  cases hc : convertRecords cfg p.version p.baseTime p.uptime (dataRecordsOf p.flowSets) with
  | error e' => exact ⟨rfl, rfl⟩
  | ok ms =>
    rw [hc] at h
    simp only at h ⊢
    cases hs : searchSamplingRate (optionRecordsOf p.flowSets) with
    | error e' => exact ⟨rfl, rfl⟩
    | ok found =>
      rw [hs] at h
      simp at h

theorem processSflow_any (cfg : Config) (p : Sflow.Packet) :
    ∀ e, processSflow (some cfg) p = .error e → Err.BP e := by
  have rec1 : ∀ (m : FlowMsg) (r : Sflow.FlowRecord) (e : Err), applyRecord (some cfg) m r = .error e → Err.BP e := by
    intro m r e h
    unfold applyRecord at h
    split at h
    · split at h
      · exact parsePacket_any cfg _ _ _ (by simpa using h)
      · cases h
    · split at h
      · cases h
      · split at h
        · cases h
        · split at h <;> cases h
    · cases h
    · cases h
    · cases h
  have recs : ∀ (rs : List Sflow.FlowRecord) (m : FlowMsg) (e : Err), applyRecords (some cfg) rs m = .error e → Err.BP e := by
    intro rs
    induction rs with
    | nil => intro m e h; cases h
    | cons r rs ih =>
      intro m e h
      unfold applyRecords at h
      split at h
      · rename_i e' he; cases h; exact rec1 _ _ _ he
      · exact ih _ _ h
  have samples : ∀ (ss : List Sflow.Sample) (e : Err), convertSamples (some cfg) ss = .error e → Err.BP e := by
    intro ss
    induction ss with
    | nil => intro e h; cases h
    | cons s ss ih =>
      intro e h
      unfold convertSamples at h
      split at h
      · exact ih _ h
      · rename_i e' hs
        cases h
        cases s with
        | flow hd vals rs => simp only [convertSample, Option.some.injEq] at hs; exact recs _ _ _ hs
        | expFlow hd vals rs => simp only [convertSample, Option.some.injEq] at hs; exact recs _ _ _ hs
        | counter hd c r => simp [convertSample] at hs
        | drop hd v r => simp [convertSample] at hs
        | none => simp [convertSample] at hs
      · split at h
        · rename_i e' he; cases h; exact ih _ he
        · cases h
  intro e h
  unfold processSflow at h
  split at h
  · rename_i e' he; cases h; exact samples _ _ he
  · cases h

/-! ### the pipes under any configuration -/

/-- the outcomes of the un-wrapped pipe: everything but `diverge` -/
def Err.Any (e : Err) : Prop := e = .eof ∨ e = .bad ∨ e = .tnf ∨ e = .panic

theorem Err.Any.of_R {e : Err} (h : e.R) : Err.Any e := by
  rcases h with rfl | rfl
  · exact Or.inl rfl
  · exact Or.inr (Or.inl rfl)

theorem Err.Any.of_BP {e : Err} (h : Err.BP e) : Err.Any e := by
  rcases h with rfl | rfl
  · exact Or.inr (Or.inl rfl)
  · exact Or.inr (Or.inr (Or.inr rfl))

/-- the v9 / IPFIX decode step of the pipe is the tail of `decodeMessageVersion`: only eof / bad -/
theorem decodeStep_safe (tpl : Netflow.Store) (version : Nat) (b : Bytes) (h910 : version = 9 ∨ version = 10) :
    ∀ e, (if version = 9 then Netflow.decodeMessageNetFlow tpl b else Netflow.decodeMessageIPFIX tpl b).err = some e →
      e = .eof ∨ e = .bad := by
  intro e he
  have hv : (if version = 9 then Netflow.decodeMessageNetFlow tpl b else Netflow.decodeMessageIPFIX tpl b)
      = Netflow.decodeMessageVersion tpl (encBE 2 version ++ b) := by
    have hr : readU 2 (encBE 2 version ++ b) = .ok (version, b) := readU_enc b (by rcases h910 with h | h <;> simp [h])
    unfold Netflow.decodeMessageVersion
    rw [hr]
    rcases h910 with h | h <;> simp [h]
  rw [hv] at he
  exact Netflow.decodeMessageVersion_safe _ _ e he

/-- the v5 decode step of the pipe is the tail of `V5.decodeMessageVersion` -/
theorem decodeStepV5_safe (b : Bytes) : ∀ e, V5.decodeMessage b = .error e → e.R := by
  intro e hd
  have : V5.decodeMessageVersion ([0, 5] ++ b) = .error e := by
    have hr : readU 2 ([0, 5] ++ b) = .ok (5, b) := by
      have := readU_append [0, 5] b rfl
      simpa [beNat] using this
    unfold V5.decodeMessageVersion
    rw [hr]
    simp [hd]
  exact V5.decodeMessageVersion_err this

/-- **one datagram through any pipe, ANY configuration**, any state: ok / eof / bad / tnf / panic -/
theorem pipe_any (k : Pipe.Kind) (cfg : Config) (st : Pipe.State) (src : Pipe.Src) (recv : Nat) (d : Bytes) :
    ∀ e, (Pipe.decodeFlow k cfg st src recv d).err = some e → Err.Any e := by
  have nf : ∀ e, (netflowPipe cfg st src recv d).err = some e → Err.Any e := by
    intro e
    unfold netflowPipe
    simp only
    cases hrd : readU 2 d with
    | error e' => intro h; cases h; exact Or.inl (readU_err hrd)
    | ok vb =>
      obtain ⟨version, b⟩ := vb
      simp only
      by_cases h5 : version = 5
      · simp only [h5, if_true]
        cases hd : V5.decodeMessage b with
        | error e' => intro h; cases h; exact Err.Any.of_R (decodeStepV5_safe b _ hd)
        | ok p => intro h; cases h
      · simp only [h5, if_false]
        by_cases h910 : version = 9 ∨ version = 10
        · simp only [h910, if_true]
          have hsafe := decodeStep_safe (st.templatesOf src) version b h910
          generalize (if version = 9 then Netflow.decodeMessageNetFlow (st.templatesOf src) b
            else Netflow.decodeMessageIPFIX (st.templatesOf src) b) = o at hsafe ⊢
          cases ho : o.err with
          | some e' => intro h; cases h; exact Err.Any.of_R (hsafe _ ho)
          | none =>
            simp only
            generalize hr : processNetflow (some cfg) o.packet _ = r
            cases hre : r.err with
            | some e' =>
              intro h; cases h
              rcases produce_any cfg o.packet _ _ (by rw [hr]; exact hre) with h | h | h
              · exact Or.inl h
              · exact Or.inr (Or.inl h)
              · exact Or.inr (Or.inr (Or.inr h))
            | none =>
              simp only
              split
              · intro h; cases h; exact Or.inr (Or.inr (Or.inl rfl))
              · intro h; cases h
        · simp only [h910, if_false]
          intro h; cases h; exact Or.inr (Or.inl rfl)
  have sf : ∀ e, (sflowPipe cfg st recv d).err = some e → Err.Any e := by
    intro e
    unfold sflowPipe
    cases hd : Sflow.decodeMessageVersion d with
    | error e' => intro h; cases h; exact Err.Any.of_R (Sflow.decodeMessageVersion_err hd)
    | ok p =>
      simp only
      cases hp : processSflow (some cfg) p with
      | error e' => intro h; cases h; exact Err.Any.of_BP (processSflow_any cfg p _ hp)
      | ok ms => intro h; cases h
  cases k with
  | netflow => exact nf
  | sflow => exact sf
  | auto =>
    intro e
    unfold decodeFlow autoPipe
    simp only
    cases hrd : readU 4 d with
    | error e' => intro h; cases h; exact Or.inl (readU_err hrd)
    | ok vb =>
      obtain ⟨proto, b⟩ := vb
      simp only
      split
      · exact sf e
      · split
        · exact nf e
        · intro h; cases h; exact Or.inr (Or.inl rfl)

/-- **no configuration makes a loop run out of fuel**: decoders, dissector, conversion — mappings or
    not, sane or not — every datagram is processed in a bounded number of iterations -/
theorem pipe_any_total (k : Pipe.Kind) (cfg : Config) (st : Pipe.State) (src : Pipe.Src) (recv : Nat) (d : Bytes) :
    (Pipe.decodeFlow k cfg st src recv d).err ≠ some .diverge := by
  intro h
  rcases pipe_any k cfg st src recv d _ h with h | h | h | h <;> cases h

/-! ### the wrapper layer of main.go -/

private theorem recoverOut_err (st : Pipe.State) (e : Err) :
    recoverOut ⟨st, [], some (ErrW.ofErr e)⟩ = wrapOut ⟨st, [], some e⟩ := by
  cases e <;> simp [recoverOut, wrapOut, ErrW.ofErr, ErrW.recover]

private theorem nfW (cfg : Config) (st : Pipe.State) (src : Pipe.Src) (recv : Nat) (d : Bytes) :
    recoverOut (netflowPipeWith (wrapProducer (plain cfg)) st src recv d) = wrapOut (netflowPipe cfg st src recv d) := by
  unfold netflowPipeWith netflowPipe
  simp only
  cases hrd : readU 2 d with
  | error e => exact recoverOut_err _ e
  | ok vb =>
    obtain ⟨version, b⟩ := vb
    simp only
    by_cases h5 : version = 5
    · simp only [h5, if_true]
      cases hd : V5.decodeMessage b with
      | error e => exact recoverOut_err _ e
      | ok p => simp [wrapProducer, plain, recoverOut, wrapOut]
    · simp only [h5, if_false]
      by_cases h910 : version = 9 ∨ version = 10
      · simp only [h910, if_true]
        generalize (if version = 9 then Netflow.decodeMessageNetFlow (st.templatesOf src) b
          else Netflow.decodeMessageIPFIX (st.templatesOf src) b) = o
        cases ho : o.err with
        | some e => exact recoverOut_err _ e
        | none =>
          simp only [wrapProducer, plain]
          generalize processNetflow (some cfg) o.packet _ = r
          cases hre : r.err with
          | some e => cases e <;> simp [recoverOut, wrapOut, ErrW.ofErr, ErrW.recover]
          | none =>
            by_cases ht : o.tnf = true <;> simp [recoverOut, wrapOut, ErrW.ofErr, ErrW.recover, ht]
      · simp only [h910, if_false]
        simp [recoverOut, wrapOut, ErrW.ofErr, ErrW.recover]

private theorem sfW (cfg : Config) (st : Pipe.State) (recv : Nat) (d : Bytes) :
    recoverOut (sflowPipeWith (wrapProducer (plain cfg)) st recv d) = wrapOut (sflowPipe cfg st recv d) := by
  unfold sflowPipeWith sflowPipe
  cases hd : Sflow.decodeMessageVersion d with
  | error e => exact recoverOut_err _ e
  | ok p =>
    simp only [wrapProducer, plain]
    cases hp : processSflow (some cfg) p with
    | error e => cases e <;> simp [recoverOut, wrapOut, ErrW.ofErr, ErrW.recover]
    | ok ms => simp [recoverOut, wrapOut]

/-- **the wrapper layer, modelled where it sits in main.go, is the simple description**: the outcome of
    `Pipe.decodeFlow` with the class `panic` replaced by `recovered`; same state, same messages -/
theorem decodeFlowW_eq (k : Pipe.Kind) (cfg : Config) (st : Pipe.State) (src : Pipe.Src) (recv : Nat) (d : Bytes) :
    decodeFlowW k cfg st src recv d = wrapOut (Pipe.decodeFlow k cfg st src recv d) := by
  cases k with
  | netflow => exact nfW cfg st src recv d
  | sflow => exact sfW cfg st recv d
  | auto =>
    unfold decodeFlowW decodeFlowP pipeWith decodeFlow autoPipeWith autoPipe
    simp only
    cases hrd : readU 4 d with
    | error e => exact recoverOut_err _ e
    | ok vb =>
      obtain ⟨proto, b⟩ := vb
      simp only
      split
      · exact sfW cfg st recv d
      · split
        · exact nfW cfg st src recv d
        · simp [recoverOut, wrapOut, ErrW.ofErr, ErrW.recover]

/-- the wrappers do not touch the state: what the next datagram sees is what `Pipe.decodeFlow` left -/
theorem wrapped_state_eq (k : Pipe.Kind) (cfg : Config) (st : Pipe.State) (src : Pipe.Src) (recv : Nat) (d : Bytes) :
    (decodeFlowW k cfg st src recv d).state = (Pipe.decodeFlow k cfg st src recv d).state := by
  rw [decodeFlowW_eq]; rfl

theorem wrapped_err_eq (k : Pipe.Kind) (cfg : Config) (st : Pipe.State) (src : Pipe.Src) (recv : Nat) (d : Bytes) :
    (decodeFlowW k cfg st src recv d).err = (Pipe.decodeFlow k cfg st src recv d).err.map fun e => (ErrW.ofErr e).recover := by
  rw [decodeFlowW_eq]; rfl

/-- `recovered` is reported exactly for the datagrams on which the un-wrapped pipe panics -/
theorem recovered_iff_panic (k : Pipe.Kind) (cfg : Config) (st : Pipe.State) (src : Pipe.Src) (recv : Nat) (d : Bytes) :
    (decodeFlowW k cfg st src recv d).err = some .recovered ↔ (Pipe.decodeFlow k cfg st src recv d).err = some .panic := by
  rw [wrapped_err_eq]
  cases h : (Pipe.decodeFlow k cfg st src recv d).err with
  | none => simp
  | some e => cases e <;> simp [ErrW.ofErr, ErrW.recover]

/-- outcome of a wrapped call that the worker of utils/udp.go survives: a result, a returned error, or
    a recovered panic (returned as `*PanicErrorMessage`) -/
def SafeW (e : Option ErrW) : Prop :=
  e = none ∨ e = some .eof ∨ e = some .bad ∨ e = some .tnf ∨ e = some .recovered

theorem SafeW.ne {e : Option ErrW} (h : SafeW e) : e ≠ some .panic ∧ e ≠ some .diverge := by
  rcases h with rfl | rfl | rfl | rfl | rfl <;> exact ⟨by decide, by decide⟩

/-- **one datagram through the wrapped decode function, ANY configuration**, any state, any bytes: ok,
    a returned error, template-not-found or a recovered panic — no panic escapes, nothing runs forever -/
theorem wrapped_safe (k : Pipe.Kind) (cfg : Config) (st : Pipe.State) (src : Pipe.Src) (recv : Nat) (d : Bytes) :
    SafeW (decodeFlowW k cfg st src recv d).err := by
  rw [wrapped_err_eq]
  cases h : (Pipe.decodeFlow k cfg st src recv d).err with
  | none => exact Or.inl rfl
  | some e =>
    rcases pipe_any k cfg st src recv d e h with rfl | rfl | rfl | rfl
    · exact Or.inr (Or.inl rfl)
    · exact Or.inr (Or.inr (Or.inl rfl))
    · exact Or.inr (Or.inr (Or.inr (Or.inl rfl)))
    · exact Or.inr (Or.inr (Or.inr (Or.inr rfl)))

/-- the state trajectory of a history is the one of the un-wrapped pipes -/
theorem runW_eq (cfg : Config) (st : Pipe.State) (hist : List (Pipe.Kind × Pipe.Src × Nat × Bytes)) :
    runW cfg st hist = hist.foldl (fun s h => (Pipe.decodeFlow h.1 cfg s h.2.1 h.2.2.1 h.2.2.2).state) st := by
  unfold runW
  simp only [wrapped_state_eq]

/-- **any history, ANY configuration**: whatever datagrams came before — through any of the pipes, from any
    exporters, valid, malformed, recovered from a panic or not — the next datagram is again processed to
    ok / returned error / template-not-found / recovered -/
theorem wrapped_history_safe (cfg : Config) (st : Pipe.State) (hist : List (Pipe.Kind × Pipe.Src × Nat × Bytes))
    (k : Pipe.Kind) (src : Pipe.Src) (recv : Nat) (d : Bytes) :
    SafeW (decodeFlowW k cfg (runW cfg st hist) src recv d).err :=
  wrapped_safe k cfg _ src recv d

/-- the outcome classes the worker sees along a history, the state threaded -/
def errsW (cfg : Config) : Pipe.State → List (Pipe.Kind × Pipe.Src × Nat × Bytes) → List (Option ErrW)
  | _, [] => []
  | st, h :: t =>
    let o := decodeFlowW h.1 cfg st h.2.1 h.2.2.1 h.2.2.2
    o.err :: errsW cfg o.state t

theorem errsW_length (cfg : Config) (st : Pipe.State) (hist : List (Pipe.Kind × Pipe.Src × Nat × Bytes)) :
    (errsW cfg st hist).length = hist.length := by
  induction hist generalizing st with
  | nil => rfl
  | cons h t ih => simp [errsW, ih]

/-- every datagram of a history, not only the last one: the worker meets one outcome per datagram, each
    of them ok / returned error / template-not-found / recovered -/
theorem wrapped_history_all_safe (cfg : Config) (st : Pipe.State) (hist : List (Pipe.Kind × Pipe.Src × Nat × Bytes)) :
    ∀ e ∈ errsW cfg st hist, SafeW e := by
  induction hist generalizing st with
  | nil => intro e he; simp [errsW] at he
  | cons h t ih =>
    intro e he
    simp only [errsW, List.mem_cons] at he
    rcases he with rfl | he
    · exact wrapped_safe _ cfg _ _ _ _
    · exact ih _ e he

/-- **a recovered panic needs an un-`Sane` configuration** -/
theorem recovered_only_if_insane (k : Pipe.Kind) (cfg : Config) (st : Pipe.State) (src : Pipe.Src) (recv : Nat) (d : Bytes)
    (h : (decodeFlowW k cfg st src recv d).err = some .recovered) : ¬ Sane cfg := by
  intro hs
  exact (pipe_sane k cfg hs st src recv d).1 ((recovered_iff_panic k cfg st src recv d).mp h)

/-! ### what a recovered datagram leaves behind -/

private theorem nfF (cfg : Config) (st : Pipe.State) (src : Pipe.Src) (recv : Nat) (d : Bytes) (e : Err)
    (h : (netflowPipe cfg st src recv d).err = some e) (hne : e ≠ .tnf) :
    (netflowPipe cfg st src recv d).state = (netflowPipeWith failing st src recv d).state := by
  unfold netflowPipeWith
  unfold netflowPipe at h ⊢
  simp only at h ⊢
  cases hrd : readU 2 d with
  | error e' => rfl
  | ok vb =>
    obtain ⟨version, b⟩ := vb
    rw [hrd] at h
    simp only at h ⊢
    by_cases h5 : version = 5
    · simp only [h5, if_true] at h ⊢
      cases hd : V5.decodeMessage b with
      | error e' => rfl
      | ok p => rfl
    · simp only [h5, if_false] at h ⊢
      by_cases h910 : version = 9 ∨ version = 10
      · simp only [h910, if_true] at h ⊢
        generalize (if version = 9 then Netflow.decodeMessageNetFlow (st.templatesOf src) b
          else Netflow.decodeMessageIPFIX (st.templatesOf src) b) = o at h ⊢
        cases ho : o.err with
        | some e' => rfl
        | none =>
          rw [ho] at h
          simp only [failing] at h ⊢
          cases hre : (processNetflow (some cfg) o.packet
              (((st.setTemplates src (st.templatesOf src)).setTemplates src o.store).ratesOf src.ip)).err with
          | some e' =>
            have hu := (produce_err_untouched (some cfg) o.packet _ e' hre).1
            simp only [hu]
          | none =>
            rw [hre] at h
            simp only at h
            split at h
            · cases h; exact absurd rfl hne
            · cases h
      · simp only [h910, if_false]

private theorem sfF (cfg : Config) (st : Pipe.State) (recv : Nat) (d : Bytes) :
    (sflowPipe cfg st recv d).state = (sflowPipeWith failing st recv d).state ∧ (sflowPipe cfg st recv d).state = st := by
  unfold sflowPipeWith sflowPipe
  cases hd : Sflow.decodeMessageVersion d with
  | error e => exact ⟨rfl, rfl⟩
  | ok p =>
    simp only [failing]
    cases hp : processSflow (some cfg) p with
    | error e => exact ⟨rfl, rfl⟩
    | ok ms => exact ⟨rfl, rfl⟩

/-- a datagram that does not get through — returned error or panic, in the decode step or in the
    conversion — leaves the state its decode step alone leaves (`decodeFlowF`: the same pipe over a
    producer that refuses every packet): exporter registered, the templates of the datagram learned, no
    sampling rate written. The configuration plays no part in it. -/
theorem failed_state (k : Pipe.Kind) (cfg : Config) (st : Pipe.State) (src : Pipe.Src) (recv : Nat) (d : Bytes) (e : Err)
    (h : (Pipe.decodeFlow k cfg st src recv d).err = some e) (hne : e ≠ .tnf) :
    (Pipe.decodeFlow k cfg st src recv d).state = (decodeFlowF k st src recv d).state := by
  cases k with
  | netflow => exact nfF cfg st src recv d e h hne
  | sflow => exact (sfF cfg st recv d).1
  | auto =>
    unfold decodeFlowF pipeWith autoPipeWith
    unfold decodeFlow autoPipe at h ⊢
    simp only at h ⊢
    cases hrd : readU 4 d with
    | error e' => rfl
    | ok vb =>
      obtain ⟨proto, b⟩ := vb
      rw [hrd] at h
      simp only at h ⊢
      split
      · exact (sfF cfg st recv d).1
      · rename_i h5
        simp only [h5, if_false] at h
        split
        · rename_i hnf
          simp only [hnf, if_true] at h
          exact nfF cfg st src recv d e h hne
        · rfl

/-- **the state after a recovered panic** is the state the same datagram leaves when its conversion is
    replaced by one that fails: templates kept, rates untouched -/
theorem recovered_state (k : Pipe.Kind) (cfg : Config) (st : Pipe.State) (src : Pipe.Src) (recv : Nat) (d : Bytes)
    (h : (decodeFlowW k cfg st src recv d).err = some .recovered) :
    (decodeFlowW k cfg st src recv d).state = (decodeFlowF k st src recv d).state := by
  rw [wrapped_state_eq]
  exact failed_state k cfg st src recv d .panic ((recovered_iff_panic k cfg st src recv d).mp h) (by decide)

/-- the datagram after a recovered one is processed exactly as if the recovered one had been refused by
    an ordinary returned error of the conversion -/
theorem after_recovered (k : Pipe.Kind) (cfg : Config) (st : Pipe.State) (src : Pipe.Src) (recv : Nat) (d : Bytes)
    (h : (decodeFlowW k cfg st src recv d).err = some .recovered)
    (k' : Pipe.Kind) (src' : Pipe.Src) (recv' : Nat) (d' : Bytes) :
    decodeFlowW k' cfg (decodeFlowW k cfg st src recv d).state src' recv' d'
      = decodeFlowW k' cfg (decodeFlowF k st src recv d).state src' recv' d' := by
  rw [recovered_state k cfg st src recv d h]

/-! the reference state `decodeFlowF` in terms of the maps -/

theorem ratesOf_setTemplates (s : Pipe.State) (k : Pipe.Src) (t : Netflow.Store) (ip : Bytes) :
    (s.setTemplates k t).ratesOf ip = s.ratesOf ip := rfl

theorem templatesOf_setRates (s : Pipe.State) (ip : Bytes) (r : Rates) (k : Pipe.Src) :
    (s.setRates ip r).templatesOf k = s.templatesOf k := rfl

theorem ratesOf_setRates_self (s : Pipe.State) (ip ip' : Bytes) :
    (s.setRates ip (s.ratesOf ip)).ratesOf ip' = s.ratesOf ip' := by
  unfold Pipe.State.setRates Pipe.State.ratesOf
  simp only
  rw [lookup_cons_filter]
  by_cases hk : ip' = ip
  · subst hk; simp
  · have : (ip' == ip) = false := by simpa using hk
    simp [this]

theorem templatesOf_setTemplates (s : Pipe.State) (k k' : Pipe.Src) (t : Netflow.Store) :
    (s.setTemplates k t).templatesOf k' = if k' = k then t else s.templatesOf k' := by
  unfold Pipe.State.setTemplates Pipe.State.templatesOf
  simp only
  rw [lookup_cons_filter]
  by_cases hk : k' = k
  · subst hk; simp
  · have : (k' == k) = false := by simpa using hk
    simp [this, hk]

/-- the refusing producer never writes a sampling rate, for no exporter -/
theorem decodeFlowF_rates (k : Pipe.Kind) (st : Pipe.State) (src : Pipe.Src) (recv : Nat) (d : Bytes) (ip : Bytes) :
    (decodeFlowF k st src recv d).state.ratesOf ip = st.ratesOf ip := by
  have nf : (netflowPipeWith failing st src recv d).state.ratesOf ip = st.ratesOf ip := by
    unfold netflowPipeWith
    simp only
    cases hrd : readU 2 d with
    | error e' => rfl
    | ok vb =>
      obtain ⟨version, b⟩ := vb
      simp only
      by_cases h5 : version = 5
      · simp only [h5, if_true]
        cases hd : V5.decodeMessage b with
        | error e' => rfl
        | ok p => rfl
      · simp only [h5, if_false]
        by_cases h910 : version = 9 ∨ version = 10
        · simp only [h910, if_true]
          generalize (if version = 9 then Netflow.decodeMessageNetFlow (st.templatesOf src) b
            else Netflow.decodeMessageIPFIX (st.templatesOf src) b) = o
          cases ho : o.err with
          | some e' => rfl
          | none =>
            simp only [failing]
            rw [ratesOf_setRates_self]
            rfl
        · simp only [h910, if_false]
          rfl
  have sf : (sflowPipeWith failing st recv d).state.ratesOf ip = st.ratesOf ip := by
    unfold sflowPipeWith
    cases hd : Sflow.decodeMessageVersion d with
    | error e => rfl
    | ok p => rfl
  cases k with
  | netflow => exact nf
  | sflow => exact sf
  | auto =>
    unfold decodeFlowF pipeWith autoPipeWith
    simp only
    cases hrd : readU 4 d with
    | error e' => rfl
    | ok vb =>
      obtain ⟨proto, b⟩ := vb
      simp only
      split
      · exact sf
      · split
        · exact nf
        · rfl

/-- **rates untouched**: a recovered datagram changes the sampling rate of no exporter — not even when it
    carries sampling options itself (the conversion of its data records panicked before they were read) -/
theorem recovered_rates_untouched (k : Pipe.Kind) (cfg : Config) (st : Pipe.State) (src : Pipe.Src) (recv : Nat) (d : Bytes)
    (h : (decodeFlowW k cfg st src recv d).err = some .recovered) (ip : Bytes) :
    (decodeFlowW k cfg st src recv d).state.ratesOf ip = st.ratesOf ip := by
  rw [recovered_state k cfg st src recv d h]
  exact decodeFlowF_rates k st src recv d ip

/-- **templates kept**, NetFlow pipe: after a recovered v9 / IPFIX datagram the template store of its
    exporter is the store its decode step produced; the stores of the other exporters are untouched -/
theorem recovered_templates (cfg : Config) (st : Pipe.State) (src : Pipe.Src) (recv : Nat) (d : Bytes)
    (h : (decodeFlowW .netflow cfg st src recv d).err = some .recovered) :
    ∃ version b, readU 2 d = .ok (version, b) ∧ (version = 9 ∨ version = 10) ∧
      ∀ src', (decodeFlowW .netflow cfg st src recv d).state.templatesOf src' =
        if src' = src then
          (if version = 9 then Netflow.decodeMessageNetFlow (st.templatesOf src) b
           else Netflow.decodeMessageIPFIX (st.templatesOf src) b).store
        else st.templatesOf src' := by
  have hp := (recovered_iff_panic .netflow cfg st src recv d).mp h
  rw [wrapped_state_eq]
  unfold decodeFlow at hp ⊢
  simp only at hp ⊢
  unfold netflowPipe at hp ⊢
  simp only at hp ⊢
  cases hrd : readU 2 d with
  | error e' =>
    rw [hrd] at hp
    simp only [Option.some.injEq] at hp
    have := readU_err hrd
    rw [this] at hp; cases hp
  | ok vb =>
    obtain ⟨version, b⟩ := vb
    rw [hrd] at hp
    simp only at hp ⊢
    refine ⟨version, b, rfl, ?_⟩
    by_cases h5 : version = 5
    · simp only [h5, if_true] at hp
      cases hd : V5.decodeMessage b with
      | error e' =>
        rw [hd] at hp
        simp only [Option.some.injEq] at hp
        rcases decodeStepV5_safe b _ hd with h' | h' <;> rw [h'] at hp <;> cases hp
      | ok p => rw [hd] at hp; cases hp
    · simp only [h5, if_false] at hp ⊢
      by_cases h910 : version = 9 ∨ version = 10
      · refine ⟨h910, ?_⟩
        simp only [h910, if_true] at hp ⊢
        have hsafe := decodeStep_safe (st.templatesOf src) version b h910
        generalize (if version = 9 then Netflow.decodeMessageNetFlow (st.templatesOf src) b
          else Netflow.decodeMessageIPFIX (st.templatesOf src) b) = o at hp hsafe ⊢
        intro src'
        have key : ∀ r, (((st.setTemplates src (st.templatesOf src)).setTemplates src o.store).setRates src.ip r).templatesOf src'
            = if src' = src then o.store else st.templatesOf src' := by
          intro r
          rw [templatesOf_setRates, templatesOf_setTemplates, templatesOf_setTemplates]
          by_cases hs : src' = src <;> simp [hs]
        cases ho : o.err with
        | some e' =>
          rw [ho] at hp
          simp only [Option.some.injEq] at hp
          rcases hsafe _ ho with h' | h' <;> rw [h'] at hp <;> cases hp
        | none =>
          simp only
          split <;> exact key _
      · simp only [h910, if_false] at hp
        cases hp

/-! ### where the panic is caught -/

/-- a producer through which no panic unwinds -/
def NoPanicP (P : ProducerI) : Prop :=
  (∀ p, P.legacy p ≠ .error .panic) ∧ (∀ p r, (P.netflow p r).err ≠ some .panic) ∧ (∀ p, P.sflow p ≠ .error .panic)

/-- `debug.WrapPanicProducer` around ANY producer: `Produce` returns -/
theorem wrapProducer_noPanic (P : ProducerI) : NoPanicP (wrapProducer P) := by
  refine ⟨?_, ?_, ?_⟩
  · intro p
    simp only [wrapProducer]
    cases P.legacy p with
    | error e => cases e <;> simp [ErrW.recover]
    | ok ms => simp
  · intro p r
    simp only [wrapProducer]
    split
    · simp
    · rename_i hne
      exact fun h => hne h
  · intro p
    simp only [wrapProducer]
    cases P.sflow p with
    | error e => cases e <;> simp [ErrW.recover]
    | ok ms => simp

private theorem ofErr_R_ne_panic {e : Err} (h : e.R) : ErrW.ofErr e ≠ .panic := by
  rcases h with rfl | rfl <;> simp [ErrW.ofErr]

/-- over a producer that lets no panic through, the pipes of utils/pipe.go do not panic: the decode steps
    (`v5_safe`, `netflow_safe`, `sflow_safe`) and the bookkeeping of the pipe have no panic point of their own -/
theorem pipeWith_noPanic (P : ProducerI) (hP : NoPanicP P) (k : Pipe.Kind) (st : Pipe.State) (src : Pipe.Src) (recv : Nat) (d : Bytes) :
    (pipeWith P k st src recv d).err ≠ some .panic := by
  have nf : (netflowPipeWith P st src recv d).err ≠ some .panic := by
    unfold netflowPipeWith
    simp only
    cases hrd : readU 2 d with
    | error e' => simpa using ofErr_R_ne_panic (Or.inl (readU_err hrd))
    | ok vb =>
      obtain ⟨version, b⟩ := vb
      simp only
      by_cases h5 : version = 5
      · simp only [h5, if_true]
        cases hd : V5.decodeMessage b with
        | error e' => simpa using ofErr_R_ne_panic (decodeStepV5_safe b _ hd)
        | ok p =>
          simp only
          cases hl : P.legacy p with
          | error e' =>
            have := hP.1 p
            rw [hl] at this
            simpa using this
          | ok ms => simp
      · simp only [h5, if_false]
        by_cases h910 : version = 9 ∨ version = 10
        · simp only [h910, if_true]
          have hsafe := decodeStep_safe (st.templatesOf src) version b h910
          generalize (if version = 9 then Netflow.decodeMessageNetFlow (st.templatesOf src) b
            else Netflow.decodeMessageIPFIX (st.templatesOf src) b) = o at hsafe ⊢
          cases ho : o.err with
          | some e' => simpa using ofErr_R_ne_panic (hsafe _ ho)
          | none =>
            simp only
            have hn := hP.2.1 o.packet (((st.setTemplates src (st.templatesOf src)).setTemplates src o.store).ratesOf src.ip)
            generalize P.netflow o.packet _ = r at hn ⊢
            cases hre : r.err with
            | some e' => rw [hre] at hn; simpa using hn
            | none => simp only; split <;> simp
        · simp only [h910, if_false]
          simp
  have sf : (sflowPipeWith P st recv d).err ≠ some .panic := by
    unfold sflowPipeWith
    cases hd : Sflow.decodeMessageVersion d with
    | error e' => simpa using ofErr_R_ne_panic (Sflow.decodeMessageVersion_err hd)
    | ok p =>
      simp only
      cases hl : P.sflow p with
      | error e' =>
        have := hP.2.2 p
        rw [hl] at this
        simpa using this
      | ok ms => simp
  cases k with
  | netflow => exact nf
  | sflow => exact sf
  | auto =>
    unfold pipeWith autoPipeWith
    simp only
    cases hrd : readU 4 d with
    | error e' => simpa using ofErr_R_ne_panic (Or.inl (readU_err hrd))
    | ok vb =>
      obtain ⟨proto, b⟩ := vb
      simp only
      split
      · exact sf
      · split
        · exact nf
        · simp

/-- **every panic of the model is caught by the producer wrapper** (`Produce` is the only place a mapping
    runs); the `recover()` of `PanicDecoderWrapper` never fires: the error the worker sees is the
    `*PanicErrorMessage` of utils/debug/producer.go:38 inside the `*PipeMessageError` of utils/pipe.go:131/231 -/
theorem decoder_wrapper_idle (k : Pipe.Kind) (cfg : Config) (st : Pipe.State) (src : Pipe.Src) (recv : Nat) (d : Bytes) :
    decodeFlowW k cfg st src recv d = decodeFlowP k cfg st src recv d := by
  have h := pipeWith_noPanic (wrapProducer (plain cfg)) (wrapProducer_noPanic _) k st src recv d
  unfold decodeFlowW recoverOut
  unfold decodeFlowP
  split
  · rename_i hp; exact absurd hp h
  · rfl

/-! ### accepted-but-insane mapping files: a recovered datagram, and the worker goes on -/

namespace AnyExample
open Goflow.Format Goflow.C14Compile

def exporter : Pipe.Src := ⟨[10, 0, 0, 1], 2055⟩

/-! #### destination `sizeCache` (an unexported member of the Go message struct), NetFlow pipe -/

/-- `ipfix: mapping: - field: 1, destination: sizeCache` -/
def rawSize : RawConfig := { ipfix := [{ type := 1, destination := "sizeCache" }] }

/-- what the loader makes of it -/
def cfgSize : Config := { ipfix := [⟨false, 0, 1, { destination := "sizeCache" }⟩], present := true }

theorem rawSize_accepted : Accepted rawSize := by decide
theorem rawSize_compiled : cfgOf rawSize = cfgSize := by rfl
/-- the loader accepts the file and hands `cfgSize` to the producer -/
theorem rawSize_loaded : ∃ c, compile rawSize initialIsSlice = .ok c ∧ c.cfg = cfgSize :=
  ⟨_, (compile_ok_iff rawSize initialIsSlice _).2 ⟨rawSize_accepted, rfl⟩, rawSize_compiled⟩

theorem cfgSize_insane : ¬ Sane cfgSize := by
  intro h
  exact (h.2.1 ⟨false, 0, 1, { destination := "sizeCache" }⟩ (by simp [cfgSize])).1 rfl

/-- IPFIX, domain 4: templates 256 = {octetDeltaCount(1)/4} and 257 = {packetDeltaCount(2)/4}, one data
    record for template 256 -/
def dgA : Bytes := [0,10, 0,44, 0,0,0,2, 0,0,0,3, 0,0,0,4,
  0,2, 0,20, 1,0, 0,1, 0,1, 0,4, 1,1, 0,1, 0,2, 0,4,
  1,0, 0,8, 0,0,0,100]
/-- IPFIX, domain 4: one data record for template 257, no template -/
def dgB : Bytes := [0,10, 0,24, 0,0,0,2, 0,0,0,4, 0,0,0,4, 1,1, 0,8, 0,0,0,7]

/-- the un-wrapped pipe panics on `dgA` (reflect: Set on an unexported field) … -/
example : (Pipe.decodeFlow .netflow cfgSize {} exporter 1 dgA).err = some .panic := by decide
/-- … the collector reports a recovered panic and sends nothing -/
example : (decodeFlowW .netflow cfgSize {} exporter 1 dgA).err = some .recovered ∧
    (decodeFlowW .netflow cfgSize {} exporter 1 dgA).msgs = [] := by decide
/-- the NEXT datagram of the history is decoded with template 257 — learned from the recovered datagram —
    and yields its one message, the very message a collector without mapping file produces -/
example : (decodeFlowW .netflow cfgSize (runW cfgSize {} [(.netflow, exporter, 1, dgA)]) exporter 2 dgB).err = none ∧
    (decodeFlowW .netflow cfgSize (runW cfgSize {} [(.netflow, exporter, 1, dgA)]) exporter 2 dgB).msgs
      = (Pipe.decodeFlow .netflow {} (Pipe.decodeFlow .netflow {} {} exporter 1 dgA).state exporter 2 dgB).msgs ∧
    (decodeFlowW .netflow cfgSize (runW cfgSize {} [(.netflow, exporter, 1, dgA)]) exporter 2 dgB).msgs.length = 1 := by decide
/-- without the recovered datagram before it, `dgB` has no template -/
example : (decodeFlowW .netflow cfgSize {} exporter 2 dgB).err = some .tnf := by decide
/-- the outcome classes of the history as the worker sees them -/
example : errsW cfgSize {} [(.netflow, exporter, 1, dgA), (.netflow, exporter, 2, dgB), (.netflow, exporter, 3, dgA)]
    = [some .recovered, none, some .recovered] := by decide

/-- `dgA` with, in front of its data record, an options template 258 and an options data record announcing
    samplingPacketInterval(305) = 1000 for domain 4 -/
def dgC : Bytes := [0,10, 0,74, 0,0,0,2, 0,0,0,3, 0,0,0,4,
  0,2, 0,20, 1,0, 0,1, 0,1, 0,4, 1,1, 0,1, 0,2, 0,4,
  0,3, 0,18, 1,2, 0,2, 0,1, 0,149, 0,4, 1,49, 0,4,
  1,2, 0,12, 0,0,0,4, 0,0,3,232,
  1,0, 0,8, 0,0,0,100]

/-- rates untouched: the recovered datagram announced a sampling rate, but its conversion panicked before the
    options were read — the next message carries rate 0; the same history without mapping file carries 1000 -/
example : (decodeFlowW .netflow cfgSize {} exporter 1 dgC).err = some .recovered ∧
    (decodeFlowW .netflow cfgSize (runW cfgSize {} [(.netflow, exporter, 1, dgC)]) exporter 2 dgB).msgs.map (·.samplingRate) = [0] ∧
    (decodeFlowW .netflow {} {} exporter 1 dgC).err = none ∧
    (decodeFlowW .netflow {} (runW {} {} [(.netflow, exporter, 1, dgC)]) exporter 2 dgB).msgs.map (·.samplingRate) = [1000] := by decide

/-! #### negative bit offset of a layer mapping, sFlow pipe and auto pipe -/

/-- `sflow: mapping: - layer: ipv4, offset: -120, length: 8, destination: ip_ttl` -/
def rawNeg : RawConfig := { layers := [{ layer := "ipv4", offset := -120, length := 8, destination := "ip_ttl" }] }

def cfgNeg : Config := { layers := [⟨"ipv4", false, -120, 8, { destination := "IpTtl" }⟩], present := true }

theorem rawNeg_accepted : Accepted rawNeg := by decide
theorem rawNeg_compiled : cfgOf rawNeg = cfgNeg := by rfl
theorem rawNeg_loaded : ∃ c, compile rawNeg initialIsSlice = .ok c ∧ c.cfg = cfgNeg :=
  ⟨_, (compile_ok_iff rawNeg initialIsSlice _).2 ⟨rawNeg_accepted, rfl⟩, rawNeg_compiled⟩

theorem cfgNeg_insane : ¬ Sane cfgNeg := by
  intro h
  exact absurd (h.1 ⟨"ipv4", false, -120, 8, { destination := "IpTtl" }⟩ (by simp [cfgNeg])).1 (by decide)

/-- sFlow v5, agent 10.0.0.1, one flow sample (rate 100) with one raw packet header record:
    Ethernet + IPv4 header, 34 bytes -/
def sfA : Bytes := [0,0,0,5, 0,0,0,1, 10,0,0,1, 0,0,0,0, 0,0,0,1, 0,0,3,232, 0,0,0,1,
  0,0,0,1, 0,0,0,92, 0,0,0,1, 0,0,0,1, 0,0,0,100, 0,0,0,1, 0,0,0,0, 0,0,0,3, 0,0,0,4, 0,0,0,1,
  0,0,0,1, 0,0,0,52, 0,0,0,1, 0,0,0,34, 0,0,0,0, 0,0,0,34,
  2,0,0,0,0,1, 2,0,0,0,0,2, 8,0, 69,0, 0,20, 0,1, 0,0, 64, 17, 0,0, 192,0,2,1, 192,0,2,2, 0,0]
/-- the same with an ARP frame cut after the Ethernet header, 14 bytes: no IPv4 layer, the mapping is not used -/
def sfB : Bytes := [0,0,0,5, 0,0,0,1, 10,0,0,1, 0,0,0,0, 0,0,0,1, 0,0,3,232, 0,0,0,1,
  0,0,0,1, 0,0,0,72, 0,0,0,1, 0,0,0,1, 0,0,0,100, 0,0,0,1, 0,0,0,0, 0,0,0,3, 0,0,0,4, 0,0,0,1,
  0,0,0,1, 0,0,0,32, 0,0,0,1, 0,0,0,14, 0,0,0,0, 0,0,0,14,
  2,0,0,0,0,1, 2,0,0,0,0,2, 8,6, 0,0]

set_option maxRecDepth 8000 in
/-- bit offset 14·8 − 120 = −8 of the frame: `GetBytes` slices out of range -/
example : (Pipe.decodeFlow .sflow cfgNeg {} exporter 1 sfA).err = some .panic := by decide
set_option maxRecDepth 8000 in
example : (decodeFlowW .sflow cfgNeg {} exporter 1 sfA).err = some .recovered ∧
    (decodeFlowW .sflow cfgNeg {} exporter 1 sfA).msgs = [] := by decide
set_option maxRecDepth 8000 in
/-- the next datagram yields its normal message (the one a collector without mapping file produces) -/
example : (decodeFlowW .sflow cfgNeg (runW cfgNeg {} [(.sflow, exporter, 1, sfA)]) exporter 2 sfB).err = none ∧
    (decodeFlowW .sflow cfgNeg (runW cfgNeg {} [(.sflow, exporter, 1, sfA)]) exporter 2 sfB).msgs
      = (Pipe.decodeFlow .sflow {} {} exporter 2 sfB).msgs ∧
    (decodeFlowW .sflow cfgNeg (runW cfgNeg {} [(.sflow, exporter, 1, sfA)]) exporter 2 sfB).msgs.length = 1 := by decide
set_option maxRecDepth 8000 in
/-- a mixed history through the auto pipe: sFlow and IPFIX datagrams, recovered ones in between -/
example : errsW cfgNeg {} [(.auto, exporter, 1, sfA), (.auto, exporter, 2, sfB), (.auto, exporter, 3, dgA),
      (.auto, exporter, 4, sfA), (.auto, exporter, 5, dgB)]
    = [some .recovered, none, none, some .recovered, none] := by decide

end AnyExample

/-! every example above was also run through the real `debug.WrapPanicProducer` / `debug.PanicDecoderWrapper` over
    `utils.NewNetFlowPipe` / `NewSFlowPipe` / `NewFlowPipe` with the YAML files quoted: same outcome classes, same
    `sampling_rate` values, and the recovered error is a `*PanicErrorMessage` inside a `*PipeMessageError`
    (`decoder_wrapper_idle`). -/

end Goflow.C01
