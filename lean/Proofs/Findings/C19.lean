import Goflow.Conc.FileTransport
/-! Finding behind the C19 repair: writing after the read lock was released lets a rotation close
    the file between picking the writer and writing. -/
namespace Goflow.Findings.C19
open Goflow.Conc.FileTransport

/-- sender 0 picks the writer, the SIGHUP handler rotates, sender 0 writes to the closed file:
    Send returns an error and the message is in neither file -/
theorem closed_write_possible :
    (run false (init 1) [.send 0, .rotate, .send 0]).senders = [Pc.failed] ∧
    written (run false (init 1) [.send 0, .rotate, .send 0]) = [] := by decide

end Goflow.Findings.C19
