import Goflow.Conc.GetOrCreate
/-! Finding behind the C16 repair: with the unconditional store of the pinned tree two workers
    racing on an exporter's first datagrams lose an announcement. -/
namespace Goflow.Findings.C16
open Goflow.Conc.GetOrCreate

/-- T0 and T1 both miss the lookup; T0 creates, publishes, announces and returns; then T1 creates
    and publishes its own system over T0's: T0's template is no longer visible. -/
theorem lost_update_possible :
    ¬ NothingLost (run false (init 2) [0, 1, 0, 0, 0, 1, 1, 1]) := by
  intro h
  have := h 0 0 (by decide)
  revert this
  decide

end Goflow.Findings.C16
