import Goflow.Conc.FileTransportFaults
/-!
  Negative control for C19 with faults (seeded change C19-10): a transport wrapper that swallows the
  driver's "file already closed" error acknowledges messages that are in no file.
-/
namespace Goflow.Findings.C19Faults
open Goflow.Conc.FileTransportFaults

/-- a failing rotation, then a Send: the driver's write fails, the swallowing wrapper returns nil —
    the message is acknowledged and written nowhere. With Go's wrapper the same Send returns the error. -/
theorem swallowed_error_acknowledges_unwritten :
    let bad := run ⟨true, true⟩ (init 1) (rotation false ++ fullSend 0)
    let good := run go (init 1) (rotation false ++ fullSend 0)
    bad.senders = [SPc.ok] ∧ bad.log = [] ∧ bad.out = [] ∧
    good.senders = [SPc.failed] ∧ good.log = [] := by decide

end Goflow.Findings.C19Faults
