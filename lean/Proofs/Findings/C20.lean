import Goflow.Conc.KafkaLifecycle
/-!
  Negative controls for C20 (lifecycles, error forwarding): the two variants of `KafkaDriver.Close`
  that the theorems of `Proofs/C20Faults.lean` exclude by hypothesis, with the run that breaks each.
-/
namespace Goflow.Findings.C20
open Goflow Goflow.Conc.KafkaAdapter Goflow.Conc.KafkaLifecycle

def a : KMsg := ⟨"t", [1], [10]⟩
def b : KMsg := ⟨"t", [2], [20]⟩

/-! ### a `sync.Once`-guarded Close (seeded change C20-9) -/

def onceCfg : Cfg := ⟨false, 1, true, false⟩

/-- lifecycle 1 complete, then a second lifecycle: Init, one Send, Close -/
def twoLives : List Ev :=
  [.init, .send [1] [10], .closeCall, .life 0 (.deliver a 0), .life 0 .errorsClosed, .life 0 .closeSeesEnd, .life 0 .closeQ,
   .init, .send [2] [20], .closeCall]

/-- the Once belongs to the singleton driver, not to the producer: the second lifecycle's Close is a
    no-op. It RETURNS while the message of lifecycle 2 is still in flight — neither delivered nor
    reported —, `producer.Close()` of the second producer was never called, its `p.errors` is open,
    its forwarder still waits. -/
theorem once_close_skips_second_lifecycle :
    let s := run onceCfg (initSys "t") twoLives
    (s.lives.map (·.close)) = [CPc.returned, CPc.returned] ∧
    (s.lives.map (·.pending)) = [[], [b]] ∧
    (s.lives.map (·.delivered)) = [[(a, 0)], []] ∧
    (s.lives.map (·.reported)) = [[], []] ∧
    (s.lives.map (·.errClosed)) = [true, false] ∧
    (s.lives.map (·.fwd)) = [FPc.waiting, FPc.waiting] := by decide

/-- the same schedule with Go's Close: the second Close is in progress and cannot return before the
    message is delivered or reported -/
theorem go_close_waits_second_lifecycle :
    let s := run (goCfg false 1) (initSys "t") twoLives
    (s.lives.map (·.close)) = [CPc.returned, CPc.draining] ∧
    (s.lives.map (·.pending)) = [[], [b]] ∧
    step (goCfg false 1) s (.life 1 .errorsClosed) = none ∧ step (goCfg false 1) s (.life 1 .closeSeesEnd) = none := by decide

/-- call level: with the Once the second producer is never closed — the sarama contract, which speaks
    about a producer's Close, promises nothing for the messages of lifecycle 2 -/
theorem once_second_producer_never_closed :
    (runOps true { topic := "t" } (allOps [[([1], [10])], [([2], [20])]])).map producers =
      some [⟨"t", [a], true⟩, ⟨"t", [b], false⟩] ∧
    (runOps false { topic := "t" } (allOps [[([1], [10])], [([2], [20])]])).map producers =
      some [⟨"t", [a], true⟩, ⟨"t", [b], true⟩] := by decide

/-! ### Close forwards the errors of the final flush with a blocking send (seeded change C20-8) -/

def blockingCfg : Cfg := ⟨false, 1, false, true⟩

/-- one lifecycle; the broker rejects the message during the final flush (Close's own range loop takes
    the event); `p.errors` is closed; the forwarder passes the nil end marker on; the reader — as
    main.go's does — returns; `producer.Close()` returns the collected error -/
def rejectAtClose : List Ev :=
  [.init, .send [1] [10], .closeCall, .life 0 (.failToClose a), .life 0 .errorsClosed, .life 0 .fwdSeesEnd, .life 0 .fwdForward,
   .life 0 .closeSeesEnd]

theorem blocking_state :
    run blockingCfg (initSys "t") rejectAtClose =
      { topic := "t",
        lives := [{ input := [a], pending := [], delivered := [], reported := [a], collected := [a], errClosed := true,
                    qClosed := false, fwd := FPc.exited, close := CPc.forwarding [a] }],
        onceDone := true, reader := Reader.stopped, readerGot := [none] } := by decide

/-- **Close waits forever**: it is at `d.errors <- err`, the reader has stopped after the nil end
    marker, and NO event at all is enabled — not now and therefore never: the call does not return. -/
theorem blocking_forward_deadlock :
    let s := run blockingCfg (initSys "t") rejectAtClose
    closingAt s 0 ∧ ∀ e, step blockingCfg s e = none := by
  intro s
  have hs : s = _ := blocking_state
  refine ⟨?_, ?_⟩
  · rw [hs]; exact ⟨rfl, _, rfl, rfl⟩
  · intro e
    rw [hs]
    cases e with
    | init => rfl
    | send k v => rfl
    | closeCall => rfl
    | readerQuit => rfl
    | life l ev =>
      cases l with
      | zero => cases ev <;> simp [step, lifeStep]
      | succ l => simp [step]

/-- Go's Close on the same schedule: the collected errors are not forwarded, Close goes on to
    `close(d.q)` and returns although the reader has stopped -/
theorem go_close_returns_same_schedule :
    let s := run (goCfg false 1) (initSys "t") (rejectAtClose ++ [.life 0 .closeQ])
    (s.lives.map (·.close)) = [CPc.returned] ∧ s.reader = Reader.stopped ∧ (s.lives.map (·.reported)) = [[a]] := by decide

end Goflow.Findings.C20
