import Proofs.C01
import Proofs.C14Bits
/-!
  C01 for configurations **with** custom mappings.

  `Proofs/C01.lean` shows that no datagram ends in `panic` / `diverge` when the configuration carries no
  mappings. Here the same statements are proved for every configuration that satisfies `Sane`: bit
  offsets and lengths of the layer mappings are not negative and no mapping writes to one of the two
  unexported members of the Go message struct that make `reflect` panic. Mapping steps may now fail,
  but only with a *returned* error.
-/
namespace Goflow.C01
open Goflow Goflow.Producer Goflow.Pipe

/-- a destination `MapCustom` can be handed without a reflect panic: anything but the two unexported,
    non-settable members `sizeCache` / `unknownFields` of the generated Go struct -/
def SaneDest (f : MapField) : Prop := f.destination ≠ "sizeCache" ∧ f.destination ≠ "unknownFields"

/-- what the loader's documentation allows: bit offsets and lengths are not negative, destinations are
    flow-message columns or declared custom fields (not the unexported members of the Go struct) -/
def Sane (cfg : Config) : Prop :=
  (∀ e ∈ cfg.layers, 0 ≤ e.offset ∧ 0 ≤ e.length ∧ SaneDest e.field) ∧
  (∀ e ∈ cfg.ipfix, SaneDest e.field) ∧ (∀ e ∈ cfg.v9, SaneDest e.field)

/-- the old hypothesis is a special case -/
theorem NoMappings.sane {cfg : Config} (h : NoMappings cfg) : Sane cfg := by
  simp [Sane, h.1, h.2.1, h.2.2]

/-! ### the mapping step -/

theorem decodeUNumber_bad {bits : Nat} {b : Bytes} {e : Err} (h : decodeUNumber bits b = .error e) : e = .bad := by
  unfold decodeUNumber decodeUNumberRaw at h
  simp only at h
  split at h
  · cases h
  · rename_i e' he
    cases h
    split at he
    · cases he
    · split at he
      · cases he
      · cases he; rfl

theorem decodeUNumberLE_bad {bits : Nat} {b : Bytes} {e : Err} (h : decodeUNumberLE bits b = .error e) : e = .bad := by
  unfold decodeUNumberLE decodeUNumberLERaw at h
  simp only at h
  split at h
  · cases h
  · rename_i e' he
    cases h
    split at he
    · cases he
    · split at he
      · cases he
      · cases he; rfl

theorem endianDecode_bad {little : Bool} {bits : Nat} {b : Bytes} {e : Err}
    (h : endianDecode little bits b = .error e) : e = .bad := by
  unfold endianDecode at h
  split at h
  · exact decodeUNumberLE_bad h
  · exact decodeUNumber_bad h

/-- MapCustom on a sane destination: the only failures are returned errors (value wider than 8 bytes,
    enum-typed column, custom field without wire type) -/
theorem mapCustom_sane (m : FlowMsg) (v : Bytes) (f : MapField) (hf : SaneDest f) :
    ∀ e, mapCustom m v f = .error e → e = .bad := by
  intro e h
  unfold mapCustom at h
  simp only at h
  split at h
  · repeat' split at h
    all_goals first
      | cases h; done
      | (cases h; rfl)
      | (rename_i he; cases h; exact endianDecode_bad he)
  · have hn : ¬ (f.destination = "sizeCache" ∨ f.destination = "unknownFields") := by
      rintro (h1 | h1)
      · exact hf.1 h1
      · exact hf.2 h1
    simp only [hn, if_false] at h
    repeat' split at h
    all_goals first
      | cases h; done
      | (cases h; rfl)
      | (rename_i he; cases h; exact endianDecode_bad he)

/-- GetBytes at a layer offset with a sane entry never panics -/
theorem getBytes_layer_ok (data : Bytes) (offset : Nat) (eo el : Int) (ho : 0 ≤ eo) (hl : 0 ≤ el) (shift : Bool) :
    ∃ b, getBytes data ((offset : Int) * 8 + eo) el shift = .ok b := by
  have h1 : (offset : Int) * 8 + eo = ((offset * 8 + eo.toNat : Nat) : Int) := by
    have := Int.toNat_of_nonneg ho
    omega
  have h2 : el = ((el.toNat : Nat) : Int) := (Int.toNat_of_nonneg hl).symm
  rw [h1, h2]
  obtain ⟨b, hb, _⟩ := C14.getBytes_total data (offset * 8 + eo.toNat) el.toNat shift
  exact ⟨b, hb⟩

/-- the mapping entries of one key: only returned errors -/
theorem mapLayerEntries_sane (data : Bytes) (offset : Nat) (encap : Bool) (es : List LayerMapEntry)
    (hs : ∀ e ∈ es, 0 ≤ e.offset ∧ 0 ≤ e.length ∧ SaneDest e.field) (m : FlowMsg) :
    ∀ e, mapLayerEntries data offset encap es m = .error e → e = .bad := by
  induction es generalizing m with
  | nil => intro e h; simp [mapLayerEntries] at h
  | cons x xs ih =>
    intro e h
    have hx := hs x (by simp)
    have hxs : ∀ e ∈ xs, 0 ≤ e.offset ∧ 0 ≤ e.length ∧ SaneDest e.field := fun e he => hs e (by simp [he])
    unfold mapLayerEntries at h
    split at h
    · exact ih hxs m e h
    · obtain ⟨b, hb⟩ := getBytes_layer_ok data offset x.offset x.length hx.1 hx.2.1 true
      rw [hb] at h
      simp only at h
      split at h
      · rename_i err he
        cases h
        exact mapCustom_sane _ _ _ hx.2.2 _ he
      · exact ih hxs _ e h

/-- all keys of one layer -/
theorem mapLayerKeys_sane (cfg : Config) (hcfg : Sane cfg) (data : Bytes) (offset : Nat) (encap : Bool)
    (ks : List String) (m : FlowMsg) :
    ∀ e, mapLayerKeys cfg data offset encap ks m = .error e → e = .bad := by
  induction ks generalizing m with
  | nil => intro e h; simp [mapLayerKeys] at h
  | cons k ks ih =>
    intro e h
    unfold mapLayerKeys at h
    split at h
    · rename_i err he
      cases h
      refine mapLayerEntries_sane data offset encap _ ?_ m _ he
      intro x hx
      exact hcfg.1 x (List.mem_filter.mp hx).1
    · exact ih _ e h

/-! ### the parser chain with mappings present -/

/-- with sane layer mappings the loop of ParsePacket still stops within 2·|data| + 3 iterations (same
    measure as without mappings); it ends with a message or with the returned error of a mapping step -/
theorem parseLoop_sane (cfg : Config) (hcfg : Sane cfg) (data : Bytes) (fuel : Nat) (next : Next) (offset : Nat)
    (encap : Bool) (encapIndex : Nat) (calls : List (Nat × Nat)) (m : FlowMsg) (hf : mu data.length next offset + 1 ≤ fuel) :
    ∀ e, parseLoop cfg data fuel next offset encap encapIndex calls m = .error e → e = .bad := by
  induction fuel generalizing next offset encap encapIndex calls m with
  | zero => omega
  | succ fuel ih =>
    intro e h
    unfold parseLoop at h
    by_cases hc : next.callable = true ∧ offset ≤ data.length
    · simp only [hc, and_self, if_true] at h
      split at h
      · rename_i err he
        cases h
        -- the mapping step only runs for a recognised layer; otherwise the step cannot fail
        split at he
        · exact mapLayerKeys_sane cfg hcfg _ _ _ _ _ _ he
        · cases he
      · refine ih _ _ _ _ _ _ ?_ e h
        -- the measure decreases
        have hprog := runParser_progress next.parser m (data.drop offset)
          ⟨encap, (calls.lookup next.parserIndex).getD 0, cfg.ports⟩
        generalize runParser next.parser m (data.drop offset) ⟨encap, (calls.lookup next.parserIndex).getD 0, cfg.ports⟩ = r at *
        unfold mu at hf ⊢
        simp only [hc.1, if_true] at hf
        by_cases hc' : r.next.callable = true
        · simp only [hc', if_true]
          rcases hprog hc' with h1 | ⟨h1, h2⟩
          · split <;> split at hf <;> omega
          · simp only [h1, if_true] at hf
            simp only [h2, show (Parser.ipv6 = Parser.teredo) = False by simp, if_false]
            omega
        · have hc'' : r.next.callable = false := by simpa using hc'
          simp only [hc'', Bool.false_eq_true, if_false]
          split at hf <;> omega
    · simp only [hc, if_false] at h
      cases h

/-- the dissector under a sane configuration, stronger form: the only error is `bad` -/
theorem parsePacket_sane_bad (cfg : Config) (h : Sane cfg) (m : FlowMsg) (data : Bytes) :
    ∀ e, parsePacket cfg m data = .error e → e = .bad := by
  unfold parsePacket
  apply parseLoop_sane cfg h
  unfold mu
  split <;> simp <;> omega

/-- **the sampled-packet dissector under a sane configuration**: every frame, at every capture length,
    gives a message or an ordinary returned error — never a panic, never an endless loop -/
theorem parsePacket_sane (cfg : Config) (h : Sane cfg) (m : FlowMsg) (data : Bytes) :
    ∀ e, parsePacket cfg m data = .error e → e.R :=
  fun e he => Or.inr (parsePacket_sane_bad cfg h m data e he)

/-! ### NetFlow v9 / IPFIX conversion -/

theorem lookupNetflow_mem {es : List NetflowMapEntry} {pp : Bool} {pen type : Nat} {f : MapField}
    (h : lookupNetflow es pp pen type = some f) : ∃ e ∈ es, e.field = f := by
  unfold lookupNetflow at h
  split at h
  · rename_i x hx
    cases h
    exact ⟨x, (List.mem_filter.mp (List.mem_of_getLast? hx)).1, rfl⟩
  · cases h

private theorem applyAction_sane (cfg : Config) (hcfg : Sane cfg) (bt up : Nat) (m : FlowMsg) (v : Bytes) (a : Action) (e : Err)
    (h : applyAction (some cfg) bt up m v a = .error e) : e = .bad := by
  cases a with
  | frameSection =>
    simp only [applyAction] at h
    split at h
    · rename_i err he
      cases h
      exact parsePacket_sane_bad cfg hcfg _ _ _ he
    · cases h
  | unum2 a b =>
    simp only [applyAction] at h
    split at h
    · rename_i he; cases h; exact decodeUNumber_bad he
    · split at h
      · rename_i he; cases h; exact decodeUNumber_bad he
      · cases h
  | ipVersion => simp only [applyAction] at h; split at h <;> cases h
  | addr c v6 => simp only [applyAction] at h; cases h
  | bytes c => simp only [applyAction] at h; cases h
  | mplsIp => simp only [applyAction] at h; cases h
  | unum c => simp only [applyAction] at h; split at h <;> first | (rename_i he; cases h; exact decodeUNumber_bad he) | cases h
  | icmpTypeCode => simp only [applyAction] at h; split at h <;> first | (rename_i he; cases h; exact decodeUNumber_bad he) | cases h
  | fragOffset => simp only [applyAction] at h; split at h <;> first | (rename_i he; cases h; exact decodeUNumber_bad he) | cases h
  | ipFlags => simp only [applyAction] at h; split at h <;> first | (rename_i he; cases h; exact decodeUNumber_bad he) | cases h
  | mplsLabel i => simp only [applyAction] at h; split at h <;> first | (rename_i he; cases h; exact decodeUNumber_bad he) | cases h
  | v9First => simp only [applyAction] at h; split at h <;> first | (rename_i he; cases h; exact decodeUNumber_bad he) | cases h
  | v9Last => simp only [applyAction] at h; split at h <;> first | (rename_i he; cases h; exact decodeUNumber_bad he) | cases h
  | ipfixTime s mult => simp only [applyAction] at h; split at h <;> first | (rename_i he; cases h; exact decodeUNumber_bad he) | cases h
  | ipfixDelta s => simp only [applyAction] at h; split at h <;> first | (rename_i he; cases h; exact decodeUNumber_bad he) | cases h
  | frameSize => simp only [applyAction] at h; split at h <;> first | (rename_i he; cases h; exact decodeUNumber_bad he) | cases h

private theorem convertFields_sane (cfg : Config) (hcfg : Sane cfg) (version bt up : Nat) (fs : List Netflow.DataField) (m : FlowMsg) (e : Err)
    (h : convertFields (some cfg) version bt up fs m = .error e) : e = .bad := by
  induction fs generalizing m with
  | nil => simp [convertFields] at h
  | cons df rest ih =>
    unfold convertFields at h
    cases hv : df.value with
    | none => rw [hv] at h; exact ih _ h
    | some v =>
      rw [hv] at h
      simp only at h
      have hmapper : ∀ x ∈ (if version = 10 then cfg.ipfix else cfg.v9), SaneDest x.field := by
        split
        · exact hcfg.2.1
        · exact hcfg.2.2
      cases hl : lookupNetflow (if version = 10 then cfg.ipfix else cfg.v9) df.penProvided df.pen df.type with
      | some f =>
        rw [hl] at h
        simp only at h
        obtain ⟨x, hx, rfl⟩ := lookupNetflow_mem hl
        cases hm : mapCustom m v x.field with
        | error err =>
          rw [hm] at h
          cases h
          exact mapCustom_sane _ _ _ (hmapper x hx) _ hm
        | ok m1 =>
          rw [hm] at h
          simp only at h
          split at h
          · exact ih _ h
          · split at h
            · exact ih _ h
            · split at h
              · rename_i e' he; cases h; exact applyAction_sane cfg hcfg _ _ _ _ _ _ he
              · exact ih _ h
      | none =>
        rw [hl] at h
        simp only at h
        split at h
        · exact ih _ h
        · split at h
          · exact ih _ h
          · split at h
            · rename_i e' he; cases h; exact applyAction_sane cfg hcfg _ _ _ _ _ _ he
            · exact ih _ h

private theorem convertRecords_sane (cfg : Config) (hcfg : Sane cfg) (version bt up : Nat) (rs : List Netflow.DataRecord) (e : Err)
    (h : convertRecords (some cfg) version bt up rs = .error e) : e = .bad := by
  induction rs with
  | nil => simp [convertRecords] at h
  | cons r rs ih =>
    unfold convertRecords at h
    split at h
    · rename_i e' he
      cases h
      exact convertFields_sane cfg hcfg _ _ _ _ _ _ he
    · split at h
      · rename_i e' he; cases h; exact ih he
      · cases h

private theorem decodeUNumber_short' (bits : Nat) (v : Bytes) (h : ¬ v.length > 8) : ∃ x, decodeUNumber bits v = .ok x := by
  unfold decodeUNumber decodeUNumberRaw
  by_cases h1 : v.length = 1 ∨ v.length = 2 ∨ v.length = 4 ∨ v.length = 8
  · simp [h1]
  · have h2 : v.length < 8 := by omega
    simp [h1, h2]

private theorem searchSamplingRate_err' (rs : List Netflow.OptionsDataRecord) (e : Err)
    (h : searchSamplingRate rs = .error e) : e = .eof := by
  have pop : ∀ (fs : List Netflow.DataField) (t : Nat) (e : Err), populate fs t = .error e → e = .eof := by
    intro fs t e h
    unfold populate at h
    split at h
    · cases h
    · split at h
      · cases h
      · split at h
        · cases h
        · rename_i hl
          obtain ⟨x, hx⟩ := decodeUNumber_short' 32 _ hl
          rw [hx] at h
          cases h
  induction rs with
  | nil => simp [searchSamplingRate] at h
  | cons r rs ih =>
    unfold searchSamplingRate at h
    split at h
    · rename_i e' he; cases h; exact pop _ _ _ he
    · cases h
    · split at h
      · rename_i e' he; cases h; exact pop _ _ _ he
      · cases h
      · split at h
        · rename_i e' he; cases h; exact pop _ _ _ he
        · cases h
        · exact ih h

/-- **conversion to flow messages under a sane configuration**: custom mappings of v9 / IPFIX elements
    and the frame dissector behind element 315 included, only returned errors -/
theorem produce_sane (cfg : Config) (h : Sane cfg) (p : Netflow.Packet) (rates : Rates) :
    ∀ e, (processNetflow (some cfg) p rates).err = some e → e.R := by
  intro e he
  unfold processNetflow at he
  split at he
  · rename_i e' hc
    simp at he; subst he
    right; exact convertRecords_sane cfg h _ _ _ _ _ hc
  · split at he
    · rename_i e' hs
      simp at he; subst he
      left; exact searchSamplingRate_err' _ _ hs
    · simp at he

/-! ### sFlow conversion -/

theorem processSflow_sane (cfg : Config) (hcfg : Sane cfg) (p : Sflow.Packet) :
    ∀ e, processSflow (some cfg) p = .error e → e.R := by
  have rec1 : ∀ (m : FlowMsg) (r : Sflow.FlowRecord) (e : Err), applyRecord (some cfg) m r = .error e → e = .bad := by
    intro m r e h
    unfold applyRecord at h
    split at h
    · split at h
      · exact parsePacket_sane_bad cfg hcfg _ _ _ (by simpa using h)
      · cases h
    · split at h
      · cases h
      · split at h
        · cases h
        · split at h <;> cases h
    · cases h
    · cases h
    · cases h
  have recs : ∀ (rs : List Sflow.FlowRecord) (m : FlowMsg) (e : Err), applyRecords (some cfg) rs m = .error e → e = .bad := by
    intro rs
    induction rs with
    | nil => intro m e h; cases h
    | cons r rs ih =>
      intro m e h
      unfold applyRecords at h
      split at h
      · rename_i e' he; cases h; exact rec1 _ _ _ he
      · exact ih _ _ h
  have samples : ∀ (ss : List Sflow.Sample) (e : Err), convertSamples (some cfg) ss = .error e → e = .bad := by
    intro ss
    induction ss with
    | nil => intro e h; cases h
    | cons s ss ih =>
      intro e h
      unfold convertSamples at h
      split at h
      · exact ih _ h
      · rename_i e' hs
        cases h
        cases s with
        | flow hd vals rs => simp only [convertSample, Option.some.injEq] at hs; exact recs _ _ _ hs
        | expFlow hd vals rs => simp only [convertSample, Option.some.injEq] at hs; exact recs _ _ _ hs
        | counter hd c r => simp [convertSample] at hs
        | drop hd v r => simp [convertSample] at hs
        | none => simp [convertSample] at hs
      · split at h
        · rename_i e' he; cases h; exact ih _ he
        · cases h
  intro e h
  unfold processSflow at h
  split at h
  · rename_i e' he; cases h; exact Or.inr (samples _ _ he)
  · cases h

/-! ### the pipes -/

/-- **one datagram through any pipe, sane configuration**, any state: a result, a returned error or
    template-not-found -/
theorem pipe_sane (k : Pipe.Kind) (cfg : Config) (h : Sane cfg) (st : Pipe.State) (src : Pipe.Src) (recv : Nat) (d : Bytes) :
    Safe (Pipe.decodeFlow k cfg st src recv d).err := by
  have nf : Safe (netflowPipe cfg st src recv d).err := by
    unfold netflowPipe
    simp only
    cases hrd : readU 2 d with
    | error e => exact safe_of_R (Or.inl (readU_err hrd))
    | ok vb =>
      obtain ⟨version, b⟩ := vb
      simp only
      by_cases h5 : version = 5
      · simp only [h5, if_true]
        cases hd : V5.decodeMessage b with
        | error e =>
          have : V5.decodeMessageVersion ([0, 5] ++ b) = .error e := by
            have hr : readU 2 ([0, 5] ++ b) = .ok (5, b) := by
              have := readU_append [0, 5] b rfl
              simpa [beNat] using this
            unfold V5.decodeMessageVersion
            rw [hr]
            simp [hd]
          exact safe_of_R (V5.decodeMessageVersion_err this)
        | ok p => exact ⟨by simp, by simp⟩
      · simp only [h5, if_false]
        by_cases h910 : version = 9 ∨ version = 10
        · simp only [h910, if_true]
          generalize hdo : (if version = 9 then Netflow.decodeMessageNetFlow (st.templatesOf src) b
            else Netflow.decodeMessageIPFIX (st.templatesOf src) b) = o
          have hsafe : ∀ e, o.err = some e → e = .eof ∨ e = .bad := by
            intro e he
            have hv : o = Netflow.decodeMessageVersion (st.templatesOf src) (encBE 2 version ++ b) := by
              have hr : readU 2 (encBE 2 version ++ b) = .ok (version, b) := readU_enc b (by rcases h910 with h | h <;> simp [h])
              unfold Netflow.decodeMessageVersion
              rw [hr, ← hdo]
              rcases h910 with h | h <;> simp [h]
            rw [hv] at he
            exact Netflow.decodeMessageVersion_safe _ _ e he
          cases ho : o.err with
          | some e => exact safe_of_R (hsafe e ho)
          | none =>
            simp only
            generalize hr : processNetflow (some cfg) o.packet _ = r
            cases hre : r.err with
            | some e =>
              have := produce_sane cfg h o.packet _ e (by rw [hr]; exact hre)
              exact safe_of_R this
            | none =>
              simp only
              split <;> exact ⟨by simp, by simp⟩
        · simp only [h910, if_false]
          exact ⟨by simp, by simp⟩
  have sf : Safe (sflowPipe cfg st recv d).err := by
    unfold sflowPipe
    cases hd : Sflow.decodeMessageVersion d with
    | error e => exact safe_of_R (Sflow.decodeMessageVersion_err hd)
    | ok p =>
      simp only
      cases hp : processSflow (some cfg) p with
      | error e => exact safe_of_R (processSflow_sane cfg h p e hp)
      | ok ms => exact ⟨by simp, by simp⟩
  cases k with
  | netflow => exact nf
  | sflow => exact sf
  | auto =>
    unfold decodeFlow autoPipe
    simp only
    cases hrd : readU 4 d with
    | error e => exact safe_of_R (Or.inl (readU_err hrd))
    | ok vb =>
      obtain ⟨proto, b⟩ := vb
      simp only
      split
      · exact sf
      · split
        · exact nf
        · exact ⟨by simp, by simp⟩

/-- **any history, sane configuration**: whatever datagrams came before — valid, malformed, from any
    exporter, failing in a mapping step or not — the worker goes on: every later datagram is again
    processed to a result or a returned error -/
theorem pipe_history_sane (k : Pipe.Kind) (cfg : Config) (h : Sane cfg) (st : Pipe.State)
    (hist : List (Pipe.Src × Nat × Bytes)) (src : Pipe.Src) (recv : Nat) (d : Bytes) :
    Safe (Pipe.decodeFlow k cfg (hist.foldl (fun s h => (Pipe.decodeFlow k cfg s h.1 h.2.1 h.2.2).state) st) src recv d).err :=
  pipe_sane k cfg h _ src recv d

/-- the theorems of `Proofs/C01.lean` are the instances for configurations without mappings -/
example (k : Pipe.Kind) (cfg : Config) (hcfg : NoMappings cfg) (st : Pipe.State) (src : Pipe.Src) (recv : Nat) (d : Bytes) :
    Safe (Pipe.decodeFlow k cfg st src recv d).err := pipe_sane k cfg hcfg.sane st src recv d

/-! ### non-vacuity -/

/-- a mapping file in the style of the project's documentation: two layer mappings (a column and a
    declared custom protobuf field) and one IPFIX mapping -/
def exampleConfig : Config := {
  layers := [
    { layer := "ipv4", encap := false, offset := 64, length := 8, field := { destination := "IpTtl" } },
    { layer := "udp", encap := true, offset := 48, length := 16,
      field := { destination := "csum", protoIndex := 999, protoType := .varint } } ],
  ipfix := [
    { penProvided := false, pen := 0, type := 252, field := { destination := "InIf", little := true } } ],
  present := true }

example : Sane exampleConfig := by
  refine ⟨?_, ?_, ?_⟩
  · intro e he
    simp only [exampleConfig, List.mem_cons, List.not_mem_nil, or_false] at he
    rcases he with rfl | rfl <;> simp [SaneDest]
  · intro e he
    simp only [exampleConfig, List.mem_cons, List.not_mem_nil, or_false] at he
    subst he
    simp [SaneDest]
  · intro e he
    simp [exampleConfig] at he

/-- the hypothesis is needed: one negative bit offset, or one mapping onto an unexported member, and a
    plain Ethernet header is enough for the run-time panic -/
example : parsePacket { layers := [⟨"ethernet", false, -1, 8, { destination := "IpTtl" }⟩] } {} (List.replicate 14 0)
    = .error .panic := by decide
example : parsePacket { layers := [⟨"ethernet", false, 0, 8, { destination := "sizeCache" }⟩] } {} (List.replicate 14 0)
    = .error .panic := by decide

end Goflow.C01
