import Goflow.Generated.SflowProdT
import Goflow.Producer.Sflow
/-!
  C09 (translation tie) — the sFlow → flow message conversion of producer/proto/producer_sf.go.

  `Goflow/Generated/SflowProdT.lean` is regenerated from the Go source on every run of the extractor: the decoded sFlow
  packet as structures (one per Go struct), the `interface{}` values as sums (`RecordData`, `CounterData`, `Sample`), and
  the translated bodies of `ParseSampledHeaderConfig`, `SearchSFlowSampleConfig` (its record loop with one definition per
  arm of `switch recordData := record.Data.(type)`) and `GetSFlowFlowSamples`.

  Here: the mapping of the generated packet types to the generic terms of the hand-written model
  (`Goflow/Decoders/Sflow.lean`), and the proof that every translated function computes what the model
  (`Goflow/Producer/Sflow.lean`: `applyRecord`, `applyRecords`, `convertSample`) computes — for every message, every record,
  every sample and every configuration.

  The dissector: `config.ParsePacket(flowMessage, data)` is the prelude external `Go.ParsePacket`, which is the model's
  `parsePacket` (tied to the source by translation in Proofs/C10Trans.lean) and panics on the nil interface;
  `DefaultEnvironment` is `Go.DefaultEnvironment`, the dissector without a configuration.
-/
set_option linter.unusedSimpArgs false
namespace Goflow.C09Trans
open Goflow Goflow.Producer Goflow.Generated Goflow.Go

/-! ### the generated packet types as terms of the model -/

def ipBaseVals (b : TSP.SampledIPBase) (last : UInt32) : List Sflow.V :=
  [.n b.Length.toNat, .n b.Protocol.toNat, .b b.SrcIP, .b b.DstIP, .n b.SrcPort.toNat, .n b.DstPort.toNat,
   .n b.TcpFlags.toNat, .n last.toNat]

/-- `FlowRecord.Data` -/
def recordData : TSP.RecordData → Sflow.FlowData
  | .nil => .none
  | .SampledHeader v => .raw [v.Protocol.toNat, v.FrameLength.toNat, v.Stripped.toNat, v.OriginalLength.toNat] v.HeaderData
  | .SampledEthernet v => .fixed 2 [.n v.Length.toNat, .b v.SrcMac, .b v.DstMac, .n v.EthType.toNat]
  | .SampledIPv4 v => .fixed 3 (ipBaseVals v.SampledIPBase v.Tos)
  | .SampledIPv6 v => .fixed 4 (ipBaseVals v.SampledIPBase v.Priority)
  | .ExtendedSwitch v => .fixed 1001 [.n v.SrcVlan.toNat, .n v.SrcPriority.toNat, .n v.DstVlan.toNat, .n v.DstPriority.toNat]
  | .ExtendedRouter v => .router v.NextHopIPVersion.toNat v.NextHop v.SrcMaskLen.toNat v.DstMaskLen.toNat
  | .ExtendedGateway v =>
    .gateway v.NextHopIPVersion.toNat v.NextHop [v.AS.toNat, v.SrcAS.toNat, v.SrcPeerAS.toNat, v.ASDestinations.toNat]
      v.ASPathType.toNat v.ASPathLength.toNat (v.ASPath.map UInt32.toNat) v.CommunitiesLength.toNat
      (v.Communities.map UInt32.toNat) v.LocalPref.toNat
  | .EgressQueue v => .fixed 1036 [.n v.Queue.toNat]
  | .ExtendedACL v => .acl v.Number.toNat v.Name.toUTF8.toList v.Direction.toNat
  | .ExtendedFunction v => .function v.Symbol.toUTF8.toList
  | .RawRecord v => .unknown v.Data

def flowRecord (r : TSP.FlowRecord) : Sflow.FlowRecord :=
  ⟨r.Header.DataFormat.toNat, r.Header.Length.toNat, recordData r.Data⟩

/-- `CounterRecord.Data` -/
def counterData : TSP.CounterData → Sflow.CounterData
  | .nil => .none
  | .IfCounters v => .ifc [v.IfIndex.toNat, v.IfType.toNat, v.IfSpeed.toNat, v.IfDirection.toNat, v.IfStatus.toNat,
      v.IfInOctets.toNat, v.IfInUcastPkts.toNat, v.IfInMulticastPkts.toNat, v.IfInBroadcastPkts.toNat, v.IfInDiscards.toNat,
      v.IfInErrors.toNat, v.IfInUnknownProtos.toNat, v.IfOutOctets.toNat, v.IfOutUcastPkts.toNat, v.IfOutMulticastPkts.toNat,
      v.IfOutBroadcastPkts.toNat, v.IfOutDiscards.toNat, v.IfOutErrors.toNat, v.IfPromiscuousMode.toNat]
  | .EthernetCounters v => .eth [v.Dot3StatsAlignmentErrors.toNat, v.Dot3StatsFCSErrors.toNat,
      v.Dot3StatsSingleCollisionFrames.toNat, v.Dot3StatsMultipleCollisionFrames.toNat, v.Dot3StatsSQETestErrors.toNat,
      v.Dot3StatsDeferredTransmissions.toNat, v.Dot3StatsLateCollisions.toNat, v.Dot3StatsExcessiveCollisions.toNat,
      v.Dot3StatsInternalMacTransmitErrors.toNat, v.Dot3StatsCarrierSenseErrors.toNat, v.Dot3StatsFrameTooLongs.toNat,
      v.Dot3StatsInternalMacReceiveErrors.toNat, v.Dot3StatsSymbolErrors.toNat]
  | .RawRecord v => .unknown v.Data

def counterRecord (r : TSP.CounterRecord) : Sflow.CounterRecord :=
  ⟨r.Header.DataFormat.toNat, r.Header.Length.toNat, counterData r.Data⟩

def sampleHeader (h : TSP.SampleHeader) : Sflow.SampleHeader :=
  ⟨h.Format.toNat, h.Length.toNat, h.SampleSequenceNumber.toNat, h.SourceIdType.toNat, h.SourceIdValue.toNat⟩

/-- an element of `Packet.Samples` -/
def sample : TSP.Sample → Sflow.Sample
  | .nil => .none
  | .FlowSample v =>
    .flow (sampleHeader v.Header)
      [v.SamplingRate.toNat, v.SamplePool.toNat, v.Drops.toNat, v.Input.toNat, v.Output.toNat, v.FlowRecordsCount.toNat]
      (v.Records.map flowRecord)
  | .CounterSample v => .counter (sampleHeader v.Header) v.CounterRecordsCount.toNat (v.Records.map counterRecord)
  | .ExpandedFlowSample v =>
    .expFlow (sampleHeader v.Header)
      [v.SamplingRate.toNat, v.SamplePool.toNat, v.Drops.toNat, v.InputIfFormat.toNat, v.InputIfValue.toNat,
       v.OutputIfFormat.toNat, v.OutputIfValue.toNat, v.FlowRecordsCount.toNat]
      (v.Records.map flowRecord)
  | .DropSample v =>
    .drop (sampleHeader v.Header)
      [v.Drops.toNat, v.Input.toNat, v.Output.toNat, v.Reason.toNat, v.FlowRecordsCount.toNat] (v.Records.map flowRecord)

def packet (p : TSP.Packet) : Sflow.Packet :=
  ⟨p.Version.toNat, p.IPVersion.toNat, p.AgentIP,
   [p.SubAgentId.toNat, p.SequenceNumber.toNat, p.Uptime.toNat, p.SamplesCount.toNat], p.Samples.map sample⟩

/-! ### small facts -/

@[simp] theorem ok_bind {α β : Type} (a : α) (f : α → Res β) : ((Except.ok a : Res α) >>= f) = f a := rfl
@[simp] theorem err_bind {α β : Type} (e : Err) (f : α → Res β) : ((Except.error e : Res α) >>= f) = .error e := rfl

@[simp] theorem bind_ok {α : Type} (r : Res α) : (r >>= fun t => (Except.ok t : Res α)) = r := by
  cases r <;> rfl

theorem u32_toNat_ofNat_toNat (x : UInt32) : (UInt64.ofNat x.toNat).toNat = x.toNat := by
  have := x.toNat_lt
  simp only [UInt64.toNat_ofNat']
  omega

theorem idxLI_nat {α : Type} {l : List α} {k : Nat} (h : k < l.length) : Go.idxLI l (k : Int) = .ok l[k] := by
  have : ¬ ((k : Int) < 0) := by omega
  simp [Go.idxLI, Go.idxL, this, List.getElem?_eq_getElem h]

/-! ### ParseSampledHeaderConfig -/

/-- `ParseSampledHeaderConfig(flowMessage, &h, config)`: protocol 1 (Ethernet) goes to the dissector, with the default
    environment when `config` is the nil interface; everything else leaves the message alone. What is dissected is the
    header data cut to the announced length (`if n := int(OriginalLength); n < len(data) { data = data[:n] }`: the XDR
    padding the decoder keeps is not dissected; `List.take` leaves a list that is not longer than `n` alone) -/
theorem parseSampledHeaderConfig_eq (m : FlowMsg) (h : TSP.SampledHeader) (cfg : Option Config) :
    TSP.ParseSampledHeaderConfig m h cfg =
      if h.Protocol.toNat = 1 then parsePacket (cfg.getD {}) m (h.HeaderData.take h.OriginalLength.toNat) else .ok m := by
  unfold TSP.ParseSampledHeaderConfig
  -- `if n < len(data) { data = data[:n] }` then the rest `k` on `data`: the rest on `data.take n`
  have hcut : ∀ (k : Bytes → Res FlowMsg) (d : Bytes) (n : Nat),
      (if decide (n < d.length) then Go.sliceTo d n >>= fun t => k t else k d) = k (d.take n) := by
    intro k d n
    by_cases hn : n < d.length
    · simp [hn, Go.sliceTo, Nat.le_of_lt hn]
    · simp [hn, List.take_of_length_le (Nat.le_of_not_lt hn)]
  simp only [hcut]
  by_cases hp : h.Protocol = 1
  · have : h.Protocol.toNat = 1 := by rw [hp]; rfl
    cases cfg with
    | none => simp [hp, this, Go.ParsePacket, Go.DefaultEnvironment]
    | some c => simp [hp, this, Go.ParsePacket]
  · have : ¬ h.Protocol.toNat = 1 := fun hh => hp (UInt32.toNat_inj.mp (by rw [hh]; rfl))
    simp [hp, this]

/-! ### the arms of `switch recordData := record.Data.(type)`: one lemma per record kind -/

/-- what the loop carries: the message, the three address locals (never read), the hidden range counter -/
abbrev St := FlowMsg × Bytes × Bytes × Bytes × Int
abbrev Step := Res (Go.Ctl St FlowMsg)

/-- one record done: the message of the model's `applyRecord` (or its error), the locals, the counter advanced -/
def stepOf (r : Res FlowMsg) (nh src dst : Bytes) (i : Int) : Step :=
  r >>= fun m' => .ok (.next (m', nh, src, dst, i + 1))

theorem case_sampledHeader (cfg : Option Config) (m : FlowMsg) (nh src dst : Bytes) (i : Int) (hd : TSP.RecordHeader)
    (v : TSP.SampledHeader) :
    TSP.SearchSFlowSampleConfig_case_SampledHeader m cfg nh src dst i v =
      stepOf (applyRecord cfg m (flowRecord ⟨hd, .SampledHeader v⟩)) nh src dst i := by
  simp only [TSP.SearchSFlowSampleConfig_case_SampledHeader, parseSampledHeaderConfig_eq, stepOf, applyRecord, flowRecord,
    recordData, u32_toNat_ofNat_toNat, List.getD_cons_zero, List.getD_cons_succ]

theorem case_sampledIPv4 (cfg : Option Config) (m : FlowMsg) (nh src dst : Bytes) (i : Int) (hd : TSP.RecordHeader)
    (v : TSP.SampledIPv4) :
    TSP.SearchSFlowSampleConfig_case_SampledIPv4 m nh src dst i v =
      stepOf (applyRecord cfg m (flowRecord ⟨hd, .SampledIPv4 v⟩)) nh v.SampledIPBase.SrcIP v.SampledIPBase.DstIP i := by
  simp [TSP.SearchSFlowSampleConfig_case_SampledIPv4, stepOf, applyRecord, flowRecord, recordData, ipBaseVals, vNat, vBytes,
    Sflow.V.nat, Sflow.V.bytes, u32_toNat_ofNat_toNat]

theorem case_sampledIPv6 (cfg : Option Config) (m : FlowMsg) (nh src dst : Bytes) (i : Int) (hd : TSP.RecordHeader)
    (v : TSP.SampledIPv6) :
    TSP.SearchSFlowSampleConfig_case_SampledIPv6 m nh src dst i v =
      stepOf (applyRecord cfg m (flowRecord ⟨hd, .SampledIPv6 v⟩)) nh v.SampledIPBase.SrcIP v.SampledIPBase.DstIP i := by
  simp [TSP.SearchSFlowSampleConfig_case_SampledIPv6, stepOf, applyRecord, flowRecord, recordData, ipBaseVals, vNat, vBytes,
    Sflow.V.nat, Sflow.V.bytes, u32_toNat_ofNat_toNat]

theorem case_extendedRouter (cfg : Option Config) (m : FlowMsg) (nh src dst : Bytes) (i : Int) (hd : TSP.RecordHeader)
    (v : TSP.ExtendedRouter) :
    TSP.SearchSFlowSampleConfig_case_ExtendedRouter m nh src dst i v =
      stepOf (applyRecord cfg m (flowRecord ⟨hd, .ExtendedRouter v⟩)) v.NextHop src dst i := by
  simp [TSP.SearchSFlowSampleConfig_case_ExtendedRouter, stepOf, applyRecord, flowRecord, recordData]

theorem case_extendedSwitch (cfg : Option Config) (m : FlowMsg) (nh src dst : Bytes) (i : Int) (hd : TSP.RecordHeader)
    (v : TSP.ExtendedSwitch) :
    TSP.SearchSFlowSampleConfig_case_ExtendedSwitch m nh src dst i v =
      stepOf (applyRecord cfg m (flowRecord ⟨hd, .ExtendedSwitch v⟩)) nh src dst i := by
  simp [TSP.SearchSFlowSampleConfig_case_ExtendedSwitch, stepOf, applyRecord, flowRecord, recordData, vNat, Sflow.V.nat]

theorem case_extendedGateway (cfg : Option Config) (m : FlowMsg) (nh src dst : Bytes) (i : Int) (hd : TSP.RecordHeader)
    (v : TSP.ExtendedGateway) :
    TSP.SearchSFlowSampleConfig_case_ExtendedGateway m nh src dst i v =
      stepOf (applyRecord cfg m (flowRecord ⟨hd, .ExtendedGateway v⟩)) v.NextHop src dst i := by
  have hsrc : (v.SrcAS > 0) ↔ (v.SrcAS.toNat > 0) := by
    show (0 : UInt32) < v.SrcAS ↔ _
    rw [UInt32.lt_iff_toNat_lt]; rfl
  cases hp : v.ASPath with
  | nil =>
    simp only [TSP.SearchSFlowSampleConfig_case_ExtendedGateway, stepOf, applyRecord, flowRecord, recordData, hp,
      List.length_nil, List.map_nil, List.getLast?_nil, List.getD_cons_zero, List.getD_cons_succ, ok_bind]
    by_cases h : v.SrcAS > 0
    · have h' := hsrc.mp h
      simp [h, h']
    · have h' : ¬ v.SrcAS.toNat > 0 := fun hh => h (hsrc.mpr hh)
      simp [h, h']
  | cons x xs =>
    have hlen : (((x :: xs).length : Nat) : Int) - 1 = ((xs.length : Nat) : Int) := by simp
    have hpos : (((x :: xs).length : Nat) : Int) > 0 := by simp
    have hlast : ((x :: xs).map UInt32.toNat).getLast? = some ((x :: xs)[xs.length]'(by simp)).toNat := by
      rw [List.getLast?_map, List.getLast?_eq_getElem?]
      simp [List.getElem?_eq_getElem]
    have hhead : ((x :: xs).map UInt32.toNat).headD 0 = x.toNat := rfl
    have h0 : Go.idxLI (x :: xs) (0 : Int) = .ok x := idxLI_nat (l := x :: xs) (k := 0) (by simp)
    simp only [TSP.SearchSFlowSampleConfig_case_ExtendedGateway, stepOf, applyRecord, flowRecord, recordData, hp, hlen,
      hpos, decide_true, if_true, idxLI_nat (l := x :: xs) (k := xs.length) (by simp), h0, hlast, hhead, ok_bind,
      List.getD_cons_zero, List.getD_cons_succ]
    by_cases h : v.SrcAS > 0
    · have h' := hsrc.mp h
      simp [h, h']
    · have h' : ¬ v.SrcAS.toNat > 0 := fun hh => h (hsrc.mpr hh)
      simp [h, h']

/-! ### the loop over the records of one sample -/

/-- one turn of `for _, record := range records`: the model's `applyRecord` on the record at the counter -/
theorem loop1_body_eq (cfg : Option Config) (recs : List TSP.FlowRecord) (m : FlowMsg) (nh src dst : Bytes) (k : Nat)
    (hk : k < recs.length) :
    ∃ nh' src' dst', TSP.SearchSFlowSampleConfig_loop1_body cfg recs (recs.length : Int) m nh src dst (k : Int) =
      stepOf (applyRecord cfg m (flowRecord recs[k])) nh' src' dst' (k : Int) := by
  have hlt : ((k : Int) < (recs.length : Int)) := by omega
  simp only [TSP.SearchSFlowSampleConfig_loop1_body, hlt, decide_true, if_true, idxLI_nat hk, ok_bind]
  generalize recs[k] = r
  obtain ⟨hd, d⟩ := r
  cases d with
  | SampledHeader v => exact ⟨_, _, _, case_sampledHeader cfg m nh src dst k hd v⟩
  | SampledIPv4 v => exact ⟨_, _, _, case_sampledIPv4 cfg m nh src dst k hd v⟩
  | SampledIPv6 v => exact ⟨_, _, _, case_sampledIPv6 cfg m nh src dst k hd v⟩
  | ExtendedRouter v => exact ⟨_, _, _, case_extendedRouter cfg m nh src dst k hd v⟩
  | ExtendedGateway v => exact ⟨_, _, _, case_extendedGateway cfg m nh src dst k hd v⟩
  | ExtendedSwitch v => exact ⟨_, _, _, case_extendedSwitch cfg m nh src dst k hd v⟩
  | nil => exact ⟨nh, src, dst, rfl⟩
  | SampledEthernet v => exact ⟨nh, src, dst, rfl⟩
  | EgressQueue v => exact ⟨nh, src, dst, rfl⟩
  | ExtendedACL v => exact ⟨nh, src, dst, rfl⟩
  | ExtendedFunction v => exact ⟨nh, src, dst, rfl⟩
  | RawRecord v => exact ⟨nh, src, dst, rfl⟩

theorem loop1_body_done (cfg : Option Config) (recs : List TSP.FlowRecord) (m : FlowMsg) (nh src dst : Bytes) (k : Nat)
    (hk : recs.length ≤ k) :
    TSP.SearchSFlowSampleConfig_loop1_body cfg recs (recs.length : Int) m nh src dst (k : Int) =
      .ok (.brk (m, nh, src, dst, (k : Int))) := by
  have hlt : ¬ ((k : Int) < (recs.length : Int)) := by omega
  simp only [TSP.SearchSFlowSampleConfig_loop1_body, hlt, decide_false, Bool.false_eq_true, if_false]

/-- the whole loop from counter `k` on: `applyRecords` over the records that are left (its error, or its message and the
    loop left through its condition) -/
theorem loop1_eq (cfg : Option Config) (recs : List TSP.FlowRecord) :
    ∀ (fuel k : Nat) (m : FlowMsg) (nh src dst : Bytes), k ≤ recs.length → recs.length - k < fuel →
      (∃ e, applyRecords cfg ((recs.drop k).map flowRecord) m = .error e ∧
        TSP.SearchSFlowSampleConfig_loop1 cfg recs (recs.length : Int) fuel m nh src dst (k : Int) = .error e) ∨
      (∃ m' nh' src' dst', applyRecords cfg ((recs.drop k).map flowRecord) m = .ok m' ∧
        TSP.SearchSFlowSampleConfig_loop1 cfg recs (recs.length : Int) fuel m nh src dst (k : Int) =
          .ok (.brk (m', nh', src', dst', (recs.length : Int)))) := by
  intro fuel
  induction fuel with
  | zero => intro k m nh src dst _ h; omega
  | succ fuel ih =>
    intro k m nh src dst hk hf
    by_cases hlt : k < recs.length
    · obtain ⟨nh', src', dst', hb⟩ := loop1_body_eq cfg recs m nh src dst k hlt
      have hdrop : recs.drop k = recs[k] :: recs.drop (k + 1) := List.drop_eq_getElem_cons hlt
      simp only [TSP.SearchSFlowSampleConfig_loop1, hb, hdrop, List.map_cons, applyRecords, stepOf]
      cases hr : applyRecord cfg m (flowRecord recs[k]) with
      | error e => exact Or.inl ⟨e, rfl, rfl⟩
      | ok m1 =>
        have hc : ((k : Int) + 1) = ((k + 1 : Nat) : Int) := by omega
        simp only [ok_bind, hc]
        exact ih (k + 1) m1 nh' src' dst' (by omega) (by omega)
    · have hkeq : k = recs.length := by omega
      subst hkeq
      refine Or.inr ⟨m, nh, src, dst, ?_, ?_⟩
      · simp [applyRecords]
      · simp only [TSP.SearchSFlowSampleConfig_loop1, loop1_body_done cfg recs m nh src dst recs.length (Nat.le_refl _),
          ok_bind]

/-! ### SearchSFlowSampleConfig -/

/-- the model's conversion of one sample on an arbitrary message (the hand model `convertSample` starts from the
    `Reset()` message, see `searchModel_convertSample`): the sample-level assignments, then the records; a sample that is
    neither a flow sample nor an expanded flow sample has no records to go through -/
def searchModel (cfg : Option Config) (m : FlowMsg) : Sflow.Sample → Res FlowMsg
  | .flow _ vals recs =>
    applyRecords cfg recs
      { m with type_ := 1, samplingRate := vals.getD 0 0, inIf := vals.getD 3 0, outIf := vals.getD 4 0, packets := 1 }
  | .expFlow _ vals recs =>
    applyRecords cfg recs
      { m with type_ := 1, samplingRate := vals.getD 0 0, inIf := vals.getD 4 0, outIf := vals.getD 6 0, packets := 1 }
  | _ => .ok { m with type_ := 1, packets := 1 }

theorem searchModel_convertSample (cfg : Option Config) (s : Sflow.Sample) (r : Res FlowMsg)
    (h : convertSample cfg s = some r) : searchModel cfg FlowMsg.empty s = r := by
  cases s <;> simp [convertSample] at h <;> subst h <;> rfl

/-- the tail of SearchSFlowSampleConfig after the sample-level switch: `Packets = 1`, the loop, `return nil` -/
theorem search_tail (cfg : Option Config) (recs : List TSP.FlowRecord) (m : FlowMsg) :
    (TSP.SearchSFlowSampleConfig_loop1 cfg recs (recs.length : Int) ((recs.length : Int).toNat + 1) m [] [] [] (0 : Int) >>=
      fun t => Go.Ctl.elim t (fun x => .ok x) fun c => (.ok c.1 : Res FlowMsg)) =
    applyRecords cfg (recs.map flowRecord) m := by
  have hfuel : recs.length - 0 < (recs.length : Int).toNat + 1 := by simp
  rcases loop1_eq cfg recs ((recs.length : Int).toNat + 1) 0 m [] [] [] (Nat.zero_le _) hfuel with
    ⟨e, h1, h2⟩ | ⟨m', nh', src', dst', h1, h2⟩
  · simp only [List.drop_zero] at h1
    have h2' : TSP.SearchSFlowSampleConfig_loop1 cfg recs (recs.length : Int) ((recs.length : Int).toNat + 1) m [] [] []
        (0 : Int) = .error e := h2
    rw [h1, h2']; rfl
  · simp only [List.drop_zero] at h1
    have h2' : TSP.SearchSFlowSampleConfig_loop1 cfg recs (recs.length : Int) ((recs.length : Int).toNat + 1) m [] [] []
        (0 : Int) = .ok (.brk (m', nh', src', dst', (recs.length : Int))) := h2
    rw [h1, h2']; rfl

/-- SearchSFlowSampleConfig, for every message, sample and configuration -/
theorem searchSFlowSampleConfig_eq (m : FlowMsg) (s : TSP.Sample) (cfg : Option Config) :
    TSP.SearchSFlowSampleConfig m s cfg = searchModel cfg m (sample s) := by
  cases s with
  | FlowSample v =>
    simp only [TSP.SearchSFlowSampleConfig, sample, searchModel, List.getD_cons_zero, List.getD_cons_succ,
      u32_toNat_ofNat_toNat]
    exact search_tail cfg v.Records _
  | ExpandedFlowSample v =>
    simp only [TSP.SearchSFlowSampleConfig, sample, searchModel, List.getD_cons_zero, List.getD_cons_succ,
      u32_toNat_ofNat_toNat]
    exact search_tail cfg v.Records _
  | nil => rfl
  | CounterSample v => rfl
  | DropSample v => rfl

/-- … and against the hand model: on the `Reset()` message the translated function is `convertSample` -/
theorem searchSFlowSampleConfig_convertSample (s : TSP.Sample) (cfg : Option Config) (r : Res FlowMsg)
    (h : convertSample cfg (sample s) = some r) : TSP.SearchSFlowSampleConfig FlowMsg.empty s cfg = r := by
  rw [searchSFlowSampleConfig_eq]; exact searchModel_convertSample cfg _ r h

/-! ### GetSFlowFlowSamples -/

/-- `case sflow.FlowSample, case sflow.ExpandedFlowSample` -/
def isFlow : TSP.Sample → Bool
  | .FlowSample _ => true
  | .ExpandedFlowSample _ => true
  | _ => false

theorem idxL_nat {α : Type} {l : List α} {k : Nat} (h : k < l.length) : Go.idxL l k = .ok l[k] := by
  simp [Go.idxL, List.getElem?_eq_getElem h]

theorem getSFlowFlowSamples_loop (ss : List TSP.Sample) :
    ∀ (fuel k : Nat) (acc : List TSP.Sample), k ≤ ss.length → ss.length - k < fuel →
      TSP.GetSFlowFlowSamples_loop1 ss ss.length fuel acc k = .ok (acc ++ (ss.drop k).filter isFlow, ss.length) := by
  intro fuel
  induction fuel with
  | zero => intro k acc _ h; omega
  | succ fuel ih =>
    intro k acc hk hf
    by_cases hlt : k < ss.length
    · have hdrop : ss.drop k = ss[k] :: ss.drop (k + 1) := List.drop_eq_getElem_cons hlt
      simp only [TSP.GetSFlowFlowSamples_loop1, hlt, decide_true, if_true, idxL_nat hlt, ok_bind, hdrop]
      cases hs : ss[k] <;>
        simp only [ih (k + 1) _ (by omega) (by omega), List.filter_cons, isFlow, if_true, Bool.false_eq_true, if_false,
          List.append_assoc, List.cons_append, List.nil_append]
    · have hkeq : k = ss.length := by omega
      subst hkeq
      simp [TSP.GetSFlowFlowSamples_loop1]

/-- GetSFlowFlowSamples keeps the flow samples and the expanded flow samples, in order -/
theorem getSFlowFlowSamples_eq (p : TSP.Packet) : TSP.GetSFlowFlowSamples p = .ok (p.Samples.filter isFlow) := by
  simp only [TSP.GetSFlowFlowSamples, getSFlowFlowSamples_loop p.Samples (p.Samples.length + 1) 0 [] (Nat.zero_le _)
    (by omega), ok_bind, List.drop_zero, List.nil_append]

/-- the samples it keeps are those the hand model converts (`convertSample … ≠ none`) -/
theorem isFlow_convertSample (cfg : Option Config) (s : TSP.Sample) : (convertSample cfg (sample s)).isSome = isFlow s := by
  cases s <;> rfl

/-! ### the hand model's sample loop over the translated pieces

  `SearchSFlowSamplesConfig` itself (pool `Get`, `Reset`, `append` of the producer message) is outside the translated
  subset. What is proved: the hand model's `convertSamples` is the translated `SearchSFlowSampleConfig`, run on a `Reset()`
  message for every sample the translated `GetSFlowFlowSamples` keeps, the first error ending everything. -/

/-- `for … { if err := f(…); err != nil { return nil, err }; set = append(set, msg) }` -/
def collect : List (Res FlowMsg) → Res (List FlowMsg)
  | [] => .ok []
  | r :: rs =>
    match r with
    | .error e => .error e
    | .ok m =>
      match collect rs with
      | .error e => .error e
      | .ok ms => .ok (m :: ms)

theorem convertSamples_translated (cfg : Option Config) (ss : List TSP.Sample) :
    convertSamples cfg (ss.map sample) =
      collect ((ss.filter isFlow).map fun s => TSP.SearchSFlowSampleConfig FlowMsg.empty s cfg) := by
  induction ss with
  | nil => rfl
  | cons s ss ih =>
    cases hs : s with
    | nil => simpa [convertSamples, sample, convertSample, isFlow] using ih
    | CounterSample v => simpa [convertSamples, sample, convertSample, isFlow] using ih
    | DropSample v => simpa [convertSamples, sample, convertSample, isFlow] using ih
    | FlowSample v =>
      have h := searchSFlowSampleConfig_convertSample (.FlowSample v) cfg _ rfl
      simp only [List.map_cons, List.filter_cons, isFlow, if_true, collect, h, ← ih]
      simp only [convertSamples, sample, convertSample]
      cases applyRecords cfg _ _ <;> rfl
    | ExpandedFlowSample v =>
      have h := searchSFlowSampleConfig_convertSample (.ExpandedFlowSample v) cfg _ rfl
      simp only [List.map_cons, List.filter_cons, isFlow, if_true, collect, h, ← ih]
      simp only [convertSamples, sample, convertSample]
      cases applyRecords cfg _ _ <;> rfl

end Goflow.C09Trans
